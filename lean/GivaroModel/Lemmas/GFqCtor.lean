/-
C05 — construction_valid: the table fill of the `GFqDom` constructors (`Model/GFqCtor.lean`) yields tables accepted by
`tablesValid`, for every prime `p`, exponent `k ≥ 1`, irreducible monic modulus and generator of multiplicative order `q - 1`
(the results of the polynomial / primitive-root searches enter as hypotheses: C09's and C13's contracts).
-/
import GivaroModel.Model.GFqCtor
import GivaroModel.Lemmas.GFqField
import Mathlib.RingTheory.IntegralDomain
import Mathlib.FieldTheory.Finite.Basic
namespace Givaro.Lemmas.GFqZech
open Givaro.Model.Zech Givaro.Spec.GFq Givaro.Model.GFqCtor

theorem iterGo_size (f : Nat → Nat) : ∀ n x acc, (iterGo f n x acc).size = acc.size + n
  | 0, _, _ => rfl
  | n + 1, x, acc => by rw [iterGo, iterGo_size f n, Array.size_push]; omega

theorem iterGo_getD_lt (f : Nat → Nat) : ∀ n x (acc : Array Nat) i, i < acc.size →
    (iterGo f n x acc).getD i 0 = acc.getD i 0
  | 0, _, _, _, _ => rfl
  | n + 1, x, acc, i, h => by
    rw [iterGo, iterGo_getD_lt f n _ _ i (by rw [Array.size_push]; omega)]
    simp [Array.getD_eq_getD_getElem?, Array.getElem?_push, Nat.ne_of_lt h]

theorem iterGo_getD_ge (f : Nat → Nat) : ∀ n x (acc : Array Nat) j, j < n →
    (iterGo f n x acc).getD (acc.size + j) 0 = f^[j] x
  | 0, _, _, _, h => by omega
  | n + 1, x, acc, 0, _ => by
    rw [iterGo, Nat.add_zero, iterGo_getD_lt f n _ _ _ (by rw [Array.size_push]; omega)]
    simp [Array.getD_eq_getD_getElem?]
  | n + 1, x, acc, j + 1, h => by
    rw [iterGo]
    have := iterGo_getD_ge f n (f x) (acc.push x) j (by omega)
    rw [Array.size_push] at this
    rw [show acc.size + (j + 1) = acc.size + 1 + j by omega, this, Function.iterate_succ_apply]


/-- `_log2pol` as a function of the index (what `buildLog2pol` stores) -/
def l2pF (F : Field) (g : Nat) : Nat → Nat
  | 0 => 0
  | j + 1 =>
    if F.k ≤ 1 then (fun a => (a * g) % F.p)^[j] ((1 * g) % F.p)
    else if j + 1 = F.q - 1 then 1 else (fun a => F.cmul a g)^[j] g

theorem buildLog2pol_size (F : Field) (g : Nat) (hk : 1 ≤ F.k) (hp : 1 ≤ F.p) (hq : 2 ≤ F.q) :
    (buildLog2pol F g).size = F.q := by
  unfold buildLog2pol
  split
  · rename_i h
    have hk1 : F.k = 1 := by omega
    rw [iterGo_size]; simp only [List.size_toArray, List.length_cons, List.length_nil]
    unfold Field.q; rw [hk1, pow_one]; omega
  · rw [Array.size_push, iterGo_size]; simp only [List.size_toArray, List.length_cons, List.length_nil]; omega

theorem buildLog2pol_getD (F : Field) (g : Nat) (hk : 1 ≤ F.k) (hp : 1 ≤ F.p) (hq : 2 ≤ F.q) (i : Nat) (hi : i < F.q) :
    (buildLog2pol F g).getD i 0 = l2pF F g i := by
  have hqp : F.k = 1 → F.q = F.p := by intro h; unfold Field.q; rw [h, pow_one]
  unfold buildLog2pol
  cases i with
  | zero =>
    split
    · rw [iterGo_getD_lt _ _ _ _ _ (by simp)]; rfl
    · have : (0 : Nat) < (iterGo (fun a => F.cmul a g) (F.q - 2) g #[0]).size := by rw [iterGo_size]; simp
      simp only [Array.getD_eq_getD_getElem?, Array.getElem?_push, Nat.ne_of_lt this, ↓reduceIte]
      have := iterGo_getD_lt (fun a => F.cmul a g) (F.q - 2) g #[0] 0 (by simp)
      simp only [Array.getD_eq_getD_getElem?] at this
      rw [this]; rfl
  | succ j =>
    split
    · rename_i h
      have hk1 : F.k = 1 := by omega
      have := iterGo_getD_ge (fun a => (a * g) % F.p) (F.p - 1) ((1 * g) % F.p) #[0] j (by rw [hqp hk1] at hi; omega)
      simp only [List.size_toArray, List.length_cons, List.length_nil] at this
      have e : j + 1 = 0 + 1 + j := by omega
      conv_lhs => rw [e, this]
      simp only [l2pF, h, ↓reduceIte]
    · rename_i h
      have hsz : (iterGo (fun a => F.cmul a g) (F.q - 2) g #[0]).size = F.q - 1 := by
        rw [iterGo_size]; simp only [List.size_toArray, List.length_cons, List.length_nil]; omega
      simp only [Array.getD_eq_getD_getElem?, Array.getElem?_push, hsz]
      by_cases hlast : j + 1 = F.q - 1
      · simp only [hlast, ↓reduceIte, Option.getD_some, l2pF, h]
      · simp only [hlast, ↓reduceIte]
        have := iterGo_getD_ge (fun a => F.cmul a g) (F.q - 2) g #[0] j (by omega)
        simp only [List.size_toArray, List.length_cons, List.length_nil, Array.getD_eq_getD_getElem?] at this
        have e : j + 1 = 0 + 1 + j := by omega
        conv_lhs => rw [e, this]
        simp only [l2pF, h, ↓reduceIte, hlast]


theorem fill_prefix (q : Nat) (l : Nat → Nat) (hl : ∀ i, i < q → l i < q)
    (hinj : ∀ i j, i < q → j < q → l i = l j → i = j) :
    ∀ n, n ≤ q →
      let A := (List.range n).foldl (fun (arr : Array Nat) i => arr.setIfInBounds (l i) i) (Array.replicate q 0)
      A.size = q ∧ ∀ i, i < n → A.getD (l i) 0 = i := by
  intro n
  induction n with
  | zero => intro _; simp
  | succ n ih =>
    intro hn
    obtain ⟨hs, hv⟩ := ih (by omega)
    simp only [List.range_succ, List.foldl_append, List.foldl_cons, List.foldl_nil]
    refine ⟨by rw [Array.size_setIfInBounds]; exact hs, ?_⟩
    intro i hi
    simp only [Array.getD_eq_getD_getElem?, Array.getElem?_setIfInBounds]
    by_cases hin : i = n
    · subst hin
      simp [hs, hl i (by omega)]
    · have hne : l n ≠ l i := fun h => hin (hinj n i (by omega) (by omega) h).symm
      simp only [hne, ↓reduceIte]
      have := hv i (by omega)
      simpa only [Array.getD_eq_getD_getElem?] using this

theorem fillPol2log_spec (q : Nat) (l2p : Array Nat) (hl : ∀ i, i < q → l2p.getD i 0 < q)
    (hinj : ∀ i j, i < q → j < q → l2p.getD i 0 = l2p.getD j 0 → i = j) :
    (fillPol2log q l2p).size = q ∧ ∀ i, i < q → (fillPol2log q l2p).getD (l2p.getD i 0) 0 = i :=
  fill_prefix q (fun i => l2p.getD i 0) hl hinj q (Nat.le_refl _)

theorem buildPlus1_size (F : Field) (l2p p2l : Array Nat) (m : Nat) : (buildPlus1 F l2p p2l m).size = F.q := by
  unfold buildPlus1; simp

theorem buildPlus1_getD (F : Field) (l2p p2l : Array Nat) (m i : Nat) (hi : i < F.q) :
    (buildPlus1 F l2p p2l m).getD i 0 =
      if i = m then 0 else if i = 0 then 0 else plus1Entry F l2p p2l i := by
  unfold buildPlus1
  simp only [Array.getD_eq_getD_getElem?, Array.getElem?_setIfInBounds, Array.size_map, Array.size_range]
  by_cases h : m = i
  · subst h; simp [hi]
  · have h' : ¬ i = m := fun e => h e.symm
    simp [h, h', hi]


theorem undigits_lt {p : Nat} (hp : 0 < p) : ∀ (ds : List Nat), (∀ d ∈ ds, d < p) → undigits p ds < p ^ ds.length
  | [], _ => by simp [undigits]
  | d :: ds, h => by
    have hd : d < p := h d (List.mem_cons_self ..)
    have ih := undigits_lt hp ds (fun e he => h e (List.mem_cons_of_mem _ he))
    simp only [undigits, List.length_cons, pow_succ]
    calc d + p * undigits p ds < p + p * undigits p ds := by omega
      _ = p * (undigits p ds + 1) := by ring
      _ ≤ p * p ^ ds.length := Nat.mul_le_mul_left _ ih
      _ = p ^ ds.length * p := by ring

theorem cmul_lt (F : Field) (hp : 2 ≤ F.p) (hk : 1 ≤ F.k) (a b : Nat) : F.cmul a b < F.q := by
  unfold Field.cmul
  split
  · rename_i h
    have hk1 : F.k = 1 := by omega
    unfold Field.q; rw [hk1, pow_one]; exact Nat.mod_lt _ (by omega)
  · rename_i h
    have hfl : F.flow.length = F.k := len_flow F
    have hr := root_modulus F
    rw [← hfl] at hr
    have hp0 : ((F.p : Nat) : AdjoinRoot (modulus F)) = 0 := by
      have : ((F.p : Nat) : AdjoinRoot (modulus F)) = AdjoinRoot.of (modulus F) ((F.p : Nat) : ZMod F.p) :=
        (map_natCast (AdjoinRoot.of (modulus F)) F.p).symm
      rw [this, ZMod.natCast_self, map_zero]
    obtain ⟨_, m2⟩ := mul_spec (AdjoinRoot.root (modulus F)) hp0 (by omega) F.flow (digits F.p F.k a) (by omega)
      (by rw [len_digits, hfl]) hr (digits F.p F.k b)
    have hlt : ∀ d ∈ polyMul F.p F.flow (digits F.p F.k a) (digits F.p F.k b), d < F.p := by
      cases hb : digits F.p F.k b with
      | nil => have := len_digits F.p F.k b; rw [hb] at this; simp at this; omega
      | cons b0 bs =>
        intro d hd
        simp only [polyMul] at hd
        obtain ⟨_, l2⟩ := mul_spec (AdjoinRoot.root (modulus F)) hp0 (by omega) F.flow (digits F.p F.k a) (by omega)
          (by rw [len_digits, hfl]) hr bs
        obtain ⟨_, l3⟩ := mulX_spec (AdjoinRoot.root (modulus F)) hp0 (by omega) F.flow _ (by omega) l2 hr
        exact lt_polyAdd (by omega) _ _ (by rw [l3]; simp [polyScale, len_digits, hfl]) d hd
    have := undigits_lt (by omega : 0 < F.p) _ hlt
    rw [m2, hfl] at this
    exact this

theorem csucc_lt (F : Field) (hp : 2 ≤ F.p) (hk : 1 ≤ F.k) (a : Nat) (ha : a < F.q) : F.csucc a < F.q := by
  unfold Field.csucc
  split
  · omega
  · rename_i h
    by_contra hge
    have heq : a + 1 = F.q := by omega
    have : F.p ∣ F.q := by unfold Field.q; exact dvd_pow_self _ (by omega)
    obtain ⟨c, hc⟩ := this
    have hc0 : 0 < c := by
      rcases Nat.eq_zero_or_pos c with h0 | h0
      · rw [h0] at hc; omega
      · exact h0
    apply h
    have : a = F.p * (c - 1) + (F.p - 1) := by
      have : F.p * c = F.p * (c - 1) + F.p := by
        rw [← Nat.mul_succ]; congr 1; omega
      omega
    rw [this, Nat.mul_add_mod]; exact Nat.mod_eq_of_lt (by omega)


section ctor
variable (F : Field) (g : Nat) [Fact (Nat.Prime F.p)] [Fact (Irreducible (modulus F))]

theorem decA_decoding (hk : 1 ≤ F.k) : Decoding (AdjoinRoot (modulus F)) F (decA F) := decoding_adjoinRoot F hk

theorem l2pF_step (hk : 1 ≤ F.k) (i : Nat) (h1 : 1 ≤ i) (h2 : if F.k ≤ 1 then i + 1 ≤ F.q - 1 else i + 1 ≤ F.q - 2) :
    l2pF F g (i + 1) = F.cmul (l2pF F g i) g := by
  obtain ⟨j, rfl⟩ : ∃ j, i = j + 1 := ⟨i - 1, by omega⟩
  by_cases hk1 : F.k ≤ 1
  · simp only [hk1, ↓reduceIte] at h2
    simp only [l2pF, hk1, ↓reduceIte, Function.iterate_succ_apply', Field.cmul]
  · simp only [hk1, ↓reduceIte] at h2
    have e1 : ¬ (j + 1 + 1 = F.q - 1) := by omega
    have e2 : ¬ (j + 1 = F.q - 1) := by omega
    simp only [l2pF, hk1, ↓reduceIte, e1, e2, Function.iterate_succ_apply']

theorem l2pF_one (hk : 1 ≤ F.k) (hg : g < F.q) (hq4 : ¬ F.k ≤ 1 → 4 ≤ F.q) : l2pF F g 1 = g := by
  by_cases hk1 : F.k ≤ 1
  · have hk' : F.k = 1 := by omega
    have : F.q = F.p := by unfold Field.q; rw [hk', pow_one]
    simp only [l2pF, hk1, ↓reduceIte, Function.iterate_zero, id_eq, one_mul]
    exact Nat.mod_eq_of_lt (by omega)
  · have := hq4 hk1
    have e : ¬ (0 + 1 = F.q - 1) := by omega
    simp only [l2pF, hk1, ↓reduceIte, e, Function.iterate_zero, id_eq]


structure CtorFacts : Prop where
  q2 : 2 ≤ F.q
  lt : ∀ i, i < F.q → l2pF F g i < F.q
  pow : ∀ i, 1 ≤ i → i ≤ F.q - 1 → decA F (l2pF F g i) = decA F g ^ i
  inj : ∀ i j, i < F.q → j < F.q → l2pF F g i = l2pF F g j → i = j
  chain : ∀ j, j < F.q - 2 → l2pF F g (j + 2) = F.cmul (l2pF F g (j + 1)) g
  last : l2pF F g (F.q - 1) = 1
  one : l2pF F g 1 = g
  m1 : 1 ≤ mOneOf F
  m2 : mOneOf F ≤ F.q - 1
  mneg : decA F g ^ mOneOf F = -1
  gne : decA F g ≠ 0
  gcard : decA F g ^ (F.q - 1) = 1

theorem pow_inj_range {K : Type*} [_root_.Field K] (γ : K) (n : Nat) (hord : orderOf γ = n) (hγ : γ ≠ 0)
    (i j : Nat) (hi1 : 1 ≤ i) (hi2 : i ≤ n) (hj1 : 1 ≤ j) (hj2 : j ≤ n) (h : γ ^ i = γ ^ j) : i = j := by
  have e1 : i = (i - 1) + 1 := by omega
  have e2 : j = (j - 1) + 1 := by omega
  rw [e1, e2, pow_succ, pow_succ] at h
  have h' := mul_right_cancel₀ hγ h
  have := pow_injOn_Iio_orderOf (x := γ) (by rw [hord]; simp only [Set.mem_Iio]; omega)
    (by rw [hord]; simp only [Set.mem_Iio]; omega) h'
  omega

theorem ctorFacts (hk : 1 ≤ F.k) (hg : g < F.q) (hord : orderOf (decA F g) = F.q - 1) : CtorFacts F g := by
  have hprime : Nat.Prime F.p := Fact.out
  have hp2 : 2 ≤ F.p := hprime.two_le
  have hq2 : 2 ≤ F.q := by
    unfold Field.q
    calc 2 ≤ F.p := hp2
      _ = F.p ^ 1 := (pow_one _).symm
      _ ≤ F.p ^ F.k := Nat.pow_le_pow_right (by omega) hk
  have hq4 : ¬ F.k ≤ 1 → 4 ≤ F.q := by
    intro h
    unfold Field.q
    calc 4 = 2 ^ 2 := by norm_num
      _ ≤ F.p ^ 2 := Nat.pow_le_pow_left hp2 2
      _ ≤ F.p ^ F.k := Nat.pow_le_pow_right (by omega) (by omega)
  have D := decA_decoding F hk
  set γ := decA F g with hγdef
  have hcard : γ ^ (F.q - 1) = 1 := by rw [← hord]; exact pow_orderOf_eq_one γ
  have hγ0 : γ ≠ 0 := by
    intro h; rw [h, zero_pow (by omega)] at hcard; exact zero_ne_one hcard
  have hone := l2pF_one F g hk hg hq4
  -- powers
  have hpow : ∀ n, n + 1 ≤ F.q - 1 → l2pF F g (n + 1) < F.q ∧ decA F (l2pF F g (n + 1)) = γ ^ (n + 1) := by
    intro n
    induction n with
    | zero => intro _; rw [hone]; exact ⟨hg, by simp [hγdef]⟩
    | succ n ih =>
      intro hn
      obtain ⟨l1, l2⟩ := ih (by omega)
      by_cases hstep : (if F.k ≤ 1 then n + 1 + 1 ≤ F.q - 1 else n + 1 + 1 ≤ F.q - 2)
      · rw [l2pF_step F g hk (n + 1) (by omega) hstep]
        refine ⟨cmul_lt F hp2 hk _ _, ?_⟩
        rw [D.mul _ _ l1 hg, l2, ← hγdef, ← pow_succ]
      · have hk1 : ¬ F.k ≤ 1 := by
          intro h; simp only [h, ↓reduceIte] at hstep; omega
        simp only [hk1, ↓reduceIte] at hstep
        have hlast : n + 1 + 1 = F.q - 1 := by omega
        have : l2pF F g (n + 1 + 1) = 1 := by simp only [l2pF, hk1, ↓reduceIte, hlast]
        rw [this]
        refine ⟨by omega, ?_⟩
        rw [D.one, hlast, hcard]
  have hlt : ∀ i, i < F.q → l2pF F g i < F.q := by
    intro i hi
    cases i with
    | zero => simp [l2pF]; omega
    | succ n => exact (hpow n (by omega)).1
  have hpw : ∀ i, 1 ≤ i → i ≤ F.q - 1 → decA F (l2pF F g i) = γ ^ i := by
    intro i h1 h2
    obtain ⟨n, rfl⟩ : ∃ n, i = n + 1 := ⟨i - 1, by omega⟩
    exact (hpow n h2).2
  have hz : decA F (l2pF F g 0) = 0 := by simp only [l2pF]; exact D.zero
  have hinj : ∀ i j, i < F.q → j < F.q → l2pF F g i = l2pF F g j → i = j := by
    intro i j hi hj h
    have hd := congrArg (decA F) h
    by_cases hi0 : i = 0 <;> by_cases hj0 : j = 0
    · omega
    · subst hi0; rw [hz, hpw j (by omega) (by omega)] at hd
      exact absurd hd.symm (pow_ne_zero _ hγ0)
    · subst hj0; rw [hz, hpw i (by omega) (by omega)] at hd
      exact absurd hd (pow_ne_zero _ hγ0)
    · rw [hpw i (by omega) (by omega), hpw j (by omega) (by omega)] at hd
      exact pow_inj_range γ (F.q - 1) hord hγ0 i j (by omega) (by omega) (by omega) (by omega) hd
  have hlast : l2pF F g (F.q - 1) = 1 := by
    apply decA_injective F _ _ (hlt _ (by omega)) (by omega)
    rw [hpw _ (by omega) (le_refl _), hcard, D.one]
  have hchain : ∀ j, j < F.q - 2 → l2pF F g (j + 2) = F.cmul (l2pF F g (j + 1)) g := by
    intro j hj
    by_cases hstep : (if F.k ≤ 1 then j + 1 + 1 ≤ F.q - 1 else j + 1 + 1 ≤ F.q - 2)
    · exact l2pF_step F g hk (j + 1) (by omega) hstep
    · have hk1 : ¬ F.k ≤ 1 := by
        intro h; simp only [h, ↓reduceIte] at hstep; omega
      simp only [hk1, ↓reduceIte] at hstep
      have hl : j + 2 = F.q - 1 := by omega
      rw [hl, hlast]
      apply decA_injective F _ _ (by omega) (cmul_lt F hp2 hk _ _)
      rw [D.one, D.mul _ _ (hlt _ (by omega)) hg, hpw _ (by omega) (by omega), ← pow_succ,
        show j + 1 + 1 = F.q - 1 by omega, hcard]
  -- mOne
  have hm : 1 ≤ mOneOf F ∧ mOneOf F ≤ F.q - 1 ∧ γ ^ mOneOf F = -1 := by
    unfold mOneOf
    by_cases h2 : F.p = 2
    · simp only [h2, ↓reduceIte]
      refine ⟨by omega, le_refl _, ?_⟩
      rw [hcard]
      have hp0 := p_zero F
      have : (1 : AdjoinRoot (modulus F)) + 1 = 0 := by
        have e : ((F.p : Nat) : AdjoinRoot (modulus F)) = 1 + 1 := by
          have : ((F.p : Nat) : AdjoinRoot (modulus F)) = ((2 : Nat) : AdjoinRoot (modulus F)) := by
            congr 1
          rw [this]; norm_num
        rw [← e]; exact hp0
      exact eq_neg_of_add_eq_zero_left this
    · simp only [h2, ↓reduceIte]
      have hodd : F.p % 2 = 1 := by
        rcases hprime.eq_two_or_odd with h | h
        · exact absurd h h2
        · exact h
      have hqodd : F.q % 2 = 1 := by unfold Field.q; rw [Nat.pow_mod, hodd]; simp
      have h2m : 2 * ((F.q - 1) / 2) = F.q - 1 := by omega
      have hq3 : 3 ≤ F.q := by omega
      refine ⟨by omega, by omega, ?_⟩
      have hsq : γ ^ ((F.q - 1) / 2) * γ ^ ((F.q - 1) / 2) = 1 := by
        rw [← pow_add, ← two_mul, h2m, hcard]
      rcases mul_self_eq_one_iff.mp hsq with h | h
      · exfalso
        have hdvd := orderOf_dvd_of_pow_eq_one h
        rw [hord] at hdvd
        have := Nat.le_of_dvd (by omega) hdvd
        omega
      · exact h
  exact { q2 := hq2, lt := hlt, pow := hpw, inj := hinj, chain := hchain, last := hlast, one := hone,
          m1 := hm.1, m2 := hm.2.1, mneg := hm.2.2, gne := hγ0, gcard := hcard }


omit [Fact (Nat.Prime F.p)] [Fact (Irreducible (modulus F))] in
theorem isPrime_complete {p : Nat} (hp : Nat.Prime p) : isPrime p = true := by
  unfold isPrime
  simp only [Bool.and_eq_true, decide_eq_true_eq, List.all_eq_true, List.mem_range, Bool.or_eq_true,
    beq_iff_eq, bne_iff_ne, ne_eq]
  refine ⟨hp.two_le, ?_⟩
  intro d _
  by_cases h2 : d < 2
  · exact Or.inl (Or.inl h2)
  by_cases hd : d = p
  · exact Or.inl (Or.inr hd)
  · refine Or.inr ?_
    intro hmod
    have hdvd : d ∣ p := Nat.dvd_of_mod_eq_zero hmod
    rcases (Nat.dvd_prime hp).mp hdvd with h | h
    · omega
    · exact hd h

omit [Fact (Nat.Prime F.p)] [Fact (Irreducible (modulus F))] in
theorem plus1Entry_eq (l2p p2l : Array Nat) (i : Nat) :
    plus1Entry F l2p p2l i = (p2l.getD (F.csucc (l2p.getD i 0)) 0 : Int) - ((F.q : Int) - 1) := by
  unfold plus1Entry Field.csucc
  simp only []
  split
  · rename_i h; rw [h]
  · rfl

/-- **construction_valid**: the table fill of the constructors, as written, produces tables the checker accepts — for every
    prime `p`, every `k ≥ 1`, every modulus `f` (monic, given by its p-adic code) that is irreducible and every generator code
    `g < q` whose class has multiplicative order `q - 1`.  (The two hypotheses are the contracts of the polynomial search, C09.) -/
theorem construct_tablesValid (hk : 1 ≤ F.k) (hmon : F.k = 1 ∨ F.monic = true) (hg : g < F.q)
    (hord : orderOf (decA F g) = F.q - 1) : (construct F g).tablesValid = true := by
  have hprime : Nat.Prime F.p := Fact.out
  have hp2 : 2 ≤ F.p := hprime.two_le
  have C := ctorFacts F g hk hg hord
  have D := decA_decoding F hk
  have hq2 := C.q2
  set m := mOneOf F with hmdef
  -- the arrays as functions
  have hsz := buildLog2pol_size F g hk (by omega) hq2
  have hget : ∀ i, i < F.q → (buildLog2pol F g).getD i 0 = l2pF F g i := buildLog2pol_getD F g hk (by omega) hq2
  have hfill := fillPol2log_spec F.q (buildLog2pol F g)
    (fun i hi => by rw [hget i hi]; exact C.lt i hi)
    (fun i j hi hj h => by rw [hget i hi, hget j hj] at h; exact C.inj i j hi hj h)
  have hl2p : ∀ i, i < F.q → (construct F g).l2p i = l2pF F g i := fun i hi => hget i hi
  have hp2l : ∀ i, i < F.q → (construct F g).p2l (l2pF F g i) = i := by
    intro i hi
    have := hfill.2 i hi
    rw [hget i hi] at this
    exact this
  have hsurj : ∀ b, b < F.q → ∃ j, j < F.q ∧ l2pF F g j = b := by
    have hb : Function.Bijective (fun i : Fin F.q => (⟨l2pF F g i.val, C.lt i.val i.isLt⟩ : Fin F.q)) := by
      rw [← Finite.injective_iff_bijective]
      intro i j h
      exact Fin.ext (C.inj i.val j.val i.isLt j.isLt (congrArg Fin.val h))
    intro b hb'
    obtain ⟨j, hj⟩ := hb.2 ⟨b, hb'⟩
    exact ⟨j.val, j.isLt, congrArg Fin.val hj⟩
  have hpl : ∀ i, i < F.q → (construct F g).pl1 i =
      if i = m then 0 else if i = 0 then 0 else
        ((construct F g).p2l (F.csucc (l2pF F g i)) : Int) - ((F.q : Int) - 1) := by
    intro i hi
    have := buildPlus1_getD F (buildLog2pol F g) (fillPol2log F.q (buildLog2pol F g)) m i hi
    rw [plus1Entry_eq, hget i hi] at this
    exact this
  have hγm : decA F g ^ m = -1 := C.mneg
  -- successor facts
  have hsucc : ∀ i, 1 ≤ i → i ≤ F.q - 1 →
      (F.csucc (l2pF F g i) = 0 ↔ i = m) := by
    intro i h1 h2
    have hs := D.succ (l2pF F g i) (C.lt i (by omega))
    rw [C.pow i h1 h2] at hs
    constructor
    · intro h0
      rw [h0, D.zero] at hs
      have : decA F g ^ i = decA F g ^ m := by rw [hγm]; exact eq_neg_of_add_eq_zero_left hs.symm
      exact pow_inj_range _ (F.q - 1) hord C.gne i m h1 h2 C.m1 C.m2 this
    · intro him
      apply decA_injective F _ _ (csucc_lt F hp2 hk _ (C.lt i (by omega))) (by omega)
      rw [hs, him, hγm, D.zero]; ring
  unfold Tables.tablesValid
  simp only [Bool.and_eq_true, decide_eq_true_eq, beq_iff_eq]
  refine ⟨⟨⟨⟨⟨⟨⟨⟨⟨⟨⟨⟨⟨isPrime_complete hprime, hk⟩, hq2⟩, ?_⟩, hsz⟩, hfill.1⟩, buildPlus1_size _ _ _ _⟩, ?_⟩, ?_⟩, ?_⟩, ?_⟩, ?_⟩, ?_⟩, ?_⟩
  · -- monic
    rcases hmon with h | h
    · simp [construct, h]
    · simp [construct, h]
  · -- l2p 0 = 0
    rw [hl2p 0 (by omega)]; rfl
  · show (1 : Int) ≤ ((m : Nat) : Int)
    have := C.m1; omega
  · show ((m : Nat) : Int) ≤ ((construct F g).q : Int) - 1
    have := C.m2
    have e : (construct F g).q = F.q := rfl
    rw [e]; omega
  · -- chain
    unfold Tables.chainOk
    simp only [Bool.and_eq_true, beq_iff_eq, List.all_eq_true, List.mem_range]
    have e : (construct F g).q = F.q := rfl
    rw [e]
    refine ⟨?_, ?_⟩
    · intro j hj
      rw [hl2p (j + 2) (by omega), hl2p (j + 1) (by omega), hl2p 1 (by omega), C.one]
      exact C.chain j hj
    · rw [hl2p _ (by omega)]; exact C.last
  · -- bij
    unfold Tables.bijOk
    simp only [Bool.and_eq_true, beq_iff_eq, List.all_eq_true, List.mem_range, decide_eq_true_eq]
    have e : (construct F g).q = F.q := rfl
    rw [e]
    intro i hi
    rw [hl2p i hi]
    exact ⟨C.lt i hi, hp2l i hi⟩
  · -- plus1
    unfold Tables.plus1Ok
    simp only [Bool.and_eq_true, beq_iff_eq, List.all_eq_true, List.mem_range, decide_eq_true_eq]
    have e : (construct F g).q = F.q := rfl
    rw [e]
    refine ⟨?_, ?_⟩
    · rw [hpl 0 (by omega)]; simp
    · intro j hj
      have hi1 : 1 ≤ j + 1 := by omega
      have hi2 : j + 1 ≤ F.q - 1 := by omega
      rw [hl2p (j + 1) (by omega)]
      have eF : (construct F g).F = F := rfl
      simp only [eF]
      by_cases hc : F.csucc (l2pF F g (j + 1)) = 0
      · have him := (hsucc (j + 1) hi1 hi2).mp hc
        simp only [hc, ↓reduceIte, Bool.and_eq_true, beq_iff_eq]
        refine ⟨?_, ?_⟩
        · rw [hpl (j + 1) (by omega)]; simp [him]
        · show ((m : Nat) : Int) = ((j + 1 : Nat) : Int)
          rw [him]
      · have him : ¬ j + 1 = m := fun h => hc ((hsucc (j + 1) hi1 hi2).mpr h)
        simp only [hc, ↓reduceIte, Bool.and_eq_true, beq_iff_eq, decide_eq_true_eq]
        have hclt := csucc_lt F hp2 hk _ (C.lt (j + 1) (by omega))
        obtain ⟨j', hj', hj'c⟩ := hsurj _ hclt
        have hp2lc : (construct F g).p2l (F.csucc (l2pF F g (j + 1))) = j' := by
          rw [← hj'c]; exact hp2l j' hj'
        have hj'0 : j' ≠ 0 := by
          intro h0; rw [h0] at hj'c; exact hc hj'c.symm
        have hj'last : j' ≠ F.q - 1 := by
          intro hl
          rw [hl, C.last] at hj'c
          have hs := D.succ (l2pF F g (j + 1)) (C.lt (j + 1) (by omega))
          rw [← hj'c, D.one, C.pow (j + 1) hi1 hi2] at hs
          have : decA F g ^ (j + 1) = 0 := by
            have := hs.symm; exact add_eq_right.mp this
          exact pow_ne_zero _ C.gne this
        rw [hpl (j + 1) (by omega)]
        simp only [him, ↓reduceIte, show ¬ (j + 1 = 0) by omega, hp2lc]
        refine ⟨⟨by omega, by omega⟩, ?_⟩
        rw [show ((j' : Int) - ((F.q : Int) - 1) + ((F.q : Int) - 1)).toNat = j' by omega, hl2p j' hj', hj'c]
  · -- mOne
    unfold Tables.mOneOk
    simp only [beq_iff_eq]
    show F.csucc ((construct F g).l2p ((m : Nat) : Int).toNat) = 0
    rw [Int.toNat_natCast, hl2p m (by have := C.m2; omega)]
    exact (hsucc m C.m1 C.m2).mpr rfl

end ctor
end Givaro.Lemmas.GFqZech

namespace Givaro.Lemmas.GFqZech
open Givaro.Model.Zech Givaro.Spec.GFq Givaro.Model.GFqCtor Polynomial

/-- for `k = 1` the modulus has degree one: irreducible whatever `_irred` holds -/
theorem modulus_irreducible_k1 (F : Field) [Fact (Nat.Prime F.p)] (hk : F.k = 1) : Irreducible (modulus F) := by
  apply Polynomial.irreducible_of_degree_eq_one
  rw [degree_eq_natDegree (modulus_monic F).ne_zero, modulus_natDegree, hk]; rfl

/-- for `k = 1` decoding is the canonical map `ℕ → ZMod p → K` -/
theorem decA_k1 (F : Field) (hk : F.k = 1) (a : Nat) :
    decA F a = AdjoinRoot.of (modulus F) ((a : Nat) : ZMod F.p) := by
  unfold decA
  rw [hk]
  simp only [digits, toPoly, mul_zero, add_zero]
  rw [AdjoinRoot.mk_C]
  congr 1
  exact ZMod.natCast_mod a F.p

theorem orderOf_decA_k1 (F : Field) [Fact (Nat.Prime F.p)] (hk : F.k = 1) (a : Nat) :
    orderOf (decA F a) = orderOf ((a : Nat) : ZMod F.p) := by
  rw [decA_k1 F hk]
  have hinj : Function.Injective (AdjoinRoot.of (modulus F)) := by
    apply AdjoinRoot.of.injective_of_degree_ne_zero
    rw [degree_eq_natDegree (modulus_monic F).ne_zero, modulus_natDegree, hk]; decide
  exact orderOf_injective (AdjoinRoot.of (modulus F)).toMonoidHom hinj _

end Givaro.Lemmas.GFqZech

namespace Givaro.Lemmas.GFqZech
open Givaro.Model.GFqCtor

theorem primSearch_finds (n : Nat) (exps : List Nat) (g : Nat) (hg : primTest n exps g = true) (hgn : g ≤ n) :
    ∀ fuel A, A ≤ g → g - A + 1 ≤ fuel →
      A ≤ primSearch n exps fuel A ∧ primSearch n exps fuel A ≤ g ∧ primTest n exps (primSearch n exps fuel A) = true := by
  intro fuel
  induction fuel with
  | zero => intro A _ h; omega
  | succ fuel ih =>
    intro A hA hf
    simp only [primSearch, show A ≤ n by omega, ↓reduceIte]
    by_cases ht : primTest n exps A = true
    · rw [if_pos ht]; exact ⟨le_refl _, hA, ht⟩
    · rw [if_neg ht]
      have hne : A ≠ g := fun h => ht (h ▸ hg)
      obtain ⟨h1, h2, h3⟩ := ih (A + 1) (by omega) (by omega)
      exact ⟨by omega, h2, h3⟩

theorem primTest_sound (p : Nat) [Fact (Nat.Prime p)] (Lf : List Nat) (hLf : ∀ r, r.Prime → r ∣ p - 1 → r ∈ Lf)
    (A : Nat) (h : primTest p (Lf.map (fun f => (p - 1) / f)) A = true) :
    A % p ≠ 0 ∧ orderOf ((A : Nat) : ZMod p) = p - 1 := by
  have hp : Nat.Prime p := Fact.out
  unfold primTest at h
  simp only [Bool.and_eq_true, beq_iff_eq, List.all_eq_true, List.mem_map, bne_iff_ne, ne_eq,
    forall_exists_index, and_imp, forall_apply_eq_imp_iff₂] at h
  obtain ⟨hgcd, hall⟩ := h
  have hA0 : ((A : Nat) : ZMod p) ≠ 0 := by
    intro h0
    rw [ZMod.natCast_eq_zero_iff] at h0
    have := Nat.dvd_gcd h0 (dvd_refl p)
    rw [hgcd] at this
    exact hp.one_lt.ne' (Nat.dvd_one.mp this)
  refine ⟨?_, ?_⟩
  · intro h0; apply hA0; rw [ZMod.natCast_eq_zero_iff]; exact Nat.dvd_of_mod_eq_zero h0
  · apply orderOf_eq_of_pow_and_pow_div_prime (by have := hp.two_le; omega) (ZMod.pow_card_sub_one_eq_one hA0)
    intro r hr hdvd hpow
    have := hall r (hLf r hr hdvd)
    apply this
    have hc : ((A ^ ((p - 1) / r) : Nat) : ZMod p) = ((1 : Nat) : ZMod p) := by push_cast; exact hpow
    rw [ZMod.natCast_eq_natCast_iff'] at hc
    rw [hc]; exact Nat.mod_eq_of_lt hp.one_lt


theorem primTest_complete (p : Nat) [Fact (Nat.Prime p)] (Lf : List Nat) (hLf : ∀ r, r ∈ Lf → r.Prime ∧ r ∣ p - 1)
    (g : Nat) (hg0 : 0 < g) (hgp : g < p) (hord : orderOf ((g : Nat) : ZMod p) = p - 1) :
    primTest p (Lf.map (fun f => (p - 1) / f)) g = true := by
  have hp : Nat.Prime p := Fact.out
  unfold primTest
  simp only [Bool.and_eq_true, beq_iff_eq, List.all_eq_true, List.mem_map, bne_iff_ne, ne_eq,
    forall_exists_index, and_imp, forall_apply_eq_imp_iff₂]
  refine ⟨?_, ?_⟩
  · have : Nat.Coprime p g := (Nat.Prime.coprime_iff_not_dvd hp).mpr (fun h => by have := Nat.le_of_dvd hg0 h; omega)
    exact this.symm
  · intro r hr hmod
    obtain ⟨hrp, hrd⟩ := hLf r hr
    have hpow : ((g : Nat) : ZMod p) ^ ((p - 1) / r) = 1 := by
      have hc : ((g ^ ((p - 1) / r) : Nat) : ZMod p) = ((1 : Nat) : ZMod p) := by
        rw [ZMod.natCast_eq_natCast_iff', hmod]; exact (Nat.mod_eq_of_lt hp.one_lt).symm
      push_cast at hc; exact hc
    have hdvd := orderOf_dvd_of_pow_eq_one hpow
    rw [hord] at hdvd
    have hp1 : 0 < p - 1 := by have := hp.two_le; omega
    have hepos : 0 < (p - 1) / r := Nat.div_pos (Nat.le_of_dvd hp1 hrd) hrp.pos
    have hle := Nat.le_of_dvd hepos hdvd
    have hlt : (p - 1) / r < p - 1 := Nat.div_lt_self hp1 hrp.one_lt
    omega

theorem exists_primitive_root (p : Nat) [Fact (Nat.Prime p)] :
    ∃ g : Nat, 0 < g ∧ g < p ∧ orderOf ((g : Nat) : ZMod p) = p - 1 := by
  have hp : Nat.Prime p := Fact.out
  obtain ⟨u, hu⟩ := IsCyclic.exists_generator (α := (ZMod p)ˣ)
  have hou : orderOf u = p - 1 := by
    rw [orderOf_eq_card_of_forall_mem_zpowers hu, Nat.card_eq_fintype_card, ZMod.card_units]
  refine ⟨(u : ZMod p).val, ?_, ZMod.val_lt _, ?_⟩
  · rw [Nat.pos_iff_ne_zero, Ne, ZMod.val_eq_zero]; exact u.ne_zero
  · rw [ZMod.natCast_zmod_val, orderOf_units, hou]

/-- **Post-condition of the generator search** of the prime-field constructor: for every prime `p`, with `phi(p) = p - 1` and
    `Lf` the list of the prime factors of `p - 1` (contract of the totient / factorisation routines), `lowest_prim_root`
    returns a residue `0 < s < p` of multiplicative order `p - 1`. -/
theorem lowestPrimRoot_post (p : Nat) (hp : Nat.Prime p) (Lf : List Nat) (hLf : ∀ r, r ∈ Lf ↔ r.Prime ∧ r ∣ p - 1) :
    0 < lowestPrimRoot p (p - 1) Lf ∧ lowestPrimRoot p (p - 1) Lf < p ∧
    orderOf ((lowestPrimRoot p (p - 1) Lf : Nat) : ZMod p) = p - 1 := by
  have : Fact (Nat.Prime p) := ⟨hp⟩
  unfold lowestPrimRoot
  by_cases h4 : p ≤ 4
  · simp only [h4, ↓reduceIte]
    have h2 := hp.two_le
    have : p = 2 ∨ p = 3 := by
      rcases Nat.lt_or_ge p 4 with h | h
      · omega
      · have : p = 4 := by omega
        subst this; exact absurd hp (by decide)
    rcases this with rfl | rfl
    · refine ⟨by decide, by decide, ?_⟩; simp
    · refine ⟨by decide, by decide, ?_⟩
      rw [orderOf_eq_iff (by decide)]
      refine ⟨by decide, ?_⟩
      intro m hm hm0
      have : m = 1 := by omega
      subst this; decide
  · have hodd : p % 2 = 1 := by
      rcases hp.eq_two_or_odd with h | h
      · omega
      · exact h
    have h40 : ¬ p % 4 = 0 := by omega
    simp only [h4, h40, ↓reduceIte]
    obtain ⟨g, hg0, hgp, hgo⟩ := exists_primitive_root p
    have hg2 : 2 ≤ g := by
      by_contra hlt
      have : g = 1 := by omega
      subst this
      simp at hgo
      omega
    have hacc := primTest_complete p Lf (fun r hr => (hLf r).mp hr) g hg0 hgp hgo
    obtain ⟨l1, l2, l3⟩ := primSearch_finds p _ g hacc (by omega) p 2 hg2 (by omega)
    obtain ⟨s1, s2⟩ := primTest_sound p Lf (fun r h1 h2 => (hLf r).mpr ⟨h1, h2⟩) _ l3
    exact ⟨by omega, by omega, s2⟩

end Givaro.Lemmas.GFqZech
