/- C12 — `FermatDom` (model: Model/PrimesMisc.lean): `fermat(f,n)` is the Fermat number, and `pepin(n)` decides its primality
   (Pépin's criterion in both directions: sufficiency is Mathlib's `Nat.pepin_primality'` (Lucas), necessity is quadratic
   reciprocity: for n ≥ 1, F_n ≡ 1 mod 4 and F_n ≡ 2 mod 3, so 3 is a non-residue modulo a prime F_n, and Euler's criterion). -/
import GivaroModel.Model.PrimesMisc
import GivaroModel.Lemmas.GmpLemmas
import Mathlib.NumberTheory.Fermat
import Mathlib.NumberTheory.LegendreSymbol.QuadraticReciprocity
namespace Givaro.Lemmas.Primes
open Givaro Givaro.Model.Primes

theorem fermat_eq (n : Nat) (hn : n < 32) : fermat n = Nat.fermatNumber n := by
  unfold fermat Nat.fermatNumber
  have h : 2 ^ n < 4294967296 := by
    calc 2 ^ n < 2 ^ 32 := Nat.pow_lt_pow_right (by omega) hn
      _ = 4294967296 := by norm_num
  rw [Nat.mod_eq_of_lt h, Nat.one_mul]

theorem two_not_sq_mod_three : ¬ IsSquare (2 : ZMod 3) := by decide

/-- Pépin's criterion, both directions, for `n ≥ 1` -/
theorem pepin_criterion (n : Nat) (hn : 1 ≤ n) :
    Nat.Prime (Nat.fermatNumber n) ↔ (3 : ZMod (Nat.fermatNumber n)) ^ ((Nat.fermatNumber n - 1) / 2) = -1 := by
  constructor
  · intro hp
    have := Fact.mk hp
    set F := Nat.fermatNumber n with hF
    have hodd : F % 2 = 1 := Nat.odd_iff.1 (Nat.odd_fermatNumber n)
    have hhalf : (F - 1) / 2 = F / 2 := by omega
    -- F ≡ 1 mod 4 and F ≡ 2 mod 3
    obtain ⟨m, hm⟩ := Nat.exists_eq_add_of_le hn
    have h2n : 2 ^ n = 2 * 2 ^ m := by rw [hm, Nat.add_comm, pow_succ]; ring
    have hF4 : F % 4 = 1 := by
      rw [hF, Nat.fermatNumber, h2n, pow_mul]
      have : (2 ^ 2) ^ 2 ^ m % 4 = 0 := by
        apply Nat.mod_eq_zero_of_dvd
        exact dvd_pow_self 4 (by positivity)
      omega
    have hF3 : F % 3 = 2 := by
      rw [hF, Nat.fermatNumber, h2n, pow_mul]
      have : (2 ^ 2) ^ 2 ^ m % 3 = 1 := by
        rw [Nat.pow_mod]; norm_num
      omega
    have h3F : F ≠ 3 := by omega
    have : Fact (Nat.Prime 3) := ⟨Nat.prime_three⟩
    have hne : ((3 : Nat) : ZMod F) ≠ 0 := by
      intro h
      rw [ZMod.natCast_eq_zero_iff] at h
      have := (Nat.prime_dvd_prime_iff_eq hp Nat.prime_three).1 h
      exact h3F this
    have hqr := ZMod.exists_sq_eq_prime_iff_of_mod_four_eq_one (p := F) (q := 3) hF4 (by norm_num)
    have hnsq : ¬ IsSquare ((F : Nat) : ZMod 3) := by
      have : ((F : Nat) : ZMod 3) = 2 := by
        have : ((F : Nat) : ZMod 3) = ((2 : Nat) : ZMod 3) := (ZMod.natCast_eq_natCast_iff' F 2 3).2 (by omega)
        simpa using this
      rw [this]
      exact two_not_sq_mod_three
    have hnsq3 : ¬ IsSquare ((3 : Nat) : ZMod F) := fun h => hnsq (hqr.1 h)
    rw [hhalf]
    rcases ZMod.pow_div_two_eq_neg_one_or_one F hne with h | h
    · exact absurd ((ZMod.euler_criterion F hne).2 h) hnsq3
    · simpa using h
  · exact Nat.pepin_primality' n

theorem pepinOf_iff (F : Nat) (hF : 2 < F) :
    pepinOf F = true ↔ (3 : ZMod F) ^ ((F - 1) / 2) = -1 := by
  unfold pepinOf
  simp only [decide_eq_true_eq]
  rw [powModNat_spec 3 _ F (by omega)]
  have hlt : 3 ^ ((F - 1) / 2) % F < F := Nat.mod_lt _ (by omega)
  have hm1 : ((F - 1 : Nat) : ZMod F) = -1 := by
    rw [Nat.cast_sub (by omega), ZMod.natCast_self]; simp
  constructor
  · intro h
    have h' : 3 ^ ((F - 1) / 2) % F = (F - 1) % F := by
      rw [Nat.mod_eq_of_lt (by omega : F - 1 < F)]; omega
    have := (ZMod.natCast_eq_natCast_iff' (3 ^ ((F - 1) / 2)) (F - 1) F).2 h'
    rw [hm1] at this
    simpa using this
  · intro h
    have h' : ((3 ^ ((F - 1) / 2) : Nat) : ZMod F) = ((F - 1 : Nat) : ZMod F) := by rw [hm1]; simpa using h
    have := (ZMod.natCast_eq_natCast_iff' _ _ F).1 h'
    rw [Nat.mod_eq_of_lt (by omega : F - 1 < F)] at this
    omega

/-- `pepin(n)` answers the primality question for the Fermat number, for every n the `unsigned` shift admits -/
theorem pepin_iff_prime' (n : Nat) (hn : n < 32) : pepin n = true ↔ Nat.Prime (Nat.fermatNumber n) := by
  unfold pepin
  by_cases h0 : n = 0
  · subst h0; simp [Nat.fermatNumber]; exact Nat.prime_three
  · simp only [h0, ↓reduceIte]
    rw [fermat_eq n hn, pepinOf_iff _ (Nat.two_lt_fermatNumber n), pepin_criterion n (by omega)]

end Givaro.Lemmas.Primes
