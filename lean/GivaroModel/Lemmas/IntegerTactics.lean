/-
Proof scripts for the generated per-overload theorems (C01/C02).  The generator emits
`unfold <body> <spec>` followed by one of these tactics, so a regenerated body is re-proved
without human help or reported as a broken obligation.
-/
import GivaroModel.Prim.Gmp
import GivaroModel.Spec.IntegerSpec
import GivaroModel.Lemmas.GmpLemmas
import Mathlib.Tactic.Ring
namespace Givaro

/-! ### what a three-way comparison result tells (for *every* admissible magnitude) -/
theorem cmp3_lt0 (a b : Int) : cmp3 a b < 0 ↔ a < b := by unfold cmp3; split <;> [skip; split] <;> omega
theorem cmp3_gt0 (a b : Int) : 0 < cmp3 a b ↔ b < a := by unfold cmp3; split <;> [skip; split] <;> omega
theorem cmp3_eq0 (a b : Int) : cmp3 a b = 0 ↔ a = b := by unfold cmp3; split <;> [skip; split] <;> omega
theorem cmp3_le0 (a b : Int) : cmp3 a b ≤ 0 ↔ a ≤ b := by unfold cmp3; split <;> [skip; split] <;> omega
theorem cmp3_ge0 (a b : Int) : 0 ≤ cmp3 a b ↔ b ≤ a := by unfold cmp3; split <;> [skip; split] <;> omega
theorem mp_size_lt0 (a : Int) : mp_size a < 0 ↔ a < 0 := by unfold mp_size; split <;> [skip; split] <;> omega
theorem mp_size_gt0 (a : Int) : 0 < mp_size a ↔ 0 < a := by unfold mp_size; split <;> [skip; split] <;> omega
theorem mp_size_eq0 (a : Int) : mp_size a = 0 ↔ a = 0 := by unfold mp_size; split <;> [skip; split] <;> omega
theorem mp_size_le0 (a : Int) : mp_size a ≤ 0 ↔ a ≤ 0 := by unfold mp_size; split <;> [skip; split] <;> omega
theorem mp_size_ge0 (a : Int) : 0 ≤ mp_size a ↔ 0 ≤ a := by unfold mp_size; split <;> [skip; split] <;> omega

/-- unfold the GMP contracts and word conversions that are linear -/
macro "gmp_unfold" : tactic => `(tactic| simp only [
  mpz_add, mpz_add_ui, mpz_sub, mpz_sub_ui, mpz_ui_sub, mpz_neg, mpz_abs, mpz_swap_d0, mpz_swap_d1,
  mpz_cmp, mpz_cmp_ui, mpz_cmp_si, mpz_cmpabs, mpz_cmpabs_ui, mpz_com, mpz_sgn,
  mpz_fits_slong_p, mpz_fits_ulong_p, mpz_fits_sint_p, mpz_fits_uint_p, mpz_fits_sshort_p, mpz_fits_ushort_p,
  cmp3_lt0, cmp3_gt0, cmp3_eq0, cmp3_le0, cmp3_ge0, mp_size_lt0, mp_size_gt0, mp_size_eq0, mp_size_le0, mp_size_ge0,
  gt_iff_lt, ge_iff_le, ne_eq, not_not,
  InU8, InU16, InU32, InU64, InS8, InS16, InS32, InS64,
  Spec.add, Spec.sub, Spec.neg, Spec.sgn, Spec.b2i, Spec.lnot] at *)

macro "word_unfold" : tactic => `(tactic| simp only [
  wrapU8, wrapU16, wrapU32, wrapU64, wrapS8, wrapS16, wrapS32, wrapS64, absS32, absS64, absS16, absS8,
  iabs, Spec.iabs, cmp3, mp_size] at *)

syntax "gmp_leaf" : tactic
macro_rules | `(tactic| gmp_leaf) => `(tactic| first
  | rfl
  | omega
  | (simp only [Res.mk.injEq, List.cons.injEq, and_true, true_and, and_self]; first | omega | (constructor <;> omega))
  | (and_intros <;> first | rfl | omega | (simp_all; done))
  | (simp_all; done)
  | (subst_vars; simp only [Res.mk.injEq, List.cons.injEq, and_true, true_and, and_self]; ring_nf; done)
  | (simp only [Res.mk.injEq, List.cons.injEq, and_true, true_and, and_self]; ring_nf; done)
  | (simp only [Res.mk.injEq, List.cons.injEq, and_true, true_and, and_self]; constructor <;> ring_nf; done))

syntax "gmp_go" : tactic
macro_rules | `(tactic| gmp_go) => `(tactic| first | done | (split <;> gmp_go) | gmp_leaf)

/-- direct bodies over linear arithmetic: split every `if`, close each leaf with `omega` -/
macro "gmp_lin" : tactic => `(tactic| ((try gmp_unfold); (try word_unfold); gmp_go))

macro "gmp_ring" : tactic => `(tactic| (
  try simp only [mpz_mul, mpz_mul_ui, mpz_mul_si, mpz_addmul, mpz_addmul_ui, mpz_submul, mpz_submul_ui, Spec.mul] at *
  (try gmp_unfold); (try word_unfold)
  gmp_go))

/-- rewrite the conversion `f x` when it is the identity under the hypotheses in scope -/
macro "wrap_id1" f:ident x:ident : tactic => `(tactic|
  try (
    have hw : $f $x = $x := by
      simp only [$f:ident, InU8, InU16, InU32, InU64, InS8, InS16, InS32, InS64] at *
      omega
    simp only [hw] at *
    clear hw))

/-- same for `std::abs` of a non-negative word -/
macro "abs_id1" f:ident x:ident : tactic => `(tactic|
  try (
    have hw : $f $x = $x := by
      simp only [$f:ident, wrapS64, wrapS32, InU8, InU16, InU32, InU64, InS8, InS16, InS32, InS64] at *
      split <;> omega
    simp only [hw] at *
    clear hw))

macro "wrap_id" x:ident : tactic => `(tactic| (
  abs_id1 absS64 $x
  abs_id1 absS32 $x
  wrap_id1 wrapU64 $x
  wrap_id1 wrapS64 $x
  wrap_id1 wrapU32 $x
  wrap_id1 wrapS32 $x))

/-- forwards to a GMP primitive whose contract is the specification function itself -/
macro "gmp_misc" : tactic => `(tactic| (
  (try simp only [mpz_powm_spec _ _ _ (by assumption), mpz_powm_ui_spec _ _ _ (by assumption)] at *)
  try simp only [mpz_mul, mpz_mul_ui, mpz_mul_si, Spec.mul,
    mpz_and, mpz_ior, mpz_xor, Spec.land, Spec.lor, Spec.lxor, wland, wlor, wlxor,
    mpz_mul_2exp, mpz_tdiv_q_2exp, mpz_fdiv_q_2exp, Spec.shl, Spec.shr,
    mpz_gcd, mpz_lcm, Spec.gcd, Spec.lcm, mpz_pow_ui, mpz_ui_pow_ui, Spec.pow,
    mpz_sqrt, mpz_sqrtrem_d0, mpz_sqrtrem_d1, Spec.isqrt,
    mpz_get_ui, mpz_get_si, mpz_sizeinbase, Spec.bitsize, (show Int.toNat 2 = 2 from rfl)] at *
  (try gmp_unfold); (try word_unfold); gmp_go))

/-! ### division: everything is normalised to `a / b`, `a % b` (non-negative remainder) -/
theorem sign_ite (b : Int) : Int.sign b = if 0 < b then 1 else if b < 0 then -1 else 0 := by
  rcases Int.lt_trichotomy b 0 with h | h | h
  · simp [Int.sign_eq_neg_one_of_neg h]; omega
  · subst h; simp
  · simp [Int.sign_eq_one_of_pos h, h]

theorem tdiv_ediv (a b : Int) :
    a.tdiv b = a / b + (if 0 ≤ a ∨ a % b = 0 then 0 else if 0 < b then 1 else if b < 0 then -1 else 0) := by
  rw [Int.tdiv_eq_ediv]; simp only [Int.dvd_iff_emod_eq_zero, sign_ite]
theorem tmod_emod (a b : Int) :
    a.tmod b = a % b - (if 0 ≤ a ∨ a % b = 0 then 0 else if b < 0 then -b else b) := by
  rw [Int.tmod_eq_emod]; simp only [Int.dvd_iff_emod_eq_zero]
  split <;> [rfl; (split <;> omega)]
theorem fdiv_ediv (a b : Int) : a.fdiv b = a / b - (if 0 ≤ b ∨ a % b = 0 then 0 else 1) := by
  rw [Int.fdiv_eq_ediv]; simp only [Int.dvd_iff_emod_eq_zero]
theorem fmod_emod (a b : Int) : a.fmod b = a % b + (if 0 ≤ b ∨ a % b = 0 then 0 else b) := by
  rw [Int.fmod_eq_emod]; simp only [Int.dvd_iff_emod_eq_zero]
theorem neg_ediv' (a b : Int) :
    (-a) / b = -(a / b) - (if a % b = 0 then 0 else if 0 < b then 1 else if b < 0 then -1 else 0) := by
  rw [Int.neg_ediv]; simp only [Int.dvd_iff_emod_eq_zero, sign_ite]
theorem neg_emod' (a b : Int) :
    (-a) % b = if a % b = 0 then 0 else (if b < 0 then -b else b) - a % b := by
  rw [Int.neg_emod]; simp only [Int.dvd_iff_emod_eq_zero]
  split <;> [rfl; (split <;> omega)]
theorem emod_bounds (a b : Int) (h : b ≠ 0) : 0 ≤ a % b ∧ a % b < (if b < 0 then -b else b) := by
  have h1 := Int.emod_nonneg a h
  have h2 := Int.emod_lt a h
  constructor
  · exact h1
  · split <;> omega
theorem dvd_emod (a b : Int) : b ∣ a ↔ a % b = 0 := Int.dvd_iff_emod_eq_zero

/-- `std::abs` followed by the conversion to `unsigned long` is the mathematical absolute value,
    also at the minimum of the signed type (two's complement) -/
theorem wrapU64_absS64 (d : Int) (h : InS64 d) : wrapU64 (absS64 d) = (if d < 0 then -d else d) := by
  unfold wrapU64 absS64 wrapS64 InS64 at *; split <;> omega
theorem wrapU64_absS32 (d : Int) (h : InS32 d) (h2 : d ≠ -2147483648) : wrapU64 (absS32 d) = (if d < 0 then -d else d) := by
  unfold wrapU64 absS32 wrapS32 InS32 at *; split <;> omega

macro "div_norm" : tactic => `(tactic| (
  try simp only [mpz_tdiv_q, mpz_tdiv_r, mpz_tdiv_qr_d0, mpz_tdiv_qr_d1, mpz_fdiv_q, mpz_fdiv_r, mpz_cdiv_q, mpz_cdiv_r,
    mpz_fdiv_qr_d0, mpz_fdiv_qr_d1, mpz_cdiv_qr_d0, mpz_cdiv_qr_d1, mpz_tdiv_qr_ui_d0, mpz_tdiv_qr_ui_d1, mpz_tdiv_qr_ui_ret,
    mpz_fdiv_qr_ui_d0, mpz_fdiv_qr_ui_d1, mpz_fdiv_qr_ui_ret, mpz_cdiv_qr_ui_d0, mpz_cdiv_qr_ui_d1, mpz_cdiv_qr_ui_ret,
    mpz_tdiv_q_ui_d0, mpz_tdiv_q_ui_ret, mpz_tdiv_r_ui_d0, mpz_tdiv_r_ui_ret, mpz_tdiv_ui,
    mpz_fdiv_q_ui_d0, mpz_fdiv_q_ui_ret, mpz_fdiv_r_ui_d0, mpz_fdiv_r_ui_ret, mpz_fdiv_ui,
    mpz_cdiv_q_ui_d0, mpz_cdiv_q_ui_ret, mpz_cdiv_r_ui_d0, mpz_cdiv_r_ui_ret, mpz_cdiv_ui,
    mpz_mod, mpz_mod_ui_d0, mpz_mod_ui_ret, mpz_divexact, mpz_divexact_ui,
    Spec.tdivQ, Spec.tmodR, Spec.fdivQ, Spec.fmodR, Spec.cdivQ, Spec.cmodR, Spec.edivQ, Spec.emodR] at *))

macro "ite_reduce" : tactic => `(tactic|
  try simp only [*, ↓reduceIte, not_true_eq_false, not_false_eq_true, or_true, true_or, or_false, false_or,
    and_true, true_and, and_false, false_and, Int.neg_neg, Int.ediv_neg, Int.emod_neg, Int.zero_sub, Int.sub_zero, Int.add_zero, Int.zero_add,
    Int.neg_zero] at *)

/-- division family with dividend `n` and divisor `d` (parameters of the overload) -/
macro "gmp_div" n:ident d:ident : tactic => `(tactic| (
  have hbnd := emod_bounds $n $d (by assumption)
  div_norm
  first | done | (
  (try gmp_unfold)
  (try simp only [tdiv_ediv, tmod_emod, fdiv_ediv, fmod_emod, dvd_emod] at *)
  by_cases c1 : 0 ≤ $n <;> by_cases c2 : $n % $d = 0 <;> by_cases c3 : $d < 0 <;>
    (try simp only [wrapU64_absS64 $d (by first | assumption | (simp only [InU8, InU16, InU32, InU64, InS8, InS16, InS32, InS64] at *; omega))] at hbnd ⊢) <;>
    (try simp only [wrapU64_absS32 $d (by assumption) (by first | assumption | omega)] at hbnd ⊢) <;>
    (try (have e1 : wrapU64 (wrapS64 (-$d)) = -$d := by
            (simp only [wrapU64, wrapS64, InU8, InU16, InU32, InU64, InS8, InS16, InS32, InS64] at *; omega)
          simp only [e1] at hbnd ⊢)) <;>
    (try (have e2 : wrapU64 $d = $d := by
            (simp only [wrapU64, wrapS64, InU8, InU16, InU32, InU64, InS8, InS16, InS32, InS64] at *; omega)
          simp only [e2] at hbnd ⊢)) <;>
    (try (have e3 : wrapU64 (-$d) = -$d := by
            (simp only [wrapU64, wrapS64, InU8, InU16, InU32, InU64, InS8, InS16, InS32, InS64] at *; omega)
          simp only [e3] at hbnd ⊢)) <;>
    (try simp only [c1, c2, c3, ↓reduceIte, not_true_eq_false, not_false_eq_true, or_true, true_or, or_false, false_or,
      Int.ediv_neg, Int.emod_neg, neg_ediv', neg_emod', Int.neg_neg] at hbnd ⊢) <;>
    (try simp only [c1, c2, c3, ↓reduceIte, not_true_eq_false, not_false_eq_true, or_true, true_or, or_false, false_or] at hbnd ⊢) <;>
    (try word_unfold) <;>
    gmp_go)))

/-! ### certificate-style statements `chk args (f args) = true` -/
theorem gcdext_d0_lt0 (a b : Int) : (mpz_gcdext_d0 a b < 0) ↔ False := by
  have := mpz_gcdext_d0_nonneg a b
  constructor
  · intro h; omega
  · intro h; exact h.elim
theorem gcd_lt0 (a b : Int) : (mpz_gcd a b < 0) ↔ False := by
  have := mpz_gcd_nonneg a b
  constructor
  · intro h; omega
  · intro h; exact h.elim
theorem lcm_lt0 (a b : Int) : (mpz_lcm a b < 0) ↔ False := by
  have := mpz_lcm_nonneg a b
  constructor
  · intro h; omega
  · intro h; exact h.elim

syntax "cert_leaf" : tactic
macro_rules | `(tactic| cert_leaf) => `(tactic| (
  simp only [decide_eq_true_eq, Spec.isBezout, List.getD_cons_zero, List.getD_cons_succ, List.length_cons, List.length_nil,
    List.getD_eq_getElem?_getD, List.getElem?_cons_zero, List.getElem?_cons_succ, Option.getD_some]
  and_intros <;> first
    | rfl
    | omega
    | exact mpz_gcdext_bezout _ _
    | (apply mpz_invert_spec <;> assumption)
    | (simp only [mpz_neg]; linear_combination (-1 : Int) * mpz_gcdext_bezout _ _)
    | ((try gmp_unfold); (try word_unfold); gmp_go)
    | (simp_all; done)))

syntax "cert_go" ident : tactic
macro_rules | `(tactic| cert_go $c) => `(tactic| first | done | (split <;> cert_go $c) | (unfold $c; cert_leaf))

macro "gmp_cert" c:ident : tactic => `(tactic| (
  (try gmp_unfold)
  (try simp only [gcdext_d0_lt0, gcd_lt0, lcm_lt0, ↓reduceIte, mpz_tstbit, mpz_get_ui, mpz_get_si,
    Int.toNat_zero, Int.pow_zero, Int.ediv_one] at *)
  first
    | (cert_go $c)
    | (unfold $c; simp only [decide_eq_true_eq]; (try gmp_unfold); (try word_unfold); gmp_go)))

end Givaro
