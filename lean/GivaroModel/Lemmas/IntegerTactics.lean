/-
Proof scripts for the generated per-overload theorems (C01/C02).  The generator emits
`unfold <body> <spec>` followed by one of these tactics, so a regenerated body is re-proved
without human help or reported as a broken obligation.
-/
import GivaroModel.Prim.Gmp
import GivaroModel.Spec.IntegerSpec
import Mathlib.Tactic.Ring
namespace Givaro

/-! ### what a three-way comparison result tells (for *every* admissible magnitude) -/
theorem cmp3_lt0 (a b : Int) : cmp3 a b < 0 ↔ a < b := by unfold cmp3; split <;> [skip; split] <;> omega
theorem cmp3_gt0 (a b : Int) : 0 < cmp3 a b ↔ b < a := by unfold cmp3; split <;> [skip; split] <;> omega
theorem cmp3_eq0 (a b : Int) : cmp3 a b = 0 ↔ a = b := by unfold cmp3; split <;> [skip; split] <;> omega
theorem cmp3_le0 (a b : Int) : cmp3 a b ≤ 0 ↔ a ≤ b := by unfold cmp3; split <;> [skip; split] <;> omega
theorem cmp3_ge0 (a b : Int) : 0 ≤ cmp3 a b ↔ b ≤ a := by unfold cmp3; split <;> [skip; split] <;> omega
theorem mp_size_lt0 (a : Int) : mp_size a < 0 ↔ a < 0 := by unfold mp_size; split <;> [skip; split] <;> omega
theorem mp_size_gt0 (a : Int) : 0 < mp_size a ↔ 0 < a := by unfold mp_size; split <;> [skip; split] <;> omega
theorem mp_size_eq0 (a : Int) : mp_size a = 0 ↔ a = 0 := by unfold mp_size; split <;> [skip; split] <;> omega
theorem mp_size_le0 (a : Int) : mp_size a ≤ 0 ↔ a ≤ 0 := by unfold mp_size; split <;> [skip; split] <;> omega
theorem mp_size_ge0 (a : Int) : 0 ≤ mp_size a ↔ 0 ≤ a := by unfold mp_size; split <;> [skip; split] <;> omega

/-- unfold the GMP contracts and word conversions that are linear -/
macro "gmp_unfold" : tactic => `(tactic| simp only [
  mpz_add, mpz_add_ui, mpz_sub, mpz_sub_ui, mpz_ui_sub, mpz_neg, mpz_abs, mpz_swap_d0, mpz_swap_d1,
  mpz_cmp, mpz_cmp_ui, mpz_cmp_si, mpz_cmpabs, mpz_cmpabs_ui, mpz_com,
  cmp3_lt0, cmp3_gt0, cmp3_eq0, cmp3_le0, cmp3_ge0, mp_size_lt0, mp_size_gt0, mp_size_eq0, mp_size_le0, mp_size_ge0,
  gt_iff_lt, ge_iff_le, ne_eq, not_not,
  InU8, InU16, InU32, InU64, InS8, InS16, InS32, InS64,
  Spec.add, Spec.sub, Spec.neg, Spec.sgn, Spec.b2i, Spec.lnot] at *)

macro "word_unfold" : tactic => `(tactic| simp only [
  wrapU8, wrapU16, wrapU32, wrapU64, wrapS8, wrapS16, wrapS32, wrapS64, absS32, absS64, absS16, absS8,
  iabs, Spec.iabs, cmp3, mp_size] at *)

syntax "gmp_leaf" : tactic
macro_rules | `(tactic| gmp_leaf) => `(tactic| first
  | rfl
  | omega
  | (simp only [Res.mk.injEq, List.cons.injEq, and_true, true_and, and_self]; first | omega | (constructor <;> omega))
  | (simp_all; done)
  | (subst_vars; simp only [Res.mk.injEq, List.cons.injEq, and_true, true_and, and_self]; ring_nf; done)
  | (simp only [Res.mk.injEq, List.cons.injEq, and_true, true_and, and_self]; ring_nf; done)
  | (simp only [Res.mk.injEq, List.cons.injEq, and_true, true_and, and_self]; constructor <;> ring_nf; done))

syntax "gmp_go" : tactic
macro_rules | `(tactic| gmp_go) => `(tactic| first | done | (split <;> gmp_go) | gmp_leaf)

/-- direct bodies over linear arithmetic: split every `if`, close each leaf with `omega` -/
macro "gmp_lin" : tactic => `(tactic| ((try gmp_unfold); (try word_unfold); gmp_go))

macro "gmp_ring" : tactic => `(tactic| (
  try simp only [mpz_mul, mpz_mul_ui, mpz_mul_si, mpz_addmul, mpz_addmul_ui, mpz_submul, mpz_submul_ui, Spec.mul] at *
  (try gmp_unfold); (try word_unfold)
  gmp_go))

/-- rewrite the conversion `f x` when it is the identity under the hypotheses in scope -/
macro "wrap_id1" f:ident x:ident : tactic => `(tactic|
  try (
    have hw : $f $x = $x := by
      simp only [$f:ident, InU8, InU16, InU32, InU64, InS8, InS16, InS32, InS64] at *
      omega
    simp only [hw] at *
    clear hw))

macro "wrap_id" x:ident : tactic => `(tactic| (
  wrap_id1 wrapU64 $x
  wrap_id1 wrapS64 $x
  wrap_id1 wrapU32 $x
  wrap_id1 wrapS32 $x))

/-- forwards to a GMP primitive whose contract is the specification function itself -/
macro "gmp_misc" : tactic => `(tactic| (
  try simp only [mpz_mul, mpz_mul_ui, mpz_mul_si, Spec.mul,
    mpz_and, mpz_ior, mpz_xor, Spec.land, Spec.lor, Spec.lxor, wland, wlor, wlxor,
    mpz_mul_2exp, mpz_tdiv_q_2exp, mpz_fdiv_q_2exp, Spec.shl, Spec.shr,
    mpz_gcd, mpz_lcm, Spec.gcd, Spec.lcm, mpz_pow_ui, mpz_ui_pow_ui, Spec.pow,
    mpz_sqrt, mpz_sqrtrem_d0, mpz_sqrtrem_d1, Spec.isqrt,
    mpz_get_ui, mpz_get_si, mpz_sizeinbase, Spec.bitsize] at *
  (try gmp_unfold); (try word_unfold); gmp_go))

macro "gmp_div" : tactic => `(tactic| sorry)
macro "gmp_cert" : tactic => `(tactic| sorry)

end Givaro
