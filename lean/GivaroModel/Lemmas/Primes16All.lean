/- C12 — `Primes16::_primes` (givprimes16.C, re-extracted on every run) is exactly the increasing list of the primes below 2^16:
   the sixteen pieces checked in Lemmas/Primes16/R0…R3 concatenate to the table and their ranges tile [0, 2^16). -/
import GivaroModel.Model.PrimesTables
import GivaroModel.Lemmas.Primes16.R0
import GivaroModel.Lemmas.Primes16.R1
import GivaroModel.Lemmas.Primes16.R2
import GivaroModel.Lemmas.Primes16.R3
import Mathlib.Data.List.Range
namespace Givaro.Lemmas.Primes16
open Givaro.Model.Primes Givaro.Spec.Primes

set_option maxRecDepth 1000000 in
theorem ranges_flatten : primes16Ranges.flatten = primes16 := by decide +kernel

theorem cover_gen (w : Nat) : ∀ k, ((List.range k).map (fun i => List.range' (w * i) w)).flatten = List.range' 0 (w * k) := by
  intro k
  induction k with
  | zero => simp
  | succ j ih =>
    rw [List.range_succ, List.map_append, List.flatten_append, ih]
    simp only [List.map_cons, List.map_nil, List.flatten_cons, List.flatten_nil, List.append_nil]
    have h := List.range'_append_1 (s := 0) (m := w * j) (n := w)
    rw [Nat.zero_add] at h
    rw [h, Nat.mul_succ]

theorem ranges_exact : primes16Ranges = (List.range 16).map (fun k => (List.range' (4096 * k) 4096).filter isPrimeDec) := by
  simp only [primes16Ranges, range0_exact, range1_exact, range2_exact, range3_exact, range4_exact, range5_exact, range6_exact,
    range7_exact, range8_exact, range9_exact, range10_exact, range11_exact, range12_exact, range13_exact, range14_exact, range15_exact]
  rfl

theorem primes16_eq_filter : primes16 = (List.range 65536).filter isPrimeDec := by
  have hc := cover_gen 4096 16
  have h65 : List.range 65536 = List.range' 0 (4096 * 16) := by rw [List.range_eq_range']
  rw [← ranges_flatten, ranges_exact, h65, ← hc, List.filter_flatten, List.map_map]
  rfl

end Givaro.Lemmas.Primes16
