/-
C05 — from the executable table checker to the hypotheses of the Zech theorems.

`Decoding K F dec`: `dec` maps the p-adic codes `< q` into a commutative ring `K` compatibly with the code
arithmetic the checker uses (`csucc`, `cmul`).  For such a decoding, `tablesValid T = true` implies `ZechHyp` for the
model's `Dom` built from the dumped tables, with `γ = dec (log2pol 1)` and `elt i = dec (log2pol i)`.
For prime fields (`k = 1`) the decoding `Nat.cast : ℕ → ZMod p` is exhibited, which closes the chain
"constructed object ⟶ tablesValid ⟶ ZechHyp ⟶ every operation is arithmetic of ZMod p" without further assumptions.
-/
import GivaroModel.Lemmas.GFqZech
import GivaroModel.Spec.GFqSpec
import Mathlib.Data.ZMod.Basic
namespace Givaro.Lemmas.GFqZech
open Givaro.Model.Zech Givaro.Spec.GFq

structure Decoding (K : Type*) [CommRing K] (F : Field) (dec : Nat → K) : Prop where
  zero : dec 0 = 0
  one : dec 1 = 1
  succ : ∀ a, a < F.q → dec (F.csucc a) = dec a + 1
  mul : ∀ a b, a < F.q → b < F.q → dec (F.cmul a b) = dec a * dec b

section
variable {K : Type*} [CommRing K] {dec : Nat → K} (T : Tables)

theorem all_range {n : Nat} {f : Nat → Bool} (h : (List.range n).all f = true) : ∀ j, j < n → f j = true := by
  intro j hj
  rw [List.all_eq_true] at h
  exact h j (List.mem_range.mpr hj)

theorem tablesValid_gives_ZechHyp (hv : T.tablesValid = true) (D : Decoding K T.F dec) :
    ZechHyp T.dom (T.q : Int) (dec (T.l2p 1)) (fun i => dec (T.l2p i.toNat)) := by
  unfold Tables.tablesValid at hv
  simp only [Bool.and_eq_true, decide_eq_true_eq, beq_iff_eq] at hv
  obtain ⟨⟨⟨⟨⟨⟨⟨⟨⟨⟨⟨⟨⟨_hp, _hk⟩, hq⟩, _hmonic⟩, _s1⟩, _s2⟩, _s3⟩, h0⟩, hmo1⟩, hmo2⟩, hchain⟩, hbij⟩, hpl⟩, hmone⟩ := hv
  -- unpack the three list checks
  unfold Tables.chainOk at hchain
  simp only [Bool.and_eq_true, beq_iff_eq] at hchain
  obtain ⟨hch, hlast⟩ := hchain
  have hch' := all_range hch
  have hb' := all_range hbij
  unfold Tables.plus1Ok at hpl
  simp only [Bool.and_eq_true, beq_iff_eq] at hpl
  obtain ⟨_hpl0, hpls⟩ := hpl
  have hpl' := all_range hpls
  have hlt : ∀ i, i < T.q → T.l2p i < T.F.q := by
    intro i hi
    have := hb' i hi
    simp only [Bool.and_eq_true, decide_eq_true_eq] at this
    exact this.1
  -- the generator chain
  have hpow : ∀ n : Nat, n + 1 ≤ T.q - 1 → dec (T.l2p (n + 1)) = dec (T.l2p 1) ^ (n + 1) := by
    intro n
    induction n with
    | zero => intro _; simp
    | succ n ih =>
      intro hn
      have hstep := hch' n (by omega)
      simp only [beq_iff_eq] at hstep
      rw [show n + 1 + 1 = n + 2 by omega, hstep, D.mul _ _ (hlt _ (by omega)) (hlt _ (by omega)), ih (by omega)]
      exact (pow_succ _ _).symm
  have hqq : (T.q : Int) - 1 = ((T.q - 1 : Nat) : Int) := by omega
  have eltpow : ∀ i : Int, 1 ≤ i → i ≤ (T.q : Int) - 1 → dec (T.l2p i.toNat) = dec (T.l2p 1) ^ i.toNat := by
    intro i h1 h2
    have := hpow (i.toNat - 1) (by omega)
    rw [show i.toNat - 1 + 1 = i.toNat by omega] at this
    exact this
  have hcard : dec (T.l2p 1) ^ ((T.q : Int) - 1).toNat = 1 := by
    rw [← eltpow _ (by omega) (by omega), show ((T.q : Int) - 1).toNat = T.q - 1 by omega, hlast, D.one]
  refine
    { q_ge := by omega, mun_eq := rfl, elt_zero := ?_, elt_pow := eltpow, pow_card := hcard,
      mo_lo := hmo1, mo_hi := hmo2, mo_neg := ?_, pl_zero := ?_, pl_lo := ?_, pl_hi := ?_, pl_pow := ?_ }
  · show dec (T.l2p (0 : Int).toNat) = 0
    rw [show (0 : Int).toNat = 0 by rfl, h0, D.zero]
  · -- γ^mOne = -1
    show dec (T.l2p 1) ^ T.mOne.toNat = -1
    rw [← eltpow _ hmo1 hmo2]
    unfold Tables.mOneOk at hmone
    simp only [beq_iff_eq] at hmone
    have := D.succ (T.l2p T.mOne.toNat) (hlt _ (by omega))
    rw [hmone, D.zero] at this
    exact (neg_eq_of_add_eq_zero_left this.symm).symm
  all_goals
    intro i h1 h2
    have hi := hpl' (i.toNat - 1) (by omega)
    rw [show i.toNat - 1 + 1 = i.toNat by omega] at hi
    have hs := D.succ (T.l2p i.toNat) (hlt _ (by omega))
  · intro hz
    replace hz : T.pl1 i.toNat = 0 := hz
    show dec (T.l2p 1) ^ i.toNat + 1 = 0
    rw [← eltpow i h1 h2]
    by_cases hc : T.F.csucc (T.l2p i.toNat) = 0
    · rw [hc, D.zero] at hs; exact hs.symm
    · simp only [beq_iff_eq, hc, ↓reduceIte, Bool.and_eq_true, decide_eq_true_eq] at hi
      omega
  · intro hnz
    replace hnz : T.pl1 i.toNat ≠ 0 := hnz
    by_cases hc : T.F.csucc (T.l2p i.toNat) = 0
    · simp only [beq_iff_eq, hc, ↓reduceIte, Bool.and_eq_true] at hi; exact absurd hi.1 hnz
    · simp only [beq_iff_eq, hc, ↓reduceIte, Bool.and_eq_true, decide_eq_true_eq] at hi
      show -((T.q : Int) - 1) < T.pl1 i.toNat
      exact hi.1.1
  · intro hnz
    replace hnz : T.pl1 i.toNat ≠ 0 := hnz
    by_cases hc : T.F.csucc (T.l2p i.toNat) = 0
    · simp only [beq_iff_eq, hc, ↓reduceIte, Bool.and_eq_true] at hi; exact absurd hi.1 hnz
    · simp only [beq_iff_eq, hc, ↓reduceIte, Bool.and_eq_true, decide_eq_true_eq] at hi
      show T.pl1 i.toNat < 0
      exact hi.1.2
  · intro hnz
    replace hnz : T.pl1 i.toNat ≠ 0 := hnz
    by_cases hc : T.F.csucc (T.l2p i.toNat) = 0
    · simp only [beq_iff_eq, hc, ↓reduceIte, Bool.and_eq_true] at hi; exact absurd hi.1 hnz
    · simp only [beq_iff_eq, hc, ↓reduceIte, Bool.and_eq_true, decide_eq_true_eq] at hi
      show dec (T.l2p 1) ^ (T.pl1 i.toNat + ((T.q : Int) - 1)).toNat = dec (T.l2p 1) ^ i.toNat + 1
      rw [← eltpow i h1 h2, ← eltpow _ (by omega) (by omega), hi.2, hs]

end
/-- prime fields: codes are residues, `Nat.cast` decodes them into `ZMod p` -/
theorem decoding_prime (F : Field) (hk : F.k = 1) (hp : 2 ≤ F.p) :
    Decoding (ZMod F.p) F (fun a => (a : ZMod F.p)) := by
  have hq : F.q = F.p := by unfold Field.q; rw [hk, pow_one]
  refine ⟨by simp, by simp, ?_, ?_⟩
  · intro a ha
    rw [hq] at ha
    unfold Field.csucc
    rw [Nat.mod_eq_of_lt ha]
    split
    · rename_i h
      have : a + 1 = F.p := by omega
      have h2 : ((a : ZMod F.p) + 1) = ((a + 1 : Nat) : ZMod F.p) := by push_cast; ring
      rw [h2, this, h, Nat.sub_self]; simp
    · push_cast; ring
  · intro a b _ _
    unfold Field.cmul
    simp only [hk, Nat.le_refl, ↓reduceIte]
    rw [ZMod.natCast_mod]; push_cast; ring

end Givaro.Lemmas.GFqZech
