/-
C17 — the pooled allocator: `search_binary` returns the smallest class that fits, and the free lists never hold a block
that a client still holds, nor a block twice.
-/
import GivaroModel.Model.FreeList
namespace Givaro.Model.FreeList
open Givaro.Gen.C17

/-! ### search_binary -/

/-- the loop, for any table that is strictly increasing between neighbours and fits `unsigned int` -/
theorem sbLoop_spec (t : Nat → Nat) (N : Nat) (hlt : ∀ i, t i < 4294967296) (hadj : ∀ i, i + 1 ≤ N → t i < t (i + 1)) :
    ∀ fuel sz min max med, max - min ≤ fuel → min < med → med < max → max ≤ N → t min < sz → sz ≤ t max →
      0 < sbLoop t fuel sz min max med ∧ sbLoop t fuel sz min max med ≤ N ∧ sz ≤ t (sbLoop t fuel sz min max med) ∧
      t (sbLoop t fuel sz min max med - 1) < sz := by
  intro fuel
  induction fuel with
  | zero => intro sz min max med h1 h2 h3; omega
  | succ f ih =>
    intro sz min max med hf h1 h2 h3 h4 h5
    unfold sbLoop
    simp only [Nat.mod_eq_of_lt (hlt med)]
    by_cases e : t med = sz
    · simp only [e, ↓reduceIte]
      have := hadj (med - 1) (by omega)
      have e2 : med - 1 + 1 = med := by omega
      rw [e2] at this
      exact ⟨by omega, by omega, by omega, by omega⟩
    · simp only [e, ↓reduceIte]
      by_cases lt : t med < sz
      · simp only [lt, ↓reduceIte]
        by_cases stop : med = (max + med) / 2
        · rw [if_neg (by simpa using stop)]
          have : max = med + 1 := by omega
          subst this
          exact ⟨by omega, h3, h5, by simpa using lt⟩
        · rw [if_pos (by simpa using stop)]
          exact ih sz med max ((max + med) / 2) (by omega) (by omega) (by omega) h3 lt h5
      · simp only [lt, ↓reduceIte]
        by_cases stop : min = (med + min) / 2
        · rw [if_neg (by simpa using stop)]
          have : med = min + 1 := by omega
          subst this
          exact ⟨by omega, by omega, by omega, by simpa using h4⟩
        · rw [if_pos (by simpa using stop)]
          exact ih sz min med ((med + min) / 2) (by omega) (by omega) (by omega) (by omega) h4 (by omega)

/-- facts about the table extracted from givaromm.C, checked by evaluation over all 512 entries -/
theorem table_len : lenTables = 512 ∧ tabSizeArr.size = 512 := by decide +kernel
theorem table_adjacent : (List.range 511).all (fun i => decide (tab i < tab (i + 1))) = true := by decide +kernel
theorem table_u32 : (List.range 512).all (fun i => decide (tab i < 4294967296)) = true := by decide +kernel
theorem table_small : (List.range 33).all (fun sz => decide (sz = 0 ∨ tab (sz - 1) = sz)) = true := by decide +kernel

theorem tab_adj (i : Nat) (h : i + 1 ≤ 511) : tab i < tab (i + 1) := by
  have := List.all_eq_true.mp table_adjacent i (List.mem_range.mpr (by omega))
  simpa using this

theorem tab_u32 (i : Nat) : tab i < 4294967296 := by
  by_cases h : i < 512
  · have := List.all_eq_true.mp table_u32 i (List.mem_range.mpr h)
    simpa using this
  · have : tab i = 0 := by
      unfold tab
      rw [Array.getD_eq_getD_getElem?, Array.getElem?_eq_none (by rw [table_len.2]; omega)]
      rfl
    omega

theorem tab_small (sz : Nat) (h0 : 0 < sz) (h : sz ≤ 32) : tab (sz - 1) = sz := by
  have := List.all_eq_true.mp table_small sz (List.mem_range.mpr (by omega))
  simp at this; omega

/-- `search_binary` returns the smallest class whose blocks hold `sz` bytes; it throws exactly above the largest class -/
theorem searchBinary_spec (sz : Nat) :
    match searchBinary sz with
    | none => tab 511 < sz
    | some i => i < 512 ∧ sz ≤ tab i ∧ (i = 0 ∨ tab (i - 1) < sz) := by
  unfold searchBinary
  rw [table_len.1]
  have e511 : (512 : Nat) - 1 = 511 := rfl
  rw [e511]
  by_cases h : sz ≤ 32
  · rw [if_pos h]
    by_cases z : sz = 0
    · subst z; rw [if_pos rfl]; exact ⟨by omega, by omega, Or.inl rfl⟩
    · rw [if_neg z]
      have := tab_small sz (by omega) h
      refine ⟨by omega, by omega, ?_⟩
      by_cases o : sz - 1 = 0
      · exact Or.inl o
      · right
        have := tab_small (sz - 1) (by omega) (by omega)
        omega
  · rw [if_neg h]
    have t0 : tab 0 = 1 := by decide +kernel
    have spec := sbLoop_spec tab 511 tab_u32 tab_adj 512 sz 0 511 8 (by omega) (by omega) (by omega) (by omega) (by omega)
    generalize hT : tab 511 = T at spec ⊢
    rcases Nat.lt_or_ge T sz with big | big
    · rw [if_pos big]; exact big
    · rw [if_neg (Nat.not_lt.mpr big)]
      have := spec big
      exact ⟨by omega, this.2.2.1, Or.inr this.2.2.2⟩

/-! ### the free lists -/

/-- pool invariant relative to the set `H` of blocks the client holds -/
structure PI (p : Pool) (H : Nat → Prop) : Prop where
  nodup : ∀ i, (p.free i).Nodup
  disj : ∀ i j b, b ∈ p.free i → b ∈ p.free j → i = j
  fbound : ∀ i b, b ∈ p.free i → b < p.next
  hbound : ∀ b, H b → b < p.next
  hfree : ∀ b i, H b → b ∉ p.free i

theorem PI.mono {p : Pool} {H H' : Nat → Prop} (I : PI p H) (h : ∀ b, H' b → H b) : PI p H' :=
  ⟨I.nodup, I.disj, I.fbound, fun b hb => I.hbound b (h b hb), fun b i hb => I.hfree b i (h b hb)⟩

theorem pi_init : PI Pool.init (fun _ => False) :=
  ⟨fun _ => List.nodup_nil, fun _ _ _ h => by simp [Pool.init] at h, fun _ _ h => by simp [Pool.init] at h,
   fun _ h => h.elim, fun _ _ h => h.elim⟩

/-- `allocate` never returns a block that is held, and the block it returns is on no free list afterwards -/
theorem allocate_pi {p p' : Pool} {H : Nat → Prop} {sz b : Nat} (I : PI p H) (e : allocate p sz = some (p', b)) :
    ¬ H b ∧ PI p' (fun x => H x ∨ x = b) := by
  unfold allocate at e
  cases hs : searchBinary sz with
  | none => rw [hs] at e; cases e
  | some i =>
    rw [hs] at e; dsimp only at e
    cases hf : p.free i with
    | nil =>
      rw [hf] at e; dsimp only at e
      cases e
      refine ⟨fun hb => by have := I.hbound _ hb; omega, ?_⟩
      refine ⟨I.nodup, I.disj, fun i b hb => by have := I.fbound i b hb; show b < p.next + 1; omega, ?_, ?_⟩
      · intro x hx; show x < p.next + 1
        rcases hx with hx | hx
        · have := I.hbound x hx; omega
        · omega
      · intro x j hx
        rcases hx with hx | hx
        · exact I.hfree x j hx
        · subst hx; intro q; have := I.fbound j _ q; omega
    | cons b0 rest =>
      rw [hf] at e; dsimp only at e
      cases e
      have bin : b ∈ p.free i := by rw [hf]; exact List.mem_cons_self
      have nd := I.nodup i; rw [hf] at nd
      have sub : ∀ j x, x ∈ updF p.free i rest j → x ∈ p.free j := by
        intro j x hx
        unfold updF at hx
        by_cases ej : j = i
        · subst ej; simp only [↓reduceIte] at hx; rw [hf]; exact List.mem_cons_of_mem _ hx
        · simp only [ej, ↓reduceIte] at hx; exact hx
      refine ⟨fun hb => I.hfree b i hb bin, ?_⟩
      refine ⟨?_, fun j1 j2 x h1 h2 => I.disj j1 j2 x (sub j1 x h1) (sub j2 x h2),
              fun j x hx => I.fbound j x (sub j x hx), ?_, ?_⟩
      · intro j; show (updF p.free i rest j).Nodup
        unfold updF
        by_cases ej : j = i
        · simp only [ej, ↓reduceIte]; exact (List.nodup_cons.mp nd).2
        · simp only [ej, ↓reduceIte]; exact I.nodup j
      · intro x hx
        rcases hx with hx | hx
        · exact I.hbound x hx
        · subst hx; exact I.fbound i _ bin
      · intro x j hx q
        have q' : x ∈ updF p.free i rest j := q
        rcases hx with hx | hx
        · exact I.hfree x j hx (sub j x q')
        · subst hx
          by_cases ej : j = i
          · subst ej; unfold updF at q'; simp only [↓reduceIte] at q'
            exact (List.nodup_cons.mp nd).1 q'
          · exact ej (I.disj j i x (sub j x q') bin)

/-- releasing a held block puts it on exactly one free list, once -/
theorem desallocate_pi {p : Pool} {H : Nat → Prop} {b : Nat} (I : PI p H) (hb : H b) :
    PI (desallocate p b) (fun x => H x ∧ x ≠ b) := by
  have nf : ∀ i, b ∉ p.free i := fun i => I.hfree b i hb
  have mem : ∀ j x, x ∈ (desallocate p b).free j → x = b ∨ x ∈ p.free j := by
    intro j x hx
    have hx' : x ∈ updF p.free (p.idx b) (b :: p.free (p.idx b)) j := hx
    unfold updF at hx'
    by_cases ej : j = p.idx b
    · subst ej; simp only [↓reduceIte] at hx'
      rcases List.mem_cons.mp hx' with q | q
      · exact Or.inl q
      · exact Or.inr q
    · simp only [ej, ↓reduceIte] at hx'; exact Or.inr hx'
  have memb : ∀ j, b ∈ (desallocate p b).free j → j = p.idx b := by
    intro j hx
    have hx' : b ∈ updF p.free (p.idx b) (b :: p.free (p.idx b)) j := hx
    unfold updF at hx'
    by_cases ej : j = p.idx b
    · exact ej
    · simp only [ej, ↓reduceIte] at hx'; exact absurd hx' (nf j)
  refine ⟨?_, ?_, ?_, fun x hx => I.hbound x hx.1, ?_⟩
  · intro j; show (updF p.free (p.idx b) (b :: p.free (p.idx b)) j).Nodup
    unfold updF
    by_cases ej : j = p.idx b
    · simp only [ej, ↓reduceIte]; exact List.nodup_cons.mpr ⟨nf _, I.nodup _⟩
    · simp only [ej, ↓reduceIte]; exact I.nodup j
  · intro j1 j2 x h1 h2
    by_cases ex : x = b
    · subst ex; rw [memb j1 h1, memb j2 h2]
    · rcases mem j1 x h1 with q | q
      · exact absurd q ex
      · rcases mem j2 x h2 with q2 | q2
        · exact absurd q2 ex
        · exact I.disj j1 j2 x q q2
  · intro j x hx
    rcases mem j x hx with q | q
    · subst q; exact I.hbound _ hb
    · exact I.fbound j x q
  · intro x j hx q
    rcases mem j x q with q2 | q2
    · exact hx.2 q2
    · exact I.hfree x j hx.1 q2

end Givaro.Model.FreeList

namespace Givaro.Model.FreeList

/-- the blocks a client holds -/
def Held (c : Client) (b : Nat) : Prop := ∃ k, c.slot k = some b

structure CI (c : Client) : Prop where
  pi : PI c.pool (Held c)
  inj : ∀ k k' b, c.slot k = some b → c.slot k' = some b → k = k'

theorem ci_init : CI Client.init :=
  ⟨pi_init.mono (fun _ ⟨_, h⟩ => by simp [Client.init] at h), fun _ _ _ h => by simp [Client.init] at h⟩

theorem resize_cases {p p' : Pool} {b b' o n : Nat} (e : resize p (some b) o n = some (p', b')) :
    (p' = p ∧ b' = b) ∨ (∃ p1, allocate p n = some (p1, b') ∧ p' = desallocate p1 b) := by
  unfold resize at e
  dsimp only at e
  split at e
  · cases e; exact Or.inl ⟨rfl, rfl⟩
  · split at e
    · cases e; exact Or.inl ⟨rfl, rfl⟩
    · cases ha : allocate p n with
      | none => rw [ha] at e; cases e
      | some r =>
        obtain ⟨p1, b1⟩ := r
        rw [ha] at e; dsimp only at e; cases e
        exact Or.inr ⟨p1, rfl, rfl⟩

/-- a slot that was empty receives a block obtained from `allocate` -/
theorem ci_take {c : Client} (I : CI c) {k sz z : Nat} {p' : Pool} {b : Nat} (hk : c.slot k = none)
    (e : allocate c.pool sz = some (p', b)) :
    CI { pool := p', slot := updF c.slot k (some b), sz := updF c.sz k z } ∧ ¬ Held c b := by
  obtain ⟨nh, P⟩ := allocate_pi I.pi e
  refine ⟨⟨P.mono ?_, ?_⟩, nh⟩
  · intro x ⟨k', hk'⟩
    have hk'' : updF c.slot k (some b) k' = some x := hk'
    unfold updF at hk''
    by_cases ek : k' = k
    · simp only [ek, ↓reduceIte] at hk''; exact Or.inr (Option.some.inj hk'').symm
    · simp only [ek, ↓reduceIte] at hk''; exact Or.inl ⟨k', hk''⟩
  · intro k1 k2 x h1 h2
    have h1' : updF c.slot k (some b) k1 = some x := h1
    have h2' : updF c.slot k (some b) k2 = some x := h2
    unfold updF at h1' h2'
    by_cases e1 : k1 = k
    · by_cases e2 : k2 = k
      · rw [e1, e2]
      · simp only [e1, e2, ↓reduceIte] at h1' h2'
        have : x = b := (Option.some.inj h1').symm
        subst this; exact absurd ⟨k2, h2'⟩ nh
    · by_cases e2 : k2 = k
      · simp only [e1, e2, ↓reduceIte] at h1' h2'
        have : x = b := (Option.some.inj h2').symm
        subst this; exact absurd ⟨k1, h1'⟩ nh
      · simp only [e1, e2, ↓reduceIte] at h1' h2'; exact I.inj k1 k2 x h1' h2'

theorem cstep_ci {c : Client} (I : CI c) (op : Op) :
    CI (cstep c op).1 ∧ (∀ b, (cstep c op).2 = some b → (∀ k, c.slot k = some b → (match op with | .resize k' _ => k = k' | _ => False))) := by
  cases op with
  | alloc k sz =>
    simp only [cstep]
    cases hk : c.slot k with
    | some b0 => dsimp only; exact ⟨I, fun b h => by cases h⟩
    | none =>
      dsimp only
      cases ha : allocate c.pool sz with
      | none => dsimp only; exact ⟨I, fun b h => by cases h⟩
      | some r =>
        obtain ⟨p', b⟩ := r
        dsimp only
        have T := ci_take (z := sz) I hk ha
        exact ⟨T.1, fun b' h k' hk' => by cases h; exact T.2 ⟨k', hk'⟩⟩
  | resizeNull k sz =>
    simp only [cstep]
    cases hk : c.slot k with
    | some b0 => dsimp only; exact ⟨I, fun b h => by cases h⟩
    | none =>
      dsimp only
      have : resize c.pool none 0 sz = allocate c.pool sz := rfl
      rw [this]
      cases ha : allocate c.pool sz with
      | none => dsimp only; exact ⟨I, fun b h => by cases h⟩
      | some r =>
        obtain ⟨p', b⟩ := r
        dsimp only
        have T := ci_take (z := sz) I hk ha
        exact ⟨T.1, fun b' h k' hk' => by cases h; exact T.2 ⟨k', hk'⟩⟩
  | free k =>
    simp only [cstep]
    cases hk : c.slot k with
    | none => dsimp only; exact ⟨I, fun b h => by cases h⟩
    | some b =>
      dsimp only
      refine ⟨⟨(desallocate_pi I.pi ⟨k, hk⟩).mono ?_, ?_⟩, fun b h => by cases h⟩
      · intro x ⟨k', hk'⟩
        have hk'' : updF c.slot k none k' = some x := hk'
        unfold updF at hk''
        by_cases ek : k' = k
        · simp only [ek, ↓reduceIte] at hk''; cases hk''
        · simp only [ek, ↓reduceIte] at hk''
          exact ⟨⟨k', hk''⟩, fun q => ek (I.inj k' k x hk'' (by rw [q]; exact hk))⟩
      · intro k1 k2 x h1 h2
        have h1' : updF c.slot k none k1 = some x := h1
        have h2' : updF c.slot k none k2 = some x := h2
        unfold updF at h1' h2'
        by_cases e1 : k1 = k
        · simp only [e1, ↓reduceIte] at h1'; cases h1'
        · by_cases e2 : k2 = k
          · simp only [e2, ↓reduceIte] at h2'; cases h2'
          · simp only [e1, e2, ↓reduceIte] at h1' h2'; exact I.inj k1 k2 x h1' h2'
  | resize k sz =>
    simp only [cstep]
    cases hk : c.slot k with
    | none => dsimp only; exact ⟨I, fun b h => by cases h⟩
    | some b =>
      dsimp only
      cases hr : resize c.pool (some b) (c.sz k) sz with
      | none => dsimp only; exact ⟨I, fun b h => by cases h⟩
      | some r =>
        obtain ⟨p', b'⟩ := r
        dsimp only
        rcases resize_cases hr with ⟨e1, e2⟩ | ⟨p1, ha, e1⟩
        · subst e1; subst e2
          have same : updF c.slot k (some b') = c.slot := by
            funext j; unfold updF; by_cases ej : j = k
            · simp only [ej, ↓reduceIte]; exact hk.symm
            · simp only [ej, ↓reduceIte]
          refine ⟨⟨?_, ?_⟩, fun x h k' hk' => ?_⟩
          · refine I.pi.mono ?_
            intro x ⟨k', hk'⟩
            have hk'' : updF c.slot k (some b') k' = some x := hk'
            rw [same] at hk''; exact ⟨k', hk''⟩
          · intro k1 k2 x h1 h2
            have h1' : updF c.slot k (some b') k1 = some x := h1
            have h2' : updF c.slot k (some b') k2 = some x := h2
            rw [same] at h1' h2'; exact I.inj k1 k2 x h1' h2'
          · cases h; exact I.inj k' k _ hk' hk
        · subst e1
          obtain ⟨nh, P⟩ := allocate_pi I.pi ha
          have P2 := desallocate_pi P (Or.inl ⟨k, hk⟩)
          have hne : b' ≠ b := fun q => nh ⟨k, by rw [q]; exact hk⟩
          refine ⟨⟨P2.mono ?_, ?_⟩, fun x h k' hk' => by cases h; exact absurd ⟨k', hk'⟩ nh⟩
          · intro x ⟨k', hk'⟩
            have hk'' : updF c.slot k (some b') k' = some x := hk'
            unfold updF at hk''
            by_cases ek : k' = k
            · simp only [ek, ↓reduceIte] at hk''
              have : x = b' := (Option.some.inj hk'').symm
              subst this; exact ⟨Or.inr rfl, hne⟩
            · simp only [ek, ↓reduceIte] at hk''
              exact ⟨Or.inl ⟨k', hk''⟩, fun q => ek (I.inj k' k x hk'' (by rw [q]; exact hk))⟩
          · intro k1 k2 x h1 h2
            have h1' : updF c.slot k (some b') k1 = some x := h1
            have h2' : updF c.slot k (some b') k2 = some x := h2
            unfold updF at h1' h2'
            by_cases e1 : k1 = k
            · by_cases e2 : k2 = k
              · rw [e1, e2]
              · simp only [e1, e2, ↓reduceIte] at h1' h2'
                have : x = b' := (Option.some.inj h1').symm
                subst this; exact absurd ⟨k2, h2'⟩ nh
            · by_cases e2 : k2 = k
              · simp only [e1, e2, ↓reduceIte] at h1' h2'
                have : x = b' := (Option.some.inj h2').symm
                subst this; exact absurd ⟨k1, h1'⟩ nh
              · simp only [e1, e2, ↓reduceIte] at h1' h2'; exact I.inj k1 k2 x h1' h2'

theorem crun_ci (ops : List Op) : ∀ {c : Client}, CI c → CI (crun c ops) := by
  induction ops with
  | nil => intro c I; exact I
  | cons op rest ih => intro c I; exact ih (cstep_ci I op).1

end Givaro.Model.FreeList
