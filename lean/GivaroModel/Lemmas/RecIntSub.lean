/- C06 helper lemmas: rusub.h family is exact (value and borrow), for every level. -/
import GivaroModel.Lemmas.RecIntAdd
namespace Givaro.Model.RecInt

/-- `r.1 = minuend - subtrahend` modulo the base, `r.2` the exact borrow -/
def SubOk {n : Nat} (r : RU n × Bool) (sb sc : Nat) : Prop := WF r.1 ∧ val r.1 + sc = sb + c2n r.2 * Bn n

theorem sub_wc_ok : ∀ {n : Nat} (b c : RU n) (cy : Bool), WF b → WF c →
    SubOk (sub_wc b c cy) (val b) (val c + c2n cy)
  | 0, .limb b, .limb c, cy, hb, hc => by
      simp only [WF] at hb hc
      unfold SubOk; rw [Bn_zero]
      cases cy <;> simp only [sub_wc, val, WF, c2n_decide, c2n_true, c2n_false, ↓reduceIte, Bool.false_eq_true] <;>
        (refine ⟨by simp only [B64] at *; omega, ?_⟩; split <;> simp only [B64] at * <;> omega)
  | 1, .node (.limb bl) (.limb bh), .node (.limb cl) (.limb ch), cy, hb, hc => by
      simp only [WF] at hb hc
      have hx := pair_lt bl bh hb.1 hb.2
      have hy := pair_lt cl ch hc.1 hc.2
      have hs := sub_dd_val bh bl ch cl
      have hs' := sub_dd_val (sub_dd bh bl ch cl).1 (sub_dd bh bl ch cl).2 0 1
      have hbp : WF (mk1 (bh, bl)) := by rw [WF_mk1]; exact hb
      have hcp : WF (mk1 (ch, cl)) := by rw [WF_mk1]; exact hc
      have e1 : (sub_dd bh bl ch cl).2 + B64 * (sub_dd bh bl ch cl).1 = val (mk1 (sub_dd bh bl ch cl)) := by rw [val_mk1]
      unfold SubOk; rw [Bn_one]
      simp only [val_node, val_limb, Bn_zero]
      cases cy <;> simp only [sub_wc, c2n_decide, c2n_true, c2n_false, ↓reduceIte, Bool.false_eq_true]
      · simp only [cmp_lt _ _ hbp hcp, val_pair]
        refine ⟨hs.2, ?_⟩
        obtain ⟨hs1, -⟩ := hs
        generalize val (mk1 (sub_dd bh bl ch cl)) = s at *
        by_cases h : bl + B64 * bh < cl + B64 * ch <;> simp only [h, ↓reduceIte] <;> simp only [B64] at * <;> omega
      · simp only [cmp_le _ _ hbp hcp, val_pair]
        refine ⟨hs'.2, ?_⟩
        rw [e1] at hs'
        generalize val (mk1 (sub_dd (sub_dd bh bl ch cl).1 (sub_dd bh bl ch cl).2 0 1)) = s' at *
        generalize val (mk1 (sub_dd bh bl ch cl)) = s at *
        obtain ⟨hs1, -⟩ := hs
        obtain ⟨hs1', -⟩ := hs'
        by_cases h : bl + B64 * bh ≤ cl + B64 * ch <;> simp only [h, ↓reduceIte] <;> simp only [B64] at * <;> omega
  | n+2, .node bl bh, .node cl ch, cy, hb, hc => by
      have h1 := sub_wc_ok bl cl cy hb.1 hc.1
      have h2 := sub_wc_ok bh ch (sub_wc bl cl cy).2 hb.2 hc.2
      unfold SubOk at *
      simp only [sub_wc, val_node, WF_node]
      refine ⟨⟨h1.1, h2.1⟩, ?_⟩
      rw [Bn_succ (n+1)]
      linear_combination h1.2 + Bn (n+1) * h2.2

theorem sub_ok : ∀ {n : Nat} (b c : RU n), WF b → WF c → SubOk (sub b c) (val b) (val c)
  | 0, .limb b, .limb c, hb, hc => by
      simp only [WF] at hb hc
      unfold SubOk; rw [Bn_zero]
      simp only [sub, val, WF, c2n_decide]
      refine ⟨by simp only [B64] at *; omega, ?_⟩; split <;> simp only [B64] at * <;> omega
  | 1, .node (.limb bl) (.limb bh), .node (.limb cl) (.limb ch), hb, hc => by
      simp only [WF] at hb hc
      have hx := pair_lt bl bh hb.1 hb.2
      have hy := pair_lt cl ch hc.1 hc.2
      have hs := sub_dd_val bh bl ch cl
      have hbp : WF (mk1 (bh, bl)) := by rw [WF_mk1]; exact hb
      have hcp : WF (mk1 (ch, cl)) := by rw [WF_mk1]; exact hc
      unfold SubOk; rw [Bn_one]
      simp only [val_node, val_limb, Bn_zero, sub, c2n_decide]
      simp only [cmp_lt _ _ hbp hcp, val_pair]
      refine ⟨hs.2, ?_⟩
      obtain ⟨hs1, -⟩ := hs
      generalize val (mk1 (sub_dd bh bl ch cl)) = s at *
      by_cases h : bl + B64 * bh < cl + B64 * ch <;> simp only [h, ↓reduceIte] <;> simp only [B64] at * <;> omega
  | n+2, .node bl bh, .node cl ch, hb, hc => by
      have h1 := sub_ok bl cl hb.1 hc.1
      have h2 := sub_wc_ok bh ch (sub bl cl).2 hb.2 hc.2
      unfold SubOk at *
      simp only [sub, val_node, WF_node]
      refine ⟨⟨h1.1, h2.1⟩, ?_⟩
      rw [Bn_succ (n+1)]
      linear_combination h1.2 + Bn (n+1) * h2.2

theorem sub_l_ok : ∀ {n : Nat} (b : RU n) (c : Nat), WF b → c < B64 → SubOk (sub_l b c) (val b) c
  | 0, .limb b, c, hb, hc => by
      simp only [WF] at hb
      unfold SubOk; rw [Bn_zero]
      simp only [sub_l, val, WF, c2n_decide]
      refine ⟨by simp only [B64] at *; omega, ?_⟩; split <;> simp only [B64] at * <;> omega
  | 1, .node (.limb bl) (.limb bh), c, hb, hc => by
      simp only [WF] at hb
      have hx := pair_lt bl bh hb.1 hb.2
      have hs := sub_dd_val bh bl 0 c
      have hbp : WF (mk1 (bh, bl)) := by rw [WF_mk1]; exact hb
      unfold SubOk; rw [Bn_one]
      simp only [val_node, val_limb, Bn_zero, sub_l, c2n_decide]
      simp only [cmp_l_lt _ _ hbp hc, val_pair]
      refine ⟨hs.2, ?_⟩
      obtain ⟨hs1, -⟩ := hs
      generalize val (mk1 (sub_dd bh bl 0 c)) = s at *
      by_cases h : bl + B64 * bh < c <;> simp only [h, ↓reduceIte] <;> simp only [B64] at * <;> omega
  | n+2, .node bl bh, c, hb, hc => by
      have h1 := sub_l_ok bl c hb.1 hc
      have hc2 : c2n (sub_l bl c).2 < B64 := by have := c2n_le (sub_l bl c).2; simp only [B64]; omega
      have h2 := sub_l_ok bh (c2n (sub_l bl c).2) hb.2 hc2
      unfold SubOk at *
      simp only [sub_l, val_node, WF_node]
      refine ⟨⟨h1.1, h2.1⟩, ?_⟩
      rw [Bn_succ (n+1)]
      have e : (if (sub_l bl c).2 = true then 1 else 0) = c2n (sub_l bl c).2 := rfl
      rw [e]
      linear_combination h1.2 + Bn (n+1) * h2.2

theorem sub_1_ok : ∀ {n : Nat} (b : RU n), WF b → SubOk (sub_1 b) (val b) 1
  | 0, .limb b, hb => by
      simp only [WF] at hb
      unfold SubOk; rw [Bn_zero]
      simp only [sub_1, val, WF, c2n_decide]
      refine ⟨by simp only [B64] at *; omega, ?_⟩; split <;> simp only [B64] at * <;> omega
  | 1, .node (.limb bl) (.limb bh), hb => by
      simp only [WF] at hb
      have hx := pair_lt bl bh hb.1 hb.2
      have hs := sub_dd_val bh bl 0 1
      unfold SubOk; rw [Bn_one]
      simp only [val_node, val_limb, Bn_zero, sub_1]
      refine ⟨hs.2, ?_⟩
      have hz := isZero_iff (mk1 (bh, bl))
      rw [val_pair] at hz
      obtain ⟨hs1, -⟩ := hs
      generalize val (mk1 (sub_dd bh bl 0 1)) = s at *
      cases hzz : isZero (mk1 (bh, bl))
      · have : bl + B64 * bh ≠ 0 := fun e => by rw [hzz] at hz; exact absurd (hz.mpr e) (by simp)
        simp only [c2n_false]; simp only [B64] at *; omega
      · have : bl + B64 * bh = 0 := hz.mp hzz
        simp only [c2n_true]; simp only [B64] at *; omega
  | n+2, .node bl bh, hb => by
      have h1 := sub_1_ok bl hb.1
      have hc2 : c2n (sub_1 bl).2 < B64 := by have := c2n_le (sub_1 bl).2; simp only [B64]; omega
      have h2 := sub_l_ok bh (c2n (sub_1 bl).2) hb.2 hc2
      unfold SubOk at *
      simp only [sub_1, val_node, WF_node]
      refine ⟨⟨h1.1, h2.1⟩, ?_⟩
      rw [Bn_succ (n+1)]
      have e : (if (sub_1 bl).2 = true then 1 else 0) = c2n (sub_1 bl).2 := rfl
      rw [e]
      linear_combination h1.2 + Bn (n+1) * h2.2

theorem SubOk.exact {n : Nat} {r : RU n × Bool} {sb sc : Nat} (h : SubOk r sb sc) (hb : sb < Bn n) (hc : sc ≤ Bn n) :
    val r.1 = (sb + Bn n - sc) % Bn n ∧ (r.2 = true ↔ sb < sc) := by
  obtain ⟨hw, he⟩ := h
  have h1 := val_lt _ hw
  cases hr : r.2 <;> rw [hr] at he <;> simp only [c2n_true, c2n_false, Nat.zero_mul, Nat.one_mul, Nat.add_zero] at he
  · refine ⟨?_, by simp; omega⟩
    have : sb + Bn n - sc = val r.1 + Bn n := by omega
    rw [this, Nat.add_mod_right, Nat.mod_eq_of_lt h1]
  · refine ⟨?_, by simp; omega⟩
    have : sb + Bn n - sc = val r.1 := by omega
    rw [this, Nat.mod_eq_of_lt h1]

/-- the borrow-less variants return the same value -/
theorem sub_wcNC_val : ∀ {n : Nat} (b c : RU n) (cy : Bool), WF b → WF c →
    WF (sub_wcNC b c cy) ∧ val (sub_wcNC b c cy) = val (sub_wc b c cy).1
  | 0, .limb b, .limb c, cy, _, _ => by
      cases cy <;> simp only [sub_wcNC, sub_wc, val, WF, ↓reduceIte, Bool.false_eq_true, and_true] <;> simp only [B64] <;> omega
  | 1, .node (.limb bl) (.limb bh), .node (.limb cl) (.limb ch), cy, hb, hc => by
      have hs := sub_dd_val bh bl ch cl
      have e1 : (sub_dd bh bl ch cl).2 + B64 * (sub_dd bh bl ch cl).1 = val (mk1 (sub_dd bh bl ch cl)) := by rw [val_mk1]
      cases cy <;> simp only [sub_wcNC, sub_wc, ↓reduceIte, Bool.false_eq_true]
      · have hs' := sub_dd_val (sub_dd bh bl ch cl).1 (sub_dd bh bl ch cl).2 0 0
        refine ⟨hs'.2, ?_⟩
        rw [hs'.1, e1]
        have := val_lt _ hs.2; rw [Bn_one] at this
        generalize val (mk1 (sub_dd bh bl ch cl)) = s at *
        simp only [B64] at *; omega
      · exact ⟨(sub_dd_val _ _ 0 1).2, trivial⟩
  | n+2, .node bl bh, .node cl ch, cy, hb, hc => by
      have h2 := sub_wcNC_val bh ch (sub_wc bl cl cy).2 hb.2 hc.2
      have h1 := sub_wc_ok bl cl cy hb.1 hc.1
      simp only [sub_wcNC, sub_wc, val_node, WF_node, h2.2]
      exact ⟨⟨h1.1, h2.1⟩, trivial⟩

theorem subNC_val : ∀ {n : Nat} (b c : RU n), WF b → WF c → WF (subNC b c) ∧ val (subNC b c) = val (sub b c).1
  | 0, .limb b, .limb c, _, _ => by simp only [subNC, sub, val, WF, and_true, B64]; omega
  | 1, .node (.limb bl) (.limb bh), .node (.limb cl) (.limb ch), _, _ => by
      simp only [subNC, sub]; exact ⟨(sub_dd_val _ _ _ _).2, trivial⟩
  | n+2, .node bl bh, .node cl ch, hb, hc => by
      have h2 := sub_wcNC_val bh ch (sub bl cl).2 hb.2 hc.2
      have h1 := sub_ok bl cl hb.1 hc.1
      simp only [subNC, sub, val_node, WF_node, h2.2]
      exact ⟨⟨h1.1, h2.1⟩, trivial⟩

end Givaro.Model.RecInt
