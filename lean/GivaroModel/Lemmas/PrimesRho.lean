/- C12 — lemmas about the rho loops of Model/PrimesRho.lean: everything they return is a gcd with n. -/
import GivaroModel.Model.PrimesRho
import Mathlib.Algebra.Order.Ring.Int
namespace Givaro.Lemmas.Primes
open Givaro.Model.Primes

theorem rhoLoop0_some (n : Int) : ∀ (fuel : Nat) (m p x y g : Int), rhoLoop0 n fuel m p x y = some g →
    g ≠ 1 ∧ ∃ d : Int, g = (Int.gcd d n : Int) := by
  intro fuel
  induction fuel with
  | zero => intro m p x y g h; simp [rhoLoop0] at h
  | succ f ih =>
    intro m p x y g h
    unfold rhoLoop0 at h
    simp only at h
    generalize (if p = m + 1 then y else x) = x1 at h
    generalize (if p = m + 1 then p * 2 else p) = p1 at h
    by_cases hg : ((Int.gcd (pollardFct y n - x1) n : Int)) = 1
    · rw [if_pos hg] at h; exact ih _ _ _ _ g h
    · rw [if_neg hg] at h
      injection h with h
      exact ⟨by rw [← h]; exact hg, _, h.symm⟩

theorem rhoLoopT_div (n : Int) (hn : 0 < n) (threshold : Nat) : ∀ (fuel c : Nat) (g m p x y : Int), (0 < g ∧ g ∣ n) →
    0 < (rhoLoopT n threshold fuel c g m p x y).1 ∧ (rhoLoopT n threshold fuel c g m p x y).1 ∣ n := by
  intro fuel
  induction fuel with
  | zero => intro c g m p x y h; simpa [rhoLoopT] using h
  | succ f ih =>
    intro c g m p x y h
    unfold rhoLoopT
    by_cases h1 : g = 1
    · simp only [h1, ↓reduceIte]
      by_cases h2 : c + 1 < threshold
      · simp only [h2, ↓reduceIte]
        apply ih
        exact ⟨by exact_mod_cast Int.gcd_pos_of_ne_zero_right _ (by omega), Int.gcd_dvd_right _ _⟩
      · simp only [h2, ↓reduceIte]; exact ⟨by omega, one_dvd n⟩
    · simp only [h1, ↓reduceIte]; exact h

end Givaro.Lemmas.Primes
