/-
C08 — exactness of the Karatsuba range product (`karaStep`, `mulR`) of `Model/Poly.lean`, for every shape of the
three ranges (full length and truncated), coefficient by coefficient against `toPoly`.
-/
import GivaroModel.Lemmas.PolyLemmas

open Polynomial
set_option linter.unusedSectionVars false

namespace Givaro.Lemmas.Poly
open Givaro.Model.Poly

variable {K : Type} [Field K] [DecidableEq K]

/-! ### list bookkeeping -/

theorem getD_eq_coeff (L : List K) (i : Nat) : L.getD i 0 = (toPoly L).coeff i := (coeff_toPoly L i).symm

theorem getD_setdegree (L : List K) (i : Nat) : (setdegree L).getD i 0 = L.getD i 0 := by
  rw [getD_eq_coeff, getD_eq_coeff, toPoly_setdegree]

theorem length_setdegree_le (L : List K) : (setdegree L).length ≤ L.length := by
  induction L with
  | nil => simp [setdegree]
  | cons a L ih =>
    unfold setdegree
    split
    · split <;> simp
    · next b Q h => rw [h] at ih; simp at ih ⊢; omega

theorem length_zeros (n : Nat) : (zeros n : List K).length = n := by simp [zeros]

theorem length_pad (n : Nat) (L : List K) : (pad n L).length = n := by
  simp [pad, length_zeros]

theorem getD_zeros (n i : Nat) : (zeros n : List K).getD i 0 = 0 := by
  simp [zeros, List.getD_eq_getElem?_getD, List.getElem?_replicate]
  split <;> rfl

theorem getD_take (L : List K) (m i : Nat) : (L.take m).getD i 0 = if i < m then L.getD i 0 else 0 := by
  simp only [List.getD_eq_getElem?_getD, List.getElem?_take]
  split <;> rfl

theorem getD_append (A B : List K) (k : Nat) :
    (A ++ B).getD k 0 = if k < A.length then A.getD k 0 else B.getD (k - A.length) 0 := by
  simp only [List.getD_eq_getElem?_getD]
  split
  · next h => rw [List.getElem?_append_left h]
  · next h => rw [List.getElem?_append_right (by omega)]

theorem getD_pad (n : Nat) (L : List K) (i : Nat) : (pad n L).getD i 0 = if i < n then L.getD i 0 else 0 := by
  unfold pad
  rw [getD_take]
  split
  · rw [getD_append]
    split
    · rfl
    · next h => rw [getD_zeros, getD_of_le L i (by omega)]
  · rfl

theorem length_sub (A B : List K) : (sub A B).length = max A.length B.length := by
  induction A generalizing B with
  | nil => cases B <;> simp [sub, neg]
  | cons a A ih => cases B with
    | nil => simp [sub]
    | cons b B => simp [sub, ih]

theorem toPoly_subin3 (M L : List K) : toPoly (subin3 M L) = toPoly M - toPoly L := by
  unfold subin3
  split
  · next h => simp [isEmpty_toPoly h]
  · split
    · rw [toPoly_setdegree, toPoly_sub]
    · rw [toPoly_sub]

theorem toPoly_take_drop (L : List K) (h : Nat) : toPoly L = toPoly (L.take h) + X ^ h * toPoly (L.drop h) := by
  induction h generalizing L with
  | zero => simp
  | succ h ih =>
    cases L with
    | nil => simp
    | cons a L =>
      simp only [List.take_succ_cons, List.drop_succ_cons, toPoly_cons]
      rw [ih L]; ring

theorem zipSub_length (R M : List K) : (zipSub R M).length = R.length := by
  induction R generalizing M with
  | nil => cases M <;> simp [zipSub]
  | cons r R ih => cases M with
    | nil => simp [zipSub]
    | cons m M => simp [zipSub, ih]

theorem zipSub_getD (R M : List K) (k : Nat) :
    (zipSub R M).getD k 0 = R.getD k 0 - (if k < R.length then M.getD k 0 else 0) := by
  induction R generalizing M k with
  | nil => cases M <;> simp [zipSub]
  | cons r R ih => cases M with
    | nil => simp [zipSub]
    | cons m M => cases k with
      | zero => simp [zipSub]
      | succ k =>
        simp only [zipSub, List.getD_cons_succ, List.length_cons, Nat.add_lt_add_iff_right]
        exact ih M k

theorem subRow_length (M : List K) (off : Nat) (R : List K) : (subRow M off R).length = R.length := by
  induction off generalizing R with
  | zero => simp [subRow, zipSub_length]
  | succ off ih => cases R with
    | nil => simp [subRow]
    | cons r R => simp [subRow, ih]

theorem subRow_getD (M : List K) (off : Nat) (R : List K) (k : Nat) :
    (subRow M off R).getD k 0 = R.getD k 0 - (if off ≤ k ∧ k < R.length then M.getD (k - off) 0 else 0) := by
  induction off generalizing R k with
  | zero =>
    simp only [subRow, Nat.zero_le, true_and, Nat.sub_zero]
    exact zipSub_getD R M k
  | succ off ih => cases R with
    | nil => simp [subRow]
    | cons r R => cases k with
      | zero => simp [subRow]
      | succ k =>
        simp only [subRow, List.getD_cons_succ, List.length_cons, Nat.add_lt_add_iff_right, Nat.add_le_add_iff_right,
          Nat.add_sub_add_right]
        exact ih R k

/-! ### the Karatsuba step -/

/-- what a range product must deliver on an R range of length `m`: at most `m` coefficients written, and the
    coefficients `0 … m-1` of the product (`A·B mod X^m`) -/
def MulSpec (mul : Nat → List K → List K → List K) (m : Nat) (A B : List K) : Prop :=
  (mul m A B).length ≤ m ∧ ∀ i, i < m → (mul m A B).getD i 0 = (toPoly A * toPoly B).coeff i

theorem MulSpec.getD_pad {mul : Nat → List K → List K → List K} {m : Nat} {A B : List K}
    (h : MulSpec mul m A B) (i : Nat) :
    (pad m (mul m A B)).getD i 0 = if i < m then (toPoly A * toPoly B).coeff i else 0 := by
  rw [Givaro.Lemmas.Poly.getD_pad]
  split
  · next hi => exact h.2 i hi
  · rfl

theorem MulSpec.getD_ge {mul : Nat → List K → List K → List K} {m : Nat} {A B : List K}
    (h : MulSpec mul m A B) (i : Nat) (hi : m ≤ i) : (mul m A B).getD i 0 = 0 :=
  getD_of_le _ _ (by have := h.1; omega)

/-- admissible shapes for a multiplier that is only known to be exact on full-length ranges when `thr = 0` -/
def Adm (thr m : Nat) (A B : List K) : Prop := 1 ≤ thr ∨ A.length + B.length ≤ m + 1

theorem karaStep_exact (thr : Nat) (mul : Nat → List K → List K → List K)
    (hmul : ∀ m A B, Adm thr m A B → MulSpec mul m A B)
    (n : Nat) (P Q : List K) (hadm : Adm thr n P Q)
    (hcase0 : 1 ≤ min (P.length / 2) (Q.length / 2) ∨ P.length + Q.length ≤ n + 1) :
    (karaStep mul n P Q).length = n ∧
    ∀ k, k < n → (karaStep mul n P Q).getD k 0 = (toPoly P * toPoly Q).coeff k := by
  unfold karaStep
  by_cases hn : n = 0
  · rw [if_pos hn]; subst hn; simp
  rw [if_neg hn]
  extract_lets halfP halfQ half halfR Pl Ph Ql Qh lo highs rrems midts PHQH hi PHPL QHQL M0 M1 M2
  have e1 : halfP = P.length / 2 := rfl
  have e2 : halfQ = Q.length / 2 := rfl
  have e3 : half = min halfP halfQ := rfl
  have e4 : halfR = min (2 * half) n := rfl
  have lPl : Pl.length = half := by simp only [Pl, List.length_take]; omega
  have lQl : Ql.length = half := by simp only [Ql, List.length_take]; omega
  have lPh : Ph.length = P.length - half := by simp only [Ph, List.length_drop]
  have lQh : Qh.length = Q.length - half := by simp only [Qh, List.length_drop]
  have hP : toPoly P = toPoly Pl + X ^ half * toPoly Ph := toPoly_take_drop P half
  have hQ : toPoly Q = toPoly Ql + X ^ half * toPoly Qh := toPoly_take_drop Q half
  have hcase : 1 ≤ half ∨ P.length + Q.length ≤ n + 1 := hcase0
  -- the low product
  have admlo : Adm thr halfR Pl Ql := by
    rcases hadm with h | h
    · exact Or.inl h
    · right; rw [lPl, lQl]; omega
  have slo := hmul halfR Pl Ql admlo
  have Flo : ∀ i, lo.getD i 0 = if i < halfR then (toPoly Pl * toPoly Ql).coeff i else 0 := slo.getD_pad
  have llo : lo.length = halfR := length_pad _ _
  have zlo : ∀ i, 2 * half ≤ i + 1 → (toPoly Pl * toPoly Ql).coeff i = 0 := by
    intro i hi; exact coeff_mul_toPoly_of_le Pl Ql i (by omega)
  have expand : ∀ k, (toPoly P * toPoly Q).coeff k =
      (toPoly Pl * toPoly Ql).coeff k
      + (if half ≤ k then (toPoly Pl * toPoly Qh + toPoly Ph * toPoly Ql).coeff (k - half) else 0)
      + (if 2 * half ≤ k then (toPoly Ph * toPoly Qh).coeff (k - 2 * half) else 0) := by
    intro k
    have : toPoly P * toPoly Q = toPoly Pl * toPoly Ql + X ^ half * (toPoly Pl * toPoly Qh + toPoly Ph * toPoly Ql)
        + X ^ (2 * half) * (toPoly Ph * toPoly Qh) := by rw [hP, hQ]; ring
    rw [this, coeff_add, coeff_add, coeff_X_pow_mul', coeff_X_pow_mul']
  split
  · -- the range ends inside the low product
    next hlt =>
    have hR : halfR = n := by omega
    refine ⟨length_pad _ _, ?_⟩
    intro k hk
    rw [getD_pad, if_pos hk, Flo, if_pos (by omega), expand, if_neg (by omega), if_neg (by omega)]
    ring
  · next hlt =>
    have hlt' : half < n := by omega
    have e5 : highs = Ph.length + Qh.length - 1 := rfl
    have e6 : rrems = n - halfR := rfl
    have e7 : midts = min highs (n - half) := rfl
    have zhh : ∀ j, highs ≤ j → (toPoly Ph * toPoly Qh).coeff j = 0 := by
      intro j hj; exact coeff_mul_toPoly_of_le Ph Qh j (by omega)
    have lsP : (sub Ph Pl).length = Ph.length := by rw [length_sub]; omega
    have lsQ : (sub Qh Ql).length = Qh.length := by rw [length_sub]; omega
    have tPHPL : toPoly PHPL = toPoly Ph - toPoly Pl := by
      simp only [PHPL]; rw [toPoly_setdegree, toPoly_sub]
    have tQHQL : toPoly QHQL = toPoly Qh - toPoly Ql := by
      simp only [QHQL]; rw [toPoly_setdegree, toPoly_sub]
    have zmm : ∀ j, highs ≤ j → ((toPoly Ph - toPoly Pl) * (toPoly Qh - toPoly Ql)).coeff j = 0 := by
      intro j hj
      rw [← toPoly_sub, ← toPoly_sub]
      exact coeff_mul_toPoly_of_le _ _ j (by rw [lsP, lsQ]; omega)
    -- the high product
    have Fhi : hi.length = rrems ∧ ∀ j, j < rrems → hi.getD j 0 = (toPoly Ph * toPoly Qh).coeff j := by
      by_cases hA : rrems < midts
      · have adm : Adm thr midts Ph Qh := by
          rcases hadm with h | h
          · exact Or.inl h
          · exfalso; omega
        have s := hmul midts Ph Qh adm
        have ehi : hi = (pad midts (mul midts Ph Qh)).take rrems := by simp only [hi, PHQH, if_pos hA]
        rw [ehi]
        refine ⟨by rw [List.length_take, length_pad]; omega, ?_⟩
        intro j hj
        rw [getD_take, if_pos hj, s.getD_pad, if_pos (by omega)]
      · have adm : Adm thr rrems Ph Qh := by
          rcases hadm with h | h
          · exact Or.inl h
          · right; omega
        have s := hmul rrems Ph Qh adm
        have ehi : hi = pad rrems (mul rrems Ph Qh) := by simp only [hi, if_neg hA]
        rw [ehi]
        refine ⟨length_pad _ _, ?_⟩
        intro j hj
        rw [s.getD_pad, if_pos hj]
    -- the term subtracted for PhQh
    have FX : ∀ j, j < n - half →
        (if rrems < highs then PHQH else hi).getD j 0 = (toPoly Ph * toPoly Qh).coeff j := by
      intro j hj
      by_cases hB : rrems < highs
      · rw [if_pos hB]
        by_cases hA : rrems < midts
        · have adm : Adm thr midts Ph Qh := by
            rcases hadm with h | h
            · exact Or.inl h
            · exfalso; omega
          have s := hmul midts Ph Qh adm
          have eX : PHQH = pad midts (mul midts Ph Qh) := by simp only [PHQH, if_pos hA]
          rw [eX, s.getD_pad]
          split
          · rfl
          · exact (zhh j (by omega)).symm
        · exfalso; omega
      · rw [if_neg hB]
        by_cases hj2 : j < rrems
        · exact Fhi.2 j hj2
        · rw [getD_of_le _ _ (by rw [Fhi.1]; omega)]
          exact (zhh j (by omega)).symm
    -- the middle product
    have lPHPL : PHPL.length ≤ Ph.length := by
      have := length_setdegree_le (sub Ph Pl); simp only [PHPL]; omega
    have lQHQL : QHQL.length ≤ Qh.length := by
      have := length_setdegree_le (sub Qh Ql); simp only [QHQL]; omega
    have admM : Adm thr midts PHPL QHQL := by
      rcases hadm with h | h
      · exact Or.inl h
      · right; omega
    have sM := hmul midts PHPL QHQL admM
    have Fm0 : ∀ j, j < n - half → (mul midts PHPL QHQL).getD j 0
        = ((toPoly Ph - toPoly Pl) * (toPoly Qh - toPoly Ql)).coeff j := by
      intro j hj
      by_cases hjm : j < midts
      · rw [sM.2 j hjm, tPHPL, tQHQL]
      · rw [sM.getD_ge j (by omega)]
        exact (zmm j (by omega)).symm
    have Flo2 : ∀ j, j < n - half → lo.getD j 0 = (toPoly Pl * toPoly Ql).coeff j := by
      intro j hj
      rw [Flo]
      split
      · rfl
      · exact (zlo j (by omega)).symm
    have FM2 : ∀ j, M2.getD j 0 = (mul midts PHPL QHQL).getD j 0 - lo.getD j 0
        - (if rrems < highs then PHQH else hi).getD j 0 := by
      intro j
      have t : toPoly M2 = toPoly (mul midts PHPL QHQL) - toPoly lo
          - toPoly (if rrems < highs then PHQH else hi) := by
        simp only [M2, M1, M0]
        rw [toPoly_setdegree]
        split
        · rw [toPoly_subin, toPoly_setdegree, toPoly_subin3, toPoly_setdegree]
        · rw [toPoly_subin3, toPoly_setdegree, toPoly_subin3, toPoly_setdegree]
      rw [getD_eq_coeff, t, coeff_sub, coeff_sub, ← getD_eq_coeff, ← getD_eq_coeff, ← getD_eq_coeff]
    have hmidc : ∀ j, (toPoly Pl * toPoly Qh + toPoly Ph * toPoly Ql).coeff j
        = -(((toPoly Ph - toPoly Pl) * (toPoly Qh - toPoly Ql)).coeff j - (toPoly Pl * toPoly Ql).coeff j
            - (toPoly Ph * toPoly Qh).coeff j) := by
      intro j
      have : toPoly Pl * toPoly Qh + toPoly Ph * toPoly Ql
          = -((toPoly Ph - toPoly Pl) * (toPoly Qh - toPoly Ql) - toPoly Pl * toPoly Ql - toPoly Ph * toPoly Qh) := by
        ring
      rw [this, coeff_neg, coeff_sub, coeff_sub]
    refine ⟨by rw [subRow_length, List.length_append, llo, Fhi.1]; omega, ?_⟩
    intro k hk
    rw [subRow_getD, getD_append, llo, List.length_append, llo, Fhi.1, expand]
    by_cases hkh : half ≤ k
    · have hj : k - half < n - half := by omega
      have c1 : half ≤ k ∧ k < halfR + rrems := ⟨hkh, by omega⟩
      rw [if_pos c1, FM2, Fm0 _ hj, Flo2 _ hj, FX _ hj, if_pos hkh, hmidc]
      by_cases hkR : k < halfR
      · have c2 : ¬ (2 * half ≤ k) := by omega
        rw [if_pos hkR, Flo, if_pos hkR, if_neg c2]
        ring
      · have hR2 : halfR = 2 * half := by omega
        have c2 : 2 * half ≤ k := by omega
        rw [if_neg hkR, Fhi.2 _ (by omega), if_pos c2, zlo k (by omega), hR2]
        ring
    · have hkR : k < halfR := by omega
      have c1 : ¬ (half ≤ k ∧ k < halfR + rrems) := fun h => hkh h.1
      have c2 : ¬ (2 * half ≤ k) := by omega
      rw [if_neg c1, if_pos hkR, Flo, if_pos hkR, if_neg hkh, if_neg c2]
      ring

theorem stdmulR_spec (m : Nat) (A B : List K) : MulSpec stdmulR m A B := by
  by_cases hm : m = 0
  · subst hm; simp [MulSpec, stdmulR]
  · cases A with
    | nil => simp [MulSpec, stdmulR, hm]
    | cons a At =>
      have := stdmulR_exact m (a :: At) B (by omega) (by simp)
      exact ⟨by omega, this.2⟩

/-- the generic range product `mul(R,Rbeg,Rend,P,Pbeg,Pend,Q,Qbeg,Qend)` (dispatch + Karatsuba recursion) is exact on every
    admissible shape, for every recursion budget -/
theorem mulR_spec (thr fuel : Nat) :
    ∀ (m : Nat) (A B : List K), Adm thr m A B → MulSpec (mulR thr fuel) m A B := by
  induction fuel with
  | zero => intro m A B _; exact stdmulR_spec m A B
  | succ fuel ih =>
    intro m A B hadm
    have e : mulR thr (fuel + 1) m A B
        = if A.length > thr ∧ B.length > thr then karaStep (mulR thr fuel) m A B else stdmulR m A B := rfl
    unfold MulSpec
    rw [e]
    split
    · next hgt =>
      have hc : 1 ≤ min (A.length / 2) (B.length / 2) ∨ A.length + B.length ≤ m + 1 := by
        rcases hadm with h | h
        · left; omega
        · right; exact h
      have := karaStep_exact thr (mulR thr fuel) ih m A B hadm hc
      exact ⟨by omega, this.2⟩
    · exact stdmulR_spec m A B

theorem toPoly_of_spec (n : Nat) (R : List K) (f : K[X]) (h1 : ∀ k, k < n → R.getD k 0 = f.coeff k)
    (h2 : ∀ k, n ≤ k → f.coeff k = 0) : toPoly (setdegree (pad n R)) = f := by
  rw [toPoly_setdegree]
  apply toPoly_eq_of_coeff
  · intro k hk
    rw [length_pad] at hk
    rw [getD_pad, if_pos hk, h1 k hk]
  · intro k hk
    rw [length_pad] at hk
    exact h2 k hk

/-- `mul(R,P,Q)` is the exact product: every threshold, every operand -/
theorem toPoly_mul (thr : Nat) (P Q : List K) : toPoly (mul thr P Q) = toPoly P * toPoly Q := by
  unfold mul
  split
  · next h => rcases h with h | h <;> simp [isEmpty_toPoly h]
  · have s := mulR_spec thr (P.length + Q.length) (P.length + Q.length - 1) P Q (Or.inr (by omega))
    exact toPoly_of_spec _ _ _ s.2 (fun k hk => coeff_mul_toPoly_of_le P Q k (by omega))

/-- `karamul(R,P,Q)` (first level forced) is the exact product: every threshold, every operand -/
theorem toPoly_karamul (thr : Nat) (P Q : List K) : toPoly (karamul thr P Q) = toPoly P * toPoly Q := by
  unfold karamul
  split
  · next h => rcases h with h | h <;> simp [isEmpty_toPoly h]
  · have s := karaStep_exact thr (mulR thr (P.length + Q.length)) (mulR_spec thr _)
      (P.length + Q.length - 1) P Q (Or.inr (by omega)) (Or.inr (by omega))
    have e : karaStep (mulR thr (P.length + Q.length)) (P.length + Q.length - 1) P Q
        = pad (P.length + Q.length - 1) (karaStep (mulR thr (P.length + Q.length)) (P.length + Q.length - 1) P Q) :=
      (pad_of_length_eq _ _ s.1).symm
    rw [e]
    exact toPoly_of_spec _ _ _ s.2 (fun k hk => coeff_mul_toPoly_of_le P Q k (by omega))

end Givaro.Lemmas.Poly
