/-
C17 — Array0 over the pool: which slots of the pool client are occupied after the pool calls of an Array0 step, that
every physical block is either held or on a free list (conservation), and that class indices are in range.
-/
import GivaroModel.Lemmas.Array0Sim
import GivaroModel.Lemmas.Array0Mono
import GivaroModel.Lemmas.FreeListInv
import GivaroModel.Model.Array0Pool
namespace Givaro.Model.Array0Pool
open Givaro.Model.Array0 Givaro.Model.FreeList Givaro.Gen.C17

/-! ### occupancy of the slots -/

def occ (c : Client) (k : Nat) : Bool := (c.slot k).isSome

theorem crun_append (c : Client) (xs ys : List FreeList.Op) : crun c (xs ++ ys) = crun (crun c xs) ys := by
  unfold crun; rw [List.foldl_append]

theorem crun_cons (c : Client) (x : FreeList.Op) (xs : List FreeList.Op) : crun c (x :: xs) = crun (cstep c x).1 xs := rfl

/-- a request that is not above the largest class is served -/
theorem allocate_some (p : Pool) {sz : Nat} (h : sz ≤ tab 511) : ∃ r, FreeList.allocate p sz = some r := by
  unfold FreeList.allocate
  have sp := searchBinary_spec sz
  cases hs : searchBinary sz with
  | none => rw [hs] at sp; dsimp only at sp; omega
  | some i =>
    dsimp only
    cases p.free i with
    | nil => exact ⟨_, rfl⟩
    | cons b r => exact ⟨_, rfl⟩

theorem occ_free (c : Client) (k : Nat) :
    occ (cstep c (.free k)).1 k = false ∧ ∀ j, j ≠ k → occ (cstep c (.free k)).1 j = occ c j := by
  simp only [cstep]
  cases hk : c.slot k with
  | none => dsimp only; exact ⟨by unfold occ; rw [hk]; rfl, fun _ _ => rfl⟩
  | some b =>
    dsimp only
    refine ⟨by unfold occ; show (updF c.slot k none k).isSome = false; unfold updF; simp, fun j hj => ?_⟩
    unfold occ; show (updF c.slot k none j).isSome = _; unfold updF; simp [hj]

theorem occ_alloc (c : Client) (k : Nat) {sz : Nat} (h : sz ≤ tab 511) :
    occ (cstep c (.alloc k sz)).1 k = true ∧ ∀ j, j ≠ k → occ (cstep c (.alloc k sz)).1 j = occ c j := by
  simp only [cstep]
  cases hk : c.slot k with
  | some b => dsimp only; exact ⟨by unfold occ; rw [hk]; rfl, fun _ _ => rfl⟩
  | none =>
    dsimp only
    obtain ⟨⟨p', b⟩, hr⟩ := allocate_some c.pool h
    rw [hr]; dsimp only
    refine ⟨by unfold occ; show (updF c.slot k (some b) k).isSome = true; unfold updF; simp, fun j hj => ?_⟩
    unfold occ; show (updF c.slot k (some b) j).isSome = _; unfold updF; simp [hj]

theorem occ_frees (ks : List Nat) : ∀ (c : Client) (j : Nat),
    occ (crun c (ks.map (fun k => FreeList.Op.free k))) j = if j ∈ ks then false else occ c j := by
  induction ks with
  | nil => intro c j; simp [crun]
  | cons k rest ih =>
    intro c j
    rw [List.map_cons, crun_cons, ih]
    have F := occ_free c k
    by_cases e : j ∈ rest
    · simp [e]
    · by_cases e2 : j = k
      · subst e2; simp [e, F.1]
      · simp [e, e2, F.2 j e2]

theorem occ_allocs {β : Type} (key szf : β → Nat) (ids : List β) (hsz : ∀ b, b ∈ ids → szf b ≤ tab 511) : ∀ (c : Client) (j : Nat),
    occ (crun c (ids.map (fun b => FreeList.Op.alloc (key b) (szf b)))) j = if j ∈ ids.map key then true else occ c j := by
  induction ids with
  | nil => intro c j; simp [crun]
  | cons b rest ih =>
    intro c j
    rw [List.map_cons, crun_cons, ih (fun x hx => hsz x (List.mem_cons_of_mem _ hx))]
    have A := occ_alloc c (key b) (hsz b List.mem_cons_self)
    by_cases e : j ∈ rest.map key
    · simp [e]
    · by_cases e2 : j = key b
      · subst e2; simp [A.1]
      · simp [e, e2, A.2 j e2]

/-! ### conservation and class indices (for allocate / desallocate calls) -/

structure CI2 (c : Client) : Prop where
  /-- every block the pool ever obtained from malloc is held by a slot or on a free list -/
  cons : ∀ b, b < c.pool.next → Held c b ∨ ∃ i, b ∈ c.pool.free i
  /-- the class index of a held block is a table index, and the class is large enough for the request -/
  fit : ∀ k b, c.slot k = some b → c.pool.idx b < 512 ∧ c.sz k ≤ tab (c.pool.idx b)
  /-- blocks on free lists carry the index of their list (so that they come back to the same class) -/
  cls : ∀ i b, b ∈ c.pool.free i → i < 512
  /-- a block waits on the free list of the class it was allocated from -/
  home : ∀ i b, b ∈ c.pool.free i → c.pool.idx b = i

def isAF : FreeList.Op → Bool
  | .alloc _ _ => true
  | .free _ => true
  | _ => false

theorem ci2_init : CI2 Client.init :=
  ⟨fun b h => by simp [Client.init, Pool.init] at h, fun k b h => by simp [Client.init] at h,
   fun i b h => by simp [Client.init, Pool.init] at h, fun i b h => by simp [Client.init, Pool.init] at h⟩

end Givaro.Model.Array0Pool

namespace Givaro.Model.Array0Pool
open Givaro.Model.Array0 Givaro.Model.FreeList Givaro.Gen.C17

theorem allocate_facts {p p' : Pool} {sz b : Nat} (e : FreeList.allocate p sz = some (p', b)) :
    ∃ i, searchBinary sz = some i ∧ p'.idx b = i ∧ (∀ x, x ≠ b → p'.idx x = p.idx x) ∧
      ((p.free i = b :: p'.free i ∧ p'.next = p.next ∧ ∀ j, j ≠ i → p'.free j = p.free j) ∨
       (p.free i = [] ∧ b = p.next ∧ p'.next = p.next + 1 ∧ p'.free = p.free)) := by
  unfold FreeList.allocate at e
  cases hs : searchBinary sz with
  | none => rw [hs] at e; cases e
  | some i =>
    rw [hs] at e; dsimp only at e
    refine ⟨i, rfl, ?_⟩
    cases hf : p.free i with
    | nil =>
      rw [hf] at e; dsimp only at e; cases e
      exact ⟨by show updF p.idx p.next i p.next = i; unfold updF; simp,
             fun x hx => by show updF p.idx p.next i x = _; unfold updF; simp [hx],
             Or.inr ⟨rfl, rfl, rfl, rfl⟩⟩
    | cons b0 rest =>
      rw [hf] at e; dsimp only at e; cases e
      exact ⟨by show updF p.idx b i b = i; unfold updF; simp,
             fun x hx => by show updF p.idx b i x = _; unfold updF; simp [hx],
             Or.inl ⟨by show b :: rest = b :: updF p.free i rest i; unfold updF; simp, rfl,
                     fun j hj => by show updF p.free i rest j = _; unfold updF; simp [hj]⟩⟩

theorem cstep_alloc_ci2 {c : Client} (I : CI c) (J : CI2 c) (k sz : Nat) : CI2 (cstep c (.alloc k sz)).1 := by
  simp only [cstep]
  cases hk : c.slot k with
  | some b0 => dsimp only; exact J
  | none =>
    dsimp only
    cases ha : FreeList.allocate c.pool sz with
    | none => dsimp only; exact J
    | some r =>
      obtain ⟨p', b⟩ := r
      dsimp only
      obtain ⟨nh, _⟩ := allocate_pi I.pi ha
      obtain ⟨i, hs, hidx, hoth, hcase⟩ := allocate_facts ha
      have sp := searchBinary_spec sz
      rw [hs] at sp; dsimp only at sp
      have held_mono : ∀ x, Held c x → Held { pool := p', slot := updF c.slot k (some b), sz := updF c.sz k sz } x := by
        intro x ⟨k', hk'⟩
        refine ⟨k', ?_⟩
        show updF c.slot k (some b) k' = some x
        unfold updF
        by_cases ek : k' = k
        · rw [ek, hk] at hk'; cases hk'
        · simp [ek, hk']
      have held_b : Held { pool := p', slot := updF c.slot k (some b), sz := updF c.sz k sz } b :=
        ⟨k, by show updF c.slot k (some b) k = some b; unfold updF; simp⟩
      refine ⟨?_, ?_, ?_, ?_⟩
      · intro x hx
        have hx' : x < p'.next := hx
        by_cases exb : x = b
        · subst exb; exact Or.inl held_b
        · rcases hcase with ⟨hl, hn, hj⟩ | ⟨hl, hb, hn, hf⟩
          · rw [hn] at hx'
            rcases J.cons x hx' with q | ⟨j, q⟩
            · exact Or.inl (held_mono x q)
            · right
              by_cases ej : j = i
              · subst ej; rw [hl] at q
                rcases List.mem_cons.mp q with q | q
                · exact absurd q exb
                · exact ⟨j, q⟩
              · exact ⟨j, by show x ∈ p'.free j; rw [hj j ej]; exact q⟩
          · rw [hn] at hx'
            have : x < c.pool.next := by omega
            rcases J.cons x this with q | ⟨j, q⟩
            · exact Or.inl (held_mono x q)
            · exact Or.inr ⟨j, by show x ∈ p'.free j; rw [hf]; exact q⟩
      · intro k' x hk'
        have hk'' : updF c.slot k (some b) k' = some x := hk'
        show p'.idx x < 512 ∧ updF c.sz k sz k' ≤ tab (p'.idx x)
        unfold updF at hk'' ⊢
        by_cases ek : k' = k
        · simp only [ek, ↓reduceIte] at hk'' ⊢
          have : x = b := (Option.some.inj hk'').symm
          subst this; rw [hidx]; exact ⟨sp.1, sp.2.1⟩
        · simp only [ek, ↓reduceIte] at hk'' ⊢
          have : x ≠ b := fun q => nh ⟨k', by rw [← q]; exact hk''⟩
          rw [hoth x this]; exact J.fit k' x hk''
      · intro j x hx
        have hx' : x ∈ p'.free j := hx
        rcases hcase with ⟨hl, hn, hj⟩ | ⟨hl, hb, hn, hf⟩
        · by_cases ej : j = i
          · subst ej; exact J.cls j x (by rw [hl]; exact List.mem_cons_of_mem _ hx')
          · rw [hj j ej] at hx'; exact J.cls j x hx'
        · rw [hf] at hx'; exact J.cls j x hx'
      · intro j x hx
        have hx' : x ∈ p'.free j := hx
        show p'.idx x = j
        have old : x ∈ c.pool.free j := by
          rcases hcase with ⟨hl, hn, hj⟩ | ⟨hl, hb, hn, hf⟩
          · by_cases ej : j = i
            · subst ej; rw [hl]; exact List.mem_cons_of_mem _ hx'
            · rw [hj j ej] at hx'; exact hx'
          · rw [hf] at hx'; exact hx'
        have xb : x ≠ b := by
          intro q; subst q
          rcases hcase with ⟨hl, hn, hj⟩ | ⟨hl, hb, hn, hf⟩
          · have nd := I.pi.nodup i; rw [hl] at nd
            by_cases ej : j = i
            · subst ej; exact (List.nodup_cons.mp nd).1 hx'
            · exact ej (I.pi.disj j i x old (by rw [hl]; exact List.mem_cons_self))
          · have := I.pi.fbound j x old; omega
        rw [hoth x xb]; exact J.home j x old

theorem cstep_free_ci2 {c : Client} (I : CI c) (J : CI2 c) (k : Nat) : CI2 (cstep c (.free k)).1 := by
  simp only [cstep]
  cases hk : c.slot k with
  | none => dsimp only; exact J
  | some b =>
    dsimp only
    have fb := J.fit k b hk
    have memf : ∀ j x, x ∈ (desallocate c.pool b).free j ↔ (x = b ∧ j = c.pool.idx b) ∨ x ∈ c.pool.free j := by
      intro j x
      show x ∈ updF c.pool.free (c.pool.idx b) (b :: c.pool.free (c.pool.idx b)) j ↔ _
      unfold updF
      by_cases ej : j = c.pool.idx b
      · subst ej; simp
      · simp [ej]
    refine ⟨?_, ?_, ?_, ?_⟩
    · intro x hx
      have hx' : x < c.pool.next := hx
      rcases J.cons x hx' with ⟨k', hk'⟩ | ⟨j, q⟩
      · by_cases ek : k' = k
        · rw [ek, hk] at hk'
          have : x = b := (Option.some.inj hk').symm
          subst this
          exact Or.inr ⟨c.pool.idx x, (memf _ _).mpr (Or.inl ⟨rfl, rfl⟩)⟩
        · exact Or.inl ⟨k', by show updF c.slot k none k' = some x; unfold updF; simp [ek, hk']⟩
      · exact Or.inr ⟨j, (memf _ _).mpr (Or.inr q)⟩
    · intro k' x hk'
      have hk'' : updF c.slot k none k' = some x := hk'
      show (desallocate c.pool b).idx x < 512 ∧ updF c.sz k 0 k' ≤ tab ((desallocate c.pool b).idx x)
      unfold updF at hk'' ⊢
      by_cases ek : k' = k
      · simp only [ek, ↓reduceIte] at hk''; cases hk''
      · simp only [ek, ↓reduceIte] at hk'' ⊢
        exact J.fit k' x hk''
    · intro j x hx
      rcases (memf j x).mp hx with ⟨_, ej⟩ | q
      · rw [ej]; exact fb.1
      · exact J.cls j x q
    · intro j x hx
      show c.pool.idx x = j
      rcases (memf j x).mp hx with ⟨ex, ej⟩ | q
      · rw [ex, ej]
      · exact J.home j x q

/-- `CI` and `CI2` along any sequence of allocate / desallocate calls -/
theorem crun_ci2 (evs : List FreeList.Op) : ∀ {c : Client}, CI c → CI2 c → (∀ e, e ∈ evs → isAF e = true) →
    CI (crun c evs) ∧ CI2 (crun c evs) := by
  induction evs with
  | nil => intro c I J _; exact ⟨I, J⟩
  | cons e rest ih =>
    intro c I J haf
    rw [crun_cons]
    have I' := (cstep_ci I e).1
    have J' : CI2 (cstep c e).1 := by
      have := haf e List.mem_cons_self
      cases e with
      | alloc k sz => exact cstep_alloc_ci2 I J k sz
      | free k => exact cstep_free_ci2 I J k
      | resize k sz => simp [isAF] at this
      | resizeNull k sz => simp [isAF] at this
    exact ih I' J' (fun x hx => haf x (List.mem_cons_of_mem _ hx))

end Givaro.Model.Array0Pool

namespace Givaro.Model.Array0Pool
open Givaro.Model.Array0 Givaro.Model.FreeList Givaro.Gen.C17
variable {α : Type}

theorem mem_idsFrom (lo hi b : Nat) : b ∈ idsFrom lo hi ↔ lo ≤ b ∧ b < hi := by
  unfold idsFrom
  rw [List.mem_map]
  constructor
  · intro ⟨x, hx, e⟩; have := List.mem_range.mp hx; omega
  · intro ⟨h1, h2⟩; exact ⟨b - lo, List.mem_range.mpr (by omega), by omega⟩

theorem frees_map (f : Nat → Nat) (l : List Nat) :
    l.map (fun b => FreeList.Op.free (f b)) = (l.map f).map (fun k => FreeList.Op.free k) := by
  rw [List.map_map]; rfl

theorem keyD_mem (l : List Nat) (b : Nat) : keyD b ∈ l.map keyD ↔ b ∈ l := by
  rw [List.mem_map]
  constructor
  · intro ⟨x, hx, e⟩; unfold keyD at e; have : x = b := by omega
    rw [← this]; exact hx
  · intro h; exact ⟨b, h, rfl⟩

theorem keyC_mem (l : List Nat) (b : Nat) : keyC b ∈ l.map keyC ↔ b ∈ l := by
  rw [List.mem_map]
  constructor
  · intro ⟨x, hx, e⟩; unfold keyC at e; have : x = b := by omega
    rw [← this]; exact hx
  · intro h; exact ⟨b, h, rfl⟩

theorem keyD_not_C (l : List Nat) (b : Nat) : ¬ keyD b ∈ l.map keyC := by
  rw [List.mem_map]; intro ⟨x, _, e⟩; unfold keyD keyC at e; omega

theorem keyC_not_D (l : List Nat) (b : Nat) : ¬ keyC b ∈ l.map keyD := by
  rw [List.mem_map]; intro ⟨x, _, e⟩; unfold keyD keyC at e; omega

/-- occupancy after each of the six segments -/
theorem occ_relD (s s' : State α) (c : Client) (j : Nat) :
    occ (crun c (relD s s')) j =
      if j ∈ ((List.range s.dnext).filter (fun b => s.dlive b && !s'.dlive b)).map keyD then false else occ c j := by
  unfold relD; rw [frees_map, occ_frees]

theorem occ_relC (s s' : State α) (c : Client) (j : Nat) :
    occ (crun c (relC s s')) j =
      if j ∈ ((List.range s.cnext).filter (fun b => s.clive b && !s'.clive b)).map keyC then false else occ c j := by
  unfold relC; rw [frees_map, occ_frees]

theorem occ_lateD (s s' : State α) (c : Client) (j : Nat) :
    occ (crun c (lateD s s')) j =
      if j ∈ ((idsFrom s.dnext s'.dnext).filter (fun b => !s'.dlive b)).map keyD then false else occ c j := by
  unfold lateD; rw [frees_map, occ_frees]

theorem occ_lateC (s s' : State α) (c : Client) (j : Nat) :
    occ (crun c (lateC s s')) j =
      if j ∈ ((idsFrom s.cnext s'.cnext).filter (fun b => !s'.clive b)).map keyC then false else occ c j := by
  unfold lateC; rw [frees_map, occ_frees]

theorem four_le_max : 4 ≤ tab 511 := by decide +kernel

theorem occ_newD (w : Nat) (s s' : State α) (hsz : ∀ b, s.dnext ≤ b → b < s'.dnext → (s'.ddata b).length * w ≤ tab 511)
    (c : Client) (j : Nat) :
    occ (crun c (newD w s s')) j = if j ∈ (idsFrom s.dnext s'.dnext).map keyD then true else occ c j := by
  unfold newD
  exact occ_allocs keyD (fun b => (s'.ddata b).length * w) _
    (fun b hb => hsz b ((mem_idsFrom _ _ _).mp hb).1 ((mem_idsFrom _ _ _).mp hb).2) c j

theorem occ_newC (s s' : State α) (c : Client) (j : Nat) :
    occ (crun c (newC s s')) j = if j ∈ (idsFrom s.cnext s'.cnext).map keyC then true else occ c j := by
  unfold newC
  exact occ_allocs keyC (fun _ => 4) _ (fun _ _ => four_le_max) c j

/-- the slots of the pool client are occupied exactly by the live blocks of the abstract store -/
structure Link (s : State α) (c : Client) : Prop where
  d : ∀ b, occ c (keyD b) = s.dlive b
  c : ∀ x, occ c (keyC x) = s.clive x

theorem link_init (n : Nat) : Link (init α n) Client.init := ⟨fun _ => rfl, fun _ => rfl⟩

theorem link_events (w : Nat) (af : Bool) {s s' : State α} {c : Client} (L : Link s c) (I : Inv s) (I' : Inv s')
    (M : Mono s s') (hsz : ∀ b, s.dnext ≤ b → b < s'.dnext → (s'.ddata b).length * w ≤ tab 511) :
    Link s' (crun c (events w af s s')) := by
  constructor
  · intro b
    have key : occ (crun c (events w af s s')) (keyD b) =
        if s.dnext ≤ b ∧ b < s'.dnext then s'.dlive b
        else if b < s.dnext ∧ (s.dlive b && !s'.dlive b) = true then false else occ c (keyD b) := by
      unfold events
      cases af <;>
        simp only [Bool.false_eq_true, ↓reduceIte, crun_append, occ_relD, occ_relC, occ_lateD, occ_lateC, occ_newC,
          occ_newD w s s' hsz, keyD_mem, keyD_not_C, List.mem_filter, List.mem_range, mem_idsFrom] <;>
        by_cases h1 : s.dnext ≤ b ∧ b < s'.dnext <;> by_cases h2 : b < s.dnext <;>
        cases h3 : s'.dlive b <;> cases h4 : s.dlive b <;> simp [h1, h2, h3, h4] <;> omega
    rw [key]
    by_cases h1 : s.dnext ≤ b ∧ b < s'.dnext
    · rw [if_pos h1]
    · rw [if_neg h1]
      by_cases h2 : b < s.dnext
      · cases h4 : s.dlive b
        · have : s'.dlive b = false := by
            cases h3 : s'.dlive b
            · rfl
            · have := M.dd b h2 h3; rw [h4] at this; cases this
          simp [h2, h4, this, L.d b]
        · cases h3 : s'.dlive b <;> simp [h2, h3, h4, L.d b]
      · have hb : ¬ b < s'.dnext := by omega
        have l1 : s.dlive b = false := by
          cases h : s.dlive b
          · rfl
          · exact absurd (I.dbound b h) h2
        have l2 : s'.dlive b = false := by
          cases h : s'.dlive b
          · rfl
          · exact absurd (I'.dbound b h) hb
        simp [h2, L.d b, l1, l2]
  · intro b
    have key : occ (crun c (events w af s s')) (keyC b) =
        if s.cnext ≤ b ∧ b < s'.cnext then s'.clive b
        else if b < s.cnext ∧ (s.clive b && !s'.clive b) = true then false else occ c (keyC b) := by
      unfold events
      cases af <;>
        simp only [Bool.false_eq_true, ↓reduceIte, crun_append, occ_relD, occ_relC, occ_lateD, occ_lateC, occ_newC,
          occ_newD w s s' hsz, keyC_mem, keyC_not_D, List.mem_filter, List.mem_range, mem_idsFrom] <;>
        by_cases h1 : s.cnext ≤ b ∧ b < s'.cnext <;> by_cases h2 : b < s.cnext <;>
        cases h3 : s'.clive b <;> cases h4 : s.clive b <;> simp [h1, h2, h3, h4] <;> omega
    rw [key]
    by_cases h1 : s.cnext ≤ b ∧ b < s'.cnext
    · rw [if_pos h1]
    · rw [if_neg h1]
      by_cases h2 : b < s.cnext
      · cases h4 : s.clive b
        · have : s'.clive b = false := by
            cases h3 : s'.clive b
            · rfl
            · have := M.cd b h2 h3; rw [h4] at this; cases this
          simp [h2, h4, this, L.c b]
        · cases h3 : s'.clive b <;> simp [h2, h3, h4, L.c b]
      · have hb : ¬ b < s'.cnext := by omega
        have l1 : s.clive b = false := by
          cases h : s.clive b
          · rfl
          · exact absurd (I.cbound b h) h2
        have l2 : s'.clive b = false := by
          cases h : s'.clive b
          · rfl
          · exact absurd (I'.cbound b h) hb
        simp [h2, L.c b, l1, l2]

end Givaro.Model.Array0Pool

namespace Givaro.Model.Array0Pool
open Givaro.Model.Array0 Givaro.Model.FreeList Givaro.Gen.C17
variable {α : Type}

theorem events_af (w : Nat) (af : Bool) (s s' : State α) : ∀ e, e ∈ events w af s s' → isAF e = true := by
  intro e he
  unfold events at he
  cases af <;> simp only [Bool.false_eq_true, ↓reduceIte, List.mem_append, relD, relC, newD, newC, lateD, lateC, List.mem_map] at he <;>
    rcases he with ((((⟨_, _, rfl⟩ | ⟨_, _, rfl⟩) | ⟨_, _, rfl⟩) | ⟨_, _, rfl⟩) | ⟨_, _, rfl⟩) | ⟨_, _, rfl⟩ <;> rfl

/-- `reserve(s)` is `reallocate(s); reallocate(0)` -/
theorem step_reserve [Inhabited α] {s : State α} (I : Inv s) (h sz : Nat) :
    step s (.reserve h sz) = step (step s (.resize h sz)) (.resize h 0) := by
  by_cases hn : h < s.n
  · have hb : ∀ (op : Op α), op.handles = [h] → ∀ k, k ∈ op.handles → k < s.n := by
      intro op e k hk; rw [e] at hk; simp at hk; omega
    rw [step_eq_core I _ (hb _ rfl), step_eq_core I (.resize h sz) (hb _ rfl)]
    obtain ⟨G, _⟩ := reallocate_good I hn sz
    have : stepCore s (.resize h sz) = reallocate s h sz := rfl
    rw [this, step_eq_core G.inv _ (by intro k hk; simp [Op.handles] at hk; rw [G.frame.1]; omega)]
    show reserve s h sz = reallocate (reallocate s h sz) h 0
    unfold reserve; simp only [G.inv.nofault, Bool.false_eq_true, ↓reduceIte]
  · have e : ∀ (t : State α), t.n = s.n → t.fault = false → ∀ (op : Op α), op.handles = [h] → step t op = t := by
      intro t tn tf op oh
      unfold step
      simp only [tf, Bool.false_eq_true, ↓reduceIte, oh, List.any_cons, List.any_nil, Bool.or_false, decide_eq_true_eq]
      rw [if_pos (by omega)]
    rw [e s rfl I.nofault _ rfl, e s rfl I.nofault _ rfl, e s rfl I.nofault _ rfl]

structure PInv (p : PState α) : Prop where
  inv : Inv p.arr
  ci : CI p.pool
  ci2 : CI2 p.pool
  link : Link p.arr p.pool

theorem pinv_init (n : Nat) : PInv (pinit α n) := ⟨inv_init n, ci_init, ci2_init, link_init n⟩

theorem pstep_arr [Inhabited α] (w : Nat) (p : PState α) (op : Op α) : (pstep w p op).arr = step p.arr op := rfl

/-- one composed step, provided every block the step asks for is at most the largest class -/
theorem pstep_pinv [Inhabited α] (w : Nat) {p : PState α} (P : PInv p) (op : Op α)
    (hsz : ∀ b, b < (step p.arr op).dnext → ((step p.arr op).ddata b).length * w ≤ tab 511) : PInv (pstep w p op) := by
  have I' := (step_inv P.inv op).1
  have isreserve_or : (∃ h sz, op = .reserve h sz) ∨ opEvents w p.arr op = events w (allocFirst op) p.arr (step p.arr op) := by
    cases op <;> first | exact Or.inr rfl | exact Or.inl ⟨_, _, rfl⟩
  rcases isreserve_or with ⟨h, sz, rfl⟩ | e
  · -- two reallocate
    have I1 := (step_inv P.inv (.resize h sz)).1
    have e2 := step_reserve P.inv h sz
    have M12 := mono_step (step p.arr (.resize h sz)) (.resize h 0)
    have hsz2 : ∀ b, b < (step (step p.arr (.resize h sz)) (.resize h 0)).dnext →
        ((step (step p.arr (.resize h sz)) (.resize h 0)).ddata b).length * w ≤ tab 511 := by rw [← e2]; exact hsz
    have hsz1 : ∀ b, b < (step p.arr (.resize h sz)).dnext → ((step p.arr (.resize h sz)).ddata b).length * w ≤ tab 511 := by
      intro b hb
      rw [← M12.len b hb]; exact hsz2 b (Nat.lt_of_lt_of_le hb M12.dn)
    have I2 := (step_inv I1 (.resize h 0)).1
    have evs : opEvents w p.arr (.reserve h sz) =
        events w true p.arr (step p.arr (.resize h sz)) ++
        events w true (step p.arr (.resize h sz)) (step (step p.arr (.resize h sz)) (.resize h 0)) := rfl
    have af : ∀ x, x ∈ opEvents w p.arr (.reserve h sz) → isAF x = true := by
      rw [evs]; intro x hx
      rcases List.mem_append.mp hx with q | q
      · exact events_af _ _ _ _ x q
      · exact events_af _ _ _ _ x q
    obtain ⟨C1, C2⟩ := crun_ci2 _ P.ci P.ci2 af
    refine ⟨by rw [pstep_arr]; exact I', C1, C2, ?_⟩
    show Link (step p.arr (.reserve h sz)) (crun p.pool (opEvents w p.arr (.reserve h sz)))
    rw [evs, crun_append, e2]
    have L1 := link_events w true P.link P.inv I1 (mono_step _ _) (fun b _ hb => hsz1 b hb)
    exact link_events w true L1 I1 I2 M12 (fun b _ hb => hsz2 b hb)
  · have af : ∀ x, x ∈ opEvents w p.arr op → isAF x = true := by rw [e]; exact events_af _ _ _ _
    obtain ⟨C1, C2⟩ := crun_ci2 _ P.ci P.ci2 af
    refine ⟨by rw [pstep_arr]; exact I', C1, C2, ?_⟩
    show Link (step p.arr op) (crun p.pool (opEvents w p.arr op))
    rw [e]
    exact link_events w _ P.link P.inv I' (mono_step _ _) (fun b _ hb => hsz b hb)

theorem prun_arr [Inhabited α] (w : Nat) (ops : List (Op α)) : ∀ p : PState α, (prun w p ops).arr = run p.arr ops := by
  induction ops with
  | nil => intro p; rfl
  | cons op rest ih => intro p; exact ih (pstep w p op)

/-- the composed invariant along every history all of whose blocks fit the largest class -/
theorem prun_pinv [Inhabited α] (w : Nat) (ops : List (Op α)) : ∀ {p : PState α}, PInv p →
    (∀ b, b < (run p.arr ops).dnext → ((run p.arr ops).ddata b).length * w ≤ tab 511) → PInv (prun w p ops) := by
  induction ops with
  | nil => intro p P _; exact P
  | cons op rest ih =>
    intro p P hsz
    have M := mono_run rest (step p.arr op)
    have hsz1 : ∀ b, b < (step p.arr op).dnext → ((step p.arr op).ddata b).length * w ≤ tab 511 := by
      intro b hb
      rw [← M.len b hb]; exact hsz b (Nat.lt_of_lt_of_le hb M.dn)
    exact ih (pstep_pinv w P op hsz1) hsz

/-- destroying every handle empties every handle -/
theorem destroyAll_empty [Inhabited α] : ∀ (k : Nat) {s : State α}, Inv s → k ≤ s.n →
    Inv (run s ((List.range k).map Op.destroy)) ∧ (run s ((List.range k).map Op.destroy)).n = s.n ∧
    ∀ h, h < k → (run s ((List.range k).map Op.destroy)).hs h = Handle.empty := by
  intro k
  induction k with
  | zero => intro s I _; exact ⟨I, rfl, fun h hh => by omega⟩
  | succ k ih =>
    intro s I hk
    obtain ⟨I1, n1, e1⟩ := ih I (by omega)
    have kn : k < (run s ((List.range k).map Op.destroy)).n := by rw [n1]; omega
    have e : run s ((List.range (k + 1)).map Op.destroy) = destroy (run s ((List.range k).map Op.destroy)) k := by
      rw [List.range_succ, List.map_append, run, List.foldl_append]
      show step (run s ((List.range k).map Op.destroy)) (.destroy k) = _
      rw [step_eq_core I1 _ (by intro x hx; simp [Op.handles] at hx; omega)]
      rfl
    rw [e]
    obtain ⟨G, he⟩ := good_destroy I1 kn
    refine ⟨G.inv, by rw [G.frame.1, n1], ?_⟩
    intro h hh
    by_cases e : h = k
    · rw [e]; exact he
    · rw [G.frame.2 h e]; exact e1 h (by omega)

end Givaro.Model.Array0Pool
