/-
C17 — what the handles denote (`contents`) before and after each operation of the Array0 model.
-/
import GivaroModel.Lemmas.Array0Ops
namespace Givaro.Model.Array0
variable {α : Type}

/-- the handle an operation is applied to -/
def Op.target : Op α → Nat
  | .build h _ _ => h | .noCopy h _ => h | .withCopy h _ => h | .destroy h => h
  | .allocate h _ => h | .resize h _ => h | .reserve h _ => h | .pushBack h _ => h | .pushBackSelf h _ => h | .write h _ _ => h
  | .copy h _ => h | .logcopy h _ => h | .assign h _ => h

def Op.isWrite : Op α → Bool
  | .write _ _ _ => true
  | _ => false

/-- the other handles denote what they denoted -/
theorem contents_others {s s' : State α} {h : Nat} (G : Good s s' h) {k : Nat} (ne : k ≠ h) (kn : k < s.n) :
    contents s' k = contents s k := by
  unfold contents
  rw [G.frame.2 k ne]
  cases hd : (s.hs k).d with
  | none => rfl
  | some b => dsimp only; rw [G.dpres k ne kn b hd]

theorem stepCore_good [Inhabited α] {s : State α} (I : Inv s) (op : Op α) (hb' : ∀ k, k ∈ op.handles → k < s.n)
    (nw : op.isWrite = false) : Good s (stepCore s op) op.target := by
  cases op with
  | build h sz t => exact (ctorBuild_good I (hb' h (by simp [Op.handles])) sz t).1
  | noCopy h g => exact ctorNoCopy_good I (hb' h (by simp [Op.handles])) (hb' g (by simp [Op.handles]))
  | withCopy h g => exact ctorWithCopy_good I (hb' h (by simp [Op.handles])) (hb' g (by simp [Op.handles]))
  | destroy h => exact (good_destroy I (hb' h (by simp [Op.handles]))).1
  | allocate h sz => exact (allocate_good I (hb' h (by simp [Op.handles])) sz).1
  | resize h sz => exact (reallocate_good I (hb' h (by simp [Op.handles])) sz).1
  | reserve h sz => exact (reserve_good I (hb' h (by simp [Op.handles])) sz).1
  | pushBack h v => exact pushBack_good I (hb' h (by simp [Op.handles])) v
  | pushBackSelf h i => exact pushBackSelf_good I (hb' h (by simp [Op.handles])) i
  | write h i v => simp [Op.isWrite] at nw
  | copy h g => exact copy_good I (hb' h (by simp [Op.handles])) (hb' g (by simp [Op.handles]))
  | logcopy h g => exact logcopy_good I (hb' h (by simp [Op.handles])) (hb' g (by simp [Op.handles]))
  | assign h g => exact copy_good I (hb' h (by simp [Op.handles])) (hb' g (by simp [Op.handles]))

/-- every operation except an element write leaves the contents of all other handles alone, sharers included -/
theorem step_others [Inhabited α] {s : State α} (I : Inv s) (op : Op α) (nw : op.isWrite = false) {k : Nat}
    (ne : k ≠ op.target) (kn : k < s.n) : contents (step s op) k = contents s k := by
  by_cases hb : ∀ k, k ∈ op.handles → k < s.n
  · rw [step_eq_core I op hb]; exact contents_others (stepCore_good I op hb nw) ne kn
  · have : step s op = s := by
      unfold step
      simp only [I.nofault, Bool.false_eq_true, ↓reduceIte]
      rw [if_pos]
      apply Classical.byContradiction; intro q
      apply hb; intro k hk
      apply Classical.byContradiction; intro q2
      exact q (List.any_eq_true.mpr ⟨k, hk, by simp; omega⟩)
    rw [this]

/-- an element write is seen by the handles that share the block (as the same write), and by nobody else -/
theorem write_contents {s : State α} (I : Inv s) {h : Nat} (hn : h < s.n) (i : Nat) (v : α) (k : Nat) (kn : k < s.n) :
    contents (write s h i v) k =
      if (s.hs k).d = (s.hs h).d ∧ i < (s.hs h).size then (contents s k).set i v else contents s k := by
  unfold write; dsimp only
  by_cases hi : i < (s.hs h).size
  · simp only [hi, ↓reduceIte, and_true]
    have hp : (s.hs h).psz ≠ 0 := size_pos_psz I hn (by omega)
    obtain ⟨c, b, h1, h2, h3, h4, h5, h6⟩ := (I.wf h hn).2 hp
    rw [h2]; unfold writeCell
    simp only [h4, true_and]
    rw [if_pos (by omega)]
    unfold contents
    dsimp only
    by_cases e : (s.hs k).d = some b
    · simp only [e, ↓reduceIte, upd_same]
      exact List.take_set ..
    · simp only [e, ↓reduceIte]
      cases hd : (s.hs k).d with
      | none => rfl
      | some b' =>
        dsimp only
        rw [upd_other _ _ _ _ (fun q => e (by rw [hd, q]))]
  · simp only [hi, ↓reduceIte, and_false]

theorem destroy_contents {s : State α} (I : Inv s) {h : Nat} (hn : h < s.n) : contents (destroy s h) h = [] := by
  unfold contents; rw [(good_destroy I hn).2]; rfl

/-- after the NoCopy constructor / `logcopy`, the handle denotes what the source denotes (and aliases it) -/
theorem attachShare_contents {s : State α} (I : Inv s) {h g : Nat} (gn : g < s.n) (ne : h ≠ g) (he : s.hs h = Handle.empty) :
    contents (attachShare s h g) h = contents s g ∧ contents (attachShare s h g) g = contents s g := by
  by_cases gp : (s.hs g).psz = 0
  · have e := (I.wf g gn).1 gp
    have : attachShare s h g = s := by
      unfold attachShare; simp only [gp, ne_eq, not_true_eq_false, ↓reduceIte]
      apply setH_self; rw [he, e]; rfl
    rw [this]; refine ⟨?_, rfl⟩
    unfold contents; rw [he, e]
  · obtain ⟨c, b, h1, h2, h3, h4, h5, h6⟩ := (I.wf g gn).2 gp
    have eqn : attachShare s h g = ({ s with cval := upd s.cval c (s.cval c + 1),
                                             hs := upd s.hs h ⟨some c, (s.hs g).size, (s.hs g).psz, (s.hs g).d⟩ } : State α) := by
      unfold attachShare; simp [gp, h1, h3]
    rw [eqn]
    unfold contents
    dsimp only
    rw [upd_same, upd_other _ _ _ _ (fun q => ne q.symm)]
    exact ⟨rfl, rfl⟩

theorem share_contents {s : State α} (I : Inv s) {h g : Nat} (hn : h < s.n) (gn : g < s.n) (ne : h ≠ g) :
    contents (let s1 := destroy s h; if s1.fault then s1 else attachShare s1 h g) h = contents s g := by
  obtain ⟨G, he⟩ := good_destroy I hn
  simp only [G.inv.nofault, Bool.false_eq_true, ↓reduceIte]
  rw [(attachShare_contents G.inv (by rw [G.frame.1]; exact gn) ne he).1]
  exact contents_others G (fun q => ne q.symm) gn

theorem logcopy_contents {s : State α} (I : Inv s) {h g : Nat} (hn : h < s.n) (gn : g < s.n) :
    contents (logcopy s h g) h = contents s g := by
  unfold logcopy
  split
  · rename_i e; rw [e]
  · rename_i ne; exact share_contents I hn gn ne

theorem ctorNoCopy_contents {s : State α} (I : Inv s) {h g : Nat} (hn : h < s.n) (gn : g < s.n) (ne : h ≠ g) :
    contents (ctorNoCopy s h g) h = contents s g := by
  unfold ctorNoCopy
  rw [if_neg ne]; exact share_contents I hn gn ne

/-- contents of the handle that has just received a fresh block -/
theorem attachFresh_contents (s : State α) (h : Nat) (l : List α) (sz : Nat) :
    contents (attachFresh s h l sz) h = l.take sz := by
  unfold contents attachFresh
  dsimp only
  rw [upd_same]; dsimp only; rw [upd_same]

theorem contents_eq_of_wf {s : State α} (I : Inv s) {h : Nat} (hn : h < s.n) :
    (s.hs h).size = 0 ∧ contents s h = [] ∨
    ∃ b, (s.hs h).d = some b ∧ s.dlive b = true ∧ (s.hs h).size ≤ (s.ddata b).length ∧ contents s h = (s.ddata b).take (s.hs h).size := by
  by_cases hp : (s.hs h).psz = 0
  · left
    have e := (I.wf h hn).1 hp
    unfold contents; rw [e]; exact ⟨rfl, rfl⟩
  · right
    obtain ⟨c, b, h1, h2, h3, h4, h5, h6⟩ := (I.wf h hn).2 hp
    refine ⟨b, h2, h4, by omega, ?_⟩
    unfold contents; rw [h2]

theorem contents_length {s : State α} (I : Inv s) {h : Nat} (hn : h < s.n) : (contents s h).length = (s.hs h).size := by
  rcases contents_eq_of_wf I hn with ⟨a, b⟩ | ⟨b, _, _, h3, h4⟩
  · rw [b, a]; rfl
  · rw [h4, List.length_take]; omega

/-- `readCells` of the first `k ≤ _size` cells returns the corresponding prefix of the contents -/
theorem readCells_contents {s : State α} (I : Inv s) {h : Nat} (hn : h < s.n) {k : Nat} (hk : k ≤ (s.hs h).size) :
    readCells s (s.hs h).d k = some ((contents s h).take k) := by
  by_cases k0 : k = 0
  · subst k0
    unfold readCells; split <;> simp
  · rcases contents_eq_of_wf I hn with ⟨a, _⟩ | ⟨b, h1, h2, h3, h4⟩
    · omega
    · rw [h4, h1]; unfold readCells
      simp only [k0, ↓reduceIte, h2, true_and]
      rw [if_pos (by omega), List.take_take, Nat.min_eq_left hk]

/-- deep copy constructor: the new handle denotes what the source denotes -/
theorem ctorWithCopy_contents {s : State α} (I : Inv s) {h g : Nat} (hn : h < s.n) (gn : g < s.n) (ne : h ≠ g) :
    contents (ctorWithCopy s h g) h = contents s g := by
  unfold ctorWithCopy
  rw [if_neg ne]
  obtain ⟨G, he⟩ := good_destroy I hn
  simp only [G.inv.nofault, Bool.false_eq_true, ↓reduceIte]
  have gn' : g < (destroy s h).n := by rw [G.frame.1]; exact gn
  have cg : contents (destroy s h) g = contents s g := contents_others G (fun q => ne q.symm) gn
  have len := contents_length G.inv gn'
  split
  · rw [readCells_contents G.inv gn' (Nat.le_refl _)]
    dsimp only
    rw [attachFresh_contents, List.take_take, Nat.min_self, ← cg, ← len, List.take_length]
  · rename_i z
    have z' : ((destroy s h).hs g).size = 0 := by simpa using z
    have : contents (destroy s h) g = [] := List.length_eq_zero_iff.mp (by rw [len, z'])
    rw [← cg, this]
    unfold contents setH; dsimp only; rw [upd_same]

/-- `resize`: the handle has the requested length and keeps the common prefix -/
theorem reallocate_contents [Inhabited α] {s : State α} (I : Inv s) {h : Nat} (hn : h < s.n) (sz : Nat) :
    (contents (reallocate s h sz) h).length = sz ∧
    ∀ m, m ≤ sz → m ≤ (s.hs h).size → (contents (reallocate s h sz) h).take m = (contents s h).take m := by
  obtain ⟨G, hsz, _⟩ := reallocate_good I hn sz
  refine ⟨by rw [contents_length G.inv (by rw [G.frame.1]; exact hn), hsz], ?_⟩
  intro m m1 m2
  unfold reallocate
  dsimp only
  cases hc : (s.hs h).cnt with
  | none =>
    have he := empty_of_cnt_none I hn hc
    have : (s.hs h).size = 0 := by rw [he]; rfl
    have m0 : m = 0 := by omega
    subst m0; simp
  | some c =>
    have hp := cnt_some_psz I hn hc
    obtain ⟨c', b, h1, h2, h3, h4, h5, h6, h7, h8⟩ := owner_facts I hn hp
    have ec : c' = c := by rw [hc] at h1; exact (Option.some.inj h1).symm
    subst ec
    rw [soleWithRoom_some sz hc h3]
    by_cases cond : s.cval c' = 1 ∧ (s.hs h).psz ≥ sz
    · simp only [cond, and_self, decide_true]
      unfold contents setH
      dsimp only
      rw [upd_same]; dsimp only
      rw [h2]; dsimp only
      rw [List.take_take, List.take_take, Nat.min_eq_left m1, Nat.min_eq_left m2]
    · simp only [cond, decide_false, Option.isSome_some, ↓reduceIte]
      split
      · have kle : (if (s.hs h).size < sz then (s.hs h).size else sz) ≤ (s.hs h).size := by split <;> omega
        have mk : m ≤ (if (s.hs h).size < sz then (s.hs h).size else sz) := by split <;> omega
        rw [readCells_contents I hn kle]
        dsimp only
        obtain ⟨G1, he⟩ := good_destroy I hn
        simp only [G1.inv.nofault, Bool.false_eq_true, ↓reduceIte]
        rw [attachFresh_contents, List.take_take]
        have lk : ((contents s h).take (if (s.hs h).size < sz then (s.hs h).size else sz)).length
            = (if (s.hs h).size < sz then (s.hs h).size else sz) := by
          rw [List.length_take, contents_length I hn]; omega
        rw [List.take_append_of_le_length (by rw [lk]; omega), List.take_take]
        congr 1; omega
      · have : m = 0 := by omega
        subst this; simp

end Givaro.Model.Array0

namespace Givaro.Model.Array0
variable {α : Type}

theorem ctorBuild_contents [Inhabited α] {s : State α} (I : Inv s) {h : Nat} (hn : h < s.n) (sz : Nat) (t : α) :
    contents (ctorBuild s h sz t) h = List.replicate sz t := by
  obtain ⟨G, he⟩ := good_destroy I hn
  unfold ctorBuild
  simp only [G.inv.nofault, Bool.false_eq_true, ↓reduceIte]
  split
  · rw [attachFresh_contents, List.take_replicate, Nat.min_self]
  · rename_i z
    have : sz = 0 := by simpa using z
    subst this
    unfold contents setH; dsimp only; rw [upd_same]; rfl

theorem contents_of_d {s : State α} {h b : Nat} (hd : (s.hs h).d = some b) :
    contents s h = (s.ddata b).take (s.hs h).size := by
  unfold contents; rw [hd]

/-- handles with the same block pointer denote the same list -/
theorem contents_same_d {s : State α} (I : Inv s) {h g : Nat} (hn : h < s.n) (gn : g < s.n) (e : (s.hs g).d = (s.hs h).d) :
    contents s h = contents s g := by
  unfold contents
  cases hd : (s.hs h).d with
  | none => rw [hd] at e; rw [e]
  | some b =>
    rw [hd] at e; rw [e]; dsimp only
    have := (I.pair h g hn gn (d_some_psz I hn hd) (d_some_psz I gn e)).2 (by rw [hd, e])
    rw [this.1]

/-- `copy` / `operator=`: afterwards the handle denotes what the source denoted -/
theorem copy_contents [Inhabited α] {s : State α} (I : Inv s) {h g : Nat} (hn : h < s.n) (gn : g < s.n) :
    contents (copy s h g) h = contents s g := by
  unfold copy; dsimp only
  split
  · rename_i e; exact contents_same_d I hn gn e
  · rename_i dne
    have ne : g ≠ h := fun q => dne (by rw [q])
    obtain ⟨G, hs, so⟩ := reallocate_good I hn (s.hs g).size
    simp only [G.inv.nofault, Bool.false_eq_true, ↓reduceIte]
    have hn' : h < (reallocate s h (s.hs g).size).n := by rw [G.frame.1]; exact hn
    have gn' : g < (reallocate s h (s.hs g).size).n := by rw [G.frame.1]; exact gn
    have gsame := G.frame.2 g ne
    have cg : contents (reallocate s h (s.hs g).size) g = contents s g := contents_others G ne gn
    have lg : (contents s g).length = (s.hs g).size := contents_length I gn
    have Ginv := G.inv
    generalize hs1 : reallocate s h (s.hs g).size = s1 at *
    have rd : readCells s1 (s1.hs g).d (s1.hs h).size = some (contents s g) := by
      rw [readCells_contents Ginv gn' (by rw [hs, gsame]; omega), cg, hs, ← lg, List.take_length]
    rw [rd]
    dsimp only
    by_cases l0 : contents s g = []
    · rw [l0]
      have : writeCells s1 (s1.hs h).d ([] : List α) = s1 := by
        unfold writeCells; split <;> simp
      rw [this]
      apply List.length_eq_zero_iff.mp
      rw [contents_length Ginv hn', hs, ← lg, l0]; rfl
    · have lpos : (contents s g).length ≠ 0 := by intro q; exact l0 (List.length_eq_zero_iff.mp q)
      have hp : (s1.hs h).psz ≠ 0 := size_pos_psz Ginv hn' (by omega)
      obtain ⟨c, b, h1, h2, h3, h4, h5, h6⟩ := (Ginv.wf h hn').2 hp
      rw [h2]; unfold writeCells
      have le : (contents s g).length ≤ (s1.ddata b).length := by omega
      simp only [List.isEmpty_iff, l0, ↓reduceIte, h4, true_and, le]
      have this : (s.hs g).size = (contents s g).length := lg.symm
      have key : ∀ (s2 : State α), s2.hs = s1.hs →
          s2.ddata b = (contents s g) ++ ((s1.ddata b).drop (contents s g).length) → contents s2 h = contents s g := by
        intro s2 e1 e2
        rw [contents_of_d (s := s2) (b := b) (by rw [e1]; exact h2), e2, e1, hs, this, List.take_left' rfl]
      exact key _ rfl (upd_same _ _ _)

/-- `push_back(v)`: the handle denotes its former contents followed by `v` -/
theorem pushBack_contents [Inhabited α] {s : State α} (I : Inv s) {h : Nat} (hn : h < s.n) (v : α) :
    contents (pushBack s h v) h = contents s h ++ [v] := by
  unfold pushBack; dsimp only
  obtain ⟨G, hs, so⟩ := reallocate_good I hn ((s.hs h).size + 1)
  obtain ⟨len, pre⟩ := reallocate_contents I hn ((s.hs h).size + 1)
  simp only [G.inv.nofault, Bool.false_eq_true, ↓reduceIte]
  rw [if_neg (by rw [hs]; omega)]
  have hn' : h < (reallocate s h ((s.hs h).size + 1)).n := by rw [G.frame.1]; exact hn
  have Ginv := G.inv
  generalize hs1 : reallocate s h ((s.hs h).size + 1) = s1 at *
  have W := write_contents Ginv hn' ((s.hs h).size) v h hn'
  unfold write at W; dsimp only at W
  rw [if_pos (by rw [hs]; omega)] at W
  rw [if_pos ⟨rfl, by rw [hs]; omega⟩] at W
  have e1 : (s1.hs h).size - 1 = (s.hs h).size := by rw [hs]; omega
  rw [e1, W]
  have l0 := contents_length I hn
  have p := pre (s.hs h).size (by omega) (by omega)
  rw [List.set_eq_take_append_cons_drop, if_pos (by rw [len]; omega), p, List.drop_eq_nil_of_le (by rw [len]; omega)]
  have : (s.hs h).size = (contents s h).length := l0.symm
  rw [this, List.take_length]

end Givaro.Model.Array0
