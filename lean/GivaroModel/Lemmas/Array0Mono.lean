/-
C17 — monotonicity of the abstract store: identifiers only grow, a released block is never revived, the number of cells
of a block never changes.  (No invariant is needed: these hold for every operation on every state.)
-/
import GivaroModel.Model.Array0
namespace Givaro.Model.Array0
variable {α : Type}

structure Mono (s s' : State α) : Prop where
  dn : s.dnext ≤ s'.dnext
  cn : s.cnext ≤ s'.cnext
  dd : ∀ b, b < s.dnext → s'.dlive b = true → s.dlive b = true
  cd : ∀ c, c < s.cnext → s'.clive c = true → s.clive c = true
  len : ∀ b, b < s.dnext → (s'.ddata b).length = (s.ddata b).length

theorem Mono.refl (s : State α) : Mono s s := ⟨Nat.le_refl _, Nat.le_refl _, fun _ _ h => h, fun _ _ h => h, fun _ _ => rfl⟩

theorem Mono.trans {s s' s'' : State α} (a : Mono s s') (b : Mono s' s'') : Mono s s'' :=
  ⟨Nat.le_trans a.dn b.dn, Nat.le_trans a.cn b.cn,
   fun x hx h => a.dd x hx (b.dd x (Nat.lt_of_lt_of_le hx a.dn) h),
   fun x hx h => a.cd x hx (b.cd x (Nat.lt_of_lt_of_le hx a.cn) h),
   fun x hx => (b.len x (Nat.lt_of_lt_of_le hx a.dn)).trans (a.len x hx)⟩

theorem mono_faulted (s : State α) : Mono s (faulted s) :=
  ⟨Nat.le_refl _, Nat.le_refl _, fun _ _ q => q, fun _ _ q => q, fun _ _ => rfl⟩
theorem mono_setH (s : State α) (h : Nat) (H : Handle) : Mono s (setH s h H) :=
  ⟨Nat.le_refl _, Nat.le_refl _, fun _ _ q => q, fun _ _ q => q, fun _ _ => rfl⟩

theorem upd_false_imp (f : Nat → Bool) (i x : Nat) (h : upd f i false x = true) : f x = true := by
  unfold upd at h; split at h
  · cases h
  · exact h

theorem mono_destroy (s : State α) (h : Nat) : Mono s (destroy s h) := by
  unfold destroy
  dsimp only
  repeat' split
  all_goals first
    | exact Mono.refl s
    | exact ⟨Nat.le_refl _, Nat.le_refl _, fun _ _ q => upd_false_imp _ _ _ q, fun _ _ q => upd_false_imp _ _ _ q, fun _ _ => rfl⟩
    | exact ⟨Nat.le_refl _, Nat.le_refl _, fun _ _ q => q, fun _ _ q => q, fun _ _ => rfl⟩

theorem mono_attachFresh (s : State α) (h : Nat) (l : List α) (sz : Nat) : Mono s (attachFresh s h l sz) :=
  ⟨Nat.le_succ _, Nat.le_succ _,
   fun b hb q => by
     have q' : upd s.dlive s.dnext true b = true := q
     rw [upd_other _ _ _ _ (by omega)] at q'; exact q',
   fun c hc q => by
     have q' : upd s.clive s.cnext true c = true := q
     rw [upd_other _ _ _ _ (by omega)] at q'; exact q',
   fun b hb => by
     show (upd s.ddata s.dnext l b).length = _
     rw [upd_other _ _ _ _ (by omega)]⟩

theorem mono_attachShare (s : State α) (h g : Nat) : Mono s (attachShare s h g) := by
  unfold attachShare
  dsimp only
  repeat' split
  all_goals first
    | exact Mono.refl s
    | exact ⟨Nat.le_refl _, Nat.le_refl _, fun _ _ q => q, fun _ _ q => q, fun _ _ => rfl⟩

theorem mono_setData (s : State α) (b : Nat) (l : List α) (hl : l.length = (s.ddata b).length) :
    Mono s ({ s with ddata := upd s.ddata b l } : State α) := by
  refine ⟨Nat.le_refl _, Nat.le_refl _, fun _ _ q => q, fun _ _ q => q, fun x _ => ?_⟩
  show (upd s.ddata b l x).length = _
  unfold upd; split
  · rename_i e; rw [e, hl]
  · rfl

theorem mono_writeCell (s : State α) (b : Option Nat) (i : Nat) (v : α) : Mono s (writeCell s b i v) := by
  unfold writeCell
  cases b with
  | none => exact mono_faulted s
  | some b =>
    dsimp only
    split
    · exact mono_setData s b _ (List.length_set ..)
    · exact mono_faulted s

theorem mono_writeCells (s : State α) (b : Option Nat) (l : List α) : Mono s (writeCells s b l) := by
  unfold writeCells
  cases b with
  | none => dsimp only; split; exact Mono.refl s; exact mono_faulted s
  | some b =>
    dsimp only
    split
    · exact Mono.refl s
    · split
      · rename_i hc
        exact mono_setData s b _ (by rw [List.length_append, List.length_drop]; omega)
      · exact mono_faulted s

/-- close a goal `Mono s t` where `t` is built from `s` by the primitives -/
macro "mono_close" : tactic => `(tactic|
  (repeat (first
    | exact Mono.refl _
    | exact (Mono.trans (by assumption) (Mono.refl _))
    | apply Mono.trans ?_ (mono_attachFresh _ _ _ _)
    | apply Mono.trans ?_ (mono_destroy _ _)
    | apply Mono.trans ?_ (mono_attachShare _ _ _)
    | apply Mono.trans ?_ (mono_setH _ _ _)
    | apply Mono.trans ?_ (mono_faulted _)
    | apply Mono.trans ?_ (mono_writeCell _ _ _ _)
    | apply Mono.trans ?_ (mono_writeCells _ _ _))))

theorem mono_ctorBuild (s : State α) (h sz : Nat) (t : α) : Mono s (ctorBuild s h sz t) := by
  unfold ctorBuild; dsimp only; repeat' split
  all_goals mono_close

theorem mono_ctorNoCopy (s : State α) (h g : Nat) : Mono s (ctorNoCopy s h g) := by
  unfold ctorNoCopy; dsimp only; repeat' split
  all_goals mono_close

theorem mono_logcopy (s : State α) (h g : Nat) : Mono s (logcopy s h g) := by
  unfold logcopy; dsimp only; repeat' split
  all_goals mono_close

theorem mono_ctorWithCopy (s : State α) (h g : Nat) : Mono s (ctorWithCopy s h g) := by
  unfold ctorWithCopy; dsimp only; repeat' split
  all_goals mono_close

theorem mono_allocate [Inhabited α] (s : State α) (h sz : Nat) : Mono s (allocate s h sz) := by
  unfold allocate; dsimp only; repeat' split
  all_goals mono_close

theorem mono_reallocate [Inhabited α] (s : State α) (h sz : Nat) : Mono s (reallocate s h sz) := by
  unfold reallocate; dsimp only; repeat' split
  all_goals mono_close

theorem mono_pushBack [Inhabited α] (s : State α) (h : Nat) (v : α) : Mono s (pushBack s h v) := by
  have R := mono_reallocate s h ((s.hs h).size + 1)
  unfold pushBack; dsimp only; repeat' split
  all_goals first
    | exact R
    | exact R.trans (mono_faulted _)
    | exact R.trans (mono_writeCell _ _ _ _)

theorem mono_pushBackSelf [Inhabited α] (s : State α) (h i : Nat) : Mono s (pushBackSelf s h i) := by
  unfold pushBackSelf; dsimp only; repeat' split
  all_goals first
    | exact Mono.refl s
    | exact mono_faulted s
    | exact mono_pushBack _ _ _

theorem mono_write (s : State α) (h i : Nat) (v : α) : Mono s (write s h i v) := by
  unfold write; dsimp only; repeat' split
  all_goals mono_close

theorem mono_copy [Inhabited α] (s : State α) (h g : Nat) : Mono s (copy s h g) := by
  have R := mono_reallocate s h (s.hs g).size
  unfold copy; dsimp only; repeat' split
  all_goals first
    | exact Mono.refl s
    | exact R
    | exact R.trans (mono_faulted _)
    | exact R.trans (mono_writeCells _ _ _)

theorem mono_reserve [Inhabited α] (s : State α) (h sz : Nat) : Mono s (reserve s h sz) := by
  have R := mono_reallocate s h sz
  unfold reserve; dsimp only; repeat' split
  all_goals first
    | exact R
    | exact R.trans (mono_reallocate _ _ _)

theorem mono_step [Inhabited α] (s : State α) (op : Op α) : Mono s (step s op) := by
  unfold step
  repeat' split
  all_goals first
    | exact Mono.refl s
    | (cases op <;> simp only [stepCore] <;>
        first
          | exact mono_ctorBuild _ _ _ _ | exact mono_ctorNoCopy _ _ _ | exact mono_ctorWithCopy _ _ _
          | exact mono_destroy _ _ | exact mono_allocate _ _ _ | exact mono_reallocate _ _ _
          | exact mono_reserve _ _ _ | exact mono_pushBack _ _ _ | exact mono_pushBackSelf _ _ _ | exact mono_write _ _ _ _
          | exact mono_copy _ _ _ | exact mono_logcopy _ _ _)

theorem mono_run [Inhabited α] (ops : List (Op α)) : ∀ s : State α, Mono s (run s ops) := by
  induction ops with
  | nil => intro s; exact Mono.refl s
  | cons op rest ih => intro s; exact (mono_step s op).trans (ih (step s op))

end Givaro.Model.Array0
