/-
C10 — the value `val : QRep → ℚ` of a stored pair and the bridges between the integer-level statements of
Lemmas/RationalLemmas.lean (cross-multiplication) and Mathlib's `ℚ`.  Used by Props/C10.lean.
-/
import Mathlib.Algebra.Order.Floor.Ring
import Mathlib.Data.Rat.Floor
import Mathlib.Tactic.FieldSimp
import Mathlib.Tactic.Ring
import Mathlib.Tactic.Linarith
import GivaroModel.Lemmas.RationalLemmas
set_option linter.unusedVariables false
namespace Givaro.Lemmas.Rational
open Givaro Givaro.Model.Rational Givaro.Spec.Rational

/-- the rational number denoted by a stored pair -/
def val (r : QRep) : ℚ := (r.num : ℚ) / (r.den : ℚ)

theorem val_of_den {r : QRep} {n d : Int} (hr : r.den ≠ 0) (hd : d ≠ 0) (h : Den r n d) :
    val r = (n : ℚ) / (d : ℚ) := by
  unfold val
  have h1 : (r.den : ℚ) ≠ 0 := by exact_mod_cast hr
  have h2 : (d : ℚ) ≠ 0 := by exact_mod_cast hd
  rw [div_eq_div_iff h1 h2]
  unfold Den at h
  exact_mod_cast h

theorem qpos {r : QRep} {red : Bool} (h : Valid red r) : (0 : ℚ) < (r.den : ℚ) := by exact_mod_cast h.1
theorem qne {r : QRep} {red : Bool} (h : Valid red r) : (r.den : ℚ) ≠ 0 := ne_of_gt (qpos h)
theorem ine {r : QRep} {red : Bool} (h : Valid red r) : r.den ≠ 0 := by have := h.1; omega

-- non-vacuity of the contract hypothesis: the ±1-normalised comparison meets it (and so does GMP's)
def cUnit (x y : Int) : Int := isign (iabs x - iabs y)
theorem cUnit_ok : CmpAbsOK cUnit := by
  intro x y; unfold cUnit isign
  constructor <;> constructor <;> intro h <;> (try split_ifs at h) <;> (try split_ifs) <;> omega
theorem val_lt_iff (a b : QRep) (ha : 0 < a.den) (hb : 0 < b.den) :
    val a < val b ↔ a.num * b.den < b.num * a.den := by
  unfold val
  have h1 : (0 : ℚ) < a.den := by exact_mod_cast ha
  have h2 : (0 : ℚ) < b.den := by exact_mod_cast hb
  rw [div_lt_iff₀ h1, div_mul_eq_mul_div, lt_div_iff₀ h2]
  exact_mod_cast Iff.rfl

theorem val_eq_iff (a b : QRep) (ha : 0 < a.den) (hb : 0 < b.den) :
    val a = val b ↔ a.num * b.den = b.num * a.den := by
  unfold val
  have h1 : (a.den : ℚ) ≠ 0 := by exact_mod_cast (by omega : a.den ≠ 0)
  have h2 : (b.den : ℚ) ≠ 0 := by exact_mod_cast (by omega : b.den ≠ 0)
  rw [div_eq_div_iff h1 h2]
  exact_mod_cast Iff.rfl


end Givaro.Lemmas.Rational
