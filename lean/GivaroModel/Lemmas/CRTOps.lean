/-
C14 — (i) mixed-radix digit strings are unique and are the canonical expansion; (ii) programs over any number of system objects
(operation lists of any length): the cache invariant is inductive, the moduli an object holds are those of the cache-free reading of
the program, every answer is a function of those moduli; (iii) the converted value is Mathlib's `Nat.chineseRemainderOfList`.
-/
import GivaroModel.Lemmas.CRTSys
import Mathlib.Data.Nat.ChineseRemainder

namespace Givaro.Lemmas.CRT
open Givaro.Model.CRT
open Givaro.Spec.CRT (prod mrValue)

/-! ### mixed-radix digits: uniqueness, canonical expansion -/

/-- the mixed-radix expansion of `x` for the radices `ps`: `x mod p_0`, `(x / p_0) mod p_1`, … -/
def mrDigits : List Int → Int → List Int
  | [], _ => []
  | p :: ps, x => (x % p) :: mrDigits ps (x / p)

theorem mr_digits_unique {ps ms ms' : List Int} (h : Canon ps ms) (h' : Canon ps ms')
    (hv : mrValue ps ms = mrValue ps ms') : ms = ms' := by
  induction h generalizing ms' with
  | nil => cases h'; rfl
  | cons hm _ ih =>
    cases h' with
    | cons hm' hrest' =>
      rename_i p m ps ms _ m' ms''
      simp only [mrValue] at hv
      have hp : 0 < p := lt_of_le_of_lt hm.1 hm.2
      have e1 : (m + p * mrValue ps ms) % p = m := by
        rw [Int.add_mul_emod_self_left]; exact Int.emod_eq_of_lt hm.1 hm.2
      have e2 : (m' + p * mrValue ps ms'') % p = m' := by
        rw [Int.add_mul_emod_self_left]; exact Int.emod_eq_of_lt hm'.1 hm'.2
      have hmm : m = m' := by rw [← e1, ← e2, hv]
      subst hmm
      have hvv : mrValue ps ms = mrValue ps ms'' := by
        have : p * mrValue ps ms = p * mrValue ps ms'' := by linarith
        exact Int.eq_of_mul_eq_mul_left (ne_of_gt hp) this
      rw [ih hrest' hvv]

theorem mrDigits_canon : ∀ (ps : List Int) (x : Int), (∀ p ∈ ps, 0 < p) → Canon ps (mrDigits ps x)
  | [], _, _ => List.Forall₂.nil
  | p :: ps, x, h => by
    have hp := h p (List.mem_cons_self ..)
    exact List.Forall₂.cons ⟨Int.emod_nonneg _ (ne_of_gt hp), Int.emod_lt_of_pos _ hp⟩
      (mrDigits_canon ps (x / p) (fun q hq => h q (List.mem_cons_of_mem _ hq)))

theorem mrValue_mrDigits : ∀ (ps : List Int) (x : Int), (∀ p ∈ ps, 0 < p) → 0 ≤ x → x < prod ps →
    mrValue ps (mrDigits ps x) = x
  | [], x, _, h0, h1 => by simp only [prod] at h1; simp only [mrDigits, mrValue]; omega
  | p :: ps, x, h, h0, h1 => by
    have hp := h p (List.mem_cons_self ..)
    simp only [mrDigits, mrValue]
    have hq0 : 0 ≤ x / p := Int.ediv_nonneg h0 (le_of_lt hp)
    have hq1 : x / p < prod ps := by
      simp only [prod] at h1
      exact Int.ediv_lt_of_lt_mul hp (by rw [mul_comm]; exact h1)
    rw [mrValue_mrDigits ps (x / p) (fun q hq => h q (List.mem_cons_of_mem _ hq)) hq0 hq1]
    exact Int.emod_add_mul_ediv x p

/-- a canonical digit string with value `x` *is* the mixed-radix expansion of `x` -/
theorem digits_eq_mrDigits {ps ms : List Int} {x : Int} (h : Canon ps ms) (hv : mrValue ps ms = x)
    (hr : 0 ≤ x ∧ x < prod ps) : ms = mrDigits ps x :=
  mr_digits_unique h (mrDigits_canon ps x h.pos) (by rw [hv, mrValue_mrDigits ps x h.pos hr.1 hr.2])

/-! ### programs over several `IntRNSsystem` objects -/

theorem IntGood.of_computeCk {cof : Int → Int → Int} {s : IntSys} (h : IntGood cof s) : IntGood cof (s.computeCk cof) := by
  obtain ⟨h1, h2, h3⟩ := h.computeCk
  exact ⟨Or.inr (by rw [h1, h2]), by rw [h2, h3]; exact h.2⟩

theorem IntGood.of_computeProd {cof : Int → Int → Int} {s : IntSys} (h : IntGood cof s) : IntGood cof s.computeProd := by
  obtain ⟨h1, h2, h3⟩ := h.computeProd
  exact ⟨by rw [h2, h3]; exact h.1, Or.inr (by rw [h1, h2])⟩

theorem intStep_good (cof : Int → Int → Int) (e : IntEnv) (he : ∀ i, IntGood cof (e i)) (op : IntOp) :
    ∀ i, IntGood cof (intStep cof e op i) := by
  have hset : ∀ (s : Nat) (v : IntSys), IntGood cof v → ∀ i, IntGood cof (e.set s v i) := by
    intro s v hv i
    unfold IntEnv.set
    split
    · exact hv
    · exact he i
  cases op with
  | construct s ps => exact hset s _ (by simp [IntSys.ofPrimes, IntGood])
  | default s => exact hset s _ (by simp [IntSys.empty, IntGood])
  | copyConstruct s t => exact hset s _ (by simpa [IntSys.copy, IntGood] using he t)
  | assign s t => exact hset s _ (by simpa [IntSys.assign, IntGood] using he t)
  | toRing s rs => exact hset s _ (he s).of_computeCk
  | reciprocals s => exact hset s _ (he s).of_computeCk
  | product s => exact hset s _ (he s).of_computeProd
  | toRns s a => exact he

theorem intRun_good (cof : Int → Int → Int) : ∀ (ops : List IntOp) (e : IntEnv), (∀ i, IntGood cof (e i)) →
    ∀ i, IntGood cof (intRun cof e ops i) := by
  intro ops
  induction ops with
  | nil => intro e he; exact he
  | cons op ops ih => intro e he; exact ih _ (intStep_good cof e he op)

theorem IntSys.computeCk_primes (cof : Int → Int → Int) (s : IntSys) : (s.computeCk cof).primes = s.primes := by
  unfold IntSys.computeCk; split <;> rfl

theorem IntSys.computeProd_primes (s : IntSys) : s.computeProd.primes = s.primes := by
  unfold IntSys.computeProd; split <;> rfl

theorem intStep_primes (cof : Int → Int → Int) (e : IntEnv) (op : IntOp) :
    (fun i => (intStep cof e op i).primes) = intPrimesStep (fun i => (e i).primes) op := by
  funext i
  cases op <;> simp only [intStep, intPrimesStep, IntEnv.set] <;> try (split <;> simp_all [IntSys.ofPrimes, IntSys.empty,
    IntSys.copy, IntSys.assign, IntSys.rnsToRing, IntSys.rnsToMixedRadix, IntSys.reciprocals, IntSys.product,
    IntSys.computeCk_primes, IntSys.computeProd_primes])

theorem intRun_primes (cof : Int → Int → Int) : ∀ (ops : List IntOp) (e : IntEnv),
    (fun i => (intRun cof e ops i).primes) = intPrimesRun (fun i => (e i).primes) ops := by
  intro ops
  induction ops with
  | nil => intro e; rfl
  | cons op ops ih =>
    intro e
    have := ih (intStep cof e op)
    rw [intStep_primes] at this
    exact this

/-! ### programs over several `RNSsystem` objects -/

theorem RnsGood.of_computeCk {cof : Int → Int → Int} {s : RnsSys} (h : RnsGood cof s) : RnsGood cof (s.computeCk cof) := by
  obtain ⟨h1, h2⟩ := h.computeCk
  exact Or.inr (by rw [h1, h2])

theorem rnsStep_good (cof : Int → Int → Int) (e : RnsEnv) (he : ∀ i, RnsGood cof (e i)) (op : RnsOp) :
    ∀ i, RnsGood cof (rnsStep cof e op i) := by
  have hset : ∀ (s : Nat) (v : RnsSys), RnsGood cof v → ∀ i, RnsGood cof (e.set s v i) := by
    intro s v hv i
    unfold RnsEnv.set
    split
    · exact hv
    · exact he i
  cases op with
  | construct s ps => exact hset s _ (by simp [RnsSys.ofPrimes, RnsGood])
  | default s => exact hset s _ (by simp [RnsSys.empty, RnsGood])
  | copyConstruct s t => exact hset s _ (by simpa [RnsSys.copy, RnsGood] using he t)
  | assign s t => exact hset s _ (by simpa [RnsSys.assign, RnsGood] using he t)
  | setPrimes s ps => exact hset s _ (by simp [RnsSys.setPrimes, RnsGood])
  | toRing s rs => exact hset s _ (he s).of_computeCk
  | reciprocals s => exact hset s _ (he s).of_computeCk
  | toRns s a => exact he

theorem rnsRun_good (cof : Int → Int → Int) : ∀ (ops : List RnsOp) (e : RnsEnv), (∀ i, RnsGood cof (e i)) →
    ∀ i, RnsGood cof (rnsRun cof e ops i) := by
  intro ops
  induction ops with
  | nil => intro e he; exact he
  | cons op ops ih => intro e he; exact ih _ (rnsStep_good cof e he op)

theorem RnsSys.computeCk_primes (cof : Int → Int → Int) (s : RnsSys) : (s.computeCk cof).primes = s.primes := by
  unfold RnsSys.computeCk; split <;> rfl

theorem rnsStep_primes (cof : Int → Int → Int) (e : RnsEnv) (op : RnsOp) :
    (fun i => (rnsStep cof e op i).primes) = rnsPrimesStep (fun i => (e i).primes) op := by
  funext i
  cases op <;> simp only [rnsStep, rnsPrimesStep, RnsEnv.set] <;> try (split <;> simp_all [RnsSys.ofPrimes, RnsSys.empty,
    RnsSys.copy, RnsSys.assign, RnsSys.setPrimes, RnsSys.rnsToRing, RnsSys.rnsToMixedRadix, RnsSys.reciprocals,
    RnsSys.computeCk_primes])

theorem rnsRun_primes (cof : Int → Int → Int) : ∀ (ops : List RnsOp) (e : RnsEnv),
    (fun i => (rnsRun cof e ops i).primes) = rnsPrimesRun (fun i => (e i).primes) ops := by
  intro ops
  induction ops with
  | nil => intro e; rfl
  | cons op ops ih =>
    intro e
    have := ih (rnsStep cof e op)
    rw [rnsStep_primes] at this
    exact this

/-! ### the converted value is Mathlib's Chinese remainder -/

/-- the (modulus, residue) pairs as naturals -/
def natPairs (ps rs : List Int) : List (ℕ × ℕ) := (ps.zip rs).map (fun pr => (pr.1.toNat, pr.2.toNat))

theorem natPairs_pairwise {ps rs : List Int} (hpw : PairwiseCoprime ps) (hcan : Canon ps rs) :
    (natPairs ps rs).Pairwise (Function.onFun Nat.Coprime Prod.fst) := by
  unfold natPairs
  induction hcan with
  | nil => simp
  | cons h1 hrest ih =>
    rename_i p r ps rs
    have hpw' := List.pairwise_cons.mp hpw
    simp only [List.zip_cons_cons, List.map_cons, List.pairwise_cons]
    refine ⟨?_, ih hpw'.2⟩
    intro qr hqr
    simp only [List.mem_map] at hqr
    obtain ⟨⟨q, r'⟩, hmem, rfl⟩ := hqr
    have hq : q ∈ ps := (List.of_mem_zip hmem).1
    have hg := hpw'.1 q hq
    simp only [Function.onFun]
    have hp : 0 ≤ p := le_of_lt (lt_of_le_of_lt h1.1 h1.2)
    have hq0 : 0 ≤ q := le_of_lt (Canon.pos hrest q hq)
    unfold Nat.Coprime
    rw [← Int.toNat_of_nonneg hp, ← Int.toNat_of_nonneg hq0, Int.gcd_natCast_natCast] at hg
    exact hg

theorem natPairs_prod {ps rs : List Int} (hcan : Canon ps rs) :
    (((natPairs ps rs).map Prod.fst).prod : Int) = prod ps := by
  unfold natPairs
  induction hcan with
  | nil => simp [prod]
  | cons h1 hrest ih =>
    rename_i p r ps rs
    have hp : 0 ≤ p := le_of_lt (lt_of_le_of_lt h1.1 h1.2)
    simp only [List.zip_cons_cons, List.map_cons, List.prod_cons, prod, Nat.cast_mul, Int.toNat_of_nonneg hp]
    rw [ih]

/-- a value in `[0, ∏ps)` with the residues `rs` is `Nat.chineseRemainderOfList` of the (modulus, residue) pairs -/
theorem eq_chineseRemainderOfList {ps rs : List Int} (hpw : PairwiseCoprime ps) (hcan : Canon ps rs) {x : Int}
    (hr : 0 ≤ x ∧ x < prod ps) (hres : List.Forall₂ (fun p r => x % p = r) ps rs)
    (co : (natPairs ps rs).Pairwise (Function.onFun Nat.Coprime Prod.fst)) :
    x = ((Nat.chineseRemainderOfList Prod.snd Prod.fst (natPairs ps rs) co : ℕ) : Int) := by
  have hz : ∀ i ∈ natPairs ps rs, x.toNat ≡ Prod.snd i [MOD Prod.fst i] := by
    unfold natPairs
    have hx0 : 0 ≤ x := hr.1
    clear co hr
    induction hres with
    | nil => simp
    | cons h1 hrest0 ih =>
      rename_i p r ps rs
      cases hcan with
      | cons hc hcs =>
      have hpw' := List.pairwise_cons.mp hpw
      intro i hi
      simp only [List.zip_cons_cons, List.map_cons, List.mem_cons] at hi
      rcases hi with rfl | hi
      · have hp : 0 ≤ p := le_of_lt (lt_of_le_of_lt hc.1 hc.2)
        unfold Nat.ModEq
        apply Int.natCast_inj.mp
        rw [Int.natCast_mod, Int.natCast_mod, Int.toNat_of_nonneg hx0, Int.toNat_of_nonneg hp, Int.toNat_of_nonneg hc.1,
          h1, Int.emod_eq_of_lt hc.1 hc.2]
      · exact ih hpw'.2 hcs i hi
  have huniq := Nat.chineseRemainderOfList_modEq_unique Prod.snd Prod.fst (natPairs ps rs) co hz
  have hne : ∀ i ∈ natPairs ps rs, Prod.fst i ≠ 0 := by
    intro i hi
    unfold natPairs at hi
    simp only [List.mem_map] at hi
    obtain ⟨⟨q, r'⟩, hmem, rfl⟩ := hi
    have hq := Canon.pos hcan q (List.of_mem_zip hmem).1
    simp only [ne_eq]
    omega
  have hlt := Nat.chineseRemainderOfList_lt_prod Prod.snd Prod.fst (natPairs ps rs) co hne
  have hxlt : x.toNat < ((natPairs ps rs).map Prod.fst).prod := by
    have h2 : ((x.toNat : ℕ) : Int) < ((((natPairs ps rs).map Prod.fst).prod : ℕ) : Int) := by
      rw [natPairs_prod hcan, Int.toNat_of_nonneg hr.1]; exact hr.2
    exact_mod_cast h2
  have := Nat.ModEq.eq_of_lt_of_lt huniq hxlt hlt
  rw [← this, Int.toNat_of_nonneg hr.1]

end Givaro.Lemmas.CRT
