/-
C19 — auxiliary definitions (vocabulary of the theorem statements: canonical rationals, admissible representatives,
stream positions) and helper lemmas for Props/C19.lean.
-/
import GivaroModel.Model.Text
import GivaroModel.Spec.TextSpec
import GivaroModel.Lemmas.TextLemmas
import GivaroModel.Lemmas.TextRecInt
namespace Givaro.Lemmas.Text
open Givaro.Model.Text Givaro.Spec.Text

theorem dropSep_append (sep J : List Char) :
    dropSep sep.length ⟨sep ++ J, false, false⟩ = ⟨J, false, false⟩ := by
  induction sep with
  | nil => simp [dropSep]
  | cons c cs ih => simpa [dropSep, getc, IStream.good] using ih

theorem startsWithDigit_append (sep J : List Char) (h : sepOk sep = true) : startsWithDigit (sep ++ J) = false := by
  cases sep with
  | nil => simp [sepOk] at h
  | cons c cs => simpa [sepOk, startsWithDigit] using h

theorem after_cons (sep J : List Char) (h : sepOk sep = true) : after (sep ++ J) = ⟨sep ++ J, false, false⟩ := by
  cases sep with
  | nil => simp [sepOk] at h
  | cons c cs => simp [after]

/-- a rational in the form the library keeps it: positive denominator, reduced -/
def Canonical (q : Int × Int) : Prop := 0 < q.2 ∧ Int.gcd q.1 q.2 = 1

instance (q : Int × Int) : Decidable (Canonical q) := by unfold Canonical; exact inferInstance

theorem ratMk_canonical (n d : Int) (h : Canonical (n, d)) : ratMk n d = some (n, d) := by
  obtain ⟨hd, hg⟩ := h
  simp only at hd hg
  have : d ≠ 0 := by omega
  simp [ratMk, this, hd, ratReduce, hg]

theorem blankG_nonblank (c : Char) (buf : List Char) (h : c ≠ ' ') : blankG c buf = (c, ⟨buf, false, false⟩) := by
  cases buf <;> simp [blankG, h]

/-- where the repaired reader stops after an integer-valued rational followed by `rest` (first character `' '`
    case: the blanks are eaten, one character is put back) -/
def afterBlanks : List Char → IStream
  | [] => ⟨[' '], false, false⟩
  | c :: l => if c = ' ' then afterBlanks l else ⟨c :: l, false, false⟩

theorem blankG_blank (rs : List Char) (h : looksLikeDen (' ' :: rs) = false) :
    (blankG ' ' rs).1 ≠ '/' ∧ putback (blankG ' ' rs).1 (blankG ' ' rs).2 = afterBlanks rs := by
  induction rs with
  | nil => simp [blankG, putback, afterBlanks]
  | cons c l ih =>
    by_cases hc : c = ' '
    · subst hc
      have h' : looksLikeDen (' ' :: l) = false := by simpa [looksLikeDen, dropBlanks] using h
      simpa [blankG, afterBlanks] using ih h'
    · have hsl : c ≠ '/' := by
        intro e; subst e; simp [looksLikeDen, dropBlanks] at h
      simp [blankG, afterBlanks, hc, blankG_nonblank c l hc, putback, hsl]

/-- stream state after reading a canonical rational with denominator `d` followed by `rest` -/
def ratAfter (d : Int) (rest : List Char) : IStream :=
  if d > 1 then after rest
  else match rest with
    | [] => after []
    | r :: rs => if r = ' ' then afterBlanks rs else ⟨r :: rs, false, false⟩

theorem ruLoop_acc : ∀ (f b : Nat) (acc : List Char), ruLoop f b acc = ruLoop f b [] ++ acc := by
  intro f
  induction f with
  | zero => intro b acc; simp [ruLoop]
  | succ f ih =>
    intro b acc
    simp only [ruLoop]
    split
    · simp
    · rw [ih (b / 10) (digitChar (b % 10) :: acc), ih (b / 10) [digitChar (b % 10)]]; simp

/-- the digit loop of `display_dec` with enough fuel produces the decimal digits -/
theorem ruLoop_decDigits : ∀ (f b : Nat), 0 < b → b < 10 ^ f → ruLoop f b [] = decDigits b := by
  intro f
  induction f with
  | zero => intro b h0 h; simp at h; omega
  | succ f ih =>
    intro b h0 h
    simp only [ruLoop, show b ≠ 0 by omega, ↓reduceIte]
    rw [ruLoop_acc]
    by_cases hb : b < 10
    · have : b / 10 = 0 := by omega
      rw [this, decDigits_lt b hb]
      have : b % 10 = b := by omega
      cases f <;> simp [ruLoop, this]
    · rw [decDigits_ge b (by omega), ih (b / 10) (by omega) (by rw [Nat.pow_succ] at h; omega)]

theorem lt_ten_pow_succ (a : Nat) : a < 10 ^ (a + 1) := by
  induction a with
  | zero => decide
  | succ a ih => rw [Nat.pow_succ]; omega

theorem showInt_natCast (a : Nat) : showInt (a : Int) = decDigits a := by
  simp [showInt]

/-- representatives that `write` can print: `[0, p)`, balanced `[p/2 - p + 1, p/2]`, every integer for ZRing -/
def RepOk (R : RingIO) (rep : Int) : Prop :=
  R.card = 0 ∨ (0 < R.card ∧ (if R.balanced then R.card / 2 - R.card + 1 ≤ rep ∧ rep ≤ R.card / 2 else 0 ≤ rep ∧ rep < R.card))

/-- the canonical map fixes the representatives (`init(convert(a)) = a` of C04, here for the specification of `init`) -/
theorem initNorm_rep (R : RingIO) (rep : Int) (h : RepOk R rep) : initNorm R rep = rep := by
  rcases h with h0 | ⟨hp, hr⟩
  · simp [initNorm, h0]
  · have hne : R.card ≠ 0 := by omega
    simp only [initNorm, hne, ↓reduceIte]
    cases hb : R.balanced with
    | false =>
      simp only [hb, Bool.false_eq_true, ↓reduceIte] at hr
      simp [Int.emod_eq_of_lt hr.1 hr.2]
    | true =>
      simp only [hb, ↓reduceIte] at hr
      by_cases hneg : rep < 0
      · have e : rep % R.card = rep + R.card := by
          rw [← Int.add_mul_emod_self_left rep R.card 1, Int.mul_one]
          exact Int.emod_eq_of_lt (by omega) (by omega)
        have : rep + R.card > R.card / 2 := by omega
        simp [e, this]
      · have e : rep % R.card = rep := Int.emod_eq_of_lt (by omega) (by omega)
        have : ¬ rep > R.card / 2 := by omega
        simp [e, this]

theorem takeWhile_digits (ds rest : List Char) (hds : AllDigits ds) (h : startsWithDigit rest = false) :
    (ds ++ rest).takeWhile isDigit = ds ∧ (ds ++ rest).dropWhile isDigit = rest := by
  induction ds with
  | nil =>
    cases rest with
    | nil => simp
    | cons r rs =>
      have : isDigit r = false := by simpa [startsWithDigit] using h
      simp [List.takeWhile, List.dropWhile, this]
  | cons d ds ih =>
    have hd : isDigit d = true := hds d (by simp)
    have := ih (fun x hx => hds x (by simp [hx]))
    simp [List.takeWhile, List.dropWhile, hd, this]

theorem digitsValue_eq (ds : List Char) : digitsValue ds = valOf 0 ds := rfl

/-- `is >> tmp` for a signed `w`-bit native integer on the printed form of a value of the type -/
theorem nativeRead_showInt (w : Nat) (hw : 0 < w) (v dflt : Int) (hlo : -(2 ^ (w - 1) : Int) ≤ v) (hhi : v < 2 ^ (w - 1))
    (rest : List Char) (h : startsWithDigit rest = false) :
    nativeRead true w dflt (IStream.ofList (showInt v ++ rest)) = (v, after rest) := by
  obtain ⟨hne, hall, hval⟩ := decDigits_spec v.natAbs
  cases hd : decDigits v.natAbs with
  | nil => exact absurd hd hne
  | cons d0 ds =>
    have h0 : isDigit d0 = true := by rw [hd] at hall; exact hall d0 (by simp)
    obtain ⟨hsp, hm, hp, _, _⟩ := isDigit_facts d0 h0
    have htw := takeWhile_digits (d0 :: ds) rest (by rw [← hd]; exact hall) h
    have hval' : (valOf 0 (d0 :: ds) : Int) = v.natAbs := by rw [← hd, hval]
    by_cases hn : v < 0
    · have ht : showInt v ++ rest = '-' :: (d0 :: ds ++ rest) := by simp [showInt, hn, hd]
      have hsm : isSpace '-' = false := by decide
      rw [ht]
      simp only [nativeRead, sentryWs, IStream.ofList, IStream.good, Bool.not_false, Bool.and_self, ↓reduceIte,
        List.dropWhile, hsm, numGetInt, List.head?_cons, Bool.true_or, decide_true, List.drop_succ_cons, List.drop_zero,
        htw.1, htw.2, digitsValue_eq, hval']
      have hle : ¬ ((v.natAbs : Int) > 2 ^ (w - 1)) := by omega
      simp [hle, after]
      omega
    · have ht : showInt v ++ rest = d0 :: ds ++ rest := by simp [showInt, hn, hd]
      rw [ht]
      have hm' : ¬ (some d0 = some '-') := by simpa using hm
      have hp' : ¬ (some d0 = some '+') := by simpa using hp
      have htw1 : (d0 :: (ds ++ rest)).takeWhile isDigit = d0 :: ds := by simpa using htw.1
      have htw2 : (d0 :: (ds ++ rest)).dropWhile isDigit = rest := by simpa using htw.2
      simp only [nativeRead, sentryWs, IStream.ofList, IStream.good, Bool.not_false, Bool.and_self, ↓reduceIte,
        List.cons_append, List.dropWhile, hsp, numGetInt, List.head?_cons, hm', hp', decide_false, Bool.or_self,
        Bool.false_eq_true, htw1, htw2, digitsValue_eq, hval']
      have hle : ¬ ((v.natAbs : Int) > 2 ^ (w - 1) - 1) := by omega
      simp [hle, after]
      omega

/-- text after a number read through `operator>>(double&)` must not continue a floating literal either -/
def startsFloatish (rest : List Char) : Bool :=
  match rest with
  | [] => false
  | c :: _ => c = '.' || c = 'e' || c = 'E'

theorem filter_digits (ds : List Char) (hds : AllDigits ds) : ds.filter (fun c => !isSpace c) = ds := by
  apply List.filter_eq_self.mpr
  intro c hc
  simp [(isDigit_facts c (hds c hc)).1]

theorem dropSepTol_exact (sep J : List Char) : dropSepTol sep ⟨sep ++ J, false, false⟩ = ⟨J, false, false⟩ := by
  induction sep with
  | nil => simp [dropSepTol]
  | cons c cs ih => simpa [dropSepTol, peek, getc, IStream.good] using ih

/-- after eating blanks in front of text whose first character is not a blank, the stream is good and does not start with a blank -/
theorem afterBlanks_shape (l : List Char) (j0 : Char) (jl : List Char) (hj : j0 ≠ ' ') :
    ∃ h t, afterBlanks (l ++ j0 :: jl) = ⟨h :: t, false, false⟩ ∧ h ≠ ' ' := by
  induction l with
  | nil => exact ⟨j0, jl, by simp [afterBlanks, hj], hj⟩
  | cons c cs ih =>
    by_cases hc : c = ' '
    · subst hc; simpa [afterBlanks] using ih
    · exact ⟨c, cs ++ j0 :: jl, by simp [afterBlanks, hc], hc⟩

theorem dropSepTol_blank_skip (cs : List Char) (h : Char) (t : List Char) (hh : h ≠ ' ') :
    dropSepTol (' ' :: cs) ⟨h :: t, false, false⟩ = dropSepTol cs ⟨h :: t, false, false⟩ := by
  have : ¬ (some h = some ' ') := by simpa using hh
  simp [dropSepTol, peek, IStream.good, this]

theorem dropSepTol_eaten (cs : List Char) (j0 : Char) (jl : List Char) (hj : j0 ≠ ' ') :
    dropSepTol (' ' :: cs) (afterBlanks (cs ++ j0 :: jl)) = ⟨j0 :: jl, false, false⟩ := by
  induction cs with
  | nil =>
    simp only [List.nil_append, afterBlanks, hj, ↓reduceIte]
    rw [dropSepTol_blank_skip [] j0 jl hj]; rfl
  | cons c cs ih =>
    by_cases hc : c = ' '
    · subst hc
      obtain ⟨h, t, hs, hh⟩ := afterBlanks_shape cs j0 jl hj
      simp only [List.cons_append, afterBlanks, ↓reduceIte]
      rw [hs, dropSepTol_blank_skip _ h t hh, ← hs]
      exact ih
    · simp only [List.cons_append, afterBlanks, hc, ↓reduceIte]
      rw [dropSepTol_blank_skip _ c _ hc]
      exact dropSepTol_exact (c :: cs) (j0 :: jl)

/-- the printed form of a rational starts with `-` or a digit -/
theorem showRat_head (q : Int × Int) : ∃ c l, showRat q = c :: l ∧ (c = '-' ∨ isDigit c = true) := by
  obtain ⟨c, l, hl, hc⟩ := showInt_head q.1
  simp only [showRat]
  split
  · exact ⟨c, l ++ '/' :: showInt q.2, by simp [hl], hc⟩
  · exact ⟨c, l, hl, hc⟩

theorem joinSep_head (sep : List Char) (q : Int × Int) (qs : List (Int × Int)) :
    ∃ c l, joinSep sep ((q :: qs).map showRat) = c :: l ∧ (c = '-' ∨ isDigit c = true) := by
  obtain ⟨c, l, hl, hc⟩ := showRat_head q
  cases qs with
  | nil => exact ⟨c, l, by simp [joinSep, hl], hc⟩
  | cons y ys => exact ⟨c, l ++ sep ++ joinSep sep ((y :: ys).map showRat), by simp [joinSep, hl], hc⟩

theorem head_not_special (c : Char) (hc : c = '-' ∨ isDigit c = true) : c ≠ ' ' ∧ c ≠ '/' := by
  rcases hc with rfl | h
  · exact ⟨by decide, by decide⟩
  · have := isDigit_facts c h; exact ⟨this.2.2.2.2, this.2.2.2.1⟩

theorem looksLikeDen_sep (sep : List Char) (j0 : Char) (jl : List Char) (hsep : sepOkRat sep = true)
    (hj : j0 ≠ ' ' ∧ j0 ≠ '/') : looksLikeDen (sep ++ j0 :: jl) = false := by
  have h2 : looksLikeDen sep = false := by
    simp only [sepOkRat, Bool.and_eq_true, Bool.not_eq_true'] at hsep; exact hsep.2
  clear hsep
  induction sep with
  | nil => simp [looksLikeDen, dropBlanks, List.dropWhile, hj.1, hj.2]
  | cons c cs ih =>
    by_cases hc : c = ' '
    · subst hc
      have : looksLikeDen cs = false := by simpa [looksLikeDen, dropBlanks, List.dropWhile] using h2
      simpa [looksLikeDen, dropBlanks, List.dropWhile] using ih this
    · simpa [looksLikeDen, dropBlanks, List.dropWhile, hc] using h2

end Givaro.Lemmas.Text
