/-
C08 — middle products (`givpoly1midmul.inl`) of `Model/Poly.lean` against `Polynomial K`.
-/
import GivaroModel.Lemmas.PolyEuclid
import Mathlib.Algebra.BigOperators.Intervals

open Polynomial
set_option linter.unusedSectionVars false

namespace Givaro.Lemmas.Poly
open Givaro.Model.Poly

variable {K : Type} [Field K] [DecidableEq K]

/-! ### middle products -/

/-- correlation of `A` with `B` at offset `i`: `Σ_s A[s+i]·B[s]` -/
def corr (A B : List K) (i : Nat) : K := ∑ s ∈ Finset.range B.length, A.getD (s + i) 0 * B.getD s 0

/-- a correlation with `B` is a coefficient of the product with `B` reversed: the middle product -/
theorem corr_eq (A B : List K) (i : Nat) :
    corr A B i = (toPoly A * toPoly B.reverse).coeff (i + B.length - 1) := by
  induction B generalizing i with
  | nil => simp [corr]
  | cons b B ih =>
    unfold corr
    rw [List.length_cons, Finset.sum_range_succ']
    simp only [List.getD_cons_succ, List.getD_cons_zero, Nat.zero_add]
    have h1 : ∑ s ∈ Finset.range B.length, A.getD (s + 1 + i) 0 * B.getD s 0 = corr A B (i + 1) := by
      unfold corr; apply Finset.sum_congr rfl; intro s _; congr 2; omega
    rw [h1, ih (i + 1), List.reverse_cons, toPoly_append, List.length_reverse]
    simp only [toPoly_cons, toPoly_nil, mul_zero, add_zero]
    have e : toPoly A * (toPoly B.reverse + X ^ B.length * C b)
        = toPoly A * toPoly B.reverse + X ^ B.length * (toPoly A * C b) := by ring
    rw [e, coeff_add, coeff_X_pow_mul', if_pos (by omega), coeff_mul_C, coeff_toPoly]
    have i1 : i + 1 + B.length - 1 = i + (B.length + 1) - 1 := by omega
    have i2 : i + (B.length + 1) - 1 - B.length = i := by omega
    rw [i1, i2]

theorem zipAxpyR_length (b : K) (R A : List K) : (zipAxpyR b R A).length = R.length := by
  induction R generalizing A with
  | nil => cases A <;> simp [zipAxpyR]
  | cons r R ih => cases A with
    | nil => simp [zipAxpyR]
    | cons a A => simp [zipAxpyR, ih]

theorem zipAxpyR_getD (b : K) (R A : List K) (k : Nat) :
    (zipAxpyR b R A).getD k 0 = R.getD k 0 + (if k < R.length then A.getD k 0 * b else 0) := by
  induction R generalizing A k with
  | nil => cases A <;> simp [zipAxpyR]
  | cons r R ih => cases A with
    | nil => simp [zipAxpyR]
    | cons a A => cases k with
      | zero => simp [zipAxpyR]
      | succ k =>
        simp only [zipAxpyR, List.getD_cons_succ, List.length_cons, Nat.add_lt_add_iff_right]
        exact ih A k

theorem midRow0_length (b : K) (n : Nat) (P : List K) : (midRow0 b n P).length = n := by
  induction n generalizing P with
  | zero => simp [midRow0]
  | succ n ih => cases P <;> simp [midRow0, ih]

theorem midRow0_getD (b : K) (n : Nat) (P : List K) (k : Nat) (hk : k < n) :
    (midRow0 b n P).getD k 0 = P.getD k 0 * b := by
  induction n generalizing P k with
  | zero => omega
  | succ n ih => cases P with
    | nil => cases k with
      | zero => simp [midRow0]
      | succ k => simp only [midRow0, List.getD_cons_succ]; rw [ih [] k (by omega)]; simp
    | cons a P => cases k with
      | zero =>
        simp only [midRow0, List.getD_cons_zero]
        by_cases hb : b = 0
        · simp [hb]
        · by_cases ha : a = 0
          · simp [ha, hb]
          · simp [ha, hb]
      | succ k => simp only [midRow0, List.getD_cons_succ]; exact ih P k (by omega)

theorem midRows_length (P Qr R : List K) : (midRows P Qr R).length = R.length := by
  induction Qr generalizing P R with
  | nil => cases P <;> simp [midRows]
  | cons b Qr ih =>
    cases P with
    | nil => simp [midRows]
    | cons a P =>
      simp only [midRows]
      rw [ih]
      split
      · rfl
      · exact zipAxpyR_length _ _ _

/-- the rows `t ≥ 1`: `R[i] += Σ_s P[s+1+i]·Qr[s]` -/
theorem midRows_getD (P Qr R : List K) (i : Nat) (hi : i < R.length) :
    (midRows P Qr R).getD i 0 = R.getD i 0 + corr P Qr (i + 1) := by
  induction Qr generalizing P R with
  | nil => cases P <;> simp [midRows, corr]
  | cons b Qr ih =>
    cases P with
    | nil => simp [midRows, corr]
    | cons a P =>
      simp only [midRows]
      have hc : corr (a :: P) (b :: Qr) (i + 1) = P.getD i 0 * b + corr P Qr (i + 1) := by
        unfold corr
        rw [List.length_cons, Finset.sum_range_succ']
        simp only [List.getD_cons_succ, List.getD_cons_zero, Nat.zero_add]
        rw [add_comm]
        congr 1
        apply Finset.sum_congr rfl
        intro s _
        have : s + 1 + (i + 1) = (s + (i + 1)) + 1 := by omega
        rw [this, List.getD_cons_succ]
      rw [hc]
      by_cases hb : b = 0
      · rw [if_pos hb, ih P R hi, hb]; ring
      · rw [if_neg hb, ih P _ (by rw [zipAxpyR_length]; exact hi), zipAxpyR_getD, if_pos hi]; ring

/-- `stdmidmul` on ranges: for every R range length, every `P` and every non-empty `Q` range, `R[i]` is the coefficient
    `i + |Q| - 1` of `P·Q` -/
theorem stdmidmulR_exact (r : Nat) (P Q : List K) (hr : 0 < r) (hQ : Q ≠ []) :
    (stdmidmulR r P Q).length = r ∧
    ∀ i, i < r → (stdmidmulR r P Q).getD i 0 = (toPoly P * toPoly Q).coeff (i + Q.length - 1) := by
  unfold stdmidmulR
  rw [if_neg (by omega)]
  have hrev : Q.reverse ≠ [] := by simpa using hQ
  cases hq : Q.reverse with
  | nil => exact absurd hq hrev
  | cons bl Qr =>
    simp only
    refine ⟨by rw [midRows_length, midRow0_length], ?_⟩
    intro i hi
    rw [midRows_getD _ _ _ _ (by rw [midRow0_length]; exact hi), midRow0_getD _ _ _ _ hi]
    have hQ' : Q = (bl :: Qr).reverse := by rw [← hq, List.reverse_reverse]
    have hlen : Q.length = Qr.length + 1 := by rw [hQ']; simp
    have : (toPoly P * toPoly Q).coeff (i + Q.length - 1) = corr P (bl :: Qr) i := by
      rw [corr_eq, ← hQ', List.length_cons, hlen]
    rw [this]
    unfold corr
    rw [List.length_cons, Finset.sum_range_succ']
    simp only [List.getD_cons_succ, List.getD_cons_zero, Nat.zero_add]
    rw [add_comm]
    congr 1
    apply Finset.sum_congr rfl
    intro s _
    congr 2
    omega


theorem midR_of_small (thr fuel r : Nat) (P Q : List K)
    (h : P.length + 1 ≤ Q.length ∨ min (P.length + 1 - Q.length) Q.length ≤ thr) :
    midR thr fuel r P Q = stdmidmulR r P Q := by
  cases fuel with
  | zero => rfl
  | succ f => simp only [midR]; rw [if_pos h]

/-- coefficients of a public middle product computed by the schoolbook range form -/
theorem coeff_of_stdmid (P Q : List K) (hQ : Q ≠ []) (i : Nat) :
    (toPoly (setdegree (pad (P.length - Q.length + 1) (stdmidmulR (P.length - Q.length + 1) P Q)))).coeff i
      = if i < P.length - Q.length + 1 then (toPoly P * toPoly Q).coeff (i + Q.length - 1) else 0 := by
  obtain ⟨_, hc⟩ := stdmidmulR_exact (P.length - Q.length + 1) P Q (by omega) hQ
  rw [toPoly_setdegree, coeff_toPoly, getD_pad]
  split
  · next h => exact hc i h
  · rfl

/-! ### pseudo-division -/

theorem toPoly_map_mul (L : List K) (u : K) : toPoly (L.map (fun r => r * u)) = toPoly L * C u :=
  toPoly_mulVal L u

theorem toPoly_zipWith_lin (u c : K) : ∀ (U V : List K), U.length = V.length →
    toPoly (List.zipWith (fun r b => r * u - c * b) U V) = toPoly U * C u - C c * toPoly V
  | [], [], _ => by simp
  | [], _ :: _, h => by simp at h
  | _ :: _, [], h => by simp at h
  | x :: U, y :: V, h => by
    have hl : U.length = V.length := by simpa using h
    simp only [List.zipWith_cons_cons, toPoly_cons]
    rw [toPoly_zipWith_lin u c U V hl, C_sub, C_mul, C_mul]; ring

/-- one round of the scaled subtraction shared by `pdivmod` and `pmod`: for `R` with `k + |Bl| + 1` entries and top entry `c`,
    the new array denotes `lB·R - c·X^k·(Bl + lB·X^|Bl|)` -/
theorem pstep_poly (lB : K) (Bl R : List K) (k : Nat) (hR : R.length = k + Bl.length + 1) :
    toPoly ((R.take k).map (fun r => r * lB)
        ++ List.zipWith (fun r b => r * lB - R.getD (k + Bl.length) 0 * b) ((R.drop k).take Bl.length) Bl)
      = C lB * toPoly R - C (R.getD (k + Bl.length) 0) * X ^ k * (toPoly Bl + X ^ Bl.length * C lB) := by
  have h1 : ((R.take k).map (fun r => r * lB)).length = k := by simp; omega
  rw [toPoly_append, h1, toPoly_map_mul,
    toPoly_zipWith_lin _ _ _ _ (by rw [List.length_take, List.length_drop]; omega)]
  have e1 := toPoly_take_drop R k
  have e2 := toPoly_take_drop (R.drop k) Bl.length
  have e3 : (R.drop k).drop Bl.length = [R.getD (k + Bl.length) 0] := by
    rw [List.drop_drop]
    apply List.ext_getElem
    · simp; omega
    · intro i h1 h2
      have hi : i = 0 := by simp at h2; omega
      subst hi
      simp [List.getD_eq_getElem?_getD, List.getElem?_eq_getElem (show k + Bl.length < R.length by omega)]
  rw [e3] at e2
  rw [e1, e2]
  simp only [toPoly_cons, toPoly_nil, mul_zero, add_zero]
  ring

theorem pdivmodLoop_spec (lB : K) (Bl : List K) (a b : K[X]) (hbpoly : b = toPoly Bl + X ^ Bl.length * C lB) :
    ∀ (k : Nat) (Qh R : List K) (m : K), R.length = k + Bl.length →
      C m * a = X ^ k * toPoly Qh * b + toPoly R →
      (pdivmodLoop lB Bl k Qh R m).2.1.length = Bl.length ∧
      (pdivmodLoop lB Bl k Qh R m).2.2 = m * lB ^ k ∧
      C (pdivmodLoop lB Bl k Qh R m).2.2 * a
        = toPoly (pdivmodLoop lB Bl k Qh R m).1 * b + toPoly (pdivmodLoop lB Bl k Qh R m).2.1 := by
  intro k
  induction k with
  | zero =>
    intro Qh R m hR h
    simp only [pdivmodLoop]
    refine ⟨by omega, by rw [pow_zero, mul_one], ?_⟩
    rw [h]; simp
  | succ k ih =>
    intro Qh R m hR h
    simp only [pdivmodLoop]
    have hstep := pstep_poly lB Bl R k (by omega)
    obtain ⟨h1, h2, h3⟩ := ih (R.getD (k + Bl.length) 0 :: Qh.map (fun q => q * lB))
      ((R.take k).map (fun r => r * lB)
        ++ List.zipWith (fun r b => r * lB - R.getD (k + Bl.length) 0 * b) ((R.drop k).take Bl.length) Bl) (m * lB)
      (by simp only [List.length_append, List.length_map, List.length_zipWith, List.length_take, List.length_drop]; omega)
      (by
        rw [hstep, toPoly_cons, toPoly_map_mul, ← hbpoly, C_mul]
        have : C m * C lB * a = C lB * (C m * a) := by ring
        rw [this, h, pow_succ]; ring)
    refine ⟨h1, ?_, h3⟩
    rw [h2, pow_succ]; ring


theorem degree_lt_of_length_le (R : List K) (b : K[X]) (n : Nat) (hb : b.degree = (n : WithBot ℕ)) (h : R.length ≤ n) :
    (toPoly R).degree < b.degree := by
  rw [hb, degree_lt_iff_coeff_zero]
  intro m hm
  rw [coeff_toPoly]; exact getD_of_le _ _ (by omega)

/-- shape of a normalised non-constant divisor: low part, leading coefficient -/
theorem divisor_shape (B : List K) (hb : toPoly B ≠ 0) :
    (setdegree B).getD ((setdegree B).length - 1) 0 ≠ 0 ∧
    toPoly B = toPoly ((setdegree B).take ((setdegree B).length - 1))
      + X ^ ((setdegree B).length - 1) * C ((setdegree B).getD ((setdegree B).length - 1) 0) ∧
    (toPoly B).degree = (((setdegree B).length - 1 : ℕ) : WithBot ℕ) := by
  have hl := length_setdegree_pos B hb
  have hm := natDegree_toPoly B hb
  refine ⟨?_, ?_, ?_⟩
  · rw [getD_eq_coeff, toPoly_setdegree, ← hm, coeff_natDegree]; exact leadingCoeff_ne_zero.mpr hb
  · have e := toPoly_take_drop (setdegree B) ((setdegree B).length - 1)
    have e3 : (setdegree B).drop ((setdegree B).length - 1)
        = [(setdegree B).getD ((setdegree B).length - 1) 0] := by
      apply List.ext_getElem
      · simp; omega
      · intro i h1 h2
        have hi : i = 0 := by simp at h2; omega
        subst hi
        simp [List.getD_eq_getElem?_getD,
          List.getElem?_eq_getElem (show (setdegree B).length - 1 < (setdegree B).length by omega)]
    rw [e3, toPoly_setdegree] at e
    rw [e]; simp
  · rw [degree_eq_natDegree hb, hm]

/-- Tier B `pdivmod_exact`: `pdivmod(Q,R,m,A,B)` for every `A` and every non-zero `B`: `m·A = Q·B + R`, `deg R < deg B`,
    `m ≠ 0` (and `m = lc(B)^(deg A - deg B + 1)` when `deg A ≥ deg B ≥ 1`) -/
theorem pdivmod_spec (A B : List K) (hb : toPoly B ≠ 0) :
    C (pdivmod A B).2.2 * toPoly A = toPoly (pdivmod A B).1 * toPoly B + toPoly (pdivmod A B).2.1 ∧
    (toPoly (pdivmod A B).2.1).degree < (toPoly B).degree ∧ (pdivmod A B).2.2 ≠ 0 := by
  unfold pdivmod
  extract_lets An Bn dB r
  have tAn : toPoly An = toPoly A := toPoly_setdegree A
  have hbot : (toPoly ([] : List K)).degree < (toPoly B).degree := by
    rw [toPoly_nil, degree_zero]; exact bot_lt_iff_ne_bot.mpr (fun e => hb (degree_eq_bot.mp e))
  split
  · next h =>
    have ha : toPoly A = 0 := (degree_neg_iff A).mp h
    exact ⟨by simp [ha], hbot, one_ne_zero⟩
  · next hA =>
    split
    · next h =>
      unfold Model.Poly.degree at h
      have hl : Bn.length = 1 := by simp only [Bn]; omega
      obtain ⟨c, hc⟩ := List.length_eq_one_iff.mp hl
      have hBc : toPoly B = C c := by rw [← toPoly_setdegree B]; change toPoly Bn = _; rw [hc]; simp
      have hc0 : c ≠ 0 := by intro h0; rw [h0] at hBc; exact hb (by simpa using hBc)
      refine ⟨?_, hbot, ?_⟩
      · simp only [hc, List.getD_cons_zero, tAn, toPoly_nil, add_zero]; rw [hBc]; ring
      · simp only [hc, List.getD_cons_zero]; exact hc0
    · next hB0 =>
      split
      · next h =>
        refine ⟨by simp [tAn], ?_, one_ne_zero⟩
        simp only [tAn]
        exact degree_lt_of_model A B hb h
      · next hge =>
        obtain ⟨hlB, hshape, hdeg⟩ := divisor_shape B hb
        have ha : toPoly A ≠ 0 := fun h0 => hA ((degree_neg_iff A).mpr h0)
        have lA := length_setdegree_pos A ha
        have lB := length_setdegree_pos B hb
        unfold Model.Poly.degree at hge hB0
        have hlt : (Bn.take dB).length = dB := by simp only [List.length_take, dB, Bn]; omega
        obtain ⟨h1, h2, h3⟩ := pdivmodLoop_spec (Bn.getD dB 0) (Bn.take dB) (toPoly A) (toPoly B)
          (by rw [hlt]; exact hshape) (An.length - Bn.length + 1) [] An 1
          (by rw [hlt]; simp only [dB, An, Bn]; omega) (by simp [tAn])
        refine ⟨?_, ?_, ?_⟩
        · simp only [toPoly_setdegree]; exact h3
        · simp only [toPoly_setdegree]
          exact degree_lt_of_length_le _ _ dB hdeg (by rw [h1, hlt])
        · show r.2.2 ≠ 0
          simp only [r]; rw [h2, one_mul]; exact pow_ne_zero _ hlB

/-! ### `pmod` -/

theorem toPoly_scaleTimes (lB : K) (s : Nat) (R : List K) :
    toPoly (scaleTimes lB s R) = toPoly R * C (lB ^ s) := by
  induction s generalizing R with
  | zero => simp [scaleTimes]
  | succ s ih => simp only [scaleTimes]; rw [ih, toPoly_mulVal, pow_succ, C_mul]; ring

theorem npow_eq (x : K) (n : Nat) : npow x n = x ^ n := by
  induction n with
  | zero => simp [npow]
  | succ n ih => simp only [npow, ih, pow_succ]

theorem pmodLoop_spec (lB : K) (Bl : List K) (a b : K[X]) (hbpoly : b = toPoly Bl + X ^ Bl.length * C lB) :
    ∀ (fuel s : Nat) (R : List K) (e : Nat), b ∣ C (lB ^ e) * a - toPoly R →
      (setdegree R).length ≤ Bl.length + s → (setdegree R).length ≤ fuel + Bl.length →
      (pmodLoop lB Bl fuel s R).1.length ≤ Bl.length ∧
      ∃ e', e' + (pmodLoop lB Bl fuel s R).2 = e + s ∧
        b ∣ C (lB ^ e') * a - toPoly (pmodLoop lB Bl fuel s R).1 := by
  intro fuel
  induction fuel with
  | zero =>
    intro s R e h hs hf
    simp only [pmodLoop]
    exact ⟨by omega, e, rfl, by rw [toPoly_setdegree]; exact h⟩
  | succ fuel ih =>
    intro s R e h hs hf
    simp only [pmodLoop]
    split
    · next hge =>
      have hRn : (setdegree R).length = ((setdegree R).length - 1 - Bl.length) + Bl.length + 1 := by omega
      have hstep := pstep_poly lB Bl (setdegree R) ((setdegree R).length - 1 - Bl.length) hRn
      have hidx : (setdegree R).length - 1 - Bl.length + Bl.length = (setdegree R).length - 1 := by omega
      rw [hidx] at hstep
      have hlen : ((List.take ((setdegree R).length - 1 - Bl.length) (setdegree R)).map (fun r => r * lB)
          ++ List.zipWith (fun r b => r * lB - (setdegree R).getD ((setdegree R).length - 1) 0 * b)
              (List.take Bl.length (List.drop ((setdegree R).length - 1 - Bl.length) (setdegree R))) Bl).length
          = (setdegree R).length - 1 := by
        simp only [List.length_append, List.length_map, List.length_zipWith, List.length_take, List.length_drop]; omega
      have hnl := length_setdegree_le ((List.take ((setdegree R).length - 1 - Bl.length) (setdegree R)).map (fun r => r * lB)
          ++ List.zipWith (fun r b => r * lB - (setdegree R).getD ((setdegree R).length - 1) 0 * b)
              (List.take Bl.length (List.drop ((setdegree R).length - 1 - Bl.length) (setdegree R))) Bl)
      obtain ⟨h1, e', he', hd⟩ := ih (s - 1) _ (e + 1)
        (by
          rw [hstep, toPoly_setdegree, ← hbpoly]
          have : C (lB ^ (e + 1)) * a - (C lB * toPoly R
              - C ((setdegree R).getD ((setdegree R).length - 1) 0) * X ^ ((setdegree R).length - 1 - Bl.length) * b)
              = C lB * (C (lB ^ e) * a - toPoly R)
                + C ((setdegree R).getD ((setdegree R).length - 1) 0) * X ^ ((setdegree R).length - 1 - Bl.length) * b := by
            rw [pow_succ, C_mul]; ring
          rw [this]
          exact dvd_add (dvd_mul_of_dvd_right h _) (dvd_mul_left _ _))
        (by omega) (by omega)
      exact ⟨h1, e', by omega, hd⟩
    · next hlt =>
      exact ⟨by show (setdegree R).length ≤ Bl.length; omega, e, rfl, by rw [toPoly_setdegree]; exact h⟩

/-- Tier B `pmod_exact`: `pmod(R,m,A,B)` for every `A` and every non-zero `B`: `m·A ≡ R (mod B)`, `deg R < deg B`, `m ≠ 0`
    (with `m = lc(B)^(deg A - deg B + 1)` in the main branch, whatever the number of rounds actually executed) -/
theorem pmod_spec (A B : List K) (hb : toPoly B ≠ 0) :
    toPoly B ∣ C (pmod A B).2 * toPoly A - toPoly (pmod A B).1 ∧
    (toPoly (pmod A B).1).degree < (toPoly B).degree ∧ (pmod A B).2 ≠ 0 := by
  unfold pmod
  extract_lets An Bn dB lB steps r
  have tAn : toPoly An = toPoly A := toPoly_setdegree A
  have hbot : (toPoly ([] : List K)).degree < (toPoly B).degree := by
    rw [toPoly_nil, degree_zero]; exact bot_lt_iff_ne_bot.mpr (fun e => hb (degree_eq_bot.mp e))
  split
  · next h =>
    have ha : toPoly A = 0 := (degree_neg_iff A).mp h
    exact ⟨by simp [ha], hbot, one_ne_zero⟩
  · next hA =>
    split
    · next h =>
      unfold Model.Poly.degree at h
      have hl : Bn.length = 1 := by simp only [Bn]; omega
      obtain ⟨c, hc⟩ := List.length_eq_one_iff.mp hl
      have hBc : toPoly B = C c := by rw [← toPoly_setdegree B]; change toPoly Bn = _; rw [hc]; simp
      have hc0 : c ≠ 0 := by intro h0; rw [h0] at hBc; exact hb (by simpa using hBc)
      refine ⟨?_, hbot, ?_⟩
      · simp only [hc, List.getD_cons_zero, toPoly_nil, sub_zero]; rw [hBc]; exact dvd_mul_right _ _
      · simp only [hc, List.getD_cons_zero]; exact hc0
    · next hB0 =>
      split
      · next h =>
        refine ⟨by simp [tAn], ?_, one_ne_zero⟩
        simp only [tAn]
        exact degree_lt_of_model A B hb h
      · next hge =>
        obtain ⟨hlB, hshape, hdeg⟩ := divisor_shape B hb
        have ha : toPoly A ≠ 0 := fun h0 => hA ((degree_neg_iff A).mpr h0)
        have lA := length_setdegree_pos A ha
        have lBp := length_setdegree_pos B hb
        unfold Model.Poly.degree at hge hB0
        have hlt : (Bn.take dB).length = dB := by simp only [List.length_take, dB, Bn]; omega
        have hAn : (setdegree An).length ≤ An.length := length_setdegree_le An
        obtain ⟨h1, e', he', hd⟩ := pmodLoop_spec lB (Bn.take dB) (toPoly A) (toPoly B)
          (by rw [hlt]; exact hshape) (An.length + 1) steps An 0
          (by simp [tAn]) (by rw [hlt]; simp only [steps, dB, An, Bn] at hAn ⊢; omega) (by omega)
        refine ⟨?_, ?_, ?_⟩
        · show toPoly B ∣ C (npow lB steps) * toPoly A - toPoly (setdegree (scaleTimes lB r.2 r.1))
          rw [toPoly_setdegree, toPoly_scaleTimes, npow_eq]
          have hs : steps = e' + r.2 := by simp only [r]; omega
          have : C (lB ^ steps) * toPoly A - toPoly r.1 * C (lB ^ r.2)
              = C (lB ^ r.2) * (C (lB ^ e') * toPoly A - toPoly r.1) := by
            rw [hs, pow_add, C_mul]; ring
          rw [this]; exact dvd_mul_of_dvd_right hd _
        · show (toPoly (setdegree (scaleTimes lB r.2 r.1))).degree < _
          rw [toPoly_setdegree, toPoly_scaleTimes]
          refine lt_of_le_of_lt (degree_mul_le _ _) ?_
          have hC : (C (lB ^ r.2) : K[X]).degree = 0 := degree_C (pow_ne_zero _ hlB)
          rw [hC, add_zero]
          exact degree_lt_of_length_le _ _ dB hdeg (by rw [← hlt]; exact h1)
        · show npow lB steps ≠ 0
          rw [npow_eq]; exact pow_ne_zero _ hlB

end Givaro.Lemmas.Poly
