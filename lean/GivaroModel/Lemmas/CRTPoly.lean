/-
C14 — Poly1CRT: the coefficient-list model of `Model/CRT.lean` seen in `(ZMod p)[X]`.

`toP` maps a coefficient list (low degree first, integers) to a polynomial over `ZMod p`; the list operations of the model
(`polyEval`, `polyMulXSub`, `polyScale`, `polyAxpyin`) are the polynomial operations they are meant to be; the Newton loop of
`RnsToRing` interpolates; uniqueness is Mathlib's `Polynomial.eq_of_degrees_lt_of_eval_finset_eq`.
-/
import GivaroModel.Lemmas.CRTLemmas
import Mathlib.Data.ZMod.Basic
import Mathlib.Algebra.Field.ZMod
import Mathlib.Algebra.Polynomial.Eval.Defs
import Mathlib.Algebra.Polynomial.Degree.Lemmas
import Mathlib.LinearAlgebra.Lagrange

namespace Givaro.Lemmas.CRT
open Givaro.Model.CRT
open Polynomial

variable {p : ℕ}

/-- the polynomial over `ZMod p` denoted by a coefficient list -/
noncomputable def toP (p : ℕ) : List Int → (ZMod p)[X]
  | [] => 0
  | c :: P => C (c : ZMod p) + X * toP p P

theorem cast_emod (x : Int) : (((x % (p : Int)) : Int) : ZMod p) = (x : ZMod p) := ZMod.intCast_mod x p

theorem eval_toP (P : List Int) (x : Int) :
    ((polyEval (p : Int) P x : Int) : ZMod p) = (toP p P).eval (x : ZMod p) := by
  induction P with
  | nil => simp [polyEval, toP]
  | cons c P ih =>
    have : polyEval (p : Int) (c :: P) x = (polyEval (p : Int) P x * x + c) % (p : Int) := by
      simp [polyEval]
    rw [this, cast_emod]
    simp only [toP, eval_add, eval_C, eval_mul, eval_X]
    push_cast
    rw [ih]; ring

theorem coeff_toP (P : List Int) (i : ℕ) : (toP p P).coeff i = ((P.getD i 0 : Int) : ZMod p) := by
  induction P generalizing i with
  | nil => simp [toP]
  | cons c P ih =>
    cases i with
    | zero => simp [toP]
    | succ i => simp only [toP, coeff_add, coeff_C_succ, coeff_X_mul, ih, zero_add, List.getD_cons_succ]

theorem degree_toP_lt (P : List Int) : (toP p P).degree < (P.length : WithBot ℕ) := by
  rw [degree_lt_iff_coeff_zero]
  intro m hm
  rw [coeff_toP]
  have : P.getD m 0 = 0 := by
    simp [List.getD, List.getElem?_eq_none hm]
  rw [this]; simp

/-! ### the list operations are the polynomial operations -/

/-- `zip (prev :: P) (P ++ [0])` mapped by `x - a y` -/
def mulXSubGo (q a : Int) : Int → List Int → List Int
  | prev, [] => [(prev - a * 0) % q]
  | prev, c :: P => ((prev - a * c) % q) :: mulXSubGo q a c P

theorem polyMulXSub_eq (q : Int) (P : List Int) (a : Int) : polyMulXSub q P a = mulXSubGo q a 0 P := by
  unfold polyMulXSub
  suffices h : ∀ (P : List Int) (prev : Int),
      ((prev :: P).zip (P ++ [0])).map (fun xy => (xy.1 - a * xy.2) % q) = mulXSubGo q a prev P by
    exact h P 0
  intro P
  induction P with
  | nil => intro prev; simp [mulXSubGo]
  | cons c P ih => intro prev; simp only [List.cons_append, List.zip_cons_cons, List.map_cons, mulXSubGo]; rw [ih]

theorem toP_mulXSubGo (a : Int) : ∀ (P : List Int) (prev : Int),
    toP p (mulXSubGo (p : Int) a prev P) = C (prev : ZMod p) + (X - C (a : ZMod p)) * toP p P := by
  intro P
  induction P with
  | nil => intro prev; simp [mulXSubGo, toP, cast_emod]
  | cons c P ih =>
    intro prev
    simp only [mulXSubGo, toP, ih, cast_emod]
    push_cast
    simp only [C_sub, C_mul]
    ring

theorem toP_mulXSub (P : List Int) (a : Int) :
    toP p (polyMulXSub (p : Int) P a) = toP p P * (X - C (a : ZMod p)) := by
  rw [polyMulXSub_eq, toP_mulXSubGo]; simp; ring

theorem toP_scale (P : List Int) (s : Int) : toP p (polyScale (p : Int) P s) = C (s : ZMod p) * toP p P := by
  unfold polyScale
  induction P with
  | nil => simp [toP]
  | cons c P ih =>
    simp only [List.map_cons, toP, ih, cast_emod]
    push_cast
    simp only [C_mul]
    ring

theorem toP_axpyin : ∀ (I : List Int) (s : Int) (ck : List Int),
    toP p (polyAxpyin (p : Int) I s ck) = toP p I + C (s : ZMod p) * toP p ck := by
  intro I
  induction I with
  | nil =>
    intro s ck
    simp only [polyAxpyin, toP, zero_add]
    induction ck with
    | nil => simp [toP]
    | cons y ys ih =>
      simp only [List.map_cons, toP, ih, cast_emod]
      push_cast
      simp only [C_mul]
      ring
  | cons x xs ih =>
    intro s ck
    cases ck with
    | nil => simp [polyAxpyin, toP]
    | cons y ys =>
      simp only [polyAxpyin, toP, ih, cast_emod]
      push_cast
      simp only [C_add, C_mul]
      ring

/-! ### lengths and canonical coefficients -/

theorem length_mulXSubGo (q a : Int) : ∀ (P : List Int) (prev : Int), (mulXSubGo q a prev P).length = P.length + 1 := by
  intro P
  induction P with
  | nil => intro prev; simp [mulXSubGo]
  | cons c P ih => intro prev; simp [mulXSubGo, ih]

theorem length_mulXSub (q : Int) (P : List Int) (a : Int) : (polyMulXSub q P a).length = P.length + 1 := by
  rw [polyMulXSub_eq, length_mulXSubGo]

theorem length_scale (q : Int) (P : List Int) (s : Int) : (polyScale q P s).length = P.length := by
  simp [polyScale]

theorem length_axpyin_le (q : Int) : ∀ (I : List Int) (s : Int) (ck : List Int) (n : ℕ),
    I.length ≤ n → ck.length ≤ n → (polyAxpyin q I s ck).length ≤ n := by
  intro I
  induction I with
  | nil => intro s ck n _ h; simpa [polyAxpyin] using h
  | cons x xs ih =>
    intro s ck n h1 h2
    cases ck with
    | nil => simpa [polyAxpyin] using h1
    | cons y ys =>
      cases n with
      | zero => simp at h1
      | succ n =>
        simp only [polyAxpyin, List.length_cons, Nat.add_le_add_iff_right] at *
        exact ih s ys n h1 h2

/-- all coefficients lie in `[0, q)` -/
def CanonCoeffs (q : Int) (P : List Int) : Prop := ∀ c ∈ P, 0 ≤ c ∧ c < q

theorem canon_axpyin (q : Int) (hq : 0 < q) : ∀ (I : List Int) (s : Int) (ck : List Int),
    CanonCoeffs q I → CanonCoeffs q (polyAxpyin q I s ck) := by
  intro I
  induction I with
  | nil =>
    intro s ck _ c hc
    simp only [polyAxpyin, List.mem_map] at hc
    obtain ⟨y, _, rfl⟩ := hc
    exact ⟨Int.emod_nonneg _ (ne_of_gt hq), Int.emod_lt_of_pos _ hq⟩
  | cons x xs ih =>
    intro s ck hI
    cases ck with
    | nil => simpa [polyAxpyin] using hI
    | cons y ys =>
      intro c hc
      simp only [polyAxpyin, List.mem_cons] at hc
      rcases hc with rfl | hc
      · exact ⟨Int.emod_nonneg _ (ne_of_gt hq), Int.emod_lt_of_pos _ hq⟩
      · exact ih s ys (fun c hc => hI c (List.mem_cons_of_mem _ hc)) c hc

/-! ### the cofactor contract in the field -/

theorem cof_field_inverse [Fact p.Prime] {cof : Int → Int → Int} (hcof : CofOK cof) (x : Int) (hx : 0 ≤ x)
    (hne : (x : ZMod p) ≠ 0) : (((cof (p : Int) x) % (p : Int) : Int) : ZMod p) * (x : ZMod p) = 1 := by
  have hp : (0 : Int) < p := by exact_mod_cast (Fact.out : p.Prime).pos
  set y : Int := (((x : ZMod p)⁻¹).val : Int) with hy
  have hyx : ((y * x : Int) : ZMod p) = ((1 : Int) : ZMod p) := by
    have hyc : (y : ZMod p) = (x : ZMod p)⁻¹ := by
      rw [hy, Int.cast_natCast, ZMod.natCast_zmod_val]
    rw [Int.cast_mul, hyc, Int.cast_one]
    exact inv_mul_cancel₀ hne
  have h1 : (y * x) % (p : Int) = 1 % (p : Int) := (ZMod.intCast_eq_intCast_iff _ _ _).mp hyx
  have h2 := hcof (p : Int) x y hp hx h1
  have h3 : ((cof (p : Int) x * x : Int) : ZMod p) = ((1 : Int) : ZMod p) := (ZMod.intCast_eq_intCast_iff _ _ _).mpr h2
  rw [cast_emod]
  push_cast at h3
  exact h3

/-! ### the Newton loop interpolates -/

theorem polyEval_canon (q : Int) (hq : 0 < q) (P : List Int) (x : Int) : 0 ≤ polyEval q P x ∧ polyEval q P x < q := by
  cases P with
  | nil => simp [polyEval, hq]
  | cons c P =>
    have : polyEval q (c :: P) x = (polyEval q P x * x + c) % q := by simp [polyEval]
    rw [this]
    exact ⟨Int.emod_nonneg _ (ne_of_gt hq), Int.emod_lt_of_pos _ hq⟩

/-- invariant of `RnsToRing`'s loop: `D` = the (point, residue) pairs already processed, `prev` the last point -/
structure PInv (p : ℕ) (prodL : List Int) (prev : Int) (IL : List Int) (D : List (Int × Int)) : Prop where
  interp : ∀ dr ∈ D, (toP p IL).eval (dr.1 : ZMod p) = (dr.2 : ZMod p)
  vanish : ∀ dr ∈ D, (toP p prodL * (X - C (prev : ZMod p))).eval (dr.1 : ZMod p) = 0
  nonvanish : ∀ x : ZMod p, (∀ dr ∈ D, x ≠ (dr.1 : ZMod p)) → (toP p prodL * (X - C (prev : ZMod p))).eval x ≠ 0
  lenI : IL.length ≤ D.length
  lenP : prodL.length ≤ D.length
  canon : CanonCoeffs (p : Int) IL

theorem polyGarner_spec [Fact p.Prime] {cof : Int → Int → Int} (hcof : CofOK cof) :
    ∀ (as rs prodL : List Int) (prev : Int) (IL : List Int) (D : List (Int × Int)),
      PInv p prodL prev IL D → rs.length = as.length →
      (∀ a ∈ as, ∀ dr ∈ D, (a : ZMod p) ≠ (dr.1 : ZMod p)) →
      as.Pairwise (fun (a b : Int) => (a : ZMod p) ≠ (b : ZMod p)) →
      (∀ dr ∈ D, (toP p (polyGarnerGo (p : Int) IL as (polyCkGo cof (p : Int) prodL prev as) rs)).eval (dr.1 : ZMod p) = (dr.2 : ZMod p)) ∧
      List.Forall₂ (fun (a r : Int) => (toP p (polyGarnerGo (p : Int) IL as (polyCkGo cof (p : Int) prodL prev as) rs)).eval (a : ZMod p) = (r : ZMod p)) as rs ∧
      (polyGarnerGo (p : Int) IL as (polyCkGo cof (p : Int) prodL prev as) rs).length ≤ D.length + as.length ∧
      CanonCoeffs (p : Int) (polyGarnerGo (p : Int) IL as (polyCkGo cof (p : Int) prodL prev as) rs) := by
  have hq : (0 : Int) < p := by exact_mod_cast (Fact.out : p.Prime).pos
  intro as
  induction as with
  | nil =>
    intro rs prodL prev IL D hinv hlen _ _
    have : rs = [] := List.eq_nil_of_length_eq_zero (by simpa using hlen)
    subst this
    simp only [polyCkGo, polyGarnerGo, List.length_nil, Nat.add_zero]
    exact ⟨hinv.interp, List.Forall₂.nil, hinv.lenI, hinv.canon⟩
  | cons a as ih =>
    intro rs prodL prev IL D hinv hlen hnew hpw
    cases rs with
    | nil => simp at hlen
    | cons r rs =>
    simp only [polyCkGo, polyGarnerGo]
    -- names for the quantities of this step
    set prod' := polyMulXSub (p : Int) prodL prev with hprod'
    set invC := (cof (p : Int) (polyEval (p : Int) prod' a)) % (p : Int) with hinvC
    set c := polyScale (p : Int) prod' invC with hc
    set addon := ((-(polyEval (p : Int) IL a)) % (p : Int) + r) % (p : Int) with haddon
    set I' := polyAxpyin (p : Int) IL addon c with hI'
    have hV : toP p prod' = toP p prodL * (X - C (prev : ZMod p)) := toP_mulXSub prodL prev
    have he : (toP p prod').eval (a : ZMod p) ≠ 0 := by
      rw [hV]; exact hinv.nonvanish _ (fun dr hdr => hnew a (List.mem_cons_self ..) dr hdr)
    have hinv1 : (invC : ZMod p) * (toP p prod').eval (a : ZMod p) = 1 := by
      rw [← eval_toP]
      apply cof_field_inverse hcof _ (polyEval_canon _ hq _ _).1
      rw [eval_toP]; exact he
    have hadd : (addon : ZMod p) = (r : ZMod p) - (toP p IL).eval (a : ZMod p) := by
      rw [haddon, cast_emod, Int.cast_add, cast_emod, Int.cast_neg, eval_toP]; ring
    have hI : toP p I' = toP p IL + C (addon : ZMod p) * (C (invC : ZMod p) * toP p prod') := by
      rw [hI', toP_axpyin, hc, toP_scale]
    have hpw' := List.pairwise_cons.mp hpw
    have hinv' : PInv p prod' a I' ((a, r) :: D) := by
      refine ⟨?_, ?_, ?_, ?_, ?_, ?_⟩
      · intro dr hdr
        rcases List.mem_cons.mp hdr with h1 | h1
        · subst h1
          simp only [hI, eval_add, eval_mul, eval_C]
          rw [hadd]
          have : ((r : ZMod p) - eval (↑a) (toP p IL)) * ((invC : ZMod p) * eval (↑a) (toP p prod')) =
              (r : ZMod p) - eval (↑a) (toP p IL) := by rw [hinv1, mul_one]
          rw [this]; ring
        · simp only [hI, eval_add, eval_mul, eval_C]
          have hz : eval (↑dr.1) (toP p prod') = 0 := by rw [hV]; exact hinv.vanish dr h1
          rw [hz, hinv.interp dr h1]; ring
      · intro dr hdr
        rcases List.mem_cons.mp hdr with h1 | h1
        · subst h1; simp
        · have hz : eval (↑dr.1) (toP p prod') = 0 := by rw [hV]; exact hinv.vanish dr h1
          simp only [eval_mul, hz, zero_mul]
      · intro x hx
        have h1 : x ≠ (a : ZMod p) := hx (a, r) (List.mem_cons_self ..)
        have h2 : eval x (toP p prod') ≠ 0 := by
          rw [hV]; exact hinv.nonvanish x (fun dr hdr => hx dr (List.mem_cons_of_mem _ hdr))
        simp only [eval_mul, eval_sub, eval_X, eval_C]
        exact mul_ne_zero h2 (sub_ne_zero.mpr h1)
      · simp only [List.length_cons]
        apply length_axpyin_le
        · exact Nat.le_succ_of_le hinv.lenI
        · rw [hc, length_scale, hprod', length_mulXSub]; exact Nat.succ_le_succ hinv.lenP
      · simp only [List.length_cons]
        rw [hprod', length_mulXSub]; exact Nat.succ_le_succ hinv.lenP
      · exact canon_axpyin _ hq _ _ _ hinv.canon
    have hnew' : ∀ b ∈ as, ∀ dr ∈ (a, r) :: D, (b : ZMod p) ≠ (dr.1 : ZMod p) := by
      intro b hb dr hdr
      rcases List.mem_cons.mp hdr with h1 | h1
      · subst h1; exact (hpw'.1 b hb).symm
      · exact hnew b (List.mem_cons_of_mem _ hb) dr h1
    have hlen' : rs.length = as.length := by simpa using hlen
    obtain ⟨r1, r2, r3, r4⟩ := ih rs prod' a I' ((a, r) :: D) hinv' hlen' hnew' hpw'.2
    refine ⟨fun dr hdr => r1 dr (List.mem_cons_of_mem _ hdr), List.Forall₂.cons (r1 (a, r) (List.mem_cons_self ..)) r2, ?_, r4⟩
    simp only [List.length_cons] at r3 ⊢
    omega

/-- `Poly1CRT::RnsToRing` on the freshly computed reciprocals: value `r_i` at `a_i`, degree `< n`, canonical coefficients -/
theorem polyRnsToRing_spec [Fact p.Prime] {cof : Int → Int → Int} (hcof : CofOK cof) (as rs : List Int)
    (hlen : rs.length = as.length) (hpw : as.Pairwise (fun (a b : Int) => (a : ZMod p) ≠ (b : ZMod p))) :
    List.Forall₂ (fun (a r : Int) => (toP p (polyRnsToRing (p : Int) as (polyComputeCk cof (p : Int) as) rs)).eval (a : ZMod p) = (r : ZMod p)) as rs ∧
    (polyRnsToRing (p : Int) as (polyComputeCk cof (p : Int) as) rs).length ≤ as.length ∧
    CanonCoeffs (p : Int) (polyRnsToRing (p : Int) as (polyComputeCk cof (p : Int) as) rs) := by
  have hq : (0 : Int) < p := by exact_mod_cast (Fact.out : p.Prime).pos
  cases as with
  | nil =>
    have : rs = [] := List.eq_nil_of_length_eq_zero (by simpa using hlen)
    subst this
    simp [polyRnsToRing, polyComputeCk, CanonCoeffs]
  | cons a0 as =>
    cases rs with
    | nil => simp at hlen
    | cons r0 rs =>
    simp only [polyComputeCk, polyRnsToRing]
    have hpw' := List.pairwise_cons.mp hpw
    have hinv : PInv p [1 % (p : Int)] a0 [r0 % (p : Int)] [(a0, r0)] := by
      refine ⟨?_, ?_, ?_, ?_, ?_, ?_⟩
      · intro dr hdr
        simp only [List.mem_singleton] at hdr; subst hdr
        simp [toP, cast_emod]
      · intro dr hdr
        simp only [List.mem_singleton] at hdr; subst hdr
        simp [toP]
      · intro x hx
        have h1 : x ≠ (a0 : ZMod p) := hx (a0, r0) (List.mem_singleton.mpr rfl)
        simp only [toP, cast_emod, eval_mul, eval_add, eval_C, eval_X, eval_sub, eval_zero, mul_zero, add_zero]
        simp only [Int.cast_one, one_mul]
        exact sub_ne_zero.mpr h1
      · simp
      · simp
      · intro c hc
        simp only [List.mem_singleton] at hc; subst hc
        exact ⟨Int.emod_nonneg _ (ne_of_gt hq), Int.emod_lt_of_pos _ hq⟩
    have hnew : ∀ b ∈ as, ∀ dr ∈ [(a0, r0)], (b : ZMod p) ≠ (dr.1 : ZMod p) := by
      intro b hb dr hdr
      simp only [List.mem_singleton] at hdr; subst hdr
      exact (hpw'.1 b hb).symm
    obtain ⟨r1, r2, r3, r4⟩ := polyGarner_spec hcof as rs [1 % (p : Int)] a0 [r0 % (p : Int)] [(a0, r0)] hinv
      (by simpa using hlen) hnew hpw'.2
    refine ⟨List.Forall₂.cons (r1 (a0, r0) (List.mem_singleton.mpr rfl)) r2, ?_, r4⟩
    simp only [List.length_cons, List.length_nil] at r3 ⊢
    omega

/-! ### uniqueness -/

theorem toP_unique [Fact p.Prime] (as : List Int) (hpw : as.Pairwise (fun (a b : Int) => (a : ZMod p) ≠ (b : ZMod p)))
    (P Q : List Int) (hP : P.length ≤ as.length) (hQ : Q.length ≤ as.length)
    (h : ∀ a ∈ as, (toP p P).eval (a : ZMod p) = (toP p Q).eval (a : ZMod p)) : toP p P = toP p Q := by
  classical
  have hnd : (as.map (fun a : Int => (a : ZMod p))).Nodup := by
    rw [List.Nodup, List.pairwise_map]; exact hpw
  have hcard : ((as.map (fun a : Int => (a : ZMod p))).toFinset).card = as.length := by
    rw [List.toFinset_card_of_nodup hnd, List.length_map]
  apply eq_of_degrees_lt_of_eval_finset_eq ((as.map (fun a : Int => (a : ZMod p))).toFinset)
  · rw [hcard]; exact lt_of_lt_of_le (degree_toP_lt P) (by exact_mod_cast hP)
  · rw [hcard]; exact lt_of_lt_of_le (degree_toP_lt Q) (by exact_mod_cast hQ)
  · intro x hx
    simp only [List.mem_toFinset, List.mem_map] at hx
    obtain ⟨a, ha, rfl⟩ := hx
    exact h a ha

theorem getD_emod_eq_of_toP_eq (P Q : List Int) (h : toP p P = toP p Q) (i : ℕ) :
    (P.getD i 0) % (p : Int) = (Q.getD i 0) % (p : Int) := by
  have := congrArg (fun f => f.coeff i) h
  simp only [coeff_toP] at this
  exact (ZMod.intCast_eq_intCast_iff _ _ _).mp this

theorem getD_canon {q : Int} (hq : 0 < q) {P : List Int} (h : CanonCoeffs q P) (i : ℕ) : 0 ≤ P.getD i 0 ∧ P.getD i 0 < q := by
  by_cases hi : i < P.length
  · have : P.getD i 0 = P[i] := by simp [List.getD, hi]
    rw [this]; exact h _ (List.getElem_mem hi)
  · have : P.getD i 0 = 0 := by simp [List.getD, List.getElem?_eq_none (Nat.le_of_not_lt hi)]
    rw [this]; exact ⟨le_refl 0, hq⟩

/-! ### the `Poly1CRT` object: histories, cache invariant -/

/-- every way of obtaining a `Poly1CRT` object (the class has no default constructor that compiles and no assignment) -/
inductive PolyHist
  | mk (q : Int) (as : List Int)      -- `Poly1CRT(F, points, X)`
  | copy (h : PolyHist)               -- copy constructor
  | useCk (h : PolyHist)              -- any call that triggers `ComputeCk` (RnsToRing, Reciprocals, reciprocal)

def PolyHist.eval (cof : Int → Int → Int) : PolyHist → PolySys
  | .mk q as => PolySys.ofPoints q as
  | .copy h => (h.eval cof).copy
  | .useCk h => (h.eval cof).computeCk cof

def PolyGood (cof : Int → Int → Int) (s : PolySys) : Prop :=
  s.ck = [] ∨ s.ck = polyComputeCk cof s.p s.points

theorem PolyGood.computeCk {cof : Int → Int → Int} {s : PolySys} (h : PolyGood cof s) :
    (s.computeCk cof).ck = polyComputeCk cof s.p s.points ∧ (s.computeCk cof).p = s.p ∧
      (s.computeCk cof).points = s.points := by
  unfold PolySys.computeCk
  by_cases hnil : s.ck = []
  · simp [hnil]
  · have h1 := h.resolve_left hnil
    simp [hnil, ← h1]

theorem polyHist_good (cof : Int → Int → Int) : ∀ h : PolyHist, PolyGood cof (h.eval cof) := by
  intro h
  induction h with
  | mk q as => simp [PolyHist.eval, PolySys.ofPoints, PolyGood]
  | copy h ih => simpa [PolyHist.eval, PolySys.copy, PolyGood] using ih
  | useCk h ih =>
    obtain ⟨h1, h2, h3⟩ := ih.computeCk
    refine Or.inr ?_
    simp only [PolyHist.eval]; rw [h1, h2, h3]

theorem PolyGood.answer {cof : Int → Int → Int} {s : PolySys} (h : PolyGood cof s) (rs : List Int) :
    (s.rnsToRing cof rs).2 = polyRnsToRing s.p s.points (polyComputeCk cof s.p s.points) rs := by
  obtain ⟨h1, h2, h3⟩ := h.computeCk
  simp only [PolySys.rnsToRing, h1, h2, h3]

/-- distinct evaluation points, stated on the integers -/
def DistinctMod (q : Int) (as : List Int) : Prop := as.Pairwise (fun a b => a % q ≠ b % q)

theorem DistinctMod.cast {as : List Int} (h : DistinctMod (p : Int) as) :
    as.Pairwise (fun (a b : Int) => (a : ZMod p) ≠ (b : ZMod p)) := by
  refine List.Pairwise.imp ?_ h
  intro a b hab hc
  exact hab ((ZMod.intCast_eq_intCast_iff _ _ _).mp hc)

/-- from the field statement back to the integers: `polyEval` is canonical -/
theorem polyEval_eq_of_cast [Fact p.Prime] (P : List Int) (a r : Int)
    (h : (toP p P).eval (a : ZMod p) = (r : ZMod p)) : polyEval (p : Int) P a = r % (p : Int) := by
  have hq : (0 : Int) < p := by exact_mod_cast (Fact.out : p.Prime).pos
  rw [← eval_toP] at h
  have h1 : polyEval (p : Int) P a % (p : Int) = r % (p : Int) := (ZMod.intCast_eq_intCast_iff _ _ _).mp h
  have hc := polyEval_canon (p : Int) hq P a
  rwa [Int.emod_eq_of_lt hc.1 hc.2] at h1

theorem polyRingToRns_of_forall₂ [Fact p.Prime] (P : List Int) {as rs : List Int}
    (h : List.Forall₂ (fun (a r : Int) => (toP p P).eval (a : ZMod p) = (r : ZMod p)) as rs) :
    polyRingToRns (p : Int) as P = rs.map (fun r => r % (p : Int)) := by
  unfold polyRingToRns
  induction h with
  | nil => rfl
  | cons h1 _ ih => simp only [List.map_cons, ih, polyEval_eq_of_cast P _ _ h1]

/-! ### observable value of a polynomial: coefficient-wise equal lists have the same normal form -/

theorem polyNorm_append_zero (L : List Int) : polyNorm (L ++ [0]) = polyNorm L := by
  simp [polyNorm]

theorem polyNorm_append_replicate (L : List Int) : ∀ k : ℕ, polyNorm (L ++ List.replicate k 0) = polyNorm L
  | 0 => by simp
  | k + 1 => by
    rw [List.replicate_succ', ← List.append_assoc, polyNorm_append_zero, polyNorm_append_replicate L k]

theorem eq_append_replicate_of_getD_eq (P Q : List Int) (hlen : P.length ≤ Q.length)
    (h : ∀ i, P.getD i 0 = Q.getD i 0) : Q = P ++ List.replicate (Q.length - P.length) 0 := by
  apply List.ext_getElem?
  intro i
  have hi := h i
  simp only [List.getD_eq_getElem?_getD] at hi
  by_cases h1 : i < P.length
  · have h2 : i < Q.length := lt_of_lt_of_le h1 hlen
    rw [List.getElem?_append_left h1]
    rw [List.getElem?_eq_getElem h1, List.getElem?_eq_getElem h2] at hi ⊢
    simpa using hi.symm
  · have h1' : P.length ≤ i := Nat.le_of_not_lt h1
    rw [List.getElem?_append_right h1']
    by_cases h2 : i < Q.length
    · rw [List.getElem?_eq_none h1', List.getElem?_eq_getElem h2] at hi
      rw [List.getElem?_eq_getElem h2, List.getElem?_replicate]
      have : i - P.length < Q.length - P.length := by omega
      simp only [this, ↓reduceIte]
      simp at hi
      rw [← hi]
    · have h2' : Q.length ≤ i := Nat.le_of_not_lt h2
      rw [List.getElem?_eq_none h2', List.getElem?_replicate]
      have : ¬ (i - P.length < Q.length - P.length) := by omega
      simp [this]

theorem polyNorm_eq_of_getD_eq (P Q : List Int) (h : ∀ i, P.getD i 0 = Q.getD i 0) : polyNorm P = polyNorm Q := by
  rcases Nat.le_total P.length Q.length with hl | hl
  · rw [eq_append_replicate_of_getD_eq P Q hl h, polyNorm_append_replicate]
  · rw [eq_append_replicate_of_getD_eq Q P hl (fun i => (h i).symm), polyNorm_append_replicate]

end Givaro.Lemmas.CRT
