/- C06 helper lemmas: rushift.h — general shifts by every count; bitwise or/and/xor on values. -/
import GivaroModel.Lemmas.RecIntDivLimb
namespace Givaro.Model.RecInt

theorem Bn_eq_two_pow (n : Nat) : Bn n = 2 ^ bits n := rfl

theorem or_split (k l1 h1 l2 h2 : Nat) (hl1 : l1 < 2 ^ k) (hl2 : l2 < 2 ^ k) :
    (l1 + 2 ^ k * h1) ||| (l2 + 2 ^ k * h2) = (l1 ||| l2) + 2 ^ k * (h1 ||| h2) := by
  have h12 : l1 ||| l2 < 2 ^ k := Nat.or_lt_two_pow hl1 hl2
  rw [Nat.add_comm l1, Nat.add_comm l2, Nat.add_comm (l1 ||| l2),
    Nat.two_pow_add_eq_or_of_lt hl1, Nat.two_pow_add_eq_or_of_lt hl2, Nat.two_pow_add_eq_or_of_lt h12]
  have e : 2 ^ k * (h1 ||| h2) = 2 ^ k * h1 ||| 2 ^ k * h2 := by
    rw [Nat.mul_comm, Nat.mul_comm (2 ^ k) h1, Nat.mul_comm (2 ^ k) h2, ← Nat.shiftLeft_eq, ← Nat.shiftLeft_eq, ← Nat.shiftLeft_eq,
      Nat.shiftLeft_or_distrib]
  rw [e]
  simp only [Nat.or_assoc, Nat.or_comm, Nat.or_left_comm]

/-- `|` on `ruint` is the bitwise or of the values -/
theorem lor_ok : ∀ {n : Nat} (x y : RU n), WF x → WF y → WF (lor x y) ∧ val (lor x y) = val x ||| val y
  | _, .limb a, .limb b, ha, hb => by
      simp only [WF] at ha hb
      have e : B64 = 2 ^ 64 := by norm_num [B64]
      simp only [lor, WF, val]
      rw [e] at *
      exact ⟨Nat.or_lt_two_pow ha hb, trivial⟩
  | _, .node (n := n) l1 h1, .node l2 h2, hx, hy => by
      have il := lor_ok l1 l2 hx.1 hy.1
      have ih := lor_ok h1 h2 hx.2 hy.2
      have b1 := val_lt l1 hx.1
      have b2 := val_lt l2 hy.1
      simp only [lor, WF_node, val_node, il.2, ih.2]
      refine ⟨⟨il.1, ih.1⟩, ?_⟩
      rw [Bn_eq_two_pow] at *
      exact (or_split _ _ _ _ _ b1 b2).symm

theorem val_zero : ∀ (n : Nat), WF (zero n) ∧ val (zero n) = 0
  | 0 => by simp [zero, WF, val, B64]
  | n+1 => by
      have := val_zero n
      simp only [zero, WF_node, val_node, this.2]; exact ⟨⟨this.1, this.1⟩, by simp⟩

/-! ### arithmetic of shifts on two-digit numbers in base 2^h -/
theorem pow_split (h d : Nat) (hd : d ≤ h) : 2 ^ h = 2 ^ (h - d) * 2 ^ d := by
  rw [← pow_add]; congr 1; omega

theorem shl_div (h d x : Nat) (hd : d ≤ h) : x * 2 ^ d / 2 ^ h = x / 2 ^ (h - d) := by
  rw [pow_split h d hd, Nat.mul_div_mul_right _ _ (by positivity)]

theorem shl_mod (h d x : Nat) (hd : d ≤ h) : (x * 2 ^ d) % 2 ^ h = (x % 2 ^ (h - d)) * 2 ^ d := by
  rw [pow_split h d hd, Nat.mul_mod_mul_right]

theorem shl_big (h d x : Nat) (hd : h ≤ d) : (x * 2 ^ d) % 2 ^ h = 0 := by
  have : 2 ^ d = 2 ^ h * 2 ^ (d - h) := by rw [← pow_add]; congr 1; omega
  rw [this, ← Nat.mul_assoc, Nat.mul_comm x, Nat.mul_assoc, Nat.mul_mod_right]

theorem shr_big (h d x : Nat) (hx : x < 2 ^ h) (hd : h ≤ d) : x / 2 ^ d = 0 :=
  Nat.div_eq_of_lt (Nat.lt_of_lt_of_le hx (Nat.pow_le_pow_right (by decide) hd))

theorem or_disjoint (d q m : Nat) (hq : q < 2 ^ d) : q ||| (m * 2 ^ d) = q + m * 2 ^ d := by
  rw [Nat.or_comm, Nat.mul_comm m, ← Nat.two_pow_add_eq_or_of_lt hq, Nat.add_comm]

/-- left shift by `0 < d < h` of `al + 2^h·ah` -/
theorem shl_two (h d al ah : Nat) (hd : d < h) (hal : al < 2 ^ h) :
    ((al + 2 ^ h * ah) * 2 ^ d) % (2 ^ h * 2 ^ h)
      = (al * 2 ^ d) % 2 ^ h + 2 ^ h * ((al / 2 ^ (h - d)) ||| ((ah * 2 ^ d) % 2 ^ h)) ∧
    ((al / 2 ^ (h - d)) ||| ((ah * 2 ^ d) % 2 ^ h)) < 2 ^ h := by
  have hd' : d ≤ h := Nat.le_of_lt hd
  have hq : al / 2 ^ (h - d) < 2 ^ d := by
    apply Nat.div_lt_of_lt_mul; rw [← pow_split h d hd']; exact hal
  rw [shl_mod h d ah hd', or_disjoint d _ _ hq]
  have hm : ah % 2 ^ (h - d) < 2 ^ (h - d) := Nat.mod_lt _ (by positivity)
  have hsum : al / 2 ^ (h - d) + ah % 2 ^ (h - d) * 2 ^ d < 2 ^ h := by
    have : (ah % 2 ^ (h - d) + 1) * 2 ^ d ≤ 2 ^ (h - d) * 2 ^ d := Nat.mul_le_mul_right _ hm
    rw [← pow_split h d hd'] at this
    nlinarith
  refine ⟨?_, hsum⟩
  have hL : (al * 2 ^ d) % 2 ^ h < 2 ^ h := Nat.mod_lt _ (by positivity)
  have e1 := Nat.mod_add_div (al * 2 ^ d) (2 ^ h)
  rw [shl_div h d al hd'] at e1
  have e2 := Nat.mod_add_div (ah * 2 ^ d) (2 ^ h)
  rw [shl_mod h d ah hd'] at e2
  symm
  apply mod_of_add_mul (Q := ah * 2 ^ d / 2 ^ h)
  · generalize (al * 2 ^ d) % 2 ^ h = L at *
    generalize al / 2 ^ (h - d) = q at *
    generalize ah % 2 ^ (h - d) * 2 ^ d = H at *
    generalize ah * 2 ^ d / 2 ^ h = Q at *
    generalize 2 ^ h = B at *
    generalize 2 ^ d = D at *
    linear_combination e1 + B * e2
  · generalize (al * 2 ^ d) % 2 ^ h = L at *
    generalize al / 2 ^ (h - d) + ah % 2 ^ (h - d) * 2 ^ d = S at *
    generalize 2 ^ h = B at *
    have : B * (S + 1) ≤ B * B := Nat.mul_le_mul_left B hsum
    nlinarith

/-- right shift by `0 < d < h` of `al + 2^h·ah` -/
theorem shr_two (h d al ah : Nat) (hd : d < h) (hal : al < 2 ^ h) :
    (al + 2 ^ h * ah) / 2 ^ d = (((ah * 2 ^ (h - d)) % 2 ^ h) ||| (al / 2 ^ d)) + 2 ^ h * (ah / 2 ^ d) ∧
    (((ah * 2 ^ (h - d)) % 2 ^ h) ||| (al / 2 ^ d)) < 2 ^ h := by
  have hd' : d ≤ h := Nat.le_of_lt hd
  have hhd : h - d ≤ h := Nat.sub_le _ _
  have e0 : h - (h - d) = d := by omega
  have hq : al / 2 ^ d < 2 ^ (h - d) := by
    apply Nat.div_lt_of_lt_mul; rw [Nat.mul_comm, ← pow_split h d hd']; exact hal
  rw [shl_mod h (h - d) ah hhd, e0, Nat.or_comm, or_disjoint (h - d) _ _ hq]
  have hm : ah % 2 ^ d < 2 ^ d := Nat.mod_lt _ (by positivity)
  have hsum : al / 2 ^ d + ah % 2 ^ d * 2 ^ (h - d) < 2 ^ h := by
    have : (ah % 2 ^ d + 1) * 2 ^ (h - d) ≤ 2 ^ d * 2 ^ (h - d) := Nat.mul_le_mul_right _ hm
    rw [Nat.mul_comm (2 ^ d), ← pow_split h d hd'] at this
    nlinarith
  refine ⟨?_, hsum⟩
  have e1 : al + 2 ^ h * ah = al + 2 ^ d * (2 ^ (h - d) * ah) := by rw [pow_split h d hd']; ring
  rw [e1, Nat.add_mul_div_left _ _ (by positivity : 0 < 2 ^ d)]
  have e2 := Nat.mod_add_div ah (2 ^ d)
  have e3 : 2 ^ h = 2 ^ (h - d) * 2 ^ d := pow_split h d hd'
  generalize ah % 2 ^ d = m at *
  generalize ah / 2 ^ d = Q at *
  generalize al / 2 ^ d = q at *
  rw [e3]
  generalize 2 ^ (h - d) = E at *
  generalize 2 ^ d = D at *
  subst e2; ring

theorem bits_ge (n : Nat) : 64 ≤ bits n := by
  induction n with
  | zero => exact Nat.le_refl _
  | succ k ih => simp only [bits]; omega

/-- `left_shift(b, a, d)` and `right_shift(b, a, d)` for every count `d` -/
theorem shift_ok : ∀ (n : Nat) (a : RU n) (d : Nat), WF a →
    (WF (left_shift a d) ∧ val (left_shift a d) = (val a * 2 ^ d) % Bn n) ∧
    (WF (right_shift a d) ∧ val (right_shift a d) = val a / 2 ^ d)
  | 0, .limb a, d, ha => by
      simp only [WF] at ha
      have e : B64 = 2 ^ 64 := by norm_num [B64]
      rw [Bn_zero]
      simp only [left_shift, right_shift]
      by_cases h0 : d = 0
      · subst h0; simp only [↓reduceIte, WF, val, pow_zero, Nat.mul_one, Nat.div_one, Nat.mod_eq_of_lt ha]
        exact ⟨⟨ha, trivial⟩, ha, trivial⟩
      · rw [if_neg h0, if_neg h0]
        by_cases h1 : d < 64
        · rw [if_pos h1, if_pos h1]
          simp only [WF, val]
          exact ⟨⟨Nat.mod_lt _ (by decide), trivial⟩, Nat.lt_of_le_of_lt (Nat.div_le_self _ _) ha, trivial⟩
        · rw [if_neg h1, if_neg h1]
          simp only [WF, val]
          rw [e] at ha ⊢
          exact ⟨⟨by positivity, (shl_big 64 d a (by omega)).symm⟩, by positivity, (shr_big 64 d a ha (by omega)).symm⟩
  | n+1, .node al ah, d, ha => by
      have hal := val_lt al ha.1
      have hah := val_lt ah ha.2
      have hz := val_zero n
      have hz1 := val_zero (n+1)
      have hb := bits_ge n
      rw [Bn_eq_two_pow] at hal hah
      simp only [left_shift, right_shift]
      by_cases h0 : d = 0
      · subst h0
        simp only [↓reduceIte, pow_zero, Nat.mul_one, Nat.div_one, Nat.mod_eq_of_lt (val_lt _ ha)]
        exact ⟨⟨ha, trivial⟩, ha, trivial⟩
      · rw [if_neg h0, if_neg h0]
        by_cases h1 : d = 1
        · subst h1
          simp only [↓reduceIte, pow_one]
          have hl := left_shift_1_ok (RU.node al ah) ha
          have hr := right_shift_1_ok (RU.node al ah) ha
          have hc := c2n_le (right_shift_1 (RU.node al ah)).2
          refine ⟨⟨hl.1, ?_⟩, hr.1, by omega⟩
          have hv := val_lt _ hl.1
          rw [Nat.mul_comm, ← hl.2, Nat.add_mul_mod_self_right, Nat.mod_eq_of_lt hv]
        · rw [if_neg h1, if_neg h1]
          by_cases h2 : d > bits (n+1)
          · rw [if_pos h2, if_pos h2, hz1.2]
            have hv := val_lt _ ha
            rw [Bn_eq_two_pow] at hv ⊢
            exact ⟨⟨hz1.1, (shl_big _ d _ (by omega)).symm⟩, hz1.1, (shr_big _ d _ hv (by omega)).symm⟩
          · rw [if_neg h2, if_neg h2]
            simp only [bits] at h2
            by_cases h3 : bits n > d
            · rw [if_pos h3, if_pos h3]
              have i1 := shift_ok n al d ha.1
              have i2 := shift_ok n ah d ha.2
              have i3 := shift_ok n al (bits n - d) ha.1
              have i4 := shift_ok n ah (bits n - d) ha.2
              have o1 := lor_ok _ _ i3.2.1 i2.1.1
              have o2 := lor_ok _ _ i4.1.1 i1.2.1
              have s1 := shl_two (bits n) d (val al) (val ah) h3 hal
              have s2 := shr_two (bits n) d (val al) (val ah) h3 hal
              simp only [WF_node, val_node, Bn_succ, o1.2, o2.2, i1.1.2, i1.2.2, i2.1.2, i2.2.2, i3.2.2, i4.1.2, Bn_eq_two_pow]
              exact ⟨⟨⟨i1.1.1, o1.1⟩, s1.1.symm⟩, ⟨o2.1, i2.2.1⟩, s2.1.symm⟩
            · rw [if_neg h3, if_neg h3]
              by_cases h4 : bits n < d
              · rw [if_pos h4, if_pos h4]
                have i1 := shift_ok n al (d - bits n) ha.1
                have i2 := shift_ok n ah (d - bits n) ha.2
                simp only [WF_node, val_node, Bn_succ, hz.2, i1.1.2, i2.2.2, Bn_eq_two_pow, Nat.zero_add, Nat.mul_zero, Nat.add_zero]
                refine ⟨⟨⟨hz.1, i1.1.1⟩, ?_⟩, ⟨i2.2.1, hz.1⟩, ?_⟩
                · have e : 2 ^ d = 2 ^ bits n * 2 ^ (d - bits n) := by rw [← pow_add]; congr 1; omega
                  rw [e]
                  have : (val al + 2 ^ bits n * val ah) * (2 ^ bits n * 2 ^ (d - bits n))
                      = 2 ^ bits n * (val al * 2 ^ (d - bits n)) + 2 ^ bits n * 2 ^ bits n * (val ah * 2 ^ (d - bits n)) := by ring
                  rw [this, Nat.add_mul_mod_self_left, Nat.mul_mod_mul_left]
                · have e : 2 ^ d = 2 ^ bits n * 2 ^ (d - bits n) := by rw [← pow_add]; congr 1; omega
                  rw [e, ← Nat.div_div_eq_div_mul, Nat.add_mul_div_left _ _ (by positivity : 0 < 2 ^ bits n),
                    Nat.div_eq_of_lt hal, Nat.zero_add]
              · rw [if_neg h4, if_neg h4]
                have hd : d = bits n := by omega
                subst hd
                simp only [WF_node, val_node, Bn_succ, hz.2, Bn_eq_two_pow, Nat.zero_add, Nat.mul_zero, Nat.add_zero]
                refine ⟨⟨⟨hz.1, ha.1⟩, ?_⟩, ⟨ha.2, hz.1⟩, ?_⟩
                · have : (val al + 2 ^ bits n * val ah) * 2 ^ bits n = 2 ^ bits n * val al + 2 ^ bits n * 2 ^ bits n * val ah := by ring
                  rw [this, Nat.add_mul_mod_self_left, Nat.mod_eq_of_lt]
                  exact Nat.mul_lt_mul_of_pos_left hal (by positivity)
                · rw [Nat.add_mul_div_left _ _ (by positivity : 0 < 2 ^ bits n), Nat.div_eq_of_lt hal, Nat.zero_add]

/-- `left_shift(ruint<K+1>& b, const ruint<K>& a, d)`: the double-width shift used by `div` -/
theorem left_shift_x_ok {n : Nat} (a : RU n) (d : Nat) (ha : WF a) :
    WF (left_shift_x a d) ∧ val (left_shift_x a d) = (val a * 2 ^ d) % Bn (n+1) := by
  have hal := val_lt a ha
  have hz := val_zero n
  have hz1 := val_zero (n+1)
  rw [Bn_eq_two_pow] at hal
  unfold left_shift_x
  rw [Bn_succ, Bn_eq_two_pow]
  have hsq : val a < 2 ^ bits n * 2 ^ bits n := by
    have : 0 < 2 ^ bits n := by positivity
    nlinarith
  by_cases h0 : d = 0
  · subst h0
    simp only [↓reduceIte, WF_node, val_node, hz.2, pow_zero, Nat.mul_one, Nat.mul_zero, Nat.add_zero, Nat.mod_eq_of_lt hsq]
    exact ⟨⟨ha, hz.1⟩, trivial⟩
  · rw [if_neg h0]
    by_cases h2 : d > bits (n+1)
    · rw [if_pos h2, hz1.2]
      refine ⟨hz1.1, ?_⟩
      have := shl_big (bits (n+1)) d (val a) (by omega)
      simp only [bits, two_mul, pow_add] at this
      exact this.symm
    · rw [if_neg h2]
      simp only [bits] at h2
      by_cases h3 : bits n > d
      · rw [if_pos h3]
        have i1 := shift_ok n a d ha
        have i3 := shift_ok n a (bits n - d) ha
        simp only [WF_node, val_node, i1.1.2, i3.2.2, Bn_eq_two_pow]
        refine ⟨⟨i1.1.1, i3.2.1⟩, ?_⟩
        have e1 := Nat.mod_add_div (val a * 2 ^ d) (2 ^ bits n)
        rw [shl_div _ _ _ (Nat.le_of_lt h3)] at e1
        rw [e1, Nat.mod_eq_of_lt]
        have : 2 ^ d < 2 ^ bits n := Nat.pow_lt_pow_right (by decide) h3
        nlinarith
      · rw [if_neg h3]
        by_cases h4 : bits n < d
        · rw [if_pos h4]
          have i1 := shift_ok n a (d - bits n) ha
          simp only [WF_node, val_node, hz.2, i1.1.2, Bn_eq_two_pow, Nat.zero_add]
          refine ⟨⟨hz.1, i1.1.1⟩, ?_⟩
          have e : 2 ^ d = 2 ^ bits n * 2 ^ (d - bits n) := by rw [← pow_add]; congr 1; omega
          have e2 : val a * (2 ^ bits n * 2 ^ (d - bits n)) = 2 ^ bits n * (val a * 2 ^ (d - bits n)) := by ring
          rw [e, e2, Nat.mul_mod_mul_left]
        · rw [if_neg h4]
          have hd : d = bits n := by omega
          subst hd
          simp only [WF_node, val_node, hz.2, Nat.zero_add]
          refine ⟨⟨hz.1, ha⟩, ?_⟩
          rw [Nat.mul_comm (val a), Nat.mul_mod_mul_left, Nat.mod_eq_of_lt hal, Bn_eq_two_pow]

end Givaro.Model.RecInt

