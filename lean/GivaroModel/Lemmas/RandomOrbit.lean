/-
C20 — the orbit of GivRandom: the multiplier 950706376 is a primitive root modulo 2^31 - 1, hence from every valid
state the generator reaches the state 1 (and every other state).  This is what makes the `nonzerorandom` loops terminate.

Proof: Lucas' criterion with the multiplier itself as witness (this also *proves* that 2^31 - 1 is prime):
a^(M-1) = 1 and a^((M-1)/q) ≠ 1 for every prime q | M - 1 = 2 · 3² · 7 · 11 · 31 · 151 · 331.
-/
import GivaroModel.Model.Random
import GivaroModel.Lemmas.RandomLemmas
import Mathlib.Tactic.ReduceModChar
import Mathlib.Tactic.NormNum.Prime
import Mathlib.Data.ZMod.Basic
import Mathlib.NumberTheory.LucasPrimality
import Mathlib.GroupTheory.OrderOfElement
import Mathlib.FieldTheory.Finite.Basic
namespace Givaro.Lemmas.Random
open Givaro Givaro.Model.Random

/-- the multiplier, as a residue -/
def givA : ZMod 2147483647 := 950706376

theorem prime_factors_Mm1 (q : ℕ) (hq : q.Prime) (hd : q ∣ 2147483646) :
    q = 2 ∨ q = 3 ∨ q = 7 ∨ q = 11 ∨ q = 31 ∨ q = 151 ∨ q = 331 := by
  have e : 2147483646 = 2 * (3 * (3 * (7 * (11 * (31 * (151 * 331)))))) := by norm_num
  rw [e] at hd
  have p2 : Nat.Prime 2 := by norm_num
  have p3 : Nat.Prime 3 := by norm_num
  have p7 : Nat.Prime 7 := by norm_num
  have p11 : Nat.Prime 11 := by norm_num
  have p31 : Nat.Prime 31 := by norm_num
  have p151 : Nat.Prime 151 := by norm_num
  have p331 : Nat.Prime 331 := by norm_num
  rcases (Nat.Prime.dvd_mul hq).1 hd with h | hd
  · exact Or.inl ((Nat.prime_dvd_prime_iff_eq hq p2).1 h)
  rcases (Nat.Prime.dvd_mul hq).1 hd with h | hd
  · exact Or.inr (Or.inl ((Nat.prime_dvd_prime_iff_eq hq p3).1 h))
  rcases (Nat.Prime.dvd_mul hq).1 hd with h | hd
  · exact Or.inr (Or.inl ((Nat.prime_dvd_prime_iff_eq hq p3).1 h))
  rcases (Nat.Prime.dvd_mul hq).1 hd with h | hd
  · exact Or.inr (Or.inr (Or.inl ((Nat.prime_dvd_prime_iff_eq hq p7).1 h)))
  rcases (Nat.Prime.dvd_mul hq).1 hd with h | hd
  · exact Or.inr (Or.inr (Or.inr (Or.inl ((Nat.prime_dvd_prime_iff_eq hq p11).1 h))))
  rcases (Nat.Prime.dvd_mul hq).1 hd with h | hd
  · exact Or.inr (Or.inr (Or.inr (Or.inr (Or.inl ((Nat.prime_dvd_prime_iff_eq hq p31).1 h)))))
  rcases (Nat.Prime.dvd_mul hq).1 hd with h | h
  · exact Or.inr (Or.inr (Or.inr (Or.inr (Or.inr (Or.inl ((Nat.prime_dvd_prime_iff_eq hq p151).1 h))))))
  · exact Or.inr (Or.inr (Or.inr (Or.inr (Or.inr (Or.inr ((Nat.prime_dvd_prime_iff_eq hq p331).1 h))))))

theorem givA_pow_full : givA ^ 2147483646 = 1 := by unfold givA; reduce_mod_char

theorem givA_pow_div (q : ℕ) (hq : q.Prime) (hd : q ∣ 2147483646) : givA ^ (2147483646 / q) ≠ 1 := by
  unfold givA
  rcases prime_factors_Mm1 q hq hd with rfl | rfl | rfl | rfl | rfl | rfl | rfl
  · rw [show 2147483646 / 2 = 1073741823 by norm_num]; reduce_mod_char; decide
  · rw [show 2147483646 / 3 = 715827882 by norm_num]; reduce_mod_char; decide
  · rw [show 2147483646 / 7 = 306783378 by norm_num]; reduce_mod_char; decide
  · rw [show 2147483646 / 11 = 195225786 by norm_num]; reduce_mod_char; decide
  · rw [show 2147483646 / 31 = 69273666 by norm_num]; reduce_mod_char; decide
  · rw [show 2147483646 / 151 = 14221746 by norm_num]; reduce_mod_char; decide
  · rw [show 2147483646 / 331 = 6487866 by norm_num]; reduce_mod_char; decide

/-- 2^31 - 1 is prime (Lucas, witness = the multiplier of GivRandom) -/
theorem givMod_prime : Nat.Prime 2147483647 :=
  lucas_primality 2147483647 givA (by simpa using givA_pow_full) (by intro q hq hd; simpa using givA_pow_div q hq (by simpa using hd))

instance : Fact (Nat.Prime 2147483647) := ⟨givMod_prime⟩

/-- the multiplier is a primitive root: its order is M - 1 -/
theorem givA_order : orderOf givA = 2147483646 :=
  orderOf_eq_of_pow_and_pow_div_prime (by norm_num) givA_pow_full givA_pow_div

theorem givA_ne_zero : givA ≠ 0 := by
  intro h
  have := givA_pow_full
  rw [h, zero_pow (by norm_num)] at this
  exact zero_ne_one this

/-- every non-zero residue is a power of the multiplier -/
theorem exists_pow_eq (x : ZMod 2147483647) (hx : x ≠ 0) : ∃ k : ℕ, givA ^ k = x := by
  let u : (ZMod 2147483647)ˣ := Units.mk0 givA givA_ne_zero
  let v : (ZMod 2147483647)ˣ := Units.mk0 x hx
  have hu : orderOf u = 2147483646 := by
    rw [← orderOf_units]; exact givA_order
  have hcard : Nat.card (Subgroup.zpowers u) = Nat.card (ZMod 2147483647)ˣ := by
    rw [Nat.card_zpowers, hu, Nat.card_eq_fintype_card, ZMod.card_units]
  have htop := Subgroup.eq_top_of_card_eq _ hcard
  have hv : v ∈ Subgroup.zpowers u := by rw [htop]; exact Subgroup.mem_top v
  rw [← mem_powers_iff_mem_zpowers] at hv
  obtain ⟨k, hk⟩ := (Submonoid.mem_powers_iff v u).1 hv
  refine ⟨k, ?_⟩
  have := congrArg Units.val hk
  simpa [u, v] using this

/-- one step of the generator on a valid state, without the word conversions -/
theorem givNext_eq (s : Int) (h1 : 1 ≤ s) (h2 : s < 2147483647) : givNext s = (950706376 * s) % 2147483647 := by
  have hw : wrapS64 (givMul * wrapS64 s) = 950706376 * s := by unfold givMul wrapS64; omega
  have hr0 := Int.emod_nonneg (950706376 * s) (show (2147483647 : Int) ≠ 0 by decide)
  have hr1 := Int.emod_lt_of_pos (950706376 * s) (show (0 : Int) < 2147483647 by decide)
  unfold givNext
  rw [hw, Int.tmod_eq_emod_of_nonneg (by omega)]
  unfold givMod wrapU64
  generalize 950706376 * s % 2147483647 = r at hr0 hr1 ⊢
  clear hw
  omega

/-- the state after `k` draws is `a^k · s mod M` -/
theorem givIter_eq (k : Nat) : ∀ s : Int, 1 ≤ s → s < 2147483647 → givIter k s = (950706376 ^ k * s) % 2147483647 := by
  induction k with
  | zero => intro s h1 h2; simp only [givIter, pow_zero, one_mul]; exact (Int.emod_eq_of_lt (by omega) h2).symm
  | succ k ih =>
    intro s h1 h2
    have hn := givNext_eq s h1 h2
    have hne := giv_mul_ne_zero s h1 h2
    have hr0 := Int.emod_nonneg (950706376 * s) (show (2147483647 : Int) ≠ 0 by decide)
    have hr1 := Int.emod_lt_of_pos (950706376 * s) (show (0 : Int) < 2147483647 by decide)
    have hr1' : 1 ≤ 950706376 * s % 2147483647 := by
      generalize 950706376 * s % 2147483647 = r at hne hr0
      omega
    simp only [givIter]
    rw [hn, ih _ hr1' hr1, pow_succ, Int.mul_emod, Int.emod_emod_of_dvd _ (dvd_refl _), ← Int.mul_emod]
    congr 1; ring

/-- **the orbit reaches 1**: from every valid state some positive number of draws returns the value 1 -/
theorem giv_reaches_one (s : Int) (h1 : 1 ≤ s) (h2 : s < 2147483647) : ∃ k : Nat, 1 ≤ k ∧ givIter k s = 1 := by
  have hs : ((s : ℤ) : ZMod 2147483647) ≠ 0 := by
    intro h
    rw [ZMod.intCast_zmod_eq_zero_iff_dvd] at h
    obtain ⟨c, hc⟩ := h
    push_cast at hc
    omega
  obtain ⟨k, hk⟩ := exists_pow_eq ((s : ZMod 2147483647))⁻¹ (inv_ne_zero hs)
  refine ⟨k + 2147483646, by omega, ?_⟩
  rw [givIter_eq _ s h1 h2]
  have hz : (((950706376 ^ (k + 2147483646) * s : ℤ)) : ZMod 2147483647) = ((1 : ℤ) : ZMod 2147483647) := by
    push_cast
    have : (950706376 : ZMod 2147483647) = givA := rfl
    rw [this, pow_add, givA_pow_full, mul_one, hk, inv_mul_cancel₀ hs]
  have := (ZMod.intCast_eq_intCast_iff _ _ _).1 hz
  unfold Int.ModEq at this
  push_cast at this
  rw [this]

end Givaro.Lemmas.Random
