/-
C14 — the Garner loop invariant, proved once for a generic digit/reciprocal function and instantiated for
`IntRNSsystem` and `RNSsystem<RING,Domain>`.
-/
import GivaroModel.Lemmas.CRTLemmas

namespace Givaro.Lemmas.CRT
open Givaro.Model.CRT
open Givaro.Spec.CRT (prod mrValue)

/-! ### generic loops (the two concrete models are instances, by `rfl`-style unfolding) -/

def firstOr (acc : List (Int × Int)) (r d : Int) : Int := match acc with | [] => r | _ => d
def ck0 (pre : List Int) (v : Int) : Int := match pre with | [] => 0 | _ => v

def garnerGen (digit : Int → List (Int × Int) → Int → Int → Int) :
    List (Int × Int) → List Int → List Int → List Int → List (Int × Int)
  | acc, p :: ps, c :: cs, r :: rs =>
    garnerGen digit ((p, firstOr acc r (digit p acc c r)) :: acc) ps cs rs
  | acc, _, _, _ => acc

def ckGen (g : Int → List Int → Int) : List Int → List Int → List Int
  | _, [] => []
  | pre, p :: ps => ck0 pre (g p pre) :: ckGen g (pre ++ [p]) ps

theorem intGarnerGo_eq : ∀ (ps : List Int) (acc : List (Int × Int)) (cs rs : List Int),
    intGarnerGo acc ps cs rs = garnerGen (fun p acc c r => ((r - intHorner p acc) * c) % p) acc ps cs rs := by
  intro ps
  induction ps with
  | nil => intro acc cs rs; simp [intGarnerGo, garnerGen]
  | cons p ps ih =>
    intro acc cs rs
    cases cs with
    | nil => simp [intGarnerGo, garnerGen]
    | cons c cs =>
      cases rs with
      | nil => simp [intGarnerGo, garnerGen]
      | cons r rs =>
        simp only [intGarnerGo, garnerGen]
        rw [ih]
        cases acc <;> rfl

theorem rnsGarnerGo_eq : ∀ (ps : List Int) (acc : List (Int × Int)) (cs rs : List Int),
    rnsGarnerGo acc ps cs rs = garnerGen (fun p acc c r => (((r - rnsHorner p acc) % p) * c) % p) acc ps cs rs := by
  intro ps
  induction ps with
  | nil => intro acc cs rs; simp [rnsGarnerGo, garnerGen]
  | cons p ps ih =>
    intro acc cs rs
    cases cs with
    | nil => simp [rnsGarnerGo, garnerGen]
    | cons c cs =>
      cases rs with
      | nil => simp [rnsGarnerGo, garnerGen]
      | cons r rs =>
        simp only [rnsGarnerGo, garnerGen]
        rw [ih]
        cases acc <;> rfl

theorem intCkGo_eq (cof : Int → Int → Int) : ∀ (ps pre : List Int),
    intCkGo cof pre ps = ckGen (fun p pre => cof p (intProdMod p pre)) pre ps := by
  intro ps
  induction ps with
  | nil => intro pre; simp [intCkGo, ckGen]
  | cons p ps ih => intro pre; simp only [intCkGo, ckGen]; rw [ih]; cases pre <;> rfl

theorem rnsCkGo_eq (cof : Int → Int → Int) : ∀ (ps pre : List Int),
    rnsCkGo cof pre ps = ckGen (fun p pre => (cof p (rnsProdMod p pre)) % p) pre ps := by
  intro ps
  induction ps with
  | nil => intro pre; simp [rnsCkGo, ckGen]
  | cons p ps ih => intro pre; simp only [rnsCkGo, ckGen]; rw [ih]; cases pre <;> rfl

/-! ### the invariant -/

def Q (A : List (Int × Int)) (pm : Int × Int) (r : Int) : Prop :=
  pm.1 ∣ accP A ∧ accV A ≡ r [ZMOD pm.1]

structure GInv (acc : List (Int × Int)) (rr : List Int) : Prop where
  cong : List.Forall₂ (Q acc) acc rr
  dig : ∀ pm ∈ acc, 0 ≤ pm.2 ∧ pm.2 < pm.1

theorem GInv.nil : GInv [] [] := ⟨List.Forall₂.nil, by simp⟩

theorem GInv.push {acc : List (Int × Int)} {rr : List Int} (h : GInv acc rr) {p m r : Int}
    (hm : 0 ≤ m ∧ m < p) (hc : accV ((p, m) :: acc) ≡ r [ZMOD p]) : GInv ((p, m) :: acc) (r :: rr) := by
  constructor
  · refine List.Forall₂.cons ⟨?_, hc⟩ ?_
    · simp only [accP]; exact dvd_mul_right _ _
    · refine h.cong.imp ?_
      intro pm r' hq
      obtain ⟨hd, hcg⟩ := hq
      refine ⟨?_, ?_⟩
      · simp only [accP]; exact hd.mul_left _
      · simp only [accV]
        have hz : m * accP acc ≡ 0 [ZMOD pm.1] := Int.modEq_zero_iff_dvd.mpr (hd.mul_left _)
        have := hcg.add hz
        simpa using this
  · intro pm hpm
    rcases List.mem_cons.mp hpm with h1 | h1
    · subst h1; exact hm
    · exact h.dig pm h1

theorem accP_eq_prod : ∀ acc : List (Int × Int), accP acc = prod (acc.reverse.map Prod.fst)
  | [] => by simp [accP, prod]
  | pm :: r => by
    simp only [accP, List.reverse_cons, List.map_append, List.map_cons, List.map_nil, prod_append_singleton]
    rw [← accP_eq_prod r]; ring

theorem garnerGen_spec (digit : Int → List (Int × Int) → Int → Int → Int) (g : Int → List Int → Int)
    (hd : ∀ p acc c r, acc ≠ [] → 0 < p →
      digit p acc c r ≡ (r - accV acc) * c [ZMOD p] ∧ 0 ≤ digit p acc c r ∧ digit p acc c r < p)
    (hg : ∀ p pre, pre ≠ [] → 0 < p → (∀ q ∈ pre, 0 < q) → IsCoprime p (prod pre) →
      g p pre * prod pre ≡ 1 [ZMOD p]) :
    ∀ (ps pre : List Int) (acc : List (Int × Int)) (rs rr : List Int),
      acc.reverse.map Prod.fst = pre →
      List.Forall₂ (fun p r => 0 ≤ r ∧ r < p) ps rs →
      GInv acc rr →
      (∀ p ∈ ps, IsCoprime p (accP acc)) →
      ps.Pairwise IsCoprime →
      GInv (garnerGen digit acc ps (ckGen g pre ps) rs) (rs.reverse ++ rr) ∧
        (garnerGen digit acc ps (ckGen g pre ps) rs).reverse.map Prod.fst = pre ++ ps := by
  intro ps
  induction ps with
  | nil =>
    intro pre acc rs rr hpre hcan hinv _ _
    cases hcan
    simp [garnerGen, hinv, hpre]
  | cons p ps ih =>
    intro pre acc rs rr hpre hcan hinv hco hpw
    cases hcan with
    | cons hr hcan' =>
    rename_i r rs'
    have hp : 0 < p := lt_of_le_of_lt hr.1 hr.2
    simp only [ckGen, garnerGen]
    -- the new digit
    have key : ∀ m, m = firstOr acc r (digit p acc (ck0 pre (g p pre)) r) →
        (0 ≤ m ∧ m < p) ∧ accV ((p, m) :: acc) ≡ r [ZMOD p] := by
      intro m hm
      cases acc with
      | nil =>
        simp only [firstOr] at hm
        subst hm
        refine ⟨hr, ?_⟩
        simp [accV, accP]
      | cons pm0 acc0 =>
        have hne : pm0 :: acc0 ≠ [] := by simp
        have hpre_ne : pre ≠ [] := by
          rw [← hpre]; simp
        have hgp : ck0 pre (g p pre) = g p pre := by
          cases pre with
          | nil => exact absurd rfl hpre_ne
          | cons _ _ => rfl
        rw [hgp] at hm
        simp only [firstOr] at hm
        obtain ⟨h1, h2, h3⟩ := hd p (pm0 :: acc0) (g p pre) r hne hp
        rw [← hm] at h1 h2 h3
        refine ⟨⟨h2, h3⟩, ?_⟩
        have hposq : ∀ q ∈ pre, 0 < q := by
          intro q hq
          rw [← hpre] at hq
          obtain ⟨pm, hpm, rfl⟩ := List.mem_map.mp hq
          have := hinv.dig pm (List.mem_reverse.mp hpm)
          exact lt_of_le_of_lt this.1 this.2
        have hcop : IsCoprime p (prod pre) := by
          rw [← hpre, ← accP_eq_prod]; exact hco p (List.mem_cons_self ..)
        have hinvc := hg p pre hpre_ne hp hposq hcop
        have hPP : prod pre = accP (pm0 :: acc0) := by rw [← hpre, ← accP_eq_prod]
        rw [hPP] at hinvc
        have := garner_step (p := p) (r := r) (H := accV (pm0 :: acc0)) (V := accV (pm0 :: acc0))
          (c := g p pre) (x := accP (pm0 :: acc0)) (P := accP (pm0 :: acc0)) (m' := m)
          h1 (Int.ModEq.refl _) (Int.ModEq.refl _) hinvc
        simpa [accV] using this
    obtain ⟨hmb, hmc⟩ := key _ rfl
    have hinv' := hinv.push hmb hmc
    have hpre' : ((p, firstOr acc r (digit p acc (ck0 pre (g p pre)) r)) :: acc).reverse.map Prod.fst
        = pre ++ [p] := by
      simp [hpre]
    have hpw' := List.pairwise_cons.mp hpw
    have hco' : ∀ q ∈ ps, IsCoprime q (accP ((p, firstOr acc r (digit p acc (ck0 pre (g p pre)) r)) :: acc)) := by
      intro q hq
      simp only [accP]
      exact IsCoprime.mul_right (hpw'.1 q hq).symm (hco q (List.mem_cons_of_mem _ hq))
    have := ih (pre ++ [p]) _ rs' (r :: rr) hpre' hcan' hinv' hco' hpw'.2
    simpa [List.reverse_cons, List.append_assoc] using this

end Givaro.Lemmas.CRT
