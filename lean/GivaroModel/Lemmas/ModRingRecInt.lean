/-
C03, RecInt-backed rings: for every level (`n = 2^K` bits, any `n ≥ 64` even) and every modulus up to the
`maxCardinality()` of the instantiation, no intermediate of the bodies of modular-ruint.inl wraps modulo
`2^n`, and the `inv_mod` loop of ruinvmod.h keeps `a·b ≡ a2`, `x·b ≡ b2 (mod c)` with `a, x ∈ [0,c)`
(its carry-out test makes it correct for every `c < 2^n`).
-/
import GivaroModel.Model.ModRingRecInt
import GivaroModel.Lemmas.ModRingFloat
namespace Givaro.Model.ModRing
open Givaro.Spec.ModRing

theorem wrapUw_id {w : Nat} {x : Int} (h0 : 0 ≤ x) (h1 : x < (2 : Int) ^ w) : wrapUw w x = x :=
  Int.emod_eq_of_lt h0 h1

theorem two_pow_pred {w : Nat} (hw : 1 ≤ w) : (2 : Int) ^ w = 2 * (2 : Int) ^ (w - 1) := by
  conv_lhs => rw [show w = (w - 1) + 1 by omega]
  rw [pow_succ]; ring

theorem wrapSw_id {w : Nat} {x : Int} (hw : 1 ≤ w) (h0 : -((2 : Int) ^ (w - 1)) ≤ x) (h1 : x < (2 : Int) ^ (w - 1)) :
    wrapSw w x = x := by
  unfold wrapSw
  have := two_pow_pred hw
  rw [Int.emod_eq_of_lt (by omega) (by omega)]; omega

/-- what the bodies need: nothing below these bounds is changed by a store into the element / wide type -/
structure ROk (k : RCfg) (p : Int) : Prop where
  p2 : 2 ≤ p
  w_id : ∀ x, 0 ≤ x → x < (if k.wide then 2 * p else p * p) → k.w x = x
  w2_id : ∀ x, 0 ≤ x → x < p * p → k.w2 x = x
  pn : p < (2 : Int) ^ k.n
  w_neg : ∀ x, -p ≤ x → x < 0 → k.sg = true → k.w x = x

theorem rok_of_valid (k : RCfg) (hv : k.valid) (p : Int) (hp : 2 ≤ p) (hm : p ≤ k.maxCard) : ROk k p := by
  obtain ⟨n, sg, wide⟩ := k
  obtain ⟨hn, he, hws⟩ := hv
  simp only at hn he hws
  have hpos : ∀ m : Nat, (0 : Int) < (2 : Int) ^ m := fun m => by positivity
  have h2n : (2 : Int) ^ (2 * n) = (2 : Int) ^ n * (2 : Int) ^ n := by rw [two_mul, pow_add]
  have hnn : (2 : Int) ^ n = (2 : Int) ^ (n / 2) * (2 : Int) ^ (n / 2) := by
    rw [← pow_add]; congr 1; omega
  have hn1 := two_pow_pred (show 1 ≤ n by omega)
  cases wide
  · -- same-width
    cases sg
    · -- ruint: p ≤ 2^(n/2)
      simp only [RCfg.maxCard, Bool.false_eq_true, if_false] at hm
      have hpp : p * p ≤ (2 : Int) ^ n := by rw [hnn]; nlinarith [hpos (n / 2)]
      refine ⟨hp, ?_, ?_, ?_, ?_⟩
      · intro x h0 h1
        simp only [Bool.false_eq_true, if_false] at h1
        simp only [RCfg.w, Bool.false_eq_true, if_false]
        exact wrapUw_id h0 (by omega)
      · intro x h0 h1
        simp only [RCfg.w2]
        exact wrapUw_id h0 (by rw [h2n]; nlinarith [hpos n])
      · nlinarith [hpos n]
      · intro x _ _ h; exact absurd h (by simp)
    · -- rint: p ≤ 3037000499 · 2^(n/2-32), so p² < 2^(n-1)
      simp only [RCfg.maxCard, Bool.false_eq_true, if_false, if_true] at hm
      have hh : (2 : Int) ^ (n - 1) = (2 : Int) ^ 63 * ((2 : Int) ^ (n / 2 - 32) * (2 : Int) ^ (n / 2 - 32)) := by
        rw [← pow_add, ← pow_add]; congr 1; omega
      have hpp : p * p < (2 : Int) ^ (n - 1) := by
        rw [hh]
        have h1 := hpos (n / 2 - 32)
        have h2 : p * p ≤ (3037000499 * (2 : Int) ^ (n / 2 - 32)) * (3037000499 * (2 : Int) ^ (n / 2 - 32)) := by nlinarith
        have h3 : (3037000499 * (2 : Int) ^ (n / 2 - 32)) * (3037000499 * (2 : Int) ^ (n / 2 - 32))
            = 9223372030926249001 * ((2 : Int) ^ (n / 2 - 32) * (2 : Int) ^ (n / 2 - 32)) := by ring
        have h4 : (0 : Int) < (2 : Int) ^ (n / 2 - 32) * (2 : Int) ^ (n / 2 - 32) := Int.mul_pos h1 h1
        norm_num at h2 h3 ⊢
        nlinarith
      refine ⟨hp, ?_, ?_, ?_, ?_⟩
      · intro x h0 h1
        simp only [Bool.false_eq_true, if_false] at h1
        simp only [RCfg.w, if_true]
        exact wrapSw_id (by omega) (by have := hpos (n - 1); omega) (by omega)
      · intro x h0 h1
        simp only [RCfg.w2]
        exact wrapUw_id h0 (by rw [h2n]; nlinarith [hpos n, hpos (n - 1)])
      · nlinarith [hpos n, hpos (n - 1)]
      · intro x h0 h1 _
        simp only [RCfg.w, if_true]
        have hpb : p < (2 : Int) ^ (n - 1) := by nlinarith [hpos (n - 1)]
        exact wrapSw_id (by omega) (by omega) (by omega)
  · -- ruint with the wide compute type: p ≤ 2^(n-1)
    have hsg : sg = false := hws rfl
    subst hsg
    simp only [RCfg.maxCard, if_true] at hm
    refine ⟨hp, ?_, ?_, ?_, ?_⟩
    · intro x h0 h1
      simp only [if_true] at h1
      simp only [RCfg.w, Bool.false_eq_true, if_false]
      exact wrapUw_id h0 (by omega)
    · intro x h0 h1
      simp only [RCfg.w2]
      exact wrapUw_id h0 (by rw [h2n]; nlinarith [hpos n, hpos (n - 1)])
    · show p < (2 : Int) ^ n
      have := hpos (n - 1); omega
    · intro x _ _ h; exact absurd h (by simp)

section ops
variable {k : RCfg} {p a b c : Int}

/-- the single-store identity used everywhere: any value in `[0, 2p-2]` (and `p` itself) is unchanged -/
theorem ROk.small (ok : ROk k p) {x : Int} (h0 : 0 ≤ x) (h1 : x ≤ 2 * p - 2) : k.w x = x := by
  apply ok.w_id x h0
  have := ok.p2
  split
  · omega
  · nlinarith

theorem ROk.wp (ok : ROk k p) {x : Int} (h0 : 0 ≤ x) (h1 : x ≤ p) : k.w x = x := by
  apply ok.w_id x h0
  have := ok.p2
  split
  · omega
  · nlinarith

theorem rmul_model (ok : ROk k p) (ha : 0 ≤ a ∧ a < p) (hb : 0 ≤ b ∧ b < p) : k.mul p a b = (a * b) % p := by
  have hp := ok.p2
  have hab := mul_lt_sq hp ha hb
  have hsq : (p - 1) * (p - 1) < p * p := by nlinarith
  have h0 := Int.emod_nonneg (a * b) (by omega : p ≠ 0)
  have h1 := Int.emod_lt_of_pos (a * b) (by omega : 0 < p)
  unfold RCfg.mul RCfg.modn
  split
  · next hw =>
    rw [ok.w2_id _ hab.1 (by omega)]
    exact ok.wp h0 (by omega)
  · next hw =>
    rw [ok.w_id (a * b) hab.1 (by rw [if_neg hw]; omega)]
    exact ok.wp h0 (by omega)

theorem radd_model (ok : ROk k p) (ha : 0 ≤ a ∧ a < p) (hb : 0 ≤ b ∧ b < p) : k.add p a b = (a + b) % p := by
  have hp := ok.p2
  have e : (a + b) % p = if a + b < p then a + b else a + b - p := by
    split
    · exact Int.emod_eq_of_lt (by omega) (by omega)
    · rw [← Int.sub_emod_right]; exact Int.emod_eq_of_lt (by omega) (by omega)
  unfold RCfg.add
  simp only
  rw [ok.small (by omega : 0 ≤ a + b) (by omega), e]
  split
  · rw [if_neg (by omega)]; exact ok.small (by omega) (by omega)
  · rw [if_pos (by omega)]

theorem rsub_model (ok : ROk k p) (ha : 0 ≤ a ∧ a < p) (hb : 0 ≤ b ∧ b < p) : k.sub p a b = (a - b) % p := by
  have hp := ok.p2
  have e : (a - b) % p = if a < b then p - b + a else a - b := by
    split
    · rw [← Int.add_emod_right]
      have : a - b + p = p - b + a := by ring
      rw [this]; exact Int.emod_eq_of_lt (by omega) (by omega)
    · exact Int.emod_eq_of_lt (by omega) (by omega)
  unfold RCfg.sub
  rw [e]
  split
  · rw [ok.wp (by omega : 0 ≤ b - a) (by omega)]
    have : p - (b - a) = p - b + a := by ring
    rw [this]; exact ok.small (by omega) (by omega)
  · exact ok.small (by omega) (by omega)

theorem rsubin_model (ok : ROk k p) (ha : 0 ≤ a ∧ a < p) (hb : 0 ≤ b ∧ b < p) : k.subin p a b = (a - b) % p := by
  have hp := ok.p2
  have e : (a - b) % p = if a < b then a + (p - b) else a - b := by
    split
    · rw [← Int.add_emod_right]
      have : a - b + p = a + (p - b) := by ring
      rw [this]; exact Int.emod_eq_of_lt (by omega) (by omega)
    · exact Int.emod_eq_of_lt (by omega) (by omega)
  unfold RCfg.subin
  rw [e]
  split
  · rw [ok.wp (by omega : 0 ≤ p - b) (by omega)]; exact ok.small (by omega) (by omega)
  · exact ok.small (by omega) (by omega)

theorem rneg_model (ok : ROk k p) (ha : 0 ≤ a ∧ a < p) : k.neg p a = (-a) % p := by
  have hp := ok.p2
  unfold RCfg.neg
  rw [neg_emod_eq a p (by omega), Int.emod_eq_of_lt ha.1 ha.2]
  split
  · rfl
  · exact ok.wp (by omega) (by omega)

theorem raxpy_model (ok : ROk k p) (ha : 0 ≤ a ∧ a < p) (hb : 0 ≤ b ∧ b < p) (hc : 0 ≤ c ∧ c < p) :
    k.axpy p a b c = (a * b + c) % p := by
  have hp := ok.p2
  have hab := mul_lt_sq hp ha hb
  have hsq : (p - 1) * (p - 1) + p ≤ p * p := by nlinarith
  have h0 := Int.emod_nonneg (a * b) (by omega : p ≠ 0)
  have h1 := Int.emod_lt_of_pos (a * b) (by omega : 0 < p)
  unfold RCfg.axpy
  split
  · next hw =>
    simp only
    rw [rmul_model ok ha hb, ok.small (by omega : 0 ≤ a * b % p + c) (by omega)]
    have e : (a * b + c) % p = ((a * b) % p + c) % p := by rw [Int.emod_add_emod]
    have e2 : ((a * b) % p + c) % p = if (a * b) % p + c < p then (a * b) % p + c else (a * b) % p + c - p := by
      split
      · exact Int.emod_eq_of_lt (by omega) (by omega)
      · rw [← Int.sub_emod_right]; exact Int.emod_eq_of_lt (by omega) (by omega)
    rw [e, e2]
    split
    · rw [if_neg (by omega)]; exact ok.small (by omega) (by omega)
    · rw [if_pos (by omega)]
  · next hw =>
    unfold RCfg.modn
    rw [ok.wp hc.1 (by omega), ok.w_id (c + a * b) (by omega) (by rw [if_neg hw]; omega), Int.add_comm c]
    exact ok.wp (Int.emod_nonneg _ (by omega)) (Int.le_of_lt (Int.emod_lt_of_pos _ (by omega)))

theorem raxpyin_model (ok : ROk k p) (hc : 0 ≤ c ∧ c < p) (ha : 0 ≤ a ∧ a < p) (hb : 0 ≤ b ∧ b < p) :
    k.axpyin p c a b = (a * b + c) % p := by
  have hp := ok.p2
  have hab := mul_lt_sq hp ha hb
  have hsq : (p - 1) * (p - 1) + p ≤ p * p := by nlinarith
  unfold RCfg.axpyin
  split
  · exact raxpy_model ok ha hb hc
  · next hw =>
    unfold RCfg.modn
    rw [ok.w_id (c + a * b) (by omega) (by rw [if_neg hw]; omega), Int.add_comm c]
    exact ok.wp (Int.emod_nonneg _ (by omega)) (Int.le_of_lt (Int.emod_lt_of_pos _ (by omega)))

theorem rmaxpy_model (ok : ROk k p) (ha : 0 ≤ a ∧ a < p) (hb : 0 ≤ b ∧ b < p) (hc : 0 ≤ c ∧ c < p) :
    k.maxpy p a b c = (c - a * b) % p := by
  have hp := ok.p2
  unfold RCfg.maxpy
  rw [rmul_model ok ha hb,
    rsub_model ok hc ⟨Int.emod_nonneg _ (by omega), Int.emod_lt_of_pos _ (by omega)⟩, Int.sub_emod, Int.emod_emod_of_dvd _ (Int.dvd_refl p), ← Int.sub_emod]

theorem raxmy_model (ok : ROk k p) (ha : 0 ≤ a ∧ a < p) (hb : 0 ≤ b ∧ b < p) (hc : 0 ≤ c ∧ c < p) :
    k.axmy p a b c = (a * b - c) % p := by
  have hp := ok.p2
  unfold RCfg.axmy
  rw [rmul_model ok ha hb,
    rsub_model ok ⟨Int.emod_nonneg _ (by omega), Int.emod_lt_of_pos _ (by omega)⟩ hc, Int.sub_emod, Int.emod_emod_of_dvd _ (Int.dvd_refl p), ← Int.sub_emod]

theorem rmaxpyin_model (ok : ROk k p) (hc : 0 ≤ c ∧ c < p) (ha : 0 ≤ a ∧ a < p) (hb : 0 ≤ b ∧ b < p) :
    k.maxpyin p c a b = (c - a * b) % p := by
  have hp := ok.p2
  have hab := mul_lt_sq hp ha hb
  have hsq : (p - 1) * (p - 1) + p < p * p := by nlinarith
  have h0 := Int.emod_nonneg (a * b) (by omega : p ≠ 0)
  have h1 := Int.emod_lt_of_pos (a * b) (by omega : 0 < p)
  unfold RCfg.maxpyin
  split
  · next hw =>
    simp only
    rw [rmul_model ok ha hb]
    have e : (c - a * b) % p = (c - (a * b) % p) % p := by
      rw [Int.sub_emod, Int.sub_emod c, Int.emod_emod_of_dvd _ (Int.dvd_refl p)]
    have e2 : (c - (a * b) % p) % p = if c < (a * b) % p then c + (p - (a * b) % p) else c - (a * b) % p := by
      split
      · rw [← Int.add_emod_right]
        have : c - a * b % p + p = c + (p - a * b % p) := by ring
        rw [this]; exact Int.emod_eq_of_lt (by omega) (by omega)
      · exact Int.emod_eq_of_lt (by omega) (by omega)
    rw [e, e2]
    split
    · rw [ok.wp (by omega : 0 ≤ p - a * b % p) (by omega)]; exact ok.small (by omega) (by omega)
    · exact ok.small (by omega) (by omega)
  · next hw =>
    unfold RCfg.modn
    have hn := rneg_model ok hc
    have hn0 := Int.emod_nonneg (-c) (by omega : p ≠ 0)
    have hn1 := Int.emod_lt_of_pos (-c) (by omega : 0 < p)
    rw [hn, ok.w_id (a * b) hab.1 (by rw [if_neg hw]; omega), ok.w_id ((-c) % p + a * b) (by omega) (by rw [if_neg hw]; omega)]
    have hm0 := Int.emod_nonneg ((-c) % p + a * b) (by omega : p ≠ 0)
    have hm1 := Int.emod_lt_of_pos ((-c) % p + a * b) (by omega : 0 < p)
    rw [ok.wp hm0 (by omega), rneg_model ok ⟨hm0, hm1⟩]
    have d1 := Int.emod_def (-c) p
    have d2 := Int.emod_def ((-c) % p + a * b) p
    apply Int.emod_eq_emod_iff_emod_sub_eq_zero.2
    apply Int.emod_eq_zero_of_dvd
    refine ⟨(-c) / p + ((-c) % p + a * b) / p, ?_⟩
    rw [d2]
    generalize ((-c) % p + a * b) / p = q2
    rw [d1]; ring

end ops

/-! ### `inv_mod` (ruinvmod.h) -/

structure RInvInv (p b : Int) (st : RCfg.RInv) : Prop where
  a0 : 0 ≤ st.a
  a1 : st.a < p
  x0 : 0 ≤ st.x
  x1 : st.x < p
  a2n : 0 ≤ st.a2
  a2p : st.a2 ≤ p
  b2n : 0 ≤ st.b2
  b2p : st.b2 ≤ p
  ca : p ∣ st.a * b - st.a2
  cx : p ∣ st.x * b - st.b2
  dv : ∀ g : Int, (g ∣ st.a2 ∧ g ∣ st.b2) ↔ (g ∣ b ∧ g ∣ p)

/-- `temp + a` with carry-out, then the conditional subtraction: the sum modulo `c`, for every `c < 2^n` -/
theorem carry_sub {N p t a : Int} (hN : p < N) (hp : 0 < p) (ht : 0 ≤ t ∧ t < p) (ha : 0 ≤ a ∧ a < p) :
    (if decide (t + a ≥ N) = true ∨ (t + a) % N ≥ p then ((t + a) % N - p) % N else (t + a) % N) = (t + a) % p := by
  have e : (t + a) % p = if t + a < p then t + a else t + a - p := by
    split
    · exact Int.emod_eq_of_lt (by omega) (by omega)
    · rw [← Int.sub_emod_right]; exact Int.emod_eq_of_lt (by omega) (by omega)
  rw [e]
  by_cases hc : t + a ≥ N
  · have h1 : (t + a) % N = t + a - N := emod_unique (by omega) (by omega) 1 (by ring)
    rw [h1, if_pos (Or.inl (by simpa using hc)), if_neg (by omega)]
    exact emod_unique (by omega) (by omega) (-1) (by ring)
  · have h1 : (t + a) % N = t + a := Int.emod_eq_of_lt (by omega) (by omega)
    rw [h1]
    by_cases h2 : t + a ≥ p
    · rw [if_pos (Or.inr h2), if_neg (by omega)]
      exact Int.emod_eq_of_lt (by omega) (by omega)
    · rw [if_neg (by simp only [decide_eq_true_eq]; omega), if_pos (by omega)]

theorem carry_sub' {n : Nat} {p t a : Int} (hN : p < (2 : Int) ^ n) (hp : 0 < p) (ht : 0 ≤ t ∧ t < p) (ha : 0 ≤ a ∧ a < p) :
    (if decide (t + a ≥ (2 : Int) ^ n) = true ∨ wrapUw n (t + a) ≥ p then wrapUw n (wrapUw n (t + a) - p) else wrapUw n (t + a))
      = (t + a) % p := by
  unfold wrapUw
  exact carry_sub hN hp ht ha

theorem rinv_step {k : RCfg} {p b : Int} (ok : ROk k p) {st : RCfg.RInv} (h : RInvInv p b st) (hz : st.b2 ≠ 0) :
    RInvInv p b (k.invStep p st) ∧ (k.invStep p st).b2 = st.a2 % st.b2 ∧ (k.invStep p st).b2 < st.b2 := by
  have hp := ok.p2
  have hb2 : 0 < st.b2 := by have := h.b2n; omega
  have hq0 : 0 ≤ st.a2 / st.b2 := Int.ediv_nonneg h.a2n h.b2n
  have hqa : st.a2 / st.b2 ≤ st.a2 := Int.ediv_le_self _ h.a2n
  have hm0 := Int.emod_nonneg st.a2 hz
  have hm1 := Int.emod_lt_of_pos st.a2 hb2
  have hdef := Int.emod_def st.a2 st.b2
  have ha0 := h.a0; have ha1 := h.a1; have hx0 := h.x0; have hx1 := h.x1
  have ha2p := h.a2p; have hb2p := h.b2p
  have hca := h.ca; have hcx := h.cx; have hdv := h.dv
  have hN := ok.pn
  generalize hq : st.a2 / st.b2 = q at *
  generalize hr : st.a2 % st.b2 = r at *
  have hqx0 : 0 ≤ q * st.x := Int.mul_nonneg hq0 hx0
  have hqx1 : q * st.x < p * p := by nlinarith
  have ht0 := Int.emod_nonneg (q * st.x) (by omega : p ≠ 0)
  have ht1 := Int.emod_lt_of_pos (q * st.x) (by omega : 0 < p)
  -- the new cofactor is (a - q x) mod p
  have hnew : (k.invStep p st) = ⟨st.x, (st.a - q * st.x) % p, st.b2, r⟩ := by
    unfold RCfg.invStep RCfg.modn
    simp only [hq, hr]
    rw [ok.w2_id _ hqx0 hqx1]
    have ht1' : (if (q * st.x) % p ≠ 0 then wrapUw k.n (p - (q * st.x) % p) else (q * st.x) % p) = (-(q * st.x)) % p := by
      rw [neg_emod_eq _ p (by omega)]
      by_cases hne : (q * st.x) % p = 0
      · rw [if_neg (by simpa using hne), if_pos hne, hne]
      · rw [if_pos hne, if_neg hne]; exact wrapUw_id (by omega) (by omega)
    rw [ht1']
    have hu0 := Int.emod_nonneg (-(q * st.x)) (by omega : p ≠ 0)
    have hu1 := Int.emod_lt_of_pos (-(q * st.x)) (by omega : 0 < p)
    have := carry_sub' (n := k.n) hN (by omega) ⟨hu0, hu1⟩ ⟨ha0, ha1⟩
    rw [this, Int.emod_add_emod]
    congr 2
    ring_nf
  rw [hnew]
  have hc0 := Int.emod_nonneg (st.a - q * st.x) (by omega : p ≠ 0)
  have hc1 := Int.emod_lt_of_pos (st.a - q * st.x) (by omega : 0 < p)
  refine ⟨⟨hx0, hx1, hc0, hc1, h.b2n, hb2p, hm0, by show r ≤ p; omega, hcx, ?_, ?_⟩, rfl, hm1⟩
  · show p ∣ (st.a - q * st.x) % p * b - r
    have e : (st.a - q * st.x) % p * b - r
        = (st.a * b - st.a2) - q * (st.x * b - st.b2) - p * ((st.a - q * st.x) / p) * b := by
      rw [Int.emod_def (st.a - q * st.x) p, hdef]; ring
    rw [e]
    exact Int.dvd_sub (Int.dvd_sub hca (Dvd.dvd.mul_left hcx _)) (Dvd.dvd.mul_right (Int.dvd_mul_right _ _) _)
  · intro g
    show (g ∣ st.b2 ∧ g ∣ r) ↔ _
    rw [← hdv g]
    constructor
    · rintro ⟨h1, h2⟩
      refine ⟨?_, h1⟩
      have : st.a2 = r + st.b2 * q := by omega
      rw [this]; exact Int.dvd_add h2 (Dvd.dvd.mul_right h1 _)
    · rintro ⟨h1, h2⟩
      refine ⟨h2, ?_⟩
      rw [hdef]; exact Int.dvd_sub h1 (Dvd.dvd.mul_right h2 _)

theorem rinv_loop {k : RCfg} {p b : Int} (ok : ROk k p) :
    ∀ (fuel : Nat) (st : RCfg.RInv), RInvInv p b st → st.b2 < fuel →
      RInvInv p b (k.invLoop p fuel st) ∧ (k.invLoop p fuel st).b2 = 0 := by
  intro fuel
  induction fuel with
  | zero => intro st h hf; have := h.b2n; omega
  | succ n ih =>
    intro st h hf
    unfold RCfg.invLoop
    split
    · next hz => exact ⟨h, hz⟩
    · next hz =>
      obtain ⟨h', _, hlt⟩ := rinv_step ok h hz
      exact ih _ h' (by push_cast at hf; omega)

/-- `inv_mod(r, b, p)` for `0 ≤ b < p`: the result is canonical and `r·b ≡ gcd(b,p) (mod p)` -/
theorem rinv_spec {k : RCfg} {p b : Int} (ok : ROk k p) (hb : 0 ≤ b ∧ b < p) :
    0 ≤ k.inv p b ∧ k.inv p b < p ∧ p ∣ k.inv p b * b - (Int.gcd b p : Int) := by
  have hp := ok.p2
  have h0 : RInvInv p b ⟨1, 0, b, p⟩ :=
    ⟨by show (0 : Int) ≤ 1; omega, by show (1 : Int) < p; omega, Int.le_refl _, by show (0 : Int) < p; omega, hb.1, by show b ≤ p; omega,
      by show (0 : Int) ≤ p; omega, Int.le_refl _, by simp, by simp, fun g => Iff.rfl⟩
  have hz : (⟨1, 0, b, p⟩ : RCfg.RInv).b2 ≠ 0 := by show p ≠ 0; omega
  obtain ⟨h1, hb2, _⟩ := rinv_step ok h0 hz
  have hb2' : (k.invStep p ⟨1, 0, b, p⟩).b2 = b := by rw [hb2]; exact Int.emod_eq_of_lt hb.1 hb.2
  have hfuel : (k.invStep p ⟨1, 0, b, p⟩).b2 < ((b.natAbs + 1 : Nat) : Int) := by
    rw [hb2']; have := hb.1; omega
  obtain ⟨hI, hzero⟩ := rinv_loop ok (b.natAbs + 1) _ h1 hfuel
  have hunf : k.inv p b = (k.invLoop p (b.natAbs + 1) (k.invStep p ⟨1, 0, b, p⟩)).a := by
    unfold RCfg.inv
    have : b.natAbs + 2 = (b.natAbs + 1) + 1 := rfl
    rw [this]
    conv_lhs => unfold RCfg.invLoop
    rw [if_neg hz]
  rw [hunf]
  generalize k.invLoop p (b.natAbs + 1) (k.invStep p ⟨1, 0, b, p⟩) = st at hI hzero
  have ha2 : 0 ≤ st.a2 := hI.a2n
  have hd : st.a2 = (Int.gcd b p : Int) := by
    apply Int.gcd_greatest ha2
    · exact ((hI.dv st.a2).1 ⟨Int.dvd_refl _, by rw [hzero]; exact Int.dvd_zero _⟩).1
    · exact ((hI.dv st.a2).1 ⟨Int.dvd_refl _, by rw [hzero]; exact Int.dvd_zero _⟩).2
    · intro e h1 h2; exact ((hI.dv e).2 ⟨h1, h2⟩).1
  refine ⟨hI.a0, hI.a1, ?_⟩
  rw [← hd]; exact hI.ca

/-- the generic `extended_euclid<Element>` instantiated with a RecInt element type never wraps -/
theorem reok {k : RCfg} {p : Int} (ok : ROk k p) (hv : k.valid) : EOk k.asI (k.asI.toE p) := by
  have hp := ok.p2
  have hE : ∀ x, 0 ≤ x → x ≤ p → k.asI.toE x = x := fun x h0 h1 => by
    have := ok.wp h0 h1
    unfold RCfg.w at this
    show (if k.sg = true then wrapSw k.n x else wrapUw k.n x) = x
    exact this
  rw [hE p (by omega) (Int.le_refl _)]
  refine ⟨hE, ?_⟩
  intro x h0 h1
  have hn : ¬ k.asI.s < 32 := by have := hv.1; simp [RCfg.asI]; omega
  simp only [ICfg.arE, if_neg hn]
  exact hE x h0 h1

end Givaro.Model.ModRing

