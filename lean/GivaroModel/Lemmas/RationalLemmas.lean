/-
C10 — helper lemmas about the model of Model/Rational.lean (integer level: coprimality, cross-multiplication).
The property theorems built from them are in Props/C10.lean.
-/
import Mathlib.Tactic.Ring
import Mathlib.Tactic.Linarith
import Mathlib.Tactic.LinearCombination
import Mathlib.Tactic.Positivity
import Mathlib.Data.Int.GCD
import Mathlib.RingTheory.Coprime.Basic
import Mathlib.RingTheory.Coprime.Lemmas
import GivaroModel.Spec.RationalSpec
set_option linter.unusedSimpArgs false
set_option linter.unusedTactic false
set_option linter.unreachableTactic false
set_option linter.unusedVariables false
set_option linter.unnecessarySeqFocus false
namespace Givaro.Lemmas.Rational
open Givaro Givaro.Model.Rational Givaro.Spec.Rational

/-- operands admissible in mode `red` (`true` = the default `Reduce`): positive denominator, and canonical when reducing -/
def Valid (red : Bool) (r : QRep) : Prop := 0 < r.den ∧ (red = true → Int.gcd r.num r.den = 1)
/-- canonical form: positive denominator, numerator and denominator coprime (so zero is stored as 0/1) -/
def Canon (r : QRep) : Prop := 0 < r.den ∧ Int.gcd r.num r.den = 1
/-- `r` denotes the fraction `n/d` (cross-multiplication over ℤ) -/
def Den (r : QRep) (n d : Int) : Prop := r.num * d = n * r.den

theorem canon_valid {r : QRep} (h : Canon r) (red : Bool) : Valid red r := ⟨h.1, fun _ => h.2⟩
theorem valid_true {r : QRep} (h : Valid true r) : Canon r := ⟨h.1, h.2 rfl⟩

theorem cop_iff (a b : Int) : Int.gcd a b = 1 ↔ IsCoprime a b := Int.isCoprime_iff_gcd_eq_one.symm

theorem canon_zero {r : QRep} (h : Canon r) (h0 : r.num = 0) : r.den = 1 := by
  have := h.2; rw [h0, Int.gcd_zero_left] at this
  have hp := h.1; omega

theorem iabs_eq (x : Int) : iabs x = |x| := by
  unfold iabs; split
  · rw [abs_of_neg (by assumption)]
  · rw [abs_of_nonneg (by omega)]

theorem pos_left_of_mul_pos {x g : Int} (h : 0 < x * g) (hg : 0 < g) : 0 < x := by
  by_contra hh
  have : x * g ≤ 0 := Int.mul_nonpos_of_nonpos_of_nonneg (by omega) (by omega)
  omega

-- ---- exact division by a gcd --------------------------------------------------------------
theorem idiv_mul_left {g : Int} (x : Int) (hg : g ≠ 0) : idiv (x * g) g = x := by
  unfold idiv; rw [Int.mul_comm]; exact Int.mul_tdiv_cancel_left x hg

/-- decomposition by the gcd: `a = a' g`, `b = b' g` with `a'`, `b'` coprime and `g > 0` -/
theorem gcd_decomp (a b : Int) (h : a ≠ 0 ∨ b ≠ 0) :
    ∃ g a' b' : Int, igcd a b = g ∧ 0 < g ∧ a = a' * g ∧ b = b' * g ∧ IsCoprime a' b' := by
  have hpos : 0 < Int.gcd a b := by
    rcases Nat.eq_zero_or_pos (Int.gcd a b) with h0 | h0
    · rw [Int.gcd_eq_zero_iff] at h0; omega
    · exact h0
  obtain ⟨a', b', hc, ha, hb⟩ := Int.exists_gcd_one hpos
  exact ⟨(Int.gcd a b : Int), a', b', rfl, by exact_mod_cast hpos, ha, hb, (cop_iff _ _).mp hc⟩

-- ---- reduce ----------------------------------------------------------------------------------
theorem reduce_spec (r : QRep) (h : 0 < r.den) :
    Canon (reduce r) ∧ Den (reduce r) r.num r.den := by
  obtain ⟨g, n', d', hg, hgpos, hn, hd, hc⟩ := gcd_decomp r.num r.den (Or.inr (by omega))
  have hg0 : g ≠ 0 := by omega
  have hd' : 0 < d' := by
    rw [hd] at h; exact pos_left_of_mul_pos h hgpos
  unfold reduce
  simp only [hg]
  split
  · -- t ≠ 1
    refine ⟨⟨?_, ?_⟩, ?_⟩
    · show 0 < idiv r.den g; rw [hd, idiv_mul_left _ hg0]; exact hd'
    · show Int.gcd (idiv r.num g) (idiv r.den g) = 1
      rw [hn, hd, idiv_mul_left _ hg0, idiv_mul_left _ hg0]; exact (cop_iff _ _).mpr hc
    · show idiv r.num g * r.den = r.num * idiv r.den g
      rw [hn, hd, idiv_mul_left _ hg0, idiv_mul_left _ hg0]; ring
  · rename_i h1
    have h1 : g = 1 := by simpa using h1
    refine ⟨⟨h, ?_⟩, rfl⟩
    unfold igcd at hg; rw [h1] at hg; exact_mod_cast hg

-- ---- the constructor used by every value-returning operator -----------------------------------------
theorem mk3_pos (n d : Int) (h : 0 < d) : mk3 n d 0 = some ⟨n, d⟩ := by
  unfold mk3 isign
  have : d ≠ 0 := by omega
  have h2 : ¬ d < 0 := by omega
  simp [this, h2]
theorem mk3_neg (n d : Int) (h : d < 0) : mk3 n d 0 = some ⟨-n, -d⟩ := by
  unfold mk3 isign
  have : d ≠ 0 := by omega
  simp [this, h]
theorem mk3_red (n d : Int) (h : d ≠ 0) :
    mk3 n d 1 = some (reduce (if 0 < d then ⟨n, d⟩ else ⟨-n, -d⟩)) := by
  unfold mk3 isign
  by_cases hd : d < 0
  · have : ¬ 0 < d := by omega
    simp [h, hd, this]
  · have : 0 < d := by omega
    simp [h, hd, this]

-- ---- order ------------------------------------------------------------------------------------------
theorem absCompare_spec {c : Int → Int → Int} (hc : CmpAbsOK c) (a b : QRep) (ha : 0 < a.den) (hb : 0 < b.den)
    (hna : a.num ≠ 0) (hnb : b.num ≠ 0) :
    (absCompare c a b < 0 ↔ |a.num| * b.den < |b.num| * a.den) ∧
    (absCompare c a b = 0 ↔ |a.num| * b.den = |b.num| * a.den) := by
  have h1 := hc a.num b.num
  have h2 := hc a.den b.den
  have h3 := hc (a.num * b.den) (a.den * b.num)
  simp only [iabs_eq, abs_mul, abs_of_pos ha, abs_of_pos hb] at h1 h2 h3
  have hX : 0 < |a.num| := abs_pos.mpr hna
  have hY : 0 < |b.num| := abs_pos.mpr hnb
  unfold absCompare
  generalize c a.num b.num = cn at *
  generalize c a.den b.den = cd at *
  generalize c (a.num * b.den) (a.den * b.num) = cp at *
  generalize |a.num| = X at *
  generalize |b.num| = Y at *
  generalize a.den = ad at *
  generalize b.den = bd at *
  simp only [Bool.and_eq_true, decide_eq_true_eq]
  split_ifs with k1 k2 k3 k4
  · clear h3
    obtain ⟨e1, e2⟩ := k1
    have : X < Y := h1.1.mp (by omega)
    have : bd < ad := by
      rcases lt_trichotomy ad bd with q | q | q
      · have := h2.1.mpr q; omega
      · have := h2.2.mpr q; omega
      · exact q
    have : X * bd < Y * ad := by nlinarith
    constructor <;> constructor <;> intro _ <;> first | omega | contradiction
  · clear h3
    obtain ⟨e1, e2⟩ := k2
    have : ad < bd := h2.1.mp (by omega)
    have : Y < X := by
      rcases lt_trichotomy X Y with q | q | q
      · have := h1.1.mpr q; omega
      · have := h1.2.mpr q; omega
      · exact q
    have : Y * ad < X * bd := by nlinarith
    constructor <;> constructor <;> intro _ <;> first | omega | contradiction
  · clear h3
    have hXY : X = Y := h1.2.mp k3
    subst hXY
    constructor
    · constructor
      · intro hh
        have : ¬ ad < bd := fun q => by have := h2.1.mpr q; omega
        have : ¬ ad = bd := fun q => by have := h2.2.mpr q; omega
        have : bd < ad := by omega
        nlinarith
      · intro hh
        have : bd < ad := by
          by_contra q
          have : ad ≤ bd := by omega
          nlinarith
        have : ¬ cd < 0 := fun q => by have := h2.1.mp q; omega
        have : ¬ cd = 0 := fun q => by have := h2.2.mp q; omega
        omega
    · constructor
      · intro hh
        have : ad = bd := h2.2.mp (by omega)
        subst this; rfl
      · intro hh
        have : ad = bd := by
          have := Int.eq_of_mul_eq_mul_left (by omega : X ≠ 0) hh
          omega
        have := h2.2.mpr this; omega
  · clear h3
    have hab : ad = bd := h2.2.mp k4
    subst hab
    constructor
    · rw [h1.1]
      constructor
      · intro hh; nlinarith
      · intro hh; by_contra q; have : Y ≤ X := by omega
        nlinarith
    · rw [h1.2]
      constructor
      · intro hh; subst hh; rfl
      · intro hh; exact Int.eq_of_mul_eq_mul_right (by omega : ad ≠ 0) hh
  · constructor
    · rw [h3.1, Int.mul_comm ad Y]
    · rw [h3.2, Int.mul_comm ad Y]

theorem compare_spec {c : Int → Int → Int} (hc : CmpAbsOK c) (a b : QRep) (ha : 0 < a.den) (hb : 0 < b.den) :
    (Model.Rational.compare c a b < 0 ↔ a.num * b.den < b.num * a.den) ∧
    (Model.Rational.compare c a b = 0 ↔ a.num * b.den = b.num * a.den) := by
  unfold Model.Rational.compare isign
  rcases lt_trichotomy a.num 0 with hA | hA | hA <;> rcases lt_trichotomy b.num 0 with hB | hB | hB
  · -- both negative
    have := absCompare_spec hc a b ha hb (by omega) (by omega)
    rw [abs_of_neg hA, abs_of_neg hB, Int.neg_mul, Int.neg_mul] at this
    have e1 : ¬ a.num = 0 := by omega
    have e2 : ¬ b.num = 0 := by omega
    simp only [e1, e2, hA, hB, decide_false, decide_true, Bool.and_false, Bool.false_and, ↓reduceIte, Bool.false_eq_true, ne_eq, not_true_eq_false]
    have e3 : ¬ ((-1 : Int) > 0) := by omega
    simp only [e3, ↓reduceIte]
    constructor
    · rw [show (-(absCompare c a b) < 0) ↔ ¬ (absCompare c a b < 0) ∧ ¬ (absCompare c a b = 0) by omega, this.1, this.2]
      constructor
      · intro ⟨p, q⟩; by_contra r
        have : b.num * a.den ≤ a.num * b.den := by omega
        omega
      · intro p; constructor <;> intro q <;> omega
    · rw [show (-(absCompare c a b) = 0) ↔ (absCompare c a b = 0) by omega, this.2]
      constructor <;> intro p <;> omega
  · -- a < 0, b = 0
    have e1 : ¬ a.num = 0 := by omega
    simp only [e1, hB, hA, decide_false, decide_true, Bool.false_and, Bool.and_true, Bool.and_false, ↓reduceIte, Bool.false_eq_true]
    have : a.num * b.den < 0 := Int.mul_neg_of_neg_of_pos hA hb
    constructor <;> constructor <;> intro _ <;> first | omega | contradiction
  · -- a < 0 < b
    have e1 : ¬ a.num = 0 := by omega
    have e2 : ¬ b.num = 0 := by omega
    have e3 : ¬ b.num < 0 := by omega
    simp only [e1, e2, e3, hA, decide_false, Bool.and_false, Bool.false_and, ↓reduceIte, Bool.false_eq_true, ne_eq]
    have : a.num * b.den < 0 := Int.mul_neg_of_neg_of_pos hA hb
    have : 0 < b.num * a.den := Int.mul_pos hB ha
    simp only [show ¬ ((-1 : Int) = 1) by omega, not_false_eq_true, ↓reduceIte]
    constructor <;> constructor <;> intro _ <;> first | omega | contradiction
  · -- a = 0, b < 0
    have e2 : ¬ b.num = 0 := by omega
    simp only [hA, e2, hB, decide_false, decide_true, Bool.and_false, Bool.true_and, ↓reduceIte, Bool.false_eq_true]
    have : b.num * a.den < 0 := Int.mul_neg_of_neg_of_pos hB ha
    constructor <;> constructor <;> intro _ <;> first | omega | contradiction
  · simp [hA, hB]
  · have e2 : ¬ b.num = 0 := by omega
    have e3 : ¬ b.num < 0 := by omega
    simp only [hA, e2, e3, decide_false, decide_true, Bool.and_false, Bool.true_and, ↓reduceIte, Bool.false_eq_true]
    have : 0 < b.num * a.den := Int.mul_pos hB ha
    constructor <;> constructor <;> intro _ <;> first | omega | contradiction
  · -- b < 0 < a
    have e1 : ¬ a.num = 0 := by omega
    have e2 : ¬ b.num = 0 := by omega
    have e3 : ¬ a.num < 0 := by omega
    simp only [e1, e2, e3, hB, decide_false, Bool.and_false, Bool.false_and, ↓reduceIte, Bool.false_eq_true, ne_eq]
    have : b.num * a.den < 0 := Int.mul_neg_of_neg_of_pos hB ha
    have : 0 < a.num * b.den := Int.mul_pos hA hb
    simp only [show ¬ ((1 : Int) = -1) by omega, not_false_eq_true, ↓reduceIte]
    constructor <;> constructor <;> intro _ <;> first | omega | contradiction
  · -- a > 0, b = 0
    have e1 : ¬ a.num = 0 := by omega
    have e3 : ¬ a.num < 0 := by omega
    simp only [e1, e3, hB, decide_false, decide_true, Bool.false_and, Bool.and_true, ↓reduceIte, Bool.false_eq_true]
    have : 0 < a.num * b.den := Int.mul_pos hA hb
    constructor <;> constructor <;> intro _ <;> first | omega | contradiction
  · -- both positive
    have := absCompare_spec hc a b ha hb (by omega) (by omega)
    rw [abs_of_pos hA, abs_of_pos hB] at this
    have e1 : ¬ a.num = 0 := by omega
    have e2 : ¬ b.num = 0 := by omega
    have e3 : ¬ a.num < 0 := by omega
    have e4 : ¬ b.num < 0 := by omega
    simp only [e1, e2, e3, e4, decide_false, Bool.and_false, Bool.false_and, ↓reduceIte, Bool.false_eq_true, ne_eq, not_true_eq_false]
    have e5 : ((1 : Int) > 0) := by omega
    simp only [e5, ↓reduceIte]
    exact this

-- ---- addition / subtraction (Knuth 4.5.1) ---------------------------------------------------------------
/-- the general branch of `operator+` (which also covers the `d1 == 1` shortcut, see `add_core_one`) -/
theorem add_core (n1 d1 n2 d2 : Int) (h1 : 0 < d1) (h2 : 0 < d2) (c1 : IsCoprime n1 d1) (c2 : IsCoprime n2 d2) :
    0 < idiv d1 (igcd d1 d2) * idiv d2 (igcd (n1 * idiv d2 (igcd d1 d2) + n2 * idiv d1 (igcd d1 d2)) (igcd d1 d2)) ∧
    IsCoprime (idiv (n1 * idiv d2 (igcd d1 d2) + n2 * idiv d1 (igcd d1 d2)) (igcd (n1 * idiv d2 (igcd d1 d2) + n2 * idiv d1 (igcd d1 d2)) (igcd d1 d2)))
      (idiv d1 (igcd d1 d2) * idiv d2 (igcd (n1 * idiv d2 (igcd d1 d2) + n2 * idiv d1 (igcd d1 d2)) (igcd d1 d2))) ∧
    idiv (n1 * idiv d2 (igcd d1 d2) + n2 * idiv d1 (igcd d1 d2)) (igcd (n1 * idiv d2 (igcd d1 d2) + n2 * idiv d1 (igcd d1 d2)) (igcd d1 d2)) * (d1 * d2)
      = (n1 * d2 + n2 * d1) * (idiv d1 (igcd d1 d2) * idiv d2 (igcd (n1 * idiv d2 (igcd d1 d2) + n2 * idiv d1 (igcd d1 d2)) (igcd d1 d2))) ∧
    (igcd (n1 * idiv d2 (igcd d1 d2) + n2 * idiv d1 (igcd d1 d2)) (igcd d1 d2)) ∣ d2 := by
  obtain ⟨g, u, v, hg, hgpos, hd1, hd2, huv⟩ := gcd_decomp d1 d2 (Or.inl (by omega))
  subst hd1 hd2
  have hg0 : g ≠ 0 := by omega
  have hu : 0 < u := pos_left_of_mul_pos h1 hgpos
  have hv : 0 < v := pos_left_of_mul_pos h2 hgpos
  rw [hg, idiv_mul_left _ hg0, idiv_mul_left _ hg0]
  obtain ⟨g2, t', w, hg2, hg2pos, ht, hw, htw⟩ := gcd_decomp (n1 * v + n2 * u) g (Or.inr hg0)
  rw [hg2]
  have hg20 : g2 ≠ 0 := by omega
  clear hg
  subst hw
  have hw : 0 < w := pos_left_of_mul_pos hgpos hg2pos
  have e1 : idiv (n1 * v + n2 * u) g2 = t' := by rw [ht]; exact idiv_mul_left _ hg20
  have e2 : idiv (v * (w * g2)) g2 = v * w := by
    rw [show v * (w * g2) = (v * w) * g2 by ring]; exact idiv_mul_left _ hg20
  rw [e1, e2]
  have c1u : IsCoprime n1 u := c1.of_mul_right_left
  have c2v : IsCoprime n2 v := c2.of_mul_right_left
  have ctu : IsCoprime (n1 * v + n2 * u) u := (c1u.mul_left huv.symm).add_mul_right_left n2
  have ctv : IsCoprime (n1 * v + n2 * u) v := by
    have := (c2v.mul_left huv).add_mul_right_left n1
    rwa [Int.add_comm] at this
  rw [ht] at ctu ctv
  refine ⟨Int.mul_pos hu (Int.mul_pos hv hw), ?_, ?_, ⟨v * w, by ring⟩⟩
  · exact IsCoprime.mul_right ctu.of_mul_left_left (IsCoprime.mul_right ctv.of_mul_left_left htw)
  · linear_combination (-(w * g2 * u * v * w)) * ht

theorem ofInteger_eq (n : Int) : ofInteger n = ⟨n, 1⟩ := by
  unfold ofInteger; split
  · rename_i h; rw [h]
  · rfl

theorem valid_int (red : Bool) (n : Int) : Valid red ⟨n, 1⟩ := ⟨Int.one_pos, fun _ => Int.gcd_one_right n⟩

theorem add_spec (red : Bool) (a b : QRep) (ha : Valid red a) (hb : Valid red b) :
    ∃ r, add red a b = some r ∧ Valid red r ∧ Den r (a.num * b.den + b.num * a.den) (a.den * b.den) := by
  obtain ⟨an, ad⟩ := a
  obtain ⟨bn, bd⟩ := b
  obtain ⟨hda, hca⟩ := ha
  obtain ⟨hdb, hcb⟩ := hb
  simp only at hda hca hdb hcb
  have hdd : 0 < ad * bd := Int.mul_pos hda hdb
  unfold add
  simp only [isZero, isInteger, beq_iff_eq, Bool.and_eq_true, Bool.not_eq_true']
  split_ifs with k1 k2 k3 k4 k5
  · exact ⟨_, rfl, ⟨hda, hca⟩, by simp only [Den, k1]; ring⟩
  · exact ⟨_, rfl, ⟨hdb, hcb⟩, by simp only [Den, k2]; ring⟩
  · obtain ⟨e1, e2⟩ := k3
    subst e1 e2
    exact ⟨⟨an + bn, 1⟩, by rw [ofInteger_eq], valid_int red _, by simp only [Den]; ring⟩
  · subst k4
    exact ⟨_, mk3_pos _ _ hdd, ⟨hdd, fun h => by cases h⟩, rfl⟩
  · have hred : red = true := by cases red <;> simp_all
    have c1 := (cop_iff _ _).mp (hca hred)
    have c2 := (cop_iff _ _).mp (hcb hred)
    obtain ⟨p, q, _, _⟩ := add_core an ad bn bd hda hdb c1 c2
    rw [k5] at p q
    simp only [idiv, Int.tdiv_one, igcd, Int.gcd_one_right, Nat.cast_one] at p q
    exact ⟨_, mk3_pos _ _ hdd, ⟨hdd, fun _ => (cop_iff _ _).mpr q⟩, rfl⟩
  · have hred : red = true := by cases red <;> simp_all
    have c1 := (cop_iff _ _).mp (hca hred)
    have c2 := (cop_iff _ _).mp (hcb hred)
    obtain ⟨p, q, r, _⟩ := add_core an ad bn bd hda hdb c1 c2
    exact ⟨_, mk3_pos _ _ p, ⟨p, fun _ => (cop_iff _ _).mpr q⟩, r⟩

/-- `operator-` is `operator+` on the negated numerator, branch by branch -/
theorem sub_eq_add_neg (red : Bool) (a b : QRep) (hb : 0 < b.den) :
    sub red a b = add red a ⟨-b.num, b.den⟩ := by
  obtain ⟨an, ad⟩ := a
  obtain ⟨bn, bd⟩ := b
  simp only at hb
  unfold sub add
  by_cases k1 : bn = 0
  · simp [isZero, k1]
  · have k1' : ¬ (-bn = 0) := by omega
    by_cases k2 : an = 0
    · simp [isZero, k1, k2, mk3_pos _ _ hb]
    · simp only [isZero, isInteger, k1, k1', k2, beq_iff_eq, Int.sub_eq_add_neg, Int.neg_mul, ↓reduceIte, Bool.false_eq_true]

theorem sub_spec (red : Bool) (a b : QRep) (ha : Valid red a) (hb : Valid red b) :
    ∃ r, sub red a b = some r ∧ Valid red r ∧ Den r (a.num * b.den - b.num * a.den) (a.den * b.den) := by
  rw [sub_eq_add_neg red a b hb.1]
  have hb' : Valid red ⟨-b.num, b.den⟩ := ⟨hb.1, fun h => by simpa [Int.neg_gcd] using hb.2 h⟩
  obtain ⟨r, h1, h2, h3⟩ := add_spec red a ⟨-b.num, b.den⟩ ha hb'
  refine ⟨r, h1, h2, ?_⟩
  simp only [Den] at h3 ⊢
  rw [h3]; ring

-- ---- in-place forms: same value *and* same representation as the value-returning operator ------------------
theorem addin_eq_add (red : Bool) (a b : QRep) (ha : Valid red a) (hb : Valid red b) :
    addin red a b = add red a b := by
  obtain ⟨an, ad⟩ := a
  obtain ⟨bn, bd⟩ := b
  obtain ⟨hda, hca⟩ := ha
  obtain ⟨hdb, hcb⟩ := hb
  simp only at hda hca hdb hcb
  have hdd : 0 < ad * bd := Int.mul_pos hda hdb
  unfold addin add
  simp only [isZero, isInteger, beq_iff_eq, Bool.and_eq_true, Bool.not_eq_true']
  split_ifs with k1 k2 k3 k4 k5
  · rfl
  · rfl
  · obtain ⟨e1, e2⟩ := k3
    subst e1 e2
    rw [ofInteger_eq]
  · rw [mk3_pos _ _ hdd]
  · rw [mk3_pos _ _ hdd]
  · have hred : red = true := by cases red <;> simp_all
    have c1 := (cop_iff _ _).mp (hca hred)
    have c2 := (cop_iff _ _).mp (hcb hred)
    obtain ⟨p, _, _, dv⟩ := add_core an ad bn bd hda hdb c1 c2
    rw [mk3_pos _ _ p]
    congr 2
    exact Int.mul_tdiv_assoc _ dv

theorem subin_eq_addin_neg (red : Bool) (a b : QRep) :
    subin red a b = addin red a ⟨-b.num, b.den⟩ := by
  obtain ⟨an, ad⟩ := a
  obtain ⟨bn, bd⟩ := b
  unfold subin addin
  by_cases k1 : bn = 0
  · simp [isZero, k1]
  · have k1' : ¬ (-bn = 0) := by omega
    by_cases k2 : an = 0
    · simp [isZero, k1, k2]
    · simp only [isZero, isInteger, k1, k1', k2, beq_iff_eq, Int.sub_eq_add_neg, Int.neg_mul, ↓reduceIte, Bool.false_eq_true]

theorem subin_eq_sub (red : Bool) (a b : QRep) (ha : Valid red a) (hb : Valid red b) :
    subin red a b = sub red a b := by
  have hb' : Valid red ⟨-b.num, b.den⟩ := ⟨hb.1, fun h => by simpa [Int.neg_gcd] using hb.2 h⟩
  rw [subin_eq_addin_neg, sub_eq_add_neg red a b hb.1, addin_eq_add red a _ ha hb']

-- ---- multiplication ---------------------------------------------------------------------------------------
theorem mul_core (n1 d1 n2 d2 : Int) (h1 : 0 < d1) (h2 : 0 < d2) (c1 : IsCoprime n1 d1) (c2 : IsCoprime n2 d2) :
    0 < idiv d1 (igcd d1 n2) * idiv d2 (igcd n1 d2) ∧
    IsCoprime (idiv n1 (igcd n1 d2) * idiv n2 (igcd d1 n2)) (idiv d1 (igcd d1 n2) * idiv d2 (igcd n1 d2)) ∧
    (idiv n1 (igcd n1 d2) * idiv n2 (igcd d1 n2)) * (d1 * d2) = (n1 * n2) * (idiv d1 (igcd d1 n2) * idiv d2 (igcd n1 d2)) := by
  obtain ⟨g1, a, b, hg1, hg1pos, hn1, hd2, hab⟩ := gcd_decomp n1 d2 (Or.inr (by omega))
  obtain ⟨g2, c, e, hg2, hg2pos, hd1, hn2, hce⟩ := gcd_decomp d1 n2 (Or.inl (by omega))
  rw [hg1, hg2]
  clear hg1 hg2
  subst hn1 hd2 hd1 hn2
  have hg10 : g1 ≠ 0 := by omega
  have hg20 : g2 ≠ 0 := by omega
  rw [idiv_mul_left _ hg10, idiv_mul_left _ hg10, idiv_mul_left _ hg20, idiv_mul_left _ hg20]
  have hc : 0 < c := pos_left_of_mul_pos h1 hg2pos
  have hb : 0 < b := pos_left_of_mul_pos h2 hg1pos
  refine ⟨Int.mul_pos hc hb, ?_, by ring⟩
  have hac : IsCoprime a c := c1.of_mul_left_left.of_mul_right_left
  have heb : IsCoprime e b := c2.of_mul_left_left.of_mul_right_left
  exact IsCoprime.mul_left (IsCoprime.mul_right hac hab) (IsCoprime.mul_right hce.symm heb)

theorem cabs_zero_pos {c : Int → Int → Int} (hc : CmpAbsOK c) {x y : Int} (hx : 0 < x) (hy : 0 < y) :
    c x y = 0 ↔ x = y := by
  have := (hc x y).2
  rw [iabs_eq, iabs_eq, abs_of_pos hx, abs_of_pos hy] at this
  exact this

theorem mul_spec {c : Int → Int → Int} (hc : CmpAbsOK c) (red : Bool) (a b : QRep) (ha : Valid red a) (hb : Valid red b) :
    ∃ r, mul c red a b = some r ∧ Valid red r ∧ Den r (a.num * b.num) (a.den * b.den) := by
  obtain ⟨an, ad⟩ := a
  obtain ⟨bn, bd⟩ := b
  obtain ⟨hda, hca⟩ := ha
  obtain ⟨hdb, hcb⟩ := hb
  simp only at hda hca hdb hcb
  have hdd : 0 < ad * bd := Int.mul_pos hda hdb
  unfold mul
  simp only [isZero, isOne, isInteger, beq_iff_eq, Bool.and_eq_true, Bool.not_eq_true', cabs_zero_pos hc hda hdb]
  split_ifs with k1 k2 k3 k4 k5 k6 k7
  · exact ⟨_, rfl, valid_int red 0, by simp [Den, ofWord, k1]⟩
  · exact ⟨_, rfl, valid_int red 0, by simp [Den, ofWord, k2]⟩
  · obtain ⟨e1, e2⟩ := k3
    subst e1 e2
    exact ⟨_, rfl, ⟨hda, hca⟩, by simp [Den]⟩
  · obtain ⟨e1, e2⟩ := k4
    subst e1 e2
    exact ⟨_, rfl, ⟨hdb, hcb⟩, by simp [Den]⟩
  · obtain ⟨e1, e2⟩ := k5
    subst e1 e2
    exact ⟨⟨an * bn, 1⟩, by rw [ofInteger_eq], valid_int red _, by simp [Den]⟩
  · subst k6
    refine ⟨_, mk3_pos _ _ hdd, ⟨hdd, fun hred => ?_⟩, rfl⟩
    have c1 := (cop_iff _ _).mp (hca hred)
    have c2 := (cop_iff _ _).mp (hcb hred)
    exact (cop_iff _ _).mpr (IsCoprime.mul_left (c1.mul_right c1) (c2.mul_right c2))
  · subst k7
    exact ⟨_, mk3_pos _ _ hdd, ⟨hdd, fun h => by cases h⟩, rfl⟩
  · have hred : red = true := by cases red <;> simp_all
    have c1 := (cop_iff _ _).mp (hca hred)
    have c2 := (cop_iff _ _).mp (hcb hred)
    obtain ⟨p, q, r⟩ := mul_core an ad bn bd hda hdb c1 c2
    exact ⟨_, mk3_pos _ _ p, ⟨p, fun _ => (cop_iff _ _).mpr q⟩, r⟩

/-- the in-place product: same statement as `mul_spec` (the stored pair can differ from `operator*`'s only for a
    non-canonical zero when not reducing: `0/d *= x` stays `0/d`) -/
theorem mulin_spec {c : Int → Int → Int} (hc : CmpAbsOK c) (red : Bool) (a b : QRep) (ha : Valid red a) (hb : Valid red b) :
    ∃ r, mulin c red a b = some r ∧ Valid red r ∧ Den r (a.num * b.num) (a.den * b.den) := by
  obtain ⟨an, ad⟩ := a
  obtain ⟨bn, bd⟩ := b
  obtain ⟨hda, hca⟩ := ha
  obtain ⟨hdb, hcb⟩ := hb
  simp only at hda hca hdb hcb
  have hdd : 0 < ad * bd := Int.mul_pos hda hdb
  unfold mulin
  simp only [isZero, isOne, isInteger, beq_iff_eq, Bool.and_eq_true, Bool.not_eq_true', Bool.or_eq_true, decide_eq_true_eq,
    cabs_zero_pos hc hda hdb]
  split_ifs with k1 k2 k3 k4 k5 k6
  · exact ⟨_, rfl, valid_int red 0, by simp [Den, ofWord, k1]⟩
  · exact ⟨_, rfl, ⟨hda, hca⟩, by simp [Den, k2]⟩
  · obtain ⟨e1, e2⟩ := k3
    subst e1 e2
    exact ⟨_, rfl, ⟨hda, hca⟩, by simp [Den]⟩
  · obtain ⟨e1, e2⟩ := k4
    subst e1 e2
    exact ⟨_, rfl, ⟨hdb, hcb⟩, by simp [Den]⟩
  · obtain ⟨e1, e2⟩ := k5
    subst e1 e2
    exact ⟨_, rfl, valid_int red _, by simp [Den]⟩
  · refine ⟨_, rfl, ⟨hdd, fun hred => ?_⟩, rfl⟩
    have c1 := (cop_iff _ _).mp (hca hred)
    have c2 := (cop_iff _ _).mp (hcb hred)
    rcases k6 with k6 | k6
    · subst k6
      exact (cop_iff _ _).mpr (IsCoprime.mul_left (c1.mul_right c1) (c2.mul_right c2))
    · rw [hred] at k6; cases k6
  · have hred : red = true := by cases red <;> simp_all
    have c1 := (cop_iff _ _).mp (hca hred)
    have c2 := (cop_iff _ _).mp (hcb hred)
    obtain ⟨p, q, r⟩ := mul_core an ad bn bd hda hdb c1 c2
    exact ⟨_, rfl, ⟨p, fun _ => (cop_iff _ _).mpr q⟩, r⟩

-- ---- division -----------------------------------------------------------------------------------------------
theorem isign_neg_iff (x : Int) : isign x < 0 ↔ x < 0 := by
  unfold isign; split_ifs <;> omega

theorem div_core (n1 d1 n2 d2 : Int) (h1 : 0 < d1) (h2 : 0 < d2) (hn2 : n2 ≠ 0) (c1 : IsCoprime n1 d1) (c2 : IsCoprime n2 d2) :
    (0 < idiv d1 (igcd d1 d2) * idiv n2 (igcd n1 n2) ↔ 0 < n2) ∧
    idiv d1 (igcd d1 d2) * idiv n2 (igcd n1 n2) ≠ 0 ∧
    IsCoprime (idiv n1 (igcd n1 n2) * idiv d2 (igcd d1 d2)) (idiv d1 (igcd d1 d2) * idiv n2 (igcd n1 n2)) ∧
    (idiv n1 (igcd n1 n2) * idiv d2 (igcd d1 d2)) * (d1 * n2) = (n1 * d2) * (idiv d1 (igcd d1 d2) * idiv n2 (igcd n1 n2)) := by
  obtain ⟨g1, a, b, hg1, hg1pos, hn1, hn2', hab⟩ := gcd_decomp n1 n2 (Or.inr hn2)
  obtain ⟨g2, c, e, hg2, hg2pos, hd1, hd2, hce⟩ := gcd_decomp d1 d2 (Or.inl (by omega))
  rw [hg1, hg2]
  clear hg1 hg2
  subst hn1 hn2' hd1 hd2
  have hg10 : g1 ≠ 0 := by omega
  have hg20 : g2 ≠ 0 := by omega
  rw [idiv_mul_left _ hg10, idiv_mul_left _ hg10, idiv_mul_left _ hg20, idiv_mul_left _ hg20]
  have hc : 0 < c := pos_left_of_mul_pos h1 hg2pos
  have he : 0 < e := pos_left_of_mul_pos h2 hg2pos
  have hb0 : b ≠ 0 := fun h => hn2 (by rw [h]; ring)
  refine ⟨?_, Int.mul_ne_zero (by omega) hb0, ?_, by ring⟩
  · constructor
    · intro h
      have hb : 0 < b := by
        by_contra hh
        have : c * b ≤ 0 := Int.mul_nonpos_of_nonneg_of_nonpos (by omega) (by omega)
        omega
      exact Int.mul_pos hb hg1pos
    · intro h
      exact Int.mul_pos hc (pos_left_of_mul_pos h hg1pos)
  · have hac : IsCoprime a c := c1.of_mul_left_left.of_mul_right_left
    have hbe : IsCoprime b e := c2.of_mul_left_left.of_mul_right_left
    exact IsCoprime.mul_left (IsCoprime.mul_right hac hab) (IsCoprime.mul_right hce.symm hbe.symm)

theorem div_zero (c : Int → Int → Int) (red : Bool) (a b : QRep) (h : b.num = 0) : div c red a b = none := by
  unfold div; simp [isZero, h]

theorem divin_zero (red : Bool) (a b : QRep) (h : b.num = 0) : divin red a b = none := by
  unfold divin; simp [isZero, h]

theorem div_spec {c : Int → Int → Int} (hc : CmpAbsOK c) (red : Bool) (a b : QRep) (ha : Valid red a) (hb : Valid red b)
    (hnz : b.num ≠ 0) :
    ∃ r, div c red a b = some r ∧ Valid red r ∧ Den r (a.num * b.den) (a.den * b.num) := by
  obtain ⟨an, ad⟩ := a
  obtain ⟨bn, bd⟩ := b
  obtain ⟨hda, hca⟩ := ha
  obtain ⟨hdb, hcb⟩ := hb
  simp only at hda hca hdb hcb hnz
  unfold div
  simp only [isZero, isOne, isInteger, sign, beq_iff_eq, Bool.and_eq_true, Bool.not_eq_true', cabs_zero_pos hc hda hdb,
    isign_neg_iff, hnz, ↓reduceIte]
  split_ifs with k2 k3 k4 k5 k6 k7 k8 k9 k9
  · exact ⟨_, rfl, valid_int red 0, by simp [Den, ofWord, k2]⟩
  · obtain ⟨e1, e2⟩ := k3
    subst e1 e2
    exact ⟨_, rfl, ⟨hda, hca⟩, by simp [Den]⟩
  · -- 1 / b, b < 0
    obtain ⟨e1, e2⟩ := k4
    subst e1 e2
    refine ⟨_, mk3_neg _ _ k5, ⟨by simp only; omega, fun hred => ?_⟩, by simp only [Den]; ring⟩
    exact (cop_iff _ _).mpr ((cop_iff _ _).mp (hcb hred)).symm.neg_neg
  · -- 1 / b, b > 0
    obtain ⟨e1, e2⟩ := k4
    subst e1 e2
    have hbpos : 0 < bn := by omega
    refine ⟨⟨bd, bn⟩, by rw [mk3_neg _ _ (by omega)]; simp, ⟨hbpos, fun hred => ?_⟩, by simp only [Den]; ring⟩
    exact (cop_iff _ _).mpr ((cop_iff _ _).mp (hcb hred)).symm
  · -- equal denominators: Rational(num, r.num) reduces
    subst k6
    rw [mk3_red _ _ hnz]
    by_cases hp : 0 < bn
    · simp only [hp, ↓reduceIte]
      obtain ⟨cn, dn⟩ := reduce_spec ⟨an, bn⟩ hp
      refine ⟨_, rfl, canon_valid cn red, ?_⟩
      simp only [Den] at dn ⊢
      linear_combination ad * dn
    · simp only [hp, ↓reduceIte]
      obtain ⟨cn, dn⟩ := reduce_spec ⟨-an, -bn⟩ (by simp only; omega)
      refine ⟨_, rfl, canon_valid cn red, ?_⟩
      simp only [Den] at dn ⊢
      linear_combination (-ad) * dn
  · subst k7
    by_cases hp : 0 < bn
    · have : 0 < ad * bn := Int.mul_pos hda hp
      exact ⟨_, mk3_pos _ _ this, ⟨this, fun h => by cases h⟩, rfl⟩
    · have : ad * bn < 0 := Int.mul_neg_of_pos_of_neg hda (by omega)
      exact ⟨_, mk3_neg _ _ this, ⟨by simp only; omega, fun h => by cases h⟩, by simp only [Den]; ring⟩
  all_goals
    have hred : red = true := by cases red <;> simp_all
    have c1 := (cop_iff _ _).mp (hca hred)
    have c2 := (cop_iff _ _).mp (hcb hred)
    obtain ⟨p, q, r, v⟩ := div_core an ad bn bd hda hdb hnz c1 c2
  · -- b < 0, raw denominator negative
    refine ⟨_, mk3_pos _ _ (by simp only [iabs, k9, ↓reduceIte]; omega), ⟨by simp only [iabs, k9, ↓reduceIte]; omega, fun _ => ?_⟩, ?_⟩
    · simp only [iabs, k9, ↓reduceIte]; exact (cop_iff _ _).mpr r.neg_neg
    · simp only [Den, iabs, k9, ↓reduceIte]
      linear_combination (-1 : Int) * v
  · exfalso
    have : ¬ 0 < idiv ad (igcd ad bd) * idiv bn (igcd an bn) := fun h => by have := p.mp h; omega
    omega
  · exfalso
    have := p.mpr (by omega)
    omega
  · have hy := p.mpr (by omega)
    exact ⟨_, mk3_pos _ _ hy, ⟨hy, fun _ => (cop_iff _ _).mpr r⟩, v⟩

theorem divin_spec (red : Bool) (a b : QRep) (ha : Valid red a) (hb : Valid red b) (hnz : b.num ≠ 0) :
    ∃ r, divin red a b = some r ∧ Valid red r ∧ Den r (a.num * b.den) (a.den * b.num) := by
  obtain ⟨an, ad⟩ := a
  obtain ⟨bn, bd⟩ := b
  obtain ⟨hda, hca⟩ := ha
  obtain ⟨hdb, hcb⟩ := hb
  simp only at hda hca hdb hcb hnz
  unfold divin
  simp only [isZero, isOne, isInteger, beq_iff_eq, Bool.and_eq_true, Bool.not_eq_true', isign_neg_iff, hnz, ↓reduceIte]
  split_ifs with k2 k3 k4 k5 k6 k7 k8 k9 k10
  · exact ⟨_, rfl, ⟨hda, hca⟩, by simp [Den, k2]⟩
  · obtain ⟨e1, e2⟩ := k3
    subst e1 e2
    exact ⟨_, rfl, ⟨hda, hca⟩, by simp [Den]⟩
  · obtain ⟨e1, e2⟩ := k4
    subst e1 e2
    refine ⟨_, rfl, ⟨by simp only; omega, fun hred => ?_⟩, by simp only [Den]; ring⟩
    exact (cop_iff _ _).mpr ((cop_iff _ _).mp (hcb hred)).symm.neg_neg
  · obtain ⟨e1, e2⟩ := k4
    subst e1 e2
    refine ⟨_, rfl, ⟨by simp only; omega, fun hred => ?_⟩, by simp only [Den]; ring⟩
    exact (cop_iff _ _).mpr ((cop_iff _ _).mp (hcb hred)).symm
  · subst k6
    obtain ⟨cn, dn⟩ := reduce_spec ⟨-an, -bn⟩ (by simp only; omega)
    refine ⟨_, rfl, canon_valid cn red, ?_⟩
    simp only [Den] at dn ⊢
    linear_combination (-ad) * dn
  · subst k6
    obtain ⟨cn, dn⟩ := reduce_spec ⟨an, bn⟩ (by simp only; omega)
    refine ⟨_, rfl, canon_valid cn red, ?_⟩
    simp only [Den] at dn ⊢
    linear_combination ad * dn
  · subst k8
    have : ad * bn < 0 := Int.mul_neg_of_pos_of_neg hda k9
    exact ⟨_, rfl, ⟨by simp only; omega, fun h => by cases h⟩, by simp only [Den]; ring⟩
  · subst k8
    have : 0 < ad * bn := Int.mul_pos hda (by omega)
    exact ⟨_, rfl, ⟨this, fun h => by cases h⟩, rfl⟩
  all_goals
    have hred : red = true := by cases red <;> simp_all
    have c1 := (cop_iff _ _).mp (hca hred)
    have c2 := (cop_iff _ _).mp (hcb hred)
    obtain ⟨p, q, r, v⟩ := div_core an ad bn bd hda hdb hnz c1 c2
  · refine ⟨_, rfl, ⟨by simp only; omega, fun _ => (cop_iff _ _).mpr r.neg_neg⟩, ?_⟩
    simp only [Den]
    linear_combination (-1 : Int) * v
  · have hy : 0 < idiv ad (igcd ad bd) * idiv bn (igcd an bn) := by omega
    exact ⟨_, rfl, ⟨hy, fun _ => (cop_iff _ _).mpr r⟩, v⟩

-- ---- negation, absolute value, field-interface neg / inv ---------------------------------------------------------
theorem neg_spec (red : Bool) (a : QRep) (ha : Valid red a) :
    ∃ r, neg a = some r ∧ Valid red r ∧ Den r (-a.num) a.den := by
  unfold neg
  exact ⟨_, mk3_pos _ _ ha.1, ⟨ha.1, fun h => by simpa [Int.neg_gcd] using ha.2 h⟩, rfl⟩

theorem abs_spec (red : Bool) (a : QRep) (ha : Valid red a) :
    ∃ r, Model.Rational.abs a = some r ∧ Valid red r ∧ Den r |a.num| a.den := by
  unfold Model.Rational.abs
  refine ⟨_, mk3_pos _ _ ha.1, ⟨ha.1, fun h => ?_⟩, by simp only [Den, iabs_eq]⟩
  simp only [iabs]; split
  · simpa [Int.neg_gcd] using ha.2 h
  · exact ha.2 h

theorem fneg_spec (red : Bool) (a : QRep) (ha : Valid red a) : Valid red (fneg a) ∧ Den (fneg a) (-a.num) a.den :=
  ⟨⟨ha.1, fun h => by simpa [fneg, Int.neg_gcd] using ha.2 h⟩, rfl⟩

theorem finv_spec (red : Bool) (a : QRep) (ha : Valid red a) (hnz : a.num ≠ 0) :
    Valid red (finv a) ∧ Den (finv a) a.den a.num := by
  unfold finv
  simp only [isign_neg_iff]
  split
  · rename_i h
    refine ⟨⟨by simp only; omega, fun hr => ?_⟩, by simp only [Den]; ring⟩
    have := ha.2 hr
    simp only [Int.neg_gcd, Int.gcd_neg]; rwa [Int.gcd_comm]
  · rename_i h
    refine ⟨⟨by simp only; omega, fun hr => ?_⟩, by simp only [Den] <;> ring⟩
    have := ha.2 hr
    simp only; rwa [Int.gcd_comm]

-- ---- powers ----------------------------------------------------------------------------------------------------
theorem ipow_eq (b : Int) (e : Nat) : ipow b e = b ^ e := by
  unfold ipow
  split_ifs with h1 h2 h3 h4 h5
  · subst h1 h2; rfl
  · subst h1; exact (zero_pow h2).symm
  · subst h3; exact (one_pow e).symm
  · subst h4; exact (Even.neg_one_pow (Nat.even_iff.mpr h5)).symm
  · subst h4; exact (Odd.neg_one_pow (Nat.odd_iff.mpr (by omega))).symm
  · rfl

theorem absS64_toNat (y : Int) (h : InS64 y) : (wrapU64 (absS64 y)).toNat = y.natAbs := by
  unfold InS64 at h; unfold wrapU64 absS64 wrapS64
  split <;> omega

theorem absS64_neg_toNat (y : Int) (h : InS64 y) : (wrapU64 (absS64 (wrapS64 (-y)))).toNat = y.natAbs := by
  unfold InS64 at h; unfold wrapU64 absS64 wrapS64
  split <;> omega

theorem valid_pow (red : Bool) (n d : Int) (e : Nat) (h : Valid red ⟨n, d⟩) : Valid red ⟨n ^ e, d ^ e⟩ :=
  ⟨pow_pos h.1 e, fun hr => (cop_iff _ _).mpr (IsCoprime.pow ((cop_iff _ _).mp (h.2 hr)))⟩

/-- `pow(const Rational&, int64_t)` for every `int64_t` exponent, `INT64_MIN` included -/
theorem powS64_spec (red : Bool) (x : QRep) (y : Int) (hx : Valid red x) (hy : InS64 y) (hnz : ¬ (x.num = 0 ∧ y < 0)) :
    Valid red (powS64 x y) ∧
    (0 ≤ y → powS64 x y = ⟨x.num ^ y.natAbs, x.den ^ y.natAbs⟩) ∧
    (y < 0 → Den (powS64 x y) (x.den ^ y.natAbs) (x.num ^ y.natAbs)) := by
  obtain ⟨n, d⟩ := x
  unfold powS64 ipowS64
  simp only [ipow_eq, absS64_toNat y hy, absS64_neg_toNat y hy, isign_neg_iff]
  by_cases h0 : 0 ≤ y
  · have h0' : y ≥ 0 := h0
    have h0'' : ¬ y < 0 := by omega
    rw [if_pos h0']
    exact ⟨valid_pow red n d _ hx, fun _ => rfl, fun h => absurd h h0''⟩
  · have h0' : ¬ y ≥ 0 := h0
    rw [if_neg h0']
    have hn : n ≠ 0 := fun h => hnz ⟨h, by omega⟩
    have hv := valid_pow red n d y.natAbs hx
    have hne : n ^ y.natAbs ≠ 0 := pow_ne_zero _ hn
    split
    · rename_i hneg
      refine ⟨⟨by simp only; omega, fun hr => ?_⟩, fun h => absurd h h0, fun _ => by simp only [Den] <;> ring⟩
      have := hv.2 hr
      simp only [Int.neg_gcd, Int.gcd_neg]; rwa [Int.gcd_comm]
    · rename_i hneg
      refine ⟨⟨by simp only; omega, fun hr => ?_⟩, fun h => absurd h h0, fun _ => by simp only [Den] <;> ring⟩
      have := hv.2 hr
      simp only; rwa [Int.gcd_comm]

/-- `pow(const Rational&, uint32_t|uint64_t)` -/
theorem powU_spec (red : Bool) (x : QRep) (l : Int) (hx : Valid red x) (hl : 0 ≤ l) :
    Valid red (powU x l) ∧ powU x l = ⟨x.num ^ l.toNat, x.den ^ l.toNat⟩ := by
  obtain ⟨n, d⟩ := x
  have e : powU ⟨n, d⟩ l = ⟨n ^ l.toNat, d ^ l.toNat⟩ := by
    unfold powU ipowU
    simp only [ipow_eq]
    split
    · rename_i h; subst h; simp
    · rfl
  rw [e]
  exact ⟨valid_pow red n d _ hx, rfl⟩

-- ---- constructors --------------------------------------------------------------------------------------------------
theorem canon_int (n : Int) : Canon ⟨n, 1⟩ := ⟨Int.one_pos, Int.gcd_one_right n⟩

/-- every reducing pair constructor: `Rational(Integer,Integer)`, `(int64_t,int64_t)`, `(int32_t,int32_t)` -/
theorem mk3_red_spec (n d : Int) (h : d ≠ 0) : ∃ r, mk3 n d 1 = some r ∧ Canon r ∧ Den r n d := by
  rw [mk3_red n d h]
  by_cases hp : 0 < d
  · simp only [hp, ↓reduceIte]
    obtain ⟨c, e⟩ := reduce_spec ⟨n, d⟩ hp
    exact ⟨_, rfl, c, e⟩
  · simp only [hp, ↓reduceIte]
    obtain ⟨c, e⟩ := reduce_spec ⟨-n, -d⟩ (by simp only; omega)
    refine ⟨_, rfl, c, ?_⟩
    simp only [Den] at e ⊢
    linear_combination (-1 : Int) * e

theorem mk3_zero (n : Int) (red : Int) : mk3 n 0 red = none := by simp [mk3]

/-- the three-argument constructor with `red ≠ 1`: sign-normalised, not reduced -/
theorem mk3_nored_spec (n d red : Int) (h : d ≠ 0) (hr : red ≠ 1) : ∃ r, mk3 n d red = some r ∧ 0 < r.den ∧ Den r n d := by
  unfold mk3 isign
  by_cases hp : 0 < d
  · have e1 : ¬ d < 0 := by omega
    simp only [h, e1, hr, ↓reduceIte]
    exact ⟨_, rfl, by simp [hp], by simp [Den]⟩
  · have e1 : d < 0 := by omega
    simp only [h, e1, hr, ↓reduceIte]
    refine ⟨_, rfl, by simp; omega, by simp only [Den]; simp⟩

theorem mk2S_eq (n d : Int) : mk2S n d = mk3 n d 1 := by
  unfold mk2S mk3 isign
  by_cases h : d = 0
  · simp [h]
  · by_cases hp : 0 < d
    · have e1 : ¬ d < 0 := by omega
      simp [h, hp, e1]
    · have e1 : d < 0 := by omega
      have e2 : ¬ d > 0 := by omega
      simp [h, e1, e2]

theorem mk2U_spec (n d : Int) (hn : 0 ≤ n) (hd : 0 < d) : ∃ r, mk2U n d = some r ∧ Canon r ∧ Den r n d := by
  unfold mk2U
  have h : d ≠ 0 := by omega
  simp only [h, ↓reduceIte]
  split
  · rename_i h0
    subst h0
    obtain ⟨c, e⟩ := reduce_spec ⟨0, 1⟩ Int.one_pos
    refine ⟨_, rfl, c, ?_⟩
    simp only [Den] at e ⊢
    simp at e
    simp [e]
  · obtain ⟨c, e⟩ := reduce_spec ⟨n, d⟩ hd
    exact ⟨_, rfl, c, e⟩

theorem mk2U_zero (n : Int) : mk2U n 0 = none := by simp [mk2U]

-- ---- Rational(double) ---------------------------------------------------------------------------------------------
theorem reduce_if (red : Bool) (q : QRep) (hq : 0 < q.den) :
    Valid red (if red = true then reduce q else q) ∧ Den (if red = true then reduce q else q) q.num q.den := by
  cases red
  · exact ⟨⟨hq, fun h => by cases h⟩, rfl⟩
  · obtain ⟨c, e⟩ := reduce_spec q hq
    exact ⟨canon_valid c true, e⟩

theorem den_trans {r q : QRep} {n d : Int} (hq : q.den ≠ 0) (h1 : Den r q.num q.den) (h2 : Den q n d) : Den r n d := by
  simp only [Den] at *
  apply Int.eq_of_mul_eq_mul_right hq
  linear_combination d * h1 + r.den * h2

theorem pow2_pos (k : Int) : 0 < pow2 k := by unfold pow2; positivity

theorem ofDouble_spec (red : Bool) (s e m : Int) (hs : s = 0 ∨ s = 1) (he0 : 0 ≤ e) (he : e < 2047)
    (hm0 : 0 ≤ m) (hm : m < 4503599627370496) :
    ∃ r, ofDouble red s e m = some r ∧ Valid red r ∧ Den r (doubleFrac s e m).1 (doubleFrac s e m).2 := by
  unfold ofDouble doubleFrac
  by_cases h0 : e = 0
  · subst h0
    have hP : pow2 1074 = 2 ^ 1074 := rfl
    have hnum : (if (s == 1 && !((0 : Int) == 0 && m == 0)) = true then -m else m) = (if s = 1 then -1 else 1) * m := by
      rcases hs with rfl | rfl
      · simp
      · by_cases hm' : m = 0
        · subst hm'; simp
        · simp [hm']
    simp only [↓reduceIte, hnum, ofInteger_eq]
    obtain ⟨r0, h1, h2, h3⟩ := divin_spec red ⟨(if s = 1 then -1 else 1) * m, 1⟩ ⟨pow2 1074, 1⟩ (valid_int _ _) (valid_int _ _)
      (by simp only; have := pow2_pos 1074; omega)
    simp only [h1]
    obtain ⟨v, d⟩ := reduce_if red r0 h2.1
    refine ⟨_, rfl, v, den_trans (by have := h2.1; omega) d ?_⟩
    simp only [Den, hP] at h3 ⊢
    generalize (2 : Int) ^ 1074 = P at *
    linear_combination h3
  · have hneg : (s == 1 && !(e == 0 && m == 0)) = (s == 1) := by simp [h0]
    simp only [h0, ↓reduceIte, hneg, beq_iff_eq]
    by_cases hsh : 1075 - e > 0
    · have e1 : ¬ e ≥ 1075 := by omega
      simp only [hsh, e1, ↓reduceIte]
      obtain ⟨v, d⟩ := reduce_if red ⟨if s = 1 then -(m + 4503599627370496) else m + 4503599627370496, pow2 (1075 - e)⟩ (pow2_pos _)
      refine ⟨_, rfl, v, ?_⟩
      simp only [Den, pow2] at d ⊢
      rw [d]; split <;> ring
    · have e1 : e ≥ 1075 := by omega
      simp only [hsh, e1, ↓reduceIte]
      obtain ⟨v, d⟩ := reduce_if red ⟨if s = 1 then -((m + 4503599627370496) * pow2 (-(1075 - e))) else (m + 4503599627370496) * pow2 (-(1075 - e)), 1⟩ Int.one_pos
      refine ⟨_, rfl, v, ?_⟩
      simp only [Den, pow2] at d ⊢
      rw [d, show -(1075 - e) = e - 1075 by ring]; split <;> ring

-- ---- rounding to Integer -----------------------------------------------------------------------------------------
theorem floor_spec (a : QRep) (hd : 0 < a.den) :
    floor a * a.den ≤ a.num ∧ a.num < (floor a + 1) * a.den := by
  unfold floor
  rw [Int.fdiv_eq_ediv_of_nonneg _ (by omega)]
  exact ⟨Int.ediv_mul_le _ (by omega), Int.lt_ediv_add_one_mul_self _ hd⟩

theorem ceil_spec (a : QRep) (hd : 0 < a.den) :
    (ceil a - 1) * a.den < a.num ∧ a.num ≤ ceil a * a.den := by
  unfold ceil
  rw [Int.fdiv_eq_ediv_of_nonneg _ (by omega)]
  have h1 := Int.ediv_mul_le (-a.num) (by omega : a.den ≠ 0)
  have h2 := Int.lt_ediv_add_one_mul_self (-a.num) hd
  constructor <;> linarith

/-- truncation is towards zero: the floor of a non-negative value, the ceiling of a negative one -/
theorem trunc_spec (a : QRep) (hd : 0 < a.den) :
    trunc a = if 0 ≤ a.num then floor a else ceil a := by
  unfold trunc floor ceil idiv
  rw [Int.fdiv_eq_ediv_of_nonneg _ (by omega), Int.fdiv_eq_ediv_of_nonneg _ (by omega)]
  split
  · rename_i h; exact Int.tdiv_eq_ediv_of_nonneg h
  · rename_i h
    have : a.num = -(-a.num) := by omega
    rw [this, Int.neg_tdiv, Int.tdiv_eq_ediv_of_nonneg (by omega)]
    simp

/-- `round`: nearest integer, ties away from zero -/
theorem round_spec {c : Int → Int → Int} (hc : CmpAbsOK c) (a : QRep) (hd : 0 < a.den) :
    2 * a.den * round c a - a.den ≤ 2 * a.num ∧ 2 * a.num ≤ 2 * a.den * round c a + a.den ∧
    (0 ≤ a.num → 2 * a.num ≠ 2 * a.den * round c a + a.den) ∧
    (a.num < 0 → 2 * a.num ≠ 2 * a.den * round c a - a.den) := by
  obtain ⟨n, d⟩ := a
  simp only at hd ⊢
  have hN0 : 0 ≤ iabs n := by unfold iabs; split <;> omega
  have hNn : (n < 0 → iabs n = -n) ∧ (0 ≤ n → iabs n = n) := by unfold iabs; constructor <;> intro h <;> simp [h] <;> omega
  unfold round idivmod
  rw [Int.tdiv_eq_ediv_of_nonneg hN0, Int.tmod_eq_emod_of_nonneg hN0]
  have hr0 : 0 ≤ iabs n % d := Int.emod_nonneg _ (by omega)
  have hrd : iabs n % d < d := Int.emod_lt_of_pos _ hd
  have hqr : d * (iabs n / d) + iabs n % d = iabs n := Int.mul_ediv_add_emod _ _
  have hcmp : (c (iabs n % d * 2) d ≥ 0) ↔ d ≤ iabs n % d * 2 := by
    have := (hc (iabs n % d * 2) d).1
    rw [iabs_eq d, iabs_eq (iabs n % d * 2), abs_of_pos hd, abs_of_nonneg (by omega)] at this
    constructor
    · intro h; by_contra hh; have := this.mpr (by omega); omega
    · intro h; by_contra hh; have := this.mp (by omega); omega
  generalize iabs n / d = q at *
  generalize iabs n % d = r at *
  generalize iabs n = N at *
  have e1 : ¬ r < 0 := by omega
  simp only [e1, ↓reduceIte, Bool.and_eq_true, decide_eq_true_eq, bne_iff_ne, ne_eq, hcmp]
  by_cases hn : n < 0
  · have hN := hNn.1 hn
    simp only [hn, ↓reduceIte]
    split_ifs with k
    · refine ⟨by linarith, by linarith, fun h => by omega, fun _ h => ?_⟩
      have := k.2; linarith
    · have k' : r = 0 ∨ r * 2 < d := by
        by_cases hr : r = 0
        · left; exact hr
        · right; by_contra hh; exact k ⟨hr, by omega⟩
      refine ⟨by rcases k' with k' | k' <;> linarith, by linarith, fun h => by omega, fun _ h => ?_⟩
      rcases k' with k' | k' <;> linarith
  · have hN := hNn.2 (by omega)
    simp only [hn, ↓reduceIte]
    split_ifs with k
    · refine ⟨by linarith, by linarith, fun _ h => ?_, fun h => by first | omega | exact h.elim⟩
      have := k.2; linarith
    · have k' : r = 0 ∨ r * 2 < d := by
        by_cases hr : r = 0
        · left; exact hr
        · right; by_contra hh; exact k ⟨hr, by omega⟩
      refine ⟨by linarith, by rcases k' with k' | k' <;> linarith, fun _ h => ?_, fun h => by first | omega | exact h.elim⟩
      rcases k' with k' | k' <;> linarith

-- ---- the reference functions of Spec/RationalSpec.lean ---------------------------------------------------------------
/-- a canonical pair is determined by the value it denotes -/
theorem canon_unique {r s : QRep} (hr : Canon r) (hs : Canon s) (h : r.num * s.den = s.num * r.den) : r = s := by
  obtain ⟨rn, rd⟩ := r
  obtain ⟨sn, sd⟩ := s
  obtain ⟨hr1, hr2⟩ := hr
  obtain ⟨hs1, hs2⟩ := hs
  simp only at *
  have cr := (cop_iff _ _).mp hr2
  have cs := (cop_iff _ _).mp hs2
  have d1 : rd ∣ sd := cr.symm.dvd_of_dvd_mul_left ⟨sn, by linear_combination h⟩
  have d2 : sd ∣ rd := cs.symm.dvd_of_dvd_mul_left ⟨rn, by linear_combination -h⟩
  have e : rd = sd := Int.dvd_antisymm (by omega) (by omega) d1 d2
  subst e
  have : rn = sn := Int.eq_of_mul_eq_mul_right (by omega : rd ≠ 0) h
  subst this
  rfl

theorem normalize_canon (n d : Int) (hd : d ≠ 0) : Canon (normalize n d) ∧ Den (normalize n d) n d := by
  obtain ⟨g, n', d', hg, hgpos, hn, hd', hc⟩ := gcd_decomp n d (Or.inr hd)
  have hg0 : g ≠ 0 := by omega
  unfold normalize
  unfold igcd at hg
  simp only [hg]
  subst hn hd'
  rw [Int.mul_ediv_cancel _ hg0, Int.mul_ediv_cancel _ hg0]
  split
  · rename_i hneg
    have hd'neg : d' < 0 := by
      by_contra hh
      have : 0 ≤ d' * g := Int.mul_nonneg (by omega) (by omega)
      omega
    exact ⟨⟨by simp only; omega, (cop_iff _ _).mpr hc.neg_neg⟩, by simp only [Den]; ring⟩
  · rename_i hneg
    have hd'pos : 0 < d' := by
      by_contra hh
      have : d' * g ≤ 0 := Int.mul_nonpos_of_nonpos_of_nonneg (by omega) (by omega)
      have : d' = 0 := by
        by_contra h0
        have : d' * g < 0 := Int.mul_neg_of_neg_of_pos (by omega) hgpos
        omega
      subst this
      simp at hd
    exact ⟨⟨hd'pos, (cop_iff _ _).mpr hc⟩, by simp only [Den]; ring⟩

/-- the driver's canonical-result check is exactly "canonical and of value n/d" -/
theorem normalize_iff (r : QRep) (n d : Int) (hd : d ≠ 0) : r = normalize n d ↔ Canon r ∧ Den r n d := by
  obtain ⟨c, e⟩ := normalize_canon n d hd
  constructor
  · intro h; subst h; exact ⟨c, e⟩
  · intro ⟨hc, he⟩
    apply canon_unique hc c
    simp only [Den] at he e
    apply Int.eq_of_mul_eq_mul_right hd
    linear_combination (normalize n d).den * he - r.den * e

theorem canonB_iff (r : QRep) : canonB r = true ↔ Canon r := by
  unfold canonB Canon; simp
theorem validB_iff (red : Bool) (r : QRep) : validB red r = true ↔ Valid red r := by
  unfold validB Valid; cases red <;> simp
theorem sameValueB_iff (r : QRep) (n d : Int) : sameValueB r n d = true ↔ Den r n d := by
  unfold sameValueB Den; simp

-- ---- the driver's reference functions for order and rounding ---------------------------------------------------------
theorem floorSpec_eq (a : QRep) (hd : 0 < a.den) : floorSpec a.num a.den = floor a := by
  unfold floorSpec floor; rw [Int.fdiv_eq_ediv_of_nonneg _ (by omega)]

theorem ceilSpec_eq (a : QRep) (hd : 0 < a.den) : ceilSpec a.num a.den = ceil a := by
  unfold ceilSpec ceil; rw [Int.fdiv_eq_ediv_of_nonneg _ (by omega)]

theorem truncSpec_eq (a : QRep) (hd : 0 < a.den) : truncSpec a.num a.den = trunc a := by
  rw [trunc_spec a hd, ← floorSpec_eq a hd, ← ceilSpec_eq a hd]
  unfold truncSpec floorSpec ceilSpec
  by_cases h : 0 ≤ a.num
  · have : a.num ≥ 0 := h
    simp [h, this]
  · have : ¬ a.num ≥ 0 := h
    simp [h, this]

/-- the characterisation of `round_spec` determines the integer -/
theorem round_unique (n d R1 R2 : Int) (hd : 0 < d)
    (a1 : 2 * d * R1 - d ≤ 2 * n) (b1 : 2 * n ≤ 2 * d * R1 + d) (c1 : 0 ≤ n → 2 * n ≠ 2 * d * R1 + d) (e1 : n < 0 → 2 * n ≠ 2 * d * R1 - d)
    (a2 : 2 * d * R2 - d ≤ 2 * n) (b2 : 2 * n ≤ 2 * d * R2 + d) (c2 : 0 ≤ n → 2 * n ≠ 2 * d * R2 + d) (e2 : n < 0 → 2 * n ≠ 2 * d * R2 - d) :
    R1 = R2 := by
  have key : ∀ x y : Int, 2 * d * x - d ≤ 2 * n → 2 * n ≤ 2 * d * y + d → x ≤ y + 1 := by
    intro x y hx hy
    by_contra hh
    have h2 : y + 2 ≤ x := by omega
    have : d * (y + 2) ≤ d * x := Int.mul_le_mul_of_nonneg_left h2 (by omega)
    nlinarith
  have k1 := key R1 R2 a1 b2
  have k2 := key R2 R1 a2 b1
  rcases (by omega : R1 = R2 ∨ R1 = R2 + 1 ∨ R2 = R1 + 1) with h | h | h
  · exact h
  · exfalso
    subst h
    have t1 : 2 * n = 2 * d * R2 + d := by nlinarith
    have t2 : 2 * n = 2 * d * (R2 + 1) - d := by nlinarith
    by_cases hn : 0 ≤ n
    · exact c2 hn t1
    · exact e1 (by omega) t2
  · exfalso
    subst h
    have t1 : 2 * n = 2 * d * R1 + d := by nlinarith
    have t2 : 2 * n = 2 * d * (R1 + 1) - d := by nlinarith
    by_cases hn : 0 ≤ n
    · exact c1 hn t1
    · exact e2 (by omega) t2

theorem roundSpec_char (n d : Int) (hd : 0 < d) :
    2 * d * roundSpec n d - d ≤ 2 * n ∧ 2 * n ≤ 2 * d * roundSpec n d + d ∧
    (0 ≤ n → 2 * n ≠ 2 * d * roundSpec n d + d) ∧ (n < 0 → 2 * n ≠ 2 * d * roundSpec n d - d) := by
  unfold roundSpec
  by_cases h : n ≥ 0
  · simp only [h, ↓reduceIte]
    have h1 := Int.ediv_mul_le (2 * n + d) (by omega : 2 * d ≠ 0)
    have h2 := Int.lt_ediv_add_one_mul_self (2 * n + d) (by omega : 0 < 2 * d)
    generalize (2 * n + d) / (2 * d) = k at *
    refine ⟨by nlinarith, by nlinarith, fun _ hh => by nlinarith, fun hh => by omega⟩
  · simp only [h, ↓reduceIte]
    have h1 := Int.ediv_mul_le (2 * (-n) + d) (by omega : 2 * d ≠ 0)
    have h2 := Int.lt_ediv_add_one_mul_self (2 * (-n) + d) (by omega : 0 < 2 * d)
    generalize (2 * (-n) + d) / (2 * d) = k at *
    refine ⟨by nlinarith, by nlinarith, fun hh => by first | omega | exact hh.elim | exact absurd hh h, fun _ hh => by nlinarith⟩

theorem roundSpec_eq {c : Int → Int → Int} (hc : CmpAbsOK c) (a : QRep) (hd : 0 < a.den) :
    roundSpec a.num a.den = round c a := by
  obtain ⟨a1, b1, c1, e1⟩ := roundSpec_char a.num a.den hd
  obtain ⟨a2, b2, c2, e2⟩ := round_spec hc a hd
  exact round_unique a.num a.den _ _ hd a1 b1 c1 e1 a2 b2 c2 e2

theorem isign_cases (x : Int) : (isign x < 0 ↔ x < 0) ∧ (isign x = 0 ↔ x = 0) ∧ (isign x > 0 ↔ x > 0) := by
  unfold isign; split_ifs <;> refine ⟨?_, ?_, ?_⟩ <;> constructor <;> intro h <;> first | omega | exact h.elim | simp_all

end Givaro.Lemmas.Rational
