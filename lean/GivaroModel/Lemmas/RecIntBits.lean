/- C06 helper lemmas: complement and negation. -/
import GivaroModel.Lemmas.RecIntShift
namespace Givaro.Model.RecInt

theorem not_ok : ∀ {n : Nat} (a : RU n), WF a → WF (not_ a) ∧ val (not_ a) + val a + 1 = Bn n
  | _, .limb c, hw => by
      simp only [WF] at hw
      rw [Bn_zero]
      simp only [not_, WF, val]
      simp only [B64] at *; omega
  | _, .node (n := n) l h, hw => by
      have hl := not_ok l hw.1
      have hh := not_ok h hw.2
      simp only [not_, WF_node, val_node]
      refine ⟨⟨hl.1, hh.1⟩, ?_⟩
      rw [Bn_succ]
      linear_combination hl.2 + Bn n * hh.2

theorem neg_ok {n : Nat} (a : RU n) (hw : WF a) : WF (neg a) ∧ val (neg a) = (Bn n - val a) % Bn n := by
  have h1 := not_ok a hw
  have h2 := add_1_ok (not_ a) h1.1
  have h3 := h2.exact
  unfold neg
  refine ⟨h2.1, ?_⟩
  rw [h3.1]; congr 1; omega

end Givaro.Model.RecInt
