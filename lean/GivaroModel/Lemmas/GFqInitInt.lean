/-
C04 (round 2) — every `GFqDom::init` overload looks up the code `a mod q` (or returns `zero` for a negative multiple of `q`).
-/
import GivaroModel.Model.GFqInitInt
import GivaroModel.Lemmas.GFqInit
import Mathlib.Tactic.Ring
import Mathlib.Tactic.Linarith
import Mathlib.Tactic.LinearCombination
import Mathlib.Data.Int.ModEq
namespace Givaro.Lemmas.GFqInitInt
open Givaro Givaro.Spec.GFq Givaro.Model.GFqInitInt
open Givaro.Model.MontInit (Src)

/-- what every overload computes: `none` (= `return r = zero`) for a negative multiple of `q`, else the code `a mod q` -/
def want (q a : Int) : Option Int := if a < 0 ∧ a % q = 0 then none else some (a % q)

theorem condmod {q t : Int} (hq : 0 < q) (ht : 0 ≤ t) : (if t ≥ q then t % q else t) = t % q := by
  split
  · rfl
  · exact (Int.emod_eq_of_lt ht (by omega)).symm

/-- the remainder of a negative source from the remainder of its magnitude -/
theorem neg_emod {q a : Int} (hq : 0 < q) :
    ((-a) % q = 0 → a % q = 0) ∧ ((-a) % q ≠ 0 → a % q = q - (-a) % q) := by
  have hd := Int.emod_add_mul_ediv (-a) q
  have u0 := Int.emod_nonneg (-a) (show q ≠ 0 by omega)
  have u1 := Int.emod_lt_of_pos (-a) hq
  constructor
  · intro h
    have : q ∣ a := ⟨-((-a) / q), by rw [h] at hd; linear_combination hd⟩
    exact Int.emod_eq_zero_of_dvd this
  · intro h
    have hdvd : q ∣ (q - (-a) % q) - a := ⟨((-a) / q) + 1, by linear_combination -hd⟩
    have : a % q = (q - (-a) % q) % q := Int.ModEq.eq (Int.modEq_iff_dvd.mpr hdvd)
    rw [this]
    exact Int.emod_eq_of_lt (by omega) (by omega)

/-- the shape shared by the negative branches: from the reduced magnitude `u = (-a) mod q` -/
theorem want_neg {q a : Int} (hq : 0 < q) (ha : a < 0) :
    (if (-a) % q ≠ 0 then some (q - (-a) % q) else none) = want q a := by
  obtain ⟨h0, h1⟩ := neg_emod (a := a) hq
  unfold want
  by_cases h : (-a) % q = 0
  · simp only [h, ne_eq, not_true_eq_false, ↓reduceIte, ha, h0 h, and_self]
  · have := h1 h
    have u1 := Int.emod_lt_of_pos (-a) hq
    have u0 := Int.emod_nonneg (-a) (show q ≠ 0 by omega)
    have hne : ¬ (a < 0 ∧ a % q = 0) := by rw [this]; omega
    rw [if_pos h, if_neg hne, this]

theorem want_nonneg {q a : Int} (ha : ¬ a < 0) : want q a = some (a % q) := by
  unfold want; simp only [ha, false_and, ↓reduceIte]

section
variable {q a : Int}

theorem codeU64_spec (hq : 2 ≤ q) (hqm : q ≤ 4294967296) (ha0 : 0 ≤ a) (ha1 : a ≤ 18446744073709551615) :
    codeU64 q a = want q a := by
  have u0 := Int.emod_nonneg a (show q ≠ 0 by omega)
  have u1 := Int.emod_lt_of_pos a (show 0 < q by omega)
  unfold codeU64
  simp only
  rw [condmod (by omega) ha0, want_nonneg (by omega)]
  congr 1
  unfold wrapU64; omega

theorem codeS64_spec (hq : 2 ≤ q) (hqm : q ≤ 4294967296) (ha0 : -9223372036854775808 ≤ a) (ha1 : a ≤ 9223372036854775807) :
    codeS64 q a = want q a := by
  have hq0 : 0 < q := by omega
  unfold codeS64
  by_cases hn : a < 0
  · simp only [hn, ↓reduceIte]
    have e1 : wrapU64 (0 - wrapU64 a) = -a := by unfold wrapU64; omega
    rw [e1, condmod hq0 (by omega)]
    have u0 := Int.emod_nonneg (-a) (show q ≠ 0 by omega)
    have u1 := Int.emod_lt_of_pos (-a) hq0
    have e2 : wrapU64 (wrapU64 q - wrapU64 (-a % q)) = q - (-a) % q := by unfold wrapU64; omega
    rw [e2]; exact want_neg hq0 hn
  · simp only [hn, ↓reduceIte]
    have e1 : wrapS64 q = q := by unfold wrapS64; omega
    rw [e1]
    have e2 : (if a ≥ q then Int.tmod a q else a) = a % q := by
      rw [Int.tmod_eq_emod_of_nonneg (by omega)]; exact condmod hq0 (by omega)
    have u0 := Int.emod_nonneg a (show q ≠ 0 by omega)
    have u1 := Int.emod_lt_of_pos a hq0
    rw [e2, want_nonneg hn]
    congr 1
    unfold wrapU64; omega

theorem codeS32_spec (hq : 2 ≤ q) (hqm : q ≤ 4294967296) (ha0 : -2147483648 ≤ a) (ha1 : a ≤ 2147483647) :
    codeS32 q a = want q a := by
  have hq0 : 0 < q := by omega
  unfold codeS32
  by_cases hn : a < 0
  · simp only [hn, ↓reduceIte]
    have e1 : wrapU32 (0 - wrapU32 a) = -a := by unfold wrapU32; omega
    rw [e1]
    have u0 := Int.emod_nonneg (-a) (show q ≠ 0 by omega)
    have u1 := Int.emod_lt_of_pos (-a) hq0
    have e3 : wrapU32 (-a % q) = -a % q := by unfold wrapU32; omega
    rw [e3, condmod hq0 (by omega)]
    have e2 : wrapU64 (wrapU64 q - wrapU64 (-a % q)) = q - (-a) % q := by unfold wrapU64; omega
    rw [e2]; exact want_neg hq0 hn
  · simp only [hn, ↓reduceIte]
    have u0 := Int.emod_nonneg a (show q ≠ 0 by omega)
    have u1 := Int.emod_lt_of_pos a hq0
    have e0 : wrapU32 a = a := by unfold wrapU32; omega
    rw [e0, want_nonneg hn]
    by_cases hlt : q < 2147483648
    · have e1 : wrapS32 q = q := by unfold wrapS32; omega
      have e3 : wrapS32 (a % q) = a % q := by unfold wrapS32; omega
      rw [e1, e3, condmod hq0 (by omega)]
      congr 1
      unfold wrapU64; omega
    · -- (int32_t)_q wraps for q ≥ 2^31 (never a table that exists): every source is below q, both branches return it
      have e4 : a % q = a := Int.emod_eq_of_lt (by omega) (by omega)
      rw [e4]
      have e3 : wrapS32 a = a := by unfold wrapS32; omega
      rw [e3]
      congr 1
      split <;> (unfold wrapU64; omega)

theorem codeZ_spec (W : Nat) (hW : W = 32 ∨ W = 64) (hq : 2 ≤ q) (hqm : q ≤ maxQ W) : codeZ W q a = want q a := by
  have hq0 : 0 < q := by omega
  have hqm' : q ≤ 4294967296 := by unfold maxQ at hqm; rcases hW with h | h <;> simp only [h] at hqm <;> omega
  have hqW : q < (if W = 32 then 4294967296 else 18446744073709551616 : Int) ∨ (W = 32 ∧ q ≤ 65536) := by
    rcases hW with h | h
    · right; unfold maxQ at hqm; simp only [h, ↓reduceIte] at hqm; exact ⟨h, hqm⟩
    · left; simp only [h]; omega
  have small : ∀ x, 0 ≤ x → x < q → wrapU W x = x := by
    intro x x0 x1
    unfold wrapU wrapU32 wrapU64
    rcases hW with h | h <;> simp only [h] <;> omega
  unfold codeZ
  by_cases hn : a < 0
  · simp only [hn, ↓reduceIte]
    have u0 := Int.emod_nonneg (-a) (show q ≠ 0 by omega)
    have u1 := Int.emod_lt_of_pos (-a) hq0
    -- `(Integer)(-_q)` is the non-negative `2^W - q`: the comparison holds for every negative source
    have hc : a ≤ wrapU W (-q) := by
      have : 0 ≤ wrapU W (-q) := by unfold wrapU wrapU32 wrapU64; rcases hW with h | h <;> simp only [h] <;> omega
      omega
    simp only [hc, ↓reduceIte]
    rw [small _ u0 u1]
    have e2 : (if -a % q ≠ 0 then some (wrapU64 (wrapU W (q - -a % q))) else none) =
        (if (-a) % q ≠ 0 then some (q - (-a) % q) else none) := by
      by_cases h : -a % q = 0
      · simp only [h, ne_eq, not_true_eq_false, ↓reduceIte]
      · simp only [ne_eq, h, not_false_eq_true, ↓reduceIte]
        rw [small _ (by omega) (by omega)]
        congr 1; unfold wrapU64; omega
    rw [e2]; exact want_neg hq0 hn
  · simp only [hn, ↓reduceIte]
    have u0 := Int.emod_nonneg a (show q ≠ 0 by omega)
    have u1 := Int.emod_lt_of_pos a hq0
    rw [want_nonneg hn]
    by_cases hge : a ≥ q
    · simp only [hge, ↓reduceIte]
      rw [small _ u0 u1]; congr 1; unfold wrapU64; omega
    · simp only [hge, ↓reduceIte]
      rw [small _ (by omega) (by omega), Int.emod_eq_of_lt (by omega) (by omega)]
      congr 1; unfold wrapU64; omega

/-- the reduction of `init(double)` on a non-negative integer-valued `tr` -/
theorem redF64_spec (W : Nat) (hW : W = 32 ∨ W = 64) (hq : 2 ≤ q) (hqm : q ≤ maxQ W) {t : Int} (ht : 0 ≤ t) :
    redF64 W q t = t % q := by
  have hq0 : 0 < q := by omega
  have u0 := Int.emod_nonneg t (show q ≠ 0 by omega)
  have u1 := Int.emod_lt_of_pos t hq0
  unfold redF64 smaxD wrapS wrapU maxQ at *
  rcases hW with h | h
  · simp only [h, ↓reduceIte] at hqm ⊢
    by_cases h1 : t ≥ 4294967295
    · simp only [h1, ↓reduceIte]
    · simp only [h1, ↓reduceIte]
      have e1 : wrapS32 q = q := by unfold wrapS32; omega
      have e2 : wrapU32 t = t := by unfold wrapU32; omega
      rw [e1, e2]; exact condmod hq0 ht
  · have h32 : ¬ (64 = 32) := by decide
    simp only [h, h32, ↓reduceIte] at hqm ⊢
    by_cases h1 : t ≥ 18446744073709551616
    · simp only [h1, ↓reduceIte]
    · simp only [h1, ↓reduceIte]
      have e1 : wrapS64 q = q := by unfold wrapS64; omega
      have e2 : wrapU64 t = t := by unfold wrapU64; omega
      rw [e1, e2]; exact condmod hq0 ht

theorem codeF64_spec (W : Nat) (hW : W = 32 ∨ W = 64) (hq : 2 ≤ q) (hqm : q ≤ maxQ W) : codeF64 W q a = want q a := by
  have hq0 : 0 < q := by omega
  have hqm' : q ≤ 4294967296 := by unfold maxQ at hqm; rcases hW with h | h <;> simp only [h] at hqm <;> omega
  have small : ∀ x, 0 ≤ x → x ≤ q → wrapU W x = x := by
    intro x x0 x1
    unfold maxQ at hqm
    unfold wrapU wrapU32 wrapU64
    rcases hW with h | h <;> simp only [h, ↓reduceIte] at hqm ⊢ <;> omega
  unfold codeF64
  by_cases hn : a < 0
  · simp only [hn, ↓reduceIte]
    rw [redF64_spec W hW hq hqm (show 0 ≤ -a by omega)]
    have u0 := Int.emod_nonneg (-a) (show q ≠ 0 by omega)
    have u1 := Int.emod_lt_of_pos (-a) hq0
    have e2 : (if -a % q ≠ 0 then some (wrapU64 (wrapU W (q - wrapU W (-a % q)))) else none) =
        (if (-a) % q ≠ 0 then some (q - (-a) % q) else none) := by
      by_cases h : -a % q = 0
      · simp only [h, ne_eq, not_true_eq_false, ↓reduceIte]
      · simp only [ne_eq, h, not_false_eq_true, ↓reduceIte]
        rw [small _ u0 (by omega), small _ (by omega) (by omega)]
        congr 1; unfold wrapU64; omega
    rw [e2]; exact want_neg hq0 hn
  · simp only [hn, ↓reduceIte]
    rw [redF64_spec W hW hq hqm (show 0 ≤ a by omega), want_nonneg hn]
    have u0 := Int.emod_nonneg a (show q ≠ 0 by omega)
    have u1 := Int.emod_lt_of_pos a hq0
    congr 1; unfold wrapU64; omega

end

/-- overload resolution: every source type, every value of it -/
theorem code_spec (W : Nat) (hW : W = 32 ∨ W = 64) (q : Int) (hq : 2 ≤ q) (hqm : q ≤ maxQ W) (s : Src) (a : Int) (ha : s.holds a) :
    code W q s a = want q a := by
  have hqm' : q ≤ 4294967296 := by unfold maxQ at hqm; rcases hW with h | h <;> simp only [h] at hqm <;> omega
  cases s <;> unfold code <;> unfold Src.holds at ha
  · exact codeS32_spec hq hqm' (by omega) (by omega)
  · exact codeS32_spec hq hqm' (by omega) (by omega)
  · exact codeS32_spec hq hqm' (by omega) (by omega)
  · exact codeS32_spec hq hqm' (by omega) (by omega)
  · exact codeS32_spec hq hqm' (by omega) (by omega)
  · exact codeU64_spec hq hqm' (by omega) (by omega)
  · exact codeS64_spec hq hqm' (by omega) (by omega)
  · exact codeU64_spec hq hqm' (by omega) (by omega)
  · exact codeF64_spec W hW hq hqm
  · exact codeF64_spec W hW hq hqm
  · exact codeZ_spec W hW hq hqm

end Givaro.Lemmas.GFqInitInt
