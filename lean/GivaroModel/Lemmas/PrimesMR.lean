/- C12 — lemmas about the model of `Miller` / `test_Lehmann` / `Lehmann` (Model/PrimesMR.lean): the loops as closed formulas,
   Fermat's little theorem + "the only square roots of 1 in a field are ±1" for the strong test, Euler's criterion for Lehmann. -/
import GivaroModel.Model.PrimesMR
import GivaroModel.Lemmas.GmpLemmas
import Mathlib.FieldTheory.Finite.Basic
import Mathlib.NumberTheory.LegendreSymbol.Basic
namespace Givaro.Lemmas.Primes
open Givaro Givaro.Model.Primes

/-- the halving loop finds the odd part and the 2-adic valuation (fuel `≥ t·2^s` suffices) -/
theorem millerSplit_eq : ∀ (s fuel t s0 : Nat), t % 2 = 1 → t * 2 ^ s ≤ fuel → millerSplit fuel (t * 2 ^ s) s0 = (t, s0 + s) := by
  intro s
  induction s with
  | zero =>
    intro fuel t s0 ht hf
    cases fuel with
    | zero => omega
    | succ f => simp [millerSplit, ht]
  | succ s ih =>
    intro fuel t s0 ht hf
    have hpos : 0 < t * 2 ^ s := Nat.mul_pos (by omega) (Nat.two_pow_pos s)
    have he : t * 2 ^ (s + 1) = (t * 2 ^ s) * 2 := by rw [pow_succ]; ring
    cases fuel with
    | zero => omega
    | succ f =>
      have h1 : ¬ (t * 2 ^ (s + 1) % 2 = 1) := by omega
      have h2 : t * 2 ^ (s + 1) / 2 = t * 2 ^ s := by omega
      unfold millerSplit
      simp only [h1, ↓reduceIte, h2]
      rw [ih f t (s0 + 1) ht (by omega)]
      congr 1
      omega

theorem millerSquares_01 (N : Nat) : ∀ s q, millerSquares N s q = 0 ∨ millerSquares N s q = 1
  | 0, _ => Or.inl rfl
  | 1, _ => Or.inl rfl
  | s+2, q => by
    unfold millerSquares
    simp only
    split
    · exact Or.inr rfl
    · exact millerSquares_01 N (s + 1) _

/-- the squaring loop returns 1 exactly when one of the squares `x^(2^r)`, `1 ≤ r < s`, is `N-1` -/
theorem millerSquares_iff (N : Nat) : ∀ (s x : Nat),
    millerSquares N s (x % N) = 1 ↔ ∃ r, 1 ≤ r ∧ r < s ∧ x ^ (2 ^ r) % N = N - 1
  | 0, x => by simp [millerSquares]
  | 1, x => by
    simp only [millerSquares]
    constructor
    · intro h; omega
    · rintro ⟨r, h1, h2, _⟩; omega
  | s+2, x => by
    have hq : (x % N) * (x % N) % N = x ^ 2 % N := by rw [pow_two]; exact (Nat.mul_mod x x N).symm
    unfold millerSquares
    simp only [hq]
    by_cases h : x ^ 2 % N = N - 1
    · simp only [h, ↓reduceIte, true_iff]
      exact ⟨1, le_refl _, by omega, by simpa using h⟩
    · simp only [h, ↓reduceIte]
      rw [millerSquares_iff N (s + 1) (x ^ 2)]
      constructor
      · rintro ⟨r, h1, h2, h3⟩
        refine ⟨r + 1, by omega, by omega, ?_⟩
        rw [pow_succ, Nat.mul_comm, pow_mul]; exact h3
      · rintro ⟨r, h1, h2, h3⟩
        have hr : r ≠ 1 := by
          intro h1'; subst h1'; apply h; simpa using h3
        refine ⟨r - 1, by omega, by omega, ?_⟩
        have : x ^ 2 ^ r = (x ^ 2) ^ 2 ^ (r - 1) := by
          rw [← pow_mul]; congr 1
          have : r = (r - 1) + 1 := by omega
          conv_lhs => rw [this, pow_succ]
          ring
        rw [← this]; exact h3

/-- `Miller` on naturals -/
theorem millerBase_nat (N a : Nat) (h : 4 ≤ N) :
    millerBase (N : Int) (a : Int) =
      (if powModNat a (millerSplit N (N - 1) 0).1 N = 1 ∨ powModNat a (millerSplit N (N - 1) 0).1 N = N - 1 then 1
       else millerSquares N (millerSplit N (N - 1) 0).2 (powModNat a (millerSplit N (N - 1) 0).1 N)) := by
  unfold millerBase
  have h1 : ¬ ((N : Int) < 2) := by omega
  have h2 : ¬ ((N : Int) ≤ 3) := by omega
  simp only [h1, h2, ↓reduceIte, Int.toNat_natCast]

/-- **closed form of `Miller` for a given base**: with `N - 1 = t·2^s`, `t` odd, the answer is 1 exactly when
    `a^t ≡ ±1` or `a^(t·2^r) ≡ -1` for some `1 ≤ r < s` (mod N) -/
theorem millerBase_iff (N a t s : Nat) (h : 4 ≤ N) (ht : t % 2 = 1) (hN : N - 1 = t * 2 ^ s) :
    millerBase (N : Int) (a : Int) = 1 ↔
      (a ^ t % N = 1 ∨ a ^ t % N = N - 1 ∨ ∃ r, 1 ≤ r ∧ r < s ∧ a ^ (t * 2 ^ r) % N = N - 1) := by
  rw [millerBase_nat N a h]
  have hs : millerSplit N (N - 1) 0 = (t, s) := by
    have := millerSplit_eq s N t 0 ht (by omega)
    rw [← hN] at this
    simpa using this
  rw [hs]
  simp only
  rw [powModNat_spec a t N (by omega)]
  by_cases h1 : a ^ t % N = 1
  · simp [h1]
  by_cases h2 : a ^ t % N = N - 1
  · simp [h2]
  simp only [h1, h2, false_or, ↓reduceIte]
  rw [millerSquares_iff N s (a ^ t)]
  constructor
  · rintro ⟨r, a1, a2, a3⟩; exact ⟨r, a1, a2, by rw [pow_mul]; exact a3⟩
  · rintro ⟨r, a1, a2, a3⟩; exact ⟨r, a1, a2, by rw [← pow_mul]; exact a3⟩

theorem millerBase_01 (n a : Int) : millerBase n a = 0 ∨ millerBase n a = 1 := by
  unfold millerBase
  split
  · exact Or.inl rfl
  split
  · exact Or.inr rfl
  simp only
  split
  · exact Or.inr rfl
  · exact millerSquares_01 _ _ _

/-- every 2-power root of 1 in a field is 1, or one of its iterated squares is -1 -/
theorem sq_chain {F : Type*} [Field F] : ∀ (s : Nat) (x : F), x ^ (2 ^ s) = 1 → x = 1 ∨ ∃ r, r < s ∧ x ^ (2 ^ r) = -1 := by
  intro s
  induction s with
  | zero => intro x hx; left; simpa using hx
  | succ s ih =>
    intro x hx
    have h2 : (x ^ (2 ^ s)) ^ 2 = 1 := by rw [← pow_mul, ← pow_succ]; exact hx
    have h3 : (x ^ (2 ^ s) - 1) * (x ^ (2 ^ s) + 1) = 0 := by ring_nf; ring_nf at h2; rw [h2]; ring
    rcases mul_eq_zero.1 h3 with h | h
    · rcases ih x (sub_eq_zero.1 h) with h' | ⟨r, hr, h'⟩
      · exact Or.inl h'
      · exact Or.inr ⟨r, by omega, h'⟩
    · exact Or.inr ⟨s, by omega, eq_neg_of_add_eq_zero_left h⟩

theorem natCast_pred_eq_neg_one (N : Nat) (h : 1 ≤ N) : ((N - 1 : Nat) : ZMod N) = -1 := by
  have : ((N - 1 : Nat) : ZMod N) + 1 = 0 := by
    have h1 : ((N - 1 : Nat) : ZMod N) + 1 = ((N - 1 + 1 : Nat) : ZMod N) := by push_cast; ring
    rw [h1, Nat.sub_add_cancel h]; exact ZMod.natCast_self N
  exact eq_neg_of_add_eq_zero_left this

theorem zmod_eq_one_iff (N x : Nat) (h : 2 ≤ N) : (x : ZMod N) = 1 ↔ x % N = 1 := by
  have : (x : ZMod N) = ((1 : Nat) : ZMod N) ↔ x % N = 1 % N := ZMod.natCast_eq_natCast_iff' x 1 N
  rw [Nat.mod_eq_of_lt (by omega : 1 < N)] at this
  simpa using this

theorem zmod_eq_neg_one_iff (N x : Nat) (h : 2 ≤ N) : (x : ZMod N) = -1 ↔ x % N = N - 1 := by
  rw [← natCast_pred_eq_neg_one N (by omega)]
  have : (x : ZMod N) = ((N - 1 : Nat) : ZMod N) ↔ x % N = (N - 1) % N := ZMod.natCast_eq_natCast_iff' x (N - 1) N
  rw [Nat.mod_eq_of_lt (by omega : N - 1 < N)] at this
  exact this

/-- **a prime passes the strong test for every base that it does not divide** -/
theorem millerBase_prime (N a : Nat) (h : 4 ≤ N) (hp : Nat.Prime N) (ha : a % N ≠ 0) : millerBase (N : Int) (a : Int) = 1 := by
  have := Fact.mk hp
  -- N - 1 = t * 2^s
  obtain ⟨s, t, htodd, hts⟩ := Nat.exists_eq_two_pow_mul_odd (n := N - 1) (by omega)
  have ht : t % 2 = 1 := Nat.odd_iff.1 htodd
  have hN : N - 1 = t * 2 ^ s := by rw [hts]; ring
  rw [millerBase_iff N a t s h ht hN]
  have ha0 : (a : ZMod N) ≠ 0 := by
    intro h0
    exact ha ((ZMod.natCast_eq_zero_iff a N).1 h0 |> Nat.mod_eq_zero_of_dvd)
  have hf : (a : ZMod N) ^ (N - 1) = 1 := ZMod.pow_card_sub_one_eq_one ha0
  have hx : ((a : ZMod N) ^ t) ^ (2 ^ s) = 1 := by rw [← pow_mul, ← hN]; exact hf
  rcases sq_chain s _ hx with h1 | ⟨r, hr, h1⟩
  · left
    have : ((a ^ t : Nat) : ZMod N) = 1 := by push_cast; exact h1
    exact (zmod_eq_one_iff N _ (by omega)).1 this
  · right
    have : ((a ^ (t * 2 ^ r) : Nat) : ZMod N) = -1 := by push_cast; rw [pow_mul]; exact h1
    have h2 := (zmod_eq_neg_one_iff N _ (by omega)).1 this
    rcases Nat.eq_zero_or_pos r with h0 | hpos
    · left; subst h0; simpa using h2
    · right; exact ⟨r, hpos, hr, h2⟩

/-! ### Lehmann -/

theorem testLehmannBase_nat (N A : Nat) (h : 1 ≤ N) :
    testLehmannBase (N : Int) (A : Int) = ((A ^ ((N - 1) / 2) % N : Nat) : Int) := by
  unfold testLehmannBase
  have h1 : (Int.tdiv ((N : Int) - 1) 2).toNat = (N - 1) / 2 := by
    rw [Int.tdiv_eq_ediv_of_nonneg (by omega)]
    omega
  rw [h1, Int.toNat_natCast, Int.toNat_natCast, powModNat_spec _ _ _ (by omega)]

/-- for a prime modulus the value `test_Lehmann` returns is 1 or n-1 for every base it does not divide (Euler) -/
theorem testLehmann_prime (N A : Nat) (hp : Nat.Prime N) (ha : A % N ≠ 0) :
    testLehmannBase (N : Int) (A : Int) = 1 ∨ testLehmannBase (N : Int) (A : Int) = (N : Int) - 1 := by
  have := Fact.mk hp
  have h2 := hp.two_le
  rw [testLehmannBase_nat N A (by omega)]
  rcases Nat.lt_or_ge N 3 with hlt | hge
  · have hN : N = 2 := by omega
    subst hN
    left
    simp
  have hodd : N % 2 = 1 := by
    rcases hp.eq_two_or_odd with h | h
    · omega
    · exact h
  have hhalf : (N - 1) / 2 = N / 2 := by omega
  have ha0 : (A : ZMod N) ≠ 0 := by
    intro h0
    exact ha ((ZMod.natCast_eq_zero_iff A N).1 h0 |> Nat.mod_eq_zero_of_dvd)
  rw [hhalf]
  rcases ZMod.pow_div_two_eq_neg_one_or_one N ha0 with h1 | h1
  · left
    have : ((A ^ (N / 2) : Nat) : ZMod N) = 1 := by push_cast; exact h1
    have := (zmod_eq_one_iff N _ (by omega)).1 this
    rw [this]; rfl
  · right
    have : ((A ^ (N / 2) : Nat) : ZMod N) = -1 := by push_cast; exact h1
    have := (zmod_eq_neg_one_iff N _ (by omega)).1 this
    rw [this]; omega

/-- `Lehmann` answers 1 exactly when `A^((n-1)/2) ≡ -1 (mod n)` -/
theorem lehmannBase_iff (N A : Nat) (h : 4 ≤ N) :
    lehmannBase (N : Int) (A : Int) = 1 ↔ A ^ ((N - 1) / 2) % N = N - 1 := by
  unfold lehmannBase
  have h1 : ¬ ((N : Int) < 2) := by omega
  have h2 : ¬ ((N : Int) ≤ 3) := by omega
  simp only [h1, h2, ↓reduceIte]
  rw [testLehmannBase_nat N A (by omega)]
  constructor
  · intro hh
    split at hh
    · next h3 => omega
    · omega
  · intro hh
    rw [hh]
    have : (((N - 1 : Nat) : Int)) = (N : Int) - 1 := by omega
    simp [this]

/-- for a prime n > 3, `Lehmann` answers 1 exactly for the quadratic non-residues -/
theorem lehmannBase_prime_iff (N A : Nat) (h : 4 ≤ N) (hp : Nat.Prime N) (ha : A % N ≠ 0) :
    lehmannBase (N : Int) (A : Int) = 1 ↔ ¬ IsSquare (A : ZMod N) := by
  have := Fact.mk hp
  rw [lehmannBase_iff N A h]
  have hodd : N % 2 = 1 := by
    rcases hp.eq_two_or_odd with h' | h'
    · omega
    · exact h'
  have hhalf : (N - 1) / 2 = N / 2 := by omega
  have ha0 : (A : ZMod N) ≠ 0 := by
    intro h0
    exact ha ((ZMod.natCast_eq_zero_iff A N).1 h0 |> Nat.mod_eq_zero_of_dvd)
  rw [hhalf, ZMod.euler_criterion N ha0, ← zmod_eq_neg_one_iff N _ (by omega)]
  push_cast
  have hne : (1 : ZMod N) ≠ -1 := by
    intro h1
    have : ((2 : Nat) : ZMod N) = 0 := by push_cast; rw [← one_add_one_eq_two]; nth_rewrite 1 [h1]; ring
    have := (ZMod.natCast_eq_zero_iff 2 N).1 this
    have := Nat.le_of_dvd (by omega) this
    omega
  constructor
  · intro h1 h2; rw [h2] at h1; exact hne h1
  · intro h1
    rcases ZMod.pow_div_two_eq_neg_one_or_one N ha0 with h2 | h2
    · exact absurd h2 h1
    · exact h2

end Givaro.Lemmas.Primes
