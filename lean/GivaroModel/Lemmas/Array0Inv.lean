/-
C17 — the representation invariant of the Array0 model and its preservation by every operation.
-/
import GivaroModel.Model.Array0
namespace Givaro.Model.Array0
variable {α : Type}

/-! ### counting -/

theorem countBelow_congr {p q : Nat → Bool} : ∀ n, (∀ k, k < n → p k = q k) → countBelow p n = countBelow q n
  | 0, _ => rfl
  | n + 1, h => by
    simp only [countBelow]
    rw [countBelow_congr n (fun k hk => h k (by omega)), h n (by omega)]

/-- changing the predicate at one point `h < n` moves the count by the difference at `h` -/
theorem countBelow_update {p q : Nat → Bool} (h : Nat) : ∀ n, h < n → (∀ k, k ≠ h → q k = p k) →
    countBelow q n + (if p h then 1 else 0) = countBelow p n + (if q h then 1 else 0)
  | 0, hn, _ => by omega
  | n + 1, hn, hq => by
    simp only [countBelow]
    by_cases e : h = n
    · subst e
      have := countBelow_congr (p := q) (q := p) h (fun k hk => hq k (by omega))
      rw [this]; omega
    · have ih := countBelow_update h n (by omega) hq
      rw [hq n (fun x => e x.symm)]; omega

theorem countBelow_pos {p : Nat → Bool} : ∀ n, 0 < countBelow p n → ∃ k, k < n ∧ p k = true
  | 0, h => by simp [countBelow] at h
  | n + 1, h => by
    simp only [countBelow] at h
    by_cases e : p n = true
    · exact ⟨n, by omega, e⟩
    · simp only [e] at h
      obtain ⟨k, hk, hp⟩ := countBelow_pos n (by simpa using h)
      exact ⟨k, by omega, hp⟩

/-- `p` switched off at `h` -/
def offAt (p : Nat → Bool) (h : Nat) : Nat → Bool := fun k => if k = h then false else p k

theorem countBelow_offAt {p : Nat → Bool} {n h : Nat} (hn : h < n) (hp : p h = true) :
    countBelow (offAt p h) n + 1 = countBelow p n := by
  have := countBelow_update (p := p) (q := offAt p h) h n hn (fun k hk => by simp [offAt, hk])
  have e : offAt p h h = false := by simp [offAt]
  rw [hp, e] at this
  simpa using this

theorem countBelow_ge_one {p : Nat → Bool} {n h : Nat} (hn : h < n) (hp : p h = true) : 1 ≤ countBelow p n := by
  have := countBelow_offAt hn hp; omega

/-- a second witness when the count is at least two -/
theorem countBelow_other {p : Nat → Bool} {n h : Nat} (hn : h < n) (hp : p h = true) (h2 : 2 ≤ countBelow p n) :
    ∃ g, g < n ∧ g ≠ h ∧ p g = true := by
  have := countBelow_offAt hn hp
  obtain ⟨g, hg, hq⟩ := countBelow_pos (p := offAt p h) n (by omega)
  by_cases e : g = h
  · simp [offAt, e] at hq
  · simp [offAt, e] at hq; exact ⟨g, hg, e, hq⟩

/-- the only witness when the count is one -/
theorem countBelow_unique {p : Nat → Bool} {n h g : Nat} (hn : h < n) (gn : g < n) (hp : p h = true) (gp : p g = true)
    (h1 : countBelow p n = 1) : g = h := by
  apply Classical.byContradiction; intro ne
  have := countBelow_offAt hn hp
  have := countBelow_ge_one (p := offAt p h) gn (by simp [offAt, ne, gp])
  omega

/-! ### the invariant -/

/-- a handle is either completely empty or refers to a live counter cell and a live data block of `_psz` cells -/
def WFH (s : State α) (H : Handle) : Prop :=
  (H.psz = 0 → H = Handle.empty) ∧
  (H.psz ≠ 0 → ∃ c b, H.cnt = some c ∧ H.d = some b ∧ s.clive c = true ∧ s.dlive b = true ∧
      H.size ≤ H.psz ∧ (s.ddata b).length = H.psz)

structure Inv (s : State α) : Prop where
  nofault : s.fault = false
  wf : ∀ h, h < s.n → WFH s (s.hs h)
  /-- handles share the counter exactly when they share the block, and then agree on sizes -/
  pair : ∀ h g, h < s.n → g < s.n → (s.hs h).psz ≠ 0 → (s.hs g).psz ≠ 0 →
    (((s.hs h).cnt = (s.hs g).cnt ↔ (s.hs h).d = (s.hs g).d) ∧
     ((s.hs h).d = (s.hs g).d → (s.hs h).size = (s.hs g).size ∧ (s.hs h).psz = (s.hs g).psz))
  /-- every live counter holds the number of handles that point to it, and that number is not zero -/
  rc : ∀ c, s.clive c = true → s.cval c = (sharers s c : Int) ∧ 1 ≤ sharers s c
  /-- every live data block is referred to by a handle -/
  down : ∀ b, s.dlive b = true → ∃ h, h < s.n ∧ (s.hs h).d = some b ∧ (s.hs h).psz ≠ 0
  cbound : ∀ c, s.clive c = true → c < s.cnext
  dbound : ∀ b, s.dlive b = true → b < s.dnext

theorem wfh_empty (s : State α) : WFH s Handle.empty := ⟨fun _ => rfl, fun h => absurd rfl h⟩

theorem inv_init (n : Nat) : Inv (init α n) where
  nofault := rfl
  wf := fun _ _ => wfh_empty _
  pair := fun _ _ _ _ h => absurd rfl h
  rc := fun _ h => by simp [init] at h
  down := fun _ h => by simp [init] at h
  cbound := fun _ h => by simp [init] at h
  dbound := fun _ h => by simp [init] at h

theorem sharers_upd (s : State α) (hs' : Nat → Handle) (h c : Nat) (hn : h < s.n) (hframe : ∀ k, k ≠ h → hs' k = s.hs k) :
    countBelow (fun k => (hs' k).cnt == some c) s.n + (if (s.hs h).cnt == some c then 1 else 0)
      = sharers s c + (if (hs' h).cnt == some c then 1 else 0) := by
  unfold sharers
  exact countBelow_update (p := fun k => (s.hs k).cnt == some c) (q := fun k => (hs' k).cnt == some c) h s.n hn
    (fun k hk => by simp [hframe k hk])

theorem cnt_some_psz {s : State α} (I : Inv s) {h c : Nat} (hn : h < s.n) (hc : (s.hs h).cnt = some c) : (s.hs h).psz ≠ 0 := by
  intro h0
  have := (I.wf h hn).1 h0
  rw [this] at hc; simp [Handle.empty] at hc

theorem d_some_psz {s : State α} (I : Inv s) {h b : Nat} (hn : h < s.n) (hc : (s.hs h).d = some b) : (s.hs h).psz ≠ 0 := by
  intro h0
  have := (I.wf h hn).1 h0
  rw [this] at hc; simp [Handle.empty] at hc

end Givaro.Model.Array0

namespace Givaro.Model.Array0
variable {α : Type}

theorem setH_self (s : State α) (h : Nat) (H : Handle) (e : s.hs h = H) : setH s h H = s := by
  cases s with
  | mk n hs dlive ddata dnext clive cval cnext fault =>
    simp only [setH] at *
    congr
    funext j
    simp only [upd]; split
    · subst e; rename_i hj; rw [hj]
    · rfl

/-- facts about a handle that owns storage -/
theorem owner_facts {s : State α} (I : Inv s) {h : Nat} (hn : h < s.n) (hp : (s.hs h).psz ≠ 0) :
    ∃ c b, (s.hs h).cnt = some c ∧ (s.hs h).d = some b ∧ s.clive c = true ∧ s.dlive b = true ∧
      (s.hs h).size ≤ (s.hs h).psz ∧ (s.ddata b).length = (s.hs h).psz ∧
      s.cval c = (sharers s c : Int) ∧ 1 ≤ sharers s c := by
  obtain ⟨c, b, h1, h2, h3, h4, h5, h6⟩ := (I.wf h hn).2 hp
  exact ⟨c, b, h1, h2, h3, h4, h5, h6, (I.rc c h3).1, (I.rc c h3).2⟩

/-- another handle with the same counter has the same block -/
theorem same_cnt_same_d {s : State α} (I : Inv s) {h g c : Nat} (hn : h < s.n) (gn : g < s.n)
    (hc : (s.hs h).cnt = some c) (gc : (s.hs g).cnt = some c) : (s.hs g).d = (s.hs h).d := by
  have := (I.pair g h gn hn (cnt_some_psz I gn gc) (cnt_some_psz I hn hc)).1
  exact this.1 (by rw [hc, gc])

theorem same_d_same_cnt {s : State α} (I : Inv s) {h g b : Nat} (hn : h < s.n) (gn : g < s.n)
    (hc : (s.hs h).d = some b) (gc : (s.hs g).d = some b) : (s.hs g).cnt = (s.hs h).cnt := by
  have := (I.pair g h gn hn (d_some_psz I gn gc) (d_some_psz I hn hc)).1
  exact this.2 (by rw [hc, gc])

/-- the handle whose counter holds 1 is the only one that points to the counter -/
theorem sole_of_one {s : State α} (I : Inv s) {h g c : Nat} (hn : h < s.n) (gn : g < s.n)
    (hc : (s.hs h).cnt = some c) (gc : (s.hs g).cnt = some c) (hl : s.clive c = true) (one : s.cval c = 1) : g = h := by
  have e := (I.rc c hl).1
  have : sharers s c = 1 := by omega
  exact countBelow_unique (p := fun k => (s.hs k).cnt == some c) hn gn (by simp [hc]) (by simp [gc]) this

theorem destroy_dec_inv {s : State α} (I : Inv s) {h c : Nat} (hn : h < s.n) (hc : (s.hs h).cnt = some c)
    (hl : s.clive c = true) (hv : s.cval c - 1 ≠ 0) :
    Inv ({ s with cval := upd s.cval c (s.cval c - 1), hs := upd s.hs h Handle.empty } : State α) := by
  have hp := cnt_some_psz I hn hc
  obtain ⟨c', b, h1, h2, h3, h4, h5, h6, h7, h8⟩ := owner_facts I hn hp
  have ec : c' = c := by rw [hc] at h1; exact (Option.some.inj h1).symm
  subst ec
  have two : 2 ≤ sharers s c' := by omega
  have hsh : ∀ x, countBelow (fun k => ((upd s.hs h Handle.empty) k).cnt == some x) s.n + (if (s.hs h).cnt == some x then 1 else 0)
      = sharers s x + 0 := by
    intro x
    have := sharers_upd s (upd s.hs h Handle.empty) h x hn (fun k hk => upd_other _ _ _ _ hk)
    simpa [Handle.empty] using this
  refine ⟨I.nofault, ?_, ?_, ?_, ?_, I.cbound, I.dbound⟩
  · intro g gn
    show WFH _ (upd s.hs h Handle.empty g)
    by_cases e : g = h
    · subst e; rw [upd_same]; exact wfh_empty _
    · rw [upd_other _ _ _ _ e]; exact I.wf g gn
  · intro g1 g2 n1 n2
    show (upd s.hs h Handle.empty g1).psz ≠ 0 → (upd s.hs h Handle.empty g2).psz ≠ 0 → _
    by_cases e1 : g1 = h
    · subst e1; rw [upd_same]; intro x; exact absurd rfl x
    · by_cases e2 : g2 = h
      · subst e2; rw [upd_same]; intro _ x; exact absurd rfl x
      · simp only [upd_other _ _ _ _ e1, upd_other _ _ _ _ e2]; exact I.pair g1 g2 n1 n2
  · intro x xl
    have hx := hsh x
    have ⟨r1, r2⟩ := I.rc x xl
    show upd s.cval c' (s.cval c' - 1) x = ((countBelow (fun k => ((upd s.hs h Handle.empty) k).cnt == some x) s.n : Nat) : Int) ∧
      1 ≤ countBelow (fun k => ((upd s.hs h Handle.empty) k).cnt == some x) s.n
    by_cases e : x = c'
    · subst e; rw [upd_same]; simp [hc] at hx; omega
    · rw [upd_other _ _ _ _ e]
      have : ((s.hs h).cnt == some x) = false := by simp [hc]; exact fun q => e q.symm
      simp [this] at hx; omega
  · intro b' bl
    obtain ⟨g, gn, gd, gp⟩ := I.down b' bl
    by_cases e : g = h
    · subst e
      obtain ⟨g', gn', ne, gc'⟩ := countBelow_other (p := fun k => (s.hs k).cnt == some c') gn (by simp [hc]) two
      have gc'' : (s.hs g').cnt = some c' := by simpa using gc'
      refine ⟨g', gn', ?_, ?_⟩
      · show (upd s.hs g Handle.empty g').d = some b'
        rw [upd_other _ _ _ _ ne, same_cnt_same_d I gn gn' hc gc'', gd]
      · show (upd s.hs g Handle.empty g').psz ≠ 0
        rw [upd_other _ _ _ _ ne]; exact cnt_some_psz I gn' gc''
    · exact ⟨g, gn, by show (upd s.hs h Handle.empty g).d = some b'; rw [upd_other _ _ _ _ e]; exact gd,
        by show (upd s.hs h Handle.empty g).psz ≠ 0; rw [upd_other _ _ _ _ e]; exact gp⟩

end Givaro.Model.Array0

namespace Givaro.Model.Array0
variable {α : Type}

theorem destroy_rel_inv {s : State α} (I : Inv s) {h c b : Nat} (hn : h < s.n) (hc : (s.hs h).cnt = some c)
    (hd : (s.hs h).d = some b) (hl : s.clive c = true) (hv : s.cval c - 1 = 0) :
    Inv ({ s with cval := upd s.cval c 0, clive := upd s.clive c false, dlive := upd s.dlive b false,
                  hs := upd s.hs h Handle.empty } : State α) := by
  have one : s.cval c = 1 := by omega
  have hsh : ∀ x, countBelow (fun k => ((upd s.hs h Handle.empty) k).cnt == some x) s.n + (if (s.hs h).cnt == some x then 1 else 0)
      = sharers s x + 0 := by
    intro x
    have := sharers_upd s (upd s.hs h Handle.empty) h x hn (fun k hk => upd_other _ _ _ _ hk)
    simpa [Handle.empty] using this
  -- no other handle uses the counter or the block
  have other_c : ∀ g, g < s.n → g ≠ h → (s.hs g).cnt ≠ some c := fun g gn ne gc => ne (sole_of_one I hn gn hc gc hl one)
  have other_d : ∀ g, g < s.n → g ≠ h → (s.hs g).d ≠ some b := by
    intro g gn ne gd
    have := same_d_same_cnt I hn gn hd gd
    exact other_c g gn ne (by rw [this, hc])
  refine ⟨I.nofault, ?_, ?_, ?_, ?_, ?_, ?_⟩
  · intro g gn
    show WFH _ (upd s.hs h Handle.empty g)
    by_cases e : g = h
    · subst e; rw [upd_same]; exact wfh_empty _
    · rw [upd_other _ _ _ _ e]
      refine ⟨(I.wf g gn).1, fun gp => ?_⟩
      obtain ⟨c', b', h1, h2, h3, h4, h5, h6⟩ := (I.wf g gn).2 gp
      refine ⟨c', b', h1, h2, ?_, ?_, h5, h6⟩
      · show upd s.clive c false c' = true
        rw [upd_other _ _ _ _ (fun q => other_c g gn e (by rw [h1, q]))]; exact h3
      · show upd s.dlive b false b' = true
        rw [upd_other _ _ _ _ (fun q => other_d g gn e (by rw [h2, q]))]; exact h4
  · intro g1 g2 n1 n2
    show (upd s.hs h Handle.empty g1).psz ≠ 0 → (upd s.hs h Handle.empty g2).psz ≠ 0 → _
    by_cases e1 : g1 = h
    · subst e1; rw [upd_same]; intro x; exact absurd rfl x
    · by_cases e2 : g2 = h
      · subst e2; rw [upd_same]; intro _ x; exact absurd rfl x
      · simp only [upd_other _ _ _ _ e1, upd_other _ _ _ _ e2]; exact I.pair g1 g2 n1 n2
  · intro x xl
    have xl' : upd s.clive c false x = true := xl
    have e : x ≠ c := by intro q; subst q; rw [upd_same] at xl'; exact Bool.noConfusion xl'
    rw [upd_other _ _ _ _ e] at xl'
    have hx := hsh x
    have ⟨r1, r2⟩ := I.rc x xl'
    show upd s.cval c 0 x = ((countBelow (fun k => ((upd s.hs h Handle.empty) k).cnt == some x) s.n : Nat) : Int) ∧
      1 ≤ countBelow (fun k => ((upd s.hs h Handle.empty) k).cnt == some x) s.n
    rw [upd_other _ _ _ _ e]
    have : ((s.hs h).cnt == some x) = false := by simp [hc]; exact fun q => e q.symm
    simp [this] at hx; omega
  · intro b' bl
    have bl' : upd s.dlive b false b' = true := bl
    have e : b' ≠ b := by intro q; subst q; rw [upd_same] at bl'; exact Bool.noConfusion bl'
    rw [upd_other _ _ _ _ e] at bl'
    obtain ⟨g, gn, gd, gp⟩ := I.down b' bl'
    have ne : g ≠ h := by intro q; subst q; rw [hd] at gd; exact e (Option.some.inj gd).symm
    exact ⟨g, gn, by show (upd s.hs h Handle.empty g).d = some b'; rw [upd_other _ _ _ _ ne]; exact gd,
        by show (upd s.hs h Handle.empty g).psz ≠ 0; rw [upd_other _ _ _ _ ne]; exact gp⟩
  · intro x xl
    have xl' : upd s.clive c false x = true := xl
    have e : x ≠ c := by intro q; subst q; rw [upd_same] at xl'; exact Bool.noConfusion xl'
    rw [upd_other _ _ _ _ e] at xl'; exact I.cbound x xl'
  · intro x xl
    have xl' : upd s.dlive b false x = true := xl
    have e : x ≠ b := by intro q; subst q; rw [upd_same] at xl'; exact Bool.noConfusion xl'
    rw [upd_other _ _ _ _ e] at xl'; exact I.dbound x xl'

/-- `destroy` keeps the invariant and leaves the handle empty -/
theorem destroy_inv {s : State α} (I : Inv s) {h : Nat} (hn : h < s.n) :
    Inv (destroy s h) ∧ (destroy s h).hs h = Handle.empty ∧ (destroy s h).n = s.n := by
  by_cases hp : (s.hs h).psz = 0
  · have e := (I.wf h hn).1 hp
    have : destroy s h = s := by
      unfold destroy; simp only [hp, ↓reduceIte]; exact setH_self s h _ e
    rw [this]; exact ⟨I, e, rfl⟩
  · obtain ⟨c, b, h1, h2, h3, h4, h5, h6, h7, h8⟩ := owner_facts I hn hp
    by_cases hv : s.cval c - 1 = 0
    · have : destroy s h = ({ s with cval := upd s.cval c 0, clive := upd s.clive c false, dlive := upd s.dlive b false,
                                        hs := upd s.hs h Handle.empty } : State α) := by
        unfold destroy; simp [hp, h1, h2, h3, h4, hv]
      rw [this]; exact ⟨destroy_rel_inv I hn h1 h2 h3 hv, upd_same _ _ _, rfl⟩
    · have : destroy s h = ({ s with cval := upd s.cval c (s.cval c - 1), hs := upd s.hs h Handle.empty } : State α) := by
        unfold destroy; simp [hp, h1, h3, hv]
      rw [this]; exact ⟨destroy_dec_inv I hn h1 h3 hv, upd_same _ _ _, rfl⟩

end Givaro.Model.Array0

namespace Givaro.Model.Array0
variable {α : Type}

theorem countBelow_zero {p : Nat → Bool} {n : Nat} (h : ∀ k, k < n → p k = false) : countBelow p n = 0 := by
  apply Classical.byContradiction; intro ne
  obtain ⟨k, hk, pk⟩ := countBelow_pos (p := p) n (by omega)
  rw [h k hk] at pk; exact Bool.noConfusion pk

theorem attachFresh_inv {s : State α} (I : Inv s) {h : Nat} (hn : h < s.n) (he : s.hs h = Handle.empty)
    {l : List α} {sz : Nat} (hl : l.length ≠ 0) (hsz : sz ≤ l.length) :
    Inv (attachFresh s h l sz) ∧ (attachFresh s h l sz).n = s.n := by
  refine ⟨?_, rfl⟩
  have fresh_c : ∀ g, g < s.n → (s.hs g).cnt ≠ some s.cnext := by
    intro g gn gc
    obtain ⟨c, b, h1, _, h3, _⟩ := (I.wf g gn).2 (cnt_some_psz I gn gc)
    rw [gc] at h1; have := I.cbound c h3; have := Option.some.inj h1; omega
  have fresh_d : ∀ g, g < s.n → (s.hs g).d ≠ some s.dnext := by
    intro g gn gd
    obtain ⟨c, b, _, h2, _, h4, _⟩ := (I.wf g gn).2 (d_some_psz I gn gd)
    rw [gd] at h2; have := I.dbound b h4; have := Option.some.inj h2; omega
  have hsh : ∀ x, countBelow (fun k => ((upd s.hs h ⟨some s.cnext, sz, l.length, some s.dnext⟩) k).cnt == some x) s.n + 0
      = sharers s x + (if s.cnext = x then 1 else 0) := by
    intro x
    have := sharers_upd s (upd s.hs h ⟨some s.cnext, sz, l.length, some s.dnext⟩) h x hn (fun k hk => upd_other _ _ _ _ hk)
    simpa [he, Handle.empty] using this
  refine ⟨I.nofault, ?_, ?_, ?_, ?_, ?_, ?_⟩
  · intro g gn
    show WFH _ (upd s.hs h ⟨some s.cnext, sz, l.length, some s.dnext⟩ g)
    by_cases e : g = h
    · subst e; rw [upd_same]
      exact ⟨fun x => absurd x hl, fun _ => ⟨s.cnext, s.dnext, rfl, rfl, upd_same _ _ _, upd_same _ _ _, hsz, by
        show (upd s.ddata s.dnext l s.dnext).length = l.length
        rw [upd_same]⟩⟩
    · rw [upd_other _ _ _ _ e]
      refine ⟨(I.wf g gn).1, fun gp => ?_⟩
      obtain ⟨c', b', h1, h2, h3, h4, h5, h6⟩ := (I.wf g gn).2 gp
      have nc : c' ≠ s.cnext := by have := I.cbound c' h3; omega
      have nb : b' ≠ s.dnext := by have := I.dbound b' h4; omega
      refine ⟨c', b', h1, h2, ?_, ?_, h5, ?_⟩
      · show upd s.clive s.cnext true c' = true
        rw [upd_other _ _ _ _ nc]; exact h3
      · show upd s.dlive s.dnext true b' = true
        rw [upd_other _ _ _ _ nb]; exact h4
      · show (upd s.ddata s.dnext l b').length = _
        rw [upd_other _ _ _ _ nb]; exact h6
  · intro g1 g2 n1 n2
    have hX : ∀ k, (attachFresh s h l sz).hs k = upd s.hs h ⟨some s.cnext, sz, l.length, some s.dnext⟩ k := fun _ => rfl
    rw [hX g1, hX g2]
    by_cases e1 : g1 = h
    · by_cases e2 : g2 = h
      · subst e1; subst e2; intro _ _; exact ⟨⟨fun _ => rfl, fun _ => rfl⟩, fun _ => ⟨rfl, rfl⟩⟩
      · subst e1; rw [upd_same, upd_other _ _ _ _ e2]; intro _ _
        have a := fresh_c g2 n2; have b := fresh_d g2 n2
        exact ⟨⟨fun q => absurd q.symm a, fun q => absurd q.symm b⟩, fun q => absurd q.symm b⟩
    · by_cases e2 : g2 = h
      · subst e2; rw [upd_same, upd_other _ _ _ _ e1]; intro _ _
        have a := fresh_c g1 n1; have b := fresh_d g1 n1
        exact ⟨⟨fun q => absurd q a, fun q => absurd q b⟩, fun q => absurd q b⟩
      · simp only [upd_other _ _ _ _ e1, upd_other _ _ _ _ e2]; exact I.pair g1 g2 n1 n2
  · intro x xl
    have xl' : upd s.clive s.cnext true x = true := xl
    have hx := hsh x
    show upd s.cval s.cnext 1 x = ((countBelow (fun k => ((upd s.hs h ⟨some s.cnext, sz, l.length, some s.dnext⟩) k).cnt == some x) s.n : Nat) : Int) ∧
      1 ≤ countBelow (fun k => ((upd s.hs h ⟨some s.cnext, sz, l.length, some s.dnext⟩) k).cnt == some x) s.n
    by_cases e : x = s.cnext
    · subst e; rw [upd_same]
      have z : sharers s s.cnext = 0 := countBelow_zero (fun k hk => by simpa using fresh_c k hk)
      simp [z] at hx; omega
    · rw [upd_other _ _ _ _ e] at xl' ⊢
      have ⟨r1, r2⟩ := I.rc x xl'
      have : ¬ s.cnext = x := fun q => e q.symm
      simp [this] at hx; omega
  · intro b' bl
    have bl' : upd s.dlive s.dnext true b' = true := bl
    by_cases e : b' = s.dnext
    · subst e; exact ⟨h, hn, by show (upd s.hs h _ h).d = _; rw [upd_same], by show (upd s.hs h _ h).psz ≠ 0; rw [upd_same]; exact hl⟩
    · rw [upd_other _ _ _ _ e] at bl'
      obtain ⟨g, gn, gd, gp⟩ := I.down b' bl'
      have ne : g ≠ h := by intro q; subst q; rw [he] at gd; simp [Handle.empty] at gd
      exact ⟨g, gn, by show (upd s.hs h _ g).d = some b'; rw [upd_other _ _ _ _ ne]; exact gd,
        by show (upd s.hs h _ g).psz ≠ 0; rw [upd_other _ _ _ _ ne]; exact gp⟩
  · intro x xl
    have xl' : upd s.clive s.cnext true x = true := xl
    show x < s.cnext + 1
    by_cases e : x = s.cnext
    · omega
    · rw [upd_other _ _ _ _ e] at xl'; have := I.cbound x xl'; omega
  · intro x xl
    have xl' : upd s.dlive s.dnext true x = true := xl
    show x < s.dnext + 1
    by_cases e : x = s.dnext
    · omega
    · rw [upd_other _ _ _ _ e] at xl'; have := I.dbound x xl'; omega

end Givaro.Model.Array0

namespace Givaro.Model.Array0
variable {α : Type}

theorem attachShare_inv {s : State α} (I : Inv s) {h g : Nat} (hn : h < s.n) (gn : g < s.n) (ne : h ≠ g)
    (he : s.hs h = Handle.empty) : Inv (attachShare s h g) ∧ (attachShare s h g).n = s.n := by
  by_cases gp : (s.hs g).psz = 0
  · have e := (I.wf g gn).1 gp
    have : attachShare s h g = s := by
      unfold attachShare; simp only [gp, ne_eq, not_true_eq_false, ↓reduceIte]
      apply setH_self; rw [he, e]; rfl
    rw [this]; exact ⟨I, rfl⟩
  · obtain ⟨c, b, h1, h2, h3, h4, h5, h6, h7, h8⟩ := owner_facts I gn gp
    have eqn : attachShare s h g = ({ s with cval := upd s.cval c (s.cval c + 1),
                                             hs := upd s.hs h ⟨some c, (s.hs g).size, (s.hs g).psz, (s.hs g).d⟩ } : State α) := by
      unfold attachShare; simp [gp, h1, h3]
    rw [eqn]
    refine ⟨?_, rfl⟩
    have hsh : ∀ x, countBelow (fun k => ((upd s.hs h ⟨some c, (s.hs g).size, (s.hs g).psz, (s.hs g).d⟩) k).cnt == some x) s.n + 0
        = sharers s x + (if c = x then 1 else 0) := by
      intro x
      have := sharers_upd s (upd s.hs h ⟨some c, (s.hs g).size, (s.hs g).psz, (s.hs g).d⟩) h x hn (fun k hk => upd_other _ _ _ _ hk)
      simpa [he, Handle.empty] using this
    -- the new handle has the fields of `g`
    have asg : ∀ k, k < s.n → (s.hs k).psz ≠ 0 →
        (((s.hs g).cnt = (s.hs k).cnt ↔ (s.hs g).d = (s.hs k).d) ∧
         ((s.hs g).d = (s.hs k).d → (s.hs g).size = (s.hs k).size ∧ (s.hs g).psz = (s.hs k).psz)) :=
      fun k kn kp => I.pair g k gn kn gp kp
    refine ⟨I.nofault, ?_, ?_, ?_, ?_, I.cbound, I.dbound⟩
    · intro k kn
      show WFH _ (upd s.hs h _ k)
      by_cases e : k = h
      · subst e; rw [upd_same]
        exact ⟨fun x => absurd x gp, fun _ => ⟨c, b, rfl, h2, h3, h4, h5, h6⟩⟩
      · rw [upd_other _ _ _ _ e]; exact I.wf k kn
    · intro g1 g2 n1 n2
      have hX : ∀ k, ({ s with cval := upd s.cval c (s.cval c + 1),
                               hs := upd s.hs h ⟨some c, (s.hs g).size, (s.hs g).psz, (s.hs g).d⟩ } : State α).hs k
          = upd s.hs h ⟨some c, (s.hs g).size, (s.hs g).psz, (s.hs g).d⟩ k := fun _ => rfl
      rw [hX g1, hX g2]
      by_cases e1 : g1 = h
      · by_cases e2 : g2 = h
        · subst e1; subst e2; intro _ _; exact ⟨⟨fun _ => rfl, fun _ => rfl⟩, fun _ => ⟨rfl, rfl⟩⟩
        · subst e1; rw [upd_same, upd_other _ _ _ _ e2]; intro _ p2
          have := asg g2 n2 p2
          rw [h1] at this; exact this
      · by_cases e2 : g2 = h
        · subst e2; rw [upd_same, upd_other _ _ _ _ e1]; intro p1 _
          have := asg g1 n1 p1
          rw [h1] at this
          exact ⟨⟨fun q => (this.1.1 q.symm).symm, fun q => (this.1.2 q.symm).symm⟩,
                 fun q => ⟨(this.2 q.symm).1.symm, (this.2 q.symm).2.symm⟩⟩
        · simp only [upd_other _ _ _ _ e1, upd_other _ _ _ _ e2]; exact I.pair g1 g2 n1 n2
    · intro x xl
      have hx := hsh x
      have ⟨r1, r2⟩ := I.rc x xl
      show upd s.cval c (s.cval c + 1) x = ((countBelow (fun k => ((upd s.hs h ⟨some c, (s.hs g).size, (s.hs g).psz, (s.hs g).d⟩) k).cnt == some x) s.n : Nat) : Int) ∧
        1 ≤ countBelow (fun k => ((upd s.hs h ⟨some c, (s.hs g).size, (s.hs g).psz, (s.hs g).d⟩) k).cnt == some x) s.n
      by_cases e : x = c
      · subst e; rw [upd_same]; simp at hx; omega
      · rw [upd_other _ _ _ _ e]
        have : ¬ c = x := fun q => e q.symm
        simp [this] at hx; omega
    · intro b' bl
      obtain ⟨k, kn, kd, kp⟩ := I.down b' bl
      have nk : k ≠ h := by intro q; subst q; rw [he] at kd; simp [Handle.empty] at kd
      exact ⟨k, kn, by show (upd s.hs h _ k).d = some b'; rw [upd_other _ _ _ _ nk]; exact kd,
        by show (upd s.hs h _ k).psz ≠ 0; rw [upd_other _ _ _ _ nk]; exact kp⟩

/-- the fast path of `allocate`/`reallocate`: the sole owner changes its logical size within the capacity -/
theorem setSize_inv {s : State α} (I : Inv s) {h c sz : Nat} (hn : h < s.n) (hc : (s.hs h).cnt = some c)
    (one : s.cval c = 1) (hsz : sz ≤ (s.hs h).psz) :
    Inv (setH s h { (s.hs h) with size := sz }) := by
  have hp := cnt_some_psz I hn hc
  obtain ⟨c', b, h1, h2, h3, h4, h5, h6, h7, h8⟩ := owner_facts I hn hp
  have ec : c' = c := by rw [hc] at h1; exact (Option.some.inj h1).symm
  subst ec
  have hX : ∀ k, (setH s h { (s.hs h) with size := sz }).hs k = upd s.hs h { (s.hs h) with size := sz } k := fun _ => rfl
  have cnt_same : ∀ k, ((setH s h { (s.hs h) with size := sz }).hs k).cnt = (s.hs k).cnt := by
    intro k; rw [hX]; by_cases e : k = h
    · subst e; rw [upd_same]
    · rw [upd_other _ _ _ _ e]
  refine ⟨I.nofault, ?_, ?_, ?_, ?_, I.cbound, I.dbound⟩
  · intro k kn
    rw [hX]
    by_cases e : k = h
    · subst e; rw [upd_same]
      exact ⟨fun x => absurd x hp, fun _ => ⟨c', b, h1, h2, h3, h4, hsz, h6⟩⟩
    · rw [upd_other _ _ _ _ e]; exact I.wf k kn
  · intro g1 g2 n1 n2
    rw [hX g1, hX g2]
    by_cases e1 : g1 = h
    · by_cases e2 : g2 = h
      · subst e1; subst e2; intro _ _; exact ⟨⟨fun _ => rfl, fun _ => rfl⟩, fun _ => ⟨rfl, rfl⟩⟩
      · subst e1; rw [upd_same, upd_other _ _ _ _ e2]; intro _ p2
        have := I.pair g1 g2 n1 n2 hp p2
        refine ⟨this.1, fun q => ?_⟩
        have q' : (s.hs g1).cnt = (s.hs g2).cnt := this.1.2 q
        exact absurd (sole_of_one I n1 n2 hc (by rw [← q', hc]) h3 one) e2
    · by_cases e2 : g2 = h
      · subst e2; rw [upd_same, upd_other _ _ _ _ e1]; intro p1 _
        have := I.pair g1 g2 n1 n2 p1 hp
        refine ⟨this.1, fun q => ?_⟩
        have q' : (s.hs g1).cnt = (s.hs g2).cnt := this.1.2 q
        exact absurd (sole_of_one I n2 n1 hc (by rw [q', hc]) h3 one) e1
      · simp only [upd_other _ _ _ _ e1, upd_other _ _ _ _ e2]; exact I.pair g1 g2 n1 n2
  · intro x xl
    have : sharers (setH s h { (s.hs h) with size := sz }) x = sharers s x := by
      unfold sharers
      exact countBelow_congr _ (fun k _ => by rw [cnt_same k])
    rw [this]; exact I.rc x xl
  · intro b' bl
    obtain ⟨k, kn, kd, kp⟩ := I.down b' bl
    refine ⟨k, kn, ?_, ?_⟩
    · rw [hX]; by_cases e : k = h
      · subst e; rw [upd_same]; exact kd
      · rw [upd_other _ _ _ _ e]; exact kd
    · rw [hX]; by_cases e : k = h
      · subst e; rw [upd_same]; exact kp
      · rw [upd_other _ _ _ _ e]; exact kp

/-- overwriting cells of a block without changing its length -/
theorem setData_inv {s : State α} (I : Inv s) (b : Nat) (l : List α) (hl : l.length = (s.ddata b).length) :
    Inv ({ s with ddata := upd s.ddata b l } : State α) := by
  refine ⟨I.nofault, ?_, I.pair, I.rc, I.down, I.cbound, I.dbound⟩
  intro k kn
  refine ⟨(I.wf k kn).1, fun kp => ?_⟩
  obtain ⟨c', b', h1, h2, h3, h4, h5, h6⟩ := (I.wf k kn).2 kp
  refine ⟨c', b', h1, h2, h3, h4, h5, ?_⟩
  show (upd s.ddata b l b').length = _
  by_cases e : b' = b
  · subst e; rw [upd_same, hl]; exact h6
  · rw [upd_other _ _ _ _ e]; exact h6

end Givaro.Model.Array0
