/-
C05 — instantiation of the table soundness chain in Mathlib's quotient ring `(ZMod p)[X] ⧸ (f)` (`AdjoinRoot f`),
`f = X^k + Σ flow_i X^i` the polynomial whose p-adic code the object reports as `irreducible()`.
-/
import GivaroModel.Lemmas.GFqDecoding
import Mathlib.RingTheory.AdjoinRoot
import Mathlib.Algebra.CharP.Algebra
namespace Givaro.Lemmas.GFqZech
open Givaro.Model.Zech Givaro.Spec.GFq Polynomial

variable {p : Nat}

/-- the polynomial over `ZMod p` with coefficient list `l` (low degree first) -/
noncomputable def toPoly (p : Nat) : List Nat → (ZMod p)[X]
  | [] => 0
  | d :: ds => C (d : ZMod p) + X * toPoly p ds

/-- the modulus `f = X^k + flow` of a field description -/
noncomputable def modulus (F : Field) : (ZMod F.p)[X] := X ^ F.k + toPoly F.p F.flow

theorem mk_toPoly (f : (ZMod p)[X]) : ∀ l : List Nat, AdjoinRoot.mk f (toPoly p l) = ev (AdjoinRoot.root f) l
  | [] => by simp [toPoly, ev]
  | d :: ds => by
    simp only [toPoly, ev, map_add, map_mul, AdjoinRoot.mk_X, mk_toPoly f ds]
    congr 1

theorem root_modulus (F : Field) :
    ev (AdjoinRoot.root (modulus F)) F.flow + (AdjoinRoot.root (modulus F)) ^ F.k = 0 := by
  have h : AdjoinRoot.mk (modulus F) (X ^ F.k + toPoly F.p F.flow) = 0 := AdjoinRoot.mk_self
  rw [map_add, map_pow, AdjoinRoot.mk_X, mk_toPoly] at h
  rw [add_comm]; exact h

theorem p_zero (F : Field) [Fact (Nat.Prime F.p)] : ((F.p : Nat) : AdjoinRoot (modulus F)) = 0 := by
  have : ((F.p : Nat) : AdjoinRoot (modulus F)) = AdjoinRoot.of (modulus F) ((F.p : Nat) : ZMod F.p) :=
    (map_natCast (AdjoinRoot.of (modulus F)) F.p).symm
  rw [this, ZMod.natCast_self, map_zero]


/-- For a prime `p`, the decoding into Mathlib's quotient `(ZMod p)[X] ⧸ (f)`, `f = X^k + flow` the object's polynomial:
    a code is sent to the class of the polynomial with those p-adic digits. -/
theorem decoding_adjoinRoot (F : Field) [Fact (Nat.Prime F.p)] (hk : 1 ≤ F.k) :
    Decoding (AdjoinRoot (modulus F)) F (fun a => AdjoinRoot.mk (modulus F) (toPoly F.p (digits F.p F.k a))) := by
  have hp : 2 ≤ F.p := (Fact.out : Nat.Prime F.p).two_le
  have D := decoding_of_root (AdjoinRoot.root (modulus F)) (p_zero F) F rfl hp hk (fun _ => root_modulus F)
  have e : (fun a => AdjoinRoot.mk (modulus F) (toPoly F.p (digits F.p F.k a))) =
      (fun a => ev (AdjoinRoot.root (modulus F)) (digits F.p F.k a)) := by
    funext a; exact mk_toPoly _ _
  rw [e]; exact D

end Givaro.Lemmas.GFqZech
