/- C06 helper lemmas: single-bit shifts (`left_shift_1`, `right_shift_1`) are exact, lost bit included. -/
import GivaroModel.Lemmas.RecIntMul
import Mathlib.Data.Nat.Bitwise
namespace Givaro.Model.RecInt

theorem bits_pos (n : Nat) : 0 < bits n := by
  induction n with
  | zero => decide
  | succ n ih => simp only [bits]; omega

theorem Bn_even (n : Nat) : ∃ h, Bn n = 2 * h ∧ 0 < h := by
  refine ⟨2 ^ (bits n - 1), ?_, by positivity⟩
  unfold Bn
  have := bits_pos n
  rw [← pow_succ']; congr 1; omega

theorem limb_hbit (a : Nat) (ha : a < B64) : (a &&& 9223372036854775808 ≠ 0) ↔ 9223372036854775808 ≤ a := by
  have e : (9223372036854775808 : Nat) = 2 ^ 63 := by norm_num
  rw [e, Nat.and_two_pow, Nat.testBit_eq_decide_div_mod_eq]
  simp only [B64] at ha
  by_cases h : a / 2 ^ 63 % 2 = 1
  · simp [h]; omega
  · simp [h]; omega

theorem limb_lbit (a : Nat) : (a &&& 1 ≠ 0) ↔ a % 2 = 1 := by
  rw [Nat.and_one_is_mod]; omega

theorem set_lowest_bit_ok : ∀ {n : Nat} (x : RU n), WF x → val x % 2 = 0 →
    WF (set_lowest_bit x) ∧ val (set_lowest_bit x) = val x + 1
  | _, .limb a, hw, he => by
      simp only [WF] at hw
      simp only [val] at he
      have hor : a ||| 1 = a + 1 := by
        have h := Nat.two_pow_add_eq_or_of_lt (i := 1) (b := 1) (by decide) (a / 2)
        have e : 2 ^ 1 * (a / 2) = a := by rw [Nat.pow_one]; omega
        rw [e] at h; exact h.symm
      simp only [set_lowest_bit, WF, val]
      rw [hor]
      refine ⟨?_, rfl⟩
      simp only [B64] at *; omega
  | _, .node (n := n) l h, hw, he => by
      obtain ⟨k, hk, _⟩ := Bn_even n
      have hl : val l % 2 = 0 := by
        rw [val_node, hk] at he
        have : 2 * k * val h = 2 * (k * val h) := by ring
        omega
      have ih := set_lowest_bit_ok l hw.1 hl
      simp only [set_lowest_bit, WF_node, val_node, ih.2]
      exact ⟨⟨ih.1, hw.2⟩, by ring⟩

theorem set_highest_bit_ok : ∀ {n : Nat} (x : RU n), WF x → 2 * val x < Bn n →
    WF (set_highest_bit x) ∧ 2 * val (set_highest_bit x) = 2 * val x + Bn n
  | _, .limb a, hw, he => by
      rw [Bn_zero] at he
      simp only [WF] at hw
      simp only [val] at he
      rw [Bn_zero]
      have e : (9223372036854775808 : Nat) = 2 ^ 63 := by norm_num
      have h := Nat.or_two_pow_eq_add_of_lt (a := a) (n := 63) (by simp only [B64] at he; omega)
      simp only [set_highest_bit, WF, val, e, h]
      simp only [B64] at *; omega
  | _, .node (n := n) l h, hw, he => by
      have hB := Bn_pos n
      have hl := val_lt l hw.1
      rw [val_node, Bn_succ] at he
      have hh : 2 * val h < Bn n := by
        by_contra hc
        have : Bn n ≤ 2 * val h := by omega
        nlinarith
      have ih := set_highest_bit_ok h hw.2 hh
      simp only [set_highest_bit, WF_node, val_node]
      refine ⟨⟨hw.1, ih.1⟩, ?_⟩
      rw [Bn_succ]
      linear_combination Bn n * ih.2

/-- `left_shift_1(z, b, a)`: `b + z·2^bits = 2a` -/
theorem left_shift_1_ok : ∀ {n : Nat} (a : RU n), WF a →
    WF (left_shift_1 a).1 ∧ val (left_shift_1 a).1 + c2n (left_shift_1 a).2 * Bn n = 2 * val a
  | _, .limb a, hw => by
      simp only [WF] at hw
      rw [Bn_zero]
      simp only [left_shift_1, WF, val, c2n_decide, limb_hbit a hw]
      refine ⟨by simp only [B64]; omega, ?_⟩
      split <;> simp only [B64] at * <;> omega
  | _, .node (n := n) al ah, hw => by
      have hh := left_shift_1_ok ah hw.2
      have hl := left_shift_1_ok al hw.1
      obtain ⟨k, hk, _⟩ := Bn_even n
      have hc := c2n_le (left_shift_1 ah).2
      have hev : val (left_shift_1 ah).1 % 2 = 0 := by
        have := hh.2
        rw [hk] at this
        have e : c2n (left_shift_1 ah).2 * (2 * k) = 2 * (c2n (left_shift_1 ah).2 * k) := by ring
        omega
      have hs := set_lowest_bit_ok _ hh.1 hev
      simp only [left_shift_1, WF_node, val_node]
      rw [Bn_succ]
      cases hz : (left_shift_1 al).2
      · rw [hz] at hl; simp only [c2n_false, Nat.zero_mul, Nat.add_zero] at hl
        simp only [Bool.false_eq_true, ↓reduceIte]
        exact ⟨⟨hl.1, hh.1⟩, by linear_combination hl.2 + Bn n * hh.2⟩
      · rw [hz] at hl; simp only [c2n_true, Nat.one_mul] at hl
        simp only [↓reduceIte, hs.2]
        exact ⟨⟨hl.1, hs.1⟩, by linear_combination hl.2 + Bn n * hh.2⟩

/-- `right_shift_1(z, b, a)`: `2b + z = a` -/
theorem right_shift_1_ok : ∀ {n : Nat} (a : RU n), WF a →
    WF (right_shift_1 a).1 ∧ 2 * val (right_shift_1 a).1 + c2n (right_shift_1 a).2 = val a
  | _, .limb a, hw => by
      simp only [WF] at hw
      simp only [right_shift_1, WF, val, c2n_decide, limb_lbit a]
      refine ⟨by simp only [B64] at *; omega, ?_⟩
      split <;> omega
  | _, .node (n := n) al ah, hw => by
      have hh := right_shift_1_ok ah hw.2
      have hl := right_shift_1_ok al hw.1
      have hal := val_lt al hw.1
      have hc := c2n_le (right_shift_1 al).2
      have hlt : 2 * val (right_shift_1 al).1 < Bn n := by omega
      have hs := set_highest_bit_ok _ hl.1 hlt
      simp only [right_shift_1, WF_node, val_node]
      cases hz : (right_shift_1 ah).2
      · rw [hz] at hh; simp only [c2n_false, Nat.add_zero] at hh
        simp only [Bool.false_eq_true, ↓reduceIte]
        exact ⟨⟨hl.1, hh.1⟩, by linear_combination hl.2 + Bn n * hh.2⟩
      · rw [hz] at hh; simp only [c2n_true] at hh
        simp only [↓reduceIte]
        exact ⟨⟨hs.1, hh.1⟩, by linear_combination hs.2 + hl.2 + Bn n * hh.2⟩

end Givaro.Model.RecInt
