/-
C09 — refinement of the list arithmetic of `Model/PolyFactorArith.lean` to Mathlib's `Polynomial`, for the coefficient
record `fieldOps K` of an arbitrary Mathlib field `K` (zero, one, +, -, *, ⁻¹ of the field).
(`toPoly` in the style of C08's Lemmas/PolyLemmas.lean; this is C09's private copy over its own arithmetic.)
-/
import Mathlib.Algebra.Polynomial.FieldDivision
import Mathlib.Algebra.Polynomial.Derivative
import Mathlib.Tactic.Ring
import Mathlib.Tactic.LinearCombination
import Mathlib.RingTheory.Ideal.Quotient.Basic
import Mathlib.RingTheory.Ideal.Span
import Mathlib.RingTheory.Coprime.Lemmas
import Mathlib.FieldTheory.Separable
import GivaroModel.Model.PolyFactor
import GivaroModel.Spec.PolyFactorSpec
open Polynomial
set_option linter.unusedSectionVars false
set_option linter.unusedVariables false

namespace Givaro.Lemmas.PolyFactor
open Givaro.Model.PolyFactor Givaro.Spec.PolyFactor

/-- the coefficient record of a field: exactly its own operations -/
def fieldOps (K : Type) [Field K] : FOps K :=
  { zero := 0, one := 1, add := fun a b => a + b, neg := fun a => -a, mul := fun a b => a * b, inv := fun a => a⁻¹ }

variable {K : Type} [Field K] [DecidableEq K]

@[simp] theorem fo_zero : (fieldOps K).zero = 0 := rfl
@[simp] theorem fo_one : (fieldOps K).one = 1 := rfl
@[simp] theorem fo_add (a b : K) : (fieldOps K).add a b = a + b := rfl
@[simp] theorem fo_neg (a : K) : (fieldOps K).neg a = -a := rfl
@[simp] theorem fo_mul (a b : K) : (fieldOps K).mul a b = a * b := rfl
@[simp] theorem fo_inv (a : K) : (fieldOps K).inv a = a⁻¹ := rfl

/-- the polynomial denoted by a coefficient list (least significant first) -/
noncomputable def toPoly : List K → K[X]
  | [] => 0
  | a :: P => C a + X * toPoly P

@[simp] theorem toPoly_nil : toPoly ([] : List K) = 0 := rfl
@[simp] theorem toPoly_cons (a : K) (P : List K) : toPoly (a :: P) = C a + X * toPoly P := rfl

/-- no leading zero coefficient -/
def Normal (P : List K) : Prop := P.getLast? ≠ some 0

theorem coeff_toPoly (P : List K) (k : Nat) : (toPoly P).coeff k = P.getD k 0 := by
  induction P generalizing k with
  | nil => simp
  | cons a P ih =>
    cases k with
    | zero => simp
    | succ k => simp [coeff_X_mul, ih, coeff_C_succ]

theorem coeff_toPoly_of_le (P : List K) (k : Nat) (h : P.length ≤ k) : (toPoly P).coeff k = 0 := by
  rw [coeff_toPoly]; simp [List.getD_eq_getElem?_getD, List.getElem?_eq_none h]

theorem normal_tail {a : K} {P : List K} (h : Normal (a :: P)) : Normal P := by
  cases P with
  | nil => simp [Normal]
  | cons b Q => simpa [Normal, List.getLast?_cons_cons] using h

theorem toPoly_norm (P : List K) : toPoly (norm (fieldOps K) P) = toPoly P := by
  induction P with
  | nil => rfl
  | cons a P ih =>
    unfold norm
    split
    · next h =>
      obtain ⟨h1, h2⟩ := h
      rw [h1] at ih
      simp only [fo_zero] at h2
      simp [h2, ← ih]
    · simp [ih]

theorem norm_normal (P : List K) : Normal (norm (fieldOps K) P) := by
  induction P with
  | nil => simp [norm, Normal]
  | cons a P ih =>
    unfold norm
    split
    · simp [Normal]
    · next h =>
      by_cases hP : norm (fieldOps K) P = []
      · have ha : a ≠ 0 := fun h0 => h ⟨hP, by simpa using h0⟩
        simp [hP, Normal, ha]
      · obtain ⟨b, Q, hbq⟩ := List.exists_cons_of_ne_nil hP
        rw [hbq] at ih ⊢
        simpa [Normal, List.getLast?_cons_cons] using ih

theorem toPoly_eq_zero_of_normal : ∀ (P : List K), Normal P → toPoly P = 0 → P = []
  | [], _, _ => rfl
  | a :: P, hn, h0 => by
    exfalso
    have ha : a = 0 := by
      have := congrArg (fun p => p.coeff 0) h0
      simpa using this
    have hP : toPoly P = 0 := by
      rw [toPoly_cons, ha] at h0
      simpa using h0
    have := toPoly_eq_zero_of_normal P (normal_tail hn) hP
    subst this
    simp [Normal, ha] at hn

theorem toPoly_injective_of_normal : ∀ (P Q : List K), Normal P → Normal Q → toPoly P = toPoly Q → P = Q
  | [], Q, _, hq, h => (toPoly_eq_zero_of_normal Q hq h.symm).symm
  | a :: P, [], hp, _, h => toPoly_eq_zero_of_normal (a :: P) hp h
  | a :: P, b :: Q, hp, hq, h => by
    have hab : a = b := by
      have := congrArg (fun p => p.coeff 0) h
      simpa using this
    have hPQ : toPoly P = toPoly Q := by
      rw [toPoly_cons, toPoly_cons, hab] at h
      have h2 : X * toPoly P = X * toPoly Q := add_left_cancel h
      exact mul_left_cancel₀ X_ne_zero h2
    rw [hab, toPoly_injective_of_normal P Q (normal_tail hp) (normal_tail hq) hPQ]

theorem norm_eq_nil_iff (P : List K) : norm (fieldOps K) P = [] ↔ toPoly P = 0 := by
  constructor
  · intro h; rw [← toPoly_norm, h]; rfl
  · intro h
    exact toPoly_eq_zero_of_normal _ (norm_normal P) (by rw [toPoly_norm, h])

theorem norm_eq_iff (P Q : List K) : norm (fieldOps K) P = norm (fieldOps K) Q ↔ toPoly P = toPoly Q := by
  constructor
  · intro h; rw [← toPoly_norm P, ← toPoly_norm Q, h]
  · intro h
    apply toPoly_injective_of_normal _ _ (norm_normal P) (norm_normal Q)
    rw [toPoly_norm, toPoly_norm, h]

/-- a normal non-empty list has degree `length - 1` and its last entry is the leading coefficient -/
theorem natDegree_of_normal {P : List K} (hn : Normal P) (hne : P ≠ []) :
    (toPoly P).natDegree = P.length - 1 ∧ (toPoly P).leadingCoeff = P.getLast hne := by
  have hlast : (toPoly P).coeff (P.length - 1) = P.getLast hne := by
    have hlen : P.length - 1 < P.length := by
      have := List.length_pos_of_ne_nil hne; omega
    rw [coeff_toPoly, List.getLast_eq_getElem, List.getD_eq_getElem?_getD, List.getElem?_eq_getElem hlen]
    simp
  have hl0 : P.getLast hne ≠ 0 := by
    intro h0
    apply hn
    rw [List.getLast?_eq_some_getLast hne, h0]
  have hdeg : (toPoly P).natDegree = P.length - 1 := by
    apply natDegree_eq_of_le_of_coeff_ne_zero
    · rw [natDegree_le_iff_coeff_eq_zero]
      intro N hN
      exact coeff_toPoly_of_le P N (by omega)
    · rw [hlast]; exact hl0
  refine ⟨hdeg, ?_⟩
  rw [leadingCoeff, hdeg, hlast]

theorem lcoef_eq (P : List K) : lcoef (fieldOps K) P = (toPoly P).leadingCoeff := by
  unfold lcoef
  by_cases h : norm (fieldOps K) P = []
  · rw [h]
    have := (norm_eq_nil_iff P).1 h
    simp [this]
  · have := (natDegree_of_normal (norm_normal P) h).2
    rw [toPoly_norm] at this
    rw [this, List.getLastD_eq_getLast?, List.getLast?_eq_some_getLast h]
    rfl

theorem natDegree_toPoly (P : List K) (h : norm (fieldOps K) P ≠ []) :
    (toPoly P).natDegree = (norm (fieldOps K) P).length - 1 := by
  have := (natDegree_of_normal (norm_normal P) h).1
  rwa [toPoly_norm] at this

/-! ### ring operations -/

theorem toPoly_padd (P Q : List K) : toPoly (padd (fieldOps K) P Q) = toPoly P + toPoly Q := by
  induction P generalizing Q with
  | nil => simp [padd]
  | cons a P ih =>
    cases Q with
    | nil => simp [padd]
    | cons b Q => simp [padd, ih]; ring

theorem toPoly_pneg (P : List K) : toPoly (pneg (fieldOps K) P) = - toPoly P := by
  induction P with
  | nil => simp [pneg]
  | cons a P ih =>
    simp only [pneg, List.map_cons, toPoly_cons, fo_neg] at ih ⊢
    rw [ih]; simp; ring

theorem toPoly_psub (P Q : List K) : toPoly (psub (fieldOps K) P Q) = toPoly P - toPoly Q := by
  unfold psub; rw [toPoly_padd, toPoly_pneg]; ring

theorem toPoly_smul (c : K) (P : List K) : toPoly (smul (fieldOps K) c P) = C c * toPoly P := by
  induction P with
  | nil => simp [smul]
  | cons a P ih =>
    simp only [smul, List.map_cons, toPoly_cons, fo_mul] at ih ⊢
    rw [ih]; simp; ring

theorem toPoly_pmul (P Q : List K) : toPoly (pmul (fieldOps K) P Q) = toPoly P * toPoly Q := by
  induction P with
  | nil => simp [pmul]
  | cons a P ih =>
    simp only [pmul, toPoly_padd, toPoly_smul, toPoly_cons, fo_zero, ih]
    simp; ring

theorem toPoly_ppow (P : List K) (n : Nat) : toPoly (ppow (fieldOps K) P n) = toPoly P ^ n := by
  induction n with
  | zero => simp [ppow]
  | succ n ih => simp [ppow, toPoly_pmul, ih, pow_succ]; ring

/-! ### division -/

theorem toPoly_take (L : List K) (n : Nat) (h : ∀ k, n ≤ k → (toPoly L).coeff k = 0) :
    toPoly (L.take n) = toPoly L := by
  ext k
  by_cases hk : k < n
  · rw [coeff_toPoly, coeff_toPoly]
    simp [List.getD_eq_getElem?_getD, List.getElem?_take, hk]
  · rw [h k (by omega), coeff_toPoly]
    simp [List.getD_eq_getElem?_getD, List.getElem?_take, hk]

theorem divmodAux_spec (b : List K) (db : Nat) (hb : b.length = db + 1) (lc : K) (hlc : b.getD db 0 = lc)
    (h0 : lc ≠ 0) (a : List K) :
    toPoly a = toPoly (divmodAux (fieldOps K) b db lc⁻¹ a).1 * toPoly b + toPoly (divmodAux (fieldOps K) b db lc⁻¹ a).2
      ∧ (divmodAux (fieldOps K) b db lc⁻¹ a).2.length ≤ db := by
  induction a with
  | nil => simp [divmodAux]
  | cons a0 a' ih =>
    obtain ⟨ih1, ih2⟩ := ih
    simp only [divmodAux]
    generalize divmodAux (fieldOps K) b db lc⁻¹ a' = qr at ih1 ih2 ⊢
    constructor
    · have hz : ∀ k, db ≤ k →
          (toPoly (psub (fieldOps K) (a0 :: qr.2) (smul (fieldOps K)
            ((fieldOps K).mul ((a0 :: qr.2).getD db (fieldOps K).zero) lc⁻¹) b))).coeff k = 0 := by
        intro k hk
        rw [toPoly_psub, toPoly_smul, coeff_sub, coeff_C_mul]
        rcases Nat.eq_or_lt_of_le hk with hk | hk
        · subst hk
          rw [coeff_toPoly, coeff_toPoly, hlc]
          simp only [fo_mul, fo_zero]
          rw [mul_assoc, inv_mul_cancel₀ h0, mul_one, sub_self]
        · rw [coeff_toPoly_of_le _ k (by simp; omega), coeff_toPoly_of_le b k (by omega)]
          simp
      rw [toPoly_take _ _ hz, toPoly_psub, toPoly_smul]
      simp only [toPoly_cons]
      rw [ih1]
      ring
    · exact (List.length_take_le _ _)

theorem divmod_spec (a b : List K) (hb : toPoly b ≠ 0) :
    toPoly a = toPoly (divmod (fieldOps K) a b).1 * toPoly b + toPoly (divmod (fieldOps K) a b).2 ∧
      (toPoly (divmod (fieldOps K) a b).2).degree < (toPoly b).degree := by
  have hne : norm (fieldOps K) b ≠ [] := fun h => hb ((norm_eq_nil_iff b).1 h)
  have hlen : (norm (fieldOps K) b).length = ((norm (fieldOps K) b).length - 1) + 1 := by
    have := List.length_pos_of_ne_nil hne; omega
  have hnd := natDegree_toPoly b hne
  have hlc : (norm (fieldOps K) b).getD ((norm (fieldOps K) b).length - 1) 0 = lcoef (fieldOps K) b := by
    rw [← coeff_toPoly, toPoly_norm, ← hnd, lcoef_eq]; rfl
  have hl0 : lcoef (fieldOps K) b ≠ 0 := by
    rw [lcoef_eq]; exact leadingCoeff_ne_zero.2 hb
  have key := divmodAux_spec (norm (fieldOps K) b) _ hlen _ hlc hl0 a
  unfold divmod
  simp only [hne, if_false, fo_inv]
  rw [toPoly_norm] at key
  refine ⟨key.1, ?_⟩
  rw [degree_eq_natDegree hb, hnd, degree_lt_iff_coeff_zero]
  intro m hm
  exact coeff_toPoly_of_le _ m (le_trans key.2 hm)

theorem pmod_eq_nil_iff (a b : List K) (hb : toPoly b ≠ 0) :
    pmod (fieldOps K) a b = [] ↔ toPoly b ∣ toPoly a := by
  obtain ⟨h1, h2⟩ := divmod_spec a b hb
  unfold pmod
  rw [norm_eq_nil_iff]
  constructor
  · intro h
    rw [h1, h, add_zero]
    exact dvd_mul_left _ _
  · intro h
    rw [h1] at h
    have h3 : toPoly b ∣ toPoly (divmod (fieldOps K) a b).2 := (dvd_add_right (dvd_mul_left _ _)).1 h
    exact eq_zero_of_dvd_of_degree_lt h3 h2

/-- `pmod` is a representative of the residue class: `a - pmod a b` is a multiple of `b`, of smaller degree -/
theorem toPoly_pmod (a b : List K) (hb : toPoly b ≠ 0) :
    toPoly b ∣ toPoly a - toPoly (pmod (fieldOps K) a b) ∧ (toPoly (pmod (fieldOps K) a b)).degree < (toPoly b).degree := by
  obtain ⟨h1, h2⟩ := divmod_spec a b hb
  unfold pmod
  rw [toPoly_norm]
  refine ⟨?_, h2⟩
  refine ⟨toPoly (divmod (fieldOps K) a b).1, ?_⟩
  rw [h1]; ring

theorem toPoly_pdiv (a b : List K) (hb : toPoly b ≠ 0) (hdvd : toPoly b ∣ toPoly a) :
    toPoly a = toPoly (pdiv (fieldOps K) a b) * toPoly b := by
  obtain ⟨h1, h2⟩ := divmod_spec a b hb
  have h3 : toPoly b ∣ toPoly (divmod (fieldOps K) a b).2 := by
    rw [h1] at hdvd; exact (dvd_add_right (dvd_mul_left _ _)).1 hdvd
  have h4 := eq_zero_of_dvd_of_degree_lt h3 h2
  unfold pdiv
  rw [toPoly_norm, h1, h4, add_zero]

/-! ### enumeration of the monic polynomials of a given degree -/

theorem mem_allLists (elems : List K) (hall : ∀ x : K, x ∈ elems) : ∀ (t : List K), t ∈ allLists elems t.length
  | [] => by simp [allLists]
  | a :: t => by
    simp only [allLists, List.length_cons, List.mem_flatMap, List.mem_map]
    exact ⟨t, mem_allLists elems hall t, a, hall a, rfl⟩

theorem length_of_mem_allLists (elems : List K) : ∀ (n : Nat) (t : List K), t ∈ allLists elems n → t.length = n
  | 0, t, h => by simp [allLists] at h; simp [h]
  | n + 1, t, h => by
    simp only [allLists, List.mem_flatMap, List.mem_map] at h
    obtain ⟨t', ht', a, -, rfl⟩ := h
    simp [length_of_mem_allLists elems n t' ht']

theorem monics_sound (elems : List K) (d : Nat) (l : List K) (h : l ∈ monics (fieldOps K) elems d) :
    (toPoly l).Monic ∧ (toPoly l).natDegree = d := by
  unfold monics at h
  obtain ⟨t, ht, rfl⟩ := List.mem_map.1 h
  have hlen := length_of_mem_allLists elems d t ht
  have hne : t ++ [(fieldOps K).one] ≠ [] := by simp
  have hn : Normal (t ++ [(fieldOps K).one]) := by simp [Normal]
  obtain ⟨h1, h2⟩ := natDegree_of_normal hn hne
  constructor
  · unfold Monic; rw [h2]; simp
  · rw [h1]; simp [hlen]

theorem monics_complete (elems : List K) (hall : ∀ x : K, x ∈ elems) (g : K[X]) (hg : g.Monic) :
    ∃ l ∈ monics (fieldOps K) elems g.natDegree, toPoly l = g := by
  refine ⟨(List.range g.natDegree).map g.coeff ++ [1], ?_, ?_⟩
  · unfold monics
    refine List.mem_map.2 ⟨(List.range g.natDegree).map g.coeff, ?_, rfl⟩
    have := mem_allLists elems hall ((List.range g.natDegree).map g.coeff)
    simpa using this
  · ext k
    rw [coeff_toPoly, List.getD_eq_getElem?_getD]
    rcases Nat.lt_trichotomy k g.natDegree with hk | hk | hk
    · rw [List.getElem?_append_left (by simp [hk])]
      simp [hk]
    · subst hk
      rw [List.getElem?_append_right (by simp)]
      simp only [List.length_map, List.length_range, Nat.sub_self, List.getElem?_cons_zero, Option.getD_some]
      exact hg.coeff_natDegree.symm
    · rw [List.getElem?_eq_none (by simp; omega)]
      simp [coeff_eq_zero_of_natDegree_lt hk]

/-! ### the exponential oracle decides irreducibility -/

theorem dividesB_iff (g P : List K) (hg : toPoly g ≠ 0) :
    dividesB (fieldOps K) g P = true ↔ toPoly g ∣ toPoly P := by
  unfold dividesB
  rw [decide_eq_true_eq]
  exact pmod_eq_nil_iff P g hg

theorem bruteIrreducible_iff (elems : List K) (hall : ∀ x : K, x ∈ elems) (P : List K) :
    bruteIrreducible (fieldOps K) elems P = true ↔ Irreducible (toPoly P) := by
  unfold bruteIrreducible
  simp only [Bool.and_eq_true, decide_eq_true_eq, List.all_eq_true, List.mem_range, Bool.not_eq_true',
    ge_iff_le]
  by_cases hlen : 2 ≤ (norm (fieldOps K) P).length
  · have hne : norm (fieldOps K) P ≠ [] := by intro h; rw [h] at hlen; simp at hlen
    have hnd := natDegree_toPoly P hne
    have hP0 : toPoly P ≠ 0 := fun h => hne ((norm_eq_nil_iff P).2 h)
    have hPu : ¬ IsUnit (toPoly P) := fun h => by
      have := natDegree_eq_zero_of_isUnit h; omega
    rw [irreducible_iff_lt_natDegree_lt hP0 hPu, hnd]
    constructor
    · rintro ⟨-, h⟩ q hq hqd hdvd
      rw [Finset.mem_Ioc] at hqd
      obtain ⟨l, hl, rfl⟩ := monics_complete elems hall q hq
      have h1 := h ((toPoly l).natDegree - 1) (by omega) l (by
        have : (toPoly l).natDegree - 1 + 1 = (toPoly l).natDegree := by omega
        rw [this]; exact hl)
      have h2 := (dividesB_iff l P hq.ne_zero).2 hdvd
      rw [h1] at h2; exact Bool.false_ne_true h2
    · intro h
      refine ⟨hlen, fun d0 hd0 g hg => ?_⟩
      obtain ⟨hm, hd⟩ := monics_sound elems (d0 + 1) g hg
      have h1 := h (toPoly g) hm (by rw [Finset.mem_Ioc, hd]; omega)
      by_contra h2
      rw [Bool.not_eq_false] at h2
      exact h1 ((dividesB_iff g P hm.ne_zero).1 h2)
  · constructor
    · rintro ⟨h, -⟩; exact absurd h hlen
    · intro hirr
      exfalso
      have hpos := hirr.natDegree_pos
      by_cases hne : norm (fieldOps K) P = []
      · rw [(norm_eq_nil_iff P).1 hne] at hpos; simp at hpos
      · have hnd := natDegree_toPoly P hne
        omega

/-! ### the certificate checkers -/

theorem toPoly_monicize (x : List K) :
    toPoly (monicize (fieldOps K) x) = C (toPoly x).leadingCoeff⁻¹ * toPoly x := by
  unfold monicize
  rw [toPoly_smul, toPoly_norm, lcoef_eq]; rfl

theorem normal_smul (c : K) (hc : c ≠ 0) (N : List K) (hN : Normal N) : Normal (smul (fieldOps K) c N) := by
  unfold Normal smul at *
  rw [List.getLast?_map]
  intro h
  cases hl : N.getLast? with
  | none => rw [hl] at h; simp at h
  | some y =>
    rw [hl] at h
    simp only [Option.map_some, fo_mul, Option.some.injEq] at h
    rcases mul_eq_zero.1 h with h | h
    · exact hc h
    · exact hN (by rw [hl, h])

theorem associated_iff_monic_forms (A B : K[X]) (hA : A ≠ 0) (hB : B ≠ 0) :
    C A.leadingCoeff⁻¹ * A = C B.leadingCoeff⁻¹ * B ↔ Associated A B := by
  have hla : A.leadingCoeff ≠ 0 := leadingCoeff_ne_zero.2 hA
  have hlb : B.leadingCoeff ≠ 0 := leadingCoeff_ne_zero.2 hB
  constructor
  · intro h
    have hu : IsUnit (C (A.leadingCoeff * B.leadingCoeff⁻¹) : K[X]) :=
      isUnit_C.2 (isUnit_iff_ne_zero.2 (mul_ne_zero hla (inv_ne_zero hlb)))
    have hAB : B * C (A.leadingCoeff * B.leadingCoeff⁻¹) = A := by
      calc B * C (A.leadingCoeff * B.leadingCoeff⁻¹)
          = C A.leadingCoeff * (C B.leadingCoeff⁻¹ * B) := by rw [C_mul]; ring
        _ = C A.leadingCoeff * (C A.leadingCoeff⁻¹ * A) := by rw [h]
        _ = A := by rw [← mul_assoc, ← C_mul, mul_inv_cancel₀ hla, C_1, one_mul]
    have : Associated B A := ⟨hu.unit, by rw [IsUnit.unit_spec]; exact hAB⟩
    exact this.symm
  · rintro ⟨u, hu⟩
    obtain ⟨r, hr, hru⟩ := Polynomial.isUnit_iff.1 u.isUnit
    have hr0 : r ≠ 0 := hr.ne_zero
    rw [← hru] at hu
    have hlB : B.leadingCoeff = A.leadingCoeff * r := by rw [← hu, leadingCoeff_mul, leadingCoeff_C]
    have hinv : (A.leadingCoeff * r)⁻¹ * r = A.leadingCoeff⁻¹ := by
      rw [mul_inv, mul_assoc, inv_mul_cancel₀ hr0, mul_one]
    rw [hlB, ← hu]
    calc C A.leadingCoeff⁻¹ * A = C ((A.leadingCoeff * r)⁻¹ * r) * A := by rw [hinv]
      _ = C (A.leadingCoeff * r)⁻¹ * (A * C r) := by rw [C_mul]; ring

theorem associatedB_iff (a b : List K) :
    associatedB (fieldOps K) a b = true ↔ toPoly a ≠ 0 ∧ toPoly b ≠ 0 ∧ Associated (toPoly a) (toPoly b) := by
  unfold associatedB
  simp only [Bool.and_eq_true, decide_eq_true_eq, ne_eq, norm_eq_nil_iff, bne_iff_ne]
  constructor
  · rintro ⟨⟨ha, hb⟩, h⟩
    refine ⟨ha, hb, ?_⟩
    have := congrArg toPoly h
    rw [toPoly_monicize, toPoly_monicize, toPoly_norm, toPoly_norm] at this
    exact (associated_iff_monic_forms _ _ ha hb).1 this
  · rintro ⟨ha, hb, h⟩
    refine ⟨⟨ha, hb⟩, ?_⟩
    have hla : (toPoly a).leadingCoeff⁻¹ ≠ 0 := inv_ne_zero (leadingCoeff_ne_zero.2 ha)
    have hlb : (toPoly b).leadingCoeff⁻¹ ≠ 0 := inv_ne_zero (leadingCoeff_ne_zero.2 hb)
    apply toPoly_injective_of_normal
    · unfold monicize; rw [lcoef_eq, toPoly_norm]
      exact normal_smul _ hla _ (norm_normal _)
    · unfold monicize; rw [lcoef_eq, toPoly_norm]
      exact normal_smul _ hlb _ (norm_normal _)
    · rw [toPoly_monicize, toPoly_monicize, toPoly_norm, toPoly_norm]
      exact (associated_iff_monic_forms _ _ ha hb).2 h

theorem toPoly_prodPow (L : List (List K × Nat)) :
    toPoly (prodPow (fieldOps K) L) = (L.map (fun ge => toPoly ge.1 ^ ge.2)).prod := by
  unfold prodPow
  induction L with
  | nil => simp
  | cons ge L ih => simp only [List.foldr_cons, List.map_cons, List.prod_cons, toPoly_pmul, toPoly_ppow, ih]

theorem pairwiseB_iff {β : Type} (r : β → β → Bool) (L : List β) :
    pairwiseB r L = true ↔ L.Pairwise (fun a b => r a b = true) := by
  induction L with
  | nil => simp [pairwiseB]
  | cons x xs ih => simp [pairwiseB, ih, List.all_eq_true]

/-! ### degree of the model, gcd -/

theorem degree_model (L : List K) :
    degree (fieldOps K) L = if toPoly L = 0 then -1 else ((toPoly L).natDegree : Int) := by
  unfold Givaro.Model.PolyFactor.degree
  by_cases h : norm (fieldOps K) L = []
  · rw [h, if_pos ((norm_eq_nil_iff L).1 h)]; simp
  · have h0 : toPoly L ≠ 0 := fun h0 => h ((norm_eq_nil_iff L).2 h0)
    rw [if_neg h0, natDegree_toPoly L h]
    have := List.length_pos_of_ne_nil h
    omega

theorem degree_neg_iff (L : List K) : degree (fieldOps K) L < 0 ↔ toPoly L = 0 := by
  rw [degree_model]; split <;> simp_all

theorem degree_pos_iff (L : List K) : degree (fieldOps K) L > 0 ↔ 0 < (toPoly L).natDegree := by
  rw [degree_model]
  split
  · next h => simp [h]
  · omega

theorem degree_eq_zero_iff (L : List K) : degree (fieldOps K) L = 0 ↔ IsUnit (toPoly L) := by
  rw [degree_model, Polynomial.isUnit_iff_degree_eq_zero]
  split
  · next h => simp [h]
  · next h => rw [degree_eq_natDegree h]; norm_cast

theorem degree_le_zero_iff (L : List K) : degree (fieldOps K) L ≤ 0 ↔ toPoly L = 0 ∨ IsUnit (toPoly L) := by
  rw [← degree_neg_iff, ← degree_eq_zero_iff]; omega

theorem gcdLoop_spec : ∀ (n : Nat) (U G : List K), toPoly G ≠ 0 → (toPoly G).natDegree < n →
    ∀ d : K[X], d ∣ toPoly (gcdLoop (fieldOps K) n U G) ↔ d ∣ toPoly U ∧ d ∣ toPoly G
  | 0, _, _, _, h => by omega
  | n + 1, U, G, hG, hfuel => by
    intro d
    obtain ⟨h1, h2⟩ := toPoly_pmod U G hG
    unfold gcdLoop
    simp only
    split
    · next hR =>
      rw [hR] at h1
      simp only [toPoly_nil, sub_zero] at h1
      constructor
      · intro h; exact ⟨h.trans h1, h⟩
      · intro h; exact h.2
    · next hR =>
      have hR0 : toPoly (pmod (fieldOps K) U G) ≠ 0 := by
        intro h0
        apply hR
        unfold pmod at h0 ⊢
        rw [toPoly_norm] at h0
        exact (norm_eq_nil_iff _).2 h0
      have hlt : (toPoly (pmod (fieldOps K) U G)).natDegree < (toPoly G).natDegree :=
        natDegree_lt_natDegree hR0 h2
      rw [gcdLoop_spec n G _ hR0 (by omega) d]
      constructor
      · rintro ⟨hg, hr⟩
        refine ⟨?_, hg⟩
        have := dvd_add (hg.trans h1) hr
        simpa using this
      · rintro ⟨hu, hg⟩
        refine ⟨hg, ?_⟩
        have := dvd_sub hu (hg.trans h1)
        simpa using this

theorem pgcd_spec (P Q : List K) (d : K[X]) :
    d ∣ toPoly (pgcd (fieldOps K) P Q) ↔ d ∣ toPoly P ∧ d ∣ toPoly Q := by
  unfold pgcd
  simp only
  split
  · next h =>
    rw [toPoly_norm]
    rcases h with h | h
    · rw [(degree_neg_iff P).1 h]; simp
    · have hu := (degree_eq_zero_iff Q).1 h
      exact ⟨fun hd => ⟨(isUnit_of_dvd_unit hd hu).dvd, hd⟩, fun hd => hd.2⟩
  · next h1 =>
    split
    · next h =>
      rw [toPoly_norm]
      rcases h with h | h
      · rw [(degree_neg_iff Q).1 h]; simp
      · have hu := (degree_eq_zero_iff P).1 h
        exact ⟨fun hd => ⟨hd, (isUnit_of_dvd_unit hd hu).dvd⟩, fun hd => hd.1⟩
    · next h2 =>
      have hP0 : toPoly P ≠ 0 := fun h0 => h1 (Or.inl ((degree_neg_iff P).2 h0))
      have hQ0 : toPoly Q ≠ 0 := fun h0 => h2 (Or.inl ((degree_neg_iff Q).2 h0))
      -- the remainder sequence on the ordered pair
      have key : ∀ (U G : List K), toPoly U ≠ 0 → toPoly G ≠ 0 →
          (d ∣ toPoly (if degree (fieldOps K) (gcdLoop (fieldOps K) ((norm (fieldOps K) G).length + 1) (norm (fieldOps K) U) (norm (fieldOps K) G)) ≤ 0
              then [(fieldOps K).one]
              else gcdLoop (fieldOps K) ((norm (fieldOps K) G).length + 1) (norm (fieldOps K) U) (norm (fieldOps K) G))
            ↔ d ∣ toPoly U ∧ d ∣ toPoly G) := by
        intro U G hU hG
        have hG' : toPoly (norm (fieldOps K) G) ≠ 0 := by rwa [toPoly_norm]
        have hne : norm (fieldOps K) G ≠ [] := fun h => hG ((norm_eq_nil_iff G).1 h)
        have hfuel : (toPoly (norm (fieldOps K) G)).natDegree < (norm (fieldOps K) G).length + 1 := by
          rw [toPoly_norm, natDegree_toPoly G hne]; omega
        have spec := gcdLoop_spec _ (norm (fieldOps K) U) (norm (fieldOps K) G) hG' hfuel
        simp only [toPoly_norm] at spec
        split
        · next hle =>
          have hres0 : toPoly (gcdLoop (fieldOps K) ((norm (fieldOps K) G).length + 1) (norm (fieldOps K) U) (norm (fieldOps K) G)) ≠ 0 := by
            intro h0
            have := (spec 0).1 (by rw [h0])
            exact hG (zero_dvd_iff.1 this.2)
          have hu : IsUnit (toPoly (gcdLoop (fieldOps K) ((norm (fieldOps K) G).length + 1) (norm (fieldOps K) U) (norm (fieldOps K) G))) := by
            rcases (degree_le_zero_iff _).1 hle with h | h
            · exact absurd h hres0
            · exact h
          simp only [toPoly_cons, toPoly_nil, fo_one, mul_zero, add_zero, map_one]
          rw [← spec d]
          exact ⟨fun hd => (isUnit_of_dvd_one hd).dvd, fun hd => (isUnit_of_dvd_unit hd hu).dvd⟩
        · exact spec d
      by_cases hge : degree (fieldOps K) P ≥ degree (fieldOps K) Q
      · simp only [hge, if_true]
        exact key P Q hP0 hQ0
      · simp only [hge, if_false]
        rw [key Q P hQ0 hP0]
        exact and_comm

/-- the gcd of the model is a unit exactly when the arguments are coprime (not both zero) -/
theorem pgcd_unit_iff (P Q : List K) :
    IsUnit (toPoly (pgcd (fieldOps K) P Q)) ↔ IsCoprime (toPoly P) (toPoly Q) := by
  classical
  have h1 : toPoly (pgcd (fieldOps K) P Q) ∣ EuclideanDomain.gcd (toPoly P) (toPoly Q) := by
    have := (pgcd_spec P Q _).1 (dvd_refl _)
    exact EuclideanDomain.dvd_gcd this.1 this.2
  have h2 : EuclideanDomain.gcd (toPoly P) (toPoly Q) ∣ toPoly (pgcd (fieldOps K) P Q) :=
    (pgcd_spec P Q _).2 ⟨EuclideanDomain.gcd_dvd_left _ _, EuclideanDomain.gcd_dvd_right _ _⟩
  rw [← EuclideanDomain.gcd_isUnit_iff]
  exact ⟨fun h => isUnit_of_dvd_unit h2 h, fun h => isUnit_of_dvd_unit h1 h⟩

theorem pgcd_ne_zero (P Q : List K) (h : toPoly P ≠ 0 ∨ toPoly Q ≠ 0) : toPoly (pgcd (fieldOps K) P Q) ≠ 0 := by
  intro h0
  have := (pgcd_spec P Q 0).1 (by rw [h0])
  rcases h with h | h
  · exact h (zero_dvd_iff.1 this.1)
  · exact h (zero_dvd_iff.1 this.2)

/-- the test `degree(gcd) > 0` of the code -/
theorem pgcd_degree_pos_iff (P Q : List K) (h : toPoly P ≠ 0 ∨ toPoly Q ≠ 0) :
    degree (fieldOps K) (pgcd (fieldOps K) P Q) > 0 ↔ ¬ IsCoprime (toPoly P) (toPoly Q) := by
  rw [← pgcd_unit_iff, ← degree_eq_zero_iff]
  have := pgcd_ne_zero P Q h
  have h2 : ¬ degree (fieldOps K) (pgcd (fieldOps K) P Q) < 0 := fun hlt => this ((degree_neg_iff _).1 hlt)
  omega

/-! ### powmod and the loop of `is_irreducible` (congruences as equalities in `K[X] ⧸ (P)`) -/

/-- residue class modulo `U` -/
noncomputable abbrev cls (U : List K) : K[X] →+* K[X] ⧸ Ideal.span {toPoly U} := Ideal.Quotient.mk _

theorem cls_eq_iff (U : List K) (a b : K[X]) : cls U a = cls U b ↔ toPoly U ∣ a - b := by
  unfold cls
  rw [Ideal.Quotient.eq, Ideal.mem_span_singleton]

theorem cls_pmod (a U : List K) (hU : toPoly U ≠ 0) : cls U (toPoly (pmod (fieldOps K) a U)) = cls U (toPoly a) :=
  ((cls_eq_iff U _ _).2 (toPoly_pmod a U hU).1).symm

theorem powmodLoop_spec (U : List K) (hU : toPoly U ≠ 0) : ∀ (fuel n : Nat) (W puiss : List K), n < 2 ^ fuel →
    cls U (toPoly (powmodLoop (fieldOps K) U fuel n W puiss)) = cls U (toPoly W) * cls U (toPoly puiss) ^ n
  | 0, n, W, puiss, h => by
    have : n = 0 := by simpa using h
    subst this
    simp [powmodLoop]
  | fuel + 1, n, W, puiss, h => by
    unfold powmodLoop
    by_cases hn : n = 0
    · simp [hn]
    · simp only [hn, if_false]
      have hlt : n / 2 < 2 ^ fuel := by
        have : 2 ^ (fuel + 1) = 2 * 2 ^ fuel := by ring
        omega
      rw [powmodLoop_spec U hU fuel (n / 2) _ _ hlt, cls_pmod _ _ hU, toPoly_pmul, map_mul]
      have hsplit : cls U (toPoly puiss) ^ n = cls U (toPoly puiss) ^ (n % 2) * (cls U (toPoly puiss) * cls U (toPoly puiss)) ^ (n / 2) := by
        conv_lhs => rw [← Nat.mod_add_div n 2]
        rw [pow_add, pow_mul, pow_two]
      rw [hsplit]
      by_cases hodd : n % 2 = 1
      · simp only [hodd, if_true, pow_one]
        rw [cls_pmod _ _ hU, toPoly_pmul, map_mul]
        ring
      · have : n % 2 = 0 := by omega
        simp only [this, pow_zero]
        simp

theorem powmod_spec (W : List K) (e : Nat) (U : List K) (hU : toPoly U ≠ 0) :
    cls U (toPoly (powmod (fieldOps K) W e U)) = cls U (toPoly W) ^ e := by
  unfold powmod
  rw [toPoly_norm, powmodLoop_spec U hU _ _ _ _ (by
    have := Nat.lt_log2_self (n := e)
    have h2 : 2 ^ (e.log2 + 2) = 2 * 2 ^ (e.log2 + 1) := by ring
    omega), cls_pmod _ _ hU]
  simp

theorem toPoly_polX : toPoly (polX (fieldOps K)) = X := by
  simp [polX]

/-- coprimality with `P` only depends on the residue class modulo `P` -/
theorem isCoprime_congr (P : List K) (a b : K[X]) (h : cls P a = cls P b) :
    IsCoprime a (toPoly P) ↔ IsCoprime b (toPoly P) := by
  obtain ⟨k, hk⟩ := (cls_eq_iff P a b).1 h
  have : a = b + toPoly P * k := by rw [← hk]; ring
  rw [this]
  exact IsCoprime.add_mul_left_left_iff

theorem irrLoop_spec (q : Nat) (P : List K) (hP : toPoly P ≠ 0) : ∀ (n i : Nat) (W : List K),
    cls P (toPoly W) = cls P X ^ (q ^ i) →
    (irrLoop (fieldOps K) q P n W = true ↔ ∀ j, i < j → j ≤ i + n → IsCoprime (X ^ (q ^ j) - X) (toPoly P))
  | 0, i, W, _ => by
    simp only [irrLoop, true_iff]
    intro j h1 h2; omega
  | n + 1, i, W, hW => by
    unfold irrLoop
    simp only
    have hW' : cls P (toPoly (powmod (fieldOps K) W q P)) = cls P X ^ (q ^ (i + 1)) := by
      rw [powmod_spec W q P hP, hW, ← pow_mul, pow_succ]
    have hcop : IsCoprime (toPoly (psub (fieldOps K) (powmod (fieldOps K) W q P) (polX (fieldOps K)))) (toPoly P) ↔
        IsCoprime (X ^ (q ^ (i + 1)) - X) (toPoly P) := by
      apply isCoprime_congr
      rw [toPoly_psub, toPoly_polX, map_sub, map_sub, hW', map_pow]
    have hdeg := pgcd_degree_pos_iff (psub (fieldOps K) (powmod (fieldOps K) W q P) (polX (fieldOps K))) P (Or.inr hP)
    split
    · next hpos =>
      have hnc := (hdeg.1 hpos)
      rw [hcop] at hnc
      constructor
      · intro h; exact absurd h (by decide)
      · intro h; exact absurd (h (i + 1) (by omega) (by omega)) hnc
    · next hpos =>
      have hc : IsCoprime (X ^ (q ^ (i + 1)) - X) (toPoly P) := by
        rw [← hcop]; by_contra hnc; exact hpos (hdeg.2 hnc)
      rw [irrLoop_spec q P hP n (i + 1) _ hW']
      constructor
      · intro h j h1 h2
        rcases Nat.eq_or_lt_of_le h1 with h3 | h3
        · rw [← h3]; exact hc
        · exact h j h3 (by omega)
      · intro h j h1 h2
        exact h j (by omega) (by omega)

/-! ### derivative -/

theorem toPoly_diffAux (c : K) (t : List K) :
    toPoly (diffAux (fieldOps K) c t) = C (c + 1) * toPoly t + X * derivative (toPoly t) := by
  induction t generalizing c with
  | nil => simp [diffAux]
  | cons a q ih =>
    simp only [diffAux, toPoly_cons, fo_mul, fo_add, fo_one, ih, derivative_add, derivative_C, derivative_mul,
      derivative_X, C_mul, C_add, C_1]
    ring

theorem toPoly_diff (Q : List K) : toPoly (diff (fieldOps K) Q) = derivative (toPoly Q) := by
  unfold diff
  have h := toPoly_norm Q
  cases hq : norm (fieldOps K) Q with
  | nil => rw [hq] at h; simp [← h]
  | cons a t =>
    rw [hq] at h
    simp only [toPoly_diffAux, fo_zero, ← h, toPoly_cons, derivative_add, derivative_C, derivative_mul, derivative_X]
    simp only [zero_add, C_1]

/-! ### the square-free checker -/

theorem coprimeB_iff (a b : List K) (h : toPoly a ≠ 0 ∨ toPoly b ≠ 0) :
    coprimeB (fieldOps K) a b = true ↔ IsCoprime (toPoly a) (toPoly b) := by
  unfold coprimeB
  rw [decide_eq_true_eq]
  have key := pgcd_degree_pos_iff a b h
  constructor
  · intro hle
    by_contra hnc
    have := key.2 hnc
    omega
  · intro hc
    by_contra hgt
    exact (key.1 (by omega)) hc

theorem squarefreeB_sound (g : List K) (hg : toPoly g ≠ 0) (h : squarefreeB (fieldOps K) g = true) :
    Squarefree (toPoly g) := by
  unfold squarefreeB at h
  rw [Bool.or_eq_true, decide_eq_true_eq] at h
  rcases h with h | h
  · rcases (degree_le_zero_iff g).1 h with h0 | hu
    · exact absurd h0 hg
    · exact hu.squarefree
  · have := (coprimeB_iff g (diff _ g) (Or.inl hg)).1 h
    rw [toPoly_diff] at this
    exact Polynomial.Separable.squarefree this

theorem indexed_fst {β : Type} : ∀ (G : List β) (i : Nat), (indexed G i).map Prod.fst = G
  | [], _ => rfl
  | x :: xs, i => by simp [indexed, indexed_fst xs (i + 1)]

end Givaro.Lemmas.PolyFactor
