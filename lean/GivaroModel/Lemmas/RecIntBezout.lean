/- C06 helper lemmas: bitwise and/xor on values; ruinvmod.h bezout_mod. -/
import GivaroModel.Lemmas.RecIntInvMod
import GivaroModel.Model.RecIntSigned
namespace Givaro.Model.RecInt

theorem split_div_mod (k l h : Nat) (hl : l < 2 ^ k) : (l + 2 ^ k * h) % 2 ^ k = l ∧ (l + 2 ^ k * h) / 2 ^ k = h := by
  have hp : 0 < 2 ^ k := by positivity
  constructor
  · rw [Nat.add_mul_mod_self_left, Nat.mod_eq_of_lt hl]
  · rw [Nat.add_mul_div_left _ _ hp, Nat.div_eq_of_lt hl, Nat.zero_add]

theorem and_split (k l1 h1 l2 h2 : Nat) (hl1 : l1 < 2 ^ k) (hl2 : l2 < 2 ^ k) :
    (l1 + 2 ^ k * h1) &&& (l2 + 2 ^ k * h2) = (l1 &&& l2) + 2 ^ k * (h1 &&& h2) := by
  obtain ⟨m1, d1⟩ := split_div_mod k l1 h1 hl1
  obtain ⟨m2, d2⟩ := split_div_mod k l2 h2 hl2
  have e := (Nat.mod_add_div ((l1 + 2 ^ k * h1) &&& (l2 + 2 ^ k * h2)) (2 ^ k)).symm
  rw [Nat.and_mod_two_pow, Nat.and_div_two_pow, m1, m2, d1, d2] at e
  exact e

theorem xor_split (k l1 h1 l2 h2 : Nat) (hl1 : l1 < 2 ^ k) (hl2 : l2 < 2 ^ k) :
    (l1 + 2 ^ k * h1) ^^^ (l2 + 2 ^ k * h2) = (l1 ^^^ l2) + 2 ^ k * (h1 ^^^ h2) := by
  obtain ⟨m1, d1⟩ := split_div_mod k l1 h1 hl1
  obtain ⟨m2, d2⟩ := split_div_mod k l2 h2 hl2
  have e := (Nat.mod_add_div ((l1 + 2 ^ k * h1) ^^^ (l2 + 2 ^ k * h2)) (2 ^ k)).symm
  rw [Nat.xor_mod_two_pow, Nat.xor_div_two_pow, m1, m2, d1, d2] at e
  exact e

/-- `&` on `ruint` is the bitwise and of the values -/
theorem land_ok : ∀ {n : Nat} (x y : RU n), WF x → WF y → WF (land x y) ∧ val (land x y) = val x &&& val y
  | _, .limb a, .limb b, ha, hb => by
      simp only [WF] at ha hb
      have e : B64 = 2 ^ 64 := by norm_num [B64]
      simp only [land, WF, val]
      rw [e] at *
      exact ⟨Nat.and_lt_two_pow a hb, trivial⟩
  | _, .node (n := n) l1 h1, .node l2 h2, hx, hy => by
      have il := land_ok l1 l2 hx.1 hy.1
      have ih := land_ok h1 h2 hx.2 hy.2
      have b1 := val_lt l1 hx.1
      have b2 := val_lt l2 hy.1
      simp only [land, WF_node, val_node, il.2, ih.2]
      refine ⟨⟨il.1, ih.1⟩, ?_⟩
      rw [Bn_eq_two_pow] at *
      exact (and_split _ _ _ _ _ b1 b2).symm

/-- `^` on `ruint` is the bitwise exclusive or of the values -/
theorem lxor_ok : ∀ {n : Nat} (x y : RU n), WF x → WF y → WF (lxor x y) ∧ val (lxor x y) = val x ^^^ val y
  | _, .limb a, .limb b, ha, hb => by
      simp only [WF] at ha hb
      have e : B64 = 2 ^ 64 := by norm_num [B64]
      simp only [lxor, WF, val]
      rw [e] at *
      exact ⟨Nat.xor_lt_two_pow ha hb, trivial⟩
  | _, .node (n := n) l1 h1, .node l2 h2, hx, hy => by
      have il := lxor_ok l1 l2 hx.1 hy.1
      have ih := lxor_ok h1 h2 hx.2 hy.2
      have b1 := val_lt l1 hx.1
      have b2 := val_lt l2 hy.1
      simp only [lxor, WF_node, val_node, il.2, ih.2]
      refine ⟨⟨il.1, ih.1⟩, ?_⟩
      rw [Bn_eq_two_pow] at *
      exact (xor_split _ _ _ _ _ b1 b2).symm

/-! ### bezout_mod -/
theorem bezLoop_succ (t : Nat) {n : Nat} (c d : RU n) (f : Nat) (lastx x lasty y a b : RU n) :
    bezLoop t c d (f+1) lastx x lasty y a b =
      if isZero b then (lastx, lasty)
      else bezLoop t c d f x (addModC d (negModC d (mod_n2 t (lmul t (div t a b).1 x) d)) lastx)
                            y (addModC c (negModC c (mod_n2 t (lmul t (div t a b).1 y) c)) lasty) b (div t a b).2 := rfl

/-- the loop invariant of `bezout_mod`: `lastx·c ≡ a`, `x·c ≡ b (mod d)` and `lasty·d ≡ a`, `y·d ≡ b (mod c)` -/
theorem bezLoop_ok (t : Nat) {n : Nat} (c d : RU n) (g : Nat) (hc : WF c) (hd : WF d) (hcne : val c ≠ 0) (hdne : val d ≠ 0) :
    ∀ (f : Nat) (lastx x lasty y a b : RU n), WF lastx → WF x → WF lasty → WF y → WF a → WF b →
      val lastx < val d → val x < val d → val lasty ≤ val c → val y ≤ val c →
      val lastx * val c ≡ val a [MOD val d] → val x * val c ≡ val b [MOD val d] →
      val lasty * val d ≡ val a [MOD val c] → val y * val d ≡ val b [MOD val c] →
      (val b ≤ val a ∧ val a * val b < 2 ^ f) → Nat.gcd (val a) (val b) = g →
      WF (bezLoop t c d (f+1) lastx x lasty y a b).1 ∧ WF (bezLoop t c d (f+1) lastx x lasty y a b).2 ∧
      val (bezLoop t c d (f+1) lastx x lasty y a b).1 < val d ∧ val (bezLoop t c d (f+1) lastx x lasty y a b).2 ≤ val c ∧
      val (bezLoop t c d (f+1) lastx x lasty y a b).1 * val c ≡ g [MOD val d] ∧
      val (bezLoop t c d (f+1) lastx x lasty y a b).2 * val d ≡ g [MOD val c]
  | f, lastx, x, lasty, y, a, b, hlx, hx, hly, hy, ha, hb, blx, bx, bly, bye, I1, I2, J1, J2, ⟨hle, hlt⟩, hg => by
      rw [bezLoop_succ]
      by_cases hz : isZero b = true
      · rw [if_pos hz]
        have h0 : val b = 0 := (isZero_iff b).mp hz
        rw [h0, Nat.gcd_zero_right] at hg
        exact ⟨hlx, hly, blx, bly, by rw [← hg]; exact I1, by rw [← hg]; exact J1⟩
      · rw [if_neg hz]
        have hbne : val b ≠ 0 := fun h => hz ((isZero_iff b).mpr h)
        obtain ⟨huw, hult, hue, hrw, hre⟩ := inv_step t d lastx x a b (val c) hd hlx hx ha hb hdne hbne (Nat.le_of_lt blx) I1 I2
        obtain ⟨hvw, hvlt, hve, -, -⟩ := inv_step t c lasty y a b (val d) hc hly hy ha hb hcne hbne bly J1 J2
        have hd1 : 1 ≤ val b := Nat.one_le_iff_ne_zero.mpr hbne
        have hrlt : val a % val b < val b := Nat.mod_lt _ hd1
        cases f with
        | zero =>
            have : 1 ≤ val a * val b := Nat.mul_pos (by omega) hd1
            simp at hlt; omega
        | succ f' =>
            have hr2 : 2 * (val a % val b) < val a := by
              have h1 := Nat.div_add_mod (val a) (val b)
              have h2 : 1 ≤ val a / val b := (Nat.one_le_div_iff hd1).mpr hle
              have h3 : val b * 1 ≤ val b * (val a / val b) := Nat.mul_le_mul_left _ h2
              omega
            have hprod : val b * val (div t a b).2 < 2 ^ f' := by
              rw [hre]
              have h1 : val b * (2 * (val a % val b)) < val b * val a := Nat.mul_lt_mul_of_pos_left hr2 hd1
              rw [pow_succ] at hlt
              have : val b * val a = val a * val b := Nat.mul_comm _ _
              have : val b * (2 * (val a % val b)) = 2 * (val b * (val a % val b)) := by ring
              omega
            have hg' : Nat.gcd (val b) (val (div t a b).2) = g := by
              rw [hre, ← hg, Nat.gcd_comm (val a) (val b), Nat.gcd_rec (val b) (val a), Nat.gcd_comm]
            exact bezLoop_ok t c d g hc hd hcne hdne f' x _ y _ b _ hx huw hy hvw hb hrw bx hult bye (Nat.le_of_lt hvlt)
              I2 (by rw [hre]; exact hue) J2 (by rw [hre]; exact hve) ⟨by rw [hre]; omega, hprod⟩ hg'

/-- `bezout_mod(x, y, c, d)` for all non-zero `c`, `d` (coprime or not): `x·c ≡ gcd(c,d) (mod d)`, `y·d ≡ gcd(c,d) (mod c)`,
    `0 ≤ x < d` and `0 ≤ y ≤ c` (`y = c` only for `c = d = 1`, where the code returns `y = 1`) -/
theorem bezout_mod_ok (t : Nat) {n : Nat} (c d : RU n) (hc : WF c) (hd : WF d) (hcne : val c ≠ 0) (hdne : val d ≠ 0) :
    WF (bezout_mod t c d).1 ∧ WF (bezout_mod t c d).2 ∧ val (bezout_mod t c d).1 < val d ∧ val (bezout_mod t c d).2 ≤ val c ∧
    (val (bezout_mod t c d).1 * val c) % val d = Nat.gcd (val c) (val d) % val d ∧
    (val (bezout_mod t c d).2 * val d) % val c = Nat.gcd (val c) (val d) % val c := by
  obtain ⟨h1w, h1e⟩ := ofLimb_ok n 1 (by decide)
  have hz := val_zero n
  have hvc := val_lt c hc
  have hvd := val_lt d hd
  have hc1 : 1 ≤ val c := Nat.one_le_iff_ne_zero.mpr hcne
  have hd1 : 1 ≤ val d := Nat.one_le_iff_ne_zero.mpr hdne
  have hzd : ¬ isZero d = true := fun h => hdne ((isZero_iff d).mp h)
  unfold bezout_mod
  rw [show 2 * bits n + 2 = (2 * bits n + 1) + 1 from rfl, bezLoop_succ, if_neg hzd]
  -- the first pass: (lastx, x, lasty, y, a, b) = (1, 0, 0, 1, c, d) ↦ (0, x', 1, y', d, c mod d)
  have I1 : val (ofLimb n 1) * val c ≡ val c [MOD val d] := by rw [h1e, Nat.one_mul]
  have I2 : val (zero n) * val c ≡ val d [MOD val d] := by rw [hz.2, Nat.zero_mul]; unfold Nat.ModEq; simp
  have J1 : val (zero n) * val d ≡ val c [MOD val c] := by rw [hz.2, Nat.zero_mul]; unfold Nat.ModEq; simp
  have J2 : val (ofLimb n 1) * val d ≡ val d [MOD val c] := by rw [h1e, Nat.one_mul]
  obtain ⟨huw, hult, hue, hrw, hre⟩ := inv_step t d (ofLimb n 1) (zero n) c d (val c) hd h1w hz.1 hc hd hdne hdne (by rw [h1e]; exact hd1) I1 I2
  obtain ⟨hvw, hvlt, hve, -, -⟩ := inv_step t c (zero n) (ofLimb n 1) c d (val d) hc hz.1 h1w hc hd hcne hdne (by rw [hz.2]; omega) J1 J2
  have hrlt : val c % val d < val d := Nat.mod_lt _ hd1
  have hprod : val d * val (div t c d).2 < 2 ^ (2 * bits n) := by
    rw [hre, two_mul, pow_add, ← Bn_eq_two_pow]
    exact Nat.mul_lt_mul'' hvd (Nat.lt_trans hrlt hvd)
  have hg : Nat.gcd (val d) (val (div t c d).2) = Nat.gcd (val c) (val d) := by
    rw [hre, Nat.gcd_comm (val c) (val d), Nat.gcd_rec (val d) (val c), Nat.gcd_comm]
  have h := bezLoop_ok t c d (Nat.gcd (val c) (val d)) hc hd hcne hdne (2 * bits n) (zero n) _ (ofLimb n 1) _ d _
    hz.1 huw h1w hvw hd hrw (by rw [hz.2]; omega) hult (by rw [h1e]; exact hc1) (Nat.le_of_lt hvlt)
    I2 (by rw [hre]; exact hue) J2 (by rw [hre]; exact hve) ⟨by rw [hre]; omega, hprod⟩ hg
  exact ⟨h.1, h.2.1, h.2.2.1, h.2.2.2.1, h.2.2.2.2.1, h.2.2.2.2.2⟩

end Givaro.Model.RecInt
