/-
C04 (round 2) — every `init` overload of the two Montgomery rings produces the Montgomery representation of its source.
-/
import GivaroModel.Model.ModInitMont
import GivaroModel.Lemmas.MontgomeryLemmas
import GivaroModel.Props.C07
namespace Givaro.Lemmas.MontInit
open Givaro Givaro.Model.Montgomery Givaro.Model.MontInit Givaro.Spec.Montgomery Givaro.Lemmas.Montgomery

section m32
variable {F : Ring32}

theorem wrapU32_emod (h : Good32 F) (x : Int) : wrapU32 (x % F.p) = x % F.p := by
  have := h.p3; have := h.pmax
  have m0 := Int.emod_nonneg x (show F.p ≠ 0 by omega)
  have m1 := Int.emod_lt_of_pos x (show 0 < F.p by omega)
  exact wrapU32_id m0 (by omega)

theorem initInteger_eq (F : Ring32) (a : Int) : initInteger F a = initI64 F a := rfl

theorem initF64_eq (_h : Good32 F) (a : Int) : initF64 F a = initI64 F a := by
  unfold initF64 initI64 toMg32; rfl

theorem initUns64_eq (F : Ring32) (a : Int) : initUns64 F a = initU64 F a := rfl

theorem initS64_eq (h : Good32 F) (a : Int) (ha : Src.s64.holds a) : initS64 F a = initI64 F a := by
  unfold Src.holds at ha
  unfold initS64 initI64 toMg32
  have e : (if a < 0 then wrapU64 (0 - wrapU64 a) else wrapU64 a) = (if a < 0 then -a else a) := by
    unfold wrapU64; split <;> omega
  simp only [e]

theorem initTplF32_eq (h : Good32 F) (a : Int) (ha : -4294967296 < a ∧ a < 4294967296) : initTplF32 F a = initI64 F a := by
  unfold initTplF32 initI64 toMg32
  have e : wrapU32 (if a < 0 then -a else a) = (if a < 0 then -a else a) := by
    unfold wrapU32; split <;> omega
  simp only [e, wrapU32_emod h]

theorem initTpl_eq (h : Good32 F) (prom : Bool) (a : Int)
    (ha : if prom = true then -2147483648 < a ∧ a < 4294967296 else -2147483648 ≤ a ∧ a < 4294967296) :
    initTpl F prom a = initI64 F a := by
  unfold initTpl initI64 toMg32
  have e : wrapU32 (if a < 0 then (if prom = true then -a else wrapS32 (-a)) else a) = (if a < 0 then -a else a) := by
    cases prom
    · simp only [Bool.false_eq_true, ↓reduceIte] at ha ⊢
      unfold wrapU32 wrapS32; split <;> omega
    · simp only [↓reduceIte] at ha ⊢
      unfold wrapU32; split <;> omega
  simp only [e, wrapU32_emod h]

/-- every overload that resolution selects is the `int64_t` body on the values of its source type -/
theorem init32_eq (h : Good32 F) (s : Src) (a : Int) (ha : s.holds a)
    (hf : s = .f32 → -4294967296 < a ∧ a < 4294967296) : init32 F s a = initI64 F a := by
  cases s <;> unfold init32 <;> unfold Src.holds at ha
  · exact initTpl_eq h true a (by simp only [↓reduceIte]; omega)
  · exact initTpl_eq h true a (by simp only [↓reduceIte]; omega)
  · exact initTpl_eq h true a (by simp only [↓reduceIte]; omega)
  · exact initTpl_eq h true a (by simp only [↓reduceIte]; omega)
  · exact initTpl_eq h false a (by simp only [Bool.false_eq_true, ↓reduceIte]; omega)
  · exact initTpl_eq h false a (by simp only [Bool.false_eq_true, ↓reduceIte]; omega)
  · exact initS64_eq h a ha
  · show initUns64 F a = initI64 F a
    rw [initUns64_eq]
    unfold initU64 initI64
    simp only [show ¬ a < 0 by omega, ↓reduceIte]
  · exact initTplF32_eq h a (hf rfl)
  · exact initF64_eq h a
  · exact initInteger_eq F a

theorem init32_rep (h : Good32 F) (s : Src) (a : Int) (ha : s.holds a)
    (hf : s = .f32 → -4294967296 < a ∧ a < 4294967296) : Rep32 F (init32 F s a) a := by
  rw [init32_eq h s a ha hf]; exact initI64_rep h a

/-- two representations of the same residue coincide (`B` is a unit modulo `p`) -/
theorem rep32_unique (_h : Good32 F) {x y a : Int} (hx : Rep32 F x a) (hy : Rep32 F y a) : x = y := by
  obtain ⟨x0, x1, xe⟩ := hx
  obtain ⟨y0, y1, ye⟩ := hy
  have : x % F.p = y % F.p := by rw [xe, ye]
  rwa [Int.emod_eq_of_lt x0 x1, Int.emod_eq_of_lt y0 y1] at this

end m32

section mR
variable {C : MgCtx}

/-- what the constructor establishes (C07: `mgR_p1_exact`, `mgR_constants_exact`) -/
structure GoodR (C : MgCtx) : Prop extends AdmR C where
  r2 : C.r2 = (C.R * C.R) % C.p

theorem toMgR_rep (h : GoodR C) {v : Int} (hv0 : 0 ≤ v) (hv1 : v < C.p) : IsRep C.R C.p (toMgR C v) v := by
  have hp0 := h.p0; have hpR := h.pR
  have r20 : 0 ≤ C.r2 := h.r2 ▸ Int.emod_nonneg _ (by omega)
  have r21 : C.r2 < C.p := h.r2 ▸ Int.emod_lt_of_pos _ hp0
  have r2d : C.p ∣ C.R * C.R - C.r2 := by
    rw [h.r2]; exact ⟨C.R * C.R / C.p, by have := Int.emod_add_mul_ediv (C.R * C.R) C.p; linear_combination -this⟩
  have h0 : 0 ≤ v * C.r2 := Int.mul_nonneg hv0 r20
  have h1 : v * C.r2 < C.p * C.R := by nlinarith
  unfold toMgR mulR
  rw [mgReduc_eq_pure h.toAdmR h0 h1]
  exact rep_init (by omega) hp0 (by omega) h.p1p r20 r21 r2d hv0 hv1

theorem initZ_rep (h : GoodR C) (a : Int) : IsRep C.R C.p (initZ C a) a := by
  have hp0 := h.p0
  unfold initZ
  have m0 := Int.emod_nonneg a (show C.p ≠ 0 by omega)
  have m1 := Int.emod_lt_of_pos a hp0
  refine rep_congr_val (toMgR_rep h m0 m1) ⟨-(a / C.p), ?_⟩
  have := Int.emod_add_mul_ediv a C.p
  linear_combination this

theorem negR_range (h : GoodR C) {r : Int} (r0 : 0 ≤ r) (r1 : r < C.p) :
    0 ≤ negR C r ∧ negR C r < C.p ∧ (negR C r = -r ∨ negR C r = C.p - r) := by
  have hp0 := h.p0; have hpR := h.pR
  unfold negR uSub
  split
  · omega
  · have : (C.p - r) % C.R = C.p - r := Int.emod_eq_of_lt (by omega) (by omega)
    rw [this]; omega

/-- machine-integer body, for every source of magnitude below the radix (`Caster<Element>(ua)` is then exact) -/
theorem initR_rep (h : GoodR C) (a : Int) (ha : -C.R < a ∧ a < C.R) : IsRep C.R C.p (initR C a) a := by
  have hp0 := h.p0; have hpR := h.pR
  unfold initR
  simp only
  by_cases hv : a < 0
  · simp only [hv, ↓reduceIte]
    rw [Int.emod_eq_of_lt (show 0 ≤ -a by omega) (by omega)]
    have m0 := Int.emod_nonneg (-a) (show C.p ≠ 0 by omega)
    have m1 := Int.emod_lt_of_pos (-a) hp0
    obtain ⟨n0, n1, e⟩ := negR_range h m0 m1
    refine rep_congr_val (toMgR_rep h n0 n1) ?_
    have hd := Int.emod_add_mul_ediv (-a) C.p
    rcases e with e | e
    · exact ⟨(-a) / C.p, by rw [e]; linear_combination -hd⟩
    · exact ⟨(-a) / C.p + 1, by rw [e]; linear_combination -hd⟩
  · simp only [hv, ↓reduceIte]
    rw [Int.emod_eq_of_lt (show 0 ≤ a by omega) (by omega)]
    have m0 := Int.emod_nonneg a (show C.p ≠ 0 by omega)
    have m1 := Int.emod_lt_of_pos a hp0
    refine rep_congr_val (toMgR_rep h m0 m1) ⟨-(a / C.p), ?_⟩
    have := Int.emod_add_mul_ediv a C.p
    linear_combination this

theorem src_lt_radix (n : Nat) (s : Src) (a : Int) (ha : s.holds a) (hs : s ≠ .f32 ∧ s ≠ .f64 ∧ s ≠ .Z) :
    -radix n < a ∧ a < radix n := by
  have hr : (18446744073709551616 : Int) ≤ radix n := by
    have : radix 0 = 18446744073709551616 := by unfold radix bitsOf; norm_num
    rw [← this]
    induction n with
    | zero => exact Int.le_refl _
    | succ k ih =>
      rw [radix_succ]
      have := radix_pos k
      nlinarith
  obtain ⟨h1, h2, h3⟩ := hs
  cases s <;> unfold Src.holds at ha <;> first | omega | contradiction

/-- the constructor's object is good (C07: `mgR_p1_exact`, `mgR_constants_exact`) -/
theorem mkR_goodAux (n : Nat) (p : Int) (h3 : 3 ≤ p) (hpR : p < radix n) (hodd : p % 2 = 1) : GoodR (mkR n p) := by
  obtain ⟨_, _, k1, _⟩ := Givaro.Props.C07.mgR_p1_exact n p (by omega) hpR hodd
  obtain ⟨_, _, _, kr2, _, _, _⟩ := Givaro.Props.C07.mgR_constants_exact n p (by omega) hpR
  exact { p0 := by show 0 < p; omega, pR := hpR, p1p := k1, r2 := kr2 }

theorem repR_unique {x y a : Int} (hx : IsRep C.R C.p x a) (hy : IsRep C.R C.p y a) : x = y := by
  obtain ⟨x0, x1, xe⟩ := hx
  obtain ⟨y0, y1, ye⟩ := hy
  have : x % C.p = y % C.p := by rw [xe, ye]
  rwa [Int.emod_eq_of_lt x0 x1, Int.emod_eq_of_lt y0 y1] at this

end mR
end Givaro.Lemmas.MontInit
