/-
C08 — the members of `Model/PolyMore.lean` against `Polynomial K`: observers on any storage, `setEntry`, `shiftin`,
constructors / assignments, the scalar / polynomial mixed quotient and remainder, `inv`, the shapes of `random`.
-/
import GivaroModel.Lemmas.PolyEuclid
import GivaroModel.Model.PolyMore
import GivaroModel.Model.PolyPadicDirect

open Polynomial
set_option linter.unusedSectionVars false

namespace Givaro.Lemmas.PolyMore
open Givaro.Model.Poly Givaro.Model.PolyMore Givaro.Lemmas.Poly

variable {K : Type} [Field K] [DecidableEq K]

theorem setdegree_singleton (c : K) (hc : c ≠ 0) : setdegree [c] = [c] := by simp [setdegree, hc]

/-- a stored vector denotes the non-zero constant `c` exactly when its normal form is `[c]` -/
theorem toPoly_eq_C_iff (P : List K) (c : K) (hc : c ≠ 0) : toPoly P = C c ↔ setdegree P = [c] := by
  have h := setdegree_eq_iff P [c]
  rw [setdegree_singleton c hc] at h
  rw [h]; simp

theorem isOne_iff (P : List K) : isOne P = true ↔ setdegree P = [1] := by
  unfold isOne; split
  · next a e => rw [e]; simp
  · next h => simp only [Bool.false_eq_true, false_iff]; intro e; exact h 1 e

theorem isMOne_iff (P : List K) : isMOne P = true ↔ setdegree P = [-1] := by
  unfold isMOne; split
  · next a e => rw [e]; simp
  · next h => simp only [Bool.false_eq_true, false_iff]; intro e; exact h (-1) e

theorem isUnit_iff (P : List K) : Givaro.Model.PolyMore.isUnit P = true ↔ ∃ a : K, a ≠ 0 ∧ setdegree P = [a] := by
  unfold Givaro.Model.PolyMore.isUnit; split
  · next a e => rw [e]; simp
  · next h =>
    simp only [Bool.false_eq_true, false_iff]
    rintro ⟨a, _, e⟩; exact h a e

theorem isOne_correct (P : List K) : isOne P = true ↔ toPoly P = 1 := by
  rw [isOne_iff, ← toPoly_eq_C_iff P 1 one_ne_zero, C_1]

theorem isMOne_correct (P : List K) : isMOne P = true ↔ toPoly P = -1 := by
  rw [isMOne_iff, ← toPoly_eq_C_iff P (-1) (neg_ne_zero.mpr one_ne_zero), C_neg, C_1]

theorem isUnit_correct (P : List K) : Givaro.Model.PolyMore.isUnit P = true ↔ IsUnit (toPoly P) := by
  rw [isUnit_iff, Polynomial.isUnit_iff]
  constructor
  · rintro ⟨a, ha, e⟩
    exact ⟨a, isUnit_iff_ne_zero.mpr ha, ((toPoly_eq_C_iff P a ha).mpr e).symm⟩
  · rintro ⟨r, hr, e⟩
    have hr0 : r ≠ 0 := isUnit_iff_ne_zero.mp hr
    exact ⟨r, hr0, (toPoly_eq_C_iff P r hr0).mp e.symm⟩

/-! ### `val` -/

theorem firstNZ_some (L : List K) : ∀ (i k : Nat), firstNZ i L = some k →
    i ≤ k ∧ L.getD (k - i) 0 ≠ 0 ∧ ∀ j, j < k - i → L.getD j 0 = 0 := by
  induction L with
  | nil => intro i k h; simp [firstNZ] at h
  | cons a t ih =>
    intro i k h
    simp only [firstNZ] at h
    by_cases ha : a = 0
    · rw [if_pos ha] at h
      obtain ⟨h1, h2, h3⟩ := ih (i + 1) k h
      refine ⟨by omega, ?_, ?_⟩
      · rw [show k - i = (k - (i + 1)) + 1 by omega, List.getD_cons_succ]; exact h2
      · intro j hj
        cases j with
        | zero => simpa using ha
        | succ j => rw [List.getD_cons_succ]; exact h3 j (by omega)
    · rw [if_neg ha] at h
      have : i = k := by simpa using h
      subst this
      refine ⟨le_refl _, by simpa using ha, ?_⟩
      intro j hj; omega

theorem firstNZ_none (L : List K) : ∀ i, firstNZ i L = none → ∀ j, L.getD j 0 = 0 := by
  induction L with
  | nil => intro i _ j; simp
  | cons a t ih =>
    intro i h j
    simp only [firstNZ] at h
    by_cases ha : a = 0
    · rw [if_pos ha] at h
      cases j with
      | zero => simpa using ha
      | succ j => rw [List.getD_cons_succ]; exact ih (i + 1) h j
    · rw [if_neg ha] at h; simp at h

/-- `val`: `-1` exactly for the zero polynomial (any storage); otherwise the index of the lowest non-zero coefficient -/
theorem val_spec (P : List K) :
    (val P = -1 ↔ toPoly P = 0) ∧
    (toPoly P ≠ 0 → ∃ k : Nat, val P = (k : Int) ∧ (toPoly P).coeff k ≠ 0 ∧ ∀ j, j < k → (toPoly P).coeff j = 0) := by
  have hz : setdegree P = [] ↔ toPoly P = 0 := by
    have := setdegree_eq_iff P ([] : List K)
    simpa [setdegree] using this
  have hcoef : ∀ j, (toPoly P).coeff j = (setdegree P).getD j 0 := by
    intro j; rw [coeff_toPoly, getD_setdegree]
  unfold val
  cases hs : setdegree P with
  | nil =>
    have h0 := hz.mp hs
    exact ⟨by simp [h0], fun h => absurd h0 h⟩
  | cons a t =>
    have hne : toPoly P ≠ 0 := fun h => by rw [hz.mpr h] at hs; simp at hs
    simp only []
    cases hf : firstNZ 0 (a :: t) with
    | none =>
      exfalso
      apply hne
      ext j
      rw [hcoef, hs, firstNZ_none _ 0 hf j]; simp
    | some k =>
      obtain ⟨_, h2, h3⟩ := firstNZ_some _ 0 k hf
      simp only [Option.getD_some, Nat.sub_zero] at h2 h3 ⊢
      refine ⟨⟨fun h => by omega, fun h => absurd h hne⟩, fun _ => ⟨k, rfl, ?_, ?_⟩⟩
      · rw [hcoef, hs]; exact h2
      · intro j hj; rw [hcoef, hs]; exact h3 j hj

/-! ### `setEntry`, `shiftin` -/

theorem getD_set (L : List K) (i j : Nat) (c : K) :
    (L.set i c).getD j 0 = if j = i ∧ i < L.length then c else L.getD j 0 := by
  simp only [List.getD_eq_getElem?_getD, List.getElem?_set]
  by_cases h : i = j
  · subst h
    by_cases h2 : i < L.length
    · simp [h2]
    · simp [h2]
  · have : ¬ (j = i) := fun e => h e.symm
    simp [h, this]

/-- `setEntry(P, c, i)` puts `c` at degree `i` and leaves every other coefficient of the denoted polynomial — any storage of
    `P`, any `i` (inside, at, or beyond the degree), `c` zero or not -/
theorem setEntry_coeff (P : List K) (c : K) (i j : Nat) :
    (toPoly (setEntry P c i)).coeff j = if j = i then c else (toPoly P).coeff j := by
  have hP : (toPoly P).coeff j = (setdegree P).getD j 0 := by rw [coeff_toPoly, getD_setdegree]
  rw [hP, coeff_toPoly]
  unfold setEntry
  simp only []
  by_cases hj : j = i
  · subst hj
    rw [if_pos rfl]
    by_cases hc : c = 0
    · rw [if_pos hc]
      split
      · next h => rw [hc]; exact getD_of_le _ _ (by omega)
      · next h =>
        split
        · next h2 => rw [getD_setdegree, getD_set, if_pos ⟨rfl, by omega⟩]
        · next h2 => rw [getD_set, if_pos ⟨rfl, by omega⟩]
    · rw [if_neg hc]
      split
      · next h => rw [getD_set, if_pos ⟨rfl, by rw [length_pad]; omega⟩]
      · next h => rw [getD_set, if_pos ⟨rfl, by omega⟩]
  · rw [if_neg hj]
    have hs : ∀ L : List K, (L.set i c).getD j 0 = L.getD j 0 := fun L => by
      rw [getD_set, if_neg (fun e => hj e.1)]
    by_cases hc : c = 0
    · rw [if_pos hc]
      split
      · rfl
      · split
        · rw [getD_setdegree, hs]
        · rw [hs]
    · rw [if_neg hc]
      split
      · next h =>
        rw [hs, getD_pad]
        split
        · rfl
        · exact (getD_of_le _ _ (by omega)).symm
      · rw [hs]

theorem toPoly_shiftin (R : List K) (s : Nat) : toPoly (Givaro.Model.PolyMore.shiftin R s) = X ^ s * toPoly R := by
  unfold Givaro.Model.PolyMore.shiftin; exact toPoly_zeros_append s R

/-! ### constructors / assignments -/

theorem toPoly_initDeg (d : Nat) : toPoly (initDeg d : List K) = X ^ d := by
  unfold initDeg; rw [toPoly_zeros_append]; simp

theorem toPoly_initDegVal (d : Nat) (v : K) : toPoly (initDegVal d v) = C v * X ^ d := by
  unfold initDegVal
  split
  · next h => rw [h]; simp
  · rw [toPoly_zeros_append]; simp

theorem normal_initDegVal (d : Nat) (v : K) : Normal (initDegVal d v) := by
  unfold initDegVal Normal
  split
  · simp
  · next h => simp [List.getLast?_append]; exact h

theorem toScalar_eq (P : List K) : toScalar P = (toPoly P).coeff 0 := by
  cases P with
  | nil => simp [toScalar]
  | cons a t => simp [toScalar]

/-! ### scalar / polynomial mixed quotient and remainder -/

/-- shape of a stored vector: zero, a non-zero constant, or degree at least one -/
theorem shape_cases (P : List K) :
    (setdegree P = [] ∧ toPoly P = 0) ∨ (∃ p0 : K, p0 ≠ 0 ∧ setdegree P = [p0] ∧ toPoly P = C p0) ∨
    (∃ a b t, setdegree P = a :: b :: t ∧ 0 < (toPoly P).degree) := by
  have hn := Givaro.Lemmas.Poly.setdegree_normal P
  have ht := toPoly_setdegree P
  cases hs : setdegree P with
  | nil => left; rw [hs] at ht; exact ⟨rfl, by simpa using ht.symm⟩
  | cons a t =>
    cases t with
    | nil =>
      right; left
      rw [hs] at hn ht
      have ha : a ≠ 0 := by simpa [Normal, eq_comm] using hn
      exact ⟨a, ha, rfl, by simpa using ht.symm⟩
    | cons b t =>
      right; right
      refine ⟨a, b, t, rfl, ?_⟩
      have hne : toPoly P ≠ 0 := by
        intro h0
        have := toPoly_eq_zero_of_normal _ hn (by rw [ht]; exact h0)
        rw [hs] at this; simp at this
      have hnd := natDegree_toPoly P hne
      rw [hs] at hnd
      simp only [List.length_cons] at hnd
      rw [degree_eq_natDegree hne]
      exact_mod_cast (by omega : 0 < (toPoly P).natDegree)

theorem toPoly_valDiv (u : K) (P : List K) (hP : toPoly P ≠ 0) : toPoly (valDiv u P) = C u / toPoly P := by
  unfold valDiv
  by_cases hu : u = 0
  · rw [if_pos hu, hu]; simp
  · rw [if_neg hu]
    rcases shape_cases P with ⟨_, h0⟩ | ⟨p0, hp0, hs, hc⟩ | ⟨a, b, t, hs, hd⟩
    · exact absurd h0 hP
    · rw [hs, hc]
      simp only [toPoly_setdegree]
      rw [div_C]; simp [div_eq_mul_inv]
    · rw [hs]
      simp only [toPoly_nil]
      symm
      rw [Polynomial.div_eq_zero_iff hP]
      exact lt_of_le_of_lt degree_C_le hd

theorem toPoly_valMod (u : K) (P : List K) (hP : toPoly P ≠ 0) : toPoly (valMod u P) = C u % toPoly P := by
  unfold valMod
  rcases shape_cases P with ⟨_, h0⟩ | ⟨p0, hp0, hs, hc⟩ | ⟨a, b, t, hs, hd⟩
  · exact absurd h0 hP
  · rw [hs, hc]
    simp only [toPoly_nil]
    symm
    rw [EuclideanDomain.mod_eq_zero]
    exact (isUnit_C.mpr (isUnit_iff_ne_zero.mpr hp0)).dvd
  · rw [hs]
    simp only [toPoly_cons, toPoly_nil, mul_zero, add_zero]
    symm
    rw [Polynomial.mod_eq_self_iff hP]
    exact lt_of_le_of_lt degree_C_le hd

theorem toPoly_modVal (P : List K) (u : K) (hu : u ≠ 0) : toPoly (modVal P u) = toPoly P % C u := by
  unfold modVal
  simp only [toPoly_nil]
  symm
  rw [EuclideanDomain.mod_eq_zero]
  exact (isUnit_C.mpr (isUnit_iff_ne_zero.mpr hu)).dvd

theorem toPoly_inv (thr : Nat) (hthr : 1 ≤ thr) (P : List K) (hP : toPoly P ≠ 0) :
    toPoly (Givaro.Model.PolyMore.inv thr P) = 1 / toPoly P := by
  unfold Givaro.Model.PolyMore.inv
  rw [toPoly_div thr hthr [1] P hP]; simp

/-! ### `isDivisor`, observers by value, `modpowx`, in-place division -/

theorem isZero_iff (P : List K) : isZero P = true ↔ toPoly P = 0 := by
  have hn := Givaro.Lemmas.Poly.setdegree_normal P
  have ht := toPoly_setdegree P
  unfold isZero
  split
  · next e => rw [e] at ht; simp [← ht]
  · next a e =>
    rw [e] at ht hn
    have ha : a ≠ 0 := by simpa [Normal, eq_comm] using hn
    simp only [decide_eq_true_eq, ha, false_iff]
    rw [← ht]; simp [ha]
  · next h1 h2 =>
    simp only [Bool.false_eq_true, false_iff]
    intro h0
    rw [← ht] at h0
    exact h1 (toPoly_eq_zero_of_normal _ hn h0)

theorem isDivisor_correct (thr : Nat) (hthr : 1 ≤ thr) (P Q : List K) :
    isDivisor thr P Q = true ↔ toPoly Q ∣ toPoly P := by
  unfold isDivisor
  by_cases hq : toPoly Q = 0
  · rw [if_pos ((isZero_iff Q).mpr hq), isZero_iff, hq, zero_dvd_iff]
  · have : ¬ (isZero Q = true) := fun h => hq ((isZero_iff Q).mp h)
    have hm : toPoly (Givaro.Model.Poly.mod thr P Q) = toPoly P % toPoly Q := (toPoly_divmod thr hthr P Q hq).2
    rw [if_neg this, isZero_iff, hm, EuclideanDomain.mod_eq_zero]

theorem degree_value (P : List K) :
    (toPoly P = 0 → Givaro.Model.Poly.degree P = -1) ∧
    (toPoly P ≠ 0 → Givaro.Model.Poly.degree P = ((toPoly P).natDegree : Int)) := by
  constructor
  · intro h
    have : setdegree P = [] := by
      have := (setdegree_eq_iff P ([] : List K)).mpr (by simpa using h)
      simpa [setdegree] using this
    unfold Givaro.Model.Poly.degree; rw [this]; simp
  · intro h
    have h1 := natDegree_toPoly P h
    have h2 := length_setdegree_pos P h
    unfold Givaro.Model.Poly.degree
    omega

theorem getEntry_eq (i : Nat) (P : List K) : getEntry i P = (toPoly P).coeff i := by
  unfold getEntry; rw [getD_setdegree, coeff_toPoly]

theorem coeff_modpowx (P : List K) (l i : Nat) :
    (toPoly (modpowx P l)).coeff i = if i < l then (toPoly P).coeff i else 0 := by
  unfold modpowx assign
  rw [toPoly_setdegree, coeff_toPoly, getD_pad, getD_setdegree, coeff_toPoly]

theorem toPoly_divin (thr : Nat) (hthr : 1 ≤ thr) (Q A : List K) (ha : toPoly A ≠ 0) :
    toPoly (divin thr Q A) = toPoly Q / toPoly A := by
  unfold divin assign; rw [toPoly_setdegree, toPoly_div thr hthr Q A ha]

theorem toPoly_divmodin (thr : Nat) (hthr : 1 ≤ thr) (R B : List K) (hb : toPoly B ≠ 0) :
    toPoly (divmodin thr R B).1 = toPoly R / toPoly B ∧ toPoly (divmodin thr R B).2 = toPoly R % toPoly B := by
  unfold divmodin maxpyin
  simp only []
  rw [toPoly_subin, toPoly_mul, toPoly_setdegree, toPoly_setdegree, toPoly_div thr hthr R B hb]
  refine ⟨rfl, ?_⟩
  have := EuclideanDomain.div_add_mod (toPoly R) (toPoly B)
  linear_combination (-1 : K[X]) * this

/-! ### `Poly1PadicDom::radixdirect` / `evaldirect` -/

theorem evalDirect_eq (p : Nat) (P : List Nat) : Givaro.Model.Padic.evalDirect p P = Givaro.Model.Padic.eval p P := by
  unfold Givaro.Model.Padic.evalDirect
  induction P with
  | nil => rfl
  | cons a P ih => simp only [List.foldr_cons, Givaro.Model.Padic.eval]; rw [ih]; ring

theorem radixDirect_spec (p : Nat) (hp : 1 ≤ p) : ∀ (n E : Nat),
    (Givaro.Model.Padic.radixDirect p n E).length = n ∧ (∀ d ∈ Givaro.Model.Padic.radixDirect p n E, d < p) ∧
    Givaro.Model.Padic.eval p (Givaro.Model.Padic.radixDirect p n E) = E % p ^ n := by
  intro n
  induction n with
  | zero => intro E; simp [Givaro.Model.Padic.radixDirect, Givaro.Model.Padic.eval, Nat.mod_one]
  | succ n ih =>
    intro E
    obtain ⟨h1, h2, h3⟩ := ih (E / p)
    have hm : E - E / p * p = E % p := by
      have := Nat.div_add_mod E p
      rw [Nat.mul_comm] at this
      omega
    simp only [Givaro.Model.Padic.radixDirect, Givaro.Model.Padic.eval, List.length_cons, List.mem_cons, hm]
    refine ⟨by omega, ?_, ?_⟩
    · rintro d (rfl | hd)
      · exact Nat.mod_lt _ (by omega)
      · exact h2 d hd
    · rw [h3, Nat.pow_succ', Nat.mod_mul]

/-! ### shapes of `random` -/

theorem setdegree_of_normal (L : List K) (h : Normal L) : setdegree L = L :=
  toPoly_injective_of_normal _ _ (Givaro.Lemmas.Poly.setdegree_normal L) h (toPoly_setdegree L)

theorem randomDeg_shape (d : Int) (lead : K) (draws : List K) (hl : lead ≠ 0) :
    (randomDeg d lead draws).length = (if d < 0 then 0 else d.toNat + 1) ∧
    Normal (randomDeg d lead draws) ∧
    Givaro.Model.Poly.degree (randomDeg d lead draws) = (if d < 0 then -1 else d) := by
  unfold randomDeg
  split
  · next h => simp [Normal, Givaro.Model.Poly.degree, setdegree]
  · next h =>
    have hn : Normal ((pad d.toNat draws).reverse ++ [lead]) := by
      simp [Normal, List.getLast?_append]; exact hl
    refine ⟨by simp [length_pad], hn, ?_⟩
    unfold Givaro.Model.Poly.degree
    rw [setdegree_of_normal _ hn]
    simp [length_pad]; omega

end Givaro.Lemmas.PolyMore
