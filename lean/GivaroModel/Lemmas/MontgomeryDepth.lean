/-
Helper lemmas for the depth part of C07: histories of operations, `inv_mod`, `isUnit`, exponentiation, scalar constructors.
-/
import GivaroModel.Lemmas.MontgomeryLemmas
import GivaroModel.Model.MontgomeryExpr
namespace Givaro.Lemmas.Montgomery
open Givaro Givaro.Model.Montgomery Givaro.Spec.Montgomery

/-! ## histories -/

/-- reduction after every step and reduction at the end agree -/
theorem evalPlain_eq (p : Int) (val : Nat → Int) (e : RExpr) : e.evalPlain p val = e.evalZ val % p := by
  induction e with
  | var i => rfl
  | neg a ih => simp only [RExpr.evalPlain, RExpr.evalZ, rNeg, ih]; exact (Int.ModEq.neg (Int.mod_modEq _ _))
  | bin op a b iha ihb =>
    have ha : a.evalZ val % p ≡ a.evalZ val [ZMOD p] := Int.mod_modEq _ _
    have hb : b.evalZ val % p ≡ b.evalZ val [ZMOD p] := Int.mod_modEq _ _
    cases op <;> simp only [RExpr.evalPlain, RExpr.evalZ, rAdd, rSub, rMul, iha, ihb]
    · exact ha.add hb
    · exact ha.sub hb
    · exact ha.sub hb
    · exact ha.mul hb
    · exact ha.mul hb
  | tern op a x y iha ihx ihy =>
    have ha : a.evalZ val % p ≡ a.evalZ val [ZMOD p] := Int.mod_modEq _ _
    have hx : x.evalZ val % p ≡ x.evalZ val [ZMOD p] := Int.mod_modEq _ _
    have hy : y.evalZ val % p ≡ y.evalZ val [ZMOD p] := Int.mod_modEq _ _
    cases op <;> simp only [RExpr.evalPlain, RExpr.evalZ, rAxpy, rAxmy, rMaxpy, iha, ihx, ihy]
    · exact (ha.mul hx).add hy
    · have := (ha.mul hx).add hy
      rwa [Int.add_comm (a.evalZ val * x.evalZ val)] at this
    · exact (ha.mul hx).sub hy
    · exact (ha.mul hx).sub hy
    · exact hy.sub (ha.mul hx)
    · exact hy.sub (ha.mul hx)

theorem eval32_rep {F : Ring32} (h : Adm32 F) (env val : Nat → Int) (henv : ∀ i, Rep32 F (env i) (val i)) (e : RExpr) :
    Rep32 F (e.eval32 F env) (e.evalZ val) := by
  induction e with
  | var i => exact henv i
  | neg a ih => exact neg32_rep h ih
  | bin op a b iha ihb =>
    cases op <;> simp only [RExpr.eval32, RExpr.evalZ]
    · exact add32_rep h iha ihb
    · exact sub32_rep h iha ihb
    · exact subin32_rep h iha ihb
    · exact mul32_rep h iha ihb
    · rw [mulin32_eq_mul32 h iha.1 iha.2.1 ihb.1 ihb.2.1]; exact mul32_rep h iha ihb
  | tern op a x y iha ihx ihy =>
    cases op <;> simp only [RExpr.eval32, RExpr.evalZ]
    · exact axpy32_rep h iha ihx ihy
    · exact axpyin32_rep h ihy iha ihx
    · exact axmy32_rep h iha ihx ihy
    · exact axmyin32_rep h ihy iha ihx
    · exact maxpy32_rep h iha ihx ihy
    · exact maxpyin32_rep h ihy iha ihx

theorem evalR_rep {C : MgCtx} (h : AdmR C) (env val : Nat → Int) (henv : ∀ i, IsRep C.R C.p (env i) (val i)) (e : RExpr) :
    IsRep C.R C.p (e.evalR C env) (e.evalZ val) := by
  induction e with
  | var i => exact henv i
  | neg a ih => exact negR_rep h ih
  | bin op a b iha ihb =>
    cases op <;> simp only [RExpr.evalR, RExpr.evalZ]
    · exact addR_rep h iha ihb
    · exact subR_rep h iha ihb
    · exact subinR_rep h iha ihb
    · exact mulR_rep h iha ihb
    · exact mulR_rep h iha ihb
  | tern op a x y iha ihx ihy =>
    have hm := mulR_rep h iha ihx
    cases op <;> simp only [RExpr.evalR, RExpr.evalZ]
    · exact addR_rep h hm ihy
    · exact addR_rep h ihy hm
    · exact subinR_rep h hm ihy
    · exact subR_rep h hm ihy
    · exact subR_rep h ihy hm
    · exact subinR_rep h ihy hm

/-! ## inv_mod (ruinvmod.h) -/

/-- one update `x ← (a - q·x) mod c` of `inv_mod`, as computed with the negation, the carry and the conditional subtraction -/
theorem invMod_update {R c q x a : Int} (hc0 : 0 < c) (hcR : c < R) (ha0 : 0 ≤ a) (ha1 : a < c) :
    let temp := (q * x) % c
    let temp := if temp ≠ 0 then uSub R c temp else temp
    let ret := uCarry R temp a
    let temp := uAdd R temp a
    let temp := if ret = true ∨ temp ≥ c then uSub R temp c else temp
    0 ≤ temp ∧ temp < c ∧ c ∣ temp - (a - q * x) := by
  intro t0 t1 ret t2 t3
  have h00 : 0 ≤ t0 := Int.emod_nonneg _ (by omega)
  have h01 : t0 < c := Int.emod_lt_of_pos _ hc0
  have hd := Int.emod_add_mul_ediv (q * x) c
  have e1 : t1 = if t0 = 0 then 0 else c - t0 := by
    show (if t0 ≠ 0 then uSub R c t0 else t0) = _
    by_cases h : t0 = 0
    · simp [h]
    · simp only [h, ne_eq, not_false_eq_true, ↓reduceIte]; unfold uSub; exact Int.emod_eq_of_lt (by omega) (by omega)
  have h10 : 0 ≤ t1 := by rw [e1]; split <;> omega
  have h11 : t1 < c := by rw [e1]; split <;> omega
  have e3 : t3 = if t1 + a ≥ c then t1 + a - c else t1 + a := by
    have : t3 = addR ⟨R, c, 0, 0, 0, 0⟩ t1 a := rfl
    rw [this]; exact addR_val (C := ⟨R, c, 0, 0, 0, 0⟩) hc0 hcR h10 h11 ha0 ha1
  refine ⟨by rw [e3]; split <;> omega, by rw [e3]; split <;> omega, ?_⟩
  rw [e3, e1]
  by_cases h : t0 = 0
  · simp only [h, ↓reduceIte]
    have ht : q * x % c = 0 := h
    have hd' : q * x = c * (q * x / c) := by rw [ht] at hd; linear_combination -hd
    split
    · exact ⟨q * x / c - 1, by linear_combination hd'⟩
    · exact ⟨q * x / c, by linear_combination hd'⟩
  · simp only [h, ↓reduceIte]
    have hd' : q * x = t0 + c * (q * x / c) := hd.symm
    split
    · exact ⟨q * x / c, by linear_combination hd'⟩
    · exact ⟨q * x / c + 1, by linear_combination hd'⟩

theorem invModLoop_spec (R c b : Int) (hc1 : 1 < c) (hcR : c < R) :
    ∀ (fuel : Nat) (a2 b2 a x : Int), 0 ≤ a2 → 0 ≤ b2 → b2 < fuel → 0 ≤ a → a < c → 0 ≤ x → x < c →
      c ∣ a * b - a2 → c ∣ x * b - b2 → IsCoprime a2 b2 →
      0 ≤ invModLoop R c fuel a2 b2 a x ∧ invModLoop R c fuel a2 b2 a x < c ∧ c ∣ invModLoop R c fuel a2 b2 a x * b - 1 := by
  intro fuel
  induction fuel with
  | zero => intro a2 b2 a x _ h2 h3; omega
  | succ n ih =>
    intro a2 b2 a x h1 h2 h3 h4 h5 h6 h7 h8 h9 h10
    unfold invModLoop
    by_cases hb : b2 = 0
    · simp only [hb, ↓reduceIte]
      subst hb
      have : a2 = 1 := by
        have := isCoprime_zero_right.mp h10
        rcases Int.isUnit_iff.mp this with h | h <;> omega
      subst this
      exact ⟨h4, h5, h8⟩
    · simp only [hb, ↓reduceIte]
      have hb0 : 0 < b2 := by omega
      obtain ⟨u0, u1, ⟨m, hm⟩⟩ := invMod_update (R := R) (c := c) (q := a2 / b2) (x := x) (a := a) (by omega) hcR h4 h5
      have hdm := Int.emod_add_mul_ediv a2 b2
      have r0 := Int.emod_nonneg a2 (show b2 ≠ 0 by omega)
      have r1 := Int.emod_lt_of_pos a2 hb0
      apply ih b2 (a2 % b2) x _ h2 r0 (by omega) h6 h7 u0 u1 h9
      · obtain ⟨k8, hk8⟩ := h8
        obtain ⟨k9, hk9⟩ := h9
        exact ⟨m * b + k8 - a2 / b2 * k9, by linear_combination b * hm + hk8 - (a2 / b2) * hk9 - hdm⟩
      · have := h10.add_mul_left_left (-(a2 / b2))
        have e : a2 + b2 * -(a2 / b2) = a2 % b2 := by linear_combination -hdm
        rw [e] at this; exact this.symm

/-- `inv_mod(a, b, c)`: for `1 < c < R` and `b ≥ 0` invertible modulo `c`, the result is in `[0,c)` and `res·b ≡ 1 (mod c)` -/
theorem invMod_spec {R c b : Int} (hc1 : 1 < c) (hcR : c < R) (hb0 : 0 ≤ b) (hcop : IsCoprime b c) :
    0 ≤ invMod R b c ∧ invMod R b c < c ∧ c ∣ invMod R b c * b - 1 := by
  have hf : c < ((c.toNat + 2 : Nat) : Int) := by have := Int.toNat_of_nonneg (show 0 ≤ c by omega); omega
  exact invModLoop_spec R c b hc1 hcR (c.toNat + 2) b c 1 0 hb0 (by omega) hf (by omega) hc1 (le_refl 0) (by omega)
    ⟨0, by ring⟩ ⟨-1, by ring⟩ hcop
/-- a Montgomery form is a unit iff the residue it represents is -/
theorem rep_coprime {B p nim : Int} (hnim : (nim * p) % B = B - 1) {x a : Int} (hx : IsRep B p x a) :
    IsCoprime x p ↔ IsCoprime a p := by
  obtain ⟨_, _, k, hk⟩ := isRep_iff.mp hx
  have hB : IsCoprime B p := (coprime_of_nim hnim).symm
  constructor
  · intro h
    have h2 := h.add_mul_left_left k
    have e : x + p * k = a * B := by linear_combination -hk
    rw [e] at h2
    exact h2.of_mul_left_left
  · intro h
    have h2 := (h.mul_left hB).add_mul_left_left (-k)
    have e : a * B + p * -k = x := by linear_combination hk
    rwa [e] at h2

section invR
variable {C : MgCtx}

/-- `Montgomery<ruint<K>>::inv`: `inv_mod(r, a, p); mulin(r, r3)` -/
theorem invR_rep (h : AdmR C) (hp1 : 1 < C.p) (hr3 : C.r3 = (C.R * C.R * C.R) % C.p) {x a : Int}
    (hx : IsRep C.R C.p x a) (hu : IsCoprime a C.p) :
    ∃ a', C.p ∣ a' * a - 1 ∧ IsRep C.R C.p (invR C x) a' := by
  have hpR := h.pR
  obtain ⟨x0, x1, k, hk⟩ := isRep_iff.mp hx
  obtain ⟨t0, t1, j, hj⟩ := invMod_spec hp1 hpR x0 ((rep_coprime h.p1p hx).mpr hu)
  have r30 : 0 ≤ C.r3 := hr3 ▸ Int.emod_nonneg _ (by omega)
  have r31 : C.r3 < C.p := hr3 ▸ Int.emod_lt_of_pos _ h.p0
  have hd := Int.emod_add_mul_ediv (C.R * C.R * C.R) C.p
  rw [← hr3] at hd
  have c0 : 0 ≤ invMod C.R x C.p * C.r3 := Int.mul_nonneg t0 r30
  have c1 : invMod C.R x C.p * C.r3 < C.p * C.R := by nlinarith
  obtain ⟨s0, s1, m, hm⟩ := redcPure_spec (B := C.R) (p := C.p) (nim := C.p1) (by omega) h.p0 h.p1p c0 c1
  refine ⟨invMod C.R x C.p * C.R, ⟨invMod C.R x C.p * k + j, by linear_combination (invMod C.R x C.p) * hk + hj⟩, ?_⟩
  unfold invR mulR
  rw [mgReduc_eq_pure h c0 c1]
  refine isRep_iff.mpr ⟨s0, s1, ?_⟩
  apply cancel_radix h.p1p
  exact ⟨m + invMod C.R x C.p * ((C.R * C.R * C.R) / C.p), by linear_combination hm - (invMod C.R x C.p) * hd⟩

/-- `rmint<K,MGA>` `inv`: `reduction(a, b); inv_mod(a, a, p); to_mg(a)` -/
theorem invA_rep (h : AdmR C) (hp1 : 1 < C.p) {x a : Int} (hx : IsRep C.R C.p x a) (hu : IsCoprime a C.p) :
    C.p ∣ invMod C.R (a % C.p) C.p * a - 1 ∧ IsRep C.R C.p (invA C x) (invMod C.R (a % C.p) C.p) ∧
    0 ≤ invMod C.R (a % C.p) C.p ∧ invMod C.R (a % C.p) C.p < C.p := by
  have hv : mgReduc C x = a % C.p := convertR_rep h hx
  have v0 := Int.emod_nonneg a (show C.p ≠ 0 by omega)
  have hd := Int.emod_add_mul_ediv a C.p
  have hcv : IsCoprime (a % C.p) C.p := by
    have := hu.add_mul_left_left (-(a / C.p))
    have e : a + C.p * -(a / C.p) = a % C.p := by linear_combination -hd
    rwa [e] at this
  obtain ⟨t0, t1, j, hj⟩ := invMod_spec hp1 h.pR v0 hcv
  refine ⟨⟨j + invMod C.R (a % C.p) C.p * (a / C.p), by linear_combination hj - (invMod C.R (a % C.p) C.p) * hd⟩, ?_, t0, t1⟩
  unfold invA; rw [hv]; exact toMgA_rep h _

end invR
/-! ## exponentiation (rmgexp.h) -/
section expo
variable {C : MgCtx}

theorem pow_split (X : Int) (k : Nat) : X ^ k = (X * X) ^ (k / 2) * X ^ (k % 2) := by
  conv_lhs => rw [← Nat.div_add_mod k 2]
  rw [pow_add, pow_mul, pow_two]

/-- `r = R mod p` is the Montgomery form of 1 -/
theorem r_rep_one (h : AdmR C) (hr : C.r = C.R % C.p) : IsRep C.R C.p C.r 1 := by
  have := h.p0
  rw [hr]
  exact ⟨Int.emod_nonneg _ (by omega), Int.emod_lt_of_pos _ h.p0, by rw [Int.emod_emod_of_dvd _ (dvd_refl _), Int.one_mul]⟩

/-- invariant of the binary loop `while (exp != 0) { if (exp & 1) a *= x; x *= x; exp >>= 1; }` -/
theorem expBinLoopA_rep (h : AdmR C) : ∀ (fuel k : Nat) (a x A X : Int), k < 2 ^ fuel →
    IsRep C.R C.p a A → IsRep C.R C.p x X → IsRep C.R C.p (expBinLoopA C fuel a x (k : Int)) (A * X ^ k) := by
  intro fuel
  induction fuel with
  | zero =>
    intro k a x A X hk ha _
    have : k = 0 := by simpa using hk
    subst this
    simpa [expBinLoopA] using ha
  | succ n ih =>
    intro k a x A X hk ha hx
    unfold expBinLoopA
    by_cases hk0 : (k : Int) = 0
    · have : k = 0 := by omega
      subst this
      simpa using ha
    · simp only [hk0, ↓reduceIte]
      have hdiv : (k : Int) / 2 = ((k / 2 : Nat) : Int) := by omega
      have hk2 : k / 2 < 2 ^ n := by
        rw [pow_succ] at hk; omega
      have hxx : IsRep C.R C.p (mulA C x x) (X * X) := mulR_rep h hx hx
      rw [hdiv, pow_split X k]
      by_cases hodd : (k : Int) % 2 = 1
      · simp only [hodd, ↓reduceIte]
        have hax : IsRep C.R C.p (mulA C a x) (A * X) := mulR_rep h ha hx
        have := ih (k / 2) _ _ _ _ hk2 hax hxx
        have e : k % 2 = 1 := by omega
        rw [e, pow_one]
        have e2 : A * ((X * X) ^ (k / 2) * X) = A * X * (X * X) ^ (k / 2) := by ring
        rw [e2]; exact this
      · simp only [hodd, ↓reduceIte]
        have := ih (k / 2) _ _ _ _ hk2 ha hxx
        have e : k % 2 = 0 := by omega
        rw [e, pow_zero, Int.mul_one]; exact this

/-- `exp(a, b, const UDItype& c)` -/
theorem expU64A_rep (h : AdmR C) (hr : C.r = C.R % C.p) {b B : Int} (hb : IsRep C.R C.p b B) (k : Nat) (hk : k < 2 ^ 64) :
    IsRep C.R C.p (expU64A C b (k : Int)) (B ^ k) := by
  have := expBinLoopA_rep h 64 k C.r b 1 B hk (r_rep_one h hr) hb
  rwa [Int.one_mul] at this

/-- entry `i` of the window table `g` -/
def gAt (C : MgCtx) (b : Int) : Nat → Int
  | 0 => C.r
  | i + 1 => mulA C (gAt C b i) b

theorem revmap_succ (g : Nat → Int) (m : Nat) :
    ((List.range (m + 1)).map g).reverse = g m :: ((List.range m).map g).reverse := by
  rw [List.range_succ, List.map_append, List.reverse_append]; rfl

theorem gTable_eq (b : Int) : ∀ (k m : Nat),
    gTable C b k ((List.range m).map (gAt C b)).reverse = (List.range (m + k)).map (gAt C b) := by
  intro k
  induction k with
  | zero => intro m; simp [gTable]
  | succ k ih =>
    intro m
    cases m with
    | zero =>
      have := ih 1
      rw [revmap_succ] at this
      simp only [List.range_zero, List.map_nil, List.reverse_nil, gTable]
      simp only [List.range_zero, List.map_nil, List.reverse_nil, gAt] at this
      rw [this]; congr 2; omega
    | succ m =>
      have := ih (m + 2)
      rw [revmap_succ, revmap_succ] at this
      rw [revmap_succ]
      simp only [gTable]
      simp only [gAt] at this
      rw [this]; congr 2; omega

theorem gTable_getD (b : Int) (i : Nat) (hi : i < 16) : (gTable C b 16 []).getD i 0 = gAt C b i := by
  have := gTable_eq (C := C) b 16 0
  simp only [List.range_zero, List.map_nil, List.reverse_nil, Nat.zero_add] at this
  rw [this]
  simp [List.getD, hi]

theorem gAt_rep (h : AdmR C) (hr : C.r = C.R % C.p) {b B : Int} (hb : IsRep C.R C.p b B) :
    ∀ i, IsRep C.R C.p (gAt C b i) (B ^ i) := by
  intro i
  induction i with
  | zero => simpa [gAt] using r_rep_one h hr
  | succ i ih => rw [pow_succ]; exact mulR_rep h ih hb

theorem sq4_rep (h : AdmR C) {y Y : Int} (hy : IsRep C.R C.p y Y) :
    IsRep C.R C.p (squareA C (squareA C (squareA C (squareA C y)))) (Y ^ 16) := by
  have h2 := mulR_rep h hy hy
  have h3 := mulR_rep h h2 h2
  have h4 := mulR_rep h h3 h3
  have h5 := mulR_rep h h4 h4
  have e : Y ^ 16 = Y * Y * (Y * Y) * (Y * Y * (Y * Y)) * (Y * Y * (Y * Y) * (Y * Y * (Y * Y))) := by ring
  rw [e]; exact h5

/-- invariant of the window loops (nibbles from the top; `a ← (a·g[nib])^16`, last nibble without the squarings) -/
theorem expWinLoopA_rep (h : AdmR C) (g : List Int) (B : Int) (hg : ∀ i, i < 16 → IsRep C.R C.p (g.getD i 0) (B ^ i)) (k : Nat) :
    ∀ (j : Nat) (a A : Int), IsRep C.R C.p a A →
      IsRep C.R C.p (expWinLoopA C g (k : Int) j a) (A ^ (16 ^ j) * B ^ (k % 16 ^ (j + 1))) := by
  intro j
  induction j with
  | zero =>
    intro a A ha
    unfold expWinLoopA
    have e : ((k : Int) % 16).toNat = k % 16 := by omega
    rw [e]
    have := mulR_rep h ha (hg (k % 16) (Nat.mod_lt _ (by decide)))
    have e2 : A ^ 16 ^ 0 * B ^ (k % 16 ^ (0 + 1)) = A * B ^ (k % 16) := by simp
    rw [e2]; exact this
  | succ j ih =>
    intro a A ha
    unfold expWinLoopA
    simp only
    have e : ((k : Int) / 16 ^ (j + 1) % 16).toNat = k / 16 ^ (j + 1) % 16 := by
      have : ((k : Int) / 16 ^ (j + 1) % 16) = ((k / 16 ^ (j + 1) % 16 : Nat) : Int) := by push_cast; rfl
      rw [this]; exact Int.toNat_natCast _
    rw [e]
    have h1 := mulR_rep h ha (hg (k / 16 ^ (j + 1) % 16) (Nat.mod_lt _ (by decide)))
    have := ih _ _ (sq4_rep h h1)
    have ev : A ^ 16 ^ (j + 1) * B ^ (k % 16 ^ (j + 1 + 1)) =
        ((A * B ^ (k / 16 ^ (j + 1) % 16)) ^ 16) ^ 16 ^ j * B ^ (k % 16 ^ (j + 1)) := by
      have hN : 16 ^ (j + 1 + 1) = 16 ^ (j + 1) * 16 := pow_succ 16 (j + 1)
      have hN' : 16 * 16 ^ j = 16 ^ (j + 1) := (pow_succ' 16 j).symm
      rw [hN, Nat.mod_mul, ← pow_mul, hN']
      generalize 16 ^ (j + 1) = N
      generalize k / N % 16 = nib
      rw [pow_add, mul_pow, ← pow_mul, Nat.mul_comm nib N]
      ring
    rw [ev]; exact this

/-- `exp(a, b, const ruint<K>& c)` at level `n` (`K = 6 + n`): every exponent below the radix -/
theorem expWinA_rep (h : AdmR C) (hr : C.r = C.R % C.p) (n : Nat) {b B : Int} (hb : IsRep C.R C.p b B) (k : Nat)
    (hk : k < 2 ^ bitsOf n) : IsRep C.R C.p (expWinA n C b (k : Int)) (B ^ k) := by
  unfold expWinA
  simp only
  have hg : ∀ i, i < 16 → IsRep C.R C.p ((gTable C b 16 []).getD i 0) (B ^ i) := by
    intro i hi; rw [gTable_getD b i hi]; exact gAt_rep h hr hb i
  have := expWinLoopA_rep h _ B hg k (bitsOf n / 4 - 1) C.r 1 (r_rep_one h hr)
  have hj : bitsOf n / 4 - 1 + 1 = 16 * 2 ^ n := by
    unfold bitsOf
    have : 0 < 2 ^ n := Nat.pow_pos (by decide)
    omega
  have hpow : 16 ^ (16 * 2 ^ n) = 2 ^ bitsOf n := by
    unfold bitsOf
    have : (16 : Nat) = 2 ^ 4 := by norm_num
    rw [this, ← pow_mul]; congr 1; ring
  rw [hj, hpow, Nat.mod_eq_of_lt hk, one_pow, Int.one_mul] at this
  exact this

end expo
/-! ## isUnit: `extended_euclid` returns the gcd (no coprimality assumed) -/

theorem eeLoop_gcd (wrap : Int → Int) (dv : Int → Int → Int) (a b : Int)
    (hw : ∀ x, 0 ≤ x → x ≤ b → wrap x = x) (hd : ∀ x y, 0 ≤ x → 0 < y → dv x y = x / y) :
    ∀ (fuel : Nat) (u0 u1 r1 d : Int) (neg : Bool),
      0 ≤ u0 → u0 ≤ b → 0 ≤ u1 → 0 ≤ r1 → r1 < d → d ≤ b → r1 < fuel →
      u1 * d + u0 * r1 = b → b ∣ u0 * a - sg neg * d → b ∣ u1 * a + sg neg * r1 →
      (∀ g : Int, (g ∣ r1 ∧ g ∣ d) ↔ (g ∣ a ∧ g ∣ b)) →
      0 < (eeLoop wrap dv fuel u0 u1 r1 d neg).2.1 ∧
      (∀ g : Int, g ∣ (eeLoop wrap dv fuel u0 u1 r1 d neg).2.1 ↔ (g ∣ a ∧ g ∣ b)) ∧
      b ∣ (eeLoop wrap dv fuel u0 u1 r1 d neg).1 * a -
            sg (eeLoop wrap dv fuel u0 u1 r1 d neg).2.2 * (eeLoop wrap dv fuel u0 u1 r1 d neg).2.1 := by
  intro fuel
  induction fuel with
  | zero => intro u0 u1 r1 d neg _ _ _ h3 _ _ h6; omega
  | succ n ih =>
    intro u0 u1 r1 d neg h1 h1b h2 h3 h4 h5 h6 h7 h8 h9 h10
    unfold eeLoop
    by_cases hr : r1 = 0
    · simp only [hr, ↓reduceIte]
      subst hr
      refine ⟨by omega, fun g => ?_, h8⟩
      rw [← h10 g]; simp
    · have hr1 : 0 < r1 := by omega
      have e1 : dv d r1 = d / r1 := hd d r1 (by omega) hr1
      have hq0 : 0 ≤ d / r1 := Int.ediv_nonneg (by omega) (by omega)
      have hdm : d % r1 + r1 * (d / r1) = d := Int.emod_add_mul_ediv d r1
      have hm0 : 0 ≤ d % r1 := Int.emod_nonneg d (by omega)
      have hm1 : d % r1 < r1 := Int.emod_lt_of_pos d hr1
      have hqu : 0 ≤ d / r1 * u1 := Int.mul_nonneg hq0 h2
      have hcont : (d / r1 * u1 + u0) * r1 + u1 * (d % r1) = b := by linear_combination h7 + u1 * hdm
      have hum : 0 ≤ u1 * (d % r1) := Int.mul_nonneg h2 hm0
      have hu1n : d / r1 * u1 + u0 ≤ b := by nlinarith
      have hu1b : u1 ≤ b := by
        have : 0 ≤ u0 * r1 := Int.mul_nonneg h1 h3
        nlinarith
      have hqr : d / r1 * r1 = d - d % r1 := by linear_combination hdm
      have e2 : wrap (d / r1 * u1) = d / r1 * u1 := hw _ hqu (by omega)
      have e3 : wrap (d / r1 * u1 + u0) = d / r1 * u1 + u0 := hw _ (by omega) hu1n
      have e4 : wrap (d / r1 * r1) = d / r1 * r1 := hw _ (by omega) (by omega)
      have e5 : wrap (d - d / r1 * r1) = d % r1 := by rw [hqr]; rw [hw _ (by omega) (by omega)]; omega
      simp only [hr, ↓reduceIte, e1, e2, e3, e4, e5]
      apply ih u1 (d / r1 * u1 + u0) (d % r1) r1 (!neg) h2 hu1b (by omega) hm0 hm1 (by omega) (by omega) hcont
      · rw [sg_not]; simpa [sub_neg_eq_add] using h9
      · rw [sg_not]
        obtain ⟨k8, hk8⟩ := h8
        obtain ⟨k9, hk9⟩ := h9
        refine ⟨d / r1 * k9 + k8, ?_⟩
        linear_combination (d / r1) * hk9 + hk8 - sg neg * hdm
      · intro g
        rw [← h10 g]
        constructor
        · rintro ⟨g1, g2⟩
          refine ⟨g2, ?_⟩
          rw [← hdm]; exact dvd_add g1 (Dvd.dvd.mul_right g2 _)
        · rintro ⟨g1, g2⟩
          refine ⟨?_, g1⟩
          have e : d % r1 = d - r1 * (d / r1) := by linear_combination hdm
          rw [e]; exact dvd_sub g2 (Dvd.dvd.mul_right g1 _)

/-- the `d` returned by `extended_euclid` is `1` exactly when `a` is invertible modulo `b` (`0 ≤ a < b`) -/
theorem extendedEuclid_d_iff (wrap : Int → Int) (dv : Int → Int → Int) (a b : Int)
    (hw : ∀ x, 0 ≤ x → x ≤ b → wrap x = x) (hd : ∀ x y, 0 ≤ x → 0 < y → dv x y = x / y)
    (ha0 : 0 ≤ a) (hab : a < b) :
    0 < (extendedEuclid wrap dv a b).2 ∧ ((extendedEuclid wrap dv a b).2 = 1 ↔ IsCoprime a b) := by
  have hfuel : a < ((a.toNat + 2 : Nat) : Int) := by
    have := Int.toNat_of_nonneg ha0; omega
  obtain ⟨s1, s2, s3⟩ := eeLoop_gcd wrap dv a b hw hd (a.toNat + 2) 0 1 a b true (le_refl 0) (by omega) (by omega) ha0 hab
    (le_refl b) hfuel (by ring) (by simp [sg]) (by simp [sg]) (fun g => Iff.rfl)
  unfold extendedEuclid
  simp only
  generalize eeLoop wrap dv (a.toNat + 2) 0 1 a b true = s at s1 s2 s3
  obtain ⟨u0, d, neg⟩ := s
  simp only at s1 s2 s3 ⊢
  refine ⟨s1, ?_, ?_⟩
  · intro hd1
    subst hd1
    obtain ⟨k, hk⟩ := s3
    cases neg with
    | false => exact ⟨u0, -k, by simp [sg] at hk; linear_combination hk⟩
    | true => exact ⟨-u0, k, by simp [sg] at hk; linear_combination -hk⟩
  · intro hc
    have hda := ((s2 d).mp (dvd_refl d))
    have := hc.isUnit_of_dvd' hda.1 hda.2
    rcases Int.isUnit_iff.mp this with h | h <;> omega

theorem isUnit32_iff {F : Ring32} (h : Adm32 F) {x a : Int} (hx : Rep32 F x a) :
    isUnit32 F x = true ↔ IsCoprime a F.p := by
  have := h.p3; have := h.pmax
  have ex : wrapS32 x = x := by have := hx.1; have := hx.2.1; unfold wrapS32; omega
  have ep : wrapS32 F.p = F.p := by unfold wrapS32; omega
  obtain ⟨d0, hd⟩ := extendedEuclid_d_iff wrapS32 Int.tdiv x F.p (fun y h0 h1 => by unfold wrapS32; omega)
    (fun y z hy _ => Int.tdiv_eq_ediv_of_nonneg hy) hx.1 hx.2.1
  unfold isUnit32
  simp only [ex, ep, Bool.or_eq_true, decide_eq_true_eq]
  rw [← rep_coprime h.nimp hx, ← hd]
  constructor
  · rintro (h1 | h1)
    · exact h1
    · omega
  · intro h1; exact Or.inl h1
/-! ## constructors from built-in scalars, non-Montgomery exponentiation -/
section scalars
variable {C : MgCtx}

/-- `rmint<K,MGA>(const T b)`, signed `T`: the Montgomery form of `b` for every `b` of either sign -/
theorem ctorSignedA_rep (h : AdmR C) (v : Int) : IsRep C.R C.p (ctorSignedA C v) v := by
  have p0 := h.p0; have pR := h.pR
  unfold ctorSignedA
  simp only
  by_cases hv : v < 0
  · simp only [hv, ↓reduceIte]
    have m0 := Int.emod_nonneg (-v) (show C.p ≠ 0 by omega)
    have m1 := Int.emod_lt_of_pos (-v) p0
    have hd := Int.emod_add_mul_ediv (-v) C.p
    have e : uSub C.R C.p (-v % C.p) = C.p - -v % C.p := by unfold uSub; exact Int.emod_eq_of_lt (by omega) (by omega)
    rw [e]
    exact rep_congr_val (toMgA_rep h _) ⟨1 + (-v) / C.p, by linear_combination -hd⟩
  · simp only [hv, ↓reduceIte]
    have hd := Int.emod_add_mul_ediv v C.p
    exact rep_congr_val (toMgA_rep h _) ⟨-(v / C.p), by linear_combination hd⟩

/-- `rmint<K,MGI>(const T b)`, signed `T` (after the repair): the canonical residue -/
theorem ctorSignedI_eq {R p : Int} (p0 : 0 < p) (pR : p < R) (v : Int) : ctorSignedI R p v = v % p := by
  unfold ctorSignedI
  simp only
  by_cases hv : v < 0
  · have m0 := Int.emod_nonneg (-v) (show p ≠ 0 by omega)
    have m1 := Int.emod_lt_of_pos (-v) p0
    have hd := Int.emod_add_mul_ediv (-v) p
    by_cases hm : -v % p = 0
    · simp only [hv, hm, ↓reduceIte, ne_eq, not_true_eq_false, and_false]
      rw [hm] at hd
      exact (emod_unique (le_refl 0) p0 ⟨-((-v) / p), by linear_combination hd⟩).symm
    · simp only [hv, hm, ↓reduceIte, ne_eq, not_false_eq_true, and_self]
      have e : uSub R p (-v % p) = p - -v % p := by unfold uSub; exact Int.emod_eq_of_lt (by omega) (by omega)
      rw [e]
      exact (emod_unique (by omega) (by omega) ⟨-1 - (-v) / p, by linear_combination hd⟩).symm
  · simp only [hv, ↓reduceIte, false_and]

theorem mulScalarI_eq {R p : Int} (p0 : 0 < p) (pR : p < R) (a v : Int) : mulScalarI R p a v = (a * v) % p := by
  unfold mulScalarI mulI
  rw [ctorSignedI_eq p0 pR]
  exact ((Int.mod_modEq v p).mul_left a)

theorem expModLoop_eq {p : Int} (hp : 1 < p) : ∀ (fuel k : Nat) (a x : Int), k < 2 ^ fuel → 0 ≤ a → a < p →
    expModLoop p fuel a x (k : Int) = (a * x ^ k) % p := by
  intro fuel
  induction fuel with
  | zero =>
    intro k a x hk h0 h1
    have : k = 0 := by simpa using hk
    subst this
    simp [expModLoop, Int.emod_eq_of_lt h0 h1]
  | succ n ih =>
    intro k a x hk h0 h1
    unfold expModLoop
    simp only
    have hdiv : (k : Int) / 2 = ((k / 2 : Nat) : Int) := by omega
    have hk2 : k / 2 < 2 ^ n := by rw [pow_succ] at hk; omega
    have hxx : (x * x % p) ^ (k / 2) ≡ (x * x) ^ (k / 2) [ZMOD p] := (Int.mod_modEq _ _).pow _
    rw [hdiv, pow_split x k]
    by_cases hodd : (k : Int) % 2 = 1
    · simp only [hodd, ↓reduceIte]
      rw [ih (k / 2) _ _ hk2 (Int.emod_nonneg _ (by omega)) (Int.emod_lt_of_pos _ (by omega))]
      have e : k % 2 = 1 := by omega
      rw [e, pow_one]
      have h1 : a * x % p * (x * x % p) ^ (k / 2) ≡ a * x * (x * x) ^ (k / 2) [ZMOD p] := (Int.mod_modEq _ _).mul hxx
      have e2 : a * ((x * x) ^ (k / 2) * x) = a * x * (x * x) ^ (k / 2) := by ring
      rw [e2]; exact h1
    · simp only [hodd, ↓reduceIte]
      rw [ih (k / 2) _ _ hk2 h0 h1]
      have e : k % 2 = 0 := by omega
      rw [e, pow_zero, Int.mul_one]
      exact (Int.ModEq.refl a).mul hxx

end scalars
/-! ## sources of any magnitude -/
section sources
variable {C : MgCtx}

/-- the signed (two's-complement) reading of a word of `rint<K>` -/
def sval (R c : Int) : Int := if c ≥ R / 2 then c - R else c

theorem ctorRintA_rep (h : AdmR C) {c : Int} (hc0 : 0 ≤ c) (hc1 : c < C.R) :
    IsRep C.R C.p (ctorRintA C c) (sval C.R c) := by
  have p0 := h.p0; have pR := h.pR
  unfold ctorRintA sval rintNeg
  simp only
  by_cases hn : c ≥ C.R / 2
  · simp only [hn, decide_true, ↓reduceIte]
    have hc : 0 < c := by
      have : 0 ≤ C.R / 2 := Int.ediv_nonneg (by omega) (by decide)
      by_contra h0
      have : c = 0 := by omega
      have : C.R / 2 ≤ 0 := by omega
      have : C.R / 2 = 0 := by omega
      omega
    have e : uNeg C.R c = C.R - c := by unfold uNeg; exact emod_unique (by omega) (by omega) ⟨-1, by ring⟩
    rw [e]
    have := negR_rep h (toMgA_rep h (C.R - c))
    have e2 : -(C.R - c) = c - C.R := by ring
    rwa [e2] at this
  · simp only [hn, decide_false, Bool.false_eq_true, ↓reduceIte]
    exact toMgA_rep h c

theorem ctorRintI_eq {R p : Int} (p0 : 0 < p) (pR : p < R) {c : Int} (hc0 : 0 ≤ c) (hc1 : c < R) :
    ctorRintI R p c = sval R c % p := by
  unfold ctorRintI sval rintNeg
  simp only
  by_cases hn : c ≥ R / 2
  · simp only [hn, decide_true, ↓reduceIte]
    have hc : 0 < c := by
      by_contra h0
      have : c = 0 := by omega
      omega
    have e : uNeg R c = R - c := by unfold uNeg; exact emod_unique (by omega) (by omega) ⟨-1, by ring⟩
    rw [e]
    have m0 := Int.emod_nonneg (R - c) (show p ≠ 0 by omega)
    have m1 := Int.emod_lt_of_pos (R - c) p0
    have hd := Int.emod_add_mul_ediv (R - c) p
    rw [negR_val (C := ⟨R, p, 0, 0, 0, 0⟩) p0 pR m0 m1]
    show (if (R - c) % p = 0 then 0 else p - (R - c) % p) = (c - R) % p
    split
    · rename_i hz
      rw [hz] at hd
      exact (emod_unique (le_refl 0) p0 ⟨-((R - c) / p), by linear_combination hd⟩).symm
    · exact (emod_unique (by omega) (by omega) ⟨-1 - (R - c) / p, by linear_combination hd⟩).symm
  · simp only [hn, decide_false, Bool.false_eq_true, ↓reduceIte]

/-- two Montgomery forms of congruent residues are the same word -/
theorem rep_unique {B p x y a b : Int} (hx : IsRep B p x a) (hy : IsRep B p y b) (hab : p ∣ a - b) : x = y := by
  obtain ⟨x0, x1, k1, h1⟩ := isRep_iff.mp hx
  obtain ⟨y0, y1, k2, h2⟩ := isRep_iff.mp hy
  obtain ⟨j, hj⟩ := hab
  have hd : p ∣ x - y := ⟨j * B - k1 + k2, by linear_combination B * hj - h1 + h2⟩
  obtain ⟨m, hm⟩ := hd
  have : m = 0 := by
    by_contra hne
    rcases Int.lt_or_gt_of_ne hne with hlt | hgt
    · have : p * m ≤ p * (-1) := Int.mul_le_mul_of_nonneg_left (by omega) (by omega)
      omega
    · have : p * 1 ≤ p * m := Int.mul_le_mul_of_nonneg_left (by omega) (by omega)
      omega
  rw [this] at hm; omega

end sources
end Givaro.Lemmas.Montgomery
