/-
C03, modular-mulprecomp.inl: the quotient estimates obtained from the precomputed reciprocals are at most one below
the true quotient (never above), so the ONE conditional subtraction the code applies yields the canonical residue —
on the domain the file's asserts state (`bitsizep ≤ 4s-2` for the `_p` variant, `≤ 4s-1` for the `_b` variant).
-/
import GivaroModel.Model.ModRingPrecomp
import GivaroModel.Lemmas.ModRingLemmas
namespace Givaro.Model.ModRing
open Givaro.Spec.ModRing

/-- Barrett with reciprocal `m = ⌊2·P2·H / p⌋` (`P2 = 2^(n-2)`, `H = 2^h`): for `X < p²` the estimate
    `⌊⌊X/P2⌋·m / 2H⌋` is `⌊X/p⌋` or one less, and `⌊X/P2⌋·m < H²` -/
theorem barrett_p {p P2 H X : Int} (hP : 1 ≤ P2) (hp0 : 2 * P2 ≤ p) (hp1 : p < 4 * P2) (hH : 16 * P2 ≤ H)
    (hX0 : 0 ≤ X) (hX1 : X ≤ (p - 1) * (p - 1)) :
    let m := (2 * P2 * H) / p
    let hi := X / P2
    let qh := (hi * m) / (2 * H)
    0 ≤ X - qh * p ∧ X - qh * p < 2 * p ∧ 0 ≤ hi * m ∧ hi * m < H * H ∧ 0 ≤ qh ∧ 0 ≤ m ∧ m ≤ H ∧ hi < H := by
  intro m hi qh
  have hpp : 0 < p := by omega
  have hH0 : 0 < H := by omega
  have hm1 : m * p ≤ 2 * P2 * H := Int.ediv_mul_le _ (by omega)
  have hm2 : 2 * P2 * H < (m + 1) * p := Int.lt_ediv_add_one_mul_self _ hpp
  have hm0 : 0 ≤ m := Int.ediv_nonneg (by positivity) (by omega)
  have hh1 : hi * P2 ≤ X := Int.ediv_mul_le _ (by omega)
  have hh2 : X < (hi + 1) * P2 := Int.lt_ediv_add_one_mul_self _ (by omega)
  have hh0 : 0 ≤ hi := Int.ediv_nonneg hX0 (by omega)
  have hq1 : qh * (2 * H) ≤ hi * m := Int.ediv_mul_le _ (by omega)
  have hq2 : hi * m < (qh + 1) * (2 * H) := Int.lt_ediv_add_one_mul_self _ (by omega)
  have hhm0 : 0 ≤ hi * m := Int.mul_nonneg hh0 hm0
  have hq0 : 0 ≤ qh := Int.ediv_nonneg hhm0 (by omega)
  -- X < p² < 16·P2²
  have hXp : X < 16 * P2 * P2 := by nlinarith
  have hhiH : hi < H := by
    by_contra hc
    have : H ≤ hi := by omega
    have : 16 * P2 * P2 ≤ hi * P2 := by nlinarith
    omega
  have hmH : m ≤ H := by
    by_contra hc
    have : H + 1 ≤ m := by omega
    have : (H + 1) * p ≤ m * p := by nlinarith
    nlinarith
  refine ⟨?_, ?_, hhm0, ?_, hq0, hm0, hmH, hhiH⟩
  · -- qh·p ≤ X
    have h1 : (hi * P2) * (m * p) ≤ X * (2 * P2 * H) := Int.mul_le_mul hh1 hm1 (by positivity) hX0
    have h2 : (qh * (2 * H)) * (P2 * p) ≤ (hi * m) * (P2 * p) := Int.mul_le_mul_of_nonneg_right hq1 (by positivity)
    have h3 : (2 * H * P2) * (qh * p) ≤ (2 * H * P2) * X := by nlinarith
    have := Int.le_of_mul_le_mul_left h3 (by positivity)
    omega
  · -- X < (qh+2)·p
    by_contra hc
    have hge : (qh + 2) * p ≤ X := by nlinarith
    have h1 : X * (2 * P2 * H) < ((hi + 1) * P2) * ((m + 1) * p) := by
      have a1 : X * (2 * P2 * H) ≤ X * ((m + 1) * p) := by nlinarith
      have a2 : X * ((m + 1) * p) < ((hi + 1) * P2) * ((m + 1) * p) := by
        apply Int.mul_lt_mul_of_pos_right hh2; nlinarith
      omega
    -- divide by P2
    have h2 : 2 * H * X < (hi + 1) * (m + 1) * p := by
      have : P2 * (2 * H * X) < P2 * ((hi + 1) * (m + 1) * p) := by nlinarith
      exact Int.lt_of_mul_lt_mul_left this (by omega)
    have h3 : hi * m * p < (qh + 1) * (2 * H) * p := by
      apply Int.mul_lt_mul_of_pos_right hq2 hpp
    have h4 : (qh + 1) * p ≤ X - p := by nlinarith
    have h5 : (qh + 1) * (2 * H) * p ≤ 2 * H * (X - p) := by nlinarith
    -- hi·p + m·p + p > 2H·p
    have h6 : 2 * H * p < (hi + m + 1) * p := by nlinarith
    have : 2 * H < hi + m + 1 := Int.lt_of_mul_lt_mul_right h6 (by omega)
    omega
  · nlinarith

/-- the `_b` variant: `invb = ⌊H·b/p⌋`, estimate `⌊a·invb / H⌋` -/
theorem barrett_b {p H a b : Int} (hp : 2 ≤ p) (hH : p ≤ H) (ha : 0 ≤ a ∧ a < p) (hb : 0 ≤ b ∧ b < p) :
    let invb := (H * b) / p
    let q := (a * invb) / H
    0 ≤ a * b - q * p ∧ a * b - q * p < 2 * p ∧ 0 ≤ invb ∧ invb < H ∧ 0 ≤ a * invb ∧ a * invb < H * H ∧ 0 ≤ q ∧ q < p := by
  intro invb q
  have hH0 : 0 < H := by omega
  have hi1 : invb * p ≤ H * b := Int.ediv_mul_le _ (by omega)
  have hi2 : H * b < (invb + 1) * p := Int.lt_ediv_add_one_mul_self _ (by omega)
  have hi0 : 0 ≤ invb := Int.ediv_nonneg (by nlinarith) (by omega)
  have hq1 : q * H ≤ a * invb := Int.ediv_mul_le _ (by omega)
  have hq2 : a * invb < (q + 1) * H := Int.lt_ediv_add_one_mul_self _ hH0
  have hai0 : 0 ≤ a * invb := Int.mul_nonneg ha.1 hi0
  have hq0 : 0 ≤ q := Int.ediv_nonneg hai0 (by omega)
  have hinvH : invb < H := by
    by_contra hc
    have : H ≤ invb := by omega
    have : H * p ≤ invb * p := by nlinarith
    nlinarith
  have hup : q * p ≤ a * b := by
    have h1 : a * (invb * p) ≤ a * (H * b) := Int.mul_le_mul_of_nonneg_left hi1 ha.1
    have h2 : (q * H) * p ≤ (a * invb) * p := Int.mul_le_mul_of_nonneg_right hq1 (by omega)
    have h3 : H * (q * p) ≤ H * (a * b) := by nlinarith
    exact Int.le_of_mul_le_mul_left h3 hH0
  refine ⟨by omega, ?_, hi0, hinvH, hai0, by nlinarith, hq0, ?_⟩
  · by_contra hc
    have hge : (q + 2) * p ≤ a * b := by nlinarith
    -- a·H·b < a·(invb+1)·p = a·invb·p + a·p < (q+1)·H·p + a·p
    have h1 : a * (H * b) ≤ a * ((invb + 1) * p) := Int.mul_le_mul_of_nonneg_left (Int.le_of_lt hi2) ha.1
    have h2 : (a * invb) * p < ((q + 1) * H) * p := Int.mul_lt_mul_of_pos_right hq2 (by omega)
    have h3 : H * (a * b) < (q + 1) * H * p + a * p := by nlinarith
    have h4 : H * ((q + 2) * p) ≤ H * (a * b) := Int.mul_le_mul_of_nonneg_left hge (by omega)
    -- H·(q+2)·p < (q+1)·H·p + a·p  ⇒  H·p < a·p
    have h5 : H * p < a * p := by nlinarith
    have : H < a := Int.lt_of_mul_lt_mul_right h5 (by omega)
    omega
  · by_contra hc
    have : p ≤ q := by omega
    have : p * p ≤ q * p := by nlinarith
    nlinarith

/-- what the two multiplications need from a configuration (`H = 2^(4s)`): no store below `H²` changes a `Compute_t`
    value, none below `H` a `Residu_t` value, and differences are exact modulo the width of `Residu_t` -/
structure POk (k : ICfg) (H : Int) : Prop where
  toC_id : ∀ x, 0 ≤ x → x < H * H → k.toC x = x
  arC_id : ∀ x, 0 ≤ x → x < H * H → k.arC x = x
  toR_id : ∀ x, 0 ≤ x → x < H → k.toR x = x
  arU_id : ∀ x, 0 ≤ x → x < H → k.arU x = x
  toE_id : ∀ x, 0 ≤ x → 2 * x < H → k.toE x = x
  subR : ∀ X Y, 0 ≤ X - Y → X - Y < H → k.toR (k.arU (k.toR X - k.arU Y)) = X - Y
  subU : ∀ X Y, 0 ≤ X - Y → X - Y < H → k.toR (k.arU (k.arU X - k.arU Y)) = X - Y

theorem pok_of_valid (k : ICfg) (hv : k.valid) : POk k ((2 : Int) ^ k.hbits) := by
  obtain ⟨s, sg, c⟩ := k
  simp only [ICfg.valid] at hv
  rcases hv with ⟨h1 | h1 | h1 | h1, h2 | h2⟩ <;> subst h1 <;> subst h2 <;> cases sg <;>
    (refine ⟨?_, ?_, ?_, ?_, ?_, ?_, ?_⟩ <;> intros <;>
     simp only [ICfg.hbits, ICfg.toC, ICfg.arC, ICfg.toR, ICfg.arU, ICfg.toE, wrapUw, wrapSw] at * <;> norm_num at * <;> omega)

theorem qh_lt {H p X qh : Int} (hp : 0 < p) (hpH : p ≤ H) (h0 : qh * p ≤ X) (hX : X ≤ (p - 1) * (p - 1)) : qh < H := by
  by_contra hc
  have h1 : H ≤ qh := by omega
  have h2 : H * p ≤ qh * p := Int.mul_le_mul_of_nonneg_right h1 (by omega)
  have h3 : p * p ≤ H * p := Int.mul_le_mul_of_nonneg_right hpH (by omega)
  have h4 : (p - 1) * (p - 1) < p * p := by nlinarith
  omega

/-- the final `rr -= (rr >= _p) ? _p : 0` and the store into `Element` -/
theorem final_correct {k : ICfg} {H p X qp : Int} (ok : POk k H) (hp : 0 < p) (hpH : 2 * p ≤ H)
    (h0 : 0 ≤ X - qp) (h1 : X - qp < 2 * p) (q : Int) (hq : qp = q * p) :
    k.toE (k.toR (k.arU ((X - qp) - (if X - qp ≥ p then p else 0)))) = X % p := by
  split
  · next hge =>
    rw [ok.arU_id _ (by omega) (by omega), ok.toR_id _ (by omega) (by omega), ok.toE_id _ (by omega) (by omega)]
    exact (emod_unique (by omega) (by omega) (q + 1) (by rw [hq]; ring)).symm
  · next hlt =>
    rw [Int.sub_zero, ok.arU_id _ (by omega) (by omega), ok.toR_id _ (by omega) (by omega), ok.toE_id _ (by omega) (by omega)]
    exact (emod_unique (by omega) (by omega) q (by rw [hq]; ring)).symm

section precomp
variable {k : ICfg} {p a b : Int} {n : Nat}

theorem pow_facts (hn2 : 2 ≤ n) (hnh : n + 2 ≤ k.hbits) :
    (2 : Int) ^ (n - 1) = 2 * (2 : Int) ^ (n - 2) ∧ (2 : Int) ^ n = 4 * (2 : Int) ^ (n - 2)
    ∧ (2 : Int) ^ (k.hbits + n - 1) = 2 * (2 : Int) ^ (n - 2) * (2 : Int) ^ k.hbits
    ∧ (2 : Int) ^ (k.hbits + 1) = 2 * (2 : Int) ^ k.hbits
    ∧ 16 * (2 : Int) ^ (n - 2) ≤ (2 : Int) ^ k.hbits ∧ 1 ≤ (2 : Int) ^ (n - 2) := by
  have e1 : (2 : Int) ^ (n - 1) = (2 : Int) ^ (n - 2) * (2 : Int) ^ 1 := by rw [← pow_add]; congr 1; omega
  have e2 : (2 : Int) ^ n = (2 : Int) ^ (n - 2) * (2 : Int) ^ 2 := by rw [← pow_add]; congr 1; omega
  have e3 : (2 : Int) ^ (k.hbits + n - 1) = (2 : Int) ^ (n - 2) * (2 : Int) ^ 1 * (2 : Int) ^ k.hbits := by
    rw [← pow_add, ← pow_add]; congr 1; omega
  have h16 : (2 : Int) ^ (n - 2) * (2 : Int) ^ 4 ≤ (2 : Int) ^ k.hbits := by
    rw [← pow_add]; exact pow_le_pow_right₀ (by norm_num) (by omega)
  refine ⟨by rw [e1]; ring, by rw [e2]; ring, by rw [e3]; ring, by rw [pow_succ]; ring, by linarith,
    one_le_pow₀ (by norm_num)⟩

/-- `mul_precomp_p` with the reciprocal of `precomp_p`, on the asserted domain `bitsizep ≤ 4s-2` -/
theorem mulPrecompP_model (hv : k.valid) (hn2 : 2 ≤ n) (hnh : n + 2 ≤ k.hbits)
    (hp0 : (2 : Int) ^ (n - 1) ≤ p) (hp1 : p < (2 : Int) ^ n) (ha : 0 ≤ a ∧ a < p) (hb : 0 ≤ b ∧ b < p) :
    k.mulPrecompP p n (k.precompP p n) a b = (a * b) % p := by
  have ok := pok_of_valid k hv
  obtain ⟨e1, e2, e3, e4, h16, hP⟩ := pow_facts (k := k) hn2 hnh
  rw [e1] at hp0; rw [e2] at hp1
  generalize hP2 : (2 : Int) ^ (n - 2) = P2 at *
  generalize hH : (2 : Int) ^ k.hbits = H at *
  have hH0 : 0 < H := by omega
  have hPH0 : 0 ≤ 2 * P2 * H := by nlinarith
  have hX := mul_lt_sq (by omega : 2 ≤ p) ha hb
  obtain ⟨b0, b1, b2, b3, b4, b5, b6, b7⟩ := barrett_p hP hp0 hp1 h16 hX.1 hX.2
  have hXH : a * b < H * H := by nlinarith
  have hpH : p < H := by omega
  -- the reciprocal
  have hinv : k.precompP p n = (2 * P2 * H) / p := by
    unfold ICfg.precompP
    rw [e3, ok.toC_id (2 * P2 * H) hPH0 (by nlinarith), ok.toC_id p (by omega) (by nlinarith),
      Int.tdiv_eq_ediv_of_nonneg hPH0]
    exact ok.toC_id _ b5 (by nlinarith)
  rw [hinv]
  unfold ICfg.mulPrecompP
  simp only
  rw [hP2, e4]
  rw [ok.toR_id a ha.1 (by omega), ok.toR_id b hb.1 (by omega), ok.toR_id p (by omega) hpH,
    ok.toC_id a ha.1 (by nlinarith), ok.toC_id b hb.1 (by nlinarith), ok.arC_id (a * b) hX.1 hXH]
  have hhi0 : 0 ≤ a * b / P2 := Int.ediv_nonneg hX.1 (by omega)
  rw [ok.toC_id (a * b / P2) hhi0 (by nlinarith), ok.arC_id _ b2 b3]
  generalize a * b / P2 * (2 * P2 * H / p) / (2 * H) = qh at *
  have hqp : qh < H := qh_lt (by omega) (by omega) (by omega) hX.2
  rw [ok.toR_id _ b4 hqp, ok.subR (a * b) _ b0 (by omega)]
  exact final_correct ok (by omega) (by omega) b0 b1 qh rfl

/-- `mul_precomp_b` (and the unreduced value) with the reciprocal of `precomp_b(invb, b)`, on the asserted domain
    `bitsizep ≤ 4s-1`, i.e. `2p ≤ 2^(4s)` -/
theorem mulPrecompB_model (hv : k.valid) (hp : 2 ≤ p) (hpH : 2 * p ≤ (2 : Int) ^ k.hbits)
    (ha : 0 ≤ a ∧ a < p) (hb : 0 ≤ b ∧ b < p) :
    k.mulPrecompB p (k.precompB p b) a b = (a * b) % p
      ∧ (0 ≤ k.mulPrecompBNoRed p (k.precompB p b) a b ∧ k.mulPrecompBNoRed p (k.precompB p b) a b < 2 * p
          ∧ p ∣ k.mulPrecompBNoRed p (k.precompB p b) a b - a * b) := by
  have ok := pok_of_valid k hv
  generalize hH : (2 : Int) ^ k.hbits = H at *
  obtain ⟨b0, b1, b2, b3, b4, b5, b6, b7⟩ := barrett_b hp (by omega : p ≤ H) ha hb
  have hinv : k.precompB p b = (H * b) / p := by
    unfold ICfg.precompB
    rw [hH, ok.toR_id b hb.1 (by omega), ok.toC_id H (by omega) (by nlinarith), ok.toC_id b hb.1 (by nlinarith),
      ok.arC_id (H * b) (by nlinarith) (by nlinarith), ok.toC_id p (by omega) (by nlinarith),
      Int.tdiv_eq_ediv_of_nonneg (by nlinarith)]
    exact ok.toC_id _ b2 (by nlinarith)
  have hnr : k.mulPrecompBNoRed p ((H * b) / p) a b = a * b - (a * ((H * b) / p)) / H * p := by
    unfold ICfg.mulPrecompBNoRed
    simp only
    rw [hH, ok.toC_id a ha.1 (by nlinarith), ok.arC_id _ b4 b5, ok.toR_id _ b6 (by omega),
      ok.toR_id a ha.1 (by omega), ok.toR_id b hb.1 (by omega), ok.toR_id p (by omega) (by omega)]
    exact ok.subU (a * b) _ b0 (by omega)
  rw [hinv]
  refine ⟨?_, ?_⟩
  · unfold ICfg.mulPrecompB
    simp only
    rw [hnr, ok.toR_id p (by omega) (by omega)]
    generalize (a * ((H * b) / p)) / H = q at *
    exact final_correct ok (by omega) (by omega) b0 b1 q rfl
  · rw [hnr]
    refine ⟨b0, b1, ⟨-((a * ((H * b) / p)) / H), by ring⟩⟩

end precomp
end Givaro.Model.ModRing
