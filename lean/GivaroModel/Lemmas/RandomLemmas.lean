/-
Helper lemmas for C20 (Props/C20.lean): powers of two, `setbit` below the top bit, `bitsize`, `castSt`, truncated remainder.
-/
import GivaroModel.Model.Random
import GivaroModel.Spec.RandomSpec
import Mathlib.Tactic.Ring
import Mathlib.Tactic.Linarith
import Mathlib.Tactic.Positivity
import Mathlib.Tactic.LinearCombination
namespace Givaro.Lemmas.Random
open Givaro Givaro.Model.Random Givaro.Spec.Random

theorem two_pow_pos (k : Nat) : (0 : Int) < 2 ^ k := by positivity

theorem two_pow_succ' (k : Nat) (hk : 1 ≤ k) : (2 : Int) ^ k = 2 * 2 ^ (k - 1) := by
  obtain ⟨j, rfl⟩ : ∃ j, k = j + 1 := ⟨k - 1, by omega⟩
  simp [pow_succ]; ring

/-- `mpz_setbit` on a non-negative value below the bit is an addition -/
theorem setbit_of_lt (v : Int) (k : Nat) (h0 : 0 ≤ v) (h1 : v < 2 ^ k) : setbit v k = v + 2 ^ k := by
  obtain ⟨w, rfl⟩ := Int.eq_ofNat_of_zero_le h0
  have hw : w < 2 ^ k := by exact_mod_cast h1
  have e : ((2 : Int) ^ k) = ((2 ^ k : Nat) : Int) := by push_cast; rfl
  unfold setbit
  rw [e]
  show ((w ||| 2 ^ k : Nat) : Int) = _
  have := Nat.two_pow_add_eq_or_of_lt hw 1
  rw [Nat.mul_one] at this
  rw [Nat.or_comm, ← this]
  push_cast; ring

/-- the model of `Integer::bitsize` is the exact bit size -/
theorem bitsize_eq_iff (x : Int) (n : Nat) (hx : x ≠ 0) (hn : 1 ≤ n) :
    bitsize x = n ↔ (2 : Int) ^ (n - 1) ≤ iabs x ∧ iabs x < 2 ^ n := by
  have hnat : x.natAbs ≠ 0 := by omega
  have habs : iabs x = (x.natAbs : Int) := by unfold iabs; split <;> omega
  unfold bitsize
  rw [if_neg hx, habs]
  obtain ⟨j, rfl⟩ : ∃ j, n = j + 1 := ⟨n - 1, by omega⟩
  simp only [Nat.add_sub_cancel]
  constructor
  · intro h
    have hj : x.natAbs.log2 = j := by omega
    have h1 := Nat.log2_self_le hnat
    have h2 := @Nat.lt_log2_self x.natAbs
    rw [hj] at h1 h2
    exact ⟨by exact_mod_cast h1, by exact_mod_cast h2⟩
  · rintro ⟨h1, h2⟩
    have h1' : 2 ^ j ≤ x.natAbs := by exact_mod_cast h1
    have h2' : x.natAbs < 2 ^ (j + 1) := by exact_mod_cast h2
    have a : x.natAbs.log2 < j + 1 := (Nat.log2_lt hnat).2 h2'
    have b : ¬ x.natAbs.log2 < j := by
      intro hb
      have := (Nat.log2_lt hnat).1 hb
      omega
    omega

/-- a value that fits in the positive half of the storage type is unchanged by the conversion -/
theorem castSt_id (bits : Nat) (sgn : Bool) (x : Int) (hb : 1 ≤ bits) (h0 : 0 ≤ x) (h1 : x < 2 ^ (bits - 1)) :
    castSt bits sgn x = x := by
  have e := two_pow_succ' bits hb
  have hp := two_pow_pos (bits - 1)
  unfold castSt
  cases sgn
  · simp only [Bool.false_eq_true, ↓reduceIte]
    exact Int.emod_eq_of_lt h0 (by omega)
  · simp only [↓reduceIte]
    rw [Int.emod_eq_of_lt (by omega) (by omega)]
    omega

/-- C++ `%` on a signed word: magnitude below the divisor, sign of the dividend -/
theorem tmod_bounds (a p : Int) (hp : 0 < p) : -p < Int.tmod a p ∧ Int.tmod a p < p := by
  have h1 := Int.tmod_lt_of_pos a hp
  have h2 : -p < Int.tmod a p := by
    rcases Int.le_total 0 a with h | h
    · have := Int.tmod_nonneg p h; omega
    · have e : Int.tmod a p = -Int.tmod (-a) p := by rw [Int.neg_tmod]; omega
      have := Int.tmod_lt_of_pos (-a) hp
      omega
  exact ⟨h2, h1⟩

/-- the multiplier of GivRandom is invertible modulo 2^31 - 1 (inverse 340363889: 950706376 · 340363889 = 1 + 150681529 · (2^31 - 1)),
    so multiplication by it has no zero divisors on `[1, 2^31 - 2]` … -/
theorem giv_mul_ne_zero (s : Int) (h1 : 1 ≤ s) (h2 : s < 2147483647) : (950706376 * s) % 2147483647 ≠ 0 := by
  intro h
  obtain ⟨q, hq⟩ := Int.dvd_of_emod_eq_zero h
  have e : s = 2147483647 * (340363889 * q - 150681529 * s) := by linear_combination 340363889 * hq
  clear h hq
  generalize 340363889 * q - 150681529 * s = t at e
  omega

/-- … and is injective there -/
theorem giv_mul_inj (s t : Int) (hs1 : 1 ≤ s) (hs2 : s < 2147483647) (ht1 : 1 ≤ t) (ht2 : t < 2147483647)
    (h : (950706376 * s) % 2147483647 = (950706376 * t) % 2147483647) : s = t := by
  have h0 : (950706376 * s - 950706376 * t) % 2147483647 = 0 := Int.emod_eq_emod_iff_emod_sub_eq_zero.1 h
  obtain ⟨q, hq⟩ := Int.dvd_of_emod_eq_zero h0
  have e : s - t = 2147483647 * (340363889 * q - 150681529 * (s - t)) := by linear_combination 340363889 * hq
  clear h h0 hq
  generalize 340363889 * q - 150681529 * (s - t) = u at e
  omega

end Givaro.Lemmas.Random
