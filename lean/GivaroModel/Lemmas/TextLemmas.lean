/-
C19 — building blocks for the round-trip theorems: decimal digits, the digit loop of GMP's reader on a
digit string followed by a non-digit, the reader on `showInt n ++ rest`.
-/
import GivaroModel.Model.Text
import GivaroModel.Spec.TextSpec
namespace Givaro.Lemmas.Text
open Givaro.Model.Text Givaro.Spec.Text

/-! ### characters -/

theorem digitChar_ok : ∀ d, d < 10 → (isDigit (digitChar d) = true ∧ digitVal (digitChar d) = d) := by decide

theorem isDigit_facts (c : Char) (h : isDigit c = true) :
    isSpace c = false ∧ c ≠ '-' ∧ c ≠ '+' ∧ c ≠ '/' ∧ c ≠ ' ' := by
  have hc : 48 ≤ c.toNat ∧ c.toNat ≤ 57 := by simpa [isDigit] using h
  refine ⟨?_, ?_, ?_, ?_, ?_⟩
  · simp only [isSpace, Bool.or_eq_false_iff, decide_eq_false_iff_not, Bool.and_eq_false_imp, decide_eq_true_eq]
    omega
  all_goals (intro e; subst e; revert hc; decide)

/-- value denoted by a digit string, continuing from `v` -/
def valOf (v : Nat) (l : List Char) : Nat := l.foldl (fun acc c => acc * 10 + digitVal c) v

def AllDigits (l : List Char) : Prop := ∀ c ∈ l, isDigit c = true

theorem valOf_append (v : Nat) (a b : List Char) : valOf v (a ++ b) = valOf (valOf v a) b := by
  simp [valOf, List.foldl_append]

/-! ### decimal digits -/

theorem decDigitsF_fuel : ∀ f1 f2 n, n < f1 → n < f2 → decDigitsF f1 n = decDigitsF f2 n := by
  intro f1
  induction f1 with
  | zero => intro f2 n h; omega
  | succ f1 ih =>
    intro f2 n h1 h2
    cases f2 with
    | zero => omega
    | succ f2 =>
      simp only [decDigitsF]
      split
      · rfl
      · rw [ih f2 (n / 10) (by omega) (by omega)]

theorem decDigits_lt (n : Nat) (h : n < 10) : decDigits n = [digitChar n] := by
  simp [decDigits, decDigitsF, h]

theorem decDigits_ge (n : Nat) (h : 10 ≤ n) : decDigits n = decDigits (n / 10) ++ [digitChar (n % 10)] := by
  have : ¬ n < 10 := by omega
  unfold decDigits
  rw [decDigitsF, if_neg this, decDigitsF_fuel n (n / 10 + 1) (n / 10) (by omega) (by omega)]

/-- the decimal string of `n` is a non-empty string of digits that denotes `n` -/
theorem decDigits_spec (n : Nat) : decDigits n ≠ [] ∧ AllDigits (decDigits n) ∧ valOf 0 (decDigits n) = n := by
  induction n using Nat.strongRecOn with
  | ind n ih =>
    by_cases h : n < 10
    · rw [decDigits_lt n h]
      have := digitChar_ok n h
      refine ⟨by simp, ?_, ?_⟩
      · intro c hc; simp at hc; subst hc; exact this.1
      · simp [valOf, this.2]
    · have hge : 10 ≤ n := by omega
      rw [decDigits_ge n hge]
      have ih' := ih (n / 10) (by omega)
      have hd := digitChar_ok (n % 10) (by omega)
      refine ⟨by simp, ?_, ?_⟩
      · intro c hc
        rcases List.mem_append.mp hc with hc | hc
        · exact ih'.2.1 c hc
        · simp at hc; subst hc; exact hd.1
      · rw [valOf_append, ih'.2.2]
        simp only [valOf, List.foldl_cons, List.foldl_nil, hd.2]
        omega

/-- no leading zero except for zero itself (canonical form: what makes the text determined by the value) -/
theorem decDigits_head (n : Nat) (h : 0 < n) : (decDigits n).head? ≠ some '0' := by
  induction n using Nat.strongRecOn with
  | ind n ih =>
    by_cases h10 : n < 10
    · rw [decDigits_lt n h10]
      have : ∀ d, d < 10 → 0 < d → digitChar d ≠ '0' := by decide
      simpa using this n h10 h
    · rw [decDigits_ge n (by omega)]
      have ih' := ih (n / 10) (by omega) (by omega)
      have hne := (decDigits_spec (n / 10)).1
      cases hd : decDigits (n / 10) with
      | nil => exact absurd hd hne
      | cons a l => rw [hd] at ih'; simpa using ih'

/-! ### the loops of GMP's reader -/

theorem skipWsG_nonspace (c : Char) (buf : List Char) (h : isSpace c = false) :
    skipWsG c buf = (c, ⟨buf, false, false⟩) := by
  cases buf <;> simp [skipWsG, h]

theorem digitsG_nondigit (c : Char) (ok : Bool) (v : Nat) (buf : List Char) (h : isDigit c = false) :
    digitsG c ok v buf = (ok, v, c, ⟨buf, false, false⟩) := by
  cases buf <;> simp [digitsG, h]

/-- digit string followed by a non-digit: the loop stops on that character -/
theorem digitsG_stop (ds : List Char) (hds : AllDigits ds) (r : Char) (rs : List Char) (hr : isDigit r = false) :
    ∀ (c : Char) (ok : Bool) (v : Nat), isDigit c = true →
      digitsG c ok v (ds ++ r :: rs) = (true, valOf v (c :: ds), r, ⟨rs, false, false⟩) := by
  induction ds with
  | nil =>
    intro c ok v hc
    simp only [List.nil_append, digitsG, hc, ↓reduceIte]
    rw [digitsG_nondigit r true _ rs hr]
    simp [valOf]
  | cons d ds ih =>
    intro c ok v hc
    have hd : isDigit d = true := hds d (by simp)
    have hds' : AllDigits ds := fun x hx => hds x (by simp [hx])
    simp only [List.cons_append, digitsG, hc, ↓reduceIte]
    rw [ih hds' d true _ hd]
    simp [valOf]

/-- digit string up to the end of the stream: the loop ends on the failed `get` (eof|fail) -/
theorem digitsG_eof (ds : List Char) (hds : AllDigits ds) :
    ∀ (c : Char) (ok : Bool) (v : Nat), isDigit c = true →
      ∃ c3, digitsG c ok v ds = (true, valOf v (c :: ds), c3, ⟨[], true, true⟩) := by
  induction ds with
  | nil =>
    intro c ok v hc
    exact ⟨c, by simp [digitsG, hc, valOf]⟩
  | cons d ds ih =>
    intro c ok v hc
    have hd : isDigit d = true := hds d (by simp)
    have hds' : AllDigits ds := fun x hx => hds x (by simp [hx])
    obtain ⟨c3, h3⟩ := ih hds' d true (v * 10 + digitVal c) hd
    exact ⟨c3, by simp only [digitsG, hc, ↓reduceIte]; rw [h3]; simp [valOf]⟩

/-- the stream state after a successful read that stopped in front of `rest` -/
def after (rest : List Char) : IStream := ⟨rest, false, rest.isEmpty⟩

/-- GMP's reader on a non-empty digit string `d0 :: ds` followed by text that does not start with a digit -/
theorem gmpRead_digits (d0 : Char) (ds rest : List Char) (h0 : isDigit d0 = true) (hds : AllDigits ds)
    (hrest : startsWithDigit rest = false) :
    gmpRead (IStream.ofList (d0 :: ds ++ rest)) = (some (valOf 0 (d0 :: ds) : Int), after rest) := by
  obtain ⟨hsp, hm, hp, _, _⟩ := isDigit_facts d0 h0
  cases rest with
  | nil =>
    obtain ⟨c3, h3⟩ := digitsG_eof ds hds d0 false 0 h0
    simp [gmpRead, getc, IStream.ofList, IStream.good, skipWs, skipWsG_nonspace _ _ hsp, hm, hp, digits, h3, after,
      IStream.setFail]
  | cons r rs =>
    have hr : isDigit r = false := by simpa [startsWithDigit] using hrest
    have h3 := digitsG_stop ds hds r rs hr d0 false 0 h0
    simp [gmpRead, getc, IStream.ofList, IStream.good, skipWs, skipWsG_nonspace _ _ hsp, hm, hp, digits, h3, after,
      putback]

/-- … and with a leading `-` -/
theorem gmpRead_neg_digits (d0 : Char) (ds rest : List Char) (h0 : isDigit d0 = true) (hds : AllDigits ds)
    (hrest : startsWithDigit rest = false) :
    gmpRead (IStream.ofList ('-' :: d0 :: ds ++ rest)) = (some (-(valOf 0 (d0 :: ds) : Int)), after rest) := by
  obtain ⟨hsp, hm, hp, _, _⟩ := isDigit_facts d0 h0
  have hsm : isSpace '-' = false := by decide
  cases rest with
  | nil =>
    obtain ⟨c3, h3⟩ := digitsG_eof ds hds d0 false 0 h0
    simp [gmpRead, getc, IStream.ofList, IStream.good, skipWs, skipWsG_nonspace _ _ hsm, digits, h3, after,
      IStream.setFail]
  | cons r rs =>
    have hr : isDigit r = false := by simpa [startsWithDigit] using hrest
    have h3 := digitsG_stop ds hds r rs hr d0 false 0 h0
    simp [gmpRead, getc, IStream.ofList, IStream.good, skipWs, skipWsG_nonspace _ _ hsm, digits, h3, after,
      putback]

/-- the reader on the printed form of any integer -/
theorem gmpRead_showInt (n : Int) (rest : List Char) (hrest : startsWithDigit rest = false) :
    gmpRead (IStream.ofList (showInt n ++ rest)) = (some n, after rest) := by
  obtain ⟨hne, hall, hval⟩ := decDigits_spec n.natAbs
  cases hd : decDigits n.natAbs with
  | nil => exact absurd hd hne
  | cons d0 ds =>
    rw [hd] at hall hval
    have h0 : isDigit d0 = true := hall d0 (by simp)
    have hds : AllDigits ds := fun x hx => hall x (by simp [hx])
    by_cases hn : n < 0
    · have : showInt n ++ rest = '-' :: d0 :: ds ++ rest := by simp [showInt, hn, hd]
      rw [this, gmpRead_neg_digits d0 ds rest h0 hds hrest, hval]
      congr 2; omega
    · have : showInt n ++ rest = d0 :: ds ++ rest := by simp [showInt, hn, hd]
      rw [this, gmpRead_digits d0 ds rest h0 hds hrest, hval]
      congr 2; omega

/-- the printed form of an integer starts with `-` or a digit, never with a blank, `/` or `+` -/
theorem showInt_head (n : Int) : ∃ c l, showInt n = c :: l ∧ (c = '-' ∨ isDigit c = true) := by
  obtain ⟨hne, hall, _⟩ := decDigits_spec n.natAbs
  cases hd : decDigits n.natAbs with
  | nil => exact absurd hd hne
  | cons d0 ds =>
    rw [hd] at hall
    by_cases hn : n < 0
    · exact ⟨'-', d0 :: ds, by simp [showInt, hn, hd], Or.inl rfl⟩
    · exact ⟨d0, ds, by simp [showInt, hn, hd], Or.inr (hall d0 (by simp))⟩

end Givaro.Lemmas.Text
