/- C12 — container-output functions on pre-filled containers (model: Model/PrimesContainers.lean): pushing onto a non-empty
   accumulator commutes with the loops of `set` / `set(Lf,n)`. -/
import GivaroModel.Model.PrimesContainers
import GivaroModel.Lemmas.PrimesFactor
namespace Givaro.Lemmas.Primes
open Givaro Givaro.Model.Primes Givaro.Spec.Primes

theorem setLoop_append (pf : Nat → Nat) : ∀ (fuel nn : Nat) (acc base : List (Nat × Nat)) (c : Bool),
    setLoop pf fuel nn (acc ++ base) c = (setLoop pf fuel nn acc c).map (fun r => (base.reverse ++ r.1, r.2)) := by
  intro fuel
  induction fuel with
  | zero => intro nn acc base c; rfl
  | succ f ih =>
    intro nn acc base c
    unfold setLoop
    by_cases hle : nn ≤ 1
    · simp [hle, List.reverse_append]
    · simp only [hle, ↓reduceIte]
      rcases hd : divLoop (if pf nn = 1 then nn else pf nn) (nn + 1) (nn / (if pf nn = 1 then nn else pf nn)) 0 with _ | ⟨nn', k⟩
      · simp
      · simp only
        rw [← List.cons_append]
        exact ih nn' _ base _

theorem set1Loop_append (pf : Nat → Nat) : ∀ (fuel nn : Nat) (acc base : List Nat),
    set1Loop pf fuel nn (acc ++ base) = (set1Loop pf fuel nn acc).map (fun r => base.reverse ++ r) := by
  intro fuel
  induction fuel with
  | zero => intro nn acc base; rfl
  | succ f ih =>
    intro nn acc base
    unfold set1Loop
    by_cases hle : nn ≤ 1
    · simp [hle, List.reverse_append]
    · simp only [hle, ↓reduceIte]
      rcases hd : divLoop (pf nn) (nn + 1) (nn / pf nn) 0 with _ | ⟨nn', k⟩
      · simp
      · simp only
        rw [← List.cons_append]
        exact ih nn' _ base

/-- `set` on pre-filled containers appends the factorisation and leaves what was there untouched -/
theorem setInto_eq_append (pf : Nat → Nat) (old : List (Nat × Nat)) (n : Int) :
    setInto pf old n = (Givaro.Model.Primes.set pf n).map (fun r => (old ++ r.1, r.2)) := by
  unfold setInto Givaro.Model.Primes.set
  have := setLoop_append pf (n.natAbs + 1) n.natAbs [] old.reverse true
  simpa using this

theorem set1Into_eq_append (pf : Nat → Nat) (old : List Nat) (n : Int) :
    set1Into pf old n = (set1 pf n).map (fun r => old ++ r) := by
  unfold set1Into set1
  have := set1Loop_append pf (n.natAbs + 1) n.natAbs [] old.reverse
  simpa using this

end Givaro.Lemmas.Primes
