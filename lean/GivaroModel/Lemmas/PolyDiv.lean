/-
C08 — the implementation's own division: Newton inverse modulo X^l (`newtoninviter`, `invmodpowx`), `div`
(reverse · inverse · product · reverse), `divmod`, `mod` of `Model/Poly.lean` against `Polynomial K`.
-/
import GivaroModel.Lemmas.PolyMisc
import Mathlib.Algebra.Polynomial.Degree.Lemmas

open Polynomial
set_option linter.unusedSectionVars false

namespace Givaro.Lemmas.Poly
open Givaro.Model.Poly

variable {K : Type} [Field K] [DecidableEq K]

/-! ### Newton iteration -/

/-- one Newton step: from `G·T ≡ 1 (mod X^j)` to `G'·T ≡ 1 (mod X^i)` for every `i ≤ 2j` -/
theorem newton_step (thr : Nat) (hthr : 1 ≤ thr) (G T : List K) (i j : Nat) (hij : i ≤ 2 * j)
    (hinv : X ^ j ∣ toPoly G * toPoly T - 1) :
    X ^ i ∣ toPoly (newtoninviter thr G T i) * toPoly T - 1 := by
  unfold newtoninviter
  extract_lets S G2 Ap Am
  have tS : toPoly S = toPoly G * toPoly G := toPoly_sqr thr hthr G
  have tG2 : toPoly G2 = toPoly G + toPoly G := toPoly_addin G G
  have sp := mulR_spec thr (Ap.length + S.length) i Ap S (Or.inl hthr)
  have d1 : X ^ i ∣ toPoly Am - toPoly Ap * (toPoly G * toPoly G) := by
    rw [X_pow_dvd_iff]
    intro d hd
    rw [coeff_sub, coeff_toPoly]
    simp only [Am]
    rw [getD_pad, if_pos hd, sp.2 d hd, tS, sub_self]
  have d2 : X ^ i ∣ toPoly T - toPoly Ap := by
    have := toPoly_take_drop T i
    exact ⟨toPoly (T.drop i), by rw [this]; simp only [Ap]; ring⟩
  have d3 : X ^ i ∣ (toPoly G * toPoly T - 1) * (toPoly G * toPoly T - 1) := by
    have h2 : X ^ (2 * j) ∣ (toPoly G * toPoly T - 1) * (toPoly G * toPoly T - 1) := by
      rw [two_mul, pow_add]; exact mul_dvd_mul hinv hinv
    exact dvd_trans (pow_dvd_pow X hij) h2
  rw [toPoly_subin, tG2]
  have e : (toPoly G + toPoly G - toPoly Am) * toPoly T - 1
      = -((toPoly G * toPoly T - 1) * (toPoly G * toPoly T - 1))
        + toPoly T * (toPoly G * toPoly G) * (toPoly T - toPoly Ap)
        - toPoly T * (toPoly Am - toPoly Ap * (toPoly G * toPoly G)) := by ring
  rw [e]
  exact dvd_sub (dvd_add ((dvd_neg).mpr d3) (dvd_mul_of_dvd_right d2 _)) (dvd_mul_of_dvd_right d1 _)

theorem invmodpowxLoop_spec (thr : Nat) (hthr : 1 ≤ thr) (T : List K) (l : Nat) :
    ∀ (fuel i : Nat) (G : List K) (j : Nat), 1 ≤ i → i ≤ 2 * j → X ^ j ∣ toPoly G * toPoly T - 1 →
      l + 1 ≤ fuel + i →
      ∃ j', l ≤ 2 * j' ∧ X ^ j' ∣ toPoly (invmodpowxLoop thr T l fuel i G) * toPoly T - 1 := by
  intro fuel
  induction fuel with
  | zero => intro i G j _ hij hinv hf; exact ⟨j, by omega, hinv⟩
  | succ fuel ih =>
    intro i G j hi hij hinv hf
    unfold invmodpowxLoop
    split
    · next hlt =>
      exact ih (2 * i) (newtoninviter thr G T i) i (by omega) (le_refl _)
        (newton_step thr hthr G T i j hij hinv) (by omega)
    · next hge => exact ⟨j, by omega, hinv⟩

/-- Tier B `newton_inv_exact`: `invmodpowx(G,A,l)` returns an inverse of `A` modulo `X^l`, for every `l`, every `A` with an
    invertible constant coefficient and every threshold ≥ 1 -/
theorem invmodpowx_spec (thr : Nat) (hthr : 1 ≤ thr) (T : List K) (l : Nat) (h0 : T.getD 0 0 ≠ 0) :
    X ^ l ∣ toPoly (invmodpowx thr T l) * toPoly T - 1 := by
  unfold invmodpowx
  have hinit : X ^ 1 ∣ toPoly [(T.getD 0 0)⁻¹] * toPoly T - 1 := by
    rw [X_pow_dvd_iff]
    intro d hd
    have : d = 0 := by omega
    subst this
    rw [coeff_sub, mul_coeff_zero, coeff_toPoly, coeff_toPoly, coeff_one_zero]
    simp only [List.getD_cons_zero]
    rw [inv_mul_cancel₀ h0, sub_self]
  obtain ⟨j', hj', hd⟩ := invmodpowxLoop_spec thr hthr T l l 2 _ 1 (by omega) (by omega) hinit (by omega)
  exact newton_step thr hthr _ T l j' hj' hd

/-! ### reflection -/

theorem reflect_reflect (N : Nat) (f : K[X]) : reflect N (reflect N f) = f := by
  ext i
  rw [coeff_reflect, coeff_reflect, revAt_invol]

/-- the algebra behind `div`: with `s·rev_m(b) ≡ 1 (mod X^l)`, `l = n - m + 1`, the first `l` coefficients of
    `s·rev_n(a)` are those of `rev_(l-1)(a / b)` -/
theorem div_reflect_core (a b s : K[X]) (n m l : Nat) (ha : a ≠ 0) (hb : b ≠ 0) (hn : a.natDegree = n)
    (hm : b.natDegree = m) (hnm : m ≤ n) (hl : l = n - m + 1) (hs : X ^ l ∣ s * reflect m b - 1) :
    (a / b).natDegree ≤ l - 1 ∧ ∀ k, k < l → (s * reflect n a).coeff k = (reflect (l - 1) (a / b)).coeff k := by
  have hle : degree b ≤ degree a := by
    rw [degree_eq_natDegree ha, degree_eq_natDegree hb, hn, hm]; exact_mod_cast hnm
  have hq0 : a / b ≠ 0 := by
    intro h
    have := (Polynomial.div_eq_zero_iff hb).mp h
    exact absurd hle (not_le.mpr this)
  have hdeg := degree_add_div hb hle
  rw [degree_eq_natDegree ha, degree_eq_natDegree hb, degree_eq_natDegree hq0, hn, hm] at hdeg
  have hq : (a / b).natDegree = n - m := by
    have : m + (a / b).natDegree = n := by exact_mod_cast hdeg
    omega
  have hql : (a / b).natDegree ≤ l - 1 := by omega
  refine ⟨hql, ?_⟩
  have hrc : ∀ i, m ≤ i → (a % b).coeff i = 0 := by
    intro i hi
    apply coeff_eq_zero_of_degree_lt
    calc (a % b).degree < b.degree := degree_mod_lt a hb
      _ = (m : WithBot ℕ) := by rw [degree_eq_natDegree hb, hm]
      _ ≤ (i : WithBot ℕ) := by exact_mod_cast hi
  have hdec : a = b * (a / b) + a % b := (EuclideanDomain.div_add_mod a b).symm
  have hrefl : reflect n a = reflect m b * reflect (l - 1) (a / b) + reflect n (a % b) := by
    conv_lhs => rw [hdec]
    rw [reflect_add]
    have : n = m + (l - 1) := by omega
    conv_lhs => rw [this]
    rw [reflect_mul b (a / b) (le_of_eq hm) hql]
    rw [← this]
  have hr : X ^ l ∣ reflect n (a % b) := by
    rw [X_pow_dvd_iff]
    intro d hd
    rw [coeff_reflect, revAt_le (by omega)]
    exact hrc _ (by omega)
  have hdvd : X ^ l ∣ s * reflect n a - reflect (l - 1) (a / b) := by
    have e : s * reflect n a - reflect (l - 1) (a / b)
        = (s * reflect m b - 1) * reflect (l - 1) (a / b) + s * reflect n (a % b) := by
      rw [hrefl]; ring
    rw [e]
    exact dvd_add (dvd_mul_of_dvd_left hs _) (dvd_mul_of_dvd_right hr _)
  intro k hk
  have := (X_pow_dvd_iff.mp hdvd) k hk
  rw [coeff_sub] at this
  exact sub_eq_zero.mp this

/-! ### `div`, `divmod`, `mod` -/

theorem setdegree_ne_nil_iff (P : List K) : setdegree P ≠ [] ↔ toPoly P ≠ 0 := by
  have h := setdegree_eq_iff P []
  simp only [setdegree, toPoly_nil] at h
  exact not_congr h

theorem natDegree_toPoly (P : List K) (h : toPoly P ≠ 0) : (toPoly P).natDegree = (setdegree P).length - 1 := by
  have := natDegree_toPoly_of_normal (setdegree P) (setdegree_normal P) ((setdegree_ne_nil_iff P).mpr h)
  rwa [toPoly_setdegree] at this

theorem length_setdegree_pos (P : List K) (h : toPoly P ≠ 0) : 1 ≤ (setdegree P).length :=
  List.length_pos_iff.mpr ((setdegree_ne_nil_iff P).mpr h)

theorem degree_lt_of_model (A B : List K) (hb : toPoly B ≠ 0) (h : Model.Poly.degree A < Model.Poly.degree B) :
    (toPoly A).degree < (toPoly B).degree := by
  unfold Model.Poly.degree at h
  by_cases ha : toPoly A = 0
  · rw [ha, degree_zero]; exact bot_lt_iff_ne_bot.mpr (fun e => hb (degree_eq_bot.mp e))
  · apply degree_lt_degree
    rw [natDegree_toPoly A ha, natDegree_toPoly B hb]
    have := length_setdegree_pos A ha
    have := length_setdegree_pos B hb
    omega

/-- Tier B `div_exact`: the implementation's own `div(Q,A,B)` (constant divisor, or reverse · Newton inverse ·
    truncated product · reverse) returns the Euclidean quotient, for every `A`, every non-zero `B`, every threshold ≥ 1 -/
theorem toPoly_div (thr : Nat) (hthr : 1 ≤ thr) (A B : List K) (hb : toPoly B ≠ 0) :
    toPoly (Model.Poly.div thr A B) = toPoly A / toPoly B := by
  unfold Model.Poly.div
  extract_lets An Bn degX S T
  have tAn : toPoly An = toPoly A := toPoly_setdegree A
  have tBn : toPoly Bn = toPoly B := toPoly_setdegree B
  have lB := length_setdegree_pos B hb
  split
  · next hlt =>
    rw [(Polynomial.div_eq_zero_iff hb).mpr (degree_lt_of_model A B hb hlt)]; rfl
  · next hnlt =>
    split
    · next hB0 =>
      unfold Model.Poly.degree at hB0
      have hl : Bn.length = 1 := by simp only [Bn]; omega
      obtain ⟨c, hc⟩ := List.length_eq_one_iff.mp hl
      have hBc : toPoly B = C c := by rw [← tBn, hc]; simp
      rw [hc, toPoly_divVal, tAn, hBc, div_C]; simp
    · next hB0 =>
      unfold Model.Poly.degree at hnlt hB0
      have ha : toPoly A ≠ 0 := by
        intro h0
        have : setdegree A = [] := by
          by_contra hne; exact (setdegree_ne_nil_iff A).mp hne h0
        rw [this] at hnlt; simp only [List.length_nil] at hnlt; omega
      have lA := length_setdegree_pos A ha
      have hn := natDegree_toPoly A ha
      have hm := natDegree_toPoly B hb
      have hnm : (setdegree B).length - 1 ≤ (setdegree A).length - 1 := by omega
      have hdegX : degX = ((setdegree A).length - 1) - ((setdegree B).length - 1) + 1 := by
        simp only [degX, An, Bn]; omega
      -- the reversed divisor and its inverse
      have tRB : toPoly (Model.Poly.reverse Bn) = reflect ((setdegree B).length - 1) (toPoly B) := by
        rw [toPoly_reverse, tBn]
      have h0 : (Model.Poly.reverse Bn).getD 0 0 ≠ 0 := by
        rw [getD_eq_coeff, tRB, coeff_reflect, revAt_le (Nat.zero_le _), Nat.sub_zero, ← hm, coeff_natDegree]
        exact leadingCoeff_ne_zero.mpr hb
      have hS : X ^ degX ∣ toPoly S * reflect ((setdegree B).length - 1) (toPoly B) - 1 := by
        have := invmodpowx_spec thr hthr (Model.Poly.reverse Bn) degX h0
        rwa [tRB] at this
      have tT : toPoly T = reflect ((setdegree A).length - 1) (toPoly A) := by
        simp only [T]; rw [toPoly_reverse, tAn]
      obtain ⟨hql, hcore⟩ := div_reflect_core (toPoly A) (toPoly B) (toPoly S) _ _ degX ha hb hn hm hnm hdegX hS
      have sp := mulR_spec thr (S.length + T.length) degX S T (Or.inl hthr)
      have tQ : toPoly (pad degX (mulR thr (S.length + T.length) degX S T))
          = reflect (degX - 1) (toPoly A / toPoly B) := by
        apply toPoly_eq_of_coeff
        · intro k hk
          rw [length_pad] at hk
          rw [getD_pad, if_pos hk, sp.2 k hk, tT, hcore k hk]
        · intro k hk
          rw [length_pad] at hk
          rw [coeff_reflect, revAt_eq_self_of_lt (by omega)]
          exact coeff_eq_zero_of_natDegree_lt (by omega)
      rw [toPoly_reverse, length_pad, tQ, reflect_reflect]

theorem toPoly_divmod (thr : Nat) (hthr : 1 ≤ thr) (A B : List K) (hb : toPoly B ≠ 0) :
    toPoly (Model.Poly.divmod thr A B).1 = toPoly A / toPoly B ∧
    toPoly (Model.Poly.divmod thr A B).2 = toPoly A % toPoly B := by
  unfold Model.Poly.divmod
  refine ⟨toPoly_div thr hthr A B hb, ?_⟩
  simp only [maxpy]
  rw [toPoly_sub, toPoly_mul, toPoly_setdegree, toPoly_setdegree, toPoly_div thr hthr A B hb,
    EuclideanDomain.mod_eq_sub_mul_div]
  ring

/-! ### termination of the Euclid loop with the implementation's own division -/

theorem plen_lt_of_degree_lt (P Q : List K) (hq : toPoly Q ≠ 0) (h : (toPoly P).degree < (toPoly Q).degree) :
    (setdegree P).length < (setdegree Q).length := by
  have lQ := length_setdegree_pos Q hq
  by_cases hp : toPoly P = 0
  · have : setdegree P = [] := by
      by_contra hne; exact (setdegree_ne_nil_iff P).mp hne hp
    rw [this]; simp only [List.length_nil]; omega
  · have := natDegree_lt_natDegree hp h
    rw [natDegree_toPoly P hp, natDegree_toPoly Q hq] at this
    have := length_setdegree_pos P hp
    omega

theorem gcdextLoop_terminates (thr : Nat) (hthr : 1 ≤ thr) :
    ∀ (fuel : Nat) (F G S0 S1 T0 T1 : List K), (setdegree G).length + 1 ≤ fuel →
      ∃ r, gcdextLoop thr (Model.Poly.div thr) fuel F G S0 S1 T0 T1 = some r := by
  intro fuel
  induction fuel with
  | zero => intro F G S0 S1 T0 T1 h; omega
  | succ fuel ih =>
    intro F G S0 S1 T0 T1 h
    unfold gcdextLoop
    split
    · exact ⟨_, rfl⟩
    · next hz =>
      extract_lets Q R1 r1
      apply ih
      have hg : toPoly G ≠ 0 := fun h0 => hz ((isZero_iff G).mpr h0)
      have hr1 : r1 ≠ 0 := by
        simp only [r1]
        split
        · exact one_ne_zero
        · next hne => exact hne
      have tR1 : toPoly R1 = toPoly F % toPoly G := by
        simp only [R1, Q, maxpy]
        rw [toPoly_sub, toPoly_mul, toPoly_div thr hthr F G hg, EuclideanDomain.mod_eq_sub_mul_div]; ring
      have hdeg : (toPoly (divVal R1 r1)).degree < (toPoly G).degree := by
        rw [toPoly_divVal, tR1]
        rw [degree_mul_C (inv_ne_zero hr1)]
        exact degree_mod_lt _ hg
      have := plen_lt_of_degree_lt (divVal R1 r1) G hg hdeg
      omega

theorem plen_divVal_le (L : List K) (u : K) : (setdegree (divVal L u)).length ≤ L.length := by
  unfold divVal
  have h1 := length_setdegree_le (setdegree (L.map (fun a => a / u)))
  have h2 := length_setdegree_le (L.map (fun a => a / u))
  simp only [List.length_map] at h2
  omega

/-- `gcd(F,S0,T0,A,B)` with the implementation's own `div`: the loop finishes within `size(B)+1` rounds and returns a
    greatest common divisor with its Bezout cofactors -/
theorem gcdext_total (thr : Nat) (hthr : 1 ≤ thr) (fuel : Nat) (A B : List K) (hf : B.length + 1 ≤ fuel) :
    ∃ F' S' T', gcdext thr (Model.Poly.div thr) fuel A B = some (F', S', T') ∧
      toPoly S' * toPoly A + toPoly T' * toPoly B = toPoly F' ∧ toPoly F' ∣ toPoly A ∧ toPoly F' ∣ toPoly B := by
  have hex : ∃ r, gcdext thr (Model.Poly.div thr) fuel A B = some r := by
    unfold gcdext
    split
    · exact ⟨_, rfl⟩
    · split
      · exact ⟨_, rfl⟩
      · apply gcdextLoop_terminates thr hthr
        have h1 := plen_divVal_le (assign B) (leadcoef B)
        have h2 := length_setdegree_le B
        have h3 : (assign B).length = (setdegree B).length := rfl
        omega
  obtain ⟨⟨F', S', T'⟩, hr⟩ := hex
  exact ⟨F', S', T', hr, gcdext_sound thr _ fuel A B F' S' T' hr⟩

end Givaro.Lemmas.Poly
