/-
C03, the generic `Modular<IntType,Compute_t>` (modular-inttype.inl): with `p ≤ 2^⌊N/2⌋` (`N` value bits of the element
type) every intermediate `a·b + c`, `a·b + (p − c)` is below `p²` and fits the element type, so no operation wraps.
-/
import GivaroModel.Model.ModRingGeneric
import GivaroModel.Lemmas.ModRingFloat
import Mathlib.Tactic.LinearCombination
namespace Givaro.Model.ModRing
open Givaro.Spec.ModRing

structure GOk (k : GCfg) (p : Int) : Prop where
  p2 : 2 ≤ p
  E_id : ∀ x, 0 ≤ x → x < p * p → k.E x = x
  ar_id : ∀ x, 0 ≤ x → x < p * p → k.ar x = x
  E_neg : ∀ x, -p ≤ x → x < 0 → k.sg = true → k.E x = x
  ar_neg : ∀ x, -p ≤ x → x < 0 → k.ar x = x ∨ k.sg = false

theorem gok_of_valid (k : GCfg) (hv : k.valid) (p : Int) (hp : 2 ≤ p) (hm : p ≤ k.maxCard) : GOk k p := by
  obtain ⟨s, sg⟩ := k
  simp only [GCfg.valid] at hv
  have hpp : ∀ B : Int, 0 ≤ B → p ≤ B → ∀ x, 0 ≤ x → x < p * p → x < B * B := fun B hB0 hB x hx0 hx => by nlinarith
  rcases hv with h1 | h1 | h1 | h1 <;> subst h1 <;> cases sg <;>
    simp only [GCfg.maxCard] at hm <;> norm_num at hm <;>
    (have h2 := hpp _ (by norm_num) hm
     refine ⟨hp, ?_, ?_, ?_, ?_⟩ <;> intro x hx0 hx1 <;>
     (try have h3 := h2 x hx0 hx1) <;>
     simp only [GCfg.E, GCfg.ar, GCfg.asI, ICfg.toE, ICfg.arE, wrapUw, wrapSw] <;> norm_num <;> (try omega))

section gops
variable {k : GCfg} {p a b c : Int}

theorem GOk.small (ok : GOk k p) {x : Int} (h0 : 0 ≤ x) (h1 : x ≤ 2 * p - 2) : k.E x = x ∧ k.ar x = x := by
  have := ok.p2
  have h : x < p * p := by nlinarith
  exact ⟨ok.E_id x h0 h, ok.ar_id x h0 h⟩

theorem GOk.modp (ok : GOk k p) {x : Int} (h0 : 0 ≤ x) : k.modp x p = x % p := by
  have := ok.p2
  unfold GCfg.modp
  rw [Int.tmod_eq_emod_of_nonneg h0]
  exact (ok.small (Int.emod_nonneg _ (by omega)) (by have := Int.emod_lt_of_pos x (by omega : 0 < p); omega)).1

theorem gmul_model (ok : GOk k p) (ha : 0 ≤ a ∧ a < p) (hb : 0 ≤ b ∧ b < p) : k.mul p a b = (a * b) % p := by
  have hp := ok.p2
  have hab := mul_lt_sq hp ha hb
  have hsq : (p - 1) * (p - 1) < p * p := by nlinarith
  unfold GCfg.mul
  rw [ok.ar_id _ hab.1 (by omega), ok.E_id _ hab.1 (by omega)]
  exact ok.modp hab.1

theorem gadd_model (ok : GOk k p) (ha : 0 ≤ a ∧ a < p) (hb : 0 ≤ b ∧ b < p) : k.add p a b = (a + b) % p := by
  have hp := ok.p2
  have e : (a + b) % p = if a + b < p then a + b else a + b - p := by
    split
    · exact Int.emod_eq_of_lt (by omega) (by omega)
    · rw [← Int.sub_emod_right]; exact Int.emod_eq_of_lt (by omega) (by omega)
  unfold GCfg.add
  simp only
  rw [(ok.small (by omega : 0 ≤ a + b) (by omega)).2, (ok.small (by omega : 0 ≤ a + b) (by omega)).1, e]
  split
  · rw [if_neg (by omega)]
    rw [(ok.small (by omega : 0 ≤ a + b - p) (by omega)).2]; exact (ok.small (by omega) (by omega)).1
  · rw [if_pos (by omega)]

theorem gsub_model (ok : GOk k p) (ha : 0 ≤ a ∧ a < p) (hb : 0 ≤ b ∧ b < p) :
    k.sub p a b = (a - b) % p ∧ k.subin p a b = (a - b) % p := by
  have hp := ok.p2
  have e : (a - b) % p = if a ≥ b then a - b else p - b + a := by
    split
    · exact Int.emod_eq_of_lt (by omega) (by omega)
    · rw [← Int.add_emod_right]
      have : a - b + p = p - b + a := by ring
      rw [this]; exact Int.emod_eq_of_lt (by omega) (by omega)
  unfold GCfg.sub GCfg.subin
  rw [e]
  constructor
  · split
    · rw [(ok.small (by omega : 0 ≤ a - b) (by omega)).2]; exact (ok.small (by omega) (by omega)).1
    · rw [(ok.small (by omega : 0 ≤ p - b) (by omega)).2, (ok.small (by omega : 0 ≤ p - b + a) (by omega)).2]
      exact (ok.small (by omega) (by omega)).1
  · split
    · next h =>
      rw [if_neg (by omega), (ok.small (by omega : 0 ≤ p - b) (by omega)).2]
      have : a + (p - b) = p - b + a := by ring
      rw [this, (ok.small (by omega : 0 ≤ p - b + a) (by omega)).2]
      exact (ok.small (by omega) (by omega)).1
    · next h =>
      rw [if_pos (by omega), (ok.small (by omega : 0 ≤ a - b) (by omega)).2]; exact (ok.small (by omega) (by omega)).1

theorem gneg_model (ok : GOk k p) (ha : 0 ≤ a ∧ a < p) : k.neg p a = (-a) % p := by
  have hp := ok.p2
  unfold GCfg.neg
  rw [neg_emod_eq a p (by omega), Int.emod_eq_of_lt ha.1 ha.2]
  split
  · rfl
  · rw [(ok.small (by omega : 0 ≤ p - a) (by omega)).2]; exact (ok.small (by omega) (by omega)).1

theorem gaxpy_model (ok : GOk k p) (ha : 0 ≤ a ∧ a < p) (hb : 0 ≤ b ∧ b < p) (hc : 0 ≤ c ∧ c < p) :
    k.axpy p a b c = (a * b + c) % p ∧ k.axpyin p c a b = (a * b + c) % p := by
  have hp := ok.p2
  have hab := mul_lt_sq hp ha hb
  have hsq : (p - 1) * (p - 1) + p ≤ p * p := by nlinarith
  unfold GCfg.axpy GCfg.axpyin
  rw [ok.ar_id (a * b) hab.1 (by omega), ok.E_id (a * b) hab.1 (by omega),
    ok.ar_id (a * b + c) (by omega) (by omega), ok.E_id (a * b + c) (by omega) (by omega),
    ok.ar_id (c + a * b) (by omega) (by omega), ok.E_id (c + a * b) (by omega) (by omega)]
  exact ⟨ok.modp (by omega), by rw [Int.add_comm c]; exact ok.modp (by omega)⟩

theorem gaxmy_model (ok : GOk k p) (ha : 0 ≤ a ∧ a < p) (hb : 0 ≤ b ∧ b < p) (hc : 0 ≤ c ∧ c < p) :
    k.axmy p a b c = (a * b - c) % p ∧ k.axmyin p c a b = (a * b - c) % p := by
  have hp := ok.p2
  have hab := mul_lt_sq hp ha hb
  have hsq : (p - 1) * (p - 1) + p < p * p := by nlinarith
  have e : (a * b - c) % p = (a * b + (p - c)) % p := by
    have : a * b + (p - c) = (a * b - c) + p * 1 := by ring
    rw [this, Int.add_mul_emod_self_left]
  have hfin : ∀ t : Int, 0 ≤ t → (if t < p then t else k.modp t p) = t % p := by
    intro t ht
    split
    · exact (Int.emod_eq_of_lt ht (by assumption)).symm
    · exact ok.modp ht
  unfold GCfg.axmy GCfg.axmyin
  simp only
  rw [ok.ar_id (a * b) hab.1 (by omega), ok.E_id (a * b) hab.1 (by omega),
    (ok.small (by omega : 0 ≤ p - c) (by omega)).2, (ok.small (by omega : 0 ≤ p - c) (by omega)).1,
    ok.ar_id (a * b + (p - c)) (by omega) (by omega), ok.E_id (a * b + (p - c)) (by omega) (by omega),
    ok.ar_id (p - c + a * b) (by omega) (by omega), ok.E_id (p - c + a * b) (by omega) (by omega), e]
  refine ⟨hfin _ (by omega), ?_⟩
  rw [Int.add_comm (p - c)]; exact hfin _ (by omega)

theorem gmaxpy_model (ok : GOk k p) (ha : 0 ≤ a ∧ a < p) (hb : 0 ≤ b ∧ b < p) (hc : 0 ≤ c ∧ c < p) :
    k.maxpy p a b c = (c - a * b) % p ∧ k.maxpyin p c a b = (c - a * b) % p := by
  have hp := ok.p2
  have h := (gaxmy_model ok ha hb hc).2
  have hn : k.maxpyin p c a b = (c - a * b) % p := by
    unfold GCfg.maxpyin
    rw [h, gneg_model ok ⟨Int.emod_nonneg _ (by omega), Int.emod_lt_of_pos _ (by omega)⟩]
    have hd := Int.emod_add_mul_ediv (a * b - c) p
    have e : -((a * b - c) % p) = (c - a * b) + p * ((a * b - c) / p) := by linarith
    rw [e, Int.add_mul_emod_self_left]
  exact ⟨by unfold GCfg.maxpy; exact hn, hn⟩

theorem greduce_model (ok : GOk k p) (y : Int) (hy : k.sg = false → 0 ≤ y) : k.reduce p y = y % p := by
  have hp := ok.p2
  obtain ⟨hc, h0, h1, h2⟩ := tmod_cases y p (by omega)
  have ht : Int.tmod y p < p := by rcases hc with h | h <;> omega
  have hf := tmod_fix y p (by omega)
  unfold GCfg.reduce GCfg.modp
  simp only
  by_cases hneg : Int.tmod y p < 0
  · have hsg : k.sg = true := by
      by_contra hc'
      have : k.sg = false := by cases h : k.sg <;> simp_all
      have := hy this
      rw [Int.tmod_eq_emod_of_nonneg this] at hneg; omega
    rw [ok.E_neg _ (by omega) hneg hsg, if_pos hneg]
    rw [if_pos hneg] at hf
    rw [hf, (ok.small (Int.emod_nonneg _ (by omega)) (by omega)).2]
    exact (ok.small (Int.emod_nonneg _ (by omega)) (by omega)).1
  · rw [(ok.small (by omega : 0 ≤ Int.tmod y p) (by omega)).1, if_neg hneg]
    rw [if_neg hneg] at hf; exact hf

/-- the shared `extended_euclid<Element>` behind isUnit never wraps -/
theorem geok (ok : GOk k p) (hv : k.valid) : EOk k.asI (k.asI.toE p) := by
  have hp := ok.p2
  have hE : ∀ x, 0 ≤ x → x ≤ p → k.asI.toE x = x := fun x h0 h1 => (ok.small h0 (by omega)).1
  have hA : ∀ x, 0 ≤ x → x ≤ p → k.asI.arE x = x := fun x h0 h1 => (ok.small h0 (by omega)).2
  rw [hE p (by omega) (Int.le_refl _)]
  exact ⟨hE, hA⟩

end gops

/-! ### inv: the two-variable Euclid with the deferred cofactor update -/

/-- invariant at the head of the `while` loop; `U1 = u1 + q·u0` is the value `u1` is about to take -/
structure GInvInv (p a : Int) (st : GCfg.GInv) : Prop where
  r0p : 0 < st.r0
  r1n : 0 ≤ st.r1
  r1l : st.r1 < st.r0
  r0b : st.r0 ≤ p
  u0n : 0 ≤ st.u0
  u0b : st.u0 ≤ p
  u1n : 0 ≤ st.u1
  qn : 0 ≤ st.q
  c0 : p ∣ st.u0 * a + st.r0
  c1 : p ∣ (st.u1 + st.q * st.u0) * a - st.r1
  det : st.u0 * st.r1 + (st.u1 + st.q * st.u0) * st.r0 = p
  dv : ∀ g : Int, (g ∣ st.r0 ∧ g ∣ st.r1) ↔ (g ∣ p ∧ g ∣ a)

/-- what the loop returns: canonical and an inverse of `a` up to the gcd -/
def GInvPost (p a r : Int) : Prop := 0 ≤ r ∧ r ≤ p ∧ ∃ d : Int, 0 < d ∧ (∀ g : Int, g ∣ d ↔ (g ∣ p ∧ g ∣ a)) ∧ p ∣ r * a - d

theorem ginv_loop {k : GCfg} {p a : Int} (ok : GOk k p) :
    ∀ (fuel : Nat) (st : GCfg.GInv), GInvInv p a st → st.r1 < fuel → GInvPost p a (k.invLoop p fuel st) := by
  have hp := ok.p2
  have sm : ∀ x : Int, 0 ≤ x → x ≤ p → k.E x = x ∧ k.ar x = x := fun x h0 h1 => ok.small h0 (by omega)
  intro fuel
  induction fuel with
  | zero => intro st h hf; have := h.r1n; omega
  | succ n ih =>
    intro st h hf
    unfold GCfg.invLoop
    have hr0p := h.r0p; have hr1n := h.r1n; have hr1l := h.r1l; have hr0b := h.r0b
    have hu0n := h.u0n; have hu0b := h.u0b; have hu1n := h.u1n; have hqn := h.qn
    have hc0 := h.c0; have hc1 := h.c1; have hdet := h.det; have hdv := h.dv
    split
    · next hz =>
      -- r1 = 0: r0 is the gcd, return p - u0
      rw [(sm (p - st.u0) (by omega) (by omega)).2, (sm (p - st.u0) (by omega) (by omega)).1]
      refine ⟨by omega, by omega, st.r0, hr0p, ?_, ?_⟩
      · intro g; rw [← hdv g, hz]; exact ⟨fun h => ⟨h, Int.dvd_zero _⟩, fun h => h.1⟩
      · have e : (p - st.u0) * a - st.r0 = p * a - (st.u0 * a + st.r0) := by ring
        rw [e]; exact Int.dvd_sub (Int.dvd_mul_right _ _) hc0
    · next hz =>
      have hr1p : 0 < st.r1 := by omega
      -- U1 = u1 + q u0 ≤ p
      have hqu0 : 0 ≤ st.q * st.u0 := Int.mul_nonneg hqn hu0n
      have hU1b : st.u1 + st.q * st.u0 ≤ p := by
        have h1 : 0 ≤ st.u0 * st.r1 := Int.mul_nonneg hu0n hr1n
        nlinarith [Int.mul_nonneg (show 0 ≤ st.u1 + st.q * st.u0 by omega) (show 0 ≤ st.r0 - 1 by omega)]
      generalize hU : st.u1 + st.q * st.u0 = U1 at *
      have hU1n : 0 ≤ U1 := by omega
      simp only
      rw [(sm (st.q * st.u0) hqu0 (by omega)).2, hU, (sm U1 hU1n hU1b).2, (sm U1 hU1n hU1b).1]
      -- q1 = r0 / r1, r0' = r0 % r1
      have hq1 : Int.tdiv st.r0 st.r1 = st.r0 / st.r1 := Int.tdiv_eq_ediv_of_nonneg (by omega)
      have hq1n : 0 ≤ st.r0 / st.r1 := Int.ediv_nonneg (by omega) hr1n
      have hq1b : st.r0 / st.r1 ≤ st.r0 := Int.ediv_le_self _ (by omega)
      have hq1r : st.r0 / st.r1 * st.r1 ≤ st.r0 := Int.ediv_mul_le _ hz
      have hm0 := Int.emod_nonneg st.r0 hz
      have hm1 := Int.emod_lt_of_pos st.r0 hr1p
      have hmd : st.r0 - st.r0 / st.r1 * st.r1 = st.r0 % st.r1 := by rw [Int.emod_def]; ring
      rw [hq1, (sm _ hq1n (by omega)).1]
      generalize hq1e : st.r0 / st.r1 = q1 at *
      generalize hr0e : st.r0 % st.r1 = r0' at *
      have hq1r1 : 0 ≤ q1 * st.r1 := Int.mul_nonneg hq1n hr1n
      rw [(sm (q1 * st.r1) hq1r1 (by omega)).2, hmd, (sm r0' hm0 (by omega)).2, (sm r0' hm0 (by omega)).1]
      have hr0def : st.r0 = r0' + q1 * st.r1 := by omega
      split
      · next hz0 =>
        -- r0' = 0: r1 is the gcd, return U1
        refine ⟨hU1n, hU1b, st.r1, hr1p, ?_, hc1⟩
        intro g; rw [← hdv g]
        constructor
        · intro hg; exact ⟨by rw [hr0def, hz0, Int.zero_add]; exact Dvd.dvd.mul_left hg _, hg⟩
        · intro hg; exact hg.2
      · next hz0 =>
        have hr0'p : 0 < r0' := by omega
        -- u0' = u0 + q1 U1 ≤ p  from  u0' r1 + U1 r0' = p
        have hdet2 : (st.u0 + q1 * U1) * st.r1 + U1 * r0' = p := by
          have : (st.u0 + q1 * U1) * st.r1 + U1 * r0' = st.u0 * st.r1 + U1 * (r0' + q1 * st.r1) := by ring
          rw [this, ← hr0def]; exact hdet
        have hq1U : 0 ≤ q1 * U1 := Int.mul_nonneg hq1n hU1n
        have hu0'b : st.u0 + q1 * U1 ≤ p := by
          have h1 : 0 ≤ U1 * r0' := Int.mul_nonneg hU1n hm0
          nlinarith [Int.mul_nonneg (show 0 ≤ st.u0 + q1 * U1 by omega) (show 0 ≤ st.r1 - 1 by omega)]
        rw [(sm (q1 * U1) hq1U (by omega)).2, (sm _ (by omega : 0 ≤ st.u0 + q1 * U1) hu0'b).2,
          (sm _ (by omega : 0 ≤ st.u0 + q1 * U1) hu0'b).1]
        have hq2 : Int.tdiv st.r1 r0' = st.r1 / r0' := Int.tdiv_eq_ediv_of_nonneg hr1n
        have hq2n : 0 ≤ st.r1 / r0' := Int.ediv_nonneg hr1n hm0
        have hq2b : st.r1 / r0' ≤ st.r1 := Int.ediv_le_self _ hr1n
        have hq2r : st.r1 / r0' * r0' ≤ st.r1 := Int.ediv_mul_le _ hz0
        have hn0 := Int.emod_nonneg st.r1 hz0
        have hn1 := Int.emod_lt_of_pos st.r1 hr0'p
        have hnd : st.r1 - st.r1 / r0' * r0' = st.r1 % r0' := by rw [Int.emod_def]; ring
        rw [hq2, (sm _ hq2n (by omega)).1]
        generalize st.r1 / r0' = q2 at *
        generalize st.r1 % r0' = r1' at *
        have hq2r0 : 0 ≤ q2 * r0' := Int.mul_nonneg hq2n hm0
        rw [(sm (q2 * r0') hq2r0 (by omega)).2, hnd, (sm r1' hn0 (by omega)).2, (sm r1' hn0 (by omega)).1]
        have hr1def : st.r1 = r1' + q2 * r0' := by omega
        apply ih _ _ (by show r1' < (n : Int); push_cast at hf; omega)
        refine ⟨hr0'p, hn0, hn1, by show r0' ≤ p; omega, by show 0 ≤ st.u0 + q1 * U1; omega, hu0'b, hU1n, hq2n, ?_, ?_, ?_, ?_⟩
        · show p ∣ (st.u0 + q1 * U1) * a + r0'
          have e : (st.u0 + q1 * U1) * a + r0' = (st.u0 * a + st.r0) + q1 * (U1 * a - st.r1) := by
            linear_combination (-1 : Int) * hr0def
          rw [e]; exact Int.dvd_add hc0 (Dvd.dvd.mul_left hc1 _)
        · show p ∣ (U1 + q2 * (st.u0 + q1 * U1)) * a - r1'
          have e : (U1 + q2 * (st.u0 + q1 * U1)) * a - r1'
              = (U1 * a - st.r1) + q2 * ((st.u0 * a + st.r0) + q1 * (U1 * a - st.r1)) := by
            linear_combination hr1def - q2 * hr0def
          rw [e]; exact Int.dvd_add hc1 (Dvd.dvd.mul_left (Int.dvd_add hc0 (Dvd.dvd.mul_left hc1 _)) _)
        · show (st.u0 + q1 * U1) * r1' + (U1 + q2 * (st.u0 + q1 * U1)) * r0' = p
          have : (st.u0 + q1 * U1) * r1' + (U1 + q2 * (st.u0 + q1 * U1)) * r0'
              = (st.u0 + q1 * U1) * (r1' + q2 * r0') + U1 * r0' := by ring
          rw [this, ← hr1def]; exact hdet2
        · intro g
          show (g ∣ r0' ∧ g ∣ r1') ↔ _
          rw [← hdv g]
          constructor
          · rintro ⟨h1, h2⟩
            have hg1 : g ∣ st.r1 := by rw [hr1def]; exact Int.dvd_add h2 (Dvd.dvd.mul_left h1 _)
            exact ⟨by rw [hr0def]; exact Int.dvd_add h1 (Dvd.dvd.mul_left hg1 _), hg1⟩
          · rintro ⟨h1, h2⟩
            have hg0 : g ∣ r0' := by
              have : r0' = st.r0 - q1 * st.r1 := by omega
              rw [this]; exact Int.dvd_sub h1 (Dvd.dvd.mul_left h2 _)
            refine ⟨hg0, ?_⟩
            have : r1' = st.r1 - q2 * r0' := by omega
            rw [this]; exact Int.dvd_sub h2 (Dvd.dvd.mul_left hg0 _)

theorem ginv_post {k : GCfg} {p a : Int} (ok : GOk k p) (ha : 1 ≤ a ∧ a < p) : GInvPost p a (k.inv p a) := by
  have hp := ok.p2
  have sm : ∀ x : Int, 0 ≤ x → x ≤ p → k.E x = x ∧ k.ar x = x := fun x h0 h1 => ok.small h0 (by omega)
  have haz : a ≠ 0 := by omega
  have hq : Int.tdiv p a = p / a := Int.tdiv_eq_ediv_of_nonneg (by omega)
  have hqn : 0 ≤ p / a := Int.ediv_nonneg (by omega) (by omega)
  have hqb : p / a ≤ p := Int.ediv_le_self _ (by omega)
  have hqr : p / a * a ≤ p := Int.ediv_mul_le _ haz
  have hm0 := Int.emod_nonneg p haz
  have hm1 := Int.emod_lt_of_pos p (by omega : 0 < a)
  have hmd : p - p / a * a = p % a := by rw [Int.emod_def]; ring
  unfold GCfg.inv
  simp only
  rw [hq, (sm _ hqn hqb).1]
  generalize p / a = q at *
  generalize p % a = r0 at *
  have hqa : 0 ≤ q * a := Int.mul_nonneg hqn (by omega)
  rw [(sm (q * a) hqa (by omega)).2, hmd, (sm r0 hm0 (by omega)).2, (sm r0 hm0 (by omega)).1]
  have hpdef : p = r0 + q * a := by omega
  split
  · next hz =>
    -- a divides p: return one
    refine ⟨by omega, by omega, a, by omega, ?_, by simp⟩
    intro g
    constructor
    · intro hg; exact ⟨by rw [hpdef, hz, Int.zero_add]; exact Dvd.dvd.mul_left hg _, hg⟩
    · intro hg; exact hg.2
  · next hz =>
    have hr0p : 0 < r0 := by omega
    have hq2 : Int.tdiv a r0 = a / r0 := Int.tdiv_eq_ediv_of_nonneg (by omega)
    have hq2n : 0 ≤ a / r0 := Int.ediv_nonneg (by omega) hm0
    have hq2b : a / r0 ≤ a := Int.ediv_le_self _ (by omega)
    have hq2r : a / r0 * r0 ≤ a := Int.ediv_mul_le _ hz
    have hn0 := Int.emod_nonneg a hz
    have hn1 := Int.emod_lt_of_pos a hr0p
    have hnd : a - a / r0 * r0 = a % r0 := by rw [Int.emod_def]; ring
    rw [hq2, (sm _ hq2n (by omega)).1]
    generalize a / r0 = q2 at *
    generalize a % r0 = r1 at *
    have hq2r0 : 0 ≤ q2 * r0 := Int.mul_nonneg hq2n hm0
    rw [(sm (q2 * r0) hq2r0 (by omega)).2, hnd, (sm r1 hn0 (by omega)).2, (sm r1 hn0 (by omega)).1]
    have hadef : a = r1 + q2 * r0 := by omega
    apply ginv_loop ok _ _ _ (by show r1 < ((a.natAbs + 2 : Nat) : Int); omega)
    refine ⟨hr0p, hn0, hn1, by show r0 ≤ p; omega, hqn, hqb, by show (0 : Int) ≤ 1; omega, hq2n, ?_, ?_, ?_, ?_⟩
    · show p ∣ q * a + r0
      rw [show q * a + r0 = p by omega]
    · show p ∣ (1 + q2 * q) * a - r1
      have e : (1 + q2 * q) * a - r1 = p * q2 := by linear_combination hadef - q2 * hpdef
      rw [e]; exact Int.dvd_mul_right _ _
    · show q * r1 + (1 + q2 * q) * r0 = p
      linear_combination (-q) * hadef - hpdef
    · intro g
      show (g ∣ r0 ∧ g ∣ r1) ↔ _
      constructor
      · rintro ⟨h1, h2⟩
        have hga : g ∣ a := by rw [hadef]; exact Int.dvd_add h2 (Dvd.dvd.mul_left h1 _)
        exact ⟨by rw [hpdef]; exact Int.dvd_add h1 (Dvd.dvd.mul_left hga _), hga⟩
      · rintro ⟨h1, h2⟩
        have hg0 : g ∣ r0 := by
          have : r0 = p - q * a := by omega
          rw [this]; exact Int.dvd_sub h1 (Dvd.dvd.mul_left h2 _)
        refine ⟨hg0, ?_⟩
        have : r1 = a - q2 * r0 := by omega
        rw [this]; exact Int.dvd_sub h2 (Dvd.dvd.mul_left hg0 _)

/-- inv of the generic ring: canonical and `inv·a ≡ 1`, for every unit -/
theorem ginv_spec {k : GCfg} {p a : Int} (ok : GOk k p) (ha : 0 ≤ a ∧ a < p) (hu : Int.gcd a p = 1) :
    (0 ≤ k.inv p a ∧ k.inv p a < p) ∧ (k.inv p a * a) % p = 1 % p := by
  have hp := ok.p2
  have ha1 : 1 ≤ a := by
    by_contra hc
    have : a = 0 := by omega
    subst this
    simp at hu; omega
  obtain ⟨h0, h1, d, hd0, hdv, hc⟩ := ginv_post ok ⟨ha1, ha.2⟩
  have hd1 : d = 1 := by
    have h2 : d = (Int.gcd a p : Int) := by
      apply Int.gcd_greatest (Int.le_of_lt hd0)
      · exact ((hdv d).1 (Int.dvd_refl _)).2
      · exact ((hdv d).1 (Int.dvd_refl _)).1
      · intro e he1 he2; exact (hdv e).2 ⟨he2, he1⟩
    rw [h2, hu]; rfl
  rw [hd1] at hc
  obtain ⟨j, hj⟩ := hc
  refine ⟨⟨h0, ?_⟩, ?_⟩
  · by_contra hge
    have : k.inv p a = p := by omega
    rw [this] at hj
    have : p ∣ 1 := ⟨a - j, by linarith⟩
    have := Int.le_of_dvd (by decide) this
    omega
  · have : k.inv p a * a = 1 + p * j := by linarith
    rw [this, Int.add_mul_emod_self_left]

end Givaro.Model.ModRing
