/-
C08 — reversal, composition with X^b (and later: squaring, pseudo-division, Euclid) of `Model/Poly.lean` against `Polynomial K`.
-/
import GivaroModel.Lemmas.PolyKara
import Mathlib.Algebra.Polynomial.Reverse
open Polynomial
set_option linter.unusedSectionVars false
namespace Givaro.Lemmas.Poly
open Givaro.Model.Poly
variable {K : Type} [Field K] [DecidableEq K]

theorem getD_reverse (Q : List K) (k : Nat) :
    Q.reverse.getD k 0 = if k < Q.length then Q.getD (Q.length - 1 - k) 0 else 0 := by
  simp only [List.getD_eq_getElem?_getD]
  split
  · next h => rw [List.getElem?_reverse h]
  · next h => rw [List.getElem?_eq_none (by simp; omega)]; rfl

/-- `reverse` / `reversein`: the reflection of the denoted polynomial with respect to the number of stored coefficients -/
theorem toPoly_reverse (Q : List K) : toPoly (Model.Poly.reverse Q) = (toPoly Q).reflect (Q.length - 1) := by
  unfold Model.Poly.reverse
  rw [toPoly_setdegree]
  ext k
  rw [coeff_reflect, coeff_toPoly, coeff_toPoly, getD_reverse]
  by_cases hk : k ≤ Q.length - 1
  · rw [revAt_le hk]
    split
    · rfl
    · next h => exact (getD_of_le Q _ (by omega)).symm
  · rw [revAt_eq_self_of_lt (by omega)]
    rw [getD_of_le Q k (by omega)]
    split
    · next h => omega
    · rfl

theorem natDegree_toPoly_of_normal (Q : List K) (hn : Normal Q) (hne : Q ≠ []) :
    (toPoly Q).natDegree = Q.length - 1 := by
  have hlen := List.length_pos_iff.mpr hne
  apply natDegree_eq_of_le_of_coeff_ne_zero
  · rw [natDegree_le_iff_coeff_eq_zero]
    intro N hN
    rw [coeff_toPoly]; exact getD_of_le Q N (by omega)
  · rw [coeff_toPoly]
    intro h0
    apply hn
    rw [List.getLast?_eq_getElem?]
    rw [List.getD_eq_getElem?_getD] at h0
    have : Q[Q.length - 1]? = some (Q[Q.length - 1]'(by omega)) := List.getElem?_eq_getElem (by omega)
    rw [this] at h0 ⊢
    simpa using h0

/-- on a normalised polynomial `reverse` is the classical reversal `X^deg · P(1/X)` -/
theorem toPoly_reverse_of_normal (Q : List K) (hn : Normal Q) :
    toPoly (Model.Poly.reverse Q) = (toPoly Q).reverse := by
  rw [toPoly_reverse]
  by_cases hne : Q = []
  · subst hne; simp [Polynomial.reverse]
  · unfold Polynomial.reverse
    rw [natDegree_toPoly_of_normal Q hn hne]

theorem toPoly_zeros_append (m : Nat) (S : List K) : toPoly (zeros m ++ S) = X ^ m * toPoly S := by
  induction m with
  | zero => simp [zeros]
  | succ m ih =>
    have : (zeros (m + 1) : List K) = 0 :: zeros m := by simp [zeros, List.replicate_succ]
    rw [this, List.cons_append, toPoly_cons, ih]; simp; ring

theorem toPoly_spread (b : Nat) (hb : 1 ≤ b) (L : List K) : toPoly (spread b L) = (toPoly L).comp (X ^ b) := by
  induction L with
  | nil => simp [spread]
  | cons a L ih =>
    cases L with
    | nil => simp [spread]
    | cons c L =>
      have e : spread b (a :: c :: L) = a :: (zeros (b - 1) ++ spread b (c :: L)) := rfl
      rw [e, toPoly_cons, toPoly_zeros_append, ih, toPoly_cons (a := a)]
      simp only [add_comp, mul_comp, C_comp, X_comp]
      have : (X : K[X]) ^ b = X * X ^ (b - 1) := by rw [← pow_succ']; congr 1; omega
      rw [this]; ring

theorem foldl_sum (L : List K) (acc : K) : L.foldl (fun s a => s + a) acc = acc + (toPoly L).eval 1 := by
  induction L generalizing acc with
  | nil => simp
  | cons a L ih => simp only [List.foldl_cons, ih, toPoly_cons, eval_add, eval_C, eval_mul, eval_X]; ring

theorem toPoly_assignC' (c : K) : toPoly (assignC c) = C c := by
  unfold assignC
  split
  · next h => simp [h]
  · simp

/-- `power_compose(W,P,b)` is `P(X^b)` for every `b` (for `b = 0` the constant `P(1)`) -/
theorem toPoly_powerCompose (P : List K) (b : Nat) :
    toPoly (powerCompose P b) = (toPoly P).comp (X ^ b) := by
  unfold powerCompose
  have ht := toPoly_setdegree P
  split
  · next e => rw [e] at ht; rw [← ht]; simp
  · split
    · next hb =>
      subst hb
      rw [toPoly_assignC', foldl_sum, zero_add, ht, pow_zero, ← C_1, comp_C]
    · next hb =>
      rw [toPoly_setdegree, toPoly_spread b (by omega), ht]

/-! ### dedicated squaring -/

theorem toPoly_append (A B : List K) : toPoly (A ++ B) = toPoly A + X ^ A.length * toPoly B := by
  induction A with
  | nil => simp
  | cons a A ih => simp only [List.cons_append, toPoly_cons, ih, List.length_cons, pow_succ]; ring

theorem coeff_toPoly_mul_C_of_le (A : List K) (b : K) (n : Nat) (h : A.length ≤ n) :
    (toPoly A * C b).coeff n = 0 := by
  rw [coeff_mul_C, coeff_toPoly_of_le A n h, zero_mul]

theorem dot_eq (A B : List K) (acc : K) :
    dot A B acc = acc + (toPoly A.reverse * toPoly B).coeff (A.length - 1) := by
  induction A generalizing B acc with
  | nil => cases B <;> simp [dot]
  | cons a A ih =>
    cases B with
    | nil => simp [dot]
    | cons b B =>
      simp only [dot]
      rw [ih B (acc + a * b)]
      simp only [List.reverse_cons, List.length_cons, Nat.add_sub_cancel, toPoly_append, List.length_reverse,
        toPoly_cons, toPoly_nil, mul_zero, add_zero]
      have e : (toPoly A.reverse + X ^ A.length * C a) * (C b + X * toPoly B)
          = toPoly A.reverse * C b + X * (toPoly A.reverse * toPoly B) + X ^ A.length * C (a * b)
            + X ^ (A.length + 1) * (C a * toPoly B) := by
        rw [C_mul]; ring
      rw [e, coeff_add, coeff_add, coeff_add, coeff_toPoly_mul_C_of_le _ _ _ (by simp),
        coeff_X_pow_mul', coeff_X_pow_mul', if_pos (le_refl _), if_neg (by omega), Nat.sub_self, coeff_C_zero]
      cases hA : A.length with
      | zero =>
        have : A = [] := List.length_eq_zero_iff.mp hA
        subst this
        simp
      | succ m =>
        rw [coeff_X_mul]
        simp
        ring

theorem stdsqrFrom_length (two : K) (back fwd : List K) : (stdsqrFrom two back fwd).length = 2 * fwd.length := by
  induction fwd generalizing back with
  | nil => simp [stdsqrFrom]
  | cons p fwd ih => simp [stdsqrFrom, ih]; omega

theorem stdsqrFrom_getD (back fwd : List K) (hb : 1 ≤ back.length) (idx : Nat) :
    (stdsqrFrom (1 + 1) back fwd).getD idx 0
      = (toPoly (back.reverse ++ fwd) * toPoly (back.reverse ++ fwd)).coeff (2 * back.length - 1 + idx) := by
  induction fwd generalizing back idx with
  | nil =>
    simp only [stdsqrFrom, List.append_nil]
    rw [coeff_mul_toPoly_of_le _ _ _ (by simp; omega)]
    simp
  | cons p fwd ih =>
    have hP : toPoly (back.reverse ++ p :: fwd) = toPoly back.reverse + X ^ back.length * toPoly (p :: fwd) := by
      rw [toPoly_append, List.length_reverse]
    have hsq : toPoly (back.reverse ++ p :: fwd) * toPoly (back.reverse ++ p :: fwd)
        = toPoly back.reverse * toPoly back.reverse
          + X ^ back.length * (toPoly back.reverse * toPoly (p :: fwd) + toPoly back.reverse * toPoly (p :: fwd))
          + X ^ (2 * back.length) * (toPoly (p :: fwd) * toPoly (p :: fwd)) := by
      rw [hP]; ring
    have zb : ∀ k, 2 * back.length ≤ k + 1 → (toPoly back.reverse * toPoly back.reverse).coeff k = 0 := by
      intro k hk; exact coeff_mul_toPoly_of_le _ _ k (by simp; omega)
    match idx with
    | 0 =>
      simp only [stdsqrFrom, List.getD_cons_zero, Nat.add_zero]
      rw [dot_eq, zero_add, hsq, coeff_add, coeff_add, zb _ (by omega), coeff_X_pow_mul', coeff_X_pow_mul',
        if_pos (by omega), if_neg (by omega), coeff_add]
      have : 2 * back.length - 1 - back.length = back.length - 1 := by omega
      rw [this]; ring
    | 1 =>
      simp only [stdsqrFrom, List.getD_cons_succ, List.getD_cons_zero]
      rw [dot_eq, zero_add, hsq, coeff_add, coeff_add, zb _ (by omega), coeff_X_pow_mul', coeff_X_pow_mul',
        if_pos (by omega), if_pos (by omega), coeff_add]
      have i1 : 2 * back.length - 1 + 1 - back.length = (back.length - 1) + 1 := by omega
      have i2 : 2 * back.length - 1 + 1 - 2 * back.length = 0 := by omega
      rw [i1, i2, mul_coeff_zero]
      have e : toPoly back.reverse * toPoly (p :: fwd)
          = toPoly back.reverse * C p + X * (toPoly back.reverse * toPoly fwd) := by
        rw [toPoly_cons]; ring
      rw [e, coeff_add, coeff_toPoly_mul_C_of_le _ _ _ (by simp; omega), coeff_X_mul]
      simp
      ring
    | idx + 2 =>
      simp only [stdsqrFrom, List.getD_cons_succ]
      rw [ih (p :: back) (by simp) idx]
      have e : (p :: back).reverse ++ fwd = back.reverse ++ p :: fwd := by simp
      rw [e]
      congr 1
      simp only [List.length_cons]; omega

theorem stdsqr_length (two : K) (P : List K) : (stdsqr two P).length = 2 * P.length - 1 := by
  cases P with
  | nil => simp [stdsqr]
  | cons p0 rest => simp [stdsqr, stdsqrFrom_length]; omega

theorem stdsqr_getD (P : List K) (idx : Nat) :
    (stdsqr (1 + 1) P).getD idx 0 = (toPoly P * toPoly P).coeff idx := by
  cases P with
  | nil => simp [stdsqr]
  | cons p0 rest =>
    cases idx with
    | zero => simp [stdsqr, mul_coeff_zero]
    | succ idx =>
      simp only [stdsqr, List.getD_cons_succ]
      rw [stdsqrFrom_getD [p0] rest (by simp) idx]
      simp only [List.reverse_cons, List.reverse_nil, List.nil_append, List.singleton_append, List.length_cons,
        List.length_nil]
      congr 1
      omega

/-- `stdsqr` is the exact square, for every (non-empty or empty) operand -/
theorem toPoly_stdsqr (P : List K) : toPoly (stdsqr (1 + 1) P) = toPoly P * toPoly P := by
  apply toPoly_eq_of_coeff
  · intro k _; exact stdsqr_getD P k
  · intro k hk
    rw [stdsqr_length] at hk
    exact coeff_mul_toPoly_of_le P P k (by omega)

theorem toPoly_pad_of_le (n : Nat) (L : List K) (h : L.length ≤ n) : toPoly (pad n L) = toPoly L := by
  ext k
  rw [coeff_toPoly, coeff_toPoly, getD_pad]
  split
  · rfl
  · exact (getD_of_le L k (by omega)).symm

theorem toPoly_zipAdd (R M : List K) (h : M.length ≤ R.length) : toPoly (zipAdd R M) = toPoly R + toPoly M := by
  induction R generalizing M with
  | nil =>
    cases M with
    | nil => simp [zipAdd]
    | cons m M => simp at h
  | cons r R ih =>
    cases M with
    | nil => simp [zipAdd]
    | cons m M =>
      simp only [zipAdd, toPoly_cons, C_add]
      rw [ih M (by simpa using h)]; ring

theorem toPoly_addRow (M : List K) (off : Nat) (R : List K) (h : off + M.length ≤ R.length) :
    toPoly (addRow M off R) = toPoly R + X ^ off * toPoly M := by
  induction off generalizing R with
  | zero => simp only [addRow]; rw [toPoly_zipAdd R M (by omega)]; simp
  | succ off ih =>
    cases R with
    | nil => simp at h
    | cons r R =>
      simp only [addRow, toPoly_cons]
      rw [ih R (by simp at h; omega), pow_succ]; ring

theorem addRow_length (M : List K) (off : Nat) (R : List K) : (addRow M off R).length = R.length := by
  induction off generalizing R with
  | zero =>
    simp only [addRow]
    induction R generalizing M with
    | nil => cases M <;> simp [zipAdd]
    | cons r R ih => cases M with
      | nil => simp [zipAdd]
      | cons m M => simp [zipAdd, ih]
  | succ off ih => cases R with
    | nil => simp [addRow]
    | cons r R => simp [addRow, ih]

/-- what a range square must deliver: it fits the `2·|X|-1` places and denotes the square -/
def SqSpec (sq : List K → List K) (Xs : List K) : Prop :=
  (sq Xs).length ≤ 2 * Xs.length - 1 ∧ toPoly (sq Xs) = toPoly Xs * toPoly Xs

theorem stdsqr_spec (P : List K) : SqSpec (stdsqr (1 + 1)) P :=
  ⟨by rw [stdsqr_length], toPoly_stdsqr P⟩

/-- one level of `sqrrec`, given exact recursive squares and an exact product; needs at least two coefficients
    (`half ≥ 1`: with `half = 0` the C++ forms the iterator `Rmid-1` before `Rbeg`) -/
theorem sqrStep_spec (sq : List K → List K) (mul : Nat → List K → List K → List K) (P : List K)
    (hsq : ∀ Xs, SqSpec sq Xs) (hmul : MulSpec mul P.length (P.take (P.length / 2)) (P.drop (P.length / 2)))
    (h2 : 2 ≤ P.length) : SqSpec (sqrStep sq mul (1 + 1)) P := by
  unfold SqSpec
  unfold sqrStep
  extract_lets half Pl Ph lo hi M
  have eh : half = P.length / 2 := rfl
  have lPl : Pl.length = half := by simp only [Pl, List.length_take]; omega
  have lPh : Ph.length = P.length - half := by simp only [Ph, List.length_drop]
  have hP : toPoly P = toPoly Pl + X ^ half * toPoly Ph := toPoly_take_drop P half
  have s1 := hsq Pl
  have s2 := hsq Ph
  have llo : lo.length = 2 * half - 1 := length_pad _ _
  have lhi : hi.length = 2 * P.length - 1 - 2 * half := length_pad _ _
  have tlo : toPoly lo = toPoly Pl * toPoly Pl := by
    simp only [lo]; rw [toPoly_pad_of_le _ _ (by have := s1.1; rw [lPl] at this; exact this), s1.2]
  have thi : toPoly hi = toPoly Ph * toPoly Ph := by
    simp only [hi]; rw [toPoly_pad_of_le _ _ (by have := s2.1; rw [lPh] at this; omega), s2.2]
  have tM0 : toPoly (setdegree (pad P.length (mul P.length Pl Ph))) = toPoly Pl * toPoly Ph :=
    toPoly_of_spec _ _ _ hmul.2 (fun k hk => coeff_mul_toPoly_of_le Pl Ph k (by omega))
  have tM : toPoly M = toPoly Pl * toPoly Ph * C (1 + 1) := by
    simp only [M]; rw [toPoly_mulVal, tM0]
  have lM : M.length ≤ P.length := by
    simp only [M, mulVal, List.length_map]
    have := length_setdegree_le (pad P.length (mul P.length Pl Ph))
    rw [length_pad] at this; exact this
  have lR : (lo ++ 0 :: hi).length = 2 * P.length - 1 := by
    rw [List.length_append, List.length_cons, llo, lhi]; omega
  refine ⟨by rw [addRow_length, lR], ?_⟩
  rw [toPoly_addRow _ _ _ (by rw [lR]; omega), toPoly_append, toPoly_cons, tlo, thi, tM, llo, hP]
  have e : (X : K[X]) ^ (2 * half - 1) * (C 0 + X * (toPoly Ph * toPoly Ph)) = X ^ (2 * half) * (toPoly Ph * toPoly Ph) := by
    have : 2 * half = (2 * half - 1) + 1 := by omega
    rw [this, pow_succ]; simp; ring
  rw [e]
  simp only [C_add, C_1]
  ring

theorem sqrR_spec (thr : Nat) (hthr : 1 ≤ thr) (fuel : Nat) : ∀ P : List K, SqSpec (sqrR thr (1 + 1) fuel) P := by
  induction fuel with
  | zero => intro P; exact stdsqr_spec P
  | succ fuel ih =>
    intro P
    have e : sqrR thr (1 + 1) (fuel + 1) P
        = if P.length > thr then sqrStep (sqrR thr (1 + 1) fuel) (mulR thr P.length) (1 + 1) P else stdsqr (1 + 1) P := rfl
    unfold SqSpec
    rw [e]
    split
    · next hgt =>
      exact sqrStep_spec (sqrR thr (1 + 1) fuel) (mulR thr P.length) P ih
        (mulR_spec thr P.length P.length _ _ (Or.inl hthr)) (by omega)
    · exact stdsqr_spec P

/-- `sqr(R,P)` is the exact square, for every `SQR_THRESHOLD ≥ 1` and every operand -/
theorem toPoly_sqr (thr : Nat) (hthr : 1 ≤ thr) (P : List K) : toPoly (sqr thr P) = toPoly P * toPoly P := by
  unfold sqr
  split
  · next h => simp [isEmpty_toPoly h]
  · exact (sqrR_spec thr hthr P.length P).2
/-! ### truncated product `mul(R,P,Q,Val,deg)` -/

theorem dot_comm (A B : List K) (acc : K) : dot A B acc = dot B A acc := by
  induction A generalizing B acc with
  | nil => cases B <;> simp [dot]
  | cons a A ih =>
    cases B with
    | nil => simp [dot]
    | cons b B => simp only [dot]; rw [ih, mul_comm]

theorem dot_rev (A B : List K) (acc : K) :
    dot A B.reverse acc = acc + (toPoly A * toPoly B).coeff (B.length - 1) := by
  rw [dot_comm, dot_eq, List.reverse_reverse, List.length_reverse, mul_comm]

theorem window_coeff (P Q : List K) (N : Nat) (hQ : 1 ≤ Q.length) :
    (toPoly (P.drop (N - (if N ≥ Q.length then Q.length - 1 else N)))
        * toPoly (Q.take ((if N ≥ Q.length then Q.length - 1 else N) + 1))).coeff
        (if N ≥ Q.length then Q.length - 1 else N)
      = (toPoly P * toPoly Q).coeff N := by
  generalize hk : (if N ≥ Q.length then Q.length - 1 else N) = k0
  have hk1 : k0 ≤ N := by split at hk <;> omega
  have hk2 : k0 + 1 ≤ Q.length := by split at hk <;> omega
  have hj : N - k0 = 0 ∨ k0 = Q.length - 1 := by split at hk <;> omega
  have hP := toPoly_take_drop P (N - k0)
  have hQ' := toPoly_take_drop Q (k0 + 1)
  have e : toPoly P * toPoly Q = toPoly (P.take (N - k0)) * toPoly Q
      + X ^ (N - k0) * (toPoly (P.drop (N - k0)) * toPoly (Q.take (k0 + 1)))
      + X ^ (N + 1) * (toPoly (P.drop (N - k0)) * toPoly (Q.drop (k0 + 1))) := by
    have : N + 1 = (N - k0) + (k0 + 1) := by omega
    rw [this, pow_add]
    conv_lhs => rw [hP]
    conv_lhs => rw [hQ']
    conv_rhs => rw [hQ']
    ring
  rw [e, coeff_add, coeff_add, coeff_X_pow_mul', coeff_X_pow_mul', if_pos (by omega), if_neg (by omega)]
  have t1 : (toPoly (P.take (N - k0)) * toPoly Q).coeff N = 0 := by
    rcases hj with h | h
    · rw [h]; simp
    · apply coeff_mul_toPoly_of_le
      rw [List.length_take]; omega
  rw [t1]
  have : N - (N - k0) = k0 := by omega
  rw [this]; ring

theorem getD_range_map (n : Nat) (f : Nat → K) (i : Nat) :
    ((List.range n).map f).getD i 0 = if i < n then f i else 0 := by
  simp only [List.getD_eq_getElem?_getD, List.getElem?_map]
  split
  · next h => simp [List.getElem?_range h]
  · next h => rw [List.getElem?_eq_none (by simp; omega)]; rfl

/-- the truncated product holds exactly the coefficients `Val … deg` of `P·Q` -/
theorem coeff_mulWindow (P Q : List K) (val deg i : Nat) :
    (toPoly (mulWindow P Q val deg)).coeff i
      = if i + val ≤ deg then (toPoly P * toPoly Q).coeff (i + val) else 0 := by
  unfold mulWindow
  split
  · next h =>
    have : toPoly P * toPoly Q = 0 := by rcases h with h | h <;> simp [isEmpty_toPoly h]
    rw [this]; simp
  · next h =>
    have hQ : 1 ≤ Q.length := by
      have : Q ≠ [] := fun e => h (Or.inr (by simp [e]))
      exact List.length_pos_iff.mpr this
    extract_lets newS
    rw [toPoly_setdegree, coeff_toPoly, getD_range_map]
    have hn : (i < newS) ↔ i + val ≤ deg := by
      simp only [newS]; split <;> omega
    by_cases hi : i + val ≤ deg
    · rw [if_pos (hn.mpr hi), if_pos hi]
      simp only
      rw [dot_rev, zero_add]
      have hl : (List.take ((if i + val ≥ Q.length then Q.length - 1 else i + val) + 1) Q).length - 1
          = (if i + val ≥ Q.length then Q.length - 1 else i + val) := by
        rw [List.length_take]; split <;> omega
      rw [hl]
      exact window_coeff P Q (i + val) hQ
    · rw [if_neg (fun h => hi (hn.mp h)), if_neg hi]

/-! ### extended gcd -/

theorem isZero_iff (P : List K) : isZero P = true ↔ toPoly P = 0 := by
  have hn := setdegree_normal P
  have ht := toPoly_setdegree P
  unfold isZero
  split
  · next e => rw [e] at ht; simp [← ht]
  · next a e =>
    rw [e] at ht hn
    have ha : a ≠ 0 := by simpa [Normal, eq_comm] using hn
    simp only [decide_eq_true_eq, ha, false_iff]
    rw [← ht]; simp [ha]
  · next h1 h2 =>
    simp only [Bool.false_eq_true, false_iff]
    intro h0
    rw [← ht] at h0
    exact h1 (toPoly_eq_zero_of_normal _ hn h0)

theorem toPoly_assignC (c : K) : toPoly (assignC c) = C c := by
  unfold assignC
  split
  · next h => simp [h]
  · simp

theorem dvd_of_dvd_mul_C_inv (D p : K[X]) (c : K) (hc : c ≠ 0) (h : D ∣ p * C c⁻¹) : D ∣ p := by
  have : p = p * C c⁻¹ * C c := by
    rw [mul_assoc, ← C_mul, inv_mul_cancel₀ hc]; simp
  rw [this]; exact dvd_mul_of_dvd_left h _

/-- invariant of the Euclid loop: the Bezout relations hold for both rows, and every common divisor of the current pair
    divides both inputs — for *any* quotient function -/
theorem gcdextLoop_sound (thr : Nat) (divf : List K → List K → List K) (a b : K[X]) :
    ∀ (fuel : Nat) (F G S0 S1 T0 T1 F' S' T' : List K),
      toPoly S0 * a + toPoly T0 * b = toPoly F →
      toPoly S1 * a + toPoly T1 * b = toPoly G →
      (∀ D : K[X], D ∣ toPoly F → D ∣ toPoly G → D ∣ a ∧ D ∣ b) →
      gcdextLoop thr divf fuel F G S0 S1 T0 T1 = some (F', S', T') →
      toPoly S' * a + toPoly T' * b = toPoly F' ∧ toPoly F' ∣ a ∧ toPoly F' ∣ b := by
  intro fuel
  induction fuel with
  | zero => intro F G S0 S1 T0 T1 F' S' T' _ _ _ h; simp [gcdextLoop] at h
  | succ fuel ih =>
    intro F G S0 S1 T0 T1 F' S' T' h0 h1 hd h
    unfold gcdextLoop at h
    split at h
    · next hz =>
      have hG : toPoly G = 0 := (isZero_iff G).mp hz
      simp only [Option.some.injEq, Prod.mk.injEq] at h
      obtain ⟨rfl, rfl, rfl⟩ := h
      exact ⟨h0, hd (toPoly F) (dvd_refl _) (by rw [hG]; exact dvd_zero _)⟩
    · next hz =>
      extract_lets Q R1 r1 at h
      have hr1 : r1 ≠ 0 := by
        simp only [r1]
        split
        · exact one_ne_zero
        · next hne => exact hne
      have hR1 : toPoly R1 = toPoly F - toPoly Q * toPoly G := by
        simp only [R1, maxpy]; rw [toPoly_sub, toPoly_mul]
      apply ih _ _ _ _ _ _ F' S' T' ?_ ?_ ?_ h
      · simp only [assign]; rw [toPoly_setdegree, toPoly_setdegree, toPoly_setdegree]; exact h1
      · rw [toPoly_divVal, toPoly_divVal, toPoly_divVal, toPoly_sub, toPoly_sub, toPoly_mul, toPoly_mul, hR1,
          ← h0, ← h1]
        ring
      · intro D hD1 hD2
        simp only [assign] at hD1
        rw [toPoly_setdegree] at hD1
        rw [toPoly_divVal] at hD2
        have hDR : D ∣ toPoly R1 := dvd_of_dvd_mul_C_inv D _ r1 hr1 hD2
        have hDF : D ∣ toPoly F := by
          have : toPoly F = toPoly R1 + toPoly Q * toPoly G := by rw [hR1]; ring
          rw [this]; exact dvd_add hDR (dvd_mul_of_dvd_right hD1 _)
        exact hd D hDF hD1


theorem degree_neg_iff (P : List K) : Model.Poly.degree P < 0 ↔ toPoly P = 0 := by
  unfold Model.Poly.degree
  have h := setdegree_eq_iff P []
  simp only [setdegree, toPoly_nil] at h
  rw [← h]
  constructor
  · intro hl
    have : (setdegree P).length = 0 := by omega
    exact List.length_eq_zero_iff.mp this
  · intro he; rw [he]; simp

theorem leadcoef_ne_zero (P : List K) (h : toPoly P ≠ 0) : leadcoef P ≠ 0 := by
  have hn := setdegree_normal P
  have ht := toPoly_setdegree P
  unfold leadcoef
  cases hl : (setdegree P).getLast? with
  | none =>
    exfalso
    rw [List.getLast?_eq_none_iff] at hl
    rw [hl] at ht
    exact h ht.symm
  | some x =>
    simp only [Option.getD_some]
    intro hx
    rw [hx] at hl
    exact hn hl

theorem degree_zero_elim (P : List K) (h : Model.Poly.degree P = 0) :
    ∃ c : K, c ≠ 0 ∧ toPoly P = C c ∧ leadcoef P = c := by
  unfold Model.Poly.degree at h
  have hn := setdegree_normal P
  have ht := toPoly_setdegree P
  have hl : (setdegree P).length = 1 := by omega
  obtain ⟨c, hc⟩ := List.length_eq_one_iff.mp hl
  refine ⟨c, ?_, ?_, ?_⟩
  · rw [hc] at hn; simpa [Normal, eq_comm] using hn
  · rw [hc] at ht; rw [← ht]; simp
  · unfold leadcoef; rw [hc]; simp

/-- the early exits of `gcd(F,S0,T0,A,B)`: `F = P / leadcoef(P)` when the other operand is zero or `P` is a constant -/
theorem early_dvd (Pp : List K) (other : K[X]) (hc : other = 0 ∨ Model.Poly.degree Pp = 0) :
    toPoly (mulVal (assign Pp) (leadcoef Pp)⁻¹) ∣ toPoly Pp ∧ toPoly (mulVal (assign Pp) (leadcoef Pp)⁻¹) ∣ other := by
  have e : toPoly (mulVal (assign Pp) (leadcoef Pp)⁻¹) = toPoly Pp * C (leadcoef Pp)⁻¹ := by
    rw [toPoly_mulVal]; simp only [assign]; rw [toPoly_setdegree]
  rw [e]
  have d1 : toPoly Pp * C (leadcoef Pp)⁻¹ ∣ toPoly Pp := by
    by_cases h0 : toPoly Pp = 0
    · rw [h0]; simp
    · have hl := leadcoef_ne_zero Pp h0
      refine ⟨C (leadcoef Pp), ?_⟩
      rw [mul_assoc, ← C_mul, inv_mul_cancel₀ hl]; simp
  refine ⟨d1, ?_⟩
  rcases hc with h | h
  · rw [h]; exact dvd_zero _
  · obtain ⟨c, hc0, hPc, hlc⟩ := degree_zero_elim Pp h
    rw [hPc, hlc, ← C_mul, mul_inv_cancel₀ hc0]; simp

/-- `gcd(F,S0,T0,A,B)` with **any** quotient function for `div`: whenever the loop finishes, the returned `F` is a common
    divisor of `A` and `B` and the returned cofactors satisfy the Bezout identity `S0·A + T0·B = F` — hence `F` is a
    greatest common divisor (`gcd_certificate`) -/
theorem gcdext_sound (thr : Nat) (divf : List K → List K → List K) (fuel : Nat) (A B F' S' T' : List K)
    (h : gcdext thr divf fuel A B = some (F', S', T')) :
    toPoly S' * toPoly A + toPoly T' * toPoly B = toPoly F' ∧ toPoly F' ∣ toPoly A ∧ toPoly F' ∣ toPoly B := by
  unfold gcdext at h
  split at h
  · next hc =>
    simp only [Option.some.injEq, Prod.mk.injEq] at h
    obtain ⟨rfl, rfl, rfl⟩ := h
    have hc' : toPoly A = 0 ∨ Model.Poly.degree B = 0 := hc.imp (degree_neg_iff A).mp id
    have hd := early_dvd B (toPoly A) hc'
    refine ⟨?_, hd.2, hd.1⟩
    rw [toPoly_assignC, toPoly_mulVal]; simp only [assign]; rw [toPoly_setdegree]; simp; ring
  · next hc1 =>
    split at h
    · next hc =>
      simp only [Option.some.injEq, Prod.mk.injEq] at h
      obtain ⟨rfl, rfl, rfl⟩ := h
      have hc' : toPoly B = 0 ∨ Model.Poly.degree A = 0 := hc.imp (degree_neg_iff B).mp id
      have hd := early_dvd A (toPoly B) hc'
      refine ⟨?_, hd.1, hd.2⟩
      rw [toPoly_assignC, toPoly_mulVal]; simp only [assign]; rw [toPoly_setdegree]; simp; ring
    · next hc2 =>
      have hA : toPoly A ≠ 0 := fun h0 => hc1 (Or.inl ((degree_neg_iff A).mpr h0))
      have hB : toPoly B ≠ 0 := fun h0 => hc2 (Or.inl ((degree_neg_iff B).mpr h0))
      have hr0 := leadcoef_ne_zero A hA
      have hr1 := leadcoef_ne_zero B hB
      refine gcdextLoop_sound thr divf (toPoly A) (toPoly B) fuel _ _ _ _ _ _ F' S' T' ?_ ?_ ?_ h
      · rw [toPoly_assignC, toPoly_divVal]; simp only [assign]; rw [toPoly_setdegree]; simp; ring
      · rw [toPoly_assignC, toPoly_divVal]; simp only [assign]; rw [toPoly_setdegree]; simp; ring
      · intro D hD1 hD2
        rw [toPoly_divVal] at hD1 hD2
        simp only [assign] at hD1 hD2
        rw [toPoly_setdegree] at hD1 hD2
        exact ⟨dvd_of_dvd_mul_C_inv D _ _ hr0 hD1, dvd_of_dvd_mul_C_inv D _ _ hr1 hD2⟩

end Givaro.Lemmas.Poly
