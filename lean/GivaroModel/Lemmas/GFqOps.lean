/-
C05 — every Zech macro of gfq.inl computes the ring operation it is named after, for all canonical
operands, in any commutative ring `K` in which the object's tables satisfy `ZechHyp`.
-/
import GivaroModel.Lemmas.GFqZech
import Mathlib.Tactic.LinearCombination
namespace Givaro.Lemmas.GFqZech
open Givaro.Model.Zech

/-- the tail shared by `ADD`, `SUB`, `MULADD`, `MULSUB`: look `x` up in `plus1`, add `b`, wrap -/
def tail (F : Dom) (x b : Int) : Int :=
  let c := F.pl x
  if c ≠ 0 then
    let c := c + b
    if c > 0 then c else c + F.mun
  else c

theorem ADD_eq_tail (F : Dom) (a b : Int) (ha : a ≠ 0) (hb : b ≠ 0) :
    ADD F.mun F.pl a b = tail F (wrapPos F.mun (a - b)) b := by
  unfold ADD tail wrapPos
  simp only [ha, hb, ↓reduceIte]

theorem SUB_eq_tail (F : Dom) (a b : Int) (ha : a ≠ 0) (hb : b ≠ 0) :
    SUB F.mo F.mun F.pl a b = tail F (wrapPos F.mun (wrapPos F.mun (b - a - F.mo))) a := by
  unfold SUB tail wrapPos
  simp only [ha, hb, ↓reduceIte]

theorem MULADD_eq_tail (F : Dom) (a1 a2 b : Int) (h1 : a1 ≠ 0) (h2 : a2 ≠ 0) (hb : b ≠ 0) :
    MULADD F.mun F.pl a1 a2 b =
      tail F (wrapPos F.mun (if a1 + a2 - b - F.mun < 0 then a1 + a2 - b - F.mun + F.mun else a1 + a2 - b - F.mun)) b := by
  unfold MULADD tail wrapPos
  simp only [h1, h2, hb, or_self, ↓reduceIte]

section
variable {K : Type*} [CommRing K] {F : Dom} {q : Int} {γ : K} {elt : Int → K} (H : ZechHyp F q γ elt)
include H

/-- try the few multiples of `q-1` by which the macros' wrap-arounds can shift an exponent -/
local macro "gc" H:term : tactic => `(tactic|
  first
  | exact g_congr $H 0 (by omega) | exact g_congr $H 1 (by omega) | exact g_congr $H (-1) (by omega)
  | exact g_congr $H 2 (by omega) | exact g_congr $H (-2) (by omega)
  | exact g_congr $H 3 (by omega) | exact g_congr $H (-3) (by omega))

theorem g_sub_mo (n : Int) : H.g (n - F.mo) = - H.g n := by
  rw [sub_eq_add_neg, g_add, g_neg_mo]; ring

theorem g_add_mo (n : Int) : H.g (n + F.mo) = - H.g n := by
  rw [g_add, g_mo]; ring

theorem tail_correct (x b : Int) (hx1 : 1 ≤ x) (hx2 : x ≤ q - 1) (hb1 : 1 ≤ b) (hb2 : b ≤ q - 1) :
    elt (tail F x b) = (H.g x + 1) * H.g b ∧ Canon q (tail F x b) := by
  have hm := H.mun_eq
  unfold tail Canon
  by_cases hc : F.pl x = 0
  · simp only [hc, ne_eq, not_true_eq_false, ↓reduceIte]
    rw [pl_g0 H x hx1 hx2 hc, H.elt_zero]
    constructor
    · ring
    · have := H.q_ge; omega
  · have hl := H.pl_lo x hx1 hx2 hc
    have hh := H.pl_hi x hx1 hx2 hc
    have hp := pl_g H x hx1 hx2 hc
    simp only [ne_eq, hc, not_false_eq_true, ↓reduceIte]
    split
    · constructor
      · rw [elt_g H _ (by omega) (by omega), ← hp, ← g_add]; gc H
      · omega
    · constructor
      · rw [elt_g H _ (by omega) (by omega), ← hp, ← g_add]; gc H
      · omega

theorem ADD_correct (a b : Int) (ha : Canon q a) (hb : Canon q b) :
    elt (ADD F.mun F.pl a b) = elt a + elt b ∧ Canon q (ADD F.mun F.pl a b) := by
  have hm := H.mun_eq
  obtain ⟨ha1, ha2⟩ := ha
  obtain ⟨hb1, hb2⟩ := hb
  by_cases hb0 : b = 0
  · unfold ADD; simp only [hb0, ↓reduceIte, H.elt_zero, add_zero]; exact ⟨trivial, ha1, ha2⟩
  by_cases ha0 : a = 0
  · unfold ADD; simp only [hb0, ha0, ↓reduceIte, H.elt_zero, zero_add]; exact ⟨trivial, hb1, hb2⟩
  rw [ADD_eq_tail F a b ha0 hb0]
  have hx : 1 ≤ wrapPos F.mun (a - b) ∧ wrapPos F.mun (a - b) ≤ q - 1 := by unfold wrapPos; split <;> omega
  have hg : H.g (wrapPos F.mun (a - b)) * H.g b = H.g a := by
    rw [← g_add]; unfold wrapPos; split <;> gc H
  obtain ⟨e, c⟩ := tail_correct H _ b hx.1 hx.2 (by omega) hb2
  refine ⟨?_, c⟩
  rw [e, add_mul, hg, one_mul, elt_g H a (by omega) ha2, elt_g H b (by omega) hb2]

theorem NEG_correct (a : Int) (ha : Canon q a) :
    elt (NEG F.mo F.mun a) = - elt a ∧ Canon q (NEG F.mo F.mun a) := by
  have hm := H.mun_eq
  have hq := H.q_ge
  have hm1 := H.mo_lo
  have hm2 := H.mo_hi
  obtain ⟨ha1, ha2⟩ := ha
  unfold NEG Canon
  by_cases ha0 : a = 0
  · simp only [ha0, ↓reduceIte, H.elt_zero, neg_zero]; exact ⟨trivial, by omega, by omega⟩
  simp only [ha0, ↓reduceIte]
  rw [elt_g H a (by omega) ha2, ← g_sub_mo H a]
  split
  · refine ⟨?_, by omega, by omega⟩
    rw [elt_g H _ (by omega) (by omega)]
  · refine ⟨?_, by omega, by omega⟩
    rw [elt_g H _ (by omega) (by omega)]; gc H

theorem SUB_correct (a b : Int) (ha : Canon q a) (hb : Canon q b) :
    elt (SUB F.mo F.mun F.pl a b) = elt a - elt b ∧ Canon q (SUB F.mo F.mun F.pl a b) := by
  have hm := H.mun_eq
  have hm1 := H.mo_lo
  have hm2 := H.mo_hi
  by_cases ha0 : a = 0
  · have := NEG_correct H b hb
    unfold SUB; simp only [ha0, ↓reduceIte, H.elt_zero, zero_sub]; exact this
  obtain ⟨ha1, ha2⟩ := ha
  obtain ⟨hb1, hb2⟩ := hb
  by_cases hb0 : b = 0
  · unfold SUB; simp only [hb0, ha0, ↓reduceIte, H.elt_zero, sub_zero]; exact ⟨trivial, ha1, ha2⟩
  rw [SUB_eq_tail F a b ha0 hb0]
  have hx : 1 ≤ wrapPos F.mun (wrapPos F.mun (b - a - F.mo)) ∧ wrapPos F.mun (wrapPos F.mun (b - a - F.mo)) ≤ q - 1 := by
    unfold wrapPos; (repeat' split) <;> omega
  have hg : H.g (wrapPos F.mun (wrapPos F.mun (b - a - F.mo))) * H.g a = - H.g b := by
    rw [← g_add, ← g_sub_mo H b]; unfold wrapPos; (repeat' split) <;> gc H
  obtain ⟨e, c⟩ := tail_correct H _ a hx.1 hx.2 (by omega) ha2
  refine ⟨?_, c⟩
  rw [e, add_mul, hg, one_mul, elt_g H a (by omega) ha2, elt_g H b (by omega) hb2]; ring

theorem AUTOSUB_correct (c b : Int) (hc : Canon q c) (hb : Canon q b) :
    elt (AUTOSUB F.mo F.mun F.pl c b) = elt c - elt b ∧ Canon q (AUTOSUB F.mo F.mun F.pl c b) := by
  have hm := H.mun_eq
  have hq := H.q_ge
  have hm1 := H.mo_lo
  have hm2 := H.mo_hi
  by_cases hc0 : c = 0
  · have := NEG_correct H b hb
    unfold AUTOSUB; simp only [hc0, ↓reduceIte, H.elt_zero, zero_sub]; exact this
  obtain ⟨hc1, hc2⟩ := hc
  obtain ⟨hb1, hb2⟩ := hb
  by_cases hb0 : b = 0
  · unfold AUTOSUB; simp only [hb0, hc0, ↓reduceIte, H.elt_zero, sub_zero, ne_eq, not_true_eq_false]; exact ⟨trivial, hc1, hc2⟩
  -- the looked-up exponent
  have hx : 1 ≤ wrapPos F.mun (wrapPos F.mun (c - b - F.mo)) ∧ wrapPos F.mun (wrapPos F.mun (c - b - F.mo)) ≤ q - 1 := by
    unfold wrapPos; (repeat' split) <;> omega
  have hg : H.g (wrapPos F.mun (wrapPos F.mun (c - b - F.mo))) * H.g b = - H.g c := by
    rw [← g_add, ← g_sub_mo H c]; unfold wrapPos; (repeat' split) <;> gc H
  have heq : AUTOSUB F.mo F.mun F.pl c b =
      (let y := F.pl (wrapPos F.mun (wrapPos F.mun (c - b - F.mo)))
       if y ≠ 0 then
         let y := y + b
         let y := if y > 0 then y - F.mo else y + F.mo
         if y > 0 then y else y + F.mun
       else y) := by
    unfold AUTOSUB wrapPos
    simp only [hc0, hb0, ne_eq, not_false_eq_true, ↓reduceIte]
  rw [heq]
  generalize wrapPos F.mun (wrapPos F.mun (c - b - F.mo)) = x at hx hg
  rw [elt_g H c (by omega) hc2, elt_g H b (by omega) hb2]
  by_cases hy : F.pl x = 0
  · simp only [hy, ne_eq, not_true_eq_false, ↓reduceIte, H.elt_zero]
    have h0 := pl_g0 H x hx.1 hx.2 hy
    refine ⟨?_, by unfold Canon; omega⟩
    have : H.g c = H.g b := by
      have h1 : H.g x = -1 := by linear_combination h0
      rw [h1] at hg
      linear_combination hg
    rw [this]; ring
  · have hl := H.pl_lo x hx.1 hx.2 hy
    have hh := H.pl_hi x hx.1 hx.2 hy
    have hp := pl_g H x hx.1 hx.2 hy
    simp only [ne_eq, hy, not_false_eq_true, ↓reduceIte]
    have target : H.g c - H.g b = - (H.g (F.pl x + (q - 1)) * H.g b) := by
      rw [hp, add_mul, hg]; ring
    rw [target]
    unfold Canon
    split <;> split <;> refine ⟨?_, by omega, by omega⟩ <;> rw [elt_g H _ (by omega) (by omega)]
    · rw [← g_add, ← g_sub_mo H]; gc H
    · rw [← g_add, ← g_sub_mo H]; gc H
    · rw [← g_add, ← g_add_mo H]; gc H
    · rw [← g_add, ← g_add_mo H]; gc H

theorem MUL_correct (a b : Int) (ha : Canon q a) (hb : Canon q b) :
    elt (MUL F.mun a b) = elt a * elt b ∧ Canon q (MUL F.mun a b) := by
  have hm := H.mun_eq
  have hq := H.q_ge
  obtain ⟨ha1, ha2⟩ := ha
  obtain ⟨hb1, hb2⟩ := hb
  unfold MUL Canon
  by_cases h0 : a = 0 ∨ b = 0
  · simp only [h0, ↓reduceIte, H.elt_zero]
    refine ⟨?_, by omega, by omega⟩
    rcases h0 with h | h <;> simp [h, H.elt_zero]
  · simp only [h0, ↓reduceIte]
    have ha0 : a ≠ 0 := fun h => h0 (Or.inl h)
    have hb0 : b ≠ 0 := fun h => h0 (Or.inr h)
    rw [elt_g H a (by omega) ha2, elt_g H b (by omega) hb2, ← g_add]
    split <;> refine ⟨?_, by omega, by omega⟩ <;> rw [elt_g H _ (by omega) (by omega)] <;> gc H

/-- `inv(a) * a = 1` for every non-zero `a` -/
theorem INV_correct (a : Int) (ha : Canon q a) (ha0 : a ≠ 0) :
    elt (INV F.mun a) * elt a = 1 ∧ Canon q (INV F.mun a) ∧ INV F.mun a ≠ 0 := by
  have hm := H.mun_eq
  have hq := H.q_ge
  obtain ⟨ha1, ha2⟩ := ha
  unfold INV Canon
  simp only []
  rw [elt_g H a (by omega) ha2, ← g_zero H]
  split <;> refine ⟨?_, ⟨by omega, by omega⟩, by omega⟩ <;> rw [elt_g H _ (by omega) (by omega), ← g_add] <;> gc H

/-- `div(a,b) * b = a` for every non-zero `b` -/
theorem DIV_correct (a b : Int) (ha : Canon q a) (hb : Canon q b) (hb0 : b ≠ 0) :
    elt (DIV F.mun a b) * elt b = elt a ∧ Canon q (DIV F.mun a b) := by
  have hm := H.mun_eq
  have hq := H.q_ge
  obtain ⟨ha1, ha2⟩ := ha
  obtain ⟨hb1, hb2⟩ := hb
  unfold DIV Canon
  by_cases ha0 : a = 0
  · simp only [ha0, ↓reduceIte, H.elt_zero, zero_mul]; exact ⟨trivial, by omega, by omega⟩
  simp only [ha0, ↓reduceIte]
  rw [elt_g H a (by omega) ha2, elt_g H b (by omega) hb2]
  split <;> refine ⟨?_, by omega, by omega⟩ <;> rw [elt_g H _ (by omega) (by omega), ← g_add] <;> gc H

theorem SQ_correct (a : Int) (ha : Canon q a) :
    elt (SQ F.mun a) = elt a * elt a ∧ Canon q (SQ F.mun a) := by
  have hm := H.mun_eq
  have hq := H.q_ge
  obtain ⟨ha1, ha2⟩ := ha
  unfold SQ Canon
  by_cases ha0 : a = 0
  · simp only [ha0, ↓reduceIte, H.elt_zero, zero_mul]; exact ⟨trivial, by omega, by omega⟩
  simp only [ha0, ↓reduceIte]
  rw [elt_g H a (by omega) ha2, ← g_add]
  split <;> refine ⟨?_, by omega, by omega⟩ <;> rw [elt_g H _ (by omega) (by omega)] <;> gc H

theorem MULADD_correct (a1 a2 b : Int) (h1 : Canon q a1) (h2 : Canon q a2) (hb : Canon q b) :
    elt (MULADD F.mun F.pl a1 a2 b) = elt a1 * elt a2 + elt b ∧ Canon q (MULADD F.mun F.pl a1 a2 b) := by
  have hm := H.mun_eq
  have hq := H.q_ge
  by_cases h0 : a1 = 0 ∨ a2 = 0
  · unfold MULADD; simp only [h0, ↓reduceIte]
    refine ⟨?_, hb⟩
    rcases h0 with h | h <;> simp [h, H.elt_zero]
  have h10 : a1 ≠ 0 := fun h => h0 (Or.inl h)
  have h20 : a2 ≠ 0 := fun h => h0 (Or.inr h)
  obtain ⟨h11, h12⟩ := h1
  obtain ⟨h21, h22⟩ := h2
  obtain ⟨hb1, hb2⟩ := hb
  by_cases hb0 : b = 0
  · unfold MULADD Canon; simp only [h0, hb0, ↓reduceIte, H.elt_zero, add_zero]
    rw [elt_g H a1 (by omega) h12, elt_g H a2 (by omega) h22, ← g_add]
    split <;> refine ⟨?_, by omega, by omega⟩ <;> rw [elt_g H _ (by omega) (by omega)] <;> gc H
  rw [MULADD_eq_tail F a1 a2 b h10 h20 hb0]
  generalize hxd : wrapPos F.mun (if a1 + a2 - b - F.mun < 0 then a1 + a2 - b - F.mun + F.mun else a1 + a2 - b - F.mun) = x
  have hx : 1 ≤ x ∧ x ≤ q - 1 := by rw [← hxd]; unfold wrapPos; (repeat' split) <;> omega
  have hg : H.g x * H.g b = H.g a1 * H.g a2 := by
    rw [← g_add, ← g_add, ← hxd]; unfold wrapPos; (repeat' split) <;> gc H
  obtain ⟨e, c⟩ := tail_correct H x b hx.1 hx.2 (by omega) hb2
  refine ⟨?_, c⟩
  rw [e, add_mul, hg, one_mul, elt_g H a1 (by omega) h12, elt_g H a2 (by omega) h22, elt_g H b (by omega) hb2]

end
end Givaro.Lemmas.GFqZech
