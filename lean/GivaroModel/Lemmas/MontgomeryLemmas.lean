/-
Helper lemmas for C07: classical Montgomery reduction (REDC) for an arbitrary radix `B`, the representation
invariant, and the bridge lemmas from the transcribed word-level code to the pure reduction.
-/
import GivaroModel.Model.Montgomery
import GivaroModel.Spec.MontgomerySpec
import Mathlib.Tactic.Ring
import Mathlib.Tactic.Linarith
import Mathlib.Tactic.LinearCombination
import Mathlib.Tactic.NormNum
import Mathlib.Data.Int.ModEq
import Mathlib.Data.Int.GCD
import Mathlib.RingTheory.Coprime.Basic
import Mathlib.RingTheory.Coprime.Lemmas
import Mathlib.Algebra.Group.Int.Units

namespace Givaro.Lemmas.Montgomery
open Givaro Givaro.Model.Montgomery Givaro.Spec.Montgomery

/-- the reduction without machine words: `m = (c mod B)·nim mod B; t = (c + m p)/B; t ≥ p ? t - p : t` -/
def redcPure (B p nim c : Int) : Int :=
  let m := ((c % B) * nim) % B
  let t := (c + m * p) / B
  if t ≥ p then t - p else t

section generic
variable {B p nim : Int}

/-- `nim·p ≡ -1 (mod B)` makes `p` and `B` coprime -/
theorem coprime_of_nim (hnim : (nim * p) % B = B - 1) : IsCoprime p B := by
  have h := Int.emod_add_mul_ediv (nim * p) B
  refine ⟨-nim, (nim * p) / B + 1, ?_⟩
  rw [hnim] at h
  linear_combination h

theorem cancel_radix (hnim : (nim * p) % B = B - 1) {u v : Int} (h : p ∣ (u - v) * B) : p ∣ u - v :=
  (coprime_of_nim hnim).dvd_of_dvd_mul_right h

/-- `c + m p` is a multiple of `B` -/
theorem redc_dvd (hnim : (nim * p) % B = B - 1) (c : Int) :
    B ∣ c + ((c % B) * nim) % B * p := by
  have h1 := Int.emod_add_mul_ediv (nim * p) B
  have h2 := Int.emod_add_mul_ediv c B
  have h3 := Int.emod_add_mul_ediv ((c % B) * nim) B
  rw [hnim] at h1
  refine ⟨c / B + (c % B) * ((nim * p) / B + 1) - ((c % B) * nim) / B * p, ?_⟩
  linear_combination (-1 : Int) * h2 + (-(c % B)) * h1 + p * h3

/-- REDC: for `0 ≤ c < p·B` the result is in `[0, p)` and is `c·B⁻¹` modulo `p` -/
theorem redcPure_spec (hB : 0 < B) (hp : 0 < p) (hnim : (nim * p) % B = B - 1)
    {c : Int} (hc0 : 0 ≤ c) (hc : c < p * B) :
    0 ≤ redcPure B p nim c ∧ redcPure B p nim c < p ∧ p ∣ c - redcPure B p nim c * B := by
  obtain ⟨t, ht⟩ := redc_dvd hnim c
  have hm0 : 0 ≤ ((c % B) * nim) % B := Int.emod_nonneg _ (by omega)
  have hmB : ((c % B) * nim) % B < B := Int.emod_lt_of_pos _ hB
  have hdiv : (c + ((c % B) * nim) % B * p) / B = t := by
    rw [ht]; exact Int.mul_ediv_cancel_left _ (by omega)
  have hmp0 : 0 ≤ ((c % B) * nim) % B * p := Int.mul_nonneg hm0 (by omega)
  have hmpB : ((c % B) * nim) % B * p < B * p := by
    apply Int.mul_lt_mul_of_pos_right hmB hp
  have ht0 : 0 ≤ t := by
    by_contra hneg
    have : B * t < 0 := by
      have : t ≤ -1 := by omega
      nlinarith
    omega
  have ht2 : t < 2 * p := by
    by_contra hge
    have : B * (2 * p) ≤ B * t := Int.mul_le_mul_of_nonneg_left (by omega) (by omega)
    nlinarith
  unfold redcPure
  simp only [hdiv]
  split
  · refine ⟨by omega, by omega, ?_⟩
    refine ⟨B - ((c % B) * nim) % B, ?_⟩
    linear_combination ht
  · refine ⟨by omega, by omega, ?_⟩
    refine ⟨-(((c % B) * nim) % B), ?_⟩
    linear_combination ht

end generic

/-! ## Montgomery<int32_t>: the word-level code computes the pure reduction -/

/-- admissible ring object of `Montgomery<int32_t>`: odd-modulus bound and the defining property of `_nim` -/
structure Adm32 (F : Ring32) : Prop where
  p3 : 3 ≤ F.p
  pmax : F.p ≤ 40503
  nim0 : 0 ≤ F.nim
  nimB : F.nim < 65536
  nimp : (F.nim * F.p) % 65536 = 65535

theorem wrapU32_id {x : Int} (h0 : 0 ≤ x) (h1 : x < 4294967296) : wrapU32 x = x := Int.emod_eq_of_lt h0 h1

theorem redc_eq_pure {F : Ring32} (h : Adm32 F) {c : Int} (hc0 : 0 ≤ c) (hc : c ≤ (F.p - 1) * (F.p - 1)) :
    redc F c = redcPure 65536 F.p F.nim c := by
  obtain ⟨p3, pmax, nim0, nimB, nimp⟩ := h
  have hr0 := Int.emod_nonneg c (show (65536:Int) ≠ 0 by decide)
  have hr1 := Int.emod_lt_of_pos c (show (0:Int) < 65536 by decide)
  have hrn0 : 0 ≤ c % 65536 * F.nim := Int.mul_nonneg hr0 nim0
  have hrn1 : c % 65536 * F.nim ≤ 65535 * 65535 := Int.mul_le_mul (by omega) (by omega) nim0 (by decide)
  have hm0 := Int.emod_nonneg (c % 65536 * F.nim) (show (65536:Int) ≠ 0 by decide)
  have hm1 := Int.emod_lt_of_pos (c % 65536 * F.nim) (show (0:Int) < 65536 by decide)
  have hmp0 : 0 ≤ c % 65536 * F.nim % 65536 * F.p := Int.mul_nonneg hm0 (by omega)
  have hmp1 : c % 65536 * F.nim % 65536 * F.p ≤ 65535 * 40503 := Int.mul_le_mul (by omega) pmax (by omega) (by decide)
  have hcc : (F.p - 1) * (F.p - 1) ≤ 40502 * 40502 := Int.mul_le_mul (by omega) (by omega) (by omega) (by decide)
  have e1 : wrapU32 (c % 65536 * F.nim) = c % 65536 * F.nim := wrapU32_id hrn0 (by omega)
  have e2 : wrapU32 (c % 65536 * F.nim % 65536 * F.p) = c % 65536 * F.nim % 65536 * F.p := wrapU32_id hmp0 (by omega)
  have e3 : wrapU32 (c % 65536 * F.nim % 65536 * F.p + c) = c + c % 65536 * F.nim % 65536 * F.p := by
    rw [wrapU32_id (by omega) (by omega)]; omega
  unfold redc redcPure condSub
  simp only [e1, e2, e3]
  split
  · rw [wrapU32_id (by omega) (by omega)]
  · rfl
theorem low16_mul (c nim : Int) : wrapU32 (c * nim) % 65536 = c % 65536 * nim % 65536 := by
  unfold wrapU32
  rw [Int.emod_emod_of_dvd _ (by decide : (65536:Int) ∣ 4294967296)]
  exact ((Int.mod_modEq c 65536).mul_right nim).symm

theorem redcal_eq_pure {F : Ring32} (h : Adm32 F) {c : Int} (hc0 : 0 ≤ c) (hc : c ≤ (F.p - 1) * (F.p - 1)) :
    redcal F c = redcPure 65536 F.p F.nim c := by
  obtain ⟨p3, pmax, nim0, nimB, nimp⟩ := h
  have hr0 := Int.emod_nonneg c (show (65536:Int) ≠ 0 by decide)
  have hr1 := Int.emod_lt_of_pos c (show (0:Int) < 65536 by decide)
  have hrn0 : 0 ≤ c % 65536 * F.nim := Int.mul_nonneg hr0 nim0
  have hrn1 : c % 65536 * F.nim ≤ 65535 * 65535 := Int.mul_le_mul (by omega) (by omega) nim0 (by decide)
  have hm0 := Int.emod_nonneg (c % 65536 * F.nim) (show (65536:Int) ≠ 0 by decide)
  have hm1 := Int.emod_lt_of_pos (c % 65536 * F.nim) (show (0:Int) < 65536 by decide)
  have hmp0 : 0 ≤ c % 65536 * F.nim % 65536 * F.p := Int.mul_nonneg hm0 (by omega)
  have hmp1 : c % 65536 * F.nim % 65536 * F.p ≤ 65535 * 40503 := Int.mul_le_mul (by omega) pmax (by omega) (by decide)
  have hcc : (F.p - 1) * (F.p - 1) ≤ 40502 * 40502 := Int.mul_le_mul (by omega) (by omega) (by omega) (by decide)
  have e1 : wrapU32 (c % 65536 * F.nim) = c % 65536 * F.nim := wrapU32_id hrn0 (by omega)
  have e2 : wrapU32 (c % 65536 * F.nim % 65536 * F.p) = c % 65536 * F.nim % 65536 * F.p := wrapU32_id hmp0 (by omega)
  have e3 : wrapU32 (c + c % 65536 * F.nim % 65536 * F.p) = c + c % 65536 * F.nim % 65536 * F.p :=
    wrapU32_id (by omega) (by omega)
  unfold redcal redcPure condSub
  simp only [e1, e2, e3]
  split
  · rw [wrapU32_id (by omega) (by omega)]
  · rfl

theorem redcsal_eq_pure {F : Ring32} (h : Adm32 F) {c : Int} (hc0 : 0 ≤ c) (hc : c ≤ (F.p - 1) * (F.p - 1)) :
    redcsal F c = redcPure 65536 F.p F.nim c := by
  rw [← redcal_eq_pure h hc0 hc]
  unfold redcsal redcal
  simp only [low16_mul, Int.emod_emod]

theorem redcs_eq_redcsal (F : Ring32) (c : Int) : redcs F c = redcsal F c := rfl
theorem redcin_eq_redcal (F : Ring32) (c : Int) : redcin F c = redcal F c := rfl
theorem redcsin_eq_redcsal (F : Ring32) (c : Int) : redcsin F c = redcsal F c := rfl
/-! ## extended_euclid -/
def sg (neg : Bool) : Int := if neg then -1 else 1

theorem sg_not (n : Bool) : sg (!n) = - sg n := by cases n <;> simp [sg]

/-- The loop invariant of `extended_euclid` (the one written in the source's comment, plus the continuant identity
    `u1·d + u0·r1 = b` that bounds every intermediate by `b`, so that no conversion to `Storage_t` changes a value). -/
theorem eeLoop_spec (wrap : Int → Int) (dv : Int → Int → Int) (a b : Int)
    (hw : ∀ x, 0 ≤ x → x ≤ b → wrap x = x) (hd : ∀ x y, 0 ≤ x → 0 < y → dv x y = x / y) :
    ∀ (fuel : Nat) (u0 u1 r1 d : Int) (neg : Bool),
      0 ≤ u0 → u0 ≤ b → 0 ≤ u1 → 0 ≤ r1 → r1 < d → d ≤ b → r1 < fuel →
      u1 * d + u0 * r1 = b → b ∣ u0 * a - sg neg * d → b ∣ u1 * a + sg neg * r1 → IsCoprime r1 d →
      0 ≤ (eeLoop wrap dv fuel u0 u1 r1 d neg).1 ∧ (eeLoop wrap dv fuel u0 u1 r1 d neg).1 ≤ b ∧
      (eeLoop wrap dv fuel u0 u1 r1 d neg).2.1 = 1 ∧
      b ∣ (eeLoop wrap dv fuel u0 u1 r1 d neg).1 * a - sg (eeLoop wrap dv fuel u0 u1 r1 d neg).2.2 := by
  intro fuel
  induction fuel with
  | zero => intro u0 u1 r1 d neg _ _ _ h3 _ _ h6; omega
  | succ n ih =>
    intro u0 u1 r1 d neg h1 h1b h2 h3 h4 h5 h6 h7 h8 h9 h10
    unfold eeLoop
    by_cases hr : r1 = 0
    · simp only [hr, ↓reduceIte]
      subst hr
      have hd1 : d = 1 := by
        have := isCoprime_zero_left.mp h10
        rcases Int.isUnit_iff.mp this with h | h <;> omega
      subst hd1
      refine ⟨h1, h1b, rfl, ?_⟩
      simpa using h8
    · have hr1 : 0 < r1 := by omega
      have e1 : dv d r1 = d / r1 := hd d r1 (by omega) hr1
      have hq0 : 0 ≤ d / r1 := Int.ediv_nonneg (by omega) (by omega)
      have hdm : d % r1 + r1 * (d / r1) = d := Int.emod_add_mul_ediv d r1
      have hm0 : 0 ≤ d % r1 := Int.emod_nonneg d (by omega)
      have hm1 : d % r1 < r1 := Int.emod_lt_of_pos d hr1
      have hqu : 0 ≤ d / r1 * u1 := Int.mul_nonneg hq0 h2
      have hcont : (d / r1 * u1 + u0) * r1 + u1 * (d % r1) = b := by linear_combination h7 + u1 * hdm
      have hum : 0 ≤ u1 * (d % r1) := Int.mul_nonneg h2 hm0
      have hu1n : d / r1 * u1 + u0 ≤ b := by nlinarith
      have hu1b : u1 ≤ b := by
        have : 0 ≤ u0 * r1 := Int.mul_nonneg h1 h3
        nlinarith
      have hqr : d / r1 * r1 = d - d % r1 := by linear_combination hdm
      have e2 : wrap (d / r1 * u1) = d / r1 * u1 := hw _ hqu (by omega)
      have e3 : wrap (d / r1 * u1 + u0) = d / r1 * u1 + u0 := hw _ (by omega) hu1n
      have e4 : wrap (d / r1 * r1) = d / r1 * r1 := hw _ (by omega) (by omega)
      have e5 : wrap (d - d / r1 * r1) = d % r1 := by rw [hqr]; rw [hw _ (by omega) (by omega)]; omega
      simp only [hr, ↓reduceIte, e1, e2, e3, e4, e5]
      apply ih u1 (d / r1 * u1 + u0) (d % r1) r1 (!neg) h2 hu1b (by omega) hm0 hm1 (by omega) (by omega) hcont
      · rw [sg_not]; simpa [sub_neg_eq_add] using h9
      · rw [sg_not]
        obtain ⟨k8, hk8⟩ := h8
        obtain ⟨k9, hk9⟩ := h9
        refine ⟨d / r1 * k9 + k8, ?_⟩
        linear_combination (d / r1) * hk9 + hk8 - sg neg * hdm
      · have := h10.symm.add_mul_left_left (-(d / r1))
        have e : d + r1 * -(d / r1) = d % r1 := by linear_combination -hdm
        rwa [e] at this
/-- `extended_euclid(x, d, a, b)` for `0 ≤ a < b`, `a` invertible modulo `b`: `d = 1`, `0 ≤ x ≤ b`, `x·a ≡ 1 (mod b)` -/
theorem extendedEuclid_spec (wrap : Int → Int) (dv : Int → Int → Int) (a b : Int)
    (hw : ∀ x, 0 ≤ x → x ≤ b → wrap x = x) (hd : ∀ x y, 0 ≤ x → 0 < y → dv x y = x / y)
    (ha0 : 0 ≤ a) (hab : a < b) (hcop : IsCoprime a b) :
    0 ≤ (extendedEuclid wrap dv a b).1 ∧ (extendedEuclid wrap dv a b).1 ≤ b ∧
    (extendedEuclid wrap dv a b).2 = 1 ∧ b ∣ (extendedEuclid wrap dv a b).1 * a - 1 := by
  have hfuel : a < ((a.toNat + 2 : Nat) : Int) := by
    have := Int.toNat_of_nonneg ha0; omega
  obtain ⟨s1, s2, s3, s4⟩ := eeLoop_spec wrap dv a b hw hd (a.toNat + 2) 0 1 a b true (le_refl 0) (by omega) (by omega) ha0 hab
    (le_refl b) hfuel (by ring) (by simp [sg]) (by simp [sg]) hcop
  unfold extendedEuclid
  simp only
  generalize eeLoop wrap dv (a.toNat + 2) 0 1 a b true = s at s1 s2 s3 s4
  obtain ⟨u0, d, neg⟩ := s
  simp only at s1 s2 s3 s4 ⊢
  refine ⟨?_, ?_, s3, ?_⟩
  · split
    · rw [hw _ (by omega) (by omega)]; omega
    · exact s1
  · split
    · rw [hw _ (by omega) (by omega)]; omega
    · exact s2
  · split
    · rename_i h
      rw [hw _ (by omega) (by omega)]
      obtain ⟨k, hk⟩ := s4
      simp only [h.1, sg, ↓reduceIte] at hk
      exact ⟨a - k, by linear_combination -hk⟩
    · rename_i h
      cases neg with
      | false => simpa [sg] using s4
      | true =>
        have hu : u0 = 0 := by
          by_contra hne
          exact h ⟨rfl, by omega⟩
        subst hu
        obtain ⟨k, hk⟩ := s4
        simp only [sg, ↓reduceIte] at hk
        exact ⟨-k, by linear_combination -hk⟩

theorem invextU32_spec (a b : Int) (ha0 : 0 ≤ a) (hab : a < b) (hb : b < 4294967296) (hcop : IsCoprime a b) :
    0 ≤ invextU32 a b ∧ invextU32 a b ≤ b ∧ b ∣ invextU32 a b * a - 1 := by
  have := extendedEuclid_spec wrapU32 (fun x y => x / y) a b (fun x h0 h1 => wrapU32_id h0 (by omega)) (fun _ _ _ _ => rfl) ha0 hab hcop
  exact ⟨this.1, this.2.1, this.2.2.2⟩

theorem invextS32_spec (a b : Int) (ha0 : 0 ≤ a) (hab : a < b) (hb : b < 2147483648) (hcop : IsCoprime a b) :
    0 ≤ invextS32 a b ∧ invextS32 a b ≤ b ∧ b ∣ invextS32 a b * a - 1 ∧ (extendedEuclid wrapS32 Int.tdiv a b).2 = 1 := by
  have := extendedEuclid_spec wrapS32 Int.tdiv a b (fun x h0 h1 => by unfold wrapS32; omega)
    (fun x y hx _ => Int.tdiv_eq_ediv_of_nonneg hx) ha0 hab hcop
  exact ⟨this.1, this.2.1, this.2.2.2, this.2.2.1⟩
/-! ## the representation invariant under the pure operations (any radix) -/
theorem isRep_iff {M p x a : Int} : IsRep M p x a ↔ 0 ≤ x ∧ x < p ∧ p ∣ a * M - x := by
  unfold IsRep
  constructor
  · rintro ⟨h0, h1, h2⟩; exact ⟨h0, h1, (Int.modEq_iff_dvd).mp h2⟩
  · rintro ⟨h0, h1, h2⟩; exact ⟨h0, h1, (Int.modEq_iff_dvd).mpr h2⟩

section rep
variable {B p nim : Int}

/-- value of a representative: `x` represents `a` and `0 ≤ v < p`, `v·B ≡ x` ⇒ `v = a mod p` -/
theorem rep_value (_hp : 0 < p) (hnim : (nim * p) % B = B - 1) {x a v : Int} (hx : IsRep B p x a)
    (hv0 : 0 ≤ v) (hv1 : v < p) (hv : p ∣ x - v * B) : v = a % p := by
  obtain ⟨_, _, k, hk⟩ := isRep_iff.mp hx
  obtain ⟨j, hj⟩ := hv
  have h : p ∣ a - v := cancel_radix hnim ⟨k + j, by linear_combination hk + hj⟩
  have h2 : a % p = v % p := (Int.modEq_iff_dvd).mpr (by
    obtain ⟨m, hm⟩ := h; exact ⟨-m, by linear_combination -hm⟩)
  rw [h2, Int.emod_eq_of_lt hv0 hv1]

/-- conversion out: `REDC(x) = a mod p` -/
theorem rep_convert (hB : 0 < B) (hp : 0 < p) (hnim : (nim * p) % B = B - 1) {x a : Int} (hx : IsRep B p x a) :
    redcPure B p nim x = a % p := by
  have hx' := isRep_iff.mp hx
  have hlt : x < p * B := by nlinarith [hx'.1, hx'.2.1]
  obtain ⟨r0, r1, r2⟩ := redcPure_spec hB hp hnim hx'.1 hlt
  exact rep_value hp hnim hx r0 r1 r2

/-- product: `REDC(x·y)` represents `a·b` -/
theorem rep_mul (hB : 0 < B) (hp : 0 < p) (hpB : p ≤ B) (hnim : (nim * p) % B = B - 1) {x y a b : Int}
    (hx : IsRep B p x a) (hy : IsRep B p y b) : IsRep B p (redcPure B p nim (x * y)) (a * b) := by
  obtain ⟨x0, x1, k1, h1⟩ := isRep_iff.mp hx
  obtain ⟨y0, y1, k2, h2⟩ := isRep_iff.mp hy
  have hxy0 : 0 ≤ x * y := Int.mul_nonneg x0 y0
  have hxy1 : x * y < p * B := by nlinarith
  obtain ⟨r0, r1, k3, h3⟩ := redcPure_spec hB hp hnim hxy0 hxy1
  refine isRep_iff.mpr ⟨r0, r1, ?_⟩
  apply cancel_radix hnim
  refine ⟨k3 + k1 * b * B + k2 * a * B - p * k1 * k2, ?_⟩
  linear_combination h3 + (b * B - p * k2) * h1 + x * h2

/-- entering Montgomery form: `REDC(v·B2)` with `B2 ≡ B² (mod p)` represents `v` -/
theorem rep_init (hB : 0 < B) (hp : 0 < p) (hpB : p ≤ B) (hnim : (nim * p) % B = B - 1) {B2 v : Int}
    (hB20 : 0 ≤ B2) (hB21 : B2 < p) (hB2 : p ∣ B * B - B2) (hv0 : 0 ≤ v) (hv1 : v < p) :
    IsRep B p (redcPure B p nim (v * B2)) v := by
  have hc0 : 0 ≤ v * B2 := Int.mul_nonneg hv0 hB20
  have hc1 : v * B2 < p * B := by nlinarith
  obtain ⟨r0, r1, k3, h3⟩ := redcPure_spec hB hp hnim hc0 hc1
  obtain ⟨k, hk⟩ := hB2
  refine isRep_iff.mpr ⟨r0, r1, ?_⟩
  apply cancel_radix hnim
  exact ⟨k3 + v * k, by linear_combination h3 + v * hk⟩

/-- a value congruent to `x + y`, resp. `x - y`, `-x`, in `[0, p)` represents the sum, difference, opposite -/
theorem rep_add {x y a b s : Int} (hx : IsRep B p x a) (hy : IsRep B p y b) (hs0 : 0 ≤ s) (hs1 : s < p)
    (hs : s = x + y ∨ s = x + y - p) : IsRep B p s (a + b) := by
  obtain ⟨_, _, k1, h1⟩ := isRep_iff.mp hx
  obtain ⟨_, _, k2, h2⟩ := isRep_iff.mp hy
  refine isRep_iff.mpr ⟨hs0, hs1, ?_⟩
  rcases hs with h | h
  · exact ⟨k1 + k2, by rw [h]; linear_combination h1 + h2⟩
  · exact ⟨k1 + k2 + 1, by rw [h]; linear_combination h1 + h2⟩

theorem rep_sub {x y a b s : Int} (hx : IsRep B p x a) (hy : IsRep B p y b) (hs0 : 0 ≤ s) (hs1 : s < p)
    (hs : s = x - y ∨ s = x - y + p) : IsRep B p s (a - b) := by
  obtain ⟨_, _, k1, h1⟩ := isRep_iff.mp hx
  obtain ⟨_, _, k2, h2⟩ := isRep_iff.mp hy
  refine isRep_iff.mpr ⟨hs0, hs1, ?_⟩
  rcases hs with h | h
  · exact ⟨k1 - k2, by rw [h]; linear_combination h1 - h2⟩
  · exact ⟨k1 - k2 - 1, by rw [h]; linear_combination h1 - h2⟩

theorem rep_neg {x a s : Int} (hx : IsRep B p x a) (hs0 : 0 ≤ s) (hs1 : s < p)
    (hs : s = -x ∨ s = p - x) : IsRep B p s (-a) := by
  obtain ⟨_, _, k1, h1⟩ := isRep_iff.mp hx
  refine isRep_iff.mpr ⟨hs0, hs1, ?_⟩
  rcases hs with h | h
  · exact ⟨-k1, by rw [h]; linear_combination -h1⟩
  · exact ⟨-k1 - 1, by rw [h]; linear_combination -h1⟩

end rep
theorem rep_congr_val {B p s a a' : Int} (hs : IsRep B p s a) (h : p ∣ a - a') : IsRep B p s a' := by
  obtain ⟨s0, s1, k, hk⟩ := isRep_iff.mp hs
  obtain ⟨j, hj⟩ := h
  exact isRep_iff.mpr ⟨s0, s1, k - j * B, by linear_combination hk - B * hj⟩

/-! ## Montgomery<int32_t>: every operation preserves the representation invariant -/

/-- ring object whose derived constants are exact -/
structure Good32 (F : Ring32) : Prop extends Adm32 F where
  b2_0 : 0 ≤ F.B2p
  b2_1 : F.B2p < F.p
  b2 : F.p ∣ 65536 * 65536 - F.B2p
  b3_0 : 0 ≤ F.B3p
  b3_1 : F.B3p < F.p
  b3 : F.p ∣ 65536 * 65536 * 65536 - F.B3p

abbrev Rep32 (F : Ring32) (x a : Int) : Prop := IsRep 65536 F.p x a

section ops32
variable {F : Ring32}

theorem sq_bound (h : Adm32 F) {x y : Int} (x0 : 0 ≤ x) (x1 : x < F.p) (y0 : 0 ≤ y) (y1 : y < F.p) :
    0 ≤ x * y ∧ x * y ≤ (F.p - 1) * (F.p - 1) ∧ x * y < 4294967296 := by
  have := h.p3; have := h.pmax
  have h1 : x * y ≤ (F.p - 1) * (F.p - 1) := Int.mul_le_mul (by omega) (by omega) y0 (by omega)
  have h2 : (F.p - 1) * (F.p - 1) ≤ 40502 * 40502 := Int.mul_le_mul (by omega) (by omega) (by omega) (by decide)
  exact ⟨Int.mul_nonneg x0 y0, h1, by omega⟩

theorem mul32_eq_pure (h : Adm32 F) {x y : Int} (x0 : 0 ≤ x) (x1 : x < F.p) (y0 : 0 ≤ y) (y1 : y < F.p) :
    mul32 F x y = redcPure 65536 F.p F.nim (x * y) := by
  obtain ⟨b0, b1, b2⟩ := sq_bound h x0 x1 y0 y1
  unfold mul32; rw [wrapU32_id b0 b2, redc_eq_pure h b0 b1]

theorem mulal_eq_mul32 (h : Adm32 F) {x y : Int} (x0 : 0 ≤ x) (x1 : x < F.p) (y0 : 0 ≤ y) (y1 : y < F.p) :
    redcal F (wrapU32 (x * y)) = mul32 F x y := by
  obtain ⟨b0, b1, b2⟩ := sq_bound h x0 x1 y0 y1
  rw [mul32_eq_pure h x0 x1 y0 y1, wrapU32_id b0 b2, redcal_eq_pure h b0 b1]

theorem mul32_rep (h : Adm32 F) {x y a b : Int} (hx : Rep32 F x a) (hy : Rep32 F y b) : Rep32 F (mul32 F x y) (a * b) := by
  have := h.p3; have := h.pmax
  rw [mul32_eq_pure h hx.1 hx.2.1 hy.1 hy.2.1]
  exact rep_mul (by decide) (by omega) (by omega) h.nimp hx hy

theorem mulin32_eq_mul32 (h : Adm32 F) {x y : Int} (x0 : 0 ≤ x) (x1 : x < F.p) (y0 : 0 ≤ y) (y1 : y < F.p) :
    mulin32 F x y = mul32 F x y := by
  unfold mulin32; rw [redcin_eq_redcal, mulal_eq_mul32 h x0 x1 y0 y1]

theorem add32_rep (h : Adm32 F) {x y a b : Int} (hx : Rep32 F x a) (hy : Rep32 F y b) : Rep32 F (add32 F x y) (a + b) := by
  have := h.p3; have := h.pmax; have := hx.1; have := hx.2.1; have := hy.1; have := hy.2.1
  apply rep_add hx hy <;> (unfold add32 wrapU32; simp only; split <;> omega)

theorem sub32_rep (h : Adm32 F) {x y a b : Int} (hx : Rep32 F x a) (hy : Rep32 F y b) : Rep32 F (sub32 F x y) (a - b) := by
  have := h.p3; have := h.pmax; have := hx.1; have := hx.2.1; have := hy.1; have := hy.2.1
  apply rep_sub hx hy <;> (unfold sub32 wrapU32; split <;> omega)

theorem subin32_rep (h : Adm32 F) {x y a b : Int} (hx : Rep32 F x a) (hy : Rep32 F y b) : Rep32 F (subin32 F x y) (a - b) := by
  have := h.p3; have := h.pmax; have := hx.1; have := hx.2.1; have := hy.1; have := hy.2.1
  apply rep_sub hx hy <;> (unfold subin32 wrapU32; split <;> omega)

theorem neg32_rep (h : Adm32 F) {x a : Int} (hx : Rep32 F x a) : Rep32 F (neg32 F x) (-a) := by
  have := h.p3; have := h.pmax; have := hx.1; have := hx.2.1
  apply rep_neg hx <;> (unfold neg32 wrapU32; split <;> omega)

theorem axpy32_rep (h : Adm32 F) {x y z a b c : Int} (hx : Rep32 F x a) (hy : Rep32 F y b) (hz : Rep32 F z c) :
    Rep32 F (axpy32 F x y z) (a * b + c) := by
  have e : axpy32 F x y z = add32 F (redcal F (wrapU32 (x * y))) z := rfl
  rw [e, mulal_eq_mul32 h hx.1 hx.2.1 hy.1 hy.2.1]
  exact add32_rep h (mul32_rep h hx hy) hz

theorem axpyin32_rep (h : Adm32 F) {r x y c a b : Int} (hr : Rep32 F r c) (hx : Rep32 F x a) (hy : Rep32 F y b) :
    Rep32 F (axpyin32 F r x y) (c + a * b) := by
  have e : axpyin32 F r x y = add32 F r (redcal F (wrapU32 (x * y))) := rfl
  rw [e, mulal_eq_mul32 h hx.1 hx.2.1 hy.1 hy.2.1]
  exact add32_rep h hr (mul32_rep h hx hy)

theorem axmy32_rep (h : Adm32 F) {x y z a b c : Int} (hx : Rep32 F x a) (hy : Rep32 F y b) (hz : Rep32 F z c) :
    Rep32 F (axmy32 F x y z) (a * b - c) := subin32_rep h (mul32_rep h hx hy) hz

theorem maxpy32_rep (h : Adm32 F) {x y z a b c : Int} (hx : Rep32 F x a) (hy : Rep32 F y b) (hz : Rep32 F z c) :
    Rep32 F (maxpy32 F x y z) (c - a * b) := sub32_rep h hz (mul32_rep h hx hy)

theorem maxpyin32_rep (h : Adm32 F) {r x y c a b : Int} (hr : Rep32 F r c) (hx : Rep32 F x a) (hy : Rep32 F y b) :
    Rep32 F (maxpyin32 F r x y) (c - a * b) := subin32_rep h hr (mul32_rep h hx hy)

theorem axmyin32_rep (h : Adm32 F) {r x y c a b : Int} (hr : Rep32 F r c) (hx : Rep32 F x a) (hy : Rep32 F y b) :
    Rep32 F (axmyin32 F r x y) (a * b - c) := by
  have := neg32_rep h (maxpyin32_rep h hr hx hy)
  have e : -(c - a * b) = a * b - c := by ring
  rwa [e] at this

theorem convert32_rep (h : Adm32 F) {x a : Int} (hx : Rep32 F x a) : convert32 F x = a % F.p := by
  have := h.p3; have := h.pmax
  have hb : x ≤ (F.p - 1) * (F.p - 1) := by nlinarith [hx.1, hx.2.1]
  unfold convert32
  rw [redc_eq_pure h hx.1 hb]
  exact rep_convert (by decide) (by omega) h.nimp hx

/-- `REDC(r·B2p)` for a reduced `r` -/
theorem toMg32_rep (h : Good32 F) {r : Int} (r0 : 0 ≤ r) (r1 : r < F.p) :
    Rep32 F (redc F (wrapU32 (r * F.B2p))) r := by
  have := h.p3; have := h.pmax
  obtain ⟨b0, b1, b2⟩ := sq_bound h.toAdm32 r0 r1 h.b2_0 h.b2_1
  rw [wrapU32_id b0 b2, redc_eq_pure h.toAdm32 b0 b1]
  exact rep_init (by decide) (by omega) (by omega) h.nimp h.b2_0 h.b2_1 h.b2 r0 r1

theorem initU64_rep (h : Good32 F) {v : Int} (_hv : 0 ≤ v) : Rep32 F (initU64 F v) v := by
  have := h.p3; have := h.pmax
  have m0 := Int.emod_nonneg v (show F.p ≠ 0 by omega)
  have m1 := Int.emod_lt_of_pos v (show 0 < F.p by omega)
  unfold initU64
  simp only
  rw [wrapU32_id m0 (by omega)]
  refine rep_congr_val (toMg32_rep h m0 m1) ⟨-(v / F.p), ?_⟩
  have := Int.emod_add_mul_ediv v F.p
  linear_combination this

theorem initI64_rep (h : Good32 F) (v : Int) : Rep32 F (initI64 F v) v := by
  have hp3 := h.p3; have hpm := h.pmax
  unfold initI64
  simp only
  by_cases hv : v < 0
  · simp only [hv, ↓reduceIte]
    have m0 := Int.emod_nonneg (-v) (show F.p ≠ 0 by omega)
    have m1 := Int.emod_lt_of_pos (-v) (show 0 < F.p by omega)
    rw [wrapU32_id m0 (by omega)]
    have n0 : 0 ≤ neg32 F (-v % F.p) := by unfold neg32 wrapU32; split <;> omega
    have n1 : neg32 F (-v % F.p) < F.p := by unfold neg32 wrapU32; split <;> omega
    refine rep_congr_val (toMg32_rep h n0 n1) ?_
    have hd := Int.emod_add_mul_ediv (-v) F.p
    have : neg32 F (-v % F.p) = -(-v % F.p) ∨ neg32 F (-v % F.p) = F.p - (-v % F.p) := by
      unfold neg32 wrapU32; split <;> omega
    rcases this with e | e
    · exact ⟨(-v) / F.p, by rw [e]; linear_combination -hd⟩
    · exact ⟨(-v) / F.p + 1, by rw [e]; linear_combination -hd⟩
  · simp only [hv, ↓reduceIte]
    have m0 := Int.emod_nonneg v (show F.p ≠ 0 by omega)
    have m1 := Int.emod_lt_of_pos v (show 0 < F.p by omega)
    rw [wrapU32_id m0 (by omega)]
    refine rep_congr_val (toMg32_rep h m0 m1) ⟨-(v / F.p), ?_⟩
    have := Int.emod_add_mul_ediv v F.p
    linear_combination this

end ops32
theorem coprime_odd_two_pow {p : Int} (hodd : p % 2 = 1) (w : Nat) : IsCoprime p (2 ^ w) := by
  have h2 : IsCoprime p 2 := ⟨1, -(p / 2), by have := Int.emod_add_mul_ediv p 2; omega⟩
  exact IsCoprime.pow_right h2

/-- `inv(r, a)`: the result represents an inverse of the represented residue -/
theorem inv32_rep {F : Ring32} (h : Good32 F) {x a : Int} (hx : Rep32 F x a) (hu : IsCoprime x F.p) :
    ∃ a', F.p ∣ a' * a - 1 ∧ Rep32 F (inv32 F x) a' := by
  have hp3 := h.p3; have hpm := h.pmax
  obtain ⟨x0, x1, k, hk⟩ := isRep_iff.mp hx
  have ex : wrapS32 x = x := by unfold wrapS32; omega
  have ep : wrapS32 F.p = F.p := by unfold wrapS32; omega
  obtain ⟨t0, t1, ⟨j, hj⟩, _⟩ := invextS32_spec x F.p x0 x1 (by omega) hu
  -- 0 < t < p
  have tne0 : invextS32 x F.p ≠ 0 := by
    intro e; rw [e] at hj
    have : F.p ∣ 1 := ⟨-j, by linear_combination -hj⟩
    have := Int.le_of_dvd (by decide) this; omega
  have tnep : invextS32 x F.p ≠ F.p := by
    intro e; rw [e] at hj
    have : F.p ∣ 1 := ⟨x - j, by linear_combination -hj⟩
    have := Int.le_of_dvd (by decide) this; omega
  have tl : invextS32 x F.p < F.p := by omega
  obtain ⟨b0, b1, b2⟩ := sq_bound h.toAdm32 t0 tl h.b3_0 h.b3_1
  refine ⟨invextS32 x F.p * 65536, ⟨invextS32 x F.p * k + j, by linear_combination (invextS32 x F.p) * hk + hj⟩, ?_⟩
  unfold inv32
  simp only [ex, ep]
  rw [if_neg (by omega), wrapU32_id t0 (by omega), wrapU32_id b0 b2, redc_eq_pure h.toAdm32 b0 b1]
  obtain ⟨r0, r1, m, hm⟩ := redcPure_spec (B := 65536) (p := F.p) (nim := F.nim) (by decide) (by omega) h.nimp b0
    (by nlinarith [h.b3_1, tl, t0, h.b3_0])
  obtain ⟨n, hn⟩ := h.b3
  refine isRep_iff.mpr ⟨r0, r1, ?_⟩
  apply cancel_radix h.nimp
  exact ⟨m + invextS32 x F.p * n, by linear_combination hm + (invextS32 x F.p) * hn⟩

/-- the constructor establishes `Good32` for every odd `3 ≤ p ≤ 40503` -/
theorem mk32_good {p : Int} (h3 : 3 ≤ p) (hmax : p ≤ 40503) (hodd : p % 2 = 1) : Good32 (mk32 p) := by
  have hcop : IsCoprime p 65536 := by
    have := coprime_odd_two_pow hodd 16
    norm_num at this; exact this
  obtain ⟨i0, i1, ⟨j, hj⟩⟩ := invextU32_spec p 65536 (by omega) (by omega) (by decide) hcop
  have ine0 : invextU32 p 65536 ≠ 0 := by
    intro e; rw [e] at hj; omega
  have ine1 : invextU32 p 65536 ≠ 65536 := by
    intro e; rw [e] at hj; omega
  have m0 := Int.emod_nonneg 65536 (show p ≠ 0 by omega)
  have m1 := Int.emod_lt_of_pos 65536 (show 0 < p by omega)
  have eBp : wrapU32 (65536 % p) = 65536 % p := wrapU32_id m0 (by omega)
  have hBp := Int.emod_add_mul_ediv 65536 p
  have n0 := Int.emod_nonneg (65536 % p * 65536) (show p ≠ 0 by omega)
  have n1 := Int.emod_lt_of_pos (65536 % p * 65536) (show 0 < p by omega)
  have eB2 : wrapU32 (wrapU32 (65536 % p * 65536) % p) = 65536 % p * 65536 % p := by
    rw [wrapU32_id (x := 65536 % p * 65536) (by omega) (by omega), wrapU32_id n0 (by omega)]
  have hB2 := Int.emod_add_mul_ediv (65536 % p * 65536) p
  have o0 := Int.emod_nonneg (65536 % p * 65536 % p * 65536) (show p ≠ 0 by omega)
  have o1 := Int.emod_lt_of_pos (65536 % p * 65536 % p * 65536) (show 0 < p by omega)
  have eB3 : wrapU32 (wrapU32 (65536 % p * 65536 % p * 65536) % p) = 65536 % p * 65536 % p * 65536 % p := by
    rw [wrapU32_id (x := 65536 % p * 65536 % p * 65536) (by omega) (by omega), wrapU32_id o0 (by omega)]
  have hB3 := Int.emod_add_mul_ediv (65536 % p * 65536 % p * 65536) p
  have enim : wrapU32 (65536 - invextU32 p 65536) = 65536 - invextU32 p 65536 := wrapU32_id (by omega) (by omega)
  refine { p3 := h3, pmax := hmax, nim0 := ?_, nimB := ?_, nimp := ?_, b2_0 := ?_, b2_1 := ?_, b2 := ?_, b3_0 := ?_, b3_1 := ?_, b3 := ?_ }
  all_goals simp only [mk32, eBp, eB2, eB3, enim]
  · omega
  · omega
  · have e : (65536 - invextU32 p 65536) * p = 65536 * p - invextU32 p 65536 * p := by ring
    rw [e]; omega
  · exact n0
  · exact n1
  · exact ⟨65536 / p * 65536 + 65536 % p * 65536 / p, by linear_combination (-65536 : Int) * hBp - hB2⟩
  · exact o0
  · exact o1
  · exact ⟨65536 / p * 65536 * 65536 + 65536 % p * 65536 / p * 65536 + 65536 % p * 65536 % p * 65536 / p,
      by linear_combination (-65536 * 65536 : Int) * hBp - (65536 : Int) * hB2 - hB3⟩
theorem emod_mul_emod' (x b p : Int) : (x % p) * b % p = x * b % p := ((Int.mod_modEq x p).mul_right b)

theorem emod_sub_self' (a p : Int) : (a - p) % p = a % p := by
  have : (a - p) % p = (a + p * (-1)) % p := by ring_nf
  rw [this, Int.add_mul_emod_self_left]

/-! ## RecInt: the word-level reduction (with its carry test) computes the pure reduction -/

theorem emod_unique {R u v : Int} (h0 : 0 ≤ v) (h1 : v < R) (h : R ∣ u - v) : u % R = v := by
  have : v % R = u % R := Int.modEq_iff_dvd.mpr h
  rw [← this, Int.emod_eq_of_lt h0 h1]

/-- admissible RecInt Montgomery context: `0 < p < R`, `p1·p ≡ -1 (mod R)` -/
structure AdmR (C : MgCtx) : Prop where
  p0 : 0 < C.p
  pR : C.p < C.R
  p1p : (C.p1 * C.p) % C.R = C.R - 1

theorem mgReduc_eq_pure {C : MgCtx} (h : AdmR C) {b : Int} (hb0 : 0 ≤ b) (hb : b < C.p * C.R) :
    mgReduc C b = redcPure C.R C.p C.p1 b := by
  obtain ⟨p0, pR, p1p⟩ := h
  have hR : 0 < C.R := by omega
  obtain ⟨T, hT⟩ := redc_dvd p1p b
  have hm0 : 0 ≤ (b % C.R * C.p1) % C.R := Int.emod_nonneg _ (by omega)
  have hmR : (b % C.R * C.p1) % C.R < C.R := Int.emod_lt_of_pos _ hR
  have hmp0 : 0 ≤ (b % C.R * C.p1) % C.R * C.p := Int.mul_nonneg hm0 (by omega)
  have hmp1 : (b % C.R * C.p1) % C.R * C.p < C.R * C.p := Int.mul_lt_mul_of_pos_right hmR p0
  have hdiv : (b + (b % C.R * C.p1) % C.R * C.p) / C.R = T := by rw [hT]; exact Int.mul_ediv_cancel_left _ (by omega)
  have hT0 : 0 ≤ T := by
    by_contra hneg
    have : C.R * T < 0 := by have : T ≤ -1 := by omega
                             nlinarith
    omega
  have hT2 : T < 2 * C.p := by
    by_contra hge
    have : C.R * (2 * C.p) ≤ C.R * T := Int.mul_le_mul_of_nonneg_left (by omega) (by omega)
    nlinarith
  unfold mgReduc redcPure uMul uSub
  simp only
  rw [Int.add_comm ((b % C.R * C.p1) % C.R * C.p) b, ← Int.ediv_ediv_of_nonneg (by omega : 0 ≤ C.R), hdiv]
  by_cases hTR : T < C.R
  · have e1 : T % C.R = T := Int.emod_eq_of_lt hT0 hTR
    have e2 : T / C.R = 0 := Int.ediv_eq_zero_of_lt hT0 hTR
    simp only [e1, e2, ne_eq, not_true_eq_false, decide_false, Bool.false_eq_true, false_or]
    split
    · exact Int.emod_eq_of_lt (by omega) (by omega)
    · rfl
  · have e1 : T % C.R = T - C.R := emod_unique (by omega) (by omega) ⟨1, by ring⟩
    have e2 : T / C.R ≠ 0 := by
      have : 1 ≤ T / C.R := Int.le_ediv_of_mul_le hR (by omega)
      omega
    simp only [e1, e2, ne_eq, not_false_eq_true, decide_true, true_or, ↓reduceIte]
    rw [if_pos (by omega)]
    exact emod_unique (by omega) (by omega) ⟨-1, by ring⟩

/-! ### value of the modular add / sub / neg bodies (shared by `Montgomery<ruint<K>>` and both `rmint` variants) -/
section addsub
variable {C : MgCtx}

theorem addR_val (p0 : 0 < C.p) (pR : C.p < C.R) {x y : Int} (x0 : 0 ≤ x) (x1 : x < C.p) (y0 : 0 ≤ y) (y1 : y < C.p) :
    addR C x y = if x + y ≥ C.p then x + y - C.p else x + y := by
  unfold addR uCarry uAdd uSub
  simp only
  by_cases hc : x + y ≥ C.R
  · have e1 : (x + y) % C.R = x + y - C.R := emod_unique (by omega) (by omega) ⟨1, by ring⟩
    simp only [hc, decide_true, true_or, ↓reduceIte, e1]
    rw [if_pos (by omega)]
    exact emod_unique (by omega) (by omega) ⟨-1, by ring⟩
  · have e1 : (x + y) % C.R = x + y := Int.emod_eq_of_lt (by omega) (by omega)
    simp only [hc, decide_false, Bool.false_eq_true, false_or, e1]
    split
    · exact Int.emod_eq_of_lt (by omega) (by omega)
    · rfl

theorem subR_val (p0 : 0 < C.p) (pR : C.p < C.R) {x y : Int} (x0 : 0 ≤ x) (x1 : x < C.p) (y0 : 0 ≤ y) (y1 : y < C.p) :
    subR C x y = if x < y then C.p - y + x else x - y := by
  unfold subR uAdd uSub
  split
  · rw [Int.emod_eq_of_lt (a := C.p - y) (by omega) (by omega)]
    exact Int.emod_eq_of_lt (by omega) (by omega)
  · exact Int.emod_eq_of_lt (by omega) (by omega)

theorem subinR_val (p0 : 0 < C.p) (pR : C.p < C.R) {x y : Int} (x0 : 0 ≤ x) (x1 : x < C.p) (y0 : 0 ≤ y) (y1 : y < C.p) :
    subinR C x y = if x < y then C.p - y + x else x - y := by
  unfold subinR uAdd uSub
  split
  · rw [Int.emod_eq_of_lt (a := C.p - y) (by omega) (by omega)]
    rw [Int.emod_eq_of_lt (by omega) (by omega)]; omega
  · exact Int.emod_eq_of_lt (by omega) (by omega)

theorem negR_val (p0 : 0 < C.p) (pR : C.p < C.R) {x : Int} (x0 : 0 ≤ x) (x1 : x < C.p) :
    negR C x = if x = 0 then 0 else C.p - x := by
  unfold negR uSub
  split
  · rfl
  · exact Int.emod_eq_of_lt (by omega) (by omega)

theorem addR_rep (h : AdmR C) {x y a b : Int} (hx : IsRep C.R C.p x a) (hy : IsRep C.R C.p y b) :
    IsRep C.R C.p (addR C x y) (a + b) := by
  have := hx.1; have := hx.2.1; have := hy.1; have := hy.2.1
  rw [addR_val h.p0 h.pR hx.1 hx.2.1 hy.1 hy.2.1]
  apply rep_add hx hy <;> (split <;> omega)

theorem subR_rep (h : AdmR C) {x y a b : Int} (hx : IsRep C.R C.p x a) (hy : IsRep C.R C.p y b) :
    IsRep C.R C.p (subR C x y) (a - b) := by
  have := hx.1; have := hx.2.1; have := hy.1; have := hy.2.1
  rw [subR_val h.p0 h.pR hx.1 hx.2.1 hy.1 hy.2.1]
  apply rep_sub hx hy <;> (split <;> omega)

theorem subinR_rep (h : AdmR C) {x y a b : Int} (hx : IsRep C.R C.p x a) (hy : IsRep C.R C.p y b) :
    IsRep C.R C.p (subinR C x y) (a - b) := by
  have := hx.1; have := hx.2.1; have := hy.1; have := hy.2.1
  rw [subinR_val h.p0 h.pR hx.1 hx.2.1 hy.1 hy.2.1]
  apply rep_sub hx hy <;> (split <;> omega)

theorem negR_rep (h : AdmR C) {x a : Int} (hx : IsRep C.R C.p x a) : IsRep C.R C.p (negR C x) (-a) := by
  have := hx.1; have := hx.2.1
  rw [negR_val h.p0 h.pR hx.1 hx.2.1]
  apply rep_neg hx <;> (split <;> omega)

theorem mulR_rep (h : AdmR C) {x y a b : Int} (hx : IsRep C.R C.p x a) (hy : IsRep C.R C.p y b) :
    IsRep C.R C.p (mulR C x y) (a * b) := by
  have := h.p0; have := h.pR
  have h0 : 0 ≤ x * y := Int.mul_nonneg hx.1 hy.1
  have h1 : x * y < C.p * C.R := by nlinarith [hx.1, hx.2.1, hy.1, hy.2.1]
  unfold mulR
  rw [mgReduc_eq_pure h h0 h1]
  exact rep_mul (by omega) h.p0 (by omega) h.p1p hx hy

theorem convertR_rep (h : AdmR C) {x a : Int} (hx : IsRep C.R C.p x a) : convertR C x = a % C.p := by
  have := h.p0; have := h.pR
  have h1 : x < C.p * C.R := by nlinarith [hx.1, hx.2.1]
  unfold convertR
  rw [mgReduc_eq_pure h hx.1 h1]
  exact rep_convert (by omega) h.p0 h.p1p hx

/-- `to_mg` of `rmint<K,MGA>`: `(b·R) mod p` -/
theorem toMgA_rep (h : AdmR C) (b : Int) : IsRep C.R C.p (toMgA C b) b := by
  have := h.p0
  unfold toMgA
  exact ⟨Int.emod_nonneg _ (by omega), Int.emod_lt_of_pos _ h.p0, Int.emod_emod_of_dvd _ (dvd_refl _)⟩

end addsub
/-! ## arazi_qi -/
def W64 : Int := 18446744073709551616

theorem wrapU64_modEq (t : Int) : wrapU64 t ≡ t [ZMOD W64] := Int.mod_modEq t _

/-- the product accumulated by the limb loop: `∏_{i=1..k} (1 + X^(2^i))` -/
def prodP : Nat → Int → Int
  | 0, _ => 1
  | k + 1, X => (1 + X * X) * prodP k (X * X)

theorem araziLoop_modEq : ∀ (k : Nat) (am u X U : Int), am ≡ X [ZMOD W64] → u ≡ U [ZMOD W64] →
    araziLimbLoop k am u ≡ U * prodP k X [ZMOD W64] := by
  intro k
  induction k with
  | zero => intro am u X U _ h2; simpa [araziLimbLoop, prodP] using h2
  | succ k ih =>
    intro am u X U h1 h2
    unfold araziLimbLoop
    simp only
    have a1 : wrapU64 (am * am) ≡ X * X [ZMOD W64] := (wrapU64_modEq _).trans (h1.mul h1)
    have a2 : wrapU64 (wrapU64 (am * am) + 1) ≡ X * X + 1 [ZMOD W64] := (wrapU64_modEq _).trans (a1.add_right 1)
    have a3 : wrapU64 (u * wrapU64 (wrapU64 (am * am) + 1)) ≡ U * (1 + X * X) [ZMOD W64] := by
      refine (wrapU64_modEq _).trans ?_
      have := h2.mul a2
      rwa [Int.add_comm (X * X) 1] at this
    have a4 : wrapU64 (wrapU64 (wrapU64 (am * am) + 1) - 1) ≡ X * X [ZMOD W64] := by
      refine (wrapU64_modEq _).trans ?_
      have := a2.sub_right 1
      simpa using this
    have := ih _ _ _ _ a4 a3
    rw [prodP]
    rwa [Int.mul_assoc] at this

theorem araziLimb_exact (a : Int) (h0 : 0 ≤ a) (h1 : a < W64) (hodd : a % 2 = 1) :
    0 ≤ araziLimb a ∧ araziLimb a < W64 ∧ (araziLimb a * a) % W64 = 1 := by
  unfold araziLimb
  split
  · rename_i h; subst h; decide
  · refine ⟨Int.emod_nonneg _ (by decide), Int.emod_lt_of_pos _ (by decide), ?_⟩
    have hx : wrapU64 (a - 1) ≡ a - 1 [ZMOD W64] := wrapU64_modEq _
    have hl := araziLoop_modEq 5 (wrapU64 (a - 1)) 1 (a - 1) 1 hx (Int.ModEq.refl 1)
    have h2 : wrapU64 (2 - a) ≡ 2 - a [ZMOD W64] := wrapU64_modEq _
    have h3 : wrapU64 (araziLimbLoop 5 (wrapU64 (a - 1)) 1 * wrapU64 (2 - a)) * a ≡ 1 * prodP 5 (a - 1) * (2 - a) * a [ZMOD W64] :=
      ((wrapU64_modEq _).trans (hl.mul h2)).mul_right a
    have h4 : 1 * prodP 5 (a - 1) * (2 - a) * a = 1 - (a - 1) ^ 64 := by
      simp only [prodP]; ring
    rw [h4] at h3
    have h5 : (1 - (a - 1) ^ 64 : Int) ≡ 1 [ZMOD W64] := by
      have hd : (W64 : Int) ∣ (a - 1) ^ 64 := by
        have : (2 : Int) ∣ a - 1 := by omega
        have := pow_dvd_pow_of_dvd this 64
        have e : (2 : Int) ^ 64 = W64 := by unfold W64; norm_num
        rwa [e] at this
      have : (1 - (a - 1) ^ 64 : Int) ≡ 1 - 0 [ZMOD W64] := (Int.ModEq.refl 1).sub ((Int.modEq_zero_iff_dvd).mpr hd)
      simpa using this
    have := h3.trans h5
    have e1 : (1 : Int) % W64 = 1 := by decide
    unfold Int.ModEq at this
    rw [e1] at this
    exact this

theorem radix_zero : radix 0 = W64 := by unfold radix bitsOf W64; norm_num
theorem radix_succ (n : Nat) : radix (n + 1) = radix n * radix n := by
  unfold radix bitsOf
  rw [← pow_add]; congr 1; rw [pow_succ]; omega
theorem radix_pos (n : Nat) : 0 < radix n := by unfold radix; positivity
theorem two_dvd_radix (n : Nat) : (2 : Int) ∣ radix n := by
  unfold radix bitsOf
  exact dvd_pow_self 2 (by positivity)

/-- `arazi_qi` is exact at every level: for odd `a < 2^(2^K)` it returns the inverse of `a` modulo `2^(2^K)` -/
theorem arazi_exact : ∀ (n : Nat) (a : Int), 0 ≤ a → a < radix n → a % 2 = 1 →
    0 ≤ arazi n a ∧ arazi n a < radix n ∧ (arazi n a * a) % radix n = 1 := by
  intro n
  induction n with
  | zero => intro a h0 h1 h2; rw [radix_zero] at *; exact araziLimb_exact a h0 h1 h2
  | succ n ih =>
    intro a h0 h1 hodd
    have hH := radix_pos n
    rw [radix_succ] at h1 ⊢
    have aL0 := Int.emod_nonneg a (show radix n ≠ 0 by omega)
    have aL1 := Int.emod_lt_of_pos a hH
    have aLodd : a % radix n % 2 = 1 := by rw [Int.emod_emod_of_dvd a (two_dvd_radix n)]; exact hodd
    obtain ⟨u0, u1, u2⟩ := ih (a % radix n) aL0 aL1 aLodd
    have hda := Int.emod_add_mul_ediv a (radix n)
    have e1 := Int.emod_add_mul_ediv (arazi n (a % radix n) * (a % radix n)) (radix n)
    rw [u2] at e1
    unfold arazi
    simp only [uMul, uAdd, uNeg]
    generalize hH' : radix n = H at *
    generalize huL : arazi n (a % H) = uL at *
    generalize haL : a % H = aL at *
    generalize haH : a / H = aH at *
    generalize ht : uL * aL / H = t at *
    generalize huH : (-(((t + (uL * aH) % H) % H * uL) % H)) % H = uH
    have uH0 : 0 ≤ uH := huH ▸ Int.emod_nonneg _ (by omega)
    have uH1 : uH < H := huH ▸ Int.emod_lt_of_pos _ hH
    have c0 : uL * aL ≡ 1 [ZMOD H] := by
      refine Int.modEq_iff_dvd.mpr ⟨-t, ?_⟩; linear_combination e1
    have c1 : uH ≡ -((t + uL * aH) * uL) [ZMOD H] := by
      rw [← huH]
      refine (Int.mod_modEq _ _).trans (Int.ModEq.neg ?_)
      refine (Int.mod_modEq _ _).trans (Int.ModEq.mul_right _ ?_)
      exact (Int.mod_modEq _ _).trans ((Int.mod_modEq _ _).add_left t)
    have c2 : t + uL * aH + uH * aL ≡ 0 [ZMOD H] := by
      have h1 : uH * aL ≡ -((t + uL * aH) * uL) * aL [ZMOD H] := c1.mul_right aL
      have e : -((t + uL * aH) * uL) * aL = -(t + uL * aH) * (uL * aL) := by ring
      rw [e] at h1
      have h2 : uH * aL ≡ -(t + uL * aH) * 1 [ZMOD H] := h1.trans (c0.mul_left _)
      have h3 := h2.add_left (t + uL * aH)
      have e2 : t + uL * aH + -(t + uL * aH) * 1 = 0 := by ring
      rwa [e2] at h3
    obtain ⟨y, hy⟩ := (Int.modEq_zero_iff_dvd).mp c2
    refine ⟨?_, ?_, ?_⟩
    · have : 0 ≤ H * uH := Int.mul_nonneg (by omega) uH0
      omega
    · have : H * uH ≤ H * (H - 1) := Int.mul_le_mul_of_nonneg_left (by omega) (by omega)
      nlinarith
    · have hH2 : 1 < H := by have := Int.emod_lt_of_pos (uL * aL) hH; omega
      have hHH : (1 : Int) < H * H := by nlinarith
      refine emod_unique (by decide) hHH ⟨y + uH * aH, ?_⟩
      linear_combination (uL + H * uH) * (-hda) - e1 + H * hy
end Givaro.Lemmas.Montgomery
