/-
C05 — valid_implies_field: tables accepted by the checker describe a *field*.

For `K = (ZMod p)[X] ⧸ (f)`, `f = X^k + flow` monic of degree `k`: the decoding of p-adic codes `< p^k` is a bijection onto `K`
(injective because two polynomials of degree `< k` congruent modulo `f` are equal; onto by counting, `|K| = p^k` from the
power basis).  A valid table makes `log2pol` a permutation of `[0,q)` whose non-zero values decode to the powers of
`γ = dec (log2pol 1)` with `γ^(q-1) = 1`: every non-zero element of `K` is a unit, `K` is a field, `(f)` is maximal, `f` irreducible.
-/
import GivaroModel.Lemmas.GFqAdjoinRoot
import Mathlib.FieldTheory.Finiteness
import Mathlib.FieldTheory.Finite.Basic
import Mathlib.RingTheory.PowerBasis
import Mathlib.Data.Nat.Prime.Basic
import Mathlib.RingTheory.Ideal.Quotient.Basic
namespace Givaro.Lemmas.GFqZech
open Givaro.Model.Zech Givaro.Spec.GFq Polynomial

/-- the executable primality test of the checker is sound -/
theorem isPrime_sound {p : Nat} (h : isPrime p = true) : Nat.Prime p := by
  unfold isPrime at h
  simp only [Bool.and_eq_true, decide_eq_true_eq, List.all_eq_true, List.mem_range, Bool.or_eq_true,
    beq_iff_eq, bne_iff_ne, ne_eq] at h
  obtain ⟨h2, hall⟩ := h
  rw [Nat.prime_def_le_sqrt]
  refine ⟨h2, ?_⟩
  intro m hm1 hm2 hdvd
  have := hall m (by omega)
  rcases this with (h | h) | h
  · omega
  · subst h
    have : m.sqrt < m := Nat.sqrt_lt_self (by omega)
    omega
  · exact h (Nat.mod_eq_zero_of_dvd hdvd)

variable {p : Nat}

theorem coeff_toPoly : ∀ (l : List Nat) (i : Nat), (toPoly p l).coeff i = ((l.getD i 0 : Nat) : ZMod p)
  | [], i => by simp [toPoly]
  | d :: ds, 0 => by simp [toPoly]
  | d :: ds, i + 1 => by
    simp only [toPoly, coeff_add, coeff_C_succ, zero_add, coeff_X_mul, List.getD_cons_succ]
    exact coeff_toPoly ds i

theorem degree_toPoly_lt (l : List Nat) : (toPoly p l).degree < l.length := by
  rw [degree_lt_iff_coeff_zero]
  intro m hm
  rw [coeff_toPoly]
  have : l.getD m 0 = 0 := by simp [List.getD_eq_getElem?_getD, List.getElem?_eq_none hm]
  rw [this]; simp

theorem len_flow (F : Field) : F.flow.length = F.k := by unfold Field.flow; exact len_digits _ _ _

theorem modulus_monic (F : Field) : (modulus F).Monic := by
  unfold modulus
  apply monic_X_pow_add
  have := degree_toPoly_lt (p := F.p) F.flow
  rwa [len_flow] at this

theorem modulus_natDegree (F : Field) [Fact (Nat.Prime F.p)] : (modulus F).natDegree = F.k := by
  unfold modulus
  have h := degree_toPoly_lt (p := F.p) F.flow
  rw [len_flow] at h
  rw [natDegree_add_eq_left_of_degree_lt (by rwa [degree_X_pow]), natDegree_X_pow]

theorem undigits_digits {p : Nat} (hp : 0 < p) : ∀ k n, n < p ^ k → undigits p (digits p k n) = n
  | 0, n, h => by simp at h; subst h; rfl
  | k + 1, n, h => by
    simp only [digits, undigits]
    rw [undigits_digits hp k (n / p) (by rw [Nat.div_lt_iff_lt_mul hp]; rwa [pow_succ] at h)]
    exact Nat.mod_add_div n p


/-- the decoding of codes into `(ZMod p)[X] ⧸ (f)` -/
noncomputable def decA (F : Field) (a : Nat) : AdjoinRoot (modulus F) :=
  AdjoinRoot.mk (modulus F) (toPoly F.p (digits F.p F.k a))

theorem decA_injective (F : Field) [Fact (Nat.Prime F.p)] (a b : Nat) (ha : a < F.q) (hb : b < F.q)
    (h : decA F a = decA F b) : a = b := by
  have hp : 0 < F.p := (Fact.out : Nat.Prime F.p).pos
  unfold decA at h
  rw [AdjoinRoot.mk_eq_mk] at h
  have hdeg : (toPoly F.p (digits F.p F.k a) - toPoly F.p (digits F.p F.k b)).degree < (modulus F).degree := by
    rw [degree_eq_natDegree (modulus_monic F).ne_zero, modulus_natDegree]
    refine lt_of_le_of_lt (degree_sub_le _ _) (max_lt ?_ ?_)
    · have := degree_toPoly_lt (p := F.p) (digits F.p F.k a); rwa [len_digits] at this
    · have := degree_toPoly_lt (p := F.p) (digits F.p F.k b); rwa [len_digits] at this
  have h0 := eq_zero_of_dvd_of_degree_lt h hdeg
  have heq : toPoly F.p (digits F.p F.k a) = toPoly F.p (digits F.p F.k b) := sub_eq_zero.mp h0
  have hd : digits F.p F.k a = digits F.p F.k b := by
    apply List.ext_getElem (by rw [len_digits, len_digits])
    intro i h1 h2
    have hc := congrArg (fun q => q.coeff i) heq
    simp only [coeff_toPoly] at hc
    have e1 : (digits F.p F.k a).getD i 0 = (digits F.p F.k a)[i] := by simp [List.getD_eq_getElem?_getD, h1]
    have e2 : (digits F.p F.k b).getD i 0 = (digits F.p F.k b)[i] := by simp [List.getD_eq_getElem?_getD, h2]
    rw [e1, e2] at hc
    have l1 := lt_digits hp F.k a _ (List.getElem_mem h1)
    have l2 := lt_digits hp F.k b _ (List.getElem_mem h2)
    have := congrArg ZMod.val hc
    rwa [ZMod.val_natCast_of_lt l1, ZMod.val_natCast_of_lt l2] at this
  rw [← undigits_digits hp F.k a ha, ← undigits_digits hp F.k b hb, hd]


theorem finite_adjoinRoot (F : Field) [Fact (Nat.Prime F.p)] : Finite (AdjoinRoot (modulus F)) := by
  have : Module.Finite (ZMod F.p) (AdjoinRoot (modulus F)) := (AdjoinRoot.powerBasis' (modulus_monic F)).finite
  exact Module.finite_of_finite (ZMod F.p)

theorem card_adjoinRoot (F : Field) [Fact (Nat.Prime F.p)] : Nat.card (AdjoinRoot (modulus F)) = F.q := by
  have := finite_adjoinRoot F
  letI := Fintype.ofFinite (AdjoinRoot (modulus F))
  rw [Nat.card_eq_fintype_card, Module.card_eq_pow_finrank (K := ZMod F.p), ZMod.card,
    (AdjoinRoot.powerBasis' (modulus_monic F)).finrank, AdjoinRoot.powerBasis'_dim, modulus_natDegree]; rfl

/-- codes `< q` are in bijection with the elements of the quotient -/
theorem decA_bijective (F : Field) [Fact (Nat.Prime F.p)] :
    Function.Bijective (fun a : Fin F.q => decA F a.val) := by
  have := finite_adjoinRoot F
  rw [Nat.bijective_iff_injective_and_card]
  refine ⟨?_, ?_⟩
  · intro a b h
    exact Fin.ext (decA_injective F a.val b.val a.isLt b.isLt h)
  · rw [card_adjoinRoot]; simp


theorem tablesValid_parts (T : Tables) (hv : T.tablesValid = true) :
    Nat.Prime T.F.p ∧ 1 ≤ T.F.k ∧ 2 ≤ T.q ∧ ∀ i, i < T.q → T.l2p i < T.q ∧ T.p2l (T.l2p i) = i := by
  unfold Tables.tablesValid at hv
  simp only [Bool.and_eq_true, decide_eq_true_eq, beq_iff_eq] at hv
  obtain ⟨⟨⟨⟨⟨⟨⟨⟨⟨⟨⟨⟨⟨hp, hk⟩, hq⟩, _⟩, _⟩, _⟩, _⟩, _⟩, _⟩, _⟩, _⟩, hbij⟩, _⟩, _⟩ := hv
  refine ⟨isPrime_sound hp, hk, hq, ?_⟩
  intro i hi
  have := all_range hbij i hi
  simp only [Bool.and_eq_true, decide_eq_true_eq, beq_iff_eq] at this
  exact this

/-- **valid_implies_field.**  If the checker accepts the tables of an object with characteristic `p`, exponent `k` and
    polynomial `f = X^k + flow` then, in `K = (ZMod p)[X] ⧸ (f)` with the index `i` decoded as the class of the polynomial
    whose p-adic digits are `log2pol[i]` and `γ` the class of `log2pol[1]`:
    `p` is prime, `f` is irreducible, `K` is a field with `p^k` elements, decoding is a bijection from the canonical
    indices `[0, q)` onto `K`, every non-zero element is a power `γ^i` with `1 ≤ i ≤ q-1` (γ generates `Kˣ`), and the tables
    satisfy `ZechHyp` (so every operation on indices is the field operation, `zech_ops_correct`). -/
theorem valid_implies_field_core (T : Tables) (hv : T.tablesValid = true) :
    Nat.Prime T.F.p ∧ Irreducible (modulus T.F) ∧ IsField (AdjoinRoot (modulus T.F)) ∧
    Nat.card (AdjoinRoot (modulus T.F)) = T.F.p ^ T.F.k ∧
    Function.Bijective (fun i : Fin T.q => decA T.F (T.l2p i.val)) ∧
    (∀ x : AdjoinRoot (modulus T.F), x ≠ 0 → ∃ i : Nat, 1 ≤ i ∧ i ≤ T.q - 1 ∧ x = decA T.F (T.l2p 1) ^ i) ∧
    ZechHyp T.dom (T.q : Int) (decA T.F (T.l2p 1)) (fun i => decA T.F (T.l2p i.toNat)) := by
  obtain ⟨hprime, hk, hq, hb⟩ := tablesValid_parts T hv
  haveI : Fact (Nat.Prime T.F.p) := ⟨hprime⟩
  have H : ZechHyp T.dom (T.q : Int) (decA T.F (T.l2p 1)) (fun i => decA T.F (T.l2p i.toNat)) :=
    tablesValid_gives_ZechHyp T hv (decoding_adjoinRoot T.F hk)
  -- log2pol permutes [0,q)
  have hl2p : Function.Bijective (fun i : Fin T.q => (⟨T.l2p i.val, (hb i.val i.isLt).1⟩ : Fin T.q)) := by
    rw [← Finite.injective_iff_bijective]
    intro i j h
    have h' : T.l2p i.val = T.l2p j.val := congrArg Fin.val h
    apply Fin.ext
    rw [← (hb i.val i.isLt).2, ← (hb j.val j.isLt).2, h']
  have hbij : Function.Bijective (fun i : Fin T.q => decA T.F (T.l2p i.val)) :=
    (decA_bijective T.F).comp hl2p
  -- every non-zero element is a power of γ
  have hpow : ∀ x : AdjoinRoot (modulus T.F), x ≠ 0 →
      ∃ i : Nat, 1 ≤ i ∧ i ≤ T.q - 1 ∧ x = decA T.F (T.l2p 1) ^ i := by
    intro x hx
    obtain ⟨i, hi⟩ := hbij.2 x
    have hi' : decA T.F (T.l2p i.val) = x := hi
    have hi0 : i.val ≠ 0 := by
      intro h0
      apply hx
      rw [← hi', h0]
      have := H.elt_zero
      simpa using this
    refine ⟨i.val, by omega, by have := i.isLt; omega, ?_⟩
    have := H.elt_pow (i.val : Int) (by omega) (by have := i.isLt; omega)
    simp only [Int.toNat_natCast] at this
    rw [← hi', this]
  have hγ : decA T.F (T.l2p 1) ^ (T.q - 1) = 1 := by
    have := H.pow_card
    rwa [show ((T.q : Int) - 1).toNat = T.q - 1 by omega] at this
  have hunit : ∀ x : AdjoinRoot (modulus T.F), x ≠ 0 → ∃ y, x * y = 1 := by
    intro x hx
    obtain ⟨i, h1, h2, rfl⟩ := hpow x hx
    refine ⟨decA T.F (T.l2p 1) ^ (T.q - 1 - i), ?_⟩
    rw [← pow_add, show i + (T.q - 1 - i) = T.q - 1 by omega, hγ]
  have h01 : (0 : AdjoinRoot (modulus T.F)) ≠ 1 := by
    intro h
    have all0 : ∀ x : AdjoinRoot (modulus T.F), x = 0 := fun x => by rw [← mul_one x, ← h, mul_zero]
    have hq' : 2 ≤ T.F.q := hq
    have := decA_injective T.F 0 1 (by omega) (by omega) (by rw [all0 (decA T.F 0), all0 (decA T.F 1)])
    omega
  have hfield : IsField (AdjoinRoot (modulus T.F)) :=
    { exists_pair_ne := ⟨0, 1, h01⟩, mul_comm := mul_comm, mul_inv_cancel := fun {a} ha => hunit a ha }
  have hmax : (Ideal.span {modulus T.F} : Ideal (ZMod T.F.p)[X]).IsMaximal :=
    Ideal.Quotient.maximal_of_isField _ hfield
  have hirr : Irreducible (modulus T.F) :=
    ((Ideal.span_singleton_prime (modulus_monic T.F).ne_zero).mp hmax.isPrime).irreducible
  exact ⟨hprime, hirr, hfield, card_adjoinRoot T.F, hbij, hpow, H⟩

end Givaro.Lemmas.GFqZech

namespace Givaro.Lemmas.GFqZech
open Givaro.Model.Zech

/-- Abstract-field formulation: for **every** finite field `Fd` with `q` elements and **every** generator `g` of `Fdˣ`
    (`orderOf g = q - 1`), if the object's sentinels and `plus1` table are those of `(Fd, g)` — `g^mOne = -1`, and for
    `1 ≤ i ≤ q-1`: `plus1 i = 0` when `g^i + 1 = 0`, else `plus1 i + (q-1) ∈ [1, q-2]` is the logarithm of `g^i + 1` — then
    the decoding `0 ↦ 0, i ↦ g^i` satisfies `ZechHyp` and is a bijection from the canonical indices onto `Fd`. -/
theorem zechHyp_of_field_generator {Fd : Type*} [Field Fd] [Fintype Fd] (D : Dom) (q : Nat)
    (hq : Fintype.card Fd = q) (g : Fd) (hg : orderOf g = q - 1)
    (hmun : D.mun = (q : Int) - 1) (hmo1 : 1 ≤ D.mo) (hmo2 : D.mo ≤ (q : Int) - 1) (hmo : g ^ D.mo.toNat = -1)
    (hpl0 : ∀ i : Int, 1 ≤ i → i ≤ (q : Int) - 1 → g ^ i.toNat + 1 = 0 → D.pl i = 0)
    (hpl1 : ∀ i : Int, 1 ≤ i → i ≤ (q : Int) - 1 → g ^ i.toNat + 1 ≠ 0 →
      -((q : Int) - 1) < D.pl i ∧ D.pl i < 0 ∧ g ^ (D.pl i + ((q : Int) - 1)).toNat = g ^ i.toNat + 1) :
    ZechHyp D (q : Int) g (fun i : Int => if i = 0 then 0 else g ^ i.toNat) ∧
    Function.Bijective (fun i : Fin q => (if (i.val : Int) = 0 then 0 else g ^ ((i.val : Int)).toNat : Fd)) := by
  have hq2 : 2 ≤ q := by rw [← hq]; exact Fintype.one_lt_card
  have hone : g ^ (q - 1) = 1 := by rw [← hg]; exact pow_orderOf_eq_one g
  have hg0 : g ≠ 0 := by
    intro h; rw [h, zero_pow (by omega)] at hone; exact zero_ne_one hone
  constructor
  · refine
      { q_ge := by omega, mun_eq := hmun, elt_zero := by simp, elt_pow := ?_, pow_card := ?_, mo_lo := hmo1, mo_hi := hmo2,
        mo_neg := hmo, pl_zero := ?_, pl_lo := ?_, pl_hi := ?_, pl_pow := ?_ }
    · intro i h1 h2; simp only [show i ≠ 0 by omega, ↓reduceIte]
    · rw [show ((q : Int) - 1).toNat = q - 1 by omega]; exact hone
    · intro i h1 h2 hz
      by_contra hne
      have := (hpl1 i h1 h2 hne).2.1
      omega
    · intro i h1 h2 hnz
      by_cases hne : g ^ i.toNat + 1 = 0
      · exact absurd (hpl0 i h1 h2 hne) hnz
      · exact (hpl1 i h1 h2 hne).1
    · intro i h1 h2 hnz
      by_cases hne : g ^ i.toNat + 1 = 0
      · exact absurd (hpl0 i h1 h2 hne) hnz
      · exact (hpl1 i h1 h2 hne).2.1
    · intro i h1 h2 hnz
      by_cases hne : g ^ i.toNat + 1 = 0
      · exact absurd (hpl0 i h1 h2 hne) hnz
      · exact (hpl1 i h1 h2 hne).2.2
  · rw [Fintype.bijective_iff_injective_and_card]
    refine ⟨?_, by simp [hq]⟩
    intro i j h
    simp only [Int.natCast_eq_zero, Int.toNat_natCast] at h
    apply Fin.ext
    by_cases hi : i.val = 0 <;> by_cases hj : j.val = 0
    · omega
    · simp only [hi, hj, ↓reduceIte] at h
      exact absurd h.symm (pow_ne_zero _ hg0)
    · simp only [hi, hj, ↓reduceIte] at h
      exact absurd h (pow_ne_zero _ hg0)
    · simp only [hi, hj, ↓reduceIte] at h
      have e1 : i.val = (i.val - 1) + 1 := by omega
      have e2 : j.val = (j.val - 1) + 1 := by omega
      rw [e1, e2, pow_succ, pow_succ] at h
      have h' := mul_right_cancel₀ hg0 h
      have := pow_injOn_Iio_orderOf (x := g) (by rw [hg]; have := i.isLt; simp only [Set.mem_Iio]; omega)
        (by rw [hg]; have := j.isLt; simp only [Set.mem_Iio]; omega) h'
      omega

end Givaro.Lemmas.GFqZech
