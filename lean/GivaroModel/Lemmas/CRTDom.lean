/-
C14 — the two-modulus functor over any residue domain meeting the init/convert contract (C04), whatever its storage
(Montgomery form, discrete logarithms, …).
-/
import GivaroModel.Lemmas.CRTSys

namespace Givaro.Lemmas.CRT
open Givaro.Model.CRT

/-- the init/convert contract (property C04) together with the two ring operations the functor uses (C03/C05/C07), stated through
    `convert`: `convert` returns canonical integers, `init` is the canonical map, `sub` and `inv` are subtraction and inversion of the
    residues the codes stand for -/
structure DomOK (D : ResidueDom) : Prop where
  dpos : 0 < D.d
  convert_range : ∀ a, 0 ≤ D.convert a ∧ D.convert a < D.d
  convert_init : ∀ x, D.convert (D.init x) = x % D.d
  convert_sub : ∀ a b, D.convert (D.sub a b) = (D.convert a - D.convert b) % D.d
  convert_inv : ∀ a y, (y * D.convert a) % D.d = 1 % D.d → (D.convert (D.inv a) * D.convert a) % D.d = 1 % D.d

theorem craInitD_modEq {D : ResidueDom} (h : DomOK D) {M : Int} (hco : IsCoprime D.d M) : craInitD D M ≡ 1 [ZMOD D.d] := by
  unfold craInitD
  obtain ⟨y, hy⟩ := exists_inv_of_isCoprime hco
  have hx : D.convert (D.init M) ≡ M [ZMOD D.d] := by rw [h.convert_init]; exact Int.mod_modEq _ _
  have hy' : (y * D.convert (D.init M)) % D.d = 1 % D.d := ((Int.ModEq.refl y).mul hx).trans hy
  have := h.convert_inv (D.init M) y hy'
  exact ((Int.ModEq.refl _).mul hx.symm).trans this

/-- the lift is `≡ A (mod M)` and `≡ convert e (mod d)`; since `convert e` is canonical, the second says `res mod d = convert e` -/
theorem cra_congruences_dom {D : ResidueDom} (h : DomOK D) {M : Int} (hco : IsCoprime D.d M) (A e : Int) :
    (craApplyD D (craInitD D M) A e - A) % M = 0 ∧ craApplyD D (craInitD D M) A e % D.d = D.convert e ∧
    (craApplyNoReduceD D (craInitD D M) A e - A) % M = 0 ∧ craApplyNoReduceD D (craInitD D M) A e % D.d = D.convert e := by
  have hc := craInitD_modEq h hco
  have hM : M ∣ craInitD D M := by unfold craInitD; exact dvd_mul_left _ _
  have hce := h.convert_range e
  have hcan : D.convert e % D.d = D.convert e := Int.emod_eq_of_lt hce.1 hce.2
  refine ⟨?_, ?_, ?_, ?_⟩
  · apply Int.emod_eq_zero_of_dvd
    unfold craApplyD
    have : D.convert (D.sub e (D.init A)) * craInitD D M + A - A = D.convert (D.sub e (D.init A)) * craInitD D M := by ring
    rw [this]; exact hM.mul_left _
  · have h1 : craApplyD D (craInitD D M) A e ≡ D.convert e [ZMOD D.d] := by
      unfold craApplyD
      have h2 : D.convert (D.sub e (D.init A)) ≡ D.convert e - A [ZMOD D.d] := by
        rw [h.convert_sub, h.convert_init]
        exact (Int.mod_modEq _ _).trans ((Int.ModEq.refl _).sub (Int.mod_modEq _ _))
      have h3 := (h2.mul hc).add_right A
      have e1 : (D.convert e - A) * 1 + A = D.convert e := by ring
      rw [e1] at h3
      exact h3
    rw [← hcan]; exact h1
  · apply Int.emod_eq_zero_of_dvd
    unfold craApplyNoReduceD
    have : (D.convert e - A) * craInitD D M + A - A = (D.convert e - A) * craInitD D M := by ring
    rw [this]; exact hM.mul_left _
  · have h1 : craApplyNoReduceD D (craInitD D M) A e ≡ D.convert e [ZMOD D.d] := by
      unfold craApplyNoReduceD
      have h3 := ((Int.ModEq.refl (D.convert e - A)).mul hc).add_right A
      have e1 : (D.convert e - A) * 1 + A = D.convert e := by ring
      rw [e1] at h3
      exact h3
    rw [← hcan]; exact h1

/-- inverses modulo `d` are unique among canonical integers -/
theorem inv_unique {d a x y : Int} (hx : 0 ≤ x ∧ x < d) (hy : 0 ≤ y ∧ y < d)
    (h1 : (x * a) % d = 1 % d) (h2 : (y * a) % d = 1 % d) : x = y := by
  have e1 : x * a ≡ 1 [ZMOD d] := h1
  have e2 : y * a ≡ 1 [ZMOD d] := h2
  have : x ≡ y [ZMOD d] := by
    have h3 : x * (y * a) ≡ x * 1 [ZMOD d] := (Int.ModEq.refl x).mul e2
    have h4 : y * (x * a) ≡ y * 1 [ZMOD d] := (Int.ModEq.refl y).mul e1
    have e : x * (y * a) = y * (x * a) := by ring
    rw [e] at h3
    have := h3.symm.trans h4
    simpa using this
  have h5 : x % d = y % d := this
  rwa [Int.emod_eq_of_lt hx.1 hx.2, Int.emod_eq_of_lt hy.1 hy.2] at h5

/-- whatever the storage, the functor returns exactly what the canonical-storage model (`craInit`/`craApply`) returns for the
    residue `convert e` — this is why one model serves every domain in the correspondence -/
theorem cra_dom_eq_canonical {D : ResidueDom} (h : DomOK D) {cof : Int → Int → Int} (hcof : CofOK cof) {M : Int}
    (hco : IsCoprime D.d M) (A e : Int) :
    craInitD D M = craInit cof M D.d ∧
    craApplyD D (craInitD D M) A e = craApply (craInit cof M D.d) D.d A (D.convert e) ∧
    craApplyNoReduceD D (craInitD D M) A e = craApplyNoReduce (craInit cof M D.d) A (D.convert e) := by
  have hd := h.dpos
  have hinit : craInitD D M = craInit cof M D.d := by
    unfold craInitD craInit
    congr 1
    have hx : D.convert (D.init M) = M % D.d := h.convert_init M
    obtain ⟨y, hy⟩ := exists_inv_of_isCoprime hco
    have hxm : M % D.d ≡ M [ZMOD D.d] := Int.mod_modEq _ _
    have hy' : (y * (M % D.d)) % D.d = 1 % D.d := ((Int.ModEq.refl y).mul hxm).trans hy
    have i1 := h.convert_inv (D.init M) y (by rw [hx]; exact hy')
    rw [hx] at i1
    have i2 : ((cof D.d (M % D.d)) % D.d * (M % D.d)) % D.d = 1 % D.d := by
      have := hcof D.d (M % D.d) y hd (Int.emod_nonneg _ (ne_of_gt hd)) hy'
      exact ((Int.mod_modEq _ _).mul (Int.ModEq.refl _)).trans this
    exact inv_unique (h.convert_range _) ⟨Int.emod_nonneg _ (ne_of_gt hd), Int.emod_lt_of_pos _ hd⟩ i1 i2
  refine ⟨hinit, ?_, ?_⟩
  · unfold craApplyD craApply
    rw [hinit, h.convert_sub, h.convert_init]
  · unfold craApplyNoReduceD craApplyNoReduce
    rw [hinit]

/-! ### instances of the contract -/

theorem canonicalDom_ok {cof : Int → Int → Int} (hcof : CofOK cof) {d : Int} (hd : 0 < d) : DomOK (canonicalDom cof d) := by
  refine ⟨hd, ?_, ?_, ?_, ?_⟩
  · intro a; exact ⟨Int.emod_nonneg _ (ne_of_gt hd), Int.emod_lt_of_pos _ hd⟩
  · intro x; simp [canonicalDom]
  · intro a b
    simp only [canonicalDom]
    have : (a - b) % d ≡ a % d - b % d [ZMOD d] :=
      (Int.mod_modEq _ _).trans ((Int.mod_modEq a d).symm.sub (Int.mod_modEq b d).symm)
    rw [Int.emod_emod_of_dvd _ (dvd_refl d)]
    unfold Int.ModEq at this
    rwa [Int.emod_emod_of_dvd _ (dvd_refl d)] at this
  · intro a y hy
    simp only [canonicalDom] at hy ⊢
    rw [Int.emod_emod_of_dvd _ (dvd_refl d)]
    have := hcof d (a % d) y hd (Int.emod_nonneg _ (ne_of_gt hd)) hy
    exact ((Int.mod_modEq _ _).mul (Int.ModEq.refl _)).trans this

theorem montgomeryDom_ok {cof : Int → Int → Int} (hcof : CofOK cof) {d R Rinv : Int} (hd : 0 < d)
    (hR : (Rinv * R) % d = 1 % d) : DomOK (montgomeryDom cof d R Rinv) := by
  have hRR : Rinv * R ≡ 1 [ZMOD d] := hR
  refine ⟨hd, ?_, ?_, ?_, ?_⟩
  · intro a; exact ⟨Int.emod_nonneg _ (ne_of_gt hd), Int.emod_lt_of_pos _ hd⟩
  · intro x
    simp only [montgomeryDom]
    have h1 : (x * R) % d * Rinv ≡ x * R * Rinv [ZMOD d] := (Int.mod_modEq _ _).mul_right _
    have h2 : x * R * Rinv ≡ x * 1 [ZMOD d] := by
      have e : x * R * Rinv = x * (Rinv * R) := by ring
      rw [e]; exact (Int.ModEq.refl x).mul hRR
    have h3 := h1.trans h2
    rw [mul_one] at h3
    exact h3
  · intro a b
    simp only [montgomeryDom]
    have h1 : (a - b) % d * Rinv ≡ (a - b) * Rinv [ZMOD d] := (Int.mod_modEq _ _).mul_right _
    have h2 : (a * Rinv) % d - (b * Rinv) % d ≡ a * Rinv - b * Rinv [ZMOD d] := (Int.mod_modEq _ _).sub (Int.mod_modEq _ _)
    have e : (a - b) * Rinv = a * Rinv - b * Rinv := by ring
    rw [e] at h1
    exact h1.trans h2.symm
  · intro a y hy
    simp only [montgomeryDom] at hy ⊢
    have hc := hcof d ((a * Rinv) % d) y hd (Int.emod_nonneg _ (ne_of_gt hd)) hy
    have hc' : cof d ((a * Rinv) % d) * ((a * Rinv) % d) ≡ 1 [ZMOD d] := hc
    have h1 : (cof d ((a * Rinv) % d) * R) % d * Rinv ≡ cof d ((a * Rinv) % d) * R * Rinv [ZMOD d] :=
      (Int.mod_modEq _ _).mul_right _
    have h2 : cof d ((a * Rinv) % d) * R * Rinv ≡ cof d ((a * Rinv) % d) * 1 [ZMOD d] := by
      have e : cof d ((a * Rinv) % d) * R * Rinv = cof d ((a * Rinv) % d) * (Rinv * R) := by ring
      rw [e]; exact (Int.ModEq.refl _).mul hRR
    have h3 : ((cof d ((a * Rinv) % d) * R) % d * Rinv) % d ≡ cof d ((a * Rinv) % d) [ZMOD d] := by
      have := (Int.mod_modEq _ _).trans (h1.trans h2)
      simpa using this
    exact (h3.mul (Int.ModEq.refl _)).trans hc'

end Givaro.Lemmas.CRT
