/-
C17 — `RefCountPtr<T>` is the one-cell special case of `Array0<T>`: constructing from a raw pointer is `Array0(1, v)`,
the copy constructor is the NoCopy constructor, `operator=` is `logcopy`, the destructor is `destroy()`.
-/
import GivaroModel.Lemmas.Array0Ops
import GivaroModel.Model.RefPtr
import GivaroModel.Model.RefPtrArray0
namespace Givaro.Model.Array0
open Givaro.Model

/-- the three ways `destroy` ends on a well-formed state -/
theorem destroy_cases {α : Type} {s : State α} (I : Inv s) {h : Nat} (hn : h < s.n) :
    ((s.hs h).psz = 0 ∧ destroy s h = s) ∨
    (∃ c b, (s.hs h).cnt = some c ∧ (s.hs h).d = some b ∧ s.cval c = 1 ∧
      destroy s h = ({ s with cval := upd s.cval c 0, clive := upd s.clive c false, dlive := upd s.dlive b false,
                              hs := upd s.hs h Handle.empty } : State α)) ∨
    (∃ c b, (s.hs h).cnt = some c ∧ (s.hs h).d = some b ∧ s.cval c - 1 ≠ 0 ∧
      destroy s h = ({ s with cval := upd s.cval c (s.cval c - 1), hs := upd s.hs h Handle.empty } : State α)) := by
  by_cases hp : (s.hs h).psz = 0
  · left
    have e := (I.wf h hn).1 hp
    refine ⟨hp, ?_⟩
    unfold destroy; simp only [hp, ↓reduceIte]; exact setH_self s h _ e
  · right
    obtain ⟨c, b, h1, h2, h3, h4, h5, h6, h7, h8⟩ := owner_facts I hn hp
    by_cases hv : s.cval c - 1 = 0
    · left; refine ⟨c, b, h1, h2, by omega, ?_⟩
      unfold destroy; simp [hp, h1, h2, h3, h4, hv]
    · right; refine ⟨c, b, h1, h2, hv, ?_⟩
      unfold destroy; simp [hp, h1, h3, hv]

theorem attachShare_eq {α : Type} {s : State α} (I : Inv s) (h : Nat) {g : Nat} (gn : g < s.n) (gp : (s.hs g).psz ≠ 0) :
    ∃ c, (s.hs g).cnt = some c ∧
      attachShare s h g = ({ s with cval := upd s.cval c (s.cval c + 1),
                                    hs := upd s.hs h ⟨some c, (s.hs g).size, (s.hs g).psz, (s.hs g).d⟩ } : State α) := by
  obtain ⟨c, b, h1, h2, h3, h4, h5, h6⟩ := (I.wf g gn).2 gp
  refine ⟨c, h1, ?_⟩
  unfold attachShare; simp [gp, h1, h3]

/-- data blocks and counter cells are created and released in lockstep, every array has exactly one cell -/
structure OneCell (s : State Nat) : Prop where
  next : s.cnext = s.dnext
  same : ∀ k, k < s.n → (s.hs k).psz ≠ 0 → (s.hs k).cnt = (s.hs k).d ∧ (s.hs k).size = 1 ∧ (s.hs k).psz = 1
  live : ∀ o, s.clive o = s.dlive o

theorem onecell_init (n : Nat) : OneCell (init Nat n) := ⟨rfl, fun _ _ h => absurd rfl h, fun _ => rfl⟩

theorem st_ext {a b : RefPtr.St} (h1 : a.slot = b.slot) (h2 : a.cnt = b.cnt) (h3 : a.alive = b.alive) (h4 : a.val = b.val)
    (h5 : a.next = b.next) : a = b := by
  cases a; cases b; simp only [RefPtr.St.mk.injEq]; exact ⟨h1, h2, h3, h4, h5⟩

theorem upd_eq_updR {β : Type} (f : Nat → β) (i : Nat) (v : β) : upd f i v = RefPtr.updR f i v := rfl

/-- the slot map after the handle `j` has been replaced -/
theorem proj_slot_upd (hs : Nat → Handle) (j : Nat) (H : Handle) :
    (fun k => if (upd hs j H k).psz = 0 then none else (upd hs j H k).d) =
      RefPtr.updR (fun k => if (hs k).psz = 0 then none else (hs k).d) j (if H.psz = 0 then none else H.d) := by
  funext k; unfold upd RefPtr.updR; split <;> rfl

end Givaro.Model.Array0

namespace Givaro.Model.Array0
open Givaro.Model

structure ESim (s s' : State Nat) (op : RefPtr.Op) : Prop where
  inv : Inv s'
  one : OneCell s'
  n : s'.n = s.n
  sim : proj s' = RefPtr.step (proj s) op

/-- facts about an occupied slot -/
theorem occupied {s : State Nat} (I : Inv s) (E : OneCell s) {k : Nat} (kn : k < s.n) (kp : (s.hs k).psz ≠ 0) :
    ∃ o, (s.hs k).cnt = some o ∧ (s.hs k).d = some o ∧ (proj s).slot k = some o ∧ s.clive o = true ∧ s.dlive o = true ∧
      (s.hs k).size = 1 ∧ (s.hs k).psz = 1 := by
  obtain ⟨c, b, h1, h2, h3, h4, _⟩ := (I.wf k kn).2 kp
  obtain ⟨e1, e2, e3⟩ := E.same k kn kp
  have : c = b := by rw [h1, h2] at e1; exact Option.some.inj e1
  subst this
  exact ⟨c, h1, h2, by show (if (s.hs k).psz = 0 then none else (s.hs k).d) = some c; rw [if_neg kp, h2], h3, h4, e2, e3⟩

theorem empty_slot {s : State Nat} {k : Nat} (kp : (s.hs k).psz = 0) : (proj s).slot k = none := by
  show (if (s.hs k).psz = 0 then none else (s.hs k).d) = none; rw [if_pos kp]

theorem upd_upd {β : Type} (f : Nat → β) (j : Nat) (a b : β) : upd (upd f j a) j b = upd f j b := by
  funext x; unfold upd; split <;> rfl

/-- `OneCell` after one handle has been replaced -/
theorem onecell_upd {s s' : State Nat} (E : OneCell s) (j : Nat) (H : Handle)
    (hhs : s'.hs = upd s.hs j H) (hn : s'.n = s.n) (hnext : s'.cnext = s'.dnext) (hlive : ∀ o, s'.clive o = s'.dlive o)
    (hH : H.psz ≠ 0 → H.cnt = H.d ∧ H.size = 1 ∧ H.psz = 1) : OneCell s' := by
  refine ⟨hnext, ?_, hlive⟩
  intro x xn
  rw [hhs]
  by_cases e : x = j
  · rw [e, upd_same]; exact hH
  · rw [upd_other _ _ _ _ e]; exact E.same x (by rw [← hn]; exact xn)

theorem live_upd_false {s : State Nat} (E : OneCell s) (o : Nat) : ∀ x, upd s.clive o false x = upd s.dlive o false x := by
  intro x; unfold upd; split
  · rfl
  · exact E.live x

/-- the state after `destroy` of an occupied slot, in terms of the object `o` it pointed to -/
theorem destroy_occupied {s : State Nat} (I : Inv s) (E : OneCell s) {k o : Nat} (kn : k < s.n)
    (h1 : (s.hs k).cnt = some o) (h2 : (s.hs k).d = some o) :
    (s.cval o - 1 = 0 ∧ destroy s k = ({ s with cval := upd s.cval o 0, clive := upd s.clive o false,
                                                dlive := upd s.dlive o false, hs := upd s.hs k Handle.empty } : State Nat)) ∨
    (s.cval o - 1 ≠ 0 ∧ destroy s k = ({ s with cval := upd s.cval o (s.cval o - 1),
                                                hs := upd s.hs k Handle.empty } : State Nat)) := by
  rcases destroy_cases I kn with ⟨q, _⟩ | ⟨c, b, q1, q2, one, e⟩ | ⟨c, b, q1, q2, nz, e⟩
  · exact absurd q (cnt_some_psz I kn h1)
  · have ec : c = o := by rw [h1] at q1; exact (Option.some.inj q1).symm
    have eb : b = o := by rw [h2] at q2; exact (Option.some.inj q2).symm
    rw [ec, eb] at e; rw [ec] at one
    exact Or.inl ⟨by omega, e⟩
  · have ec : c = o := by rw [h1] at q1; exact (Option.some.inj q1).symm
    rw [ec] at e nz
    exact Or.inr ⟨nz, e⟩

theorem embed_sim {s : State Nat} (I : Inv s) (E : OneCell s) (op : RefPtr.Op) (hb : ∀ k, k ∈ op.slots → k < s.n) :
    ESim s (embed s op) op := by
  cases op with
  | new k v =>
    have kn : k < s.n := hb k (by simp [RefPtr.Op.slots])
    simp only [embed]
    by_cases kp : (s.hs k).psz = 0
    · rw [if_pos kp]
      have he := (I.wf k kn).1 kp
      have e1 : step s (.build k 1 v) = attachFresh s k [v] 1 := by
        rw [step_eq_core I _ (by intro x hx; simp [Op.handles] at hx; omega)]
        show ctorBuild s k 1 v = _
        unfold ctorBuild
        rcases destroy_cases I kn with ⟨_, e⟩ | ⟨c, b, h1, _⟩ | ⟨c, b, h1, _⟩
        · rw [e]; simp only [I.nofault, Bool.false_eq_true, ↓reduceIte, ne_eq, Nat.add_one_ne_zero, not_false_eq_true]; rfl
        · rw [he] at h1; cases h1
        · rw [he] at h1; cases h1
      rw [e1]
      have A := attachFresh_inv (l := [v]) (sz := 1) I kn he (by simp) (by simp)
      refine ⟨A.1, ?_, A.2, ?_⟩
      · apply onecell_upd (s' := attachFresh s k [v] 1) E k ⟨some s.cnext, 1, 1, some s.dnext⟩ rfl rfl
        · show s.cnext + 1 = s.dnext + 1; rw [E.next]
        · intro o
          show upd s.clive s.cnext true o = upd s.dlive s.dnext true o
          rw [E.next]; unfold upd; split
          · rfl
          · exact E.live o
        · intro _; exact ⟨by show some s.cnext = some s.dnext; rw [E.next], rfl, rfl⟩
      · have sl : (proj s).slot k = none := empty_slot kp
        show proj (attachFresh s k [v] 1) = match (proj s).slot k with | some _ => proj s | none => _
        rw [sl]
        dsimp only
        apply st_ext
        · show (fun x => if (upd s.hs k _ x).psz = 0 then none else (upd s.hs k _ x).d) = _
          rw [proj_slot_upd]; rfl
        · show upd s.cval s.cnext 1 = RefPtr.updR s.cval s.dnext 1; rw [E.next]; rfl
        · rfl
        · show (fun o => (upd s.ddata s.dnext [v] o).headD 0) = RefPtr.updR (fun o => (s.ddata o).headD 0) s.dnext v
          funext o; unfold upd RefPtr.updR; split <;> rfl
        · rfl
    · rw [if_neg kp]
      obtain ⟨o, _, _, sl, _⟩ := occupied I E kn kp
      refine ⟨I, E, rfl, ?_⟩
      show proj s = match (proj s).slot k with | some _ => proj s | none => _
      rw [sl]
  | copy k j =>
    have kn : k < s.n := hb k (by simp [RefPtr.Op.slots])
    have jn : j < s.n := hb j (by simp [RefPtr.Op.slots])
    simp only [embed]
    by_cases c : (s.hs k).psz ≠ 0 ∧ (s.hs j).psz = 0
    · rw [if_pos c]
      obtain ⟨kp, jp⟩ := c
      have ne : j ≠ k := fun q => kp (by rw [← q]; exact jp)
      have he := (I.wf j jn).1 jp
      obtain ⟨o, h1, h2, sl, _, _, z1, z2⟩ := occupied I E kn kp
      obtain ⟨c', hc', eq⟩ := attachShare_eq I j kn kp
      have ec : c' = o := by rw [h1] at hc'; exact (Option.some.inj hc').symm
      rw [ec] at eq
      have e1 : step s (.noCopy j k) = attachShare s j k := by
        rw [step_eq_core I _ (by intro x hx; simp [Op.handles] at hx; omega)]
        show ctorNoCopy s j k = _
        unfold ctorNoCopy; rw [if_neg ne]
        rcases destroy_cases I jn with ⟨_, e⟩ | ⟨c, b, q, _⟩ | ⟨c, b, q, _⟩
        · rw [e]; simp only [I.nofault, Bool.false_eq_true, ↓reduceIte]
        · rw [he] at q; cases q
        · rw [he] at q; cases q
      rw [e1]
      have A := attachShare_inv I jn kn ne he
      refine ⟨A.1, ?_, A.2, ?_⟩
      · rw [eq]
        exact onecell_upd E j ⟨some o, (s.hs k).size, (s.hs k).psz, (s.hs k).d⟩ rfl rfl E.next E.live
          (fun _ => ⟨by show some o = (s.hs k).d; rw [h2], z1, z2⟩)
      · have slj : (proj s).slot j = none := empty_slot jp
        show proj (attachShare s j k) = match (proj s).slot k, (proj s).slot j with
          | some o, none => _ | _, _ => proj s
        rw [sl, slj, eq]
        dsimp only
        apply st_ext
        · show (fun x => if (upd s.hs j _ x).psz = 0 then none else (upd s.hs j _ x).d) = _
          rw [proj_slot_upd]
          show RefPtr.updR _ j (if (s.hs k).psz = 0 then none else (s.hs k).d) = _
          rw [if_neg kp, h2]; rfl
        · rfl
        · rfl
        · rfl
        · rfl
    · rw [if_neg c]
      refine ⟨I, E, rfl, ?_⟩
      show proj s = match (proj s).slot k, (proj s).slot j with | some o, none => _ | _, _ => proj s
      by_cases kp : (s.hs k).psz = 0
      · rw [empty_slot kp]
      · have jp : (s.hs j).psz ≠ 0 := fun q => c ⟨kp, q⟩
        obtain ⟨o, _, _, sl, _⟩ := occupied I E kn kp
        obtain ⟨o', _, _, sl', _⟩ := occupied I E jn jp
        rw [sl, sl']
  | del k =>
    have kn : k < s.n := hb k (by simp [RefPtr.Op.slots])
    simp only [embed]
    rw [step_eq_core I _ (by intro x hx; simp [Op.handles] at hx; omega)]
    show ESim s (destroy s k) _
    have D := destroy_inv I kn
    by_cases kp : (s.hs k).psz = 0
    · have e : destroy s k = s := by
        rcases destroy_cases I kn with ⟨_, e⟩ | ⟨c, b, h1, _⟩ | ⟨c, b, h1, _⟩
        · exact e
        · exact absurd kp (cnt_some_psz I kn h1)
        · exact absurd kp (cnt_some_psz I kn h1)
      rw [e]
      refine ⟨I, E, rfl, ?_⟩
      show proj s = match (proj s).slot k with | none => proj s | some o => _
      rw [empty_slot kp]
    · obtain ⟨o, g1, g2, sl, _⟩ := occupied I E kn kp
      have RP : RefPtr.step (proj s) (.del k) =
          { (RefPtr.release (proj s) o) with slot := RefPtr.updR (RefPtr.release (proj s) o).slot k none } := by
        show (match (proj s).slot k with | none => proj s | some o => _) = _
        rw [sl]; rfl
      refine ⟨D.1, ?_, D.2.2, ?_⟩
      · rcases destroy_occupied I E kn g1 g2 with ⟨_, e⟩ | ⟨_, e⟩
        · rw [e]; exact onecell_upd E k Handle.empty rfl rfl E.next (live_upd_false E o) (fun z => absurd rfl z)
        · rw [e]; exact onecell_upd E k Handle.empty rfl rfl E.next E.live (fun z => absurd rfl z)
      · rw [RP]
        unfold RefPtr.release
        rcases destroy_occupied I E kn g1 g2 with ⟨v0, e⟩ | ⟨v0, e⟩
        · have v0' : (proj s).cnt o - 1 = 0 := v0
          rw [e]; simp only [v0', ↓reduceIte]
          apply st_ext
          · show (fun x => if (upd s.hs k _ x).psz = 0 then none else (upd s.hs k _ x).d) = _
            rw [proj_slot_upd]; rfl
          · rfl
          · rfl
          · rfl
          · rfl
        · have v0' : ¬ (proj s).cnt o - 1 = 0 := v0
          rw [e]; simp only [v0', ↓reduceIte]
          apply st_ext
          · show (fun x => if (upd s.hs k _ x).psz = 0 then none else (upd s.hs k _ x).d) = _
            rw [proj_slot_upd]; rfl
          · rfl
          · rfl
          · rfl
          · rfl
  | assign k j =>
    have kn : k < s.n := hb k (by simp [RefPtr.Op.slots])
    have jn : j < s.n := hb j (by simp [RefPtr.Op.slots])
    simp only [embed]
    by_cases c : (s.hs k).psz ≠ 0 ∧ (s.hs j).psz ≠ 0
    · rw [if_pos c]
      obtain ⟨kp, jp⟩ := c
      obtain ⟨o, h1, h2, sl, _, _, z1, z2⟩ := occupied I E kn kp
      obtain ⟨o', g1, g2, sl', _⟩ := occupied I E jn jp
      rw [step_eq_core I _ (by intro x hx; simp [Op.handles] at hx; omega)]
      show ESim s (logcopy s j k) _
      by_cases ne : j = k
      · have : logcopy s j k = s := by unfold logcopy; rw [if_pos ne]
        rw [this]
        refine ⟨I, E, rfl, ?_⟩
        show proj s = match (proj s).slot k, (proj s).slot j with
          | some o, some o' => if k = j then proj s else _ | _, _ => proj s
        rw [sl, sl']; dsimp only; rw [if_pos ne.symm]
      · have G := logcopy_good I jn kn
        have D := destroy_inv I jn
        have lc : logcopy s j k = attachShare (destroy s j) j k := by
          unfold logcopy; rw [if_neg ne]
          simp only [D.1.nofault, Bool.false_eq_true, ↓reduceIte]
        have kn1 : k < (destroy s j).n := by rw [D.2.2]; exact kn
        have ksame : (destroy s j).hs k = s.hs k := (frame_destroy s j).2 k (fun q => ne q.symm)
        have kp1 : ((destroy s j).hs k).psz ≠ 0 := by rw [ksame]; exact kp
        obtain ⟨c', hc', eq⟩ := attachShare_eq D.1 j kn1 kp1
        have ec : c' = o := by rw [ksame, h1] at hc'; exact (Option.some.inj hc').symm
        rw [ec, ksame] at eq
        have RP : RefPtr.step (proj s) (.assign k j) =
            { (RefPtr.release (proj s) o') with
              slot := RefPtr.updR (RefPtr.release (proj s) o').slot j (some o),
              cnt := RefPtr.updR (RefPtr.release (proj s) o').cnt o ((RefPtr.release (proj s) o').cnt o + 1) } := by
          show (match (proj s).slot k, (proj s).slot j with
            | some o, some o' => if k = j then proj s else _ | _, _ => proj s) = _
          rw [sl, sl']; dsimp only; rw [if_neg (fun q => ne q.symm)]
        have HH : (⟨some o, (s.hs k).size, (s.hs k).psz, (s.hs k).d⟩ : Handle).psz ≠ 0 →
            (⟨some o, (s.hs k).size, (s.hs k).psz, (s.hs k).d⟩ : Handle).cnt = (⟨some o, (s.hs k).size, (s.hs k).psz, (s.hs k).d⟩ : Handle).d ∧
            (⟨some o, (s.hs k).size, (s.hs k).psz, (s.hs k).d⟩ : Handle).size = 1 ∧
            (⟨some o, (s.hs k).size, (s.hs k).psz, (s.hs k).d⟩ : Handle).psz = 1 :=
          fun _ => ⟨by show some o = (s.hs k).d; rw [h2], z1, z2⟩
        refine ⟨G.inv, ?_, G.frame.1, ?_⟩
        · rw [lc, eq]
          rcases destroy_occupied I E jn g1 g2 with ⟨_, e⟩ | ⟨_, e⟩
          · rw [e]
            exact onecell_upd E j _ (upd_upd _ _ _ _) rfl E.next (live_upd_false E o') HH
          · rw [e]
            exact onecell_upd E j _ (upd_upd _ _ _ _) rfl E.next E.live HH
        · rw [lc, RP, eq]
          unfold RefPtr.release
          rcases destroy_occupied I E jn g1 g2 with ⟨v0, e⟩ | ⟨v0, e⟩
          · have v0' : (proj s).cnt o' - 1 = 0 := v0
            rw [e]; simp only [v0', ↓reduceIte]
            apply st_ext
            · show (fun x => if (upd (upd s.hs j Handle.empty) j _ x).psz = 0 then none else (upd (upd s.hs j Handle.empty) j _ x).d) = _
              rw [upd_upd, proj_slot_upd]
              show RefPtr.updR _ j (if (s.hs k).psz = 0 then none else (s.hs k).d) = _
              rw [if_neg kp, h2]; rfl
            · rfl
            · rfl
            · rfl
            · rfl
          · have v0' : ¬ (proj s).cnt o' - 1 = 0 := v0
            rw [e]; simp only [v0', ↓reduceIte]
            apply st_ext
            · show (fun x => if (upd (upd s.hs j Handle.empty) j _ x).psz = 0 then none else (upd (upd s.hs j Handle.empty) j _ x).d) = _
              rw [upd_upd, proj_slot_upd]
              show RefPtr.updR _ j (if (s.hs k).psz = 0 then none else (s.hs k).d) = _
              rw [if_neg kp, h2]; rfl
            · rfl
            · rfl
            · rfl
            · rfl
    · rw [if_neg c]
      refine ⟨I, E, rfl, ?_⟩
      show proj s = match (proj s).slot k, (proj s).slot j with
        | some o, some o' => if k = j then proj s else _ | _, _ => proj s
      by_cases kp : (s.hs k).psz = 0
      · rw [empty_slot kp]
      · have jp : (s.hs j).psz = 0 := Classical.byContradiction (fun q => c ⟨kp, q⟩)
        obtain ⟨o, _, _, sl, _⟩ := occupied I E kn kp
        rw [sl, empty_slot jp]

theorem erun_sim (ops : List RefPtr.Op) : ∀ {s : State Nat}, Inv s → OneCell s →
    (∀ op, op ∈ ops → ∀ k, k ∈ op.slots → k < s.n) →
    Inv (erun s ops) ∧ OneCell (erun s ops) ∧ (erun s ops).n = s.n ∧ proj (erun s ops) = RefPtr.run (proj s) ops := by
  induction ops with
  | nil => intro s I E _; exact ⟨I, E, rfl, rfl⟩
  | cons op rest ih =>
    intro s I E hb
    have S := embed_sim I E op (hb op List.mem_cons_self)
    have R := ih S.inv S.one (fun o ho k hk => by rw [S.n]; exact hb o (List.mem_cons_of_mem _ ho) k hk)
    refine ⟨R.1, R.2.1, R.2.2.1.trans S.n, ?_⟩
    show proj (erun (embed s op) rest) = RefPtr.run (RefPtr.step (proj s) op) rest
    rw [R.2.2.2, S.sim]

theorem proj_init (n : Nat) : proj (init Nat n) = RefPtr.St.init := rfl

end Givaro.Model.Array0
