/-
C14 — RNSsystemFixed: (A) the table the constructor builds by binary-counter carries is the closed form `levelsFrom`
(level L = `encode` of the L-fold pairwise products); (B) `RnsToRingLeft/Right` on that table compute, node by node, the pairwise
recombination `pairSolve`; (C) the unpaired nodes (`collect`) carry a congruence system equivalent to the original one, with pairwise
coprime moduli of the same product, so the final Garner step returns the unique integer.
-/
import GivaroModel.Lemmas.CRTSys
import GivaroModel.Lemmas.CRTOps

namespace Givaro.Lemmas.CRT
open Givaro.Model.CRT
open Givaro.Spec.CRT (prod)

/-! ### (A) the constructor's table in closed form -/

/-- the recombination constant stored in the slot of `p1`: `(p0^{-1} mod p1) * p0` -/
def Mof (cof : Int → Int → Int) (p0 p1 : Int) : Int := ((cof p1 (p0 % p1)) % p1) * p0

def pairProd : List Int → List Int
  | a :: b :: t => a * b :: pairProd t
  | _ => []

/-- a level as stored: even positions keep the (sub)product, odd positions are overwritten by the constant of their pair -/
def encode (cof : Int → Int → Int) : List Int → List Int
  | a :: b :: t => a :: Mof cof a b :: encode cof t
  | l => l

theorem length_pairProd : ∀ V : List Int, (pairProd V).length = V.length / 2
  | [] => rfl
  | [_] => by simp [pairProd]
  | a :: b :: t => by simp [pairProd, length_pairProd t]; omega

theorem length_encode (cof : Int → Int → Int) : ∀ V : List Int, (encode cof V).length = V.length
  | [] => rfl
  | [_] => rfl
  | a :: b :: t => by simp [encode, length_encode cof t]

def levelsFrom (cof : Int → Int → Int) (V : List Int) : List (List Int) :=
  if h : V = [] then [] else encode cof V :: levelsFrom cof (pairProd V)
termination_by V.length
decreasing_by
  rw [length_pairProd]
  have : 0 < V.length := List.length_pos_of_ne_nil h
  omega

theorem levelsFrom_nil (cof : Int → Int → Int) : levelsFrom cof [] = [] := by
  rw [levelsFrom]; simp

theorem levelsFrom_ne (cof : Int → Int → Int) {V : List Int} (h : V ≠ []) :
    levelsFrom cof V = encode cof V :: levelsFrom cof (pairProd V) := by
  rw [levelsFrom]; simp [h]

theorem encode_append_even (cof : Int → Int → Int) : ∀ (V W : List Int), V.length % 2 = 0 →
    encode cof (V ++ W) = encode cof V ++ encode cof W
  | [], W, _ => by simp [encode]
  | [_], _, h => by simp at h
  | a :: b :: t, W, h => by
    have h' : t.length % 2 = 0 := by simp at h; omega
    simp [encode, encode_append_even cof t W h']

theorem pairProd_append_even : ∀ (V W : List Int), V.length % 2 = 0 → pairProd (V ++ W) = pairProd V ++ pairProd W
  | [], W, _ => by simp [pairProd]
  | [_], _, h => by simp at h
  | a :: b :: t, W, h => by
    have h' : t.length % 2 = 0 := by simp at h; omega
    simp [pairProd, pairProd_append_even t W h']

theorem odd_decompose (V : List Int) (h : V.length % 2 = 1) : ∃ V' a, V = V' ++ [a] ∧ V'.length % 2 = 0 := by
  have hne : V ≠ [] := by intro h0; subst h0; simp at h
  refine ⟨V.dropLast, V.getLast hne, (List.dropLast_append_getLast hne).symm, ?_⟩
  rw [List.length_dropLast]
  have : 0 < V.length := List.length_pos_of_ne_nil hne
  omega

theorem fixedPairLast_append (cof : Int → Int → Int) (X : List Int) (a p : Int) :
    fixedPairLast cof (X ++ [a, p]) = (X ++ [a, Mof cof a p], a * p) := by
  unfold fixedPairLast Mof
  simp

theorem fixedLoop_ne_nil (cof : Int → Int → Int) : ∀ (rest : List (List Int)) (cur : List Int), fixedLoop cof cur rest ≠ []
  | [], cur => by simp [fixedLoop]
  | next :: rest, cur => by
    unfold fixedLoop
    split <;> simp

theorem fixedClose_cons (cof : Int → Int → Int) (x : List Int) {L : List (List Int)} (hL : L ≠ []) :
    fixedClose cof (x :: L) = x :: fixedClose cof L := by
  obtain ⟨init, top, rfl⟩ : ∃ init top, L = init ++ [top] :=
    ⟨L.dropLast, L.getLast hL, (List.dropLast_append_getLast hL).symm⟩
  unfold fixedClose
  simp only [List.reverse_cons, List.reverse_append, List.reverse_nil, List.nil_append, List.singleton_append,
    List.cons_append]
  split <;> simp

/-- the last level of the closed form is a singleton (so the top level has odd size between two pushes) -/
theorem levelsFrom_last (cof : Int → Int → Int) : ∀ (n : ℕ) (V : List Int), V.length = n → V ≠ [] →
    ∃ init v, levelsFrom cof V = init ++ [[v]] := by
  intro n
  induction n using Nat.strong_induction_on with
  | _ n ih =>
    intro V hn hne
    rw [levelsFrom_ne cof hne]
    by_cases hp : pairProd V = []
    · rw [hp, levelsFrom_nil]
      -- V has length 1
      have hl : V.length / 2 = 0 := by rw [← length_pairProd, hp]; rfl
      match V, hne, hl with
      | [a], _, _ => exact ⟨[], a, by simp [encode]⟩
      | _ :: _ :: _, _, hl => simp at hl; omega
    · have hlt : (pairProd V).length < n := by
        rw [length_pairProd, hn]
        have : 0 < V.length := List.length_pos_of_ne_nil hne
        omega
      obtain ⟨init, v, hiv⟩ := ih _ hlt (pairProd V) rfl hp
      exact ⟨encode cof V :: init, v, by rw [hiv]; simp⟩

theorem fixedClose_levelsFrom (cof : Int → Int → Int) (x : List Int) {V : List Int} (hne : V ≠ []) :
    fixedClose cof (x :: levelsFrom cof V) = x :: levelsFrom cof V := by
  obtain ⟨init, v, hiv⟩ := levelsFrom_last cof V.length V rfl hne
  rw [hiv]
  unfold fixedClose
  simp

/-- one push on the closed form is the closed form of the extended list -/
theorem push_step (cof : Int → Int → Int) : ∀ (n : ℕ) (V : List Int) (p : Int), V.length = n → V ≠ [] →
    fixedClose cof (fixedLoop cof (encode cof V ++ [p]) (levelsFrom cof (pairProd V))) = levelsFrom cof (V ++ [p]) := by
  intro n
  induction n using Nat.strong_induction_on with
  | _ n ih =>
    intro V p hn hne
    have hVp : V ++ [p] ≠ [] := by simp
    rw [levelsFrom_ne cof hVp]
    rcases Nat.mod_two_eq_zero_or_one V.length with hev | hodd
    · -- |V| even: the new level 0 has odd size, the loop breaks at once
      have hlen2 : 2 ≤ V.length := by
        have : 0 < V.length := List.length_pos_of_ne_nil hne
        omega
      have hW : pairProd V ≠ [] := by
        intro h0
        have := length_pairProd V
        rw [h0] at this
        simp at this
        omega
      rw [encode_append_even cof V [p] hev, pairProd_append_even V [p] hev]
      simp only [encode, pairProd, List.append_nil]
      rw [levelsFrom_ne cof hW]
      have hcur : (encode cof V ++ [p]).length % 2 = 1 := by
        rw [List.length_append, length_encode]; simp; omega
      unfold fixedLoop
      simp only [hcur, ↓reduceIte]
      rw [← levelsFrom_ne cof hW]
      exact fixedClose_levelsFrom cof _ hW
    · -- |V| odd: the last entry `a` of level 0 is paired with `p`
      obtain ⟨V', a, rfl, hev'⟩ := odd_decompose V hodd
      have e1 : encode cof (V' ++ [a]) = encode cof V' ++ [a] := by
        rw [encode_append_even cof V' [a] hev']; simp [encode]
      have e2 : pairProd (V' ++ [a]) = pairProd V' := by
        rw [pairProd_append_even V' [a] hev']; simp [pairProd]
      have e3 : encode cof (V' ++ [a] ++ [p]) = encode cof V' ++ [a, Mof cof a p] := by
        rw [List.append_assoc, encode_append_even cof V' _ hev']; simp [encode]
      have e4 : pairProd (V' ++ [a] ++ [p]) = pairProd V' ++ [a * p] := by
        rw [List.append_assoc, pairProd_append_even V' _ hev']; simp [pairProd]
      rw [e1, e2, e3, e4]
      have hcur : (encode cof V' ++ [a] ++ [p]).length % 2 = 0 := by
        simp only [List.length_append, length_encode, List.length_cons, List.length_nil]; omega
      have hpl : fixedPairLast cof (encode cof V' ++ [a] ++ [p]) = (encode cof V' ++ [a, Mof cof a p], a * p) := by
        rw [List.append_assoc]; exact fixedPairLast_append cof _ a p
      by_cases hW : pairProd V' = []
      · -- only one level so far: the loop does not run, the closing step opens level 1
        rw [hW, levelsFrom_nil]
        have hV' : V' = [] := by
          have := length_pairProd V'
          rw [hW] at this
          simp at this
          have h2 : V'.length = 0 := by omega
          exact List.eq_nil_of_length_eq_zero h2
        subst hV'
        simp only [encode, List.nil_append]
        unfold fixedLoop fixedClose
        simp only [List.reverse_cons, List.reverse_nil, List.nil_append, List.cons_append, List.length_cons, List.length_nil]
        have : fixedPairLast cof [a, p] = ([a, Mof cof a p], a * p) := by
          have := fixedPairLast_append cof [] a p
          simpa using this
        simp [this]
        have hap : [a * p] ≠ [] := by simp
        rw [levelsFrom_ne cof hap]
        simp [encode, pairProd, levelsFrom_nil]
      · rw [levelsFrom_ne cof hW]
        unfold fixedLoop
        have hnot : ¬ ((encode cof V' ++ [a] ++ [p]).length % 2 = 1) := by omega
        simp only [hnot, ↓reduceIte, hpl]
        rw [fixedClose_cons cof _ (fixedLoop_ne_nil cof _ _)]
        have hlt : (pairProd V').length < n := by
          rw [length_pairProd, ← hn]
          simp only [List.length_append, List.length_cons, List.length_nil]
          omega
        rw [ih _ hlt (pairProd V') (a * p) rfl hW]

theorem fixedPush_levelsFrom (cof : Int → Int → Int) {V : List Int} (hne : V ≠ []) (p : Int) :
    fixedPush cof (levelsFrom cof V) p = levelsFrom cof (V ++ [p]) := by
  rw [levelsFrom_ne cof hne]
  unfold fixedPush
  exact push_step cof V.length V p rfl hne

theorem fixedBuild_eq (cof : Int → Int → Int) {ps : List Int} (hne : ps ≠ []) : fixedBuild cof ps = levelsFrom cof ps := by
  unfold fixedBuild
  cases ps with
  | nil => exact absurd rfl hne
  | cons p0 qs =>
    have h0 : fixedPush cof [[]] p0 = levelsFrom cof [p0] := by
      have hp : [p0] ≠ [] := by simp
      rw [levelsFrom_ne cof hp]
      unfold fixedPush fixedLoop fixedClose
      simp [encode, pairProd, levelsFrom_nil]
    simp only [List.foldl_cons, h0]
    suffices h : ∀ (qs V : List Int), V ≠ [] → qs.foldl (fixedPush cof) (levelsFrom cof V) = levelsFrom cof (V ++ qs) by
      have := h qs [p0] (by simp)
      simpa using this
    intro qs
    induction qs with
    | nil => intro V _; simp
    | cons q qs ih =>
      intro V hV
      simp only [List.foldl_cons]
      rw [fixedPush_levelsFrom cof hV q, ih (V ++ [q]) (by simp)]
      simp

/-! ### (B) `RnsToRingLeft/Right` compute the pairwise recombination, node by node -/

/-- a node: (product of the moduli below it, the recombined residue) -/
def combine (cof : Int → Int → Int) (n0 n1 : Int × Int) : Int × Int :=
  (n0.1 * n1.1, ((n1.2 - n0.2) * Mof cof n0.1 n1.1 + n0.2) % (n0.1 * n1.1))

def pairSolve (cof : Int → Int → Int) : List (Int × Int) → List (Int × Int)
  | a :: b :: t => combine cof a b :: pairSolve cof t
  | _ => []

theorem length_pairSolve (cof : Int → Int → Int) : ∀ S : List (Int × Int), (pairSolve cof S).length = S.length / 2
  | [] => rfl
  | [_] => by simp [pairSolve]
  | a :: b :: t => by simp [pairSolve, length_pairSolve cof t]; omega

theorem map_fst_pairSolve (cof : Int → Int → Int) : ∀ S : List (Int × Int),
    (pairSolve cof S).map Prod.fst = pairProd (S.map Prod.fst)
  | [] => rfl
  | [_] => by simp [pairSolve, pairProd]
  | a :: b :: t => by simp [pairSolve, pairProd, combine, map_fst_pairSolve cof t]

theorem map_fst_iter (cof : Int → Int → Int) (S : List (Int × Int)) : ∀ L : ℕ,
    ((pairSolve cof)^[L] S).map Prod.fst = pairProd^[L] (S.map Prod.fst) := by
  intro L
  induction L generalizing S with
  | zero => rfl
  | succ L ih => rw [Function.iterate_succ_apply, Function.iterate_succ_apply, ih, map_fst_pairSolve]

theorem getD_map_fst (S : List (Int × Int)) (k : ℕ) : (S.map Prod.fst).getD k 0 = (S.getD k (0, 0)).1 := by
  induction S generalizing k with
  | nil => simp
  | cons a S ih => cases k with
    | zero => simp
    | succ k => simpa using ih k

theorem pairSolve_getD (cof : Int → Int → Int) : ∀ (S : List (Int × Int)) (c : ℕ), 2 * c + 1 < S.length →
    (pairSolve cof S).getD c (0, 0) = combine cof (S.getD (2 * c) (0, 0)) (S.getD (2 * c + 1) (0, 0))
  | [], c, h => by simp at h
  | [_], c, h => by simp at h
  | a :: b :: t, 0, _ => by simp [pairSolve]
  | a :: b :: t, c + 1, h => by
    have h' : 2 * c + 1 < t.length := by simp at h; omega
    have e1 : 2 * (c + 1) = (2 * c) + 1 + 1 := by ring
    rw [e1]
    simp only [pairSolve, List.getD_cons_succ]
    exact pairSolve_getD cof t c h'

theorem encode_getD_odd (cof : Int → Int → Int) : ∀ (V : List Int) (c : ℕ), 2 * c + 1 < V.length →
    (encode cof V).getD (2 * c + 1) 0 = Mof cof (V.getD (2 * c) 0) (V.getD (2 * c + 1) 0)
  | [], c, h => by simp at h
  | [_], c, h => by simp at h
  | a :: b :: t, 0, _ => by simp [encode]
  | a :: b :: t, c + 1, h => by
    have h' : 2 * c + 1 < t.length := by simp at h; omega
    have e1 : 2 * (c + 1) = (2 * c) + 1 + 1 := by ring
    rw [e1]
    simp only [encode, List.getD_cons_succ]
    exact encode_getD_odd cof t c h'

theorem encode_getD_even (cof : Int → Int → Int) : ∀ (V : List Int) (c : ℕ),
    (encode cof V).getD (2 * c) 0 = V.getD (2 * c) 0
  | [], c => by simp [encode]
  | [_], c => by simp [encode]
  | a :: b :: t, 0 => by simp [encode]
  | a :: b :: t, c + 1 => by
    have e1 : 2 * (c + 1) = (2 * c) + 1 + 1 := by ring
    rw [e1]
    simp only [encode, List.getD_cons_succ]
    exact encode_getD_even cof t c

theorem iter_pairProd_nil : ∀ L : ℕ, pairProd^[L] [] = []
  | 0 => rfl
  | L + 1 => by rw [Function.iterate_succ_apply]; simp [pairProd, iter_pairProd_nil L]

theorem levelsFrom_getD (cof : Int → Int → Int) : ∀ (L : ℕ) (V : List Int),
    (levelsFrom cof V).getD L [] = encode cof (pairProd^[L] V) := by
  intro L
  induction L with
  | zero =>
    intro V
    by_cases h : V = []
    · subst h; simp [levelsFrom_nil, encode]
    · rw [levelsFrom_ne cof h]; simp
  | succ L ih =>
    intro V
    by_cases h : V = []
    · subst h; rw [levelsFrom_nil, iter_pairProd_nil]; simp [encode]
    · rw [levelsFrom_ne cof h, Function.iterate_succ_apply]
      simp only [List.getD_cons_succ]
      exact ih (pairProd V)

theorem key_cong {u0 u1 w1 k P0 P1 : Int} (h : u1 ≡ w1 [ZMOD P1]) :
    (u1 - u0) * (k * P0) + u0 ≡ (w1 - u0) * (k * P0) + u0 [ZMOD P0 * P1] := by
  rw [Int.modEq_iff_dvd]
  obtain ⟨t, ht⟩ := h.dvd
  exact ⟨t * k, by linear_combination (k * P0) * ht⟩

theorem zip_getD (ps rs : List Int) (c : ℕ) (h1 : c < ps.length) (h2 : c < rs.length) :
    (ps.zip rs).getD c (0, 0) = (ps.getD c 0, rs.getD c 0) := by
  induction ps generalizing rs c with
  | nil => simp at h1
  | cons p ps ih =>
    cases rs with
    | nil => simp at h2
    | cons r rs =>
      cases c with
      | zero => simp
      | succ c =>
        simp only [List.zip_cons_cons, List.getD_cons_succ]
        exact ih rs c (by simpa using h1) (by simpa using h2)

/-- what `RnsToRingRight` (unreduced) and `RnsToRingLeft` (reduced, even column) return on the constructor's table -/
theorem fixedRec_spec (cof : Int → Int → Int) (ps rs : List Int) (hlen : ps.length = rs.length) : ∀ (L c : ℕ),
    c < ((pairSolve cof)^[L] (ps.zip rs)).length →
    fixedRec (levelsFrom cof ps) rs false L c ≡ (((pairSolve cof)^[L] (ps.zip rs)).getD c (0, 0)).2
      [ZMOD (((pairSolve cof)^[L] (ps.zip rs)).getD c (0, 0)).1] ∧
    (c % 2 = 0 → fixedRec (levelsFrom cof ps) rs true L c = (((pairSolve cof)^[L] (ps.zip rs)).getD c (0, 0)).2) := by
  intro L
  induction L with
  | zero =>
    intro c hc
    simp only [Function.iterate_zero, id_eq] at hc ⊢
    have hc1 : c < ps.length := by simp [List.length_zip, hlen] at hc; omega
    have hc2 : c < rs.length := by omega
    rw [zip_getD ps rs c hc1 hc2]
    simp only [fixedRec]
    exact ⟨Int.ModEq.refl _, fun _ => trivial⟩
  | succ L ih =>
    intro c hc
    rw [Function.iterate_succ_apply'] at hc ⊢
    set S := (pairSolve cof)^[L] (ps.zip rs) with hS
    have h2c : 2 * c + 1 < S.length := by
      rw [length_pairSolve] at hc; omega
    rw [pairSolve_getD cof S c h2c]
    set n0 := S.getD (2 * c) (0, 0) with hn0
    set n1 := S.getD (2 * c + 1) (0, 0) with hn1
    obtain ⟨_, ih0⟩ := ih (2 * c) (by omega)
    obtain ⟨ih1, _⟩ := ih (2 * c + 1) h2c
    have hu0 : fixedRec (levelsFrom cof ps) rs true L (2 * c) = n0.2 := ih0 (by omega)
    have hV : pairProd^[L] ps = S.map Prod.fst := by
      rw [hS, map_fst_iter]
      congr 1
      have : ∀ (ps rs : List Int), ps.length = rs.length → (ps.zip rs).map Prod.fst = ps := by
        intro ps
        induction ps with
        | nil => intro rs _; simp
        | cons p ps ihp =>
          intro rs h
          cases rs with
          | nil => simp at h
          | cons r rs => simp [ihp rs (by simpa using h)]
      exact (this ps rs hlen).symm
    have hM : ((levelsFrom cof ps).getD L []).getD (2 * c + 1) 0 = Mof cof n0.1 n1.1 := by
      rw [levelsFrom_getD, hV, encode_getD_odd cof _ c (by simpa using h2c), getD_map_fst, getD_map_fst]
    have hkey : (fixedRec (levelsFrom cof ps) rs false L (2 * c + 1) - n0.2) * Mof cof n0.1 n1.1 + n0.2 ≡
        (n1.2 - n0.2) * Mof cof n0.1 n1.1 + n0.2 [ZMOD n0.1 * n1.1] := by
      unfold Mof
      exact key_cong ih1
    simp only [fixedRec, hu0, hM, combine]
    refine ⟨?_, ?_⟩
    · simp only [Bool.false_eq_true, ↓reduceIte]
      exact hkey.trans (Int.mod_modEq _ _).symm
    · intro hce
      simp only [↓reduceIte]
      have hden : ((levelsFrom cof ps).getD (L + 1) []).getD c 0 = n0.1 * n1.1 := by
        obtain ⟨c', rfl⟩ : ∃ c', c = 2 * c' := ⟨c / 2, by omega⟩
        rw [levelsFrom_getD, encode_getD_even]
        have hV' : pairProd^[L + 1] ps = (pairSolve cof S).map Prod.fst := by
          rw [Function.iterate_succ_apply', hV, map_fst_pairSolve]
        rw [hV', getD_map_fst, pairSolve_getD cof S (2 * c') h2c]
        simp [combine, hn0, hn1]
      rw [hden]
      exact hkey

/-! ### (C) the unpaired nodes carry an equivalent system with pairwise coprime moduli of the same product -/

def oddLast {α : Type} : List α → List α
  | _ :: _ :: t => oddLast t
  | l => l

def Sat (x : Int) (S : List (Int × Int)) : Prop := ∀ n ∈ S, x ≡ n.2 [ZMOD n.1]
def Canonical (S : List (Int × Int)) : Prop := ∀ n ∈ S, 0 ≤ n.2 ∧ n.2 < n.1
def Coprimes (S : List (Int × Int)) : Prop := (S.map Prod.fst).Pairwise IsCoprime

theorem mem_oddLast {α : Type} : ∀ (S : List α) (a : α), a ∈ oddLast S → a ∈ S
  | [], a, h => by simp [oddLast] at h
  | [b], a, h => by simpa [oddLast] using h
  | _ :: _ :: t, a, h => by
    simp only [oddLast] at h
    exact List.mem_cons_of_mem _ (List.mem_cons_of_mem _ (mem_oddLast t a h))

theorem length_oddLast_le {α : Type} : ∀ (S : List α), (oddLast S).length ≤ 1
  | [] => by simp [oddLast]
  | [_] => by simp [oddLast]
  | _ :: _ :: t => by simp only [oddLast]; exact length_oddLast_le t

theorem oddLast_odd : ∀ (S : List (Int × Int)), S.length % 2 = 1 → oddLast S = [S.getD (S.length - 1) (0, 0)]
  | [], h => by simp at h
  | [a], _ => by simp [oddLast]
  | a :: b :: t, h => by
    have h' : t.length % 2 = 1 := by simp at h; omega
    have hpos : 0 < t.length := by omega
    simp only [oddLast]
    rw [oddLast_odd t h']
    have e : (a :: b :: t).length - 1 = (t.length - 1) + 1 + 1 := by simp; omega
    rw [e]
    simp

theorem oddLast_even : ∀ (S : List (Int × Int)), S.length % 2 = 0 → oddLast S = []
  | [], _ => by simp [oddLast]
  | [a], h => by simp at h
  | a :: b :: t, h => by
    have h' : t.length % 2 = 0 := by simp at h; omega
    simp only [oddLast]
    exact oddLast_even t h'

theorem Mof_props {cof : Int → Int → Int} (hcof : CofOK cof) {P0 P1 : Int} (hP1 : 0 < P1) (hco : IsCoprime P0 P1) :
    Mof cof P0 P1 ≡ 1 [ZMOD P1] ∧ Mof cof P0 P1 ≡ 0 [ZMOD P0] := by
  refine ⟨?_, ?_⟩
  · unfold Mof
    have hx : P0 % P1 ≡ P0 [ZMOD P1] := Int.mod_modEq _ _
    have := cof_inverts hcof hP1 (Int.emod_nonneg P0 (ne_of_gt hP1)) hx hco.symm
    exact ((Int.mod_modEq _ _).mul hx.symm).trans this
  · unfold Mof
    rw [Int.modEq_zero_iff_dvd]
    exact dvd_mul_left _ _

theorem combine_props {cof : Int → Int → Int} (hcof : CofOK cof) {n0 n1 : Int × Int}
    (h0 : 0 ≤ n0.2 ∧ n0.2 < n0.1) (h1 : 0 ≤ n1.2 ∧ n1.2 < n1.1) (hco : IsCoprime n0.1 n1.1) :
    (combine cof n0 n1).2 ≡ n0.2 [ZMOD n0.1] ∧ (combine cof n0 n1).2 ≡ n1.2 [ZMOD n1.1] ∧
    0 ≤ (combine cof n0 n1).2 ∧ (combine cof n0 n1).2 < (combine cof n0 n1).1 := by
  have hP0 : 0 < n0.1 := lt_of_le_of_lt h0.1 h0.2
  have hP1 : 0 < n1.1 := lt_of_le_of_lt h1.1 h1.2
  have hPP : 0 < n0.1 * n1.1 := mul_pos hP0 hP1
  obtain ⟨hM1, hM0⟩ := Mof_props hcof hP1 hco
  simp only [combine]
  have hv : ((n1.2 - n0.2) * Mof cof n0.1 n1.1 + n0.2) % (n0.1 * n1.1) ≡ (n1.2 - n0.2) * Mof cof n0.1 n1.1 + n0.2
      [ZMOD n0.1 * n1.1] := Int.mod_modEq _ _
  refine ⟨?_, ?_, Int.emod_nonneg _ (ne_of_gt hPP), Int.emod_lt_of_pos _ hPP⟩
  · refine (Int.ModEq.of_mul_right _ hv).trans ?_
    have := (((Int.ModEq.refl (n1.2 - n0.2)).mul hM0)).add_right n0.2
    simpa using this
  · refine (Int.ModEq.of_mul_left _ hv).trans ?_
    have := (((Int.ModEq.refl (n1.2 - n0.2)).mul hM1)).add_right n0.2
    have e : (n1.2 - n0.2) * 1 + n0.2 = n1.2 := by ring
    rw [e] at this
    exact this

theorem sat_pair {cof : Int → Int → Int} (hcof : CofOK cof) (x : Int) : ∀ (S : List (Int × Int)), Canonical S → Coprimes S →
    Sat x (pairSolve cof S) → Sat x (oddLast S) → Sat x S
  | [], _, _, _, _ => by intro n hn; simp at hn
  | [a], _, _, _, h => by simpa [oddLast] using h
  | a :: b :: t, hc, hp, h1, h2 => by
    have hca := hc a (by simp)
    have hcb := hc b (by simp)
    have hpw := List.pairwise_cons.mp hp
    have hab : IsCoprime a.1 b.1 := hpw.1 b.1 (by simp)
    obtain ⟨c0, c1, _, _⟩ := combine_props hcof hca hcb hab
    have hx : x ≡ (combine cof a b).2 [ZMOD a.1 * b.1] := by
      have := h1 (combine cof a b) (by simp [pairSolve])
      simpa [combine] using this
    have hrest : Sat x t := by
      apply sat_pair hcof x t (fun n hn => hc n (by simp [hn]))
      · have := (List.pairwise_cons.mp hpw.2).2
        exact this
      · intro n hn; exact h1 n (by simp [pairSolve, hn])
      · simpa [oddLast] using h2
    intro n hn
    simp only [List.mem_cons] at hn
    rcases hn with rfl | rfl | hn
    · exact (Int.ModEq.of_mul_right _ hx).trans c0
    · exact (Int.ModEq.of_mul_left _ hx).trans c1
    · exact hrest n hn

theorem coprime_closure (cof : Int → Int → Int) (q : Int) : ∀ (S : List (Int × Int)), (∀ n ∈ S, IsCoprime q n.1) →
    ∀ m ∈ pairSolve cof S ++ oddLast S, IsCoprime q m.1
  | [], _ => by intro m hm; simp [pairSolve, oddLast] at hm
  | [a], h => by intro m hm; simp only [pairSolve, oddLast, List.nil_append] at hm; exact h m hm
  | a :: b :: t, h => by
    intro m hm
    simp only [pairSolve, oddLast, List.cons_append, List.mem_cons] at hm
    rcases hm with rfl | hm
    · simp only [combine]
      exact IsCoprime.mul_right (h a (by simp)) (h b (by simp))
    · exact coprime_closure cof q t (fun n hn => h n (by simp [hn])) m hm

theorem step_props {cof : Int → Int → Int} (hcof : CofOK cof) : ∀ (S : List (Int × Int)), Canonical S → Coprimes S →
    Canonical (pairSolve cof S ++ oddLast S) ∧ Coprimes (pairSolve cof S ++ oddLast S) ∧
    prod ((pairSolve cof S ++ oddLast S).map Prod.fst) = prod (S.map Prod.fst)
  | [], _, _ => by simp [pairSolve, oddLast, Canonical, Coprimes]
  | [a], hc, _ => by
    refine ⟨?_, ?_, ?_⟩
    · simpa [pairSolve, oddLast] using hc
    · simp [pairSolve, oddLast, Coprimes]
    · simp [pairSolve, oddLast]
  | a :: b :: t, hc, hp => by
    have hca := hc a (by simp)
    have hcb := hc b (by simp)
    have hpw := List.pairwise_cons.mp hp
    have hpw2 := List.pairwise_cons.mp hpw.2
    have hab : IsCoprime a.1 b.1 := hpw.1 b.1 (by simp)
    obtain ⟨_, _, r0, r1⟩ := combine_props hcof hca hcb hab
    obtain ⟨i1, i2, i3⟩ := step_props hcof t (fun n hn => hc n (by simp [hn])) hpw2.2
    refine ⟨?_, ?_, ?_⟩
    · intro n hn
      simp only [pairSolve, oddLast, List.cons_append, List.mem_cons] at hn
      rcases hn with rfl | hn
      · exact ⟨r0, r1⟩
      · exact i1 n hn
    · simp only [Coprimes, pairSolve, oddLast, List.cons_append, List.map_cons, List.pairwise_cons]
      refine ⟨?_, i2⟩
      intro m hm
      obtain ⟨n, hn, rfl⟩ := List.mem_map.mp hm
      simp only [combine]
      have ha : IsCoprime a.1 n.1 :=
        coprime_closure cof a.1 t (fun k hk => hpw.1 k.1 (by simp; exact Or.inr ⟨k.2, hk⟩)) n hn
      have hb : IsCoprime b.1 n.1 :=
        coprime_closure cof b.1 t (fun k hk => hpw2.1 k.1 (by simp; exact ⟨k.2, hk⟩)) n hn
      exact IsCoprime.mul_left ha hb
    · simp only [pairSolve, oddLast, List.cons_append, List.map_cons, prod, combine]
      rw [i3]; ring

def collect (cof : Int → Int → Int) (S : List (Int × Int)) : List (Int × Int) :=
  if h : S = [] then [] else oddLast S ++ collect cof (pairSolve cof S)
termination_by S.length
decreasing_by
  rw [length_pairSolve]
  have : 0 < S.length := List.length_pos_of_ne_nil h
  omega

theorem collect_nil (cof : Int → Int → Int) : collect cof [] = [] := by rw [collect]; simp

theorem collect_ne (cof : Int → Int → Int) {S : List (Int × Int)} (h : S ≠ []) :
    collect cof S = oddLast S ++ collect cof (pairSolve cof S) := by
  rw [collect]; simp [h]

theorem prod_append' (l k : List Int) : prod (l ++ k) = prod l * prod k := prod_append l k

theorem collect_props {cof : Int → Int → Int} (hcof : CofOK cof) : ∀ (n : ℕ) (S : List (Int × Int)), S.length = n →
    Canonical S → Coprimes S →
    Canonical (collect cof S) ∧ Coprimes (collect cof S) ∧ prod ((collect cof S).map Prod.fst) = prod (S.map Prod.fst) ∧
    (∀ x, Sat x (collect cof S) → Sat x S) ∧
    (∀ q, (∀ k ∈ S, IsCoprime q k.1) → ∀ m ∈ collect cof S, IsCoprime q m.1) := by
  intro n
  induction n using Nat.strong_induction_on with
  | _ n ih =>
    intro S hn hc hp
    by_cases hS : S = []
    · subst hS
      simp [collect_nil, Canonical, Coprimes, Sat]
    · rw [collect_ne cof hS]
      obtain ⟨u1, u2, u3⟩ := step_props hcof S hc hp
      have hlt : (pairSolve cof S).length < n := by
        rw [length_pairSolve, hn]
        have : 0 < S.length := List.length_pos_of_ne_nil hS
        omega
      have hcT : Canonical (pairSolve cof S) := fun k hk => u1 k (List.mem_append_left _ hk)
      have hpT : Coprimes (pairSolve cof S) := by
        unfold Coprimes at u2 ⊢
        rw [List.map_append, List.pairwise_append] at u2
        exact u2.1
      have hcross : ∀ k ∈ pairSolve cof S, ∀ a ∈ oddLast S, IsCoprime k.1 a.1 := by
        unfold Coprimes at u2
        rw [List.map_append, List.pairwise_append] at u2
        intro k hk a ha
        exact u2.2.2 k.1 (List.mem_map_of_mem hk) a.1 (List.mem_map_of_mem ha)
      obtain ⟨i1, i2, i3, i4, i5⟩ := ih _ hlt (pairSolve cof S) rfl hcT hpT
      refine ⟨?_, ?_, ?_, ?_, ?_⟩
      · intro k hk
        rcases List.mem_append.mp hk with h1 | h1
        · exact hc k (mem_oddLast S k h1)
        · exact i1 k h1
      · unfold Coprimes
        rw [List.map_append, List.pairwise_append]
        refine ⟨?_, i2, ?_⟩
        · have hl := length_oddLast_le S
          match hO : oddLast S with
          | [] => simp
          | [a] => simp
          | _ :: _ :: _ => rw [hO] at hl; simp at hl
        · intro a ha m hm
          obtain ⟨a', ha', rfl⟩ := List.mem_map.mp ha
          obtain ⟨m', hm', rfl⟩ := List.mem_map.mp hm
          exact i5 a'.1 (fun k hk => (hcross k hk a' ha').symm) m' hm'
      · rw [List.map_append, prod_append', i3, ← u3, List.map_append, prod_append']; ring
      · intro x hx
        have h1 : Sat x (oddLast S) := fun k hk => hx k (List.mem_append_left _ hk)
        have h2 : Sat x (collect cof (pairSolve cof S)) := fun k hk => hx k (List.mem_append_right _ hk)
        exact sat_pair hcof x S hc hp (i4 x h2) h1
      · intro q hq m hm
        rcases List.mem_append.mp hm with h1 | h1
        · exact hq m (mem_oddLast S m h1)
        · exact i5 q (fun k hk => coprime_closure cof q S hq k (List.mem_append_left _ hk)) m h1

/-! ### (D) the model's `Mods` / `Reds` are the unpaired nodes; the conversion is exact -/

theorem map_fst_zip : ∀ (ps rs : List Int), ps.length = rs.length → (ps.zip rs).map Prod.fst = ps := by
  intro ps
  induction ps with
  | nil => intro rs _; simp
  | cons p ps ihp =>
    intro rs h
    cases rs with
    | nil => simp at h
    | cons r rs => simp [ihp rs (by simpa using h)]

theorem iter_map_fst_zip (cof : Int → Int → Int) (ps rs : List Int) (hlen : ps.length = rs.length) (L : ℕ) :
    pairProd^[L] ps = ((pairSolve cof)^[L] (ps.zip rs)).map Prod.fst := by
  rw [map_fst_iter, map_fst_zip ps rs hlen]

/-- the odd levels from level `L` upwards, read off the table, are `collect` of the level-`L` nodes -/
theorem oddFrom_collect (cof : Int → Int → Int) (ps rs : List Int) (hlen : ps.length = rs.length) :
    ∀ (n L : ℕ), ((pairSolve cof)^[L] (ps.zip rs)).length = n →
    (fixedOddFrom L (levelsFrom cof (pairProd^[L] ps))).map
        (fun ic => (((levelsFrom cof ps).getD ic.1 []).getD ic.2 0, fixedRec (levelsFrom cof ps) rs true ic.1 ic.2))
      = collect cof ((pairSolve cof)^[L] (ps.zip rs)) := by
  intro n
  induction n using Nat.strong_induction_on with
  | _ n ih =>
    intro L hn
    have hV := iter_map_fst_zip cof ps rs hlen L
    set S := (pairSolve cof)^[L] (ps.zip rs) with hS
    by_cases hne : S = []
    · have : pairProd^[L] ps = [] := by rw [hV, hne]; rfl
      rw [this, levelsFrom_nil, hne, collect_nil]
      simp [fixedOddFrom]
    · have hVne : pairProd^[L] ps ≠ [] := by
        rw [hV]; intro h0; exact hne (List.map_eq_nil_iff.mp h0)
      rw [levelsFrom_ne cof hVne, collect_ne cof hne]
      simp only [fixedOddFrom, List.map_append]
      have hlt : (pairSolve cof S).length < n := by
        rw [length_pairSolve, hn]
        have : 0 < S.length := List.length_pos_of_ne_nil hne
        omega
      have hnext : (pairSolve cof)^[L + 1] (ps.zip rs) = pairSolve cof S := by
        rw [Function.iterate_succ_apply']
      have hnextV : pairProd^[L + 1] ps = pairProd (pairProd^[L] ps) := by
        rw [Function.iterate_succ_apply']
      have ihn := ih _ hlt (L + 1) (by rw [hnext])
      rw [hnext, hnextV] at ihn
      rw [ihn]
      congr 1
      have hlenE : (encode cof (pairProd^[L] ps)).length = S.length := by
        rw [length_encode, hV, List.length_map]
      rw [hlenE]
      rcases Nat.mod_two_eq_zero_or_one S.length with hev | hodd
      · rw [oddLast_even S hev]
        simp [hev]
      · rw [oddLast_odd S hodd]
        simp only [hodd, ↓reduceIte, List.map_cons, List.map_nil]
        have hpos : 0 < S.length := List.length_pos_of_ne_nil hne
        obtain ⟨c', hc'⟩ : ∃ c', S.length - 1 = 2 * c' := ⟨(S.length - 1) / 2, by omega⟩
        have h1 : ((levelsFrom cof ps).getD L []).getD (S.length - 1) 0 = (S.getD (S.length - 1) (0, 0)).1 := by
          rw [levelsFrom_getD, hV, hc', encode_getD_even, getD_map_fst]
        have h2 : fixedRec (levelsFrom cof ps) rs true L (S.length - 1) = (S.getD (S.length - 1) (0, 0)).2 :=
          (fixedRec_spec cof ps rs hlen L (S.length - 1) (by rw [← hS]; omega)).2 (by omega)
        rw [h1, h2]

theorem fixedMods_reds_collect (cof : Int → Int → Int) (ps rs : List Int) (hlen : ps.length = rs.length) :
    fixedMods (levelsFrom cof ps) = (collect cof (ps.zip rs)).map Prod.fst ∧
    fixedReds (levelsFrom cof ps) rs = (collect cof (ps.zip rs)).map Prod.snd := by
  have h := oddFrom_collect cof ps rs hlen _ 0 rfl
  simp only [Function.iterate_zero, id_eq] at h
  unfold fixedMods fixedReds
  rw [← h]
  simp [List.map_map, Function.comp]

/-- the conversion of `RNSsystemFixed` (table of the constructor, tree recombination, final Garner step on the unpaired nodes)
    returns the integer of `[0, ∏ps)` with the residues `rs` — for every number of moduli -/
theorem fixed_result {cof : Int → Int → Int} (hcof : CofOK cof) (ps rs : List Int) (hne : ps ≠ [])
    (hpw : ps.Pairwise IsCoprime) (hcan : Canon ps rs) :
    let tree := fixedBuild cof ps
    let x := mixedRadixToRing (fixedMods tree)
      (rnsRnsToMixedRadix (fixedMods tree) (rnsComputeCk cof (fixedMods tree)) (fixedReds tree rs))
    (0 ≤ x ∧ x < prod ps) ∧ List.Forall₂ (fun p r => x % p = r) ps rs := by
  have hlen : ps.length = rs.length := List.Forall₂.length_eq hcan
  simp only
  rw [fixedBuild_eq cof hne]
  obtain ⟨hm, hr⟩ := fixedMods_reds_collect cof ps rs hlen
  rw [hm, hr]
  set S0 := ps.zip rs with hS0
  have hcS : Canonical S0 := by
    intro n hn
    have hmem : (n.1, n.2) ∈ ps.zip rs := by simpa [hS0] using hn
    exact (List.forall₂_iff_zip.mp hcan).2 hmem
  have hpS : Coprimes S0 := by
    unfold Coprimes; rw [hS0, map_fst_zip ps rs hlen]; exact hpw
  obtain ⟨c1, c2, c3, c4, _⟩ := collect_props hcof S0.length S0 rfl hcS hpS
  set C := collect cof S0 with hC
  have hcanC : Canon (C.map Prod.fst) (C.map Prod.snd) := by
    unfold Canon
    rw [List.forall₂_map_left_iff, List.forall₂_map_right_iff, List.forall₂_same]
    exact c1
  have res := rns_garner_result hcof (C.map Prod.fst) (C.map Prod.snd) c2 hcanC
  set x := mixedRadixToRing (C.map Prod.fst)
    (rnsRnsToMixedRadix (C.map Prod.fst) (rnsComputeCk cof (C.map Prod.fst)) (C.map Prod.snd)) with hx
  have hsatC : Sat x C := by
    intro n hn
    have h1 := res.residues
    rw [List.forall₂_map_left_iff, List.forall₂_map_right_iff, List.forall₂_same] at h1
    have h2 := h1 n hn
    have h3 := c1 n hn
    show x % n.1 = n.2 % n.1
    rw [h2, Int.emod_eq_of_lt h3.1 h3.2]
  have hsat0 := c4 x hsatC
  refine ⟨?_, ?_⟩
  · have := res.range
    rw [c3, hS0, map_fst_zip ps rs hlen] at this
    exact this
  · rw [List.forall₂_iff_zip]
    refine ⟨hlen, ?_⟩
    intro p r hpr
    have h1 : x ≡ r [ZMOD p] := hsat0 (p, r) (by simpa [hS0] using hpr)
    have h2 := hcS (p, r) (by simpa [hS0] using hpr)
    have h3 : x % p = r % p := h1
    rw [h3]
    exact Int.emod_eq_of_lt h2.1 h2.2

/-! ### the `RNSsystemFixed` object: histories -/

inductive FixedHist
  | mk (ps : List Int)                 -- `RNSsystemFixed(primes)`
  | copy (h : FixedHist)               -- copy constructor
  | assign (dst src : FixedHist)       -- `dst = src`
  | use (h : FixedHist) (rs : List Int)   -- an earlier `RnsToRing` (fills the inner system's cache)

def FixedHist.eval (cof : Int → Int → Int) : FixedHist → FixedSys
  | .mk ps => FixedSys.ofPrimes cof ps
  | .copy h => (h.eval cof).copy
  | .assign d s => FixedSys.assign (d.eval cof) (s.eval cof)
  | .use h rs => ((h.eval cof).rnsToRing cof rs).1

/-- the moduli list the object was (last) built from -/
def FixedHist.primes : FixedHist → List Int
  | .mk ps => ps
  | .copy h => h.primes
  | .assign _ s => s.primes
  | .use h _ => h.primes

def FixedGood (cof : Int → Int → Int) (ps : List Int) (s : FixedSys) : Prop :=
  s.tree = fixedBuild cof ps ∧ s.rns.primes = fixedMods s.tree ∧ RnsGood cof s.rns

theorem fixedHist_good (cof : Int → Int → Int) : ∀ h : FixedHist, FixedGood cof h.primes (h.eval cof) := by
  intro h
  induction h with
  | mk ps => simp [FixedHist.eval, FixedHist.primes, FixedSys.ofPrimes, FixedGood, RnsSys.setPrimes, RnsGood]
  | copy h ih =>
    obtain ⟨h1, h2, h3⟩ := ih
    exact ⟨h1, h2, by simpa [FixedHist.eval, FixedSys.copy, RnsSys.copy, RnsGood] using h3⟩
  | assign d s _ ih =>
    obtain ⟨h1, h2, h3⟩ := ih
    exact ⟨h1, h2, by simpa [FixedHist.eval, FixedSys.assign, RnsSys.assign, RnsGood] using h3⟩
  | use h rs ih =>
    obtain ⟨h1, h2, h3⟩ := ih
    obtain ⟨k1, k2⟩ := h3.computeCk
    refine ⟨h1, ?_, ?_⟩
    · simp only [FixedHist.eval, FixedSys.rnsToRing, RnsSys.rnsToRing, RnsSys.rnsToMixedRadix]
      rw [k2]; exact h2
    · simp only [FixedHist.eval, FixedSys.rnsToRing, RnsSys.rnsToRing, RnsSys.rnsToMixedRadix]
      exact h3.of_computeCk

theorem FixedGood.answer {cof : Int → Int → Int} {ps : List Int} {s : FixedSys} (h : FixedGood cof ps s) (rs : List Int) :
    (s.rnsToRing cof rs).2 = mixedRadixToRing (fixedMods (fixedBuild cof ps))
      (rnsRnsToMixedRadix (fixedMods (fixedBuild cof ps)) (rnsComputeCk cof (fixedMods (fixedBuild cof ps)))
        (fixedReds (fixedBuild cof ps) rs)) := by
  obtain ⟨h1, h2, h3⟩ := h
  obtain ⟨_, a2, _⟩ := h3.answers (fixedReds s.tree rs) 0
  simp only [FixedSys.rnsToRing]
  rw [a2, h2, h1]

end Givaro.Lemmas.CRT
