/-
C11 — the polynomial variant at full strength, still generic in the primitives.

`EuclidLaws O` adds to `LawfulOps O` the degree laws of a Euclidean polynomial ring (remainder degree, degree of a
sum, exactness of the gcd-degree test).  For every such `O` the loop of givpoly1ratrecon.inl as written
  * terminates within `deg P + 2` passes and reports success (for 0 ≤ dk < deg M, except the corner deg P = dk = 0),
  * returns a row  N = D·P + S·M  with  deg N ≤ dk,  D ≠ 0,  deg D ≤ deg M − dk,  deg N + deg D < deg M,  S ⊥ D,
  * which is the *minimal* solution: every other (A,B) within the bounds is a common multiple  (A,B) = w·(N,D),
and `ratreconcheck` answers exactly "a reduced solution with denominator prime to M exists".
`Lemmas/RatReconPolyMathlib.lean` instantiates `O` with Mathlib's `Polynomial F` over an arbitrary field.
-/
import GivaroModel.Lemmas.RatReconPoly
import Mathlib.RingTheory.Coprime.Basic
namespace Givaro.Lemmas.RatRecon
open Givaro.Model.RatRecon

structure EuclidLaws {P : Type} [CommRing P] (O : PolyOps P) : Prop where
  base : LawfulOps O
  deg_ge : ∀ a, -1 ≤ O.deg a
  deg_add_le : ∀ a b c, O.deg a ≤ c → O.deg b ≤ c → O.deg (a + b) ≤ c
  deg_neg : ∀ a, O.deg (-a) = O.deg a
  divmod_deg : ∀ a b, b ≠ 0 → O.deg (O.divmod a b).2 < O.deg b
  gcdDeg_iff : ∀ a b, b ≠ 0 → (O.gcdDeg a b ≤ 0 ↔ IsCoprime a b)
  lcIsOne_divLc : ∀ d, d ≠ 0 → O.lcIsOne (O.divLc d d) = true

variable {P : Type} [CommRing P] {O : PolyOps P}

section basic
variable (E : EuclidLaws O)
include E

theorem deg_zero : O.deg (0 : P) = -1 := by
  have h1 := (E.base.deg_neg_iff 0).mpr rfl
  have h2 := E.deg_ge 0
  omega

theorem ne_zero_of_deg {a : P} (h : 0 ≤ O.deg a) : a ≠ 0 := by
  intro h0; rw [h0, deg_zero E] at h; omega

theorem deg_nonneg {a : P} (h : a ≠ 0) : 0 ≤ O.deg a := deg_nonneg_of E.base a h

theorem mul_ne_zero' {a b : P} (ha : a ≠ 0) (hb : b ≠ 0) : a * b ≠ 0 := by
  apply ne_zero_of_deg E
  rw [E.base.deg_mul a b ha hb]
  have := deg_nonneg E ha; have := deg_nonneg E hb; omega

theorem eq_zero_of_mul_eq_zero {a b : P} (ha : a ≠ 0) (h : a * b = 0) : b = 0 := by
  by_contra hb; exact mul_ne_zero' E ha hb h

theorem deg_sub_le (a b : P) (c : Int) (ha : O.deg a ≤ c) (hb : O.deg b ≤ c) : O.deg (a - b) ≤ c := by
  rw [sub_eq_add_neg]; exact E.deg_add_le a (-b) c ha (by rw [E.deg_neg]; exact hb)

/-- the degree of a sum is that of the dominant term -/
theorem deg_add_eq_left (a b : P) (h : O.deg b < O.deg a) : O.deg (a + b) = O.deg a := by
  have h1 := E.deg_add_le a b (O.deg a) (le_refl _) (by omega)
  by_contra hne
  have h2 : O.deg (a + b) ≤ O.deg a - 1 := by omega
  have h3 := E.deg_add_le (a + b) (-b) (O.deg a - 1) h2 (by rw [E.deg_neg]; omega)
  have : a + b + -b = a := by ring
  rw [this] at h3; omega

theorem deg_sub_eq_right (a b : P) (h : O.deg a < O.deg b) : O.deg (a - b) = O.deg b := by
  have : a - b = -b + a := by ring
  rw [this, deg_add_eq_left E (-b) a (by rw [E.deg_neg]; exact h), E.deg_neg]

/-- degree of a product that may vanish -/
theorem deg_mul_lt (a b : P) (c : Int) (hc : 0 ≤ c) (h : a = 0 ∨ b = 0 ∨ O.deg a + O.deg b < c) : O.deg (a * b) < c := by
  by_cases ha : a = 0
  · rw [ha, zero_mul, deg_zero E]; omega
  by_cases hb : b = 0
  · rw [hb, mul_zero, deg_zero E]; omega
  rw [E.base.deg_mul a b ha hb]
  rcases h with h | h | h
  · exact absurd h ha
  · exact absurd h hb
  · exact h

/-- division facts: `a = q b + r`, `deg r < deg b`, `deg b ≤ deg a`  ⇒  `q ≠ 0`, `deg q = deg a − deg b` -/
theorem quot_deg (a b q r : P) (hb : b ≠ 0) (h : a = q * b + r) (hr : O.deg r < O.deg b) (hab : O.deg b ≤ O.deg a) :
    q ≠ 0 ∧ O.deg q = O.deg a - O.deg b := by
  have hqb : q * b = a - r := by rw [h]; ring
  have hd : O.deg (a - r) = O.deg a := by
    have : a - r = a + -r := by ring
    rw [this, deg_add_eq_left E a (-r) (by rw [E.deg_neg]; omega)]
  have hb0 := deg_nonneg E hb
  have hq : q ≠ 0 := by
    intro h0
    rw [h0, zero_mul] at hqb
    rw [← hqb, deg_zero E] at hd
    omega
  refine ⟨hq, ?_⟩
  have := E.base.deg_mul q b hq hb
  rw [hqb, hd] at this
  omega

/-- … and `deg a < deg b` ⇒ `q = 0`, `r = a` -/
theorem quot_zero (a b q r : P) (hb : b ≠ 0) (h : a = q * b + r) (hr : O.deg r < O.deg b) (hab : O.deg a < O.deg b) :
    q = 0 ∧ r = a := by
  have hq : q = 0 := by
    by_contra hq
    have h1 := E.base.deg_mul q b hq hb
    have h2 := deg_nonneg E hq
    have hqb : q * b = a - r := by rw [h]; ring
    have h3 := deg_sub_le E a r (O.deg b - 1) (by omega) (by omega)
    rw [← hqb] at h3
    omega
  refine ⟨hq, ?_⟩
  rw [hq, zero_mul, zero_add] at h
  exact h.symm

end basic

/-! ### rows of the extended Euclidean scheme -/

/-- two consecutive rows `(a, ta)`, `(b, tb)` of the Euclidean scheme for `(m, p)`:
    cofactors with determinant ±1 and the degree bookkeeping `deg tb + deg a = deg m` -/
structure Rows (O : PolyOps P) (p m a ta b tb : P) : Prop where
  cof : ∃ sa sb : P, a = sa * m + ta * p ∧ b = sb * m + tb * p ∧ (sa * tb - sb * ta = 1 ∨ sa * tb - sb * ta = -1)
  bne : 0 ≤ O.deg b
  tne : 0 ≤ O.deg tb
  dle : O.deg b ≤ O.deg a
  dsum : O.deg tb + O.deg a = O.deg m
  dinc : O.deg ta + O.deg b < O.deg tb + O.deg a

/-- what a returned pair `(N, D)` satisfies; `S` is the cofactor of `m` -/
def PolyFull (O : PolyOps P) (p m : P) (dk : Int) (n d : P) : Prop :=
  (∃ s, n = d * p + s * m ∧ IsCoprime s d) ∧ O.deg n ≤ dk ∧ d ≠ 0 ∧ O.deg d ≤ O.deg m - dk ∧
    O.deg n + O.deg d < O.deg m ∧ (O.deg d < O.deg m - dk ∨ O.deg p = dk)

/-- one division step `(a, ta), (b, tb) ↦ (b, tb), (r, ta − q tb)` -/
theorem rows_step (E : EuclidLaws O) (p m a ta b tb : P) (h : Rows O p m a ta b tb) :
    let q := (O.divmod a b).1
    let r := (O.divmod a b).2
    let t := O.maxpy ta q tb
    O.deg r < O.deg b ∧ t ≠ 0 ∧ O.deg t + O.deg b = O.deg m ∧
      (∃ s sb : P, r = s * m + t * p ∧ b = sb * m + tb * p ∧ (sb * t - s * tb = 1 ∨ sb * t - s * tb = -1)) ∧
      (0 ≤ O.deg r → Rows O p m b tb r t) := by
  obtain ⟨⟨sa, sb, ea, eb, hdet⟩, bne, tne, dle, dsum, dinc⟩ := h
  have hb : b ≠ 0 := ne_zero_of_deg E bne
  have hdiv := E.base.divmod_eq a b hb
  have hrem := E.divmod_deg a b hb
  simp only []
  generalize O.divmod a b = qr at hdiv hrem ⊢
  obtain ⟨q, r⟩ := qr
  simp only [] at hdiv hrem ⊢
  rw [E.base.maxpy_eq]
  obtain ⟨hq, hdq⟩ := quot_deg E a b q r hb hdiv hrem dle
  have htb : tb ≠ 0 := ne_zero_of_deg E tne
  have hqt : O.deg (q * tb) = O.deg q + O.deg tb := E.base.deg_mul q tb hq htb
  have hdt : O.deg (ta - q * tb) = O.deg q + O.deg tb := by
    rw [deg_sub_eq_right E ta (q * tb) (by omega), hqt]
  have ht : ta - q * tb ≠ 0 := by
    apply ne_zero_of_deg E
    have := deg_nonneg E hq; have := deg_nonneg E htb
    omega
  have hcof : r = (sa - q * sb) * m + (ta - q * tb) * p := by
    have : r = a - q * b := by rw [hdiv]; ring
    rw [this, ea, eb]; ring
  have hdet' : sb * (ta - q * tb) - (sa - q * sb) * tb = 1 ∨ sb * (ta - q * tb) - (sa - q * sb) * tb = -1 := by
    have : sb * (ta - q * tb) - (sa - q * sb) * tb = -(sa * tb - sb * ta) := by ring
    rw [this]
    rcases hdet with h | h <;> rw [h] <;> simp
  refine ⟨hrem, ht, by omega, ⟨sa - q * sb, sb, hcof, eb, hdet'⟩, fun hr => ?_⟩
  exact ⟨⟨sb, sa - q * sb, eb, hcof, hdet'⟩, hr, by have := deg_nonneg E hq; omega, by omega, by omega, by
    have := deg_nonneg E hq
    omega⟩

/-- the row produced by a step, when short enough, is a full answer -/
theorem rows_exit (E : EuclidLaws O) (p m a ta b tb : P) (dk : Int) (h : Rows O p m a ta b tb)
    (hlo : dk ≤ O.deg b) (hlo' : dk < O.deg b ∨ O.deg p = dk)
    (hshort : O.deg (O.divmod a b).2 ≤ dk) :
    PolyFull O p m dk (O.divmod a b).2 (O.maxpy ta (O.divmod a b).1 tb) := by
  obtain ⟨h1, h2, h3, ⟨s, sb, hc, _, hdet⟩, _⟩ := rows_step E p m a ta b tb h
  refine ⟨⟨s, by rw [hc]; ring, ?_⟩, hshort, h2, by omega, by omega, by omega⟩
  rcases hdet with hd | hd
  · exact ⟨-tb, sb, by rw [← hd]; ring⟩
  · exact ⟨tb, -sb, by
      have : tb * s + -sb * O.maxpy ta (O.divmod a b).1 tb = -(sb * O.maxpy ta (O.divmod a b).1 tb - s * tb) := by ring
      rw [this, hd]; ring⟩

/-! ### the do-while loop from a regular state -/

/-- loop-head invariant: `(N, D0)`, `(U, D)` are consecutive rows and `deg U` is still at least `dk` -/
structure Regular (O : PolyOps P) (p m : P) (dk : Int) (s : PSt P) : Prop where
  rows : Rows O p m s.n s.d0 s.u s.d
  lo : dk ≤ O.deg s.u
  lo' : dk < O.deg s.u ∨ O.deg p = dk

theorem polyLoop_full (E : EuclidLaws O) (p m : P) (dk : Int) (hdk : 0 ≤ dk) :
    ∀ (fuel : Nat) (s : PSt P), Regular O p m dk s → O.deg s.u < fuel →
      (polyLoop O dk fuel s).ok = true ∧ PolyFull O p m dk (polyLoop O dk fuel s).n (polyLoop O dk fuel s).d := by
  intro fuel
  induction fuel with
  | zero => intro s hs hf; have := hs.rows.bne; simp at hf; omega
  | succ fuel ih =>
    intro s ⟨hrows, lo, lo'⟩ hf
    have hst := rows_step E p m s.n s.d0 s.u s.d hrows
    have hex := rows_exit E p m s.n s.d0 s.u s.d dk hrows lo lo'
    unfold polyLoop
    simp only [] at hst hex ⊢
    generalize O.divmod s.n s.u = qr at hst hex ⊢
    obtain ⟨q, n1⟩ := qr
    simp only [] at hst hex ⊢
    generalize O.maxpy s.d0 q s.d = d01 at hst hex ⊢
    obtain ⟨h1, _, _, _, hnext⟩ := hst
    by_cases hA : O.deg n1 ≤ dk ∨ O.deg n1 < 0
    · rw [if_pos hA]
      have hle : O.deg n1 ≤ dk := by rcases hA with h | h <;> omega
      exact ⟨by simpa using hle, hex hle⟩
    · rw [if_neg hA]
      have hrows2 := hnext (by omega)
      have hst2 := rows_step E p m s.u s.d n1 d01 hrows2
      have hex2 := rows_exit E p m s.u s.d n1 d01 dk hrows2 (by omega) (Or.inl (by omega))
      simp only [] at hst2 hex2 ⊢
      generalize O.divmod s.u n1 = qr2 at hst2 hex2 ⊢
      obtain ⟨q2, u1⟩ := qr2
      simp only [] at hst2 hex2 ⊢
      generalize O.maxpy s.d q2 d01 = d1 at hst2 hex2 ⊢
      obtain ⟨h2, _, _, _, hnext2⟩ := hst2
      by_cases hB : O.deg u1 ≤ dk
      · rw [if_pos hB]
        exact ⟨rfl, hex2 hB⟩
      · rw [if_neg hB, if_pos (by omega)]
        exact ih ⟨n1, u1, d01, d1⟩ ⟨hnext2 (by omega), by simp only []; omega, Or.inl (by simp only []; omega)⟩
          (by simp only []; push_cast at hf ⊢; omega)

/-- the fuel is not a bound: any two sufficient amounts give the same result -/
theorem polyLoop_fuel_succ (E : EuclidLaws O) (p m : P) (dk : Int) (hdk : 0 ≤ dk) :
    ∀ (fuel : Nat) (s : PSt P), Regular O p m dk s → O.deg s.u < fuel →
      polyLoop O dk (fuel + 1) s = polyLoop O dk fuel s := by
  intro fuel
  induction fuel with
  | zero => intro s hs hf; have := hs.rows.bne; simp at hf; omega
  | succ fuel ih =>
    intro s ⟨hrows, lo, lo'⟩ hf
    have hst := rows_step E p m s.n s.d0 s.u s.d hrows
    rw [polyLoop, polyLoop]
    simp only [] at hst ⊢
    generalize O.divmod s.n s.u = qr at hst ⊢
    obtain ⟨q, n1⟩ := qr
    simp only [] at hst ⊢
    generalize O.maxpy s.d0 q s.d = d01 at hst ⊢
    obtain ⟨h1, _, _, _, hnext⟩ := hst
    by_cases hA : O.deg n1 ≤ dk ∨ O.deg n1 < 0
    · rw [if_pos hA, if_pos hA]
    · rw [if_neg hA, if_neg hA]
      have hrows2 := hnext (by omega)
      have hst2 := rows_step E p m s.u s.d n1 d01 hrows2
      simp only [] at hst2 ⊢
      generalize O.divmod s.u n1 = qr2 at hst2 ⊢
      obtain ⟨q2, u1⟩ := qr2
      simp only [] at hst2 ⊢
      generalize O.maxpy s.d q2 d01 = d1 at hst2 ⊢
      obtain ⟨h2, _, _, _, hnext2⟩ := hst2
      by_cases hB : O.deg u1 ≤ dk
      · rw [if_pos hB, if_pos hB]
      · rw [if_neg hB, if_neg hB, if_pos (by omega), if_pos (by omega)]
        exact ih ⟨n1, u1, d01, d1⟩ ⟨hnext2 (by omega), by simp only []; omega, Or.inl (by simp only []; omega)⟩
          (by simp only []; push_cast at hf ⊢; omega)

theorem polyLoop_fuel_indep (E : EuclidLaws O) (p m : P) (dk : Int) (hdk : 0 ≤ dk) (s : PSt P)
    (hs : Regular O p m dk s) (f1 f2 : Nat) (h1 : O.deg s.u < f1) (h2 : O.deg s.u < f2) :
    polyLoop O dk f1 s = polyLoop O dk f2 s := by
  have key : ∀ (f : Nat) (j : Nat), O.deg s.u < f → polyLoop O dk (f + j) s = polyLoop O dk f s := by
    intro f j hf
    induction j with
    | zero => rfl
    | succ j ih =>
      rw [← Nat.add_assoc, polyLoop_fuel_succ E p m dk hdk (f + j) s hs (by push_cast; omega), ih]
  rcases Nat.le_total f1 f2 with h | h
  · obtain ⟨j, rfl⟩ := Nat.exists_eq_add_of_le h
    exact (key f1 j h1).symm
  · obtain ⟨j, rfl⟩ := Nat.exists_eq_add_of_le h
    exact key f2 j h2

/-! ### `Poly1Dom::ratrecon(N, D, P, M, dk)` from its entry point -/

theorem regular_init (E : EuclidLaws O) (p m u : P) (q : P) (dk : Int) (hu : u = -q * m + 1 * p)
    (hlo : dk ≤ O.deg u) (hlo' : dk < O.deg u ∨ O.deg p = dk) (h0 : 0 ≤ O.deg u) (hle : O.deg u ≤ O.deg m) :
    Regular O p m dk ⟨m, u, 0, 1⟩ := by
  have hz := deg_zero E
  have h1 := E.base.deg_one
  refine ⟨⟨⟨1, -q, by ring, hu, Or.inl (by ring)⟩, h0, by simp only []; omega, hle, by simp only []; omega, by simp only []; omega⟩, hlo, hlo'⟩

theorem polyRatreconFuel_full (E : EuclidLaws O) (fuel : Nat) (p m : P) (dk : Int) (hdk : 0 ≤ dk) (hdm : dk < O.deg m)
    (hfuel : O.deg p + 2 ≤ fuel) :
    ((polyRatreconFuel O fuel p m dk).ok = true ∧
        PolyFull O p m dk (polyRatreconFuel O fuel p m dk).n (polyRatreconFuel O fuel p m dk).d) ∨
      (O.deg p = 0 ∧ dk = 0 ∧ (polyRatreconFuel O fuel p m dk).ok = false) := by
  have hz := deg_zero E
  have h1 := E.base.deg_one
  have h10 : (1 : P) ≠ 0 := one_ne_zero_of E.base
  unfold polyRatreconFuel
  simp only []
  by_cases c1 : O.deg p < dk ∨ O.deg m = 0
  · rw [if_pos c1]
    left
    have hlt : O.deg p < dk := by rcases c1 with h | h <;> omega
    refine ⟨rfl, ⟨0, by rw [E.base.one_eq]; ring, by rw [E.base.one_eq]; exact isCoprime_one_right⟩, ?_, ?_, ?_, ?_, ?_⟩
    · show O.deg p ≤ dk; omega
    · show O.one ≠ 0; rw [E.base.one_eq]; exact h10
    · show O.deg O.one ≤ O.deg m - dk; rw [E.base.one_eq]; omega
    · show O.deg p + O.deg O.one < O.deg m; rw [E.base.one_eq]; omega
    · left; show O.deg O.one < O.deg m - dk; rw [E.base.one_eq]; omega
  · rw [if_neg c1]
    by_cases c2 : O.deg m < 0 ∨ O.deg p = 0
    · rw [if_pos c2]
      right
      have : O.deg p = 0 := by rcases c2 with h | h <;> omega
      exact ⟨this, by omega, rfl⟩
    · rw [if_neg c2]
      left
      rw [E.base.zero_eq, E.base.one_eq]
      have hp1 : 1 ≤ O.deg p := by
        have := E.deg_ge p
        by_contra h
        have : O.deg p = -1 ∨ O.deg p = 0 := by omega
        rcases this with h | h
        · apply c1; left; omega
        · exact c2 (Or.inr h)
      have hpk : dk ≤ O.deg p := by
        by_contra h; exact c1 (Or.inl (by omega))
      by_cases hreg : O.deg p ≤ O.deg m
      · -- regular start
        exact polyLoop_full E p m dk hdk fuel ⟨m, p, 0, 1⟩
          (regular_init E p m p 0 dk (by ring) hpk (by omega) (by omega) hreg) (by simp only []; omega)
      · -- deg P > deg M: the first pass reduces P modulo M
        obtain ⟨f, rfl⟩ : ∃ f, fuel = f + 1 := ⟨fuel - 1, by omega⟩
        have hp0 : p ≠ 0 := ne_zero_of_deg E (by omega)
        have hm0 : m ≠ 0 := ne_zero_of_deg E (by omega)
        obtain ⟨hq0, hr0⟩ := quot_zero E m p _ _ hp0 (E.base.divmod_eq m p hp0) (E.divmod_deg m p hp0) (by omega)
        have hdiv2 := E.base.divmod_eq p m hm0
        have hrem2 := E.divmod_deg p m hm0
        unfold polyLoop
        simp only [hq0, hr0, E.base.maxpy_eq, zero_mul, sub_zero, mul_zero]
        rw [if_neg (by omega)]
        generalize O.divmod p m = qr2 at hdiv2 hrem2 ⊢
        obtain ⟨q2, u1⟩ := qr2
        simp only [] at hdiv2 hrem2 ⊢
        have hu1 : u1 = -q2 * m + 1 * p := by rw [hdiv2]; ring
        by_cases hB : O.deg u1 ≤ dk
        · rw [if_pos hB]
          refine ⟨rfl, ⟨-q2, by rw [hu1]; ring, isCoprime_one_right⟩, hB, h10, ?_, ?_, ?_⟩
          · show O.deg (1 : P) ≤ O.deg m - dk; omega
          · show O.deg u1 + O.deg (1 : P) < O.deg m; omega
          · left; show O.deg (1 : P) < O.deg m - dk; omega
        · rw [if_neg hB, if_pos (by omega)]
          exact polyLoop_full E p m dk hdk f ⟨m, u1, 0, 1⟩
            (regular_init E p m u1 q2 dk hu1 (by omega) (Or.inl (by omega)) (by omega) (by omega))
            (by simp only []; push_cast at hfuel; omega)

theorem polyRatreconFuel_fuel_indep (E : EuclidLaws O) (f1 f2 : Nat) (p m : P) (dk : Int) (hdk : 0 ≤ dk)
    (hdm : dk < O.deg m) (h1 : O.deg p + 2 ≤ f1) (h2 : O.deg p + 2 ≤ f2) :
    polyRatreconFuel O f1 p m dk = polyRatreconFuel O f2 p m dk := by
  have hz := deg_zero E
  have hone := E.base.deg_one
  unfold polyRatreconFuel
  simp only []
  by_cases c1 : O.deg p < dk ∨ O.deg m = 0
  · rw [if_pos c1, if_pos c1]
  · rw [if_neg c1, if_neg c1]
    by_cases c2 : O.deg m < 0 ∨ O.deg p = 0
    · rw [if_pos c2, if_pos c2]
    · rw [if_neg c2, if_neg c2, E.base.zero_eq, E.base.one_eq]
      have hp1 : 1 ≤ O.deg p := by
        have := E.deg_ge p
        by_contra h
        have : O.deg p = -1 ∨ O.deg p = 0 := by omega
        rcases this with h | h
        · apply c1; left; omega
        · exact c2 (Or.inr h)
      have hpk : dk ≤ O.deg p := by
        by_contra h; exact c1 (Or.inl (by omega))
      by_cases hreg : O.deg p ≤ O.deg m
      · exact polyLoop_fuel_indep E p m dk hdk ⟨m, p, 0, 1⟩
          (regular_init E p m p 0 dk (by ring) hpk (by omega) (by omega) hreg) f1 f2
          (by simp only []; omega) (by simp only []; omega)
      · obtain ⟨g1, rfl⟩ : ∃ f, f1 = f + 1 := ⟨f1 - 1, by omega⟩
        obtain ⟨g2, rfl⟩ : ∃ f, f2 = f + 1 := ⟨f2 - 1, by omega⟩
        have hp0 : p ≠ 0 := ne_zero_of_deg E (by omega)
        have hm0 : m ≠ 0 := ne_zero_of_deg E (by omega)
        obtain ⟨hq0, hr0⟩ := quot_zero E m p _ _ hp0 (E.base.divmod_eq m p hp0) (E.divmod_deg m p hp0) (by omega)
        have hdiv2 := E.base.divmod_eq p m hm0
        have hrem2 := E.divmod_deg p m hm0
        rw [polyLoop, polyLoop]
        have hmA : ¬ (O.deg m ≤ dk ∨ O.deg m < 0) := by omega
        simp only [hq0, hr0, E.base.maxpy_eq, zero_mul, sub_zero, mul_zero, if_neg hmA]
        generalize O.divmod p m = qr2 at hdiv2 hrem2 ⊢
        obtain ⟨q2, u1⟩ := qr2
        simp only [] at hdiv2 hrem2 ⊢
        have hu1 : u1 = -q2 * m + 1 * p := by rw [hdiv2]; ring
        by_cases hB : O.deg u1 ≤ dk
        · simp only [if_pos hB]
        · have hge : O.deg u1 ≥ 0 := by omega
          simp only [if_neg hB, if_pos hge]
          exact polyLoop_fuel_indep E p m dk hdk ⟨m, u1, 0, 1⟩
            (regular_init E p m u1 q2 dk hu1 (by omega) (Or.inl (by omega)) (by omega) (by omega)) g1 g2
            (by simp only []; push_cast at h1; omega) (by simp only []; push_cast at h2; omega)

/-! ### minimality / uniqueness, and the exactness of `ratreconcheck` -/

/-- every solution `(a, b)` of `a ≡ b p (mod m)` within the bounds is a common multiple of the returned row -/
theorem polyFull_minimal (E : EuclidLaws O) (p m : P) (dk : Int) (n d : P) (hdk : 0 ≤ dk) (hdm : dk < O.deg m)
    (h : PolyFull O p m dk n d) (a b t : P) (hab : a = b * p + t * m) (ha : O.deg a ≤ dk)
    (hb : O.deg b < O.deg m - dk) (hstrict : O.deg a < dk ∨ O.deg p ≠ dk) : ∃ w, a = w * n ∧ b = w * d := by
  obtain ⟨⟨s, hn, hcop⟩, hn1, hd0, hd1, _, hd2⟩ := h
  have hm0 : m ≠ 0 := ne_zero_of_deg E (by omega)
  have hX : a * d - n * b = m * (t * d - s * b) := by rw [hab, hn]; ring
  have hz : t * d - s * b = 0 := by
    by_contra hz
    have h1 := E.base.deg_mul m _ hm0 hz
    have h2 := deg_nonneg E hz
    have h3 : O.deg (a * d) < O.deg m := deg_mul_lt E a d _ (by omega) (Or.inr (Or.inr (by
      rcases hstrict with h | h
      · omega
      · rcases hd2 with h' | h'
        · omega
        · exact absurd h' h)))
    have h4 : O.deg (n * b) < O.deg m := deg_mul_lt E n b _ (by omega) (Or.inr (Or.inr (by omega)))
    have h5 := deg_sub_le E (a * d) (n * b) (O.deg m - 1) (by omega) (by omega)
    rw [hX] at h5
    omega
  have htd : t * d = s * b := by
    have : t * d = (t * d - s * b) + s * b := by ring
    rw [this, hz, zero_add]
  have hdb : d ∣ b := hcop.symm.dvd_of_dvd_mul_left ⟨t, by rw [← htd]; ring⟩
  obtain ⟨w, hw⟩ := hdb
  have ht : t = s * w := by
    have : d * (t - s * w) = 0 := by
      have : d * (t - s * w) = t * d - s * (d * w) := by ring
      rw [this, ← hw, htd]; ring
    have := eq_zero_of_mul_eq_zero E hd0 this
    have h2 : t = (t - s * w) + s * w := by ring
    rw [h2, this, zero_add]
  exact ⟨w, by rw [hab, hn, hw, ht]; ring, by rw [hw]; ring⟩

theorem deg_unit_mul (E : EuclidLaws O) (c ci x : P) (hc : c * ci = 1) : O.deg (ci * x) = O.deg x := by
  have h10 := one_ne_zero_of E.base
  have hc0 : c ≠ 0 := by intro h0; rw [h0, zero_mul] at hc; exact h10 hc.symm
  have hci0 : ci ≠ 0 := by intro h0; rw [h0, mul_zero] at hc; exact h10 hc.symm
  have hdci : O.deg ci = 0 := by
    have := E.base.deg_mul c ci hc0 hci0
    rw [hc, E.base.deg_one] at this
    have := deg_nonneg E hc0
    have := deg_nonneg E hci0
    omega
  by_cases hx : x = 0
  · rw [hx, mul_zero]
  · rw [E.base.deg_mul ci x hci0 hx]; omega

theorem polyFull_unit (E : EuclidLaws O) (p m : P) (dk : Int) (n d c ci : P) (hc : c * ci = 1)
    (h : PolyFull O p m dk n d) : PolyFull O p m dk (ci * n) (ci * d) := by
  obtain ⟨⟨s, hn, u, v, huv⟩, hn1, hd0, hd1, hd3, hd2⟩ := h
  rw [PolyFull, deg_unit_mul E c ci n hc, deg_unit_mul E c ci d hc]
  refine ⟨⟨ci * s, by rw [hn]; ring, u * c, v * c, ?_⟩, hn1, ?_, hd1, hd3, hd2⟩
  · have : u * c * (ci * s) + v * c * (ci * d) = (c * ci) * (u * s + v * d) := by ring
    rw [this, hc, huv, one_mul]
  · intro h0
    apply hd0
    have : d = c * (ci * d) := by rw [← mul_assoc, hc, one_mul]
    rw [this, h0, mul_zero]

/-- `ratreconcheck`: the answer is `true` exactly when the row found by the loop is reduced; then the returned pair is a
    full answer, reduced, with denominator prime to `m` and normalised leading coefficient; and it is found whenever a
    reduced fraction with denominator prime to `m` exists within the bounds. -/
theorem polyCheck_full (E : EuclidLaws O) (fuel : Nat) (p m : P) (dk : Int) (hdk : 0 ≤ dk) (hdm : dk < O.deg m)
    (hfuel : O.deg p + 2 ≤ fuel) (hcorner : ¬ (O.deg p = 0 ∧ dk = 0)) :
    ((polyRatreconCheckFuel O fuel p m dk).ok = true ↔
        IsCoprime (polyRatreconFuel O fuel p m dk).n (polyRatreconFuel O fuel p m dk).d) ∧
    ((polyRatreconCheckFuel O fuel p m dk).ok = true →
        PolyFull O p m dk (polyRatreconCheckFuel O fuel p m dk).n (polyRatreconCheckFuel O fuel p m dk).d ∧
        IsCoprime (polyRatreconCheckFuel O fuel p m dk).n (polyRatreconCheckFuel O fuel p m dk).d ∧
        IsCoprime (polyRatreconCheckFuel O fuel p m dk).d m ∧
        O.lcIsOne (polyRatreconCheckFuel O fuel p m dk).d = true) ∧
    (∀ a b t : P, a = b * p + t * m → O.deg a ≤ dk → O.deg b < O.deg m - dk → (O.deg a < dk ∨ O.deg p ≠ dk) →
        IsCoprime b m →
        (polyRatreconCheckFuel O fuel p m dk).ok = true ∧
          ∃ w, a = w * (polyRatreconCheckFuel O fuel p m dk).n ∧ b = w * (polyRatreconCheckFuel O fuel p m dk).d) := by
  rcases polyRatreconFuel_full E fuel p m dk hdk hdm hfuel with ⟨hok, hfull⟩ | ⟨h1, h2, _⟩
  swap
  · exact absurd ⟨h1, h2⟩ hcorner
  have hfull' := hfull
  obtain ⟨⟨s, hn, hsd⟩, hn1, hd0, hd1, hd3, hd2⟩ := hfull
  have hg := E.gcdDeg_iff (polyRatreconFuel O fuel p m dk).n (polyRatreconFuel O fuel p m dk).d hd0
  -- reduced ⇒ denominator prime to m
  have hDm : IsCoprime (polyRatreconFuel O fuel p m dk).n (polyRatreconFuel O fuel p m dk).d →
      IsCoprime (polyRatreconFuel O fuel p m dk).d m := by
    intro hnd
    have h1 := hnd.add_mul_right_left (-p)
    have h2 : (polyRatreconFuel O fuel p m dk).n + -p * (polyRatreconFuel O fuel p m dk).d = s * m := by
      rw [hn]; ring
    rw [h2] at h1
    exact (IsCoprime.of_mul_left_right h1).symm
  unfold polyRatreconCheckFuel
  simp only []
  generalize polyRatreconFuel O fuel p m dk = r at hok hfull' hn hsd hn1 hd0 hd1 hd2 hd3 hg hDm ⊢
  by_cases hgp : O.gcdDeg r.n r.d > 0
  · -- not reduced: answer false, and no reduced fraction prime to m exists
    rw [if_pos hgp]
    have hnc : ¬ IsCoprime r.n r.d := fun h => by have := hg.mpr h; omega
    refine ⟨⟨fun h => (by cases h), fun h => absurd h hnc⟩, fun h => (by cases h), ?_⟩
    intro a b t hab ha hb hst hbm
    exfalso
    obtain ⟨w, _, hw2⟩ := polyFull_minimal E p m dk r.n r.d hdk hdm hfull' a b t hab ha hb hst
    rw [hw2] at hbm
    have hdm' : IsCoprime r.d m := IsCoprime.of_mul_left_right hbm
    apply hnc
    have h1 : IsCoprime (s * m) r.d := IsCoprime.mul_left hsd hdm'.symm
    have h2 := h1.add_mul_right_left p
    have h3 : s * m + p * r.d = r.n := by rw [hn]; ring
    rw [h3] at h2
    exact h2
  · rw [if_neg hgp]
    have hcop : IsCoprime r.n r.d := hg.mp (by omega)
    by_cases hl : (!O.lcIsOne r.d) = true
    · rw [if_pos hl]
      obtain ⟨c, ci, hc, hdiv⟩ := E.base.divLc_eq r.d hd0
      have hlc := E.lcIsOne_divLc r.d hd0
      simp only [hdiv] at hlc ⊢
      have hfu := polyFull_unit E p m dk r.n r.d c ci hc hfull'
      have hcop' : IsCoprime (ci * r.n) (ci * r.d) := by
        obtain ⟨u, v, huv⟩ := hcop
        refine ⟨u * c, v * c, ?_⟩
        have : u * c * (ci * r.n) + v * c * (ci * r.d) = (c * ci) * (u * r.n + v * r.d) := by ring
        rw [this, hc, huv, one_mul]
      have hdm' : IsCoprime (ci * r.d) m := by
        obtain ⟨u, v, huv⟩ := hDm hcop
        exact ⟨u * c, v, by
          have : u * c * (ci * r.d) + v * m = (c * ci) * (u * r.d) + v * m := by ring
          rw [this, hc, one_mul, huv]⟩
      refine ⟨⟨fun _ => hcop, fun _ => hok⟩, fun _ => ⟨hfu, hcop', hdm', hlc⟩, ?_⟩
      intro a b t hab ha hb hst _
      exact ⟨hok, polyFull_minimal E p m dk _ _ hdk hdm hfu a b t hab ha hb hst⟩
    · rw [if_neg hl]
      have hl' : O.lcIsOne r.d = true := by
        cases h : O.lcIsOne r.d
        · rw [h] at hl; simp at hl
        · rfl
      refine ⟨⟨fun _ => hcop, fun _ => hok⟩, fun _ => ⟨hfull', hcop, hDm hcop, hl'⟩, ?_⟩
      intro a b t hab ha hb hst _
      exact ⟨hok, polyFull_minimal E p m dk _ _ hdk hdm hfull' a b t hab ha hb hst⟩

end Givaro.Lemmas.RatRecon
