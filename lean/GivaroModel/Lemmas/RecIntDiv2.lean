/- C06 helper lemmas: rudiv.h — div_2_1 (limb base case and recursive step) and the induction over the level, given the limb-level div_3_2. -/
import GivaroModel.Lemmas.RecIntDiv
namespace Givaro.Model.RecInt

theorem div_2_1_zero (t : Nat) (ah al b : RU 0) (hah : WF ah) (hal : WF al) (hb : WF b)
    (hlt : val ah < val b) : Div21Ok (div_2_1 t ah al b) ah al b := by
  cases ah with | limb ah => cases al with | limb al => cases b with | limb b =>
  simp only [WF, val] at hah hal hb hlt
  have hn : ah * B64 + al < b * B64 := by simp only [B64] at *; nlinarith
  have hq : (ah * B64 + al) / b < B64 := Nat.div_lt_of_lt_mul hn
  have hr : (ah * B64 + al) % b < b := Nat.mod_lt _ (by omega)
  simp only [div_2_1, udiv_qrnnd, Div21Ok, WF, val, Bn_zero, Nat.mod_eq_of_lt hq]
  refine ⟨hq, by omega, ?_, hr⟩
  rw [Nat.mul_comm ((ah * B64 + al) / b) b]; exact (Nat.div_add_mod _ _).symm

theorem div_2_1_step (t m : Nat)
    (IH32 : ∀ a2 a1 a0 b1 b0 : RU m, WF a2 → WF a1 → WF a0 → WF b1 → WF b0 → Bn m ≤ 2 * val b1 →
      val a2 * Bn m + val a1 < val b1 * Bn m + val b0 → Div32Ok (div_3_2 t a2 a1 a0 b1 b0) a2 a1 a0 b1 b0)
    (ah al b : RU (m+1)) (hah : WF ah) (hal : WF al) (hb : WF b) (hn : Bn (m+1) ≤ 2 * val b) (hlt : val ah < val b) :
    Div21Ok (div_2_1 t ah al b) ah al b := by
  cases ah with | node ahl ahh => cases al with | node all alh => cases b with | node bl bh =>
  have hnb : Bn m ≤ 2 * val bh := by
    rw [← highest_bit_iff bh hb.2]
    have := (highest_bit_iff (RU.node bl bh) hb).mpr hn
    simpa [highest_bit] using this
  simp only [val_node] at hlt
  have h1 := IH32 ahh ahl alh bh bl hah.2 hah.1 hal.2 hb.2 hb.1 hnb (by rw [Nat.mul_comm (val ahh), Nat.mul_comm (val bh)]; omega)
  simp only [div_2_1]
  generalize div_3_2 t ahh ahl alh bh bl = x at h1 ⊢
  obtain ⟨hx1, hx2, hx3, hxe, hxlt⟩ := h1
  have h2 := IH32 x.2.1 x.2.2 all bh bl hx2 hx3 hal.1 hb.2 hb.1 hnb hxlt
  generalize div_3_2 t x.2.1 x.2.2 all bh bl = y at h2 ⊢
  obtain ⟨hy1, hy2, hy3, hye, hylt⟩ := h2
  unfold Div21Ok
  simp only [WF_node, val_node, Bn_succ]
  refine ⟨⟨hy1, hx1⟩, ⟨hy3, hy2⟩, ?_, ?_⟩
  · linear_combination Bn m * hxe + hye
  · rw [Nat.mul_comm (val y.2.1), Nat.mul_comm (val bh), Nat.add_comm (_ * val y.2.1), Nat.add_comm (_ * val bh)] at hylt
    exact hylt



/-- what `div_3_2` must deliver at the limb level (the `__RECINT_LIMB_SIZE` specialisation) -/
def Div32Limb (t : Nat) : Prop :=
  ∀ a2 a1 a0 b1 b0 : RU 0, WF a2 → WF a1 → WF a0 → WF b1 → WF b0 → Bn 0 ≤ 2 * val b1 →
    val a2 * Bn 0 + val a1 < val b1 * Bn 0 + val b0 → Div32Ok (div_3_2 t a2 a1 a0 b1 b0) a2 a1 a0 b1 b0

/-- induction over the level: the generic `div_3_2` / `div_2_1` templates are exact at every level once the limb-level
    `div_3_2` is -/
theorem div_family_of_limb (t : Nat) (H0 : Div32Limb t) : ∀ n : Nat,
    (∀ ah al b : RU n, WF ah → WF al → WF b → Bn n ≤ 2 * val b → val ah < val b → Div21Ok (div_2_1 t ah al b) ah al b) ∧
    (∀ a2 a1 a0 b1 b0 : RU n, WF a2 → WF a1 → WF a0 → WF b1 → WF b0 → Bn n ≤ 2 * val b1 →
      val a2 * Bn n + val a1 < val b1 * Bn n + val b0 → Div32Ok (div_3_2 t a2 a1 a0 b1 b0) a2 a1 a0 b1 b0)
  | 0 => ⟨fun ah al b h1 h2 h3 _ h5 => div_2_1_zero t ah al b h1 h2 h3 h5, H0⟩
  | n+1 => by
      obtain ⟨_, h32⟩ := div_family_of_limb t H0 n
      have h21' := div_2_1_step t n h32
      exact ⟨h21', div_3_2_step t n h21'⟩

end Givaro.Model.RecInt
