/- C13 — helper lemmas for the whole-function soundness theorems of the modular square roots. -/
import GivaroModel.Lemmas.NumTheoLemmas
import Mathlib.RingTheory.Coprime.Lemmas
import Mathlib.RingTheory.PrincipalIdealDomain
import Mathlib.RingTheory.Int.Basic
namespace Givaro.Lemmas.NumTheo
open Givaro.Model.NumTheo

theorem stripP_inv (p : Int) : ∀ (fuel : Nat) (b : Int) (t : Nat),
    (stripP fuel b p t).1 * p ^ (stripP fuel b p t).2 = b * p ^ t := by
  intro fuel
  induction fuel with
  | zero => intro b t; simp [stripP]
  | succ k ih =>
    intro b t
    rw [stripP]
    split
    · next h =>
      rw [ih]
      have hb : b = p * Int.tdiv b p := by
        have := Int.tmod_def b p
        rw [h.1] at this; linarith
      conv_rhs => rw [hb]
      rw [pow_succ]; ring
    · rfl

theorem tdiv_pow_self (p : Int) (hp : p ≠ 0) (k : Nat) (hk : 1 ≤ k) : Int.tdiv (p ^ k) p = p ^ (k - 1) := by
  have : p ^ k = p * p ^ (k - 1) := by
    conv_lhs => rw [show k = (k - 1) + 1 by omega]
    rw [pow_succ]; ring
  rw [this, Int.mul_tdiv_cancel_left _ hp]

/-- a square root of a unit modulo a multiple of the odd prime `p` is a unit, and so is its double -/
theorem coprime_two_root (p : Int) (hp : Prime p) (hp2 : ¬ p ∣ 2) (a x m : Int) (hpm : p ∣ m)
    (hx : (x * x - a) % m = 0) (ha : ¬ p ∣ a) (j : Nat) : IsCoprime (x * 2) (p ^ j) := by
  apply IsCoprime.pow_right
  apply IsCoprime.symm
  rw [(Prime.irreducible hp).coprime_iff_not_dvd]
  intro hd
  rcases hp.dvd_or_dvd hd with h | h
  · apply ha
    have h1 : p ∣ x * x - a := dvd_trans hpm (Int.dvd_of_emod_eq_zero hx)
    have h2 : p ∣ x * x := Dvd.dvd.mul_left h x
    have := dvd_sub h2 h1
    simpa using this
  · exact hp2 h

theorem not_dvd_of_tmod_ne (p a pk : Int) (hpk : p ∣ pk) (h : ¬ Int.tmod (a % pk) p = 0) : ¬ p ∣ a := by
  intro hd
  apply h
  apply Int.tmod_eq_zero_of_dvd
  have : a % pk = a - pk * (a / pk) := by have := Int.emod_add_mul_ediv a pk; linarith
  rw [this]
  exact dvd_sub hd (Dvd.dvd.mul_right hpk _)

theorem sub_emod_emod (x a pk : Int) (h : (x - a % pk) % pk = 0) : (x - a) % pk = 0 := by
  obtain ⟨c, hc⟩ := Int.dvd_of_emod_eq_zero h
  apply Int.emod_eq_zero_of_dvd
  have : a % pk = a - pk * (a / pk) := by have := Int.emod_add_mul_ediv a pk; linarith
  exact ⟨c - a / pk, by rw [this] at hc; linarith⟩


theorem stripTwo_inv : ∀ (fuel : Nat) (b : Int) (t : Nat),
    (stripTwo fuel b t).1 * 2 ^ (stripTwo fuel b t).2 = b * 2 ^ t := by
  intro fuel
  induction fuel with
  | zero => intro b t; simp [stripTwo]
  | succ k ih =>
    intro b t
    rw [stripTwo]
    split
    · next h =>
      rw [ih]
      have hb : b = 2 * (b / 2) := by omega
      conv_rhs => rw [hb]
      rw [pow_succ]; ring
    · rfl

theorem odd_of_sq_congr (x a m : Int) (h2 : (2 : Int) ∣ m) (hx : (x * x - a) % m = 0) (ha : a % 2 = 1) : x % 2 = 1 := by
  have h : (2 : Int) ∣ x * x - a := dvd_trans h2 (Int.dvd_of_emod_eq_zero hx)
  obtain ⟨c, hc⟩ := h
  rcases Int.emod_two_eq_zero_or_one x with h0 | h1
  · exfalso
    obtain ⟨y, hy⟩ : ∃ y, x = 2 * y := ⟨x / 2, by omega⟩
    subst hy
    have : a = 2 * (2 * y * y - c) := by linear_combination -hc
    omega
  · exact h1

theorem coprime_odd_pow (x : Int) (hx : x % 2 = 1) (j : Nat) : IsCoprime x (2 ^ j) := by
  apply IsCoprime.pow_right
  exact ⟨1, -(x / 2), by omega⟩

theorem sqrootmod8_sound (t : Int) (h : sqrootmod8 t ≠ -1) : (sqrootmod8 t * sqrootmod8 t - t) % 8 = 0 := by
  unfold sqrootmod8 at h ⊢
  simp only [] at h ⊢
  split_ifs at h ⊢ <;> omega

theorem sqrootmod8_odd (t : Int) (ht : t % 2 = 1) (h : sqrootmod8 t ≠ -1) : sqrootmod8 t = 1 := by
  unfold sqrootmod8 at h ⊢
  simp only [] at h ⊢
  split_ifs at h ⊢ <;> omega

/-- Garner recombination (`IntRNSsystem::RnsToRing` as modelled): the value is congruent to `v` modulo the product so far
    and to each residue modulo its modulus, when every modulus is coprime to the product of the previous ones -/
theorem rnsGo_spec (hinv : ∀ z m : Int, IsCoprime z m → (z * invmod z m - 1) % m = 0) :
    ∀ (rest : List (Int × Int)) (v prod : Int),
      (∀ pr ∈ rest, IsCoprime prod pr.1) → List.Pairwise (fun x y : Int × Int => IsCoprime x.1 y.1) rest →
      (rnsGo rest v prod - v) % prod = 0 ∧ ∀ pr ∈ rest, (rnsGo rest v prod - pr.2) % pr.1 = 0 := by
  intro rest
  induction rest with
  | nil => intro v prod _ _; simp [rnsGo]
  | cons pr t ih =>
    intro v prod hco hpw
    obtain ⟨p, r⟩ := pr
    rw [rnsGo]
    have hcp : IsCoprime prod p := hco (p, r) (by simp)
    obtain ⟨e, he⟩ := Int.dvd_of_emod_eq_zero (hinv prod p hcp)
    have hpw' := List.pairwise_cons.mp hpw
    have hco' : ∀ q ∈ t, IsCoprime (prod * p) q.1 := by
      intro q hq
      exact IsCoprime.mul_left (hco q (by simp [hq])) (hpw'.1 q hq)
    obtain ⟨h1, h2⟩ := ih (v + (r - v) * invmod prod p % p * prod) (prod * p) hco' hpw'.2
    set V := rnsGo t (v + (r - v) * invmod prod p % p * prod) (prod * p) with hV
    obtain ⟨c, hc⟩ := Int.dvd_of_emod_eq_zero h1
    have hm : (r - v) * invmod prod p % p = (r - v) * invmod prod p - p * ((r - v) * invmod prod p / p) := by
      have := Int.emod_add_mul_ediv ((r - v) * invmod prod p) p; linarith
    refine ⟨?_, ?_⟩
    · apply Int.emod_eq_zero_of_dvd
      exact ⟨p * c + (r - v) * invmod prod p % p, by linear_combination hc⟩
    · intro q hq
      rcases List.mem_cons.mp hq with h | h
      · subst h
        simp only []
        apply Int.emod_eq_zero_of_dvd
        rw [hm] at hc
        generalize (r - v) * invmod prod p / p = d at hc
        generalize invmod prod p = ck at he hc
        exact ⟨prod * c + (r - v) * e - prod * d, by linear_combination hc + (r - v) * he⟩
      · exact h2 q h

theorem rnsToRing_spec (hinv : ∀ z m : Int, IsCoprime z m → (z * invmod z m - 1) % m = 0)
    (primes residues : List Int)
    (hpw : List.Pairwise (fun x y : Int × Int => IsCoprime x.1 y.1) (primes.zip residues)) :
    ∀ pr ∈ primes.zip residues, (rnsToRing primes residues - pr.2) % pr.1 = 0 := by
  unfold rnsToRing
  cases hz : primes.zip residues with
  | nil => intro pr hpr; simp at hpr
  | cons pr0 rest =>
    obtain ⟨p, r⟩ := pr0
    rw [hz] at hpw
    have hpw' := List.pairwise_cons.mp hpw
    obtain ⟨h1, h2⟩ := rnsGo_spec hinv rest r p (fun q hq => hpw'.1 q hq) hpw'.2
    intro pr hpr
    rcases List.mem_cons.mp hpr with h | h
    · subst h; exact h1
    · exact h2 pr h

/-- the component computation of `sqrootmod` for one prime power of the factor list -/
def sqrtComponent (rnd : Nat → Int) (a : Int) (pe : Int × Nat) : Option Int :=
  if pe.1 = 2 then sqrootmodpoweroftwo (ppFuel pe.2) a pe.2 (pe.1 ^ pe.2)
  else sqrootmodprimepower rnd (ppFuel pe.2) a pe.1 pe.2 (pe.1 ^ pe.2)

theorem coprime_list_prod (m : Int) : ∀ (t : List Int), (∀ q ∈ t, IsCoprime m q) → IsCoprime m t.prod := by
  intro t
  induction t with
  | nil => intro _; simpa using isCoprime_one_right
  | cons q t ih =>
    intro h
    rw [List.prod_cons]
    exact IsCoprime.mul_right (h q (by simp)) (ih (fun r hr => h r (by simp [hr])))

theorem prod_dvd_of_pairwise_coprime (z : Int) : ∀ (l : List Int), List.Pairwise IsCoprime l →
    (∀ m ∈ l, m ∣ z) → l.prod ∣ z := by
  intro l
  induction l with
  | nil => intro _ _; simp
  | cons m t ih =>
    intro hpw hd
    have hpw' := List.pairwise_cons.mp hpw
    rw [List.prod_cons]
    exact IsCoprime.mul_dvd (coprime_list_prod m t hpw'.1) (hd m (by simp))
      (ih hpw'.2 (fun q hq => hd q (by simp [hq])))

theorem tmod_range (u p : Int) (hu : 0 ≤ u) (hp : 0 < p) : 0 ≤ Int.tmod u p ∧ Int.tmod u p < p :=
  ⟨Int.tmod_nonneg p hu, Int.tmod_lt_of_pos u hp⟩

theorem powmod_range (a : Int) (e : Nat) (p : Int) (hp : 0 < p) : 0 ≤ powmod a e p ∧ powmod a e p < p := by
  rw [powmod_eq]; exact ⟨Int.emod_nonneg _ (by omega), Int.emod_lt_of_pos _ hp⟩

theorem cast_eq_one_iff (t : Int) (p : Nat) (hp : 2 ≤ p) (h0 : 0 ≤ t) (h1 : t < p) : ((t : Int) : ZMod p) = 1 ↔ t = 1 := by
  constructor
  · intro h
    have h2 : ((t - 1 : Int) : ZMod p) = 0 := by push_cast; rw [h]; simp
    rw [ZMod.intCast_zmod_eq_zero_iff_dvd] at h2
    obtain ⟨c, hc⟩ := h2
    have hpp : (2 : Int) ≤ p := by exact_mod_cast hp
    have : c = 0 := by
      by_contra hne
      rcases lt_or_gt_of_ne hne with hlt | hgt
      · have : c ≤ -1 := by omega
        nlinarith
      · have : 1 ≤ c := by omega
        nlinarith
    rw [this] at hc; omega
  · intro h; rw [h]; simp

theorem firstDraw_complete (rnd : Nat → Int) (stop : Int → Bool) : ∀ (fuel i j : Nat), i ≤ j → j < i + fuel →
    stop (rnd j) = true → ∃ d, firstDraw rnd stop fuel i = some d := by
  intro fuel
  induction fuel with
  | zero => intro i j h1 h2; omega
  | succ n ih =>
    intro i j h1 h2 hs
    rw [firstDraw]
    by_cases hc : stop (rnd i) = true
    · rw [if_pos hc]; exact ⟨_, rfl⟩
    · rw [if_neg hc]
      have : i ≠ j := by intro h; subst h; exact hc hs
      exact ih (i + 1) j (by omega) (by omega) hs

theorem splitTwo_spec : ∀ (fuel : Nat) (q0 : Int) (e0 : Nat), 0 < q0 → q0 < 2 ^ fuel →
    (splitTwo fuel q0 e0).1 * 2 ^ (splitTwo fuel q0 e0).2 = q0 * 2 ^ e0 ∧ (splitTwo fuel q0 e0).1 % 2 = 1 ∧
      0 < (splitTwo fuel q0 e0).1 ∧ e0 ≤ (splitTwo fuel q0 e0).2 := by
  intro fuel
  induction fuel with
  | zero => intro q0 e0 h0 h1; simp at h1; omega
  | succ n ih =>
    intro q0 e0 h0 h1
    rw [splitTwo]
    by_cases hc : q0 % 2 = 0 ∧ q0 ≠ 0
    · rw [if_pos hc]
      have hlt : q0 / 2 < 2 ^ n := by
        rw [pow_succ] at h1; omega
      obtain ⟨r1, r2, r3, r4⟩ := ih (q0 / 2) (e0 + 1) (by omega) hlt
      refine ⟨?_, r2, r3, by omega⟩
      rw [r1, pow_succ]
      have : q0 = 2 * (q0 / 2) := by omega
      conv_rhs => rw [this]
      ring
    · rw [if_neg hc]
      exact ⟨rfl, by omega, h0, le_refl _⟩

end Givaro.Lemmas.NumTheo
