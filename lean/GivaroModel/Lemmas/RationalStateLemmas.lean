/-
C10 — helper lemmas for Props/C10State.lean (mode threading; ℚ versions of the mixed-mode statements).
-/
import GivaroModel.Model.RationalState
import GivaroModel.Lemmas.RationalMixed
import GivaroModel.Lemmas.RationalValue
set_option linter.unusedVariables false
namespace Givaro.Lemmas.Rational
open Givaro Givaro.Model.Rational Givaro.Spec.Rational

theorem lastSet_cons (m : Bool) (op : Op) (ops : List Op) (c : Int → Int → Int) :
    lastSet m (op :: ops) = lastSet (step c m op).1 ops := by
  cases op <;> rfl

theorem runOps_append (c : Int → Int → Int) (m : Bool) (xs ys : List Op) :
    runOps c m (xs ++ ys) = ((runOps c (runOps c m xs).1 ys).1, (runOps c m xs).2 ++ (runOps c (runOps c m xs).1 ys).2) := by
  induction xs generalizing m with
  | nil => simp [runOps]
  | cons x xs ih =>
    simp only [List.cons_append, runOps]
    rw [ih]

theorem vod {r : QRep} {n d : Int} (hr : 0 < r.den) (hd : d ≠ 0) (h : Den r n d) : val r = (n : ℚ) / (d : ℚ) :=
  val_of_den (by omega) hd h
theorem qn {a : QRep} (h : 0 < a.den) : (a.den : ℚ) ≠ 0 := by exact_mod_cast (by omega : a.den ≠ 0)
theorem num_ne {a : QRep} (h : val a ≠ 0) : a.num ≠ 0 := by
  intro h0; apply h; unfold val; rw [h0]; simp

theorem add_pos_exact (m : Bool) (a b : QRep) (ha : 0 < a.den) (hb : 0 < b.den) :
    ∃ r, Model.Rational.add m a b = some r ∧ 0 < r.den ∧ val r = val a + val b := by
  obtain ⟨r, h1, h2, h3⟩ := add_pos_spec m a b ha hb
  refine ⟨r, h1, h2, ?_⟩
  rw [vod h2 (Int.mul_ne_zero (by omega) (by omega)) h3]
  unfold val; have := qn ha; have := qn hb; push_cast; field_simp
theorem sub_pos_exact (m : Bool) (a b : QRep) (ha : 0 < a.den) (hb : 0 < b.den) :
    ∃ r, Model.Rational.sub m a b = some r ∧ 0 < r.den ∧ val r = val a - val b := by
  obtain ⟨r, h1, h2, h3⟩ := sub_pos_spec m a b ha hb
  refine ⟨r, h1, h2, ?_⟩
  rw [vod h2 (Int.mul_ne_zero (by omega) (by omega)) h3]
  unfold val; have := qn ha; have := qn hb; push_cast; field_simp
theorem mul_pos_exact {c : Int → Int → Int} (hc : CmpAbsOK c) (m : Bool) (a b : QRep) (ha : 0 < a.den) (hb : 0 < b.den) :
    ∃ r, Model.Rational.mul c m a b = some r ∧ 0 < r.den ∧ val r = val a * val b := by
  obtain ⟨r, h1, h2, h3⟩ := mul_pos_spec hc m a b ha hb
  refine ⟨r, h1, h2, ?_⟩
  rw [vod h2 (Int.mul_ne_zero (by omega) (by omega)) h3]
  unfold val; have := qn ha; have := qn hb; push_cast; field_simp
theorem mulin_pos_exact {c : Int → Int → Int} (hc : CmpAbsOK c) (m : Bool) (a b : QRep) (ha : 0 < a.den) (hb : 0 < b.den) :
    ∃ r, Model.Rational.mulin c m a b = some r ∧ 0 < r.den ∧ val r = val a * val b := by
  obtain ⟨r, h1, h2, h3⟩ := mulin_pos_spec hc m a b ha hb
  refine ⟨r, h1, h2, ?_⟩
  rw [vod h2 (Int.mul_ne_zero (by omega) (by omega)) h3]
  unfold val; have := qn ha; have := qn hb; push_cast; field_simp
theorem div_pos_exact {c : Int → Int → Int} (hc : CmpAbsOK c) (m : Bool) (a b : QRep) (ha : 0 < a.den) (hb : 0 < b.den)
    (hnz : val b ≠ 0) : ∃ r, Model.Rational.div c m a b = some r ∧ 0 < r.den ∧ val r = val a / val b := by
  have hbn := num_ne hnz
  obtain ⟨r, h1, h2, h3⟩ := div_pos_spec hc m a b ha hb hbn
  refine ⟨r, h1, h2, ?_⟩
  rw [vod h2 (Int.mul_ne_zero (by omega) hbn) h3]
  unfold val; have := qn ha; have := qn hb
  have : (b.num : ℚ) ≠ 0 := by exact_mod_cast hbn
  push_cast; field_simp
theorem divin_pos_exact (m : Bool) (a b : QRep) (ha : 0 < a.den) (hb : 0 < b.den)
    (hnz : val b ≠ 0) : ∃ r, Model.Rational.divin m a b = some r ∧ 0 < r.den ∧ val r = val a / val b := by
  have hbn := num_ne hnz
  obtain ⟨r, h1, h2, h3⟩ := divin_pos_spec m a b ha hb hbn
  refine ⟨r, h1, h2, ?_⟩
  rw [vod h2 (Int.mul_ne_zero (by omega) hbn) h3]
  unfold val; have := qn ha; have := qn hb
  have : (b.num : ℚ) ≠ 0 := by exact_mod_cast hbn
  push_cast; field_simp

theorem vf (a : QRep) (h : 0 < a.den) : Valid false a := ⟨h, fun x => by cases x⟩


end Givaro.Lemmas.Rational
