/-
C05 — the `(TT)`/`(Rep)` conversions of the Zech macros are the identity on every intermediate value when the
operands are canonical and the word type holds `[-4(q-1), 4(q-1)]` (`int32_t` for q ≤ 65536, `int64_t` for q ≤ 2^32):
the word-level transcription `Model.Zech.Word.*` coincides with the plain `Int` model the other theorems speak about.
-/
import GivaroModel.Lemmas.GFqOps
import GivaroModel.Prim.Word
namespace Givaro.Lemmas.GFqZech
open Givaro.Model.Zech

/-- what the word-level argument needs: the word type holds `[-B, B]` exactly, `4(q-1) ≤ B`, the sentinels and the
    table entries are in their ranges -/
structure WordFits (w : Int → Int) (B : Int) (F : Dom) : Prop where
  id_on : ∀ x, -B ≤ x → x ≤ B → w x = x
  room : 4 * F.mun ≤ B
  mun_nonneg : 0 ≤ F.mun
  mo_lo : 0 ≤ F.mo
  mo_hi : F.mo ≤ F.mun
  pl_lo : ∀ i, -F.mun ≤ F.pl i
  pl_hi : ∀ i, F.pl i ≤ 0

section
variable {w : Int → Int} {B : Int} {F : Dom} (W : WordFits w B F)
include W

theorem w_mun : w F.mun = F.mun := W.id_on _ (by have := W.room; have := W.mun_nonneg; omega) (by have := W.room; have := W.mun_nonneg; omega)
theorem w_mo : w F.mo = F.mo := W.id_on _ (by have := W.room; have := W.mun_nonneg; have := W.mo_lo; omega) (by have := W.room; have := W.mo_hi; have := W.mun_nonneg; omega)

theorem w_id (x : Int) (h1 : -(4 * F.mun) ≤ x) (h2 : x ≤ 4 * F.mun) : w x = x :=
  W.id_on _ (by have := W.room; omega) (by have := W.room; omega)

theorem wp_eq (c : Int) (h1 : -(3 * F.mun) ≤ c) (h2 : c ≤ 3 * F.mun) : Word.wp w F.mun c = wrapPos F.mun c := by
  have := W.mun_nonneg
  unfold Word.wp wrapPos
  rw [w_mun W, w_id W _ (by omega) (by omega)]

omit W in
theorem wrapPos_bd (c : Int) (h1 : -(2 * F.mun) ≤ c) (h2 : c ≤ F.mun) :
    -F.mun ≤ wrapPos F.mun c ∧ wrapPos F.mun c ≤ F.mun := by
  unfold wrapPos; split <;> omega

omit W in
theorem AUTOSUB_eq_form (c b : Int) (hc0 : c ≠ 0) (hb0 : b ≠ 0) :
    AUTOSUB F.mo F.mun F.pl c b =
      (let y := F.pl (wrapPos F.mun (wrapPos F.mun (c - b - F.mo)))
       if y ≠ 0 then wrapPos F.mun (if y + b > 0 then y + b - F.mo else y + b + F.mo) else y) := by
  unfold AUTOSUB wrapPos
  simp only [hc0, hb0, ne_eq, not_false_eq_true, ↓reduceIte]

theorem tl_eq (x b : Int) (hb1 : 0 ≤ b) (hb2 : b ≤ F.mun) : Word.tl w F.mun F.pl x b = tail F x b := by
  have := W.mun_nonneg
  have p1 := W.pl_lo x
  have p2 := W.pl_hi x
  unfold Word.tl tail
  simp only []
  rw [w_id W (F.pl x) (by omega) (by omega)]
  split
  · rw [w_id W _ (by omega) (by omega), wp_eq W _ (by omega) (by omega)]; rfl
  · rfl

theorem ADDw_eq (a b : Int) (ha : 0 ≤ a ∧ a ≤ F.mun) (hb : 0 ≤ b ∧ b ≤ F.mun) :
    Word.ADD w F.mun F.pl a b = ADD F.mun F.pl a b := by
  have := W.mun_nonneg
  by_cases hb0 : b = 0
  · unfold Word.ADD ADD; simp only [hb0, ↓reduceIte]
  by_cases ha0 : a = 0
  · unfold Word.ADD ADD; simp only [hb0, ha0, ↓reduceIte]
  rw [ADD_eq_tail F a b ha0 hb0]
  unfold Word.ADD
  simp only [hb0, ha0, ↓reduceIte]
  rw [w_id W _ (by omega) (by omega), wp_eq W _ (by omega) (by omega), tl_eq W _ b hb.1 hb.2]

theorem NEGw_eq (a : Int) (ha : 0 ≤ a ∧ a ≤ F.mun) : Word.NEG w F.mo F.mun a = NEG F.mo F.mun a := by
  have := W.mun_nonneg; have := W.mo_lo; have := W.mo_hi
  unfold Word.NEG NEG
  by_cases ha0 : a = 0
  · simp only [ha0, ↓reduceIte]
  simp only [ha0, ↓reduceIte]
  rw [w_mo W, w_id W _ (by omega) (by omega), wp_eq W _ (by omega) (by omega)]; rfl

theorem SUBw_eq (a b : Int) (ha : 0 ≤ a ∧ a ≤ F.mun) (hb : 0 ≤ b ∧ b ≤ F.mun) :
    Word.SUB w F.mo F.mun F.pl a b = SUB F.mo F.mun F.pl a b := by
  have := W.mun_nonneg; have := W.mo_lo; have := W.mo_hi
  by_cases ha0 : a = 0
  · unfold Word.SUB SUB; simp only [ha0, ↓reduceIte]; exact NEGw_eq W b hb
  by_cases hb0 : b = 0
  · unfold Word.SUB SUB; simp only [hb0, ha0, ↓reduceIte]
  rw [SUB_eq_tail F a b ha0 hb0]
  unfold Word.SUB
  simp only [hb0, ha0, ↓reduceIte]
  have b1 := wrapPos_bd (F := F) (b - a - F.mo) (by omega) (by omega)
  rw [w_mo W, w_id W (b - a) (by omega) (by omega), w_id W (b - a - F.mo) (by omega) (by omega),
    wp_eq W (b - a - F.mo) (by omega) (by omega),
    wp_eq W (wrapPos F.mun (b - a - F.mo)) (by omega) (by omega), tl_eq W _ a ha.1 ha.2]

theorem MULw_eq (a b : Int) (ha : 0 ≤ a ∧ a ≤ F.mun) (hb : 0 ≤ b ∧ b ≤ F.mun) :
    Word.MUL w F.mun a b = MUL F.mun a b := by
  have := W.mun_nonneg
  unfold Word.MUL MUL
  simp only []
  rw [w_mun W, w_id W (a + b) (by omega) (by omega), w_id W (a + b - F.mun) (by omega) (by omega)]

theorem INVw_eq (a : Int) (ha : 0 ≤ a ∧ a ≤ F.mun) : Word.INV w F.mun a = INV F.mun a := by
  have := W.mun_nonneg
  unfold Word.INV INV
  simp only []
  rw [w_mun W, w_id W _ (by omega) (by omega)]

theorem DIVw_eq (a b : Int) (ha : 0 ≤ a ∧ a ≤ F.mun) (hb : 0 ≤ b ∧ b ≤ F.mun) :
    Word.DIV w F.mun a b = DIV F.mun a b := by
  have := W.mun_nonneg
  unfold Word.DIV DIV
  by_cases ha0 : a = 0
  · simp only [ha0, ↓reduceIte]
  simp only [ha0, ↓reduceIte]
  rw [w_id W _ (by omega) (by omega), wp_eq W _ (by omega) (by omega)]; rfl

theorem AUTOSUBw_eq (c b : Int) (hc : 0 ≤ c ∧ c ≤ F.mun) (hb : 0 ≤ b ∧ b ≤ F.mun) :
    Word.AUTOSUB w F.mo F.mun F.pl c b = AUTOSUB F.mo F.mun F.pl c b := by
  have := W.mun_nonneg; have := W.mo_lo; have := W.mo_hi
  by_cases hc0 : c = 0
  · unfold Word.AUTOSUB AUTOSUB; simp only [hc0, ↓reduceIte]; exact NEGw_eq W b hb
  by_cases hb0 : b = 0
  · unfold Word.AUTOSUB AUTOSUB; simp only [hb0, hc0, ↓reduceIte, ne_eq, not_true_eq_false]
  rw [AUTOSUB_eq_form c b hc0 hb0]
  unfold Word.AUTOSUB
  simp only [hb0, hc0, ↓reduceIte, ne_eq, not_false_eq_true]
  have b1 := wrapPos_bd (F := F) (c - b - F.mo) (by omega) (by omega)
  rw [w_mo W, w_id W (c - b) (by omega) (by omega), w_id W (c - b - F.mo) (by omega) (by omega),
    wp_eq W (c - b - F.mo) (by omega) (by omega), wp_eq W (wrapPos F.mun (c - b - F.mo)) (by omega) (by omega)]
  generalize wrapPos F.mun (wrapPos F.mun (c - b - F.mo)) = x
  have p1 := W.pl_lo x
  have p2 := W.pl_hi x
  rw [w_id W (F.pl x) (by omega) (by omega)]
  split
  · rw [w_id W (F.pl x + b) (by omega) (by omega), w_id W (F.pl x + b - F.mo) (by omega) (by omega),
      w_id W (F.pl x + b + F.mo) (by omega) (by omega)]
    have : -(3 * F.mun) ≤ (if F.pl x + b > 0 then F.pl x + b - F.mo else F.pl x + b + F.mo) ∧
        (if F.pl x + b > 0 then F.pl x + b - F.mo else F.pl x + b + F.mo) ≤ 3 * F.mun := by split <;> omega
    rw [wp_eq W _ this.1 this.2]
  · rfl

theorem MULADDw_eq (a1 a2 b : Int) (h1 : 0 ≤ a1 ∧ a1 ≤ F.mun) (h2 : 0 ≤ a2 ∧ a2 ≤ F.mun) (hb : 0 ≤ b ∧ b ≤ F.mun) :
    Word.MULADD w F.mun F.pl a1 a2 b = MULADD F.mun F.pl a1 a2 b := by
  have := W.mun_nonneg
  by_cases h0 : a1 = 0 ∨ a2 = 0
  · unfold Word.MULADD MULADD; simp only [h0, ↓reduceIte]
  by_cases hb0 : b = 0
  · unfold Word.MULADD MULADD; simp only [h0, hb0, ↓reduceIte]
    rw [w_mun W, w_id W (a1 + a2) (by omega) (by omega), w_id W _ (by omega) (by omega), wp_eq W _ (by omega) (by omega)]; rfl
  have h10 : a1 ≠ 0 := fun h => h0 (Or.inl h)
  have h20 : a2 ≠ 0 := fun h => h0 (Or.inr h)
  rw [MULADD_eq_tail F a1 a2 b h10 h20 hb0]
  unfold Word.MULADD
  simp only [h0, hb0, ↓reduceIte]
  rw [w_mun W, w_id W (a1 + a2) (by omega) (by omega), w_id W (a1 + a2 - b) (by omega) (by omega),
    w_id W (a1 + a2 - b - F.mun) (by omega) (by omega), w_id W (a1 + a2 - b - F.mun + F.mun) (by omega) (by omega)]
  have : -(3 * F.mun) ≤ (if a1 + a2 - b - F.mun < 0 then a1 + a2 - b - F.mun + F.mun else a1 + a2 - b - F.mun) ∧
      (if a1 + a2 - b - F.mun < 0 then a1 + a2 - b - F.mun + F.mun else a1 + a2 - b - F.mun) ≤ 3 * F.mun := by
    split <;> omega
  rw [wp_eq W _ this.1 this.2, tl_eq W _ b hb.1 hb.2]
end
end Givaro.Lemmas.GFqZech
