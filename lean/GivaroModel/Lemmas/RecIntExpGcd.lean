/- C06 helper lemmas: ruexp.h exp_mod, rugcd.h gcd. -/
import GivaroModel.Lemmas.RecIntArazi
import GivaroModel.Lemmas.RecIntConv
namespace Givaro.Model.RecInt

/-- value of a list of bits, least significant first -/
def bitsVal : List Bool → Nat
  | [] => 0
  | b :: bs => c2n b + 2 * bitsVal bs

theorem bitsVal_append (l1 l2 : List Bool) : bitsVal (l1 ++ l2) = bitsVal l1 + 2 ^ l1.length * bitsVal l2 := by
  induction l1 with
  | nil => simp [bitsVal]
  | cons x xs ih => simp only [List.cons_append, bitsVal, ih, List.length_cons, pow_succ]; ring

theorem bitsVal_range (l : Nat) : ∀ k : Nat,
    bitsVal ((List.range k).map (fun j => decide ((l / 2 ^ j) % 2 = 1))) = l % 2 ^ k ∧
    ((List.range k).map (fun j => decide ((l / 2 ^ j) % 2 = 1))).length = k
  | 0 => by simp [bitsVal, Nat.mod_one]
  | k+1 => by
      obtain ⟨ih, hl⟩ := bitsVal_range l k
      rw [List.range_succ, List.map_append, bitsVal_append, ih, hl]
      refine ⟨?_, by simp⟩
      simp only [List.map_cons, List.map_nil, bitsVal, Nat.mul_zero, Nat.add_zero, c2n_decide]
      have h1 : l % 2 ^ (k+1) = l % 2 ^ k + 2 ^ k * (l / 2 ^ k % 2) := by rw [pow_succ, Nat.mod_mul]
      rw [h1]
      split
      · rename_i h; rw [h]
      · rename_i h; have : l / 2 ^ k % 2 = 0 := by omega
        rw [this]

theorem bitsVal_bitsLS : ∀ (ls : List Nat), (∀ l ∈ ls, l < B64) → bitsVal (bitsLS ls) = limbsVal ls
  | [], _ => by simp [bitsLS, bitsVal, limbsVal]
  | l :: ls, h => by
      have e : B64 = 2 ^ 64 := by norm_num [B64]
      have hl : l < B64 := h l (by simp)
      have ih := bitsVal_bitsLS ls (fun x hx => h x (by simp [hx]))
      have hr := bitsVal_range l 64
      simp only [bitsLS, List.flatMap_cons] at ih ⊢
      rw [bitsVal_append, hr.1, hr.2, ih, limbsVal, ← e, Nat.mod_eq_of_lt hl]

theorem limbs_lt : ∀ {n : Nat} (b : RU n), WF b → ∀ l ∈ limbsLS b, l < B64
  | _, .limb v, hw, l, hl => by simp only [limbsLS, List.mem_singleton] at hl; subst hl; exact hw
  | _, .node x y, hw, l, hl => by
      simp only [limbsLS, List.mem_append] at hl
      rcases hl with h | h
      · exact limbs_lt x hw.1 l h
      · exact limbs_lt y hw.2 l h

theorem ofLimb_ok : ∀ (n v : Nat), v < B64 → WF (ofLimb n v) ∧ val (ofLimb n v) = v
  | 0, v, h => by simp [ofLimb, WF, val, h]
  | n+1, v, h => by
      have ih := ofLimb_ok n v h
      have hz := val_zero n
      simp only [ofLimb, WF_node, val_node, ih.2, hz.2]; exact ⟨⟨ih.1, hz.1⟩, by simp⟩

/-- the square-and-multiply loop of `exp_mod`, over any list of exponent bits -/
theorem exp_fold (t : Nat) {n : Nat} (m : RU n) (hm : WF m) (hne : val m ≠ 0) (b : Nat) :
    ∀ (L : List Bool) (st : RU n × RU n) (e j : Nat), WF st.1 → WF st.2 →
      val st.1 = b ^ e % val m → val st.2 % val m = b ^ (2 ^ j) % val m →
      WF (L.foldl (fun (st : RU n × RU n) bit =>
            let a := if bit then mod_n2 t (lmul t st.1 st.2) m else st.1
            (a, mod_n2 t (lsquare t st.2) m)) st).1 ∧
      val (L.foldl (fun (st : RU n × RU n) bit =>
            let a := if bit then mod_n2 t (lmul t st.1 st.2) m else st.1
            (a, mod_n2 t (lsquare t st.2) m)) st).1
        = b ^ (e + 2 ^ j * bitsVal L) % val m
  | [], st, e, j, h1, _, h3, _ => by simp [bitsVal, h1, h3]
  | bit :: L, st, e, j, h1, h2, h3, h4 => by
      simp only [List.foldl_cons]
      obtain ⟨hsqw, hsqe⟩ := lsquare_ok t st.2 h2
      obtain ⟨hxw, hxe⟩ := mod_n2_ok t (lsquare t st.2) m hsqw hm hne
      have hx' : val (mod_n2 t (lsquare t st.2) m) % val m = b ^ (2 ^ (j+1)) % val m := by
        rw [hxe, hsqe, Nat.mod_mod, Nat.mul_mod, h4, ← Nat.mul_mod, ← pow_add, pow_succ]; congr 2; ring
      cases bit
      · have := exp_fold t m hm hne b L (st.1, mod_n2 t (lsquare t st.2) m) e (j+1) h1 hxw h3 hx'
        simp only [Bool.false_eq_true, ↓reduceIte, bitsVal, c2n_false, Nat.zero_add] at this ⊢
        rw [show 2 ^ j * (2 * bitsVal L) = 2 ^ (j+1) * bitsVal L by rw [pow_succ]; ring]
        exact this
      · obtain ⟨hpw, hpe⟩ := lmul_ok t st.1 st.2 h1 h2
        obtain ⟨haw, hae⟩ := mod_n2_ok t (lmul t st.1 st.2) m hpw hm hne
        have ha' : val (mod_n2 t (lmul t st.1 st.2) m) = b ^ (e + 2 ^ j) % val m := by
          rw [hae, hpe, h3, Nat.mul_mod, Nat.mod_mod, h4, ← Nat.mul_mod, ← pow_add]
        have := exp_fold t m hm hne b L (mod_n2 t (lmul t st.1 st.2) m, mod_n2 t (lsquare t st.2) m) (e + 2 ^ j) (j+1) haw hxw ha' hx'
        simp only [↓reduceIte, bitsVal, c2n_true] at this ⊢
        rw [show e + 2 ^ j * (1 + 2 * bitsVal L) = e + 2 ^ j + 2 ^ (j+1) * bitsVal L by rw [pow_succ]; ring]
        exact this

/-- `exp_mod(a, b, c, n)`: `b^c mod n` for every modulus `n ≠ 0` -/
theorem exp_mod_ok (t : Nat) {n : Nat} (b c m : RU n) (hb : WF b) (hc : WF c) (hm : WF m) (hne : val m ≠ 0) :
    WF (exp_mod t b c m) ∧ val (exp_mod t b c m) = val b ^ val c % val m := by
  obtain ⟨h1w, h1e⟩ := ofLimb_ok n 1 (by decide)
  obtain ⟨-, hrw, hre, hrlt⟩ := div_ok t (ofLimb n 1) m h1w hm hne
  have hinit : val (div t (ofLimb n 1) m).2 = val b ^ 0 % val m := by
    have he : 1 = val m * val (div t (ofLimb n 1) m).1 + val (div t (ofLimb n 1) m).2 := by
      rw [Nat.mul_comm, ← hre, h1e]
    rw [pow_zero]; exact mod_unique he hrlt
  have h := exp_fold t m hm hne (val b) (bitsLS (limbsLS c)) ((div t (ofLimb n 1) m).2, b) 0 0 hrw hb hinit (by simp)
  unfold exp_mod
  rw [bitsVal_bitsLS _ (limbs_lt c hc), limbsVal_limbsLS] at h
  simpa using h

/-- `exp_mod(a, b, const T& c, n)` with an unsigned word exponent -/
theorem exp_mod_l_ok (t : Nat) {n : Nat} (b : RU n) (c : Nat) (m : RU n) (hb : WF b) (hc : c < B64) (hm : WF m) (hne : val m ≠ 0) :
    WF (exp_mod_l t b c m) ∧ val (exp_mod_l t b c m) = val b ^ c % val m := by
  obtain ⟨h1w, h1e⟩ := ofLimb_ok n 1 (by decide)
  obtain ⟨-, hrw, hre, hrlt⟩ := div_ok t (ofLimb n 1) m h1w hm hne
  have hinit : val (div t (ofLimb n 1) m).2 = val b ^ 0 % val m := by
    have he : 1 = val m * val (div t (ofLimb n 1) m).1 + val (div t (ofLimb n 1) m).2 := by
      rw [Nat.mul_comm, ← hre, h1e]
    rw [pow_zero]; exact mod_unique he hrlt
  have h := exp_fold t m hm hne (val b) (bitsLS [c]) ((div t (ofLimb n 1) m).2, b) 0 0 hrw hb hinit (by simp)
  unfold exp_mod_l
  rw [bitsVal_bitsLS _ (by intro l hl; simp only [List.mem_singleton] at hl; subst hl; exact hc)] at h
  simpa [limbsVal] using h

theorem div_mod_val (t : Nat) {n : Nat} (a b : RU n) (ha : WF a) (hb : WF b) (hne : val b ≠ 0) :
    WF (div t a b).2 ∧ val (div t a b).2 = val a % val b := by
  obtain ⟨-, hw, he, hlt⟩ := div_ok t a b ha hb hne
  exact ⟨hw, mod_unique (by rw [he, Nat.mul_comm]) hlt⟩

/-- Euclid's loop with enough fuel: the product of the two operands at least halves at every step -/
theorem gcdLoop_ok (t : Nat) {n : Nat} : ∀ (f : Nat) (c d : RU n), WF c → WF d → val d ≤ val c → val c * val d < 2 ^ f →
    WF (gcdLoop t (f+1) c d) ∧ val (gcdLoop t (f+1) c d) = Nat.gcd (val c) (val d)
  | f, c, d, hc, hd, hle, hlt => by
      simp only [gcdLoop]
      by_cases hz : isZero d = true
      · rw [if_pos hz, (isZero_iff d).mp hz, Nat.gcd_zero_right]; exact ⟨hc, rfl⟩
      · rw [if_neg hz]
        have hne : val d ≠ 0 := fun h => hz ((isZero_iff d).mpr h)
        obtain ⟨hrw, hre⟩ := div_mod_val t c d hc hd hne
        have hd1 : 1 ≤ val d := Nat.one_le_iff_ne_zero.mpr hne
        have hrlt : val c % val d < val d := Nat.mod_lt _ hd1
        cases f with
        | zero =>
            have : 1 ≤ val c * val d := Nat.mul_pos (by omega) hd1
            simp at hlt; omega
        | succ f' =>
            have hr2 : 2 * (val c % val d) < val c := by
              have h1 := Nat.div_add_mod (val c) (val d)
              have h2 : 1 ≤ val c / val d := (Nat.one_le_div_iff hd1).mpr hle
              have h3 : val d * 1 ≤ val d * (val c / val d) := Nat.mul_le_mul_left _ h2
              omega
            have hprod : val d * val (div t c d).2 < 2 ^ f' := by
              rw [hre]
              have h1 : val d * (2 * (val c % val d)) < val d * val c := Nat.mul_lt_mul_of_pos_left hr2 hd1
              rw [pow_succ] at hlt
              have : val d * val c = val c * val d := Nat.mul_comm _ _
              have : val d * (2 * (val c % val d)) = 2 * (val d * (val c % val d)) := by ring
              omega
            have ih := gcdLoop_ok t f' d (div t c d).2 hd hrw (by rw [hre]; omega) hprod
            rw [hre] at ih
            refine ⟨ih.1, ?_⟩
            rw [ih.2, Nat.gcd_comm (val c) (val d), Nat.gcd_rec (val d) (val c), Nat.gcd_comm]

/-- `gcd(a, b, c)`: the fuel `2·bits + 2` of the model always suffices -/
theorem gcd_ok (t : Nat) {n : Nat} (a b : RU n) (ha : WF a) (hb : WF b) :
    WF (gcd t a b) ∧ val (gcd t a b) = Nat.gcd (val a) (val b) := by
  have hva := val_lt a ha
  have hvb := val_lt b hb
  have hprod : val a * val b < 2 ^ (2 * bits n) := by
    rw [two_mul, pow_add, ← Bn_eq_two_pow]; exact Nat.mul_lt_mul'' hva hvb
  unfold gcd
  by_cases hle : val b ≤ val a
  · exact gcdLoop_ok t (2 * bits n + 1) a b ha hb hle (by rw [pow_succ]; omega)
  · have hne : val b ≠ 0 := by omega
    have hz : ¬ isZero b = true := fun h => hne ((isZero_iff b).mp h)
    obtain ⟨hrw, hre⟩ := div_mod_val t a b ha hb hne
    rw [Nat.mod_eq_of_lt (by omega)] at hre
    rw [show gcdLoop t (2 * bits n + 2) a b = if isZero b then a else gcdLoop t (2 * bits n + 1) b (div t a b).2 from rfl, if_neg hz]
    have := gcdLoop_ok t (2 * bits n) b (div t a b).2 hb hrw (by rw [hre]; omega) (by rw [hre, Nat.mul_comm]; exact hprod)
    rw [hre] at this
    exact ⟨this.1, by rw [this.2, Nat.gcd_comm]⟩

end Givaro.Model.RecInt

