/-
C10 — the `Integer` layer used by the Rational model *is* the translated gmp++ code (tie T for that layer).

Model/Rational.lean writes the `Integer` operations that givrat*.C call as plain `Int` operations.  This file
proves, against the bodies regenerated from /repo by translate/gen_integer.py (`Generated/IntegerOps.lean`) and
their per-overload theorems (`Generated/IntegerThms*.lean`, C01/C02), that each of them is what the translated
function returns; and that the framework's model of `mpz_cmpabs` (whose magnitude is opaque) meets `CmpAbsOK`.
Not translated (so assumed): `Integer::operator<<`, unary minus, `abs`-free paths of `operator=`.
-/
import GivaroModel.Generated.IntegerThms
import GivaroModel.Lemmas.RationalLemmas
namespace Givaro.Lemmas.Rational
open Givaro Givaro.Model.Rational

/-- `gcd(const Integer&, const Integer&)` (gmp++_int_gcd.C) -/
theorem igcd_translated (a b : Int) : igcd a b = (Gen.gcd_Zc_Zc a b).ret := by
  rw [Gen.gcd_Zc_Zc_exact]; rfl

/-- `Integer::operator/(const Integer&) const` and `operator/=(const Integer&)` (gmp++_int_div.C) -/
theorem idiv_translated (a b : Int) (hb : b ≠ 0) :
    idiv a b = (Gen.Integer_op_div_Zc_const a b).ret ∧ idiv a b = (Gen.Integer_op_divin_Zc a b).ret := by
  rw [Gen.Integer_op_div_Zc_const_exact a b hb, Gen.Integer_op_divin_Zc_exact a b hb]; exact ⟨rfl, rfl⟩

/-- `sign(const Integer&)` (gmp++_int.h) -/
theorem isign_translated (a : Int) : isign a = (Gen.sign_Zc a).ret := by
  rw [Gen.sign_Zc_exact]; rfl

/-- `Integer::operator+ - *` and their in-place forms -/
theorem ring_ops_translated (a b : Int) :
    a + b = (Gen.Integer_op_add_Zc_const a b).ret ∧ a - b = (Gen.Integer_op_sub_Zc_const a b).ret ∧
    a * b = (Gen.Integer_op_mul_Zc_const a b).ret ∧ a + b = (Gen.Integer_op_addin_Zc a b).ret ∧
    a - b = (Gen.Integer_op_subin_Zc a b).ret ∧ a * b = (Gen.Integer_op_mulin_Zc a b).ret := by
  rw [Gen.Integer_op_add_Zc_const_exact, Gen.Integer_op_sub_Zc_const_exact, Gen.Integer_op_mul_Zc_const_exact,
    Gen.Integer_op_addin_Zc_exact, Gen.Integer_op_subin_Zc_exact, Gen.Integer_op_mulin_Zc_exact]
  exact ⟨rfl, rfl, rfl, rfl, rfl, rfl⟩

/-- `Integer::floor(n,d)`, `Integer::ceil(n,d)` (value-returning statics used by `floor`/`ceil` of a Rational) -/
theorem floor_ceil_translated (a : QRep) (hd : a.den ≠ 0) :
    floor a = (Gen.Integer_floor_Zc_Zc a.num a.den).ret ∧ ceil a = (Gen.Integer_ceil_Zc_Zc a.num a.den).ret := by
  rw [Gen.Integer_floor_Zc_Zc_exact _ _ hd, Gen.Integer_ceil_Zc_Zc_exact _ _ hd]; exact ⟨rfl, rfl⟩

/-- `abs(const Integer&)` -/
theorem iabs_translated (a : Int) : iabs a = (Gen.abs_Zc a).ret := by
  rw [Gen.abs_Zc_exact]; rfl

/-- `pow(const Integer&, int64_t)` / `pow(const Integer&, uint64_t)`: the translated bodies, with `mpz_pow_ui b e = b ^ e` -/
theorem ipow_translated (n l : Int) :
    ipowS64 n l = (Gen.pow_Zc_s64 n l).ret ∧ ipowU n l = (Gen.pow_Zc_u64 n l).ret := by
  unfold ipowS64 ipowU Gen.pow_Zc_s64 Gen.pow_Zc_u64 mpz_pow_ui
  simp only [ipow_eq]
  refine ⟨by trivial, ?_⟩
  split <;> rfl

/-- `absCompare(const Integer&, const Integer&)` is `mpz_cmpabs`, and the framework's GMP model of it — sign specified,
    magnitude opaque (`cmpMag`) — is an admissible comparison in the sense of the order theorems -/
theorem cmpabs_translated : (∀ a b, (Gen.absCompare_Zc_Zc a b).ret = mpz_cmpabs a b) ∧ CmpAbsOK mpz_cmpabs := by
  refine ⟨fun _ _ => rfl, ?_⟩
  intro x y
  unfold mpz_cmpabs cmp3
  constructor <;> constructor <;> intro h <;> (try split_ifs at h) <;> (try split_ifs) <;> omega

/-- `Integer::divmod(q, r, a, b)` on the operands `round` passes (`|num| ≥ 0`, `den > 0`) -/
theorem idivmod_translated (a b q r : Int) (ha : 0 ≤ a) (hb : 0 < b) :
    (Gen.Integer_divmod_Z_Z_Zc_Zc q r a b).outs = [(idivmod a b).1, (idivmod a b).2] := by
  rw [Gen.Integer_divmod_Z_Z_Zc_Zc_exact q r a b (by omega)]
  unfold Gen.Integer_divmod_Z_Z_Zc_Zc_spec Spec.edivQ Spec.emodR idivmod
  rw [Int.tdiv_eq_ediv_of_nonneg ha, Int.tmod_eq_emod_of_nonneg ha]
  have : ¬ a % b < 0 := by have := Int.emod_nonneg a (by omega : b ≠ 0); omega
  simp [this]

end Givaro.Lemmas.Rational
