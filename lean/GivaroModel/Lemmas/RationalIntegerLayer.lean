/-
C10 — the `Integer` layer used by the Rational model *is* the translated gmp++ code (tie T for that layer).

Model/Rational.lean writes the `Integer` operations that givrat*.C call as plain `Int` operations.  This file
proves, against the bodies regenerated from /repo by translate/gen_integer.py (`Generated/IntegerOps.lean`) and
their per-overload theorems (`Generated/IntegerThms*.lean`, C01/C02), that each of them is what the translated
function returns; and that the framework's model of `mpz_cmpabs` (whose magnitude is opaque) meets `CmpAbsOK`.
Not translated (so assumed): `Integer::operator<<`, unary minus, `abs`-free paths of `operator=`.
-/
import GivaroModel.Generated.IntegerThms
import GivaroModel.Lemmas.RationalLemmas
namespace Givaro.Lemmas.Rational
open Givaro Givaro.Model.Rational

/-- `gcd(const Integer&, const Integer&)` (gmp++_int_gcd.C) -/
theorem igcd_translated (a b : Int) : igcd a b = (Gen.gcd_Zc_Zc a b).ret := by
  rw [Gen.gcd_Zc_Zc_exact]; rfl

/-- `Integer::operator/(const Integer&) const` and `operator/=(const Integer&)` (gmp++_int_div.C) -/
theorem idiv_translated (a b : Int) (hb : b ≠ 0) :
    idiv a b = (Gen.Integer_op_div_Zc_const a b).ret ∧ idiv a b = (Gen.Integer_op_divin_Zc a b).ret := by
  rw [Gen.Integer_op_div_Zc_const_exact a b hb, Gen.Integer_op_divin_Zc_exact a b hb]; exact ⟨rfl, rfl⟩

/-- `sign(const Integer&)` (gmp++_int.h) -/
theorem isign_translated (a : Int) : isign a = (Gen.sign_Zc a).ret := by
  rw [Gen.sign_Zc_exact]; rfl

/-- `Integer::operator+ - *` and their in-place forms -/
theorem ring_ops_translated (a b : Int) :
    a + b = (Gen.Integer_op_add_Zc_const a b).ret ∧ a - b = (Gen.Integer_op_sub_Zc_const a b).ret ∧
    a * b = (Gen.Integer_op_mul_Zc_const a b).ret ∧ a + b = (Gen.Integer_op_addin_Zc a b).ret ∧
    a - b = (Gen.Integer_op_subin_Zc a b).ret ∧ a * b = (Gen.Integer_op_mulin_Zc a b).ret := by
  rw [Gen.Integer_op_add_Zc_const_exact, Gen.Integer_op_sub_Zc_const_exact, Gen.Integer_op_mul_Zc_const_exact,
    Gen.Integer_op_addin_Zc_exact, Gen.Integer_op_subin_Zc_exact, Gen.Integer_op_mulin_Zc_exact]
  exact ⟨rfl, rfl, rfl, rfl, rfl, rfl⟩

/-- `Integer::floor(n,d)`, `Integer::ceil(n,d)` (value-returning statics used by `floor`/`ceil` of a Rational) -/
theorem floor_ceil_translated (a : QRep) (hd : a.den ≠ 0) :
    floor a = (Gen.Integer_floor_Zc_Zc a.num a.den).ret ∧ ceil a = (Gen.Integer_ceil_Zc_Zc a.num a.den).ret := by
  rw [Gen.Integer_floor_Zc_Zc_exact _ _ hd, Gen.Integer_ceil_Zc_Zc_exact _ _ hd]; exact ⟨rfl, rfl⟩

/-- `abs(const Integer&)` -/
theorem iabs_translated (a : Int) : iabs a = (Gen.abs_Zc a).ret := by
  rw [Gen.abs_Zc_exact]; rfl

/-- `pow(const Integer&, int64_t)` / `pow(const Integer&, uint64_t)`: the translated bodies, with `mpz_pow_ui b e = b ^ e` -/
theorem ipow_translated (n l : Int) :
    ipowS64 n l = (Gen.pow_Zc_s64 n l).ret ∧ ipowU n l = (Gen.pow_Zc_u64 n l).ret := by
  unfold ipowS64 ipowU Gen.pow_Zc_s64 Gen.pow_Zc_u64 mpz_pow_ui
  simp only [ipow_eq]
  refine ⟨by trivial, ?_⟩
  split <;> rfl

/-- `absCompare(const Integer&, const Integer&)` is `mpz_cmpabs`, and the framework's GMP model of it — sign specified,
    magnitude opaque (`cmpMag`) — is an admissible comparison in the sense of the order theorems -/
theorem cmpabs_translated : (∀ a b, (Gen.absCompare_Zc_Zc a b).ret = mpz_cmpabs a b) ∧ CmpAbsOK mpz_cmpabs := by
  refine ⟨fun _ _ => rfl, ?_⟩
  intro x y
  unfold mpz_cmpabs cmp3
  constructor <;> constructor <;> intro h <;> (try split_ifs at h) <;> (try split_ifs) <;> omega

/-- `Integer::divmod(q, r, a, b)` on the operands `round` passes (`|num| ≥ 0`, `den > 0`) -/
theorem idivmod_translated (a b q r : Int) (ha : 0 ≤ a) (hb : 0 < b) :
    (Gen.Integer_divmod_Z_Z_Zc_Zc q r a b).outs = [(idivmod a b).1, (idivmod a b).2] := by
  rw [Gen.Integer_divmod_Z_Z_Zc_Zc_exact q r a b (by omega)]
  unfold Gen.Integer_divmod_Z_Z_Zc_Zc_spec Spec.edivQ Spec.emodR idivmod
  rw [Int.tdiv_eq_ediv_of_nonneg ha, Int.tmod_eq_emod_of_nonneg ha]
  have : ¬ a % b < 0 := by have := Int.emod_nonneg a (by omega : b ≠ 0); omega
  simp [this]

-- ---- whole straight-line bodies as compositions of the translated functions --------------------------------------------
-- Each `…T` below is the body of the C++ function written with the *generated* gmp++ definitions (Generated/IntegerOps.lean,
-- regenerated from /repo); the theorem next to it says the hand model computes the same pair.  A change of the gmp++ layer
-- changes the generated definitions (and their `_exact` theorems, used here), a change of the model changes the other side:
-- either way these equalities are re-checked.

theorem gcdT (a b : Int) : (Gen.gcd_Zc_Zc a b).ret = igcd a b := (igcd_translated a b).symm
theorem mulT (a b : Int) : (Gen.Integer_op_mul_Zc_const a b).ret = a * b := (ring_ops_translated a b).2.2.1.symm
theorem addT (a b : Int) : (Gen.Integer_op_add_Zc_const a b).ret = a + b := (ring_ops_translated a b).1.symm
theorem subT (a b : Int) : (Gen.Integer_op_sub_Zc_const a b).ret = a - b := (ring_ops_translated a b).2.1.symm
theorem divT (a b : Int) (hb : b ≠ 0) : (Gen.Integer_op_div_Zc_const a b).ret = idiv a b := (idiv_translated a b hb).1.symm
theorem divinT (a b : Int) (hb : b ≠ 0) : (Gen.Integer_op_divin_Zc a b).ret = idiv a b := (idiv_translated a b hb).2.symm
theorem mulinT (a b : Int) : (Gen.Integer_op_mulin_Zc a b).ret = a * b := (ring_ops_translated a b).2.2.2.2.2.symm

theorem isOneT (t : Int) : (Gen.isOne_Zc t).ret ≠ 0 ↔ t = 1 := by
  have h := Gen.isOne_Zc_exact t
  unfold Gen.isOne_Zc_chk Spec.b2i at h
  simp only [decide_eq_true_eq] at h
  obtain ⟨_, h2, _⟩ := h
  by_cases h1 : t = 1 <;> by_cases h3 : (Gen.isOne_Zc t).ret = 0 <;> simp_all

theorem igcd_ne_zero_left {a b : Int} (h : a ≠ 0) : igcd a b ≠ 0 := by
  unfold igcd; intro h0
  have : Int.gcd a b = 0 := by exact_mod_cast h0
  rw [Int.gcd_eq_zero_iff] at this; exact h this.1
theorem igcd_ne_zero_right {a b : Int} (h : b ≠ 0) : igcd a b ≠ 0 := by
  unfold igcd; intro h0
  have : Int.gcd a b = 0 := by exact_mod_cast h0
  rw [Int.gcd_eq_zero_iff] at this; exact h this.2

/-- `Rational::reduce()`: `t = gcd(num, den); if (!isOne(t)) { num /= t; den /= t; }` -/
def reduceT (r : QRep) : QRep :=
  let t := (Gen.gcd_Zc_Zc r.num r.den).ret
  if (Gen.isOne_Zc t).ret = 0 then ⟨(Gen.Integer_op_divin_Zc r.num t).ret, (Gen.Integer_op_divin_Zc r.den t).ret⟩ else r

theorem reduce_body_translated (r : QRep) (h : r.den ≠ 0) : reduce r = reduceT r := by
  unfold reduce reduceT
  simp only [gcdT]
  have hg := igcd_ne_zero_right (a := r.num) h
  by_cases h1 : igcd r.num r.den = 1
  · have : ¬ (Gen.isOne_Zc (igcd r.num r.den)).ret = 0 := (isOneT _).mpr h1
    rw [if_neg this, if_neg (by simpa using h1)]
  · have : (Gen.isOne_Zc (igcd r.num r.den)).ret = 0 := by
      by_contra hh; exact h1 ((isOneT _).mp hh)
    rw [if_pos this, if_pos h1, divinT _ _ hg, divinT _ _ hg]

/-- the general branch of `operator+`: `d1 = gcd(den, r.den); t = num*(r.den/d1) + r.num*(den/d1); d2 = gcd(t, d1);
    Rational(t/d2, (den/d1)*(r.den/d2), 0)` -/
def addGeneralT (a r : QRep) : QRep :=
  let d1 := (Gen.gcd_Zc_Zc a.den r.den).ret
  let t := (Gen.Integer_op_add_Zc_const
              (Gen.Integer_op_mul_Zc_const a.num (Gen.Integer_op_div_Zc_const r.den d1).ret).ret
              (Gen.Integer_op_mul_Zc_const r.num (Gen.Integer_op_div_Zc_const a.den d1).ret).ret).ret
  let d2 := (Gen.gcd_Zc_Zc t d1).ret
  ⟨(Gen.Integer_op_div_Zc_const t d2).ret,
   (Gen.Integer_op_mul_Zc_const (Gen.Integer_op_div_Zc_const a.den d1).ret (Gen.Integer_op_div_Zc_const r.den d2).ret).ret⟩

theorem add_general_translated (a r : QRep) (ha : a.den ≠ 0)
    (h1 : r.num ≠ 0) (h2 : a.num ≠ 0) (h3 : ¬ (a.den = 1 ∧ r.den = 1)) (h4 : igcd a.den r.den ≠ 1) :
    add true a r = mk3 (addGeneralT a r).num (addGeneralT a r).den 0 := by
  have hd1 := igcd_ne_zero_left (b := r.den) ha
  unfold add addGeneralT
  simp only [isZero, isInteger, beq_iff_eq, Bool.and_eq_true, h1, h2, h3, h4, ↓reduceIte, Bool.not_true, Bool.false_eq_true,
    gcdT, mulT, addT, divT _ _ hd1]
  have hd2 := igcd_ne_zero_right (a := a.num * idiv r.den (igcd a.den r.den) + r.num * idiv a.den (igcd a.den r.den)) hd1
  rw [divT _ _ hd2, divT _ _ hd2]

/-- the general branch of `operator*`: `d1 = gcd(num, r.den); d2 = gcd(den, r.num);
    Rational((num/d1)*(r.num/d2), (den/d2)*(r.den/d1), 0)` -/
def mulGeneralT (a r : QRep) : QRep :=
  let d1 := (Gen.gcd_Zc_Zc a.num r.den).ret
  let d2 := (Gen.gcd_Zc_Zc a.den r.num).ret
  ⟨(Gen.Integer_op_mul_Zc_const (Gen.Integer_op_div_Zc_const a.num d1).ret (Gen.Integer_op_div_Zc_const r.num d2).ret).ret,
   (Gen.Integer_op_mul_Zc_const (Gen.Integer_op_div_Zc_const a.den d2).ret (Gen.Integer_op_div_Zc_const r.den d1).ret).ret⟩

theorem mul_general_translated (a r : QRep) (ha : a.den ≠ 0) (hr : r.den ≠ 0) :
    mulGeneralT a r = ⟨idiv a.num (igcd a.num r.den) * idiv r.num (igcd a.den r.num),
                       idiv a.den (igcd a.den r.num) * idiv r.den (igcd a.num r.den)⟩ := by
  unfold mulGeneralT
  simp only [gcdT, mulT, divT _ _ (igcd_ne_zero_right (a := a.num) hr), divT _ _ (igcd_ne_zero_left (b := r.num) ha)]

/-- the in-place general branch of `operator*=`: `num /= d1; num *= (r.num/d2); den /= d2; den *= (r.den/d1)` -/
def mulinGeneralT (a r : QRep) : QRep :=
  let d1 := (Gen.gcd_Zc_Zc a.num r.den).ret
  let d2 := (Gen.gcd_Zc_Zc a.den r.num).ret
  ⟨(Gen.Integer_op_mulin_Zc (Gen.Integer_op_divin_Zc a.num d1).ret (Gen.Integer_op_div_Zc_const r.num d2).ret).ret,
   (Gen.Integer_op_mulin_Zc (Gen.Integer_op_divin_Zc a.den d2).ret (Gen.Integer_op_div_Zc_const r.den d1).ret).ret⟩

theorem mulin_general_translated (a r : QRep) (ha : a.den ≠ 0) (hr : r.den ≠ 0) : mulinGeneralT a r = mulGeneralT a r := by
  unfold mulinGeneralT mulGeneralT
  simp only [gcdT, mulT, mulinT, divT _ _ (igcd_ne_zero_right (a := a.num) hr), divT _ _ (igcd_ne_zero_left (b := r.num) ha),
    divinT _ _ (igcd_ne_zero_right (a := a.num) hr), divinT _ _ (igcd_ne_zero_left (b := r.num) ha)]

/-- the cross-multiplication at the end of `absCompare(Rational, Rational)`: `absCompare(a.num*b.den, a.den*b.num)` -/
theorem abscompare_cross_translated (a b : QRep) :
    (Gen.absCompare_Zc_Zc (Gen.Integer_op_mul_Zc_const a.num b.den).ret (Gen.Integer_op_mul_Zc_const a.den b.num).ret).ret
      = mpz_cmpabs (a.num * b.den) (a.den * b.num) := by
  simp only [mulT]; rfl

/-- `trunc`, and `round`'s `divmod(q, r, abs(num), den)` with `r << 1` compared to `den` -/
theorem trunc_body_translated (a : QRep) (h : a.den ≠ 0) : trunc a = (Gen.Integer_op_div_Zc_const a.num a.den).ret := by
  unfold trunc; rw [divT _ _ h]

end Givaro.Lemmas.Rational
