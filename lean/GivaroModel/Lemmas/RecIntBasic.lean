/- C06 helper lemmas: values, well-formedness, the add/sub/cmp families of Model/RecInt.lean. -/
import GivaroModel.Model.RecInt
import Mathlib.Tactic.Ring
import Mathlib.Tactic.Linarith
import Mathlib.Tactic.LinearCombination
import Mathlib.Tactic.SplitIfs
namespace Givaro.Model.RecInt

/-- a `bool` carry as a number -/
def c2n (b : Bool) : Nat := if b then 1 else 0

@[simp] theorem c2n_true : c2n true = 1 := rfl
@[simp] theorem c2n_false : c2n false = 0 := rfl
theorem c2n_le (b : Bool) : c2n b ≤ 1 := by cases b <;> simp
theorem c2n_decide (p : Prop) [Decidable p] : c2n (decide p) = if p then 1 else 0 := by
  by_cases h : p <;> simp [h, c2n]

theorem Bn_zero : Bn 0 = B64 := by norm_num [Bn, bits, B64]
theorem Bn_succ (n : Nat) : Bn (n+1) = Bn n * Bn n := by
  simp only [Bn, bits]; rw [two_mul, pow_add]
theorem Bn_pos (n : Nat) : 0 < Bn n := by unfold Bn; positivity
theorem Bn_one : Bn 1 = B64 * B64 := by rw [Bn_succ, Bn_zero]

theorem val_node {n : Nat} (l h : RU n) : val (RU.node l h) = val l + Bn n * val h := by simp [val]
theorem WF_node {n : Nat} (l h : RU n) : WF (RU.node l h) ↔ WF l ∧ WF h := by simp [WF]
theorem val_limb (v : Nat) : val (RU.limb v) = v := by simp [val]
theorem WF_limb (v : Nat) : WF (RU.limb v) ↔ v < B64 := by simp [WF]

theorem val_lt : ∀ {n : Nat} (x : RU n), WF x → val x < Bn n
  | _, .limb v, h => by rw [Bn_zero]; simpa [WF, val] using h
  | _, .node (n := n) l h, hw => by
      have hl := val_lt l hw.1
      have hh := val_lt h hw.2
      rw [val_node, Bn_succ]
      nlinarith [Bn_pos n]

theorem node_lo_hi {n : Nat} (x : RU (n+1)) : RU.node (lo x) (hi x) = x := by cases x; rfl
theorem val_lo_hi {n : Nat} (x : RU (n+1)) : val x = val (lo x) + Bn n * val (hi x) := by cases x; simp [val, lo, hi]
theorem WF_lo_hi {n : Nat} (x : RU (n+1)) : WF x ↔ WF (lo x) ∧ WF (hi x) := by cases x; simp [WF, lo, hi]

theorem val_mk1 (p : Nat × Nat) : val (mk1 p) = p.2 + B64 * p.1 := by
  simp [mk1, val, Bn_zero]
theorem WF_mk1 (p : Nat × Nat) : WF (mk1 p) ↔ p.2 < B64 ∧ p.1 < B64 := by simp [mk1, WF]

/-! ### cmp -/
theorem cmp_spec : ∀ {n : Nat} (a b : RU n), WF a → WF b →
    (cmp a b = -1 ∧ val a < val b) ∨ (cmp a b = 0 ∧ val a = val b) ∨ (cmp a b = 1 ∧ val a > val b)
  | _, .limb a, .limb b, _, _ => by
      simp only [cmp, val]
      rcases Nat.lt_trichotomy a b with h | h | h
      · left; simp [h]
      · right; left; simp [h]
      · right; right; have h1 : ¬ a < b := by omega
        have h2 : ¬ a = b := by omega
        simp [h1, h2, h]
  | _, .node (n := n) al ah, .node bl bh, ha, hb => by
      have hH := cmp_spec ah bh ha.2 hb.2
      have hL := cmp_spec al bl ha.1 hb.1
      have h1 := val_lt al ha.1
      have h2 := val_lt bl hb.1
      have hB := Bn_pos n
      simp only [cmp, val]
      rcases hH with ⟨e, h⟩ | ⟨e, h⟩ | ⟨e, h⟩
      · left; rw [e]; refine ⟨by simp, ?_⟩; nlinarith
      · rw [e]; simp only [↓reduceIte]
        rcases hL with ⟨e', h'⟩ | ⟨e', h'⟩ | ⟨e', h'⟩
        · left; exact ⟨e', by rw [h]; omega⟩
        · right; left; exact ⟨e', by rw [h, h']⟩
        · right; right; exact ⟨e', by rw [h]; omega⟩
      · right; right; rw [e]; refine ⟨by simp, ?_⟩; nlinarith

theorem cmp_lt {n : Nat} (a b : RU n) (ha : WF a) (hb : WF b) : cmp a b < 0 ↔ val a < val b := by
  rcases cmp_spec a b ha hb with ⟨e, h⟩ | ⟨e, h⟩ | ⟨e, h⟩ <;> rw [e] <;> constructor <;> intro h' <;> omega
theorem cmp_le {n : Nat} (a b : RU n) (ha : WF a) (hb : WF b) : cmp a b ≤ 0 ↔ val a ≤ val b := by
  rcases cmp_spec a b ha hb with ⟨e, h⟩ | ⟨e, h⟩ | ⟨e, h⟩ <;> rw [e] <;> constructor <;> intro h' <;> omega
theorem cmp_eq {n : Nat} (a b : RU n) (ha : WF a) (hb : WF b) : cmp a b = 0 ↔ val a = val b := by
  rcases cmp_spec a b ha hb with ⟨e, h⟩ | ⟨e, h⟩ | ⟨e, h⟩ <;> rw [e] <;> constructor <;> intro h' <;> omega

end Givaro.Model.RecInt
