/-
Facts about the executable GMP contracts of `Prim/Gmp.lean` that the generated theorems use:
the square-and-multiply `mpz_powm` is `b^e mod m`, the extended Euclid behind `mpz_gcdext`
returns Bezout cofactors, `mpz_invert` returns a modular inverse.
-/
import GivaroModel.Prim.Gmp
import GivaroModel.Spec.IntegerSpec
import Mathlib.Tactic.Ring
import Mathlib.Tactic.Linarith
import Mathlib.Tactic.LinearCombination
import Mathlib.Data.Int.GCD
import Mathlib.Data.Nat.GCD.Basic
import Mathlib.Data.Int.ModEq
namespace Givaro

theorem powModNat_spec (b e m : Nat) (hm : m ≠ 0) : powModNat b e m = (b ^ e) % m := by
  induction e using Nat.strong_induction_on with
  | _ e ih =>
    unfold powModNat
    simp only [hm, ↓reduceIte]
    split
    · next h => subst h; simp
    · next h =>
      have hlt : e / 2 < e := by omega
      rw [ih (e / 2) hlt]
      have he : e = 2 * (e / 2) + e % 2 := by omega
      split
      · next h1 =>
        have hp : b ^ e = b ^ (e / 2) * b ^ (e / 2) * b := by
          conv_lhs => rw [he, h1]
          ring
        rw [hp]
        simp [Nat.mul_mod, Nat.mod_mod]
      · next h1 =>
        have h0 : e % 2 = 0 := by omega
        have hp : b ^ e = b ^ (e / 2) * b ^ (e / 2) := by
          conv_lhs => rw [he, h0]
          ring
        rw [hp]
        simp [Nat.mul_mod, Nat.mod_mod]

theorem mpz_powm_spec (b e m : Int) (hm : m ≠ 0) : mpz_powm b e m = Spec.powmod b e m := by
  unfold mpz_powm Spec.powmod
  have hm' : m.natAbs ≠ 0 := by omega
  rw [powModNat_spec _ _ _ hm']
  have hb : 0 ≤ b % m := Int.emod_nonneg b hm
  push_cast
  rw [Int.toNat_of_nonneg hb, Int.emod_abs]
  exact (Int.ModEq.pow e.toNat (Int.mod_modEq b m))

theorem xgcdAux_spec (a b : Int) : ∀ (fuel r : Nat) (s t : Int) (r' : Nat) (s' t' : Int),
    (r : Int) = s * a + t * b → (r' : Int) = s' * a + t' * b → r < fuel →
    ((xgcdAux r s t r' s' t' fuel).1 : Int) = (xgcdAux r s t r' s' t' fuel).2.1 * a + (xgcdAux r s t r' s' t' fuel).2.2 * b
    ∧ (xgcdAux r s t r' s' t' fuel).1 = Nat.gcd r r' := by
  intro fuel
  induction fuel with
  | zero => intro r s t r' s' t' _ _ h; omega
  | succ fuel ih =>
    intro r s t r' s' t' h1 h2 hlt
    cases r with
    | zero => simp [xgcdAux, h2]
    | succ r =>
      simp only [xgcdAux]
      have hmod : r' % (r + 1) < fuel := by
        have := Nat.mod_lt r' (show r + 1 > 0 by omega)
        omega
      have hdiv : (r' : Int) = ((r' / (r + 1) : Nat) : Int) * ((r + 1 : Nat) : Int) + ((r' % (r + 1) : Nat) : Int) := by
        have := Nat.div_add_mod r' (r + 1)
        exact_mod_cast (by rw [Nat.mul_comm] at this; exact this.symm)
      have h3 : ((r' % (r + 1) : Nat) : Int) = (s' - ((r' / (r + 1) : Nat) : Int) * s) * a + (t' - ((r' / (r + 1) : Nat) : Int) * t) * b := by
        have e1 : ((r + 1 : Nat) : Int) = s * a + t * b := h1
        linear_combination h2 - hdiv - ((r' / (r + 1) : Nat) : Int) * e1
      obtain ⟨p1, p2⟩ := ih (r' % (r + 1)) _ _ (r + 1) s t h3 h1 hmod
      refine ⟨p1, ?_⟩
      rw [p2]
      exact (Nat.gcd_rec (r + 1) r').symm


theorem xgcd_spec (a b : Nat) :
    ((Nat.gcd a b : Nat) : Int) = (xgcd a b).2.1 * a + (xgcd a b).2.2 * b := by
  unfold xgcd
  obtain ⟨p1, p2⟩ := xgcdAux_spec (a : Int) (b : Int) (a + b + 1) b 0 1 a 1 0 (by ring) (by ring) (by omega)
  rw [← p1, p2, Nat.gcd_comm]

theorem natAbs_signed (a : Int) : ((a.natAbs : Nat) : Int) = (if a < 0 then -1 else 1) * a := by
  split <;> omega

theorem mpz_gcdext_bezout (a b : Int) :
    mpz_gcdext_d1 a b * a + mpz_gcdext_d2 a b * b = mpz_gcdext_d0 a b := by
  unfold mpz_gcdext_d0 mpz_gcdext_d1 mpz_gcdext_d2
  have h := xgcd_spec a.natAbs b.natAbs
  rw [natAbs_signed a, natAbs_signed b] at h
  rw [Int.gcd]
  rw [h]; ring

theorem mpz_invert_spec (a m : Int) (hc : Int.gcd a m = 1) (hm : m ≠ 0) :
    Spec.isInvMod (mpz_invert_d0 a m) a m = true := by
  unfold Spec.isInvMod mpz_invert_d0 Spec.iabs
  simp only [hc, hm, ne_eq, not_false_eq_true, and_self, ↓reduceIte, decide_eq_true_eq]
  have h := xgcd_spec a.natAbs m.natAbs
  rw [natAbs_signed a, natAbs_signed m] at h
  have hg : ((Nat.gcd a.natAbs m.natAbs : Nat) : Int) = 1 := by
    have : Int.gcd a m = Nat.gcd a.natAbs m.natAbs := rfl
    omega
  rw [hg] at h
  generalize hx : (xgcd a.natAbs m.natAbs).2.1 * (if a < 0 then -1 else 1) = x at *
  refine ⟨Int.emod_nonneg _ hm, ?_, ?_⟩
  · have := Int.emod_lt x hm
    split <;> omega
  · have h1 : x * a = 1 - ((xgcd a.natAbs m.natAbs).2.2 * (if m < 0 then -1 else 1)) * m := by
      rw [← hx]; linear_combination h.symm
    have e1 : (x % m * a) % m = (x * a) % m := by
      rw [Int.mul_emod, Int.emod_emod_of_dvd _ (dvd_refl m), ← Int.mul_emod]
    rw [e1, h1, Int.sub_mul_emod_self_right]

theorem mpz_powm_ui_spec (b e m : Int) (hm : m ≠ 0) : mpz_powm_ui b e m = Spec.powmod b e m := mpz_powm_spec b e m hm

theorem mpz_gcdext_d0_nonneg (a b : Int) : 0 ≤ mpz_gcdext_d0 a b := by unfold mpz_gcdext_d0; omega
theorem mpz_gcd_nonneg (a b : Int) : 0 ≤ mpz_gcd a b := by unfold mpz_gcd; omega
theorem mpz_lcm_nonneg (a b : Int) : 0 ≤ mpz_lcm a b := by unfold mpz_lcm; omega
theorem mpz_invert_ret_coprime (a m : Int) (hc : Int.gcd a m = 1) (hm : m ≠ 0) : mpz_invert_ret a m = 1 := by
  unfold mpz_invert_ret; simp [hc, hm]

end Givaro
