/-
C14 — the system objects as state machines (cache invariant, independence of the history), the extended-Euclid
instance of the cofactor contract, and the two-modulus functor.
-/
import GivaroModel.Lemmas.CRTMain

namespace Givaro.Lemmas.CRT
open Givaro.Model.CRT
open Givaro.Spec.CRT (prod mrValue)

/-- pairwise coprime moduli -/
def PairwiseCoprime (ps : List Int) : Prop := ps.Pairwise (fun a b => Int.gcd a b = 1)

theorem PairwiseCoprime.isCoprime {ps : List Int} (h : PairwiseCoprime ps) : ps.Pairwise IsCoprime :=
  List.Pairwise.imp (fun hab => Int.isCoprime_iff_gcd_eq_one.mpr hab) h

/-! ### `cofEuclid` satisfies the contract (so the theorems quantified over `CofOK cof` are not vacuous) -/

theorem xgcdAux_bezout : ∀ (fuel : Nat) (a b : Int),
    (xgcdAux fuel a b).2.1 * a + (xgcdAux fuel a b).2.2 * b = (xgcdAux fuel a b).1 := by
  intro fuel
  induction fuel with
  | zero => intro a b; simp [xgcdAux]
  | succ n ih =>
    intro a b
    by_cases hb : b = 0
    · simp [xgcdAux, hb]
    · simp only [xgcdAux, hb, ↓reduceIte]
      have := ih b (a % b)
      have e : a % b = a - b * (a / b) := Int.emod_def a b
      generalize xgcdAux n b (a % b) = r at this ⊢
      rw [e] at this
      linear_combination this

theorem xgcdAux_dvd : ∀ (fuel : Nat) (a b : Int), |b| < (fuel : Int) →
    (xgcdAux fuel a b).1 ∣ a ∧ (xgcdAux fuel a b).1 ∣ b := by
  intro fuel
  induction fuel with
  | zero => intro a b h; have := abs_nonneg b; omega
  | succ n ih =>
    intro a b h
    by_cases hb : b = 0
    · simp [xgcdAux, hb]
    · simp only [xgcdAux, hb, ↓reduceIte]
      have h1 : 0 ≤ a % b := Int.emod_nonneg a hb
      have h2 : a % b < |b| := Int.emod_lt_abs a hb
      have h3 : |a % b| < (n : Int) := by
        rw [abs_of_nonneg h1]; push_cast at h; omega
      obtain ⟨hg1, hg2⟩ := ih b (a % b) h3
      refine ⟨?_, hg1⟩
      have h4 : (xgcdAux n b (a % b)).1 ∣ b * (a / b) + a % b := (hg1.mul_right _).add hg2
      rwa [Int.mul_ediv_add_emod] at h4

theorem xgcdAux_nonneg : ∀ (fuel : Nat) (a b : Int), 0 ≤ a → 0 ≤ b → 0 ≤ (xgcdAux fuel a b).1 := by
  intro fuel
  induction fuel with
  | zero => intro a b ha _; simpa [xgcdAux] using ha
  | succ n ih =>
    intro a b ha hb0
    by_cases hb : b = 0
    · simpa [xgcdAux, hb] using ha
    · simp only [xgcdAux, hb, ↓reduceIte]
      exact ih b (a % b) hb0 (Int.emod_nonneg a hb)

theorem cofEuclid_ok : CofOK cofEuclid := by
  intro p x y hp hx hy
  unfold cofEuclid xgcd
  have hfuel : |x| < ((x.natAbs + 1 : Nat) : Int) := by
    rw [Int.abs_eq_natAbs]; push_cast; omega
  have hb := xgcdAux_bezout (x.natAbs + 1) p x
  obtain ⟨hd1, hd2⟩ := xgcdAux_dvd (x.natAbs + 1) p x hfuel
  have hn := xgcdAux_nonneg (x.natAbs + 1) p x (le_of_lt hp) hx
  generalize xgcdAux (x.natAbs + 1) p x = r at hb hd1 hd2 hn
  obtain ⟨g, u, v⟩ := r
  simp only at hb hd1 hd2 hn ⊢
  have hy' : y * x ≡ 1 [ZMOD p] := hy
  have hpd : p ∣ 1 - y * x := hy'.dvd
  have hg1 : g ∣ 1 := by
    have h1 : g ∣ 1 - y * x := hd1.trans hpd
    have h2 : g ∣ y * x := hd2.mul_left y
    have := h1.add h2
    simpa using this
  have hg : g = 1 := Int.eq_one_of_dvd_one hn hg1
  subst hg
  have : v * x ≡ 1 [ZMOD p] := by
    apply Int.ModEq.symm
    rw [Int.modEq_iff_dvd]
    exact ⟨-u, by linear_combination hb⟩
  exact this

/-! ### IntRNSsystem as a state machine -/

/-- every way of obtaining an `IntRNSsystem` object -/
inductive IntHist
  | default                          -- `IntRNSsystem()`
  | mk (ps : List Int)               -- `IntRNSsystem(primes)` (either constructor)
  | copy (h : IntHist)               -- copy constructor
  | assign (dst src : IntHist)       -- `dst = src`
  | useCk (h : IntHist)              -- any call that triggers `ComputeCk` (RnsToMixedRadix, RnsToRing, Reciprocals, reciprocal)
  | useProd (h : IntHist)            -- `product()`

def IntHist.eval (cof : Int → Int → Int) : IntHist → IntSys
  | .default => IntSys.empty
  | .mk ps => IntSys.ofPrimes ps
  | .copy h => (h.eval cof).copy
  | .assign d s => IntSys.assign (d.eval cof) (s.eval cof)
  | .useCk h => (h.eval cof).computeCk cof
  | .useProd h => (h.eval cof).computeProd

def IntGood (cof : Int → Int → Int) (s : IntSys) : Prop :=
  (s.ck = [] ∨ s.ck = intComputeCk cof s.primes) ∧ (s.prod = 1 ∨ s.prod = prod s.primes)

theorem IntGood.computeCk {cof : Int → Int → Int} {s : IntSys} (h : IntGood cof s) :
    (s.computeCk cof).ck = intComputeCk cof s.primes ∧ (s.computeCk cof).primes = s.primes ∧
      (s.computeCk cof).prod = s.prod := by
  unfold IntSys.computeCk
  by_cases hnil : s.ck = []
  · simp [hnil]
  · have h1 := h.1.resolve_left hnil
    simp [hnil, ← h1]

theorem IntGood.computeProd {cof : Int → Int → Int} {s : IntSys} (h : IntGood cof s) :
    s.computeProd.prod = prod s.primes ∧ s.computeProd.primes = s.primes ∧ s.computeProd.ck = s.ck := by
  unfold IntSys.computeProd
  by_cases h1 : s.prod = 1
  · simp only [h1, ↓reduceIte, and_self, and_true]
    exact prodList_eq s.primes
  · simp only [h1, ↓reduceIte, and_self, and_true]
    rcases h.2 with h2 | h2
    · exact absurd h2 h1
    · exact h2

theorem intHist_good (cof : Int → Int → Int) : ∀ h : IntHist, IntGood cof (h.eval cof) := by
  intro h
  induction h with
  | default => simp [IntHist.eval, IntSys.empty, IntGood]
  | mk ps => simp [IntHist.eval, IntSys.ofPrimes, IntGood]
  | copy h ih => simpa [IntHist.eval, IntSys.copy, IntGood] using ih
  | assign d s _ ih => simpa [IntHist.eval, IntSys.assign, IntGood] using ih
  | useCk h ih =>
    obtain ⟨h1, h2, h3⟩ := ih.computeCk
    refine ⟨Or.inr ?_, ?_⟩
    · simp only [IntHist.eval]; rw [h1, h2]
    · simp only [IntHist.eval]; rw [h2, h3]; exact ih.2
  | useProd h ih =>
    obtain ⟨h1, h2, h3⟩ := ih.computeProd
    refine ⟨?_, Or.inr ?_⟩
    · simp only [IntHist.eval]; rw [h2, h3]; exact ih.1
    · simp only [IntHist.eval]; rw [h1, h2]

/-- under the invariant every answer is a function of the primes alone -/
theorem IntGood.answers {cof : Int → Int → Int} {s : IntSys} (h : IntGood cof s) (rs : List Int) (a : Int) :
    (s.rnsToMixedRadix cof rs).2 = intRnsToMixedRadix s.primes (intComputeCk cof s.primes) rs ∧
    (s.rnsToRing cof rs).2 = mixedRadixToRing s.primes (intRnsToMixedRadix s.primes (intComputeCk cof s.primes) rs) ∧
    (s.reciprocals cof).2 = intComputeCk cof s.primes ∧
    s.product.2 = prod s.primes ∧
    s.toRns a = ringToRns s.primes a := by
  obtain ⟨h1, h2, _⟩ := h.computeCk
  obtain ⟨h4, _, _⟩ := h.computeProd
  simp only [IntSys.rnsToMixedRadix, IntSys.rnsToRing, IntSys.reciprocals, IntSys.product, IntSys.toRns, h1, h2, h4,
    and_self]

/-! ### RNSsystem<RING,Domain> as a state machine -/

inductive RnsHist
  | default                              -- `RNSsystem()`
  | mk (ps : List Int)                   -- `RNSsystem(domains)`
  | copy (h : RnsHist)                   -- copy constructor
  | assign (dst src : RnsHist)           -- `dst = src`
  | setPrimes (h : RnsHist) (ps : List Int)
  | useCk (h : RnsHist)

def RnsHist.eval (cof : Int → Int → Int) : RnsHist → RnsSys
  | .default => RnsSys.empty
  | .mk ps => RnsSys.ofPrimes ps
  | .copy h => (h.eval cof).copy
  | .assign d s => RnsSys.assign (d.eval cof) (s.eval cof)
  | .setPrimes h ps => (h.eval cof).setPrimes ps
  | .useCk h => (h.eval cof).computeCk cof

def RnsGood (cof : Int → Int → Int) (s : RnsSys) : Prop :=
  s.ck = [] ∨ s.ck = rnsComputeCk cof s.primes

theorem RnsGood.computeCk {cof : Int → Int → Int} {s : RnsSys} (h : RnsGood cof s) :
    (s.computeCk cof).ck = rnsComputeCk cof s.primes ∧ (s.computeCk cof).primes = s.primes := by
  unfold RnsSys.computeCk
  by_cases hnil : s.ck = []
  · simp [hnil]
  · have h1 := h.resolve_left hnil
    simp [hnil, ← h1]

theorem rnsHist_good (cof : Int → Int → Int) : ∀ h : RnsHist, RnsGood cof (h.eval cof) := by
  intro h
  induction h with
  | default => simp [RnsHist.eval, RnsSys.empty, RnsGood]
  | mk ps => simp [RnsHist.eval, RnsSys.ofPrimes, RnsGood]
  | copy h ih => simpa [RnsHist.eval, RnsSys.copy, RnsGood] using ih
  | assign d s _ ih => simpa [RnsHist.eval, RnsSys.assign, RnsGood] using ih
  | setPrimes h ps _ => simp [RnsHist.eval, RnsSys.setPrimes, RnsGood]
  | useCk h ih =>
    obtain ⟨h1, h2⟩ := ih.computeCk
    refine Or.inr ?_
    simp only [RnsHist.eval]; rw [h1, h2]

theorem RnsGood.answers {cof : Int → Int → Int} {s : RnsSys} (h : RnsGood cof s) (rs : List Int) (a : Int) :
    (s.rnsToMixedRadix cof rs).2 = rnsRnsToMixedRadix s.primes (rnsComputeCk cof s.primes) rs ∧
    (s.rnsToRing cof rs).2 = mixedRadixToRing s.primes (rnsRnsToMixedRadix s.primes (rnsComputeCk cof s.primes) rs) ∧
    (s.reciprocals cof).2 = rnsComputeCk cof s.primes ∧
    s.toRns a = ringToRns s.primes a := by
  obtain ⟨h1, h2⟩ := h.computeCk
  simp only [RnsSys.rnsToMixedRadix, RnsSys.rnsToRing, RnsSys.reciprocals, RnsSys.toRns, h1, h2, and_self]

/-! ### the two-modulus functor -/

theorem craInit_modEq {cof : Int → Int → Int} (hcof : CofOK cof) {M d : Int} (hd : 0 < d) (hco : IsCoprime d M) :
    craInit cof M d ≡ 1 [ZMOD d] := by
  unfold craInit
  have hx : M % d ≡ M [ZMOD d] := Int.mod_modEq _ _
  have h := cof_inverts hcof hd (Int.emod_nonneg M (ne_of_gt hd)) hx hco
  exact ((Int.mod_modEq _ _).mul hx.symm).trans h

theorem cra_congruences {cof : Int → Int → Int} (hcof : CofOK cof) {M d : Int} (hd : 0 < d) (hco : IsCoprime d M)
    (A e : Int) :
    (craApply (craInit cof M d) d A e - A) % M = 0 ∧ (craApply (craInit cof M d) d A e - e) % d = 0 ∧
    (craApplyNoReduce (craInit cof M d) A e - A) % M = 0 ∧ (craApplyNoReduce (craInit cof M d) A e - e) % d = 0 := by
  have hc := craInit_modEq hcof hd hco
  have hM : M ∣ craInit cof M d := by unfold craInit; exact dvd_mul_left _ _
  refine ⟨?_, ?_, ?_, ?_⟩
  · apply Int.emod_eq_zero_of_dvd
    unfold craApply
    have : (e - A % d) % d * craInit cof M d + A - A = (e - A % d) % d * craInit cof M d := by ring
    rw [this]; exact hM.mul_left _
  · apply Int.emod_eq_zero_of_dvd
    have h1 : craApply (craInit cof M d) d A e ≡ e [ZMOD d] := by
      unfold craApply
      have h2 : (e - A % d) % d ≡ e - A [ZMOD d] :=
        (Int.mod_modEq _ _).trans ((Int.ModEq.refl e).sub (Int.mod_modEq _ _))
      have h3 := (h2.mul hc).add_right A
      have e1 : (e - A) * 1 + A = e := by ring
      rw [e1] at h3
      exact h3
    exact (Int.modEq_iff_dvd.mp h1.symm)
  · apply Int.emod_eq_zero_of_dvd
    unfold craApplyNoReduce
    have : (e - A) * craInit cof M d + A - A = (e - A) * craInit cof M d := by ring
    rw [this]; exact hM.mul_left _
  · apply Int.emod_eq_zero_of_dvd
    have h1 : craApplyNoReduce (craInit cof M d) A e ≡ e [ZMOD d] := by
      unfold craApplyNoReduce
      have h3 := (((Int.ModEq.refl (e - A)).mul hc)).add_right A
      have e1 : (e - A) * 1 + A = e := by ring
      rw [e1] at h3
      exact h3
    exact (Int.modEq_iff_dvd.mp h1.symm)

end Givaro.Lemmas.CRT
