/- C06 helper lemmas: rmgmodule.h — arazi_qi (inverse modulo 2^(2^K) by Newton/Arazi–Qi lifting). -/
import GivaroModel.Lemmas.RecIntDivGen
import Mathlib.Data.ZMod.Basic
namespace Givaro.Model.RecInt

/-- the limb base case: `u = (2-a)·∏_{i=1..5}(1 + (a-1)^(2^i))`, so `u·a = 1 - (a-1)^64 ≡ 1 (mod 2^64)` -/
theorem arazi_limb (a : Nat) (ha : a < B64) (hodd : a % 2 = 1) :
    let u := if a = 1 then 1 else (araziLimbLoop 7 2 ((a + B64 - 1) % B64) 1 * ((2 + B64 - a) % B64)) % B64
    u < B64 ∧ (u * a) % B64 = 1 := by
  intro u
  by_cases h1 : a = 1
  · subst h1; simp [u, B64]
  · have hu : u = (araziLimbLoop 7 2 ((a + B64 - 1) % B64) 1 * ((2 + B64 - a) % B64)) % B64 := by simp [u, h1]
    refine ⟨by rw [hu]; exact Nat.mod_lt _ (by decide), ?_⟩
    obtain ⟨y, hy⟩ : ∃ y, a = 2 * y + 1 := ⟨a / 2, by omega⟩
    have hy2 : 2 * y < B64 := by omega
    have e1 : (a + B64 - 1) % B64 = (2 * y) % B64 := by
      rw [hy]; have : 2 * y + 1 + B64 - 1 = 2 * y + B64 := by omega
      rw [this, Nat.add_mod_right]
    have e2 : 2 + B64 - a = B64 + 1 - 2 * y := by omega
    rw [hu, e1, e2]
    have hM : ((B64 : Nat) : ZMod B64) = 0 := ZMod.natCast_self B64
    have key : (((araziLimbLoop 7 2 ((2 * y) % B64) 1 * ((B64 + 1 - 2 * y) % B64)) % B64 * a : Nat) : ZMod B64) = 1 := by
      have hc : ((B64 + 1 - 2 * y : Nat) : ZMod B64) = 1 - 2 * (y : ZMod B64) := by
        rw [Nat.cast_sub (by omega)]; push_cast; rw [hM]; ring
      simp only [araziLimbLoop, show (2:Nat) < 64 by decide, show (2 * 2 : Nat) < 64 by decide, show (2 * 2 * 2 : Nat) < 64 by decide,
        show (2 * 2 * 2 * 2 : Nat) < 64 by decide, show (2 * 2 * 2 * 2 * 2 : Nat) < 64 by decide,
        show ¬ (2 * 2 * 2 * 2 * 2 * 2 : Nat) < 64 by decide, ↓reduceIte]
      simp only [Nat.cast_mul, ZMod.natCast_mod, Nat.cast_add, Nat.cast_one, hc, Nat.one_mul, hy, Nat.cast_ofNat]
      have h64 : (2 * (y : ZMod B64)) ^ 64 = 0 := by
        rw [mul_pow]
        have : (2 : ZMod B64) ^ 64 = 0 := by
          have e : ((2 ^ 64 : Nat) : ZMod B64) = 0 := by
            have : (2 ^ 64 : Nat) = B64 := by norm_num [B64]
            rw [this]; exact hM
          push_cast at e; exact e
        rw [this, zero_mul]
      have : ∀ x : ZMod B64, x ^ 64 = 0 →
          (x * x + 1) * (x * x * (x * x) + 1) * (x * x * (x * x) * (x * x * (x * x)) + 1)
            * (x * x * (x * x) * (x * x * (x * x)) * (x * x * (x * x) * (x * x * (x * x))) + 1)
            * (x * x * (x * x) * (x * x * (x * x)) * (x * x * (x * x) * (x * x * (x * x)))
               * (x * x * (x * x) * (x * x * (x * x)) * (x * x * (x * x) * (x * x * (x * x)))) + 1)
            * (1 - x) * (x + 1) = 1 := by
        intro x hx
        have : (x * x + 1) * (x * x * (x * x) + 1) * (x * x * (x * x) * (x * x * (x * x)) + 1)
            * (x * x * (x * x) * (x * x * (x * x)) * (x * x * (x * x) * (x * x * (x * x))) + 1)
            * (x * x * (x * x) * (x * x * (x * x)) * (x * x * (x * x) * (x * x * (x * x)))
               * (x * x * (x * x) * (x * x * (x * x)) * (x * x * (x * x) * (x * x * (x * x)))) + 1)
            * (1 - x) * (x + 1) = 1 - x ^ 64 := by ring
        rw [this, hx, sub_zero]
      exact this (2 * (y : ZMod B64)) h64
    have := (ZMod.natCast_eq_natCast_iff' _ 1 B64).mp (by rw [key]; simp)
    rw [this]; decide

/-- `arazi_qi(u, a)` for odd `a`: `u·a ≡ 1 (mod 2^bits)` -/
theorem arazi_qi_ok (t : Nat) : ∀ {n : Nat} (a : RU n), WF a → val a % 2 = 1 →
    WF (arazi_qi t a) ∧ (val (arazi_qi t a) * val a) % Bn n = 1
  | 0, .limb a, ha, hodd => by
      simp only [WF, val] at ha hodd
      have h := arazi_limb a ha hodd
      simp only at h
      rw [Bn_zero]
      by_cases h1 : a = 1
      · subst h1; simp [arazi_qi, WF, val, B64]
      · simp only [if_neg h1] at h
        simp only [arazi_qi, if_neg h1, WF, val]
        exact h
  | n+1, .node al ah, ha, hodd => by
      obtain ⟨k2, hk2, _⟩ := Bn_even n
      have hoddl : val al % 2 = 1 := by
        rw [val_node, hk2] at hodd
        have : 2 * k2 * val ah = 2 * (k2 * val ah) := by ring
        omega
      have ih := arazi_qi_ok t al ha.1 hoddl
      have hB := Bn_pos n
      have hB1 : 1 < Bn n := by have := B64_le_Bn n; simp only [B64] at this; omega
      simp only [arazi_qi]
      generalize arazi_qi t al = ul at ih ⊢
      obtain ⟨hulw, hule⟩ := ih
      obtain ⟨hpw, hpe⟩ := lmul_ok t ul al hulw ha.1
      generalize lmul t ul al = p at hpw hpe ⊢
      have hpw' := (WF_lo_hi p).mp hpw
      rw [val_lo_hi p] at hpe
      -- lo p = 1
      have hlo : val (lo p) = 1 := by
        have h1 : (val (lo p) + Bn n * val (hi p)) % Bn n = 1 := by rw [hpe]; exact hule
        rw [Nat.add_mul_mod_self_left, Nat.mod_eq_of_lt (val_lt _ hpw'.1)] at h1
        exact h1
      obtain ⟨hm2w, hm2e⟩ := mul_ok t ul ah hulw ha.2
      generalize mul t ul ah = m2 at hm2w hm2e ⊢
      obtain ⟨q2, hq2⟩ := mod_q (val ul * val ah) (Bn n)
      rw [← hm2e] at hq2
      obtain ⟨ht1w, q1, hq1⟩ := addNC_q (hi p) m2 hpw'.2 hm2w
      generalize addNC (hi p) m2 = t1 at ht1w hq1 ⊢
      obtain ⟨ht1'w, ht1'e⟩ := mul_ok t t1 ul ht1w hulw
      generalize mul t t1 ul = t1' at ht1'w ht1'e ⊢
      obtain ⟨q3, hq3⟩ := mod_q (val t1 * val ul) (Bn n)
      rw [← ht1'e] at hq3
      obtain ⟨huhw, huhe⟩ := neg_ok t1' ht1'w
      generalize neg t1' = uh at huhw huhe ⊢
      have hvt := val_lt _ ht1'w
      -- uh + t1' = B·e
      obtain ⟨e, he⟩ : ∃ e : Nat, val uh + val t1' = Bn n * e := by
        by_cases h0 : val t1' = 0
        · exact ⟨0, by rw [huhe, h0]; simp⟩
        · exact ⟨1, by rw [huhe, Nat.mod_eq_of_lt (by omega)]; omega⟩
      refine ⟨⟨hulw, huhw⟩, ?_⟩
      simp only [val_node, Bn_succ]
      rw [hlo] at hpe
      -- everything in ℤ
      have E1 : (val ul : Int) * val al = 1 + Bn n * val (hi p) := by exact_mod_cast hpe.symm.trans (by ring)
      have E2 : (val t1 : Int) + Bn n * q1 = val (hi p) + val m2 := by exact_mod_cast hq1
      have E3 : (val m2 : Int) + Bn n * q2 = val ul * val ah := by exact_mod_cast hq2
      have E4 : (val t1' : Int) + Bn n * q3 = val t1 * val ul := by exact_mod_cast hq3
      have E5 : (val uh : Int) + val t1' = Bn n * e := by exact_mod_cast he
      have key : ((val ul + Bn n * val uh) * (val al + Bn n * val ah) : Int)
          = 1 + (Bn n * Bn n) * (e * val al + q1 + q2 - val (hi p) * val t1 + q3 * val al + val uh * val ah) := by
        linear_combination (1 - (Bn n : Int) * val t1) * E1 + (-(Bn n : Int)) * E2 + (-(Bn n : Int)) * E3
          + (-(Bn n : Int) * val al) * E4 + ((Bn n : Int) * val al) * E5
      have hmod : (((val ul + Bn n * val uh) * (val al + Bn n * val ah) : Nat) : Int) % ((Bn n * Bn n : Nat) : Int) = 1 % ((Bn n * Bn n : Nat) : Int) := by
        push_cast
        rw [key, Int.add_mul_emod_self_left]
      have h1lt : (1 : Nat) < Bn n * Bn n := by nlinarith
      have := Int.natCast_mod ((val ul + Bn n * val uh) * (val al + Bn n * val ah)) (Bn n * Bn n)
      rw [hmod] at this
      have h3 : ((1 : Int) % ((Bn n * Bn n : Nat) : Int)) = 1 := by
        apply Int.emod_eq_of_lt (by decide); exact_mod_cast h1lt
      rw [h3] at this
      exact_mod_cast this

end Givaro.Model.RecInt

