/-
C08 — the Karatsuba middle product (`karamidmul`) and the unbalanced block loops of the generic `midmul`
(`givpoly1midmul.inl`) of `Model/Poly.lean`: exact on every well-formed shape, every threshold, every recursion budget.
-/
import GivaroModel.Lemmas.PolyMid

open Polynomial
set_option linter.unusedSectionVars false

namespace Givaro.Lemmas.Poly
open Givaro.Model.Poly

variable {K : Type} [Field K] [DecidableEq K]

/-- entry `i` of the middle product of `P` by `Q`: `Σ_s P[s+i]·Q[|Q|-1-s]` -/
def cs (P Q : List K) (i : Nat) : K :=
  ∑ s ∈ Finset.range Q.length, P.getD (s + i) 0 * Q.getD (Q.length - 1 - s) 0

theorem cs_eq_coeff (P Q : List K) (i : Nat) : cs P Q i = (toPoly P * toPoly Q).coeff (i + Q.length - 1) := by
  have h := corr_eq P Q.reverse i
  rw [List.reverse_reverse, List.length_reverse] at h
  rw [← h]
  unfold cs corr
  rw [List.length_reverse]
  apply Finset.sum_congr rfl
  intro s hs
  congr 1
  simp only [List.getD_eq_getElem?_getD]
  rw [List.getElem?_reverse (Finset.mem_range.mp hs)]

theorem cs_nil (P : List K) (i : Nat) : cs P [] i = 0 := by simp [cs]

theorem cs_congr (P P' Q : List K) (i i' : Nat) (h : ∀ s, s < Q.length → P.getD (s + i) 0 = P'.getD (s + i') 0) :
    cs P Q i = cs P' Q i' := by
  unfold cs
  apply Finset.sum_congr rfl
  intro s hs
  rw [h s (Finset.mem_range.mp hs)]

theorem cs_add_of (A P P' Q : List K) (i j k : Nat)
    (h : ∀ s, s < Q.length → A.getD (s + i) 0 = P.getD (s + j) 0 + P'.getD (s + k) 0) :
    cs A Q i = cs P Q j + cs P' Q k := by
  unfold cs
  rw [← Finset.sum_add_distrib]
  apply Finset.sum_congr rfl
  intro s hs
  rw [h s (Finset.mem_range.mp hs)]; ring

theorem cs_append (P Q0 Q1 : List K) (i : Nat) :
    cs P (Q0 ++ Q1) i = cs P Q1 i + cs P Q0 (i + Q1.length) := by
  unfold cs
  rw [List.length_append, Nat.add_comm Q0.length Q1.length, Finset.sum_range_add]
  congr 1
  · apply Finset.sum_congr rfl
    intro s hs
    have hs' := Finset.mem_range.mp hs
    rw [getD_append, if_neg (by omega)]
    congr 2; omega
  · apply Finset.sum_congr rfl
    intro s hs
    have hs' := Finset.mem_range.mp hs
    rw [getD_append, if_pos (by omega)]
    congr 2 <;> omega

theorem getD_drop (L : List K) (m i : Nat) : (L.drop m).getD i 0 = L.getD (m + i) 0 := by
  simp only [List.getD_eq_getElem?_getD, List.getElem?_drop]

theorem zipAdd_length (R M : List K) : (zipAdd R M).length = R.length := by
  induction R generalizing M with
  | nil => cases M <;> simp [zipAdd]
  | cons r R ih => cases M with
    | nil => simp [zipAdd]
    | cons m M => simp [zipAdd, ih]

theorem zipAdd_getD (R M : List K) (k : Nat) :
    (zipAdd R M).getD k 0 = R.getD k 0 + (if k < R.length then M.getD k 0 else 0) := by
  induction R generalizing M k with
  | nil => cases M <;> simp [zipAdd]
  | cons r R ih => cases M with
    | nil => simp [zipAdd]
    | cons m M => cases k with
      | zero => simp [zipAdd]
      | succ k =>
        simp only [zipAdd, List.getD_cons_succ, List.length_cons, Nat.add_lt_add_iff_right]
        exact ih M k

theorem zipAddS_getD (A B : List K) (k : Nat) (ha : k < A.length) (hb : k < B.length) :
    (zipAddS A B).getD k 0 = A.getD k 0 + B.getD k 0 := by
  induction A generalizing B k with
  | nil => simp at ha
  | cons a A ih => cases B with
    | nil => simp at hb
    | cons b B => cases k with
      | zero => simp [zipAddS]
      | succ k =>
        simp only [zipAddS, List.getD_cons_succ]
        exact ih B k (by simpa using ha) (by simpa using hb)

theorem zipSubS_getD (A B : List K) (k : Nat) (ha : k < A.length) (hb : k < B.length) :
    (zipSubS A B).getD k 0 = A.getD k 0 - B.getD k 0 := by
  induction A generalizing B k with
  | nil => simp at ha
  | cons a A ih => cases B with
    | nil => simp at hb
    | cons b B => cases k with
      | zero => simp [zipSubS]
      | succ k =>
        simp only [zipSubS, List.getD_cons_succ]
        exact ih B k (by simpa using ha) (by simpa using hb)

/-- what the recursive calls of the middle product must deliver on a well-formed range shape
    (`|R| = |P| - |Q| + 1`, `1 ≤ |Q| ≤ |P|`): entry `i` is the middle-product entry -/
def MidOK (mid : Nat → List K → List K → List K) : Prop :=
  ∀ (P Q : List K), Q ≠ [] → Q.length ≤ P.length → ∀ i, i < P.length + 1 - Q.length →
    (mid (P.length + 1 - Q.length) P Q).getD i 0 = cs P Q i

/-- the three recursive products of one `karamidmul` level and their recombination `R0 = S0 - S2`, `R1 = S1 + S2` -/
theorem karamid_core (mid : Nat → List K → List K → List K) (h : MidOK mid) (P Q0 Q1 : List K) (n0 n1 : Nat)
    (h0 : Q0.length = n0) (h1 : Q1.length = n1) (hn0 : 1 ≤ n0) (hd : n1 = n0 ∨ n1 = n0 + 1)
    (hP : P.length + 1 = 2 * (n0 + n1)) (i : Nat) :
    (i < n1 →
      (pad n1 (mid n1 (pad (2 * n1 - 1) (zipAddS (P.take (2 * n1 - 1)) ((P.drop n1).take (2 * n1 - 1)))) Q1)).getD i 0
        - (pad n1 (mid n1 ((P.drop n1).take (2 * n1 - 1))
            (pad n1 (if n0 = n1 then zipSubS Q1 Q0 else (Q1.getD 0 0) :: zipSubS (Q1.drop 1) Q0)))).getD i 0
        = cs P (Q0 ++ Q1) i) ∧
    (i < n0 →
      (pad n0 (mid n0 (pad (2 * n0 - 1) (zipAddS ((P.drop n1).take (2 * n0 - 1)) (P.drop (2 * n1)))) Q0)).getD i 0
        + (pad n1 (mid n1 ((P.drop n1).take (2 * n1 - 1))
            (pad n1 (if n0 = n1 then zipSubS Q1 Q0 else (Q1.getD 0 0) :: zipSubS (Q1.drop 1) Q0)))).getD i 0
        = cs P (Q0 ++ Q1) (i + n1)) := by
  have hQ1 : Q1 ≠ [] := by intro e; rw [e] at h1; simp at h1; omega
  have hQ0 : Q0 ≠ [] := by intro e; rw [e] at h0; simp at h0; omega
  -- S0
  have E1 : ∀ i, i < n1 →
      (mid n1 (pad (2 * n1 - 1) (zipAddS (P.take (2 * n1 - 1)) ((P.drop n1).take (2 * n1 - 1)))) Q1).getD i 0
        = cs P Q1 i + cs P Q1 (i + n1) := by
    intro i hi
    have hh := h (pad (2 * n1 - 1) (zipAddS (P.take (2 * n1 - 1)) ((P.drop n1).take (2 * n1 - 1)))) Q1 hQ1
      (by rw [length_pad]; omega) i (by rw [length_pad]; omega)
    rw [length_pad, h1, show 2 * n1 - 1 + 1 - n1 = n1 by omega] at hh
    rw [hh]
    apply cs_add_of
    intro s hs
    rw [h1] at hs
    rw [getD_pad, if_pos (by omega), zipAddS_getD _ _ _ (by rw [List.length_take]; omega)
      (by rw [List.length_take, List.length_drop]; omega), getD_take, if_pos (by omega), getD_take, if_pos (by omega),
      getD_drop]
    congr 2; omega
  -- S1
  have E2 : ∀ i, i < n0 →
      (mid n0 (pad (2 * n0 - 1) (zipAddS ((P.drop n1).take (2 * n0 - 1)) (P.drop (2 * n1)))) Q0).getD i 0
        = cs P Q0 (i + n1) + cs P Q0 (i + n1 + n1) := by
    intro i hi
    have hh := h (pad (2 * n0 - 1) (zipAddS ((P.drop n1).take (2 * n0 - 1)) (P.drop (2 * n1)))) Q0 hQ0
      (by rw [length_pad]; omega) i (by rw [length_pad]; omega)
    rw [length_pad, h0, show 2 * n0 - 1 + 1 - n0 = n0 by omega] at hh
    rw [hh]
    apply cs_add_of
    intro s hs
    rw [h0] at hs
    rw [getD_pad, if_pos (by omega), zipAddS_getD _ _ _ (by rw [List.length_take, List.length_drop]; omega)
      (by rw [List.length_drop]; omega), getD_take, if_pos (by omega), getD_drop, getD_drop]
    congr 2 <;> omega
  -- the difference `Q1 - X^(n%2) Q0`, read from the top
  have ET : ∀ s, s < n1 →
      (pad n1 (if n0 = n1 then zipSubS Q1 Q0 else (Q1.getD 0 0) :: zipSubS (Q1.drop 1) Q0)).getD (n1 - 1 - s) 0
        = Q1.getD (n1 - 1 - s) 0 - (if s < n0 then Q0.getD (n0 - 1 - s) 0 else 0) := by
    intro s hs
    rw [getD_pad, if_pos (by omega)]
    rcases hd with hd | hd
    · rw [if_pos hd.symm, zipSubS_getD _ _ _ (by omega) (by omega), if_pos (by omega), hd]
    · rw [if_neg (by omega)]
      by_cases hsn : s < n0
      · rw [if_pos hsn, show n1 - 1 - s = (n0 - 1 - s) + 1 by omega, List.getD_cons_succ,
          zipSubS_getD _ _ _ (by rw [List.length_drop]; omega) (by omega), getD_drop]
        congr 2; omega
      · rw [if_neg hsn, show n1 - 1 - s = 0 by omega, List.getD_cons_zero]; ring
  -- S2
  have E3 : ∀ i, i < n1 →
      (mid n1 ((P.drop n1).take (2 * n1 - 1))
          (pad n1 (if n0 = n1 then zipSubS Q1 Q0 else (Q1.getD 0 0) :: zipSubS (Q1.drop 1) Q0))).getD i 0
        = cs P Q1 (i + n1) - cs P Q0 (i + n1) := by
    intro i hi
    have hl : ((P.drop n1).take (2 * n1 - 1)).length = 2 * n1 - 1 := by
      rw [List.length_take, List.length_drop]; omega
    have hh := h ((P.drop n1).take (2 * n1 - 1))
      (pad n1 (if n0 = n1 then zipSubS Q1 Q0 else (Q1.getD 0 0) :: zipSubS (Q1.drop 1) Q0))
      (by intro e; have := congrArg List.length e; rw [length_pad] at this; simp at this; omega)
      (by rw [length_pad, hl]; omega) i (by rw [length_pad, hl]; omega)
    rw [length_pad, hl, show 2 * n1 - 1 + 1 - n1 = n1 by omega] at hh
    rw [hh]
    unfold cs
    rw [length_pad, h1, h0]
    have e2 : ∑ s ∈ Finset.range n0, P.getD (s + (i + n1)) 0 * Q0.getD (n0 - 1 - s) 0
        = ∑ s ∈ Finset.range n1, P.getD (s + (i + n1)) 0 * (if s < n0 then Q0.getD (n0 - 1 - s) 0 else 0) := by
      rcases hd with hd | hd
      · rw [hd]
        apply Finset.sum_congr rfl
        intro s hs
        rw [if_pos (Finset.mem_range.mp hs)]
      · rw [hd, Finset.sum_range_succ, if_neg (by omega), mul_zero, add_zero]
        apply Finset.sum_congr rfl
        intro s hs
        rw [if_pos (Finset.mem_range.mp hs)]
    rw [e2, ← Finset.sum_sub_distrib]
    apply Finset.sum_congr rfl
    intro s hs
    have hs' := Finset.mem_range.mp hs
    rw [ET s hs', getD_take, if_pos (by omega), getD_drop, show n1 + (s + i) = s + (i + n1) by omega]
    ring
  constructor
  · intro hi
    rw [getD_pad, if_pos hi, getD_pad, if_pos hi, E1 i hi, E3 i hi, cs_append, h1]
    ring
  · intro hi
    rw [getD_pad, if_pos hi, getD_pad, if_pos (by omega), E2 i hi, E3 i (by omega), cs_append, h1]
    ring

/-- one level of `karamidmul` on a balanced shape (`|P| = 2|Q|-1`, R range of `|Q|` places), given recursive calls that are
    exact on well-formed shapes: the R range receives the `|Q|` middle-product entries -/
theorem karamidStep_exact (mid : Nat → List K → List K → List K) (h : MidOK mid) (P Q : List K) (hQ : Q ≠ [])
    (hP : P.length + 1 = 2 * Q.length) :
    (karamidStep mid Q.length P Q).length = Q.length ∧
    ∀ i, i < Q.length → (karamidStep mid Q.length P Q).getD i 0 = cs P Q i := by
  have hn : 0 < Q.length := List.length_pos_iff.mpr hQ
  unfold karamidStep
  rw [if_neg (by omega)]
  split
  · next q =>
    refine ⟨by rw [length_pad], ?_⟩
    intro i hi
    have hi0 : i = 0 := by simp at hi; exact hi
    subst hi0
    rw [getD_pad, if_pos hn]
    simp [cs]
  · next hne =>
    have hn2 : 2 ≤ Q.length := by
      by_contra hc
      have h1 : Q.length = 1 := by omega
      obtain ⟨q, hq⟩ := List.length_eq_one_iff.mp h1
      exact hne q hq
    have hsplit : Q.take (Q.length / 2) ++ Q.drop (Q.length / 2) = Q := List.take_append_drop _ _
    have hl0 : (Q.take (Q.length / 2)).length = Q.length / 2 := by rw [List.length_take]; omega
    have hl1 : (Q.drop (Q.length / 2)).length = Q.length / 2 + Q.length % 2 := by rw [List.length_drop]; omega
    have hmin : min (Q.length / 2 + Q.length % 2) Q.length = Q.length / 2 + Q.length % 2 := by omega
    have hrem : Q.length - (Q.length / 2 + Q.length % 2) = Q.length / 2 := by omega
    simp only [hmin, hrem]
    have core := fun i => karamid_core mid h P (Q.take (Q.length / 2)) (Q.drop (Q.length / 2)) (Q.length / 2)
      (Q.length / 2 + Q.length % 2) hl0 hl1 (by omega) (by omega) (by omega) i
    rw [hsplit] at core
    refine ⟨?_, ?_⟩
    · rw [List.length_append, zipSub_length, zipAdd_length, length_pad, length_pad]; omega
    · intro i hi
      rw [getD_append, zipSub_length, length_pad]
      split
      · next hlt =>
        rw [zipSub_getD, length_pad, if_pos hlt]
        exact (core i).1 hlt
      · next hge =>
        rw [zipAdd_getD, length_pad, if_pos (by omega)]
        have := (core (i - (Q.length / 2 + Q.length % 2))).2 (by omega)
        rw [show i - (Q.length / 2 + Q.length % 2) + (Q.length / 2 + Q.length % 2) = i by omega] at this
        exact this

/-! ### the unbalanced loops -/

/-- blocks of equal length written one after the other (`m > n`: `R[i, i+n)` for `i = 0, n, 2n, …`) -/
theorem flatMap_blocks (f : Nat → List K) (n : Nat) : ∀ (B : Nat), (∀ c, c < B → (f c).length = n) →
    ((List.range B).flatMap f).length = B * n ∧
    ∀ c j, c < B → j < n → ((List.range B).flatMap f).getD (c * n + j) 0 = (f c).getD j 0 := by
  intro B
  induction B with
  | zero => intro _; simp
  | succ B ih =>
    intro hf
    have ih := ih (fun c hc => hf c (by omega))
    rw [List.range_succ, List.flatMap_append]
    simp only [List.flatMap_cons, List.flatMap_nil, List.append_nil]
    refine ⟨by rw [List.length_append, ih.1, hf B (by omega), Nat.succ_mul], ?_⟩
    intro c j hc hj
    rw [getD_append, ih.1]
    by_cases hcB : c < B
    · have : (c + 1) * n ≤ B * n := Nat.mul_le_mul_right n hcB
      rw [Nat.succ_mul] at this
      rw [if_pos (by omega)]
      exact ih.2 c j hcB hj
    · have hcB' : c = B := by omega
      subst hcB'
      rw [if_neg (by omega), show c * n + j - c * n = j by omega]

/-- accumulation of the partial products into `R` (`m < n`: the first block is written, the others are added) -/
theorem foldl_zipAdd_getD (rest : List (List K)) (p0 : List K) (i : Nat) (hi : i < p0.length) :
    (rest.foldl (fun R T => zipAdd R T) p0).getD i 0 = p0.getD i 0 + (rest.map (fun T => T.getD i 0)).sum := by
  induction rest generalizing p0 with
  | nil => simp
  | cons T rest ih =>
    simp only [List.foldl_cons, List.map_cons, List.sum_cons]
    rw [ih (zipAdd p0 T) (by rw [zipAdd_length]; exact hi), zipAdd_getD, if_pos hi]
    ring

theorem foldl_zipAdd_length (rest : List (List K)) (p0 : List K) :
    (rest.foldl (fun R T => zipAdd R T) p0).length = p0.length := by
  induction rest generalizing p0 with
  | nil => simp
  | cons T rest ih => simp only [List.foldl_cons]; rw [ih, zipAdd_length]

/-- one block of the `m < n` loop: the top `m` coefficients of `Q` against the top `2m-1` of `P` -/
theorem cs_peel (P Q : List K) (m i : Nat) (hm : 1 ≤ m) (hmQ : m ≤ Q.length) (hP : P.length + 1 = m + Q.length) (hi : i < m) :
    cs P Q i = cs (P.drop (P.length - (2 * m - 1))) (Q.take m) i + cs (P.take (P.length - m)) (Q.drop m) i := by
  have hs : Q.take m ++ Q.drop m = Q := List.take_append_drop _ _
  have e := cs_append P (Q.take m) (Q.drop m) i
  rw [hs] at e
  rw [e, add_comm]
  congr 1
  · apply cs_congr
    intro s hs
    rw [List.length_take] at hs
    rw [getD_drop, List.length_drop]
    congr 1; omega
  · apply cs_congr
    intro s hs
    rw [List.length_drop] at hs
    rw [getD_take, if_pos (by omega)]

theorem karamidStep_exact' (mid : Nat → List K → List K → List K) (h : MidOK mid) (r : Nat) (P Q : List K) (hQ : Q ≠ [])
    (hr : r = Q.length) (hP : P.length + 1 = 2 * Q.length) :
    (karamidStep mid r P Q).length = r ∧ ∀ i, i < r → (karamidStep mid r P Q).getD i 0 = cs P Q i := by
  subst hr
  exact karamidStep_exact mid h P Q hQ hP

/-- the partial products of the `m < n` loop add up to the middle product -/
theorem cs_blocks (m i : Nat) (hm : 1 ≤ m) (hi : i < m) (P Q : List K) (hP : P.length + 1 = m + Q.length) :
    ∀ B, B * m ≤ Q.length →
    cs P Q i = ((List.range B).map (fun c =>
        cs ((P.take (P.length - c * m)).drop (P.length - c * m - (2 * m - 1))) ((Q.drop (c * m)).take m) i)).sum
      + cs (P.take (P.length - B * m)) (Q.drop (B * m)) i := by
  intro B
  induction B with
  | zero => intro _; simp
  | succ B ih =>
    intro hB
    have hBm : B * m + m ≤ Q.length := by rw [Nat.succ_mul] at hB; exact hB
    rw [ih (by omega), List.range_succ, List.map_append, List.sum_append]
    simp only [List.map_cons, List.map_nil, List.sum_cons, List.sum_nil, add_zero]
    rw [add_assoc]; congr 1
    have hl : (P.take (P.length - B * m)).length = P.length - B * m := by rw [List.length_take]; omega
    have hp := cs_peel (P.take (P.length - B * m)) (Q.drop (B * m)) m i hm (by rw [List.length_drop]; omega)
      (by rw [hl, List.length_drop]; omega) hi
    rw [hl] at hp
    rw [hp]; congr 1
    have hq : (Q.drop (B * m)).drop m = Q.drop ((B + 1) * m) := by
      rw [List.drop_drop]; congr 1; ring
    rw [hq]
    apply cs_congr
    intro s hs
    rw [List.length_drop, Nat.succ_mul] at hs
    rw [getD_take, getD_take, getD_take, Nat.succ_mul, if_pos (by omega), if_pos (by omega), if_pos (by omega)]

theorem sum_range_succ_list (g : Nat → K) (b : Nat) :
    ((List.range (b + 1)).map g).sum = g 0 + (((List.range b).map Nat.succ).map g).sum := by
  rw [List.range_succ_eq_map]; simp

/-- Tier B `midmul_exact`, range form: the generic `midmul(R,Rbeg,Rend,P,Pbeg,Pend,Q,Qbeg,Qend)` — threshold dispatch,
    `karamidmul` recursion, the block loop along `P` (`m > n`) and the accumulating block loop along `Q` (`m < n`) — gives
    the middle product on every well-formed shape, for every threshold and every recursion budget -/
theorem midR_spec (thr : Nat) : ∀ fuel, MidOK (midR (K := K) thr fuel) := by
  intro fuel
  induction fuel with
  | zero =>
    intro P Q hQ hPQ i hi
    show (stdmidmulR _ P Q).getD i 0 = _
    rw [(stdmidmulR_exact _ P Q (by omega) hQ).2 i hi, cs_eq_coeff]
  | succ fuel ih =>
    intro P Q hQ hPQ i hi
    have hn : 0 < Q.length := List.length_pos_iff.mpr hQ
    simp only [midR]
    split
    · rw [(stdmidmulR_exact _ P Q (by omega) hQ).2 i hi, cs_eq_coeff]
    · next hbig =>
      split
      · next hbal =>
        have hP : P.length + 1 = 2 * Q.length := by omega
        exact (karamidStep_exact' _ ih _ P Q hQ hbal hP).2 i hi
      · next hnb =>
        split
        · next hgt =>
          generalize hm : P.length + 1 - Q.length = m at hi hbig hnb hgt ⊢
          obtain ⟨b, hb⟩ : ∃ b, (m - Q.length) / Q.length = b := ⟨_, rfl⟩
          have d1 := Nat.div_add_mod (m - Q.length) Q.length
          have d2 := Nat.mod_lt (m - Q.length) hn
          rw [hb, Nat.mul_comm] at d1
          have d3 : (b + 1) * Q.length = b * Q.length + Q.length := Nat.succ_mul _ _
          rw [hb]
          have hblk : ∀ c, c < b + 1 →
              ((P.drop (c * Q.length)).take (2 * Q.length - 1)).length + 1 = 2 * Q.length := by
            intro c hc
            have : c * Q.length ≤ b * Q.length := Nat.mul_le_mul_right _ (by omega)
            rw [List.length_take, List.length_drop]; omega
          obtain ⟨fl, fg⟩ := flatMap_blocks (fun c => karamidStep (midR thr fuel) Q.length ((P.drop (c * Q.length)).take (2 * Q.length - 1)) Q) Q.length (b + 1)
            (fun c hc => (karamidStep_exact _ ih _ Q hQ (hblk c hc)).1)
          have hdone : ∀ i, i < (b + 1) * Q.length → ((List.range (b + 1)).flatMap (fun c => karamidStep (midR thr fuel) Q.length ((P.drop (c * Q.length)).take (2 * Q.length - 1)) Q)).getD i 0 = cs P Q i := by
            intro i hi'
            have e1 := Nat.div_add_mod i Q.length
            have e2 := Nat.mod_lt i hn
            have e3 : i / Q.length < b + 1 := Nat.div_lt_of_lt_mul (by rw [Nat.mul_comm]; exact hi')
            rw [Nat.mul_comm] at e1
            rw [← e1, fg _ _ e3 e2, (karamidStep_exact _ ih _ Q hQ (hblk _ e3)).2 _ e2]
            apply cs_congr
            intro s hs
            rw [getD_take, if_pos (by omega), getD_drop]
            congr 1; omega
          by_cases hlt : (b + 1) * Q.length < m
          · rw [if_pos hlt, getD_append, fl]
            split
            · next h1 => exact hdone i h1
            · next h1 =>
              rw [getD_pad, if_pos (by omega)]
              have hh := ih (P.drop ((b + 1) * Q.length)) Q hQ (by rw [List.length_drop]; omega)
                (i - (b + 1) * Q.length) (by rw [List.length_drop]; omega)
              rw [List.length_drop,
                show P.length - (b + 1) * Q.length + 1 - Q.length = m - (b + 1) * Q.length by omega] at hh
              rw [hh]
              apply cs_congr
              intro s hs
              rw [getD_drop]
              congr 1; omega
          · rw [if_neg hlt, getD_pad, if_pos hi]
            exact hdone i (by omega)
        · next hle =>
          generalize hm : P.length + 1 - Q.length = m at hi hbig hnb hle ⊢
          have hm1 : 1 ≤ m := by omega
          have hmn : m < Q.length := by omega
          obtain ⟨b, hb⟩ : ∃ b, Q.length / m = b + 1 :=
            ⟨Q.length / m - 1, by have := Nat.div_pos (Nat.le_of_lt hmn) hm1; omega⟩
          have d1 := Nat.div_add_mod Q.length m
          have d2 := Nat.mod_lt Q.length hm1
          rw [hb, Nat.mul_comm] at d1
          rw [hb]
          have hPm : P.length + 1 = m + Q.length := by omega
          have hpart : ∀ c, c < b + 1 → ((fun c => karamidStep (midR thr fuel) m ((P.take (P.length - c * m)).drop (P.length - c * m - (2 * m - 1))) ((Q.drop (c * m)).take m)) c).length = m ∧ ((fun c => karamidStep (midR thr fuel) m ((P.take (P.length - c * m)).drop (P.length - c * m - (2 * m - 1))) ((Q.drop (c * m)).take m)) c).getD i 0 = (fun c => cs ((P.take (P.length - c * m)).drop (P.length - c * m - (2 * m - 1))) ((Q.drop (c * m)).take m) i) c := by
            intro c hc
            have h1 : (c + 1) * m ≤ (b + 1) * m := Nat.mul_le_mul_right _ (by omega)
            rw [Nat.succ_mul] at h1
            have hlQ : ((Q.drop (c * m)).take m).length = m := by rw [List.length_take, List.length_drop]; omega
            have hlP : ((P.take (P.length - c * m)).drop (P.length - c * m - (2 * m - 1))).length = 2 * m - 1 := by rw [List.length_drop, List.length_take]; omega
            have hQc : ((Q.drop (c * m)).take m) ≠ [] := by intro e; rw [e] at hlQ; simp at hlQ; omega
            have := karamidStep_exact' _ ih m ((P.take (P.length - c * m)).drop (P.length - c * m - (2 * m - 1))) ((Q.drop (c * m)).take m) hQc hlQ.symm (by rw [hlP, hlQ]; omega)
            exact ⟨this.1, this.2 i hi⟩
          rw [List.range_succ_eq_map]
          simp only [List.map_cons]
          have hlen : (List.foldl (fun R T => zipAdd R T) ((fun c => karamidStep (midR thr fuel) m ((P.take (P.length - c * m)).drop (P.length - c * m - (2 * m - 1))) ((Q.drop (c * m)).take m)) 0) (List.map (fun c => karamidStep (midR thr fuel) m ((P.take (P.length - c * m)).drop (P.length - c * m - (2 * m - 1))) ((Q.drop (c * m)).take m)) (List.map Nat.succ (List.range b)))).length = m := by
            rw [foldl_zipAdd_length]; exact (hpart 0 (by omega)).1
          have hacc : (List.foldl (fun R T => zipAdd R T) ((fun c => karamidStep (midR thr fuel) m ((P.take (P.length - c * m)).drop (P.length - c * m - (2 * m - 1))) ((Q.drop (c * m)).take m)) 0) (List.map (fun c => karamidStep (midR thr fuel) m ((P.take (P.length - c * m)).drop (P.length - c * m - (2 * m - 1))) ((Q.drop (c * m)).take m)) (List.map Nat.succ (List.range b)))).getD i 0
              = ((List.range (b + 1)).map (fun c => cs ((P.take (P.length - c * m)).drop (P.length - c * m - (2 * m - 1))) ((Q.drop (c * m)).take m) i)).sum := by
            rw [foldl_zipAdd_getD _ _ _ (by rw [(hpart 0 (by omega)).1]; exact hi), sum_range_succ_list]
            congr 1
            · exact (hpart 0 (by omega)).2
            · rw [List.map_map]
              congr 1
              apply List.map_congr_left
              intro c hc
              have hcb : c < b + 1 := by
                obtain ⟨c', hc', rfl⟩ := List.mem_map.mp hc
                have := List.mem_range.mp hc'; omega
              exact (hpart c hcb).2
          have hcs := cs_blocks m i hm1 hi P Q hPm (b + 1) (by omega)
          by_cases hlt : (b + 1) * m < Q.length
          · rw [if_pos hlt, zipAdd_getD, hlen, if_pos hi, hacc, getD_pad, if_pos hi]
            have hh := ih (P.take (P.length - (b + 1) * m)) (Q.drop ((b + 1) * m))
              (by intro e; have := congrArg List.length e; rw [List.length_drop] at this; simp at this; omega)
              (by rw [List.length_drop, List.length_take]; omega) i
              (by rw [List.length_drop, List.length_take]; omega)
            rw [show (P.take (P.length - (b + 1) * m)).length + 1 - (Q.drop ((b + 1) * m)).length = m by
              rw [List.length_drop, List.length_take]; omega] at hh
            rw [hh, hcs]
          · rw [if_neg hlt, hacc, hcs, List.drop_eq_nil_of_le (by omega), cs_nil, add_zero]

end Givaro.Lemmas.Poly
