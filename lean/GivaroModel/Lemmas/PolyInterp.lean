/-
C08 — `Interpolation<Domain>` (givinterp.h): the incremental Newton interpolation of `Model/PolyInterp.lean` returns the
interpolating polynomial.  Ghost state: beside every entry `DD[j]` of the divided-difference column the polynomial `Q_j`
that interpolates the points `x_j, …, x_k` (Neville's recurrence); `DD[j]` is its coefficient of degree `k - j`.
-/
import GivaroModel.Lemmas.PolyMisc
import GivaroModel.Model.PolyInterp
import Mathlib.Algebra.Polynomial.Roots

open Polynomial
set_option linter.unusedSectionVars false

namespace Givaro.Lemmas.PolyInterp
open Givaro.Model.Poly Givaro.Model.PolyInterp Givaro.Lemmas.Poly

variable {K : Type} [Field K] [DecidableEq K]

/-- `Q` takes the prescribed values at the listed points -/
def Interp (Q : K[X]) (L : List (K × K)) : Prop := ∀ p ∈ L, Q.eval p.1 = p.2

/-- `Π (X - a)` over a list of points -/
noncomputable def prodX : List K → K[X]
  | [] => 1
  | a :: L => (X - C a) * prodX L

theorem prodX_monic (L : List K) : (prodX L).Monic := by
  induction L with
  | nil => exact monic_one
  | cons a L ih => exact (monic_X_sub_C a).mul ih

theorem prodX_natDegree (L : List K) : (prodX L).natDegree = L.length := by
  induction L with
  | nil => simp [prodX]
  | cons a L ih =>
    show ((X - C a) * prodX L).natDegree = _
    rw [(monic_X_sub_C a).natDegree_mul (prodX_monic L), natDegree_X_sub_C, ih, List.length_cons]; omega

theorem prodX_eval (L : List K) (a : K) (h : a ∈ L) : (prodX L).eval a = 0 := by
  induction L with
  | nil => simp at h
  | cons b L ih =>
    show ((X - C b) * prodX L).eval a = 0
    rw [eval_mul]
    rcases List.mem_cons.mp h with h | h
    · subst h; simp
    · rw [ih h, mul_zero]

/-- the ghost polynomials follow the column: Neville's recurrence -/
noncomputable def qUpdate (x : K) : K[X] → List K[X] → List K → List K[X]
  | prev, Q :: Qs, p :: ps =>
    (C (x - p)⁻¹ * ((X - C p) * prev - (X - C x) * Q))
      :: qUpdate x (C (x - p)⁻¹ * ((X - C p) * prev - (X - C x) * Q)) Qs ps
  | _, _, _ => []

/-- the column `ds` and the ghost polynomials `Qs` (most recent first) over the points `ps`, after the more recent points
    `acc`: `Q` interpolates `acc ++ [p]`, has degree at most `|acc|`, and the entry of the column is its coefficient `|acc|` -/
def TableOK : List (K × K) → List (K × K) → List K → List K[X] → Prop
  | _, [], [], [] => True
  | acc, p :: ps, d :: ds, Q :: Qs =>
    Interp Q (acc ++ [p]) ∧ Q.natDegree ≤ acc.length ∧ Q.coeff acc.length = d ∧ TableOK (acc ++ [p]) ps ds Qs
  | _, _, _, _ => False

theorem neville (x f : K) (p : K × K) (acc : List (K × K)) (prev Q : K[X]) (hx : p.1 ≠ x)
    (h1 : Interp prev ((x, f) :: acc)) (h2 : Interp Q (acc ++ [p])) :
    Interp (C (x - p.1)⁻¹ * ((X - C p.1) * prev - (X - C x) * Q)) ((x, f) :: (acc ++ [p])) := by
  have hne : x - p.1 ≠ 0 := sub_ne_zero.mpr (Ne.symm hx)
  intro q hq
  simp only [eval_mul, eval_sub, eval_C, eval_X]
  rw [inv_mul_eq_iff_eq_mul₀ hne]
  rcases List.mem_cons.mp hq with hq | hq
  · subst hq
    rw [h1 (x, f) (List.mem_cons_self ..)]
    simp only []
    ring
  · rcases List.mem_append.mp hq with hq | hq
    · rw [h1 q (List.mem_cons_of_mem _ hq), h2 q (List.mem_append_left _ hq)]; ring
    · have : q = p := by simpa using hq
      subst this
      rw [h2 q (List.mem_append_right _ (List.mem_singleton_self _))]; ring

theorem coeff_succ_X_sub_C_mul (a : K) (P : K[X]) (n : Nat) (h : P.natDegree ≤ n) :
    ((X - C a) * P).coeff (n + 1) = P.coeff n := by
  have hz : P.coeff (n + 1) = 0 := coeff_eq_zero_of_natDegree_lt (by omega)
  rw [sub_mul, coeff_sub, coeff_X_mul, coeff_C_mul, hz]; ring

theorem neville_degree (x p : K) (prev Q : K[X]) (n : Nat) (h1 : prev.natDegree ≤ n) (h2 : Q.natDegree ≤ n) :
    (C (x - p)⁻¹ * ((X - C p) * prev - (X - C x) * Q)).natDegree ≤ n + 1 := by
  have e1 : ((X - C p) * prev).natDegree ≤ n + 1 := by
    refine le_trans natDegree_mul_le ?_
    have := natDegree_X_sub_C_le (R := K) p; omega
  have e2 : ((X - C x) * Q).natDegree ≤ n + 1 := by
    refine le_trans natDegree_mul_le ?_
    have := natDegree_X_sub_C_le (R := K) x; omega
  have e3 := natDegree_sub_le_of_le e1 e2
  rw [max_self] at e3
  exact le_trans (natDegree_C_mul_le (x - p)⁻¹ ((X - C p) * prev - (X - C x) * Q)) e3

theorem neville_coeff (x p : K) (prev Q : K[X]) (n : Nat) (h1 : prev.natDegree ≤ n) (h2 : Q.natDegree ≤ n) :
    (C (x - p)⁻¹ * ((X - C p) * prev - (X - C x) * Q)).coeff (n + 1) = (Q.coeff n - prev.coeff n) / (p - x) := by
  rw [coeff_C_mul, coeff_sub, coeff_succ_X_sub_C_mul _ _ _ h1, coeff_succ_X_sub_C_mul _ _ _ h2]
  rw [← neg_sub p x, inv_neg, div_eq_mul_inv]; ring

/-- one pass of the divided-difference loop keeps the table, one point further -/
theorem table_update (x f : K) : ∀ (ps acc : List (K × K)) (ds : List K) (Qs : List K[X]) (prevd : K) (prevQ : K[X]),
    (∀ p ∈ ps, p.1 ≠ x) → TableOK acc ps ds Qs → Interp prevQ ((x, f) :: acc) → prevQ.natDegree ≤ acc.length →
    prevQ.coeff acc.length = prevd →
    TableOK ((x, f) :: acc) ps (ddUpdate x prevd ds (ps.map Prod.fst)) (qUpdate x prevQ Qs (ps.map Prod.fst)) := by
  intro ps
  induction ps with
  | nil =>
    intro acc ds Qs prevd prevQ _ ht _ _ _
    cases ds <;> cases Qs <;> simp_all [TableOK, ddUpdate, qUpdate]
  | cons p ps ih =>
    intro acc ds Qs prevd prevQ hx ht hI hdeg hco
    cases ds with
    | nil => cases Qs <;> simp [TableOK] at ht
    | cons d ds =>
      cases Qs with
      | nil => simp [TableOK] at ht
      | cons Q Qs =>
        obtain ⟨tI, tdeg, tco, trest⟩ := ht
        have hpx : p.1 ≠ x := hx p (List.mem_cons_self ..)
        simp only [List.map_cons, ddUpdate, qUpdate]
        have nI := neville x f p acc prevQ Q hpx hI tI
        have ndeg := neville_degree x p.1 prevQ Q acc.length hdeg tdeg
        have nco := neville_coeff x p.1 prevQ Q acc.length hdeg tdeg
        rw [hco, tco] at nco
        refine ⟨nI, by simpa using ndeg, by simpa using nco, ?_⟩
        exact ih (acc ++ [p]) ds Qs _ _ (fun q hq => hx q (List.mem_cons_of_mem _ hq)) trest nI
          (by simpa using ndeg) (by simpa using nco)

/-- the oldest entry of a non-empty table: `DD.front()` and the interpolant of all points -/
theorem table_last : ∀ (ps acc : List (K × K)) (ds : List K) (Qs : List K[X]), TableOK acc ps ds Qs → ps ≠ [] →
    ∃ Q d, Qs.getLast? = some Q ∧ ds.getLast? = some d ∧ Interp Q (acc ++ ps) ∧
      Q.natDegree + 1 ≤ acc.length + ps.length ∧ Q.coeff (acc.length + ps.length - 1) = d := by
  intro ps
  induction ps with
  | nil => intro _ _ _ _ h; exact absurd rfl h
  | cons p ps ih =>
    intro acc ds Qs ht _
    cases ds with
    | nil => cases Qs <;> simp [TableOK] at ht
    | cons d ds =>
      cases Qs with
      | nil => simp [TableOK] at ht
      | cons Q Qs =>
        obtain ⟨tI, tdeg, tco, trest⟩ := ht
        cases ps with
        | nil =>
          cases ds <;> cases Qs <;> simp [TableOK] at trest
          exact ⟨Q, d, rfl, rfl, tI, by simp; omega, by simpa using tco⟩
        | cons p' ps' =>
          obtain ⟨Q0, d0, hQ, hd, hI, hdeg, hco⟩ := ih (acc ++ [p]) ds Qs trest (by simp)
          cases ds with
          | nil => cases Qs <;> simp [TableOK] at trest
          | cons d' ds' =>
            cases Qs with
            | nil => simp [TableOK] at trest
            | cons Q' Qs' =>
              refine ⟨Q0, d0, by rw [List.getLast?_cons_cons]; exact hQ, by rw [List.getLast?_cons_cons]; exact hd, ?_, ?_, ?_⟩
              · simpa using hI
              · simp only [List.length_append, List.length_cons, List.length_nil] at hdeg ⊢; omega
              · simp only [List.length_append, List.length_cons, List.length_nil] at hco ⊢
                rw [← hco]; congr 1; omega

/-- state of the object after the points `ptsR` (most recent first) -/
structure Inv (ptsR : List (K × K)) (st : St K) : Prop where
  pts : st.ptsR = ptsR.map Prod.fst
  tab : ∃ Qs, TableOK [] ptsR st.ddR Qs ∧ toPoly st.inter = (Qs.getLast?).getD 0
  pi : toPoly st.Pi = prodX (ptsR.tail.map Prod.fst)

theorem inv_init : Inv ([] : List (K × K)) (init : St K) :=
  ⟨rfl, ⟨[], by simp [TableOK, init], by simp [init]⟩, by simp [init, prodX]⟩

theorem natDegree_lt_of_coeff_zero (D : K[X]) (n : Nat) (hn : 1 ≤ n) (h1 : D.natDegree ≤ n) (h2 : D.coeff n = 0) :
    D.natDegree < n := by
  have : D.natDegree ≤ n - 1 := by
    rw [natDegree_le_iff_coeff_eq_zero]
    intro N hN
    by_cases e : N = n
    · rw [e]; exact h2
    · exact coeff_eq_zero_of_natDegree_lt (by omega)
  omega

theorem inv_step (ptsR : List (K × K)) (st : St K) (x f : K) (h : Inv ptsR st) (hx : ∀ p ∈ ptsR, p.1 ≠ x)
    (hd : (ptsR.map Prod.fst).Nodup) : Inv ((x, f) :: ptsR) (step st x f) := by
  obtain ⟨hpts, ⟨Qs, htab, hinter⟩, hpi⟩ := h
  have base : Interp (C f : K[X]) ([] ++ [(x, f)]) := by
    intro q hq
    have : q = (x, f) := by simpa using hq
    subst this; simp
  cases ptsR with
  | nil =>
    have hdd : st.ddR = [] := by
      cases hds : st.ddR with
      | nil => rfl
      | cons d ds => rw [hds] at htab; cases Qs <;> simp [TableOK] at htab
    have hQs : Qs = [] := by
      rw [hdd] at htab
      cases Qs with
      | nil => rfl
      | cons Q Qs => simp [TableOK] at htab
    subst hQs
    unfold step
    rw [hdd]
    simp only [List.isEmpty_nil, if_true]
    refine ⟨by simp [hpts], ⟨[C f], ⟨base, by simp, by simp, trivial⟩, ?_⟩, by simpa using hpi⟩
    rw [toPoly_addin, toPoly_mulVal, hinter, hpi]
    simp [prodX]
  | cons p rest =>
    cases hds : st.ddR with
    | nil => rw [hds] at htab; cases Qs <;> simp [TableOK] at htab
    | cons d ds =>
      have hhead : st.ptsR.headD 0 = p.1 := by rw [hpts]; rfl
      have hPi1 : toPoly (subin (shiftin st.Pi 1) (mulVal st.Pi p.1)) = prodX ((p :: rest).map Prod.fst) := by
        rw [toPoly_subin, toPoly_mulVal]
        unfold shiftin
        rw [toPoly_zeros_append, hpi]
        show _ = (X - C p.1) * prodX (rest.map Prod.fst)
        simp only [List.tail_cons]
        ring
      -- the new table
      have hnew : TableOK [] ((x, f) :: p :: rest) (f :: ddUpdate x f st.ddR st.ptsR)
          (C f :: qUpdate x (C f) Qs st.ptsR) := by
        refine ⟨base, by simp, by simp, ?_⟩
        rw [hpts]
        exact table_update x f (p :: rest) [] st.ddR Qs f (C f) hx htab base (by simp) (by simp)
      obtain ⟨Q1, c, hQ1, hc, hI1, hdeg1, hco1⟩ := table_last _ _ _ _ hnew (by simp)
      obtain ⟨Q0, d0, hQ0, _, hI0, hdeg0, _⟩ := table_last _ _ _ _ htab (by simp)
      simp only [List.length_nil, List.length_cons, Nat.zero_add, List.nil_append] at hdeg1 hco1 hdeg0 hI1 hI0
      unfold step
      rw [hds]
      simp only [List.isEmpty_cons, Bool.false_eq_true, if_false]
      rw [hhead, ← hds]
      refine ⟨by simp [hpts], ⟨_, hnew, ?_⟩, by simpa using hPi1⟩
      rw [toPoly_addin, toPoly_mulVal, hPi1, hinter, hQ0, hQ1, hc]
      simp only [Option.getD_some]
      -- `Q1 - Q0 - Π·c` has degree below the number of old points and vanishes at all of them
      set n := rest.length + 1 with hn
      set Pr := prodX ((p :: rest).map Prod.fst) with hPr
      have hPn : Pr.natDegree = n := by rw [hPr, prodX_natDegree]; simp [hn]
      have hD1 : (Q1 - Q0 - Pr * C c).natDegree ≤ n := by
        have a1 : Q1.natDegree ≤ n := by omega
        have a0 : Q0.natDegree ≤ n := by omega
        have a2 : (Pr * C c).natDegree ≤ n := le_trans (natDegree_mul_C_le Pr c) (le_of_eq hPn)
        have a3 := natDegree_sub_le_of_le (natDegree_sub_le_of_le a1 a0) a2
        rw [max_self, max_self] at a3
        exact a3
      have hD2 : (Q1 - Q0 - Pr * C c).coeff n = 0 := by
        rw [coeff_sub, coeff_sub, coeff_mul_C, coeff_eq_zero_of_natDegree_lt (show Q0.natDegree < n by omega)]
        have hP1 : Pr.coeff n = 1 := by rw [← hPn]; exact (prodX_monic _).coeff_natDegree
        have hc1 : Q1.coeff n = c := by rw [← hco1]; congr 1
        rw [hP1, hc1]; ring
      have hlt := natDegree_lt_of_coeff_zero _ n (by omega) hD1 hD2
      have hzero : Q1 - Q0 - Pr * C c = 0 := by
        apply eq_zero_of_natDegree_lt_card_of_eval_eq_zero' _ ((p :: rest).map Prod.fst).toFinset
        · intro a ha
          rw [List.mem_toFinset] at ha
          obtain ⟨q, hq, rfl⟩ := List.mem_map.mp ha
          rw [eval_sub, eval_sub, eval_mul, hI1 q (List.mem_cons_of_mem _ hq), hI0 q hq, hPr,
            prodX_eval _ _ (List.mem_map.mpr ⟨q, hq, rfl⟩)]
          ring
        · rw [List.toFinset_card_of_nodup hd]
          simpa [hn] using hlt
      have := sub_eq_zero.mp hzero
      rw [sub_eq_iff_eq_add] at this
      rw [this]; ring

theorem inv_run (pts : List (K × K)) (hd : (pts.map Prod.fst).Nodup) : Inv pts.reverse (run pts) := by
  induction pts using List.reverseRecOn with
  | nil => exact inv_init
  | append_singleton l a ih =>
    rw [List.map_append, List.nodup_append] at hd
    obtain ⟨hl, _, hdis⟩ := hd
    have ih := ih hl
    unfold run at ih ⊢
    rw [List.foldl_append, List.reverse_append]
    simp only [List.foldl_cons, List.foldl_nil, List.reverse_cons, List.reverse_nil, List.nil_append,
      List.singleton_append]
    have ha : ∀ p ∈ l.reverse, p.1 ≠ a.1 := by
      intro p hp e
      have hp' : p ∈ l := List.mem_reverse.mp hp
      exact hdis p.1 (List.mem_map.mpr ⟨p, hp', rfl⟩) a.1 (by simp) e
    have hnd : (l.reverse.map Prod.fst).Nodup := by
      rw [List.map_reverse]; exact List.nodup_reverse.mpr hl
    exact inv_step l.reverse _ a.1 a.2 ih ha hnd

/-- Newton interpolation as written returns a polynomial that takes the given values at the given distinct points and has
    fewer coefficients than there are points -/
theorem interpolator_spec (pts : List (K × K)) (hd : (pts.map Prod.fst).Nodup) :
    (∀ p ∈ pts, (toPoly (interpolator pts)).eval p.1 = p.2) ∧
    (toPoly (interpolator pts)).degree < (pts.length : WithBot ℕ) := by
  obtain ⟨_, ⟨Qs, htab, hinter⟩, _⟩ := inv_run pts hd
  unfold interpolator
  by_cases hne : pts = []
  · subst hne
    have : Qs = [] := by
      cases Qs with
      | nil => rfl
      | cons Q Qs => simp [run, init, TableOK] at htab
    subst this
    simp at hinter
    rw [hinter]
    simp
  · obtain ⟨Q0, d0, hQ0, _, hI0, hdeg0, _⟩ := table_last _ _ _ _ htab (by simpa using hne)
    rw [hinter, hQ0]
    simp only [Option.getD_some, List.length_nil, Nat.zero_add, List.nil_append, List.length_reverse] at hdeg0 hI0 ⊢
    refine ⟨fun p hp => hI0 p (List.mem_reverse.mpr hp), ?_⟩
    refine lt_of_le_of_lt degree_le_natDegree ?_
    exact_mod_cast (by omega : Q0.natDegree < pts.length)

theorem natDegree_lt_of_degree_lt' (F : K[X]) (n : Nat) (hn : 1 ≤ n) (h : F.degree < (n : WithBot ℕ)) : F.natDegree < n := by
  by_cases h0 : F = 0
  · subst h0; simp; omega
  · exact (natDegree_lt_iff_degree_lt h0).mpr h

/-- the interpolant is determined by its values and the degree bound -/
theorem interp_unique (pts : List (K × K)) (hd : (pts.map Prod.fst).Nodup) (F G : K[X])
    (hF : ∀ p ∈ pts, F.eval p.1 = p.2) (hG : ∀ p ∈ pts, G.eval p.1 = p.2)
    (dF : F.degree < (pts.length : WithBot ℕ)) (dG : G.degree < (pts.length : WithBot ℕ)) : F = G := by
  by_cases hne : pts = []
  · subst hne
    simp only [List.length_nil, Nat.cast_zero] at dF dG
    rw [degree_eq_bot.mp (Nat.WithBot.lt_zero_iff.mp dF), degree_eq_bot.mp (Nat.WithBot.lt_zero_iff.mp dG)]
  · have hn : 1 ≤ pts.length := List.length_pos_iff.mpr hne
    have nF := natDegree_lt_of_degree_lt' F _ hn dF
    have nG := natDegree_lt_of_degree_lt' G _ hn dG
    rw [← sub_eq_zero]
    apply eq_zero_of_natDegree_lt_card_of_eval_eq_zero' _ (pts.map Prod.fst).toFinset
    · intro a ha
      rw [List.mem_toFinset] at ha
      obtain ⟨q, hq, rfl⟩ := List.mem_map.mp ha
      rw [eval_sub, hF q hq, hG q hq, sub_self]
    · rw [List.toFinset_card_of_nodup hd, List.length_map]
      have := natDegree_sub_le F G
      omega

end Givaro.Lemmas.PolyInterp
