/- C06 helper lemmas: conversions between ruint/rint and built-in words. -/
import GivaroModel.Lemmas.RecIntSignedLemmas
import GivaroModel.Model.RecIntWords
namespace Givaro.Model.RecInt

theorem B64_dvd_Bn : ∀ n : Nat, ∃ k, Bn n = B64 * k
  | 0 => ⟨1, by rw [Bn_zero, Nat.mul_one]⟩
  | n+1 => by obtain ⟨k, hk⟩ := B64_dvd_Bn n; exact ⟨k * Bn n, by rw [Bn_succ]; nth_rewrite 1 [hk]; ring⟩

theorem u_of_signed_nonneg : ∀ (n : Nat) (w : Int), 0 ≤ w → w < B64 → u_of_signed n w = ofLimb n w.toNat
  | 0, w, h0, h1 => by
      have : w % 18446744073709551616 = w := Int.emod_eq_of_lt h0 (by simpa [B64] using h1)
      simp only [u_of_signed, ofLimb, this]
  | n+1, w, h0, h1 => by
      simp only [u_of_signed, ofLimb, if_neg (not_lt.mpr h0), u_of_signed_nonneg n w h0 h1]

/-- `ruint<K>(T b)` for every value of every signed built-in type: the image of `b` modulo `2^bits` -/
theorem u_of_signed_ok : ∀ (n : Nat) (w : Int), -(B64 : Int) ≤ w → w < B64 → WF (u_of_signed n w) ∧ (val (u_of_signed n w) : Int) = w % Bn n
  | 0, w, h0, h1 => by
      have hp : (0 : Int) < 18446744073709551616 := by decide
      have a0 := Int.emod_nonneg w (ne_of_gt hp)
      have a1 := Int.emod_lt_of_pos w hp
      simp only [u_of_signed, WF, val, Bn_zero]
      refine ⟨by simp only [B64]; omega, ?_⟩
      rw [Int.toNat_of_nonneg a0]; rfl
  | n+1, w, h0, h1 => by
      have hle : (B64 : Int) ≤ Bn (n+1) := by exact_mod_cast B64_le_Bn (n+1)
      have hz := val_zero n
      by_cases hneg : w < 0
      · have hm0 : 0 ≤ -(w + 1) := by omega
        have hm1 : -(w + 1) < B64 := by omega
        simp only [u_of_signed, if_pos hneg, u_of_signed_nonneg n _ hm0 hm1]
        obtain ⟨hw, he⟩ := ofLimb_ok n (-(w + 1)).toNat (by omega)
        have hx : WF (RU.node (ofLimb n (-(w + 1)).toNat) (zero n)) := (WF_node _ _).mpr ⟨hw, hz.1⟩
        obtain ⟨hnw, hne⟩ := not_ok _ hx
        refine ⟨hnw, ?_⟩
        rw [val_node, hz.2, Nat.mul_zero, Nat.add_zero, he] at hne
        have hc : (val (not_ (RU.node (ofLimb n (-(w + 1)).toNat) (zero n))) : Int) = w + 1 * Bn (n+1) := by
          have h' := congrArg (fun x : Nat => (x : Int)) hne
          push_cast at h'; omega
        exact int_mod_unique (by omega) (by omega) hc
      · have h0' : 0 ≤ w := by omega
        simp only [u_of_signed, if_neg hneg, u_of_signed_nonneg n w h0' h1]
        obtain ⟨hw, he⟩ := ofLimb_ok n w.toNat (by omega)
        refine ⟨(WF_node _ _).mpr ⟨hw, hz.1⟩, ?_⟩
        rw [val_node, hz.2, Nat.mul_zero, Nat.add_zero, he, Int.toNat_of_nonneg h0']
        exact (Int.emod_eq_of_lt h0' (by omega)).symm

/-- the cast operators read the least significant limb -/
theorem ls_limb_ok : ∀ {n : Nat} (a : RU n), WF a → ls_limb a = val a % B64
  | _, .limb v, h => by simp only [WF] at h; simp only [ls_limb, val]; exact (Nat.mod_eq_of_lt h).symm
  | _, .node (n := n) l h, hw => by
      have il := ls_limb_ok l hw.1
      obtain ⟨k, hk⟩ := B64_dvd_Bn n
      simp only [ls_limb, val_node, il, hk]
      rw [Nat.mul_assoc, Nat.add_mul_mod_self_left]

theorem to_bool_ok : ∀ {n : Nat} (a : RU n), to_bool a = true ↔ val a ≠ 0
  | _, .limb v => by simp [to_bool, val]
  | _, .node (n := n) l h => by
      have hl := isZero_iff l
      have hh := isZero_iff h
      have hB := Bn_pos n
      have hmul : Bn n * val h = 0 ↔ val h = 0 := by
        constructor
        · intro e; rcases Nat.mul_eq_zero.mp e with e | e <;> omega
        · intro e; rw [e, Nat.mul_zero]
      simp only [to_bool, val_node]
      cases el : isZero l <;> cases eh : isZero h <;> rw [el] at hl <;> rw [eh] at hh <;> simp only [Bool.not_true, Bool.not_false,
        Bool.or_true, Bool.true_or, Bool.or_self, Bool.false_eq_true, false_iff, true_iff, ne_eq, not_not]
      · intro e; have : val l = 0 := by omega
        exact absurd (hl.mpr this) (by simp)
      · intro e; have : val l = 0 := by omega
        exact absurd (hl.mpr this) (by simp)
      · intro e; have : val h = 0 := hmul.mp (by omega)
        exact absurd (hh.mpr this) (by simp)
      · rw [hl.mp rfl, hmul.mpr (hh.mp rfl)]

/-! ### double -/
theorem u_of_double_nonneg : ∀ (n : Nat) (w : Int), 0 ≤ w → w < B64 → u_of_double n w = ofLimb n w.toNat
  | 0, w, h0, h1 => by
      have : w % 18446744073709551616 = w := Int.emod_eq_of_lt h0 (by simpa [B64] using h1)
      simp only [u_of_double, ofLimb, this]
  | n+1, w, h0, h1 => by
      simp only [u_of_double, ofLimb, if_neg (not_lt.mpr h0), u_of_double_nonneg n w h0 h1]

/-- `ruint<K>(double b)` for an integer-valued `b`, `|b| < 2^64`: the image of `b` modulo `2^bits` -/
theorem u_of_double_ok : ∀ (n : Nat) (d : Int), -(B64 : Int) < d → d < B64 → WF (u_of_double n d) ∧ (val (u_of_double n d) : Int) = d % Bn n
  | 0, w, h0, h1 => by
      have hp : (0 : Int) < 18446744073709551616 := by decide
      have a0 := Int.emod_nonneg w (ne_of_gt hp)
      have a1 := Int.emod_lt_of_pos w hp
      simp only [u_of_double, WF, val, Bn_zero]
      refine ⟨by simp only [B64]; omega, ?_⟩
      rw [Int.toNat_of_nonneg a0]; rfl
  | n+1, d, h0, h1 => by
      have hle : (B64 : Int) ≤ Bn (n+1) := by exact_mod_cast B64_le_Bn (n+1)
      have hz := val_zero n
      by_cases hneg : d < 0
      · have hm0 : 0 ≤ -d := by omega
        have hm1 : -d < B64 := by omega
        simp only [u_of_double, if_pos hneg, u_of_double_nonneg n _ hm0 hm1]
        obtain ⟨hw, he⟩ := ofLimb_ok n (-d).toNat (by omega)
        have hx : WF (RU.node (ofLimb n (-d).toNat) (zero n)) := (WF_node _ _).mpr ⟨hw, hz.1⟩
        have hv : (val (RU.node (ofLimb n (-d).toNat) (zero n)) : Int) = (-d) % Bn (n+1) := by
          rw [val_node, hz.2, Nat.mul_zero, Nat.add_zero, he, Int.toNat_of_nonneg hm0]
          exact (Int.emod_eq_of_lt hm0 (by omega)).symm
        obtain ⟨hrw, hre⟩ := neg_int _ hx _ hv
        rw [Int.neg_neg] at hre
        exact ⟨hrw, hre⟩
      · have h0' : 0 ≤ d := by omega
        simp only [u_of_double, if_neg hneg, u_of_double_nonneg n d h0' h1]
        obtain ⟨hw, he⟩ := ofLimb_ok n d.toNat (by omega)
        refine ⟨(WF_node _ _).mpr ⟨hw, hz.1⟩, ?_⟩
        rw [val_node, hz.2, Nat.mul_zero, Nat.add_zero, he, Int.toNat_of_nonneg h0']
        exact (Int.emod_eq_of_lt h0' (by omega)).symm

theorem dbl_of_u64_small (v : Nat) (h : v < 9007199254740992) : dbl_of_u64 v = v := by
  unfold dbl_of_u64; rw [if_pos h]

theorem rne_core (q r half p : Nat) (hh : 0 < half) (hp : p = 2 * half) (hr : r < p) :
    ∀ R, R = (if (decide (r > half) || (r == half && q % 2 == 1)) = true then (q + 1) * p else q * p) →
    R % p = 0 ∧ 2 * R ≤ 2 * (p * q + r) + p ∧ 2 * (p * q + r) ≤ 2 * R + p ∧
    ((2 * R = 2 * (p * q + r) + p ∨ 2 * (p * q + r) = 2 * R + p) → (R / p) % 2 = 0) := by
  intro R hR
  have hpq : p * q = q * p := Nat.mul_comm _ _
  have e1 : (q + 1) * p = q * p + p := by ring
  have hp0 : 0 < p := by omega
  by_cases c1 : r > half
  · have hb : (decide (r > half) || (r == half && q % 2 == 1)) = true := by simp [c1]
    rw [if_pos hb] at hR
    subst hR
    refine ⟨Nat.mul_mod_left _ _, by omega, by omega, ?_⟩
    intro hc; exfalso; omega
  · by_cases c2 : r = half
    · by_cases c3 : q % 2 = 1
      · have hb : (decide (r > half) || (r == half && q % 2 == 1)) = true := by simp [c2, c3]
        rw [if_pos hb] at hR
        subst hR
        refine ⟨Nat.mul_mod_left _ _, by omega, by omega, ?_⟩
        intro _; rw [Nat.mul_div_cancel _ hp0]; omega
      · have hb : ¬ (decide (r > half) || (r == half && q % 2 == 1)) = true := by simp [c1, c3]
        rw [if_neg hb] at hR
        subst hR
        refine ⟨Nat.mul_mod_left _ _, by omega, by omega, ?_⟩
        intro _; rw [Nat.mul_div_cancel _ hp0]; omega
    · have hb : ¬ (decide (r > half) || (r == half && q % 2 == 1)) = true := by simp [c1, c2]
      rw [if_neg hb] at hR
      subst hR
      refine ⟨Nat.mul_mod_left _ _, by omega, by omega, ?_⟩
      intro hc; exfalso; omega

/-- round-to-nearest-even, stated on the result: with `p = 2^e` the spacing of doubles at `v ≥ 2^53`, the result is a multiple of `p`
    at distance at most `p/2` from `v`, and in a tie its quotient by `p` is even -/
theorem dbl_of_u64_rne (v : Nat) (h : 9007199254740992 ≤ v) :
    dbl_of_u64 v % 2 ^ (Nat.log2 v - 52) = 0 ∧ 2 * dbl_of_u64 v ≤ 2 * v + 2 ^ (Nat.log2 v - 52) ∧
    2 * v ≤ 2 * dbl_of_u64 v + 2 ^ (Nat.log2 v - 52) ∧
    ((2 * dbl_of_u64 v = 2 * v + 2 ^ (Nat.log2 v - 52) ∨ 2 * v = 2 * dbl_of_u64 v + 2 ^ (Nat.log2 v - 52)) →
      (dbl_of_u64 v / 2 ^ (Nat.log2 v - 52)) % 2 = 0) := by
  have hlog : 53 ≤ Nat.log2 v := by
    have hv : v ≠ 0 := by omega
    rw [Nat.le_log2 hv]; exact h
  have he : Nat.log2 v - 52 = (Nat.log2 v - 52 - 1) + 1 := by omega
  have hp2 : 2 ^ (Nat.log2 v - 52) = 2 * 2 ^ (Nat.log2 v - 52 - 1) := by rw [he, pow_succ]; simp; ring
  have hh : 0 < 2 ^ (Nat.log2 v - 52 - 1) := by positivity
  have hdm := Nat.div_add_mod v (2 ^ (Nat.log2 v - 52))
  have hml : v % 2 ^ (Nat.log2 v - 52) < 2 ^ (Nat.log2 v - 52) := Nat.mod_lt _ (by omega)
  have key := rne_core (v / 2 ^ (Nat.log2 v - 52)) (v % 2 ^ (Nat.log2 v - 52)) (2 ^ (Nat.log2 v - 52 - 1)) (2 ^ (Nat.log2 v - 52)) hh hp2 hml
    (dbl_of_u64 v) (by unfold dbl_of_u64; rw [if_neg (by omega)])
  rw [hdm] at key
  exact key

/-- `(double)a` on `ruint`: only the least significant limb is converted -/
theorem u_to_double_ok {n : Nat} (a : RU n) (ha : WF a) : u_to_double a = dbl_of_u64 (val a % B64) := by
  unfold u_to_double; rw [ls_limb_ok a ha]

theorem u_to_double_exact {n : Nat} (a : RU n) (ha : WF a) (h : val a < 9007199254740992) : u_to_double a = val a := by
  rw [u_to_double_ok a ha, Nat.mod_eq_of_lt (by simp only [B64]; omega), dbl_of_u64_small _ h]

theorem s_to_double_exact {n : Nat} (a : RU n) (ha : WF a) (h0 : -9007199254740992 < sval a) (h1 : sval a < 9007199254740992) :
    s_to_double a = sval a := by
  obtain ⟨a1, a2, a3⟩ := isNegative_iff a ha
  unfold s_to_double
  cases hna : isNegative a <;> simp only [Bool.false_eq_true, ↓reduceIte]
  · have := a3 hna
    rw [u_to_double_exact a ha (by omega)]; exact this
  · obtain ⟨hw, he⟩ := neg_mag a ha hna
    rw [u_to_double_exact (neg a) hw (by omega), he, Int.neg_neg]

end Givaro.Model.RecInt
