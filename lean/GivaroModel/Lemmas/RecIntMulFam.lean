/- C06 helper lemmas: the mutually recursive multiplication family of rumul.h / ruaddmul.h
   (lmul_naive, lmul_kara, lmul, laddmul in its three forms) is exact at every level, for any Karatsuba threshold. -/
import GivaroModel.Lemmas.RecIntBits
namespace Givaro.Model.RecInt

theorem ite_add_1_ok (c : Bool) {n : Nat} (x : RU n) (hx : WF x) :
    AddOk (if c = true then add_1 x else (x, false)) (val x + c2n c) := by
  cases c
  · simp only [Bool.false_eq_true, ↓reduceIte, c2n_false, Nat.add_zero]; exact ⟨hx, by simp⟩
  · simp only [↓reduceIte, c2n_true]; exact add_1_ok x hx

theorem ite_add_ok (c : Bool) {n : Nat} (x y : RU n) (hx : WF x) (hy : WF y) :
    AddOk (if c = true then add x y else (x, false)) (val x + c2n c * val y) := by
  cases c
  · simp only [Bool.false_eq_true, ↓reduceIte, c2n_false, Nat.zero_mul, Nat.add_zero]; exact ⟨hx, by simp⟩
  · simp only [↓reduceIte, c2n_true, Nat.one_mul]; exact add_ok x y hx hy

theorem ite_add_1NC_ok (c : Bool) {n : Nat} (x : RU n) (hx : WF x) :
    ∃ k : Nat, WF (if c = true then (add_1 x).1 else x) ∧
      val (if c = true then (add_1 x).1 else x) + k * Bn n = val x + c2n c := by
  cases c
  · exact ⟨0, by simpa using hx, by simp⟩
  · exact ⟨c2n (add_1 x).2, by simpa using (add_1_ok x hx).1, by simpa using (add_1_ok x hx).2⟩

theorem ite_add_1_hi_ok (c : Bool) {n : Nat} (x : RU (n+1)) (hx : WF x) :
    ∃ k : Nat, WF (if c = true then RU.node (lo x) (add_1 (hi x)).1 else x) ∧
      val (if c = true then RU.node (lo x) (add_1 (hi x)).1 else x) + k * Bn (n+1) = val x + c2n c * Bn n := by
  have hw := (WF_lo_hi x).mp hx
  cases c
  · exact ⟨0, by simpa using hx, by simp⟩
  · have h := add_1_ok (hi x) hw.2
    refine ⟨c2n (add_1 (hi x)).2, by simpa [WF_node] using ⟨hw.1, h.1⟩, ?_⟩
    simp only [↓reduceIte, c2n_true, Nat.one_mul, val_node, Bn_succ]
    rw [val_lo_hi x]
    linear_combination Bn n * h.2

theorem ite_add_l_ok (c : Bool) {n : Nat} (x : RU n) (w : Nat) (hx : WF x) (hw : w < B64) (h0 : c = false → w = 0) :
    ∃ k : Nat, WF (if c = true then (add_l x w).1 else x) ∧
      val (if c = true then (add_l x w).1 else x) + k * Bn n = val x + w := by
  cases c
  · exact ⟨0, by simpa using hx, by simp [h0 rfl]⟩
  · exact ⟨c2n (add_l x w).2, by simpa using (add_l_ok x w hx hw).1, by simpa using (add_l_ok x w hx hw).2⟩

theorem no_carry {x K M p : Nat} (h : x + K * M = p) (hp : p < M) : x = p ∧ K = 0 := by
  have hK : K = 0 := by
    by_contra hne
    have : 1 ≤ K := Nat.one_le_iff_ne_zero.mpr hne
    have : M ≤ K * M := Nat.le_mul_of_pos_left M this
    omega
  subst hK; exact ⟨by omega, rfl⟩

theorem carry_le_one {x S M T : Nat} (h : x + S * M = T) (hT : T < 2 * M) : S ≤ 1 := by
  by_contra hne
  have : 2 ≤ S := by omega
  have : 2 * M ≤ S * M := Nat.mul_le_mul_right M this
  omega

theorem mul_add_lt_sq {b c d M : Nat} (hb : b < M) (hc : c < M) (hd : d < M) : b * c + d < M * M := by
  obtain ⟨M', rfl⟩ : ∃ M', M = M' + 1 := ⟨M - 1, by omega⟩
  have := Nat.mul_le_mul (Nat.lt_succ_iff.mp hb) (Nat.lt_succ_iff.mp hc)
  nlinarith

theorem c2n_or (a b : Bool) (h : c2n a + c2n b ≤ 1) : c2n (a || b) = c2n a + c2n b := by
  cases a <;> cases b <;> simp_all [c2n]
theorem c2n_or_le (a b : Bool) : c2n (a || b) ≤ c2n a + c2n b := by
  cases a <;> cases b <;> simp [c2n]
theorem c2n_and (a b : Bool) : c2n (a && b) = c2n a * c2n b := by
  cases a <;> cases b <;> simp [c2n]

def MulOk {n : Nat} (r : RU n) (p : Nat) : Prop := WF r ∧ val r = p

/-! ### limb level -/
theorem lmul_naive_zero (t : Nat) (b c : RU 0) (hb : WF b) (hc : WF c) : MulOk (lmul_naive t b c) (val b * val c) := by
  cases b with | limb b => cases c with | limb c =>
  simp only [WF] at hb hc
  have h := umul_pp_ok b c hb hc
  simp only [lmul_naive, MulOk, WF_node, WF_limb, val_node, val_limb, Bn_zero]
  exact ⟨⟨h.1, h.2.1⟩, h.2.2⟩

theorem laddmul3_zero (t : Nat) (b c : RU 0) (d : RU 1) (hb : WF b) (hc : WF c) (hd : WF d) :
    AddOk (laddmul3 t b c d) (val b * val c + val d) := by
  cases b with | limb b => cases c with | limb c => cases d with | node dl dh => cases dl with | limb dl => cases dh with | limb dh =>
  simp only [WF] at hb hc hd
  have hp := umul_pp_ok b c hb hc
  have hs := add_ss_val (umul_pp b c).1 (umul_pp b c).2 dh dl
  have hw := (WF_mk1 _).mp hs.2
  have hv := val_mk1 (add_ss (umul_pp b c).1 (umul_pp b c).2 dh dl)
  simp only [laddmul3, AddOk, val_node, val_limb, Bn_succ, Bn_zero]
  refine ⟨hs.2, ?_⟩
  rw [hv] at hs ⊢
  obtain ⟨hs1, -⟩ := hs
  obtain ⟨hp1, hp2, hp3⟩ := hp
  rw [← hp3]
  generalize (add_ss (umul_pp b c).1 (umul_pp b c).2 dh dl).1 = s1 at *
  generalize (add_ss (umul_pp b c).1 (umul_pp b c).2 dh dl).2 = s2 at *
  generalize (umul_pp b c).1 = p1 at *
  generalize (umul_pp b c).2 = p2 at *
  have e : c2n (decide (s1 < dh) || (decide (s1 = dh) && decide (s2 < dl))) = if s2 + B64 * s1 < dl + B64 * dh then 1 else 0 := by
    by_cases h1 : s1 < dh
    · have : s2 + B64 * s1 < dl + B64 * dh := by simp only [B64] at *; omega
      simp [h1, this]
    · by_cases h2 : s1 = dh
      · by_cases h3 : s2 < dl
        · have : s2 + B64 * s1 < dl + B64 * dh := by simp only [B64] at *; omega
          simp [h2, h3, this]
        · have : ¬ s2 + B64 * s1 < dl + B64 * dh := by simp only [B64] at *; omega
          simp [h2, h3, this]
      · have : ¬ s2 + B64 * s1 < dl + B64 * dh := by simp only [B64] at *; omega
        simp [h1, h2, this]
  rw [e]
  split <;> simp only [B64] at * <;> omega

theorem laddmul1_zero (t : Nat) (b c d : RU 0) (hb : WF b) (hc : WF c) (hd : WF d) :
    AddOk (laddmul1 t b c d) (val b * val c + val d) ∧ MulOk (laddmul1NC t b c d) (val b * val c + val d) := by
  cases b with | limb b => cases c with | limb c => cases d with | limb d =>
  simp only [WF] at hb hc hd
  have hp := umul_pp_ok b c hb hc
  have hle : b * c ≤ (B64 - 1) * (B64 - 1) := Nat.mul_le_mul (by omega) (by omega)
  have hs := add_ss_val (umul_pp b c).1 (umul_pp b c).2 0 d
  have hw := (WF_mk1 _).mp hs.2
  have hv := val_mk1 (add_ss (umul_pp b c).1 (umul_pp b c).2 0 d)
  simp only [laddmul1, laddmul1NC, AddOk, MulOk, val_limb, Bn_succ, Bn_zero]
  refine ⟨⟨hs.2, ?_⟩, hs.2, ?_⟩
  all_goals
    rw [hv] at hs ⊢
    obtain ⟨hs1, -⟩ := hs
    obtain ⟨hp1, hp2, hp3⟩ := hp
    rw [← hp3] at hle ⊢
    generalize (add_ss (umul_pp b c).1 (umul_pp b c).2 0 d).1 = s1 at *
    generalize (add_ss (umul_pp b c).1 (umul_pp b c).2 0 d).2 = s2 at *
    generalize (umul_pp b c).1 = p1 at *
    generalize (umul_pp b c).2 = p2 at *
  · have e : (decide (s1 = 0) && decide (s2 < d)) = false := by
      by_cases h1 : s1 = 0
      · have : ¬ s2 < d := by simp only [B64] at *; omega
        simp [h1, this]
      · simp [h1]
    rw [e]; simp only [c2n_false, B64] at *; omega
  · simp only [B64] at *; omega

theorem c2n_or5 (a b c d e : Bool) (h : c2n a + c2n b + c2n c + c2n d + c2n e ≤ 1) :
    c2n (a || b || c || d || e) = c2n a + c2n b + c2n c + c2n d + c2n e := by
  cases a <;> cases b <;> cases c <;> cases d <;> cases e <;> simp_all [c2n]
theorem c2n_or4 (a b c d : Bool) (h : c2n a + c2n b + c2n c + c2n d ≤ 1) :
    c2n (a || b || c || d) = c2n a + c2n b + c2n c + c2n d := by
  cases a <;> cases b <;> cases c <;> cases d <;> simp_all [c2n]

theorem laddmul3_step (t n : Nat)
    (IH3 : ∀ (b c : RU n) (d : RU (n+1)), WF b → WF c → WF d → AddOk (laddmul3 t b c d) (val b * val c + val d))
    (IHL : ∀ b c : RU n, WF b → WF c → MulOk (lmul t b c) (val b * val c))
    (b c : RU (n+1)) (d : RU (n+1+1)) (hb : WF b) (hc : WF c) (hd : WF d) :
    AddOk (laddmul3 t b c d) (val b * val c + val d) := by
  cases b with | node bl bh => cases c with | node cl ch => cases d with | node dl dh =>
  have hvb := val_lt _ hb
  have hvc := val_lt _ hc
  have hvd := val_lt _ hd
  obtain ⟨hbl, hbh⟩ := hb
  obtain ⟨hcl, hch⟩ := hc
  obtain ⟨hdl, hdh⟩ := hd
  simp only [laddmul3]
  have hx := IH3 bl cl dl hbl hcl hdl
  generalize laddmul3 t bl cl dl = x at hx ⊢
  have hb0 := IHL bh cl hbh hcl
  generalize lmul t bh cl = bcmid0 at hb0 ⊢
  have hm := IH3 bl ch bcmid0 hbl hch hb0.1
  generalize laddmul3 t bl ch bcmid0 = m at hm ⊢
  have hh := IH3 bh ch dh hbh hch hdh
  generalize laddmul3 t bh ch dh = h at hh ⊢
  obtain ⟨hxw, hxe⟩ := hx
  obtain ⟨hmw, hme⟩ := hm
  obtain ⟨hhw, hhe⟩ := hh
  have hxw' := (WF_lo_hi _).mp hxw
  have hmw' := (WF_lo_hi _).mp hmw
  have hhw' := (WF_lo_hi _).mp hhw
  have hs := add_ok (hi x.1) (lo m.1) hxw'.2 hmw'.1
  generalize add (hi x.1) (lo m.1) = s at hs ⊢
  have hs2 := add_ok (lo h.1) (hi m.1) hhw'.1 hmw'.2
  generalize add (lo h.1) (hi m.1) = s2 at hs2 ⊢
  obtain ⟨hsw, hse⟩ := hs
  obtain ⟨hs2w, hs2e⟩ := hs2
  have hah0 : WF (RU.node s2.1 (hi h.1)) := ⟨hs2w, hhw'.2⟩
  have ha1 := ite_add_1_ok x.2 (RU.node s2.1 (hi h.1)) hah0
  generalize (if x.2 = true then add_1 (RU.node s2.1 (hi h.1)) else (RU.node s2.1 (hi h.1), false)) = a1 at ha1 ⊢
  obtain ⟨ha1w, ha1e⟩ := ha1
  have ha2 := ite_add_1_ok s.2 a1.1 ha1w
  generalize (if s.2 = true then add_1 a1.1 else (a1.1, false)) = a2 at ha2 ⊢
  obtain ⟨ha2w, ha2e⟩ := ha2
  have ha2w' := (WF_lo_hi _).mp ha2w
  have ha3 := ite_add_1_ok m.2 (hi a2.1) ha2w'.2
  generalize (if m.2 = true then add_1 (hi a2.1) else (hi a2.1, false)) = a3 at ha3 ⊢
  obtain ⟨ha3w, ha3e⟩ := ha3
  have ha4 := ite_add_1_ok s2.2 a3.1 ha3w
  generalize (if s2.2 = true then add_1 a3.1 else (a3.1, false)) = a4 at ha4 ⊢
  obtain ⟨ha4w, ha4e⟩ := ha4
  unfold AddOk
  simp only [WF_node, val_node] at *
  refine ⟨⟨⟨hxw'.1, hsw⟩, ha2w'.1, ha4w⟩, ?_⟩
  rw [val_lo_hi x.1] at hxe
  rw [val_lo_hi m.1] at hme
  rw [val_lo_hi h.1] at hhe
  rw [val_lo_hi a2.1] at ha2e
  rw [hb0.2] at hme
  simp only [Bn_succ] at *
  have hB := Bn_pos n
  generalize Bn n = B at *
  have E : val (lo x.1) + B * val s.1 + B * B * (val (lo a2.1) + B * val a4.1)
        + (c2n a1.2 + c2n a2.2 + c2n a3.2 + c2n a4.2 + c2n h.2) * (B * B * (B * B))
        = (val bl + B * val bh) * (val cl + B * val ch) + (val dl + B * B * val dh) := by
    linear_combination hxe + B * hme + B * B * hhe + B * hse + B * B * hs2e + B * B * ha1e + B * B * ha2e
      + B * B * B * ha3e + B * B * B * ha4e
  have hT := Nat.add_lt_add (Nat.mul_lt_mul'' hvb hvc) hvd
  rw [← Nat.two_mul] at hT
  have hS := carry_le_one E hT
  rw [c2n_or5 _ _ _ _ _ hS]
  exact E

theorem laddmul1_step (t n : Nat)
    (IH3 : ∀ (b c : RU n) (d : RU (n+1)), WF b → WF c → WF d → AddOk (laddmul3 t b c d) (val b * val c + val d))
    (IHL : ∀ b c : RU n, WF b → WF c → MulOk (lmul t b c) (val b * val c))
    (IH1 : ∀ b c d : RU n, WF b → WF c → WF d → AddOk (laddmul1 t b c d) (val b * val c + val d))
    (b c d : RU (n+1)) (hb : WF b) (hc : WF c) (hd : WF d) :
    AddOk (laddmul1 t b c d) (val b * val c + val d) := by
  cases b with | node bl bh => cases c with | node cl ch =>
  have hvb := val_lt _ hb
  have hvc := val_lt _ hc
  have hvd := val_lt _ hd
  obtain ⟨hbl, hbh⟩ := hb
  obtain ⟨hcl, hch⟩ := hc
  simp only [laddmul1]
  have hx := IH3 bl cl d hbl hcl hd
  generalize laddmul3 t bl cl d = x at hx ⊢
  have hb0 := IHL bh cl hbh hcl
  generalize lmul t bh cl = bcmid0 at hb0 ⊢
  have hm := IH3 bl ch bcmid0 hbl hch hb0.1
  generalize laddmul3 t bl ch bcmid0 = m at hm ⊢
  obtain ⟨hxw, hxe⟩ := hx
  obtain ⟨hmw, hme⟩ := hm
  have hxw' := (WF_lo_hi _).mp hxw
  have hmw' := (WF_lo_hi _).mp hmw
  have hh := IH1 bh ch (hi m.1) hbh hch hmw'.2
  generalize laddmul1 t bh ch (hi m.1) = h at hh ⊢
  obtain ⟨hhw, hhe⟩ := hh
  have hs := add_ok (hi x.1) (lo m.1) hxw'.2 hmw'.1
  generalize add (hi x.1) (lo m.1) = s at hs ⊢
  obtain ⟨hsw, hse⟩ := hs
  have ha1 := ite_add_1_ok x.2 h.1 hhw
  generalize (if x.2 = true then add_1 h.1 else (h.1, false)) = a1 at ha1 ⊢
  obtain ⟨ha1w, ha1e⟩ := ha1
  have ha2 := ite_add_1_ok s.2 a1.1 ha1w
  generalize (if s.2 = true then add_1 a1.1 else (a1.1, false)) = a2 at ha2 ⊢
  obtain ⟨ha2w, ha2e⟩ := ha2
  have ha2w' := (WF_lo_hi _).mp ha2w
  have ha3 := ite_add_1_ok m.2 (hi a2.1) ha2w'.2
  generalize (if m.2 = true then add_1 (hi a2.1) else (hi a2.1, false)) = a3 at ha3 ⊢
  obtain ⟨ha3w, ha3e⟩ := ha3
  unfold AddOk
  simp only [WF_node, val_node] at *
  refine ⟨⟨⟨hxw'.1, hsw⟩, ha2w'.1, ha3w⟩, ?_⟩
  rw [val_lo_hi x.1] at hxe
  rw [val_lo_hi m.1] at hme
  rw [val_lo_hi a2.1] at ha2e
  rw [hb0.2] at hme
  simp only [Bn_succ] at *
  have hB := Bn_pos n
  generalize Bn n = B at *
  have E : val (lo x.1) + B * val s.1 + B * B * (val (lo a2.1) + B * val a3.1)
        + (c2n a1.2 + c2n a2.2 + c2n a3.2 + c2n h.2) * (B * B * (B * B))
        = (val bl + B * val bh) * (val cl + B * val ch) + val d := by
    linear_combination hxe + B * hme + B * B * hhe + B * hse + B * B * ha1e + B * B * ha2e + B * B * B * ha3e
  have hT : (val bl + B * val bh) * (val cl + B * val ch) + val d < 2 * (B * B * (B * B)) := by
    have h1 := Nat.mul_lt_mul'' hvb hvc
    have h2 : B * B ≤ B * B * (B * B) := Nat.le_mul_of_pos_right _ (Nat.mul_pos hB hB)
    omega
  have hS := carry_le_one E hT
  rw [c2n_or4 _ _ _ _ hS]
  exact E

theorem laddmul1NC_step (t n : Nat)
    (IH3 : ∀ (b c : RU n) (d : RU (n+1)), WF b → WF c → WF d → AddOk (laddmul3 t b c d) (val b * val c + val d))
    (IHL : ∀ b c : RU n, WF b → WF c → MulOk (lmul t b c) (val b * val c))
    (IH1 : ∀ b c d : RU n, WF b → WF c → WF d → MulOk (laddmul1NC t b c d) (val b * val c + val d))
    (b c d : RU (n+1)) (hb : WF b) (hc : WF c) (hd : WF d) :
    MulOk (laddmul1NC t b c d) (val b * val c + val d) := by
  cases b with | node bl bh => cases c with | node cl ch =>
  have hvb := val_lt _ hb
  have hvc := val_lt _ hc
  have hvd := val_lt _ hd
  obtain ⟨hbl, hbh⟩ := hb
  obtain ⟨hcl, hch⟩ := hc
  simp only [laddmul1NC]
  have hx := IH3 bl cl d hbl hcl hd
  generalize laddmul3 t bl cl d = x at hx ⊢
  have hb0 := IHL bh cl hbh hcl
  generalize lmul t bh cl = bcmid0 at hb0 ⊢
  have hm := IH3 bl ch bcmid0 hbl hch hb0.1
  generalize laddmul3 t bl ch bcmid0 = m at hm ⊢
  obtain ⟨hxw, hxe⟩ := hx
  obtain ⟨hmw, hme⟩ := hm
  have hxw' := (WF_lo_hi _).mp hxw
  have hmw' := (WF_lo_hi _).mp hmw
  have hh := IH1 bh ch (hi m.1) hbh hch hmw'.2
  generalize laddmul1NC t bh ch (hi m.1) = h at hh ⊢
  obtain ⟨hhw, hhe⟩ := hh
  have hs := add_ok (hi x.1) (lo m.1) hxw'.2 hmw'.1
  generalize add (hi x.1) (lo m.1) = s at hs ⊢
  obtain ⟨hsw, hse⟩ := hs
  obtain ⟨k1, ha1w, ha1e⟩ := ite_add_1NC_ok x.2 h hhw
  generalize (if x.2 = true then (add_1 h).1 else h) = a1 at ha1w ha1e ⊢
  obtain ⟨k2, ha2w, ha2e⟩ := ite_add_1NC_ok s.2 a1 ha1w
  generalize (if s.2 = true then (add_1 a1).1 else a1) = a2 at ha2w ha2e ⊢
  have ha2w' := (WF_lo_hi _).mp ha2w
  obtain ⟨k3, ha3w, ha3e⟩ := ite_add_1NC_ok m.2 (hi a2) ha2w'.2
  generalize (if m.2 = true then (add_1 (hi a2)).1 else hi a2) = a3 at ha3w ha3e ⊢
  unfold MulOk
  simp only [WF_node, val_node] at *
  refine ⟨⟨⟨hxw'.1, hsw⟩, ha2w'.1, ha3w⟩, ?_⟩
  rw [val_lo_hi x.1] at hxe
  rw [val_lo_hi m.1] at hme
  rw [val_lo_hi a2] at ha2e
  rw [hb0.2] at hme
  simp only [Bn_succ] at *
  have hB := Bn_pos n
  generalize Bn n = B at *
  have E : val (lo x.1) + B * val s.1 + B * B * (val (lo a2) + B * val a3)
        + (k1 + k2 + k3) * (B * B * (B * B))
        = (val bl + B * val bh) * (val cl + B * val ch) + val d := by
    linear_combination hxe + B * hme + B * B * hhe + B * hse + B * B * ha1e + B * B * ha2e + B * B * B * ha3e
  exact (no_carry E (mul_add_lt_sq hvb hvc hvd)).1

theorem lmul_naive_step (t n : Nat)
    (IH3 : ∀ (b c : RU n) (d : RU (n+1)), WF b → WF c → WF d → AddOk (laddmul3 t b c d) (val b * val c + val d))
    (IHN : ∀ b c : RU n, WF b → WF c → MulOk (lmul_naive t b c) (val b * val c))
    (IH1 : ∀ b c d : RU n, WF b → WF c → WF d → MulOk (laddmul1NC t b c d) (val b * val c + val d))
    (b c : RU (n+1)) (hb : WF b) (hc : WF c) :
    MulOk (lmul_naive t b c) (val b * val c) := by
  cases b with | node bl bh => cases c with | node cl ch =>
  have hvb := val_lt _ hb
  have hvc := val_lt _ hc
  obtain ⟨hbl, hbh⟩ := hb
  obtain ⟨hcl, hch⟩ := hc
  simp only [lmul_naive]
  have hbc := IHN bl cl hbl hcl
  generalize lmul_naive t bl cl = blcl at hbc ⊢
  have hb0 := IHN bh cl hbh hcl
  generalize lmul_naive t bh cl = bcmid0 at hb0 ⊢
  have hm := IH3 bl ch bcmid0 hbl hch hb0.1
  generalize laddmul3 t bl ch bcmid0 = m at hm ⊢
  obtain ⟨hbcw, hbce⟩ := hbc
  obtain ⟨hmw, hme⟩ := hm
  have hbcw' := (WF_lo_hi _).mp hbcw
  have hmw' := (WF_lo_hi _).mp hmw
  have hh := IH1 bh ch (hi m.1) hbh hch hmw'.2
  generalize laddmul1NC t bh ch (hi m.1) = ah0 at hh ⊢
  obtain ⟨hhw, hhe⟩ := hh
  have hs := add_ok (hi blcl) (lo m.1) hbcw'.2 hmw'.1
  generalize add (hi blcl) (lo m.1) = s at hs ⊢
  obtain ⟨hsw, hse⟩ := hs
  obtain ⟨k1, ha1w, ha1e⟩ := ite_add_1NC_ok s.2 ah0 hhw
  generalize (if s.2 = true then (add_1 ah0).1 else ah0) = ah1 at ha1w ha1e ⊢
  obtain ⟨k2, ha2w, ha2e⟩ := ite_add_1_hi_ok m.2 ah1 ha1w
  generalize (if m.2 = true then RU.node (lo ah1) (add_1 (hi ah1)).1 else ah1) = ah2 at ha2w ha2e ⊢
  unfold MulOk
  simp only [WF_node, val_node] at *
  refine ⟨⟨⟨hbcw'.1, hsw⟩, ha2w⟩, ?_⟩
  rw [val_lo_hi blcl] at hbce
  rw [val_lo_hi m.1] at hme
  rw [hb0.2] at hme
  simp only [Bn_succ] at *
  have hB := Bn_pos n
  generalize Bn n = B at *
  have E : val (lo blcl) + B * val s.1 + B * B * val ah2 + (k1 + k2) * (B * B * (B * B))
        = (val bl + B * val bh) * (val cl + B * val ch) := by
    linear_combination hbce + B * hme + B * B * hhe + B * hse + B * B * ha1e + B * B * ha2e
  exact (no_carry E (Nat.mul_lt_mul'' hvb hvc)).1

/-- the Karatsuba middle-term correction `r = (rb&rc)+rt1+rt2-rt3-rt4` is 0 or 1, and stored in a `bool` it is exact -/
theorem kara_r (B2 D4 mid : Nat) (rbc rt1 rt2 rt3 rt4 : Bool) (hD : D4 < B2) (hm : mid < 2 * B2)
    (E : D4 + (c2n rbc + c2n rt1 + c2n rt2) * B2 = mid + (c2n rt3 + c2n rt4) * B2) :
    D4 + c2n (decide (((if rbc = true then 1 else 0) + (if rt1 = true then 1 else 0) + (if rt2 = true then 1 else 0)
          - (if rt3 = true then 1 else 0) - (if rt4 = true then 1 else 0) : Int) ≠ 0)) * B2 = mid := by
  cases rbc <;> cases rt1 <;> cases rt2 <;> cases rt3 <;> cases rt4 <;> simp [c2n] at E ⊢ <;> omega

theorem lmul_kara_step (t n : Nat)
    (IHL : ∀ b c : RU n, WF b → WF c → MulOk (lmul t b c) (val b * val c))
    (b c : RU (n+1)) (hb : WF b) (hc : WF c) :
    MulOk (lmul_kara t b c) (val b * val c) := by
  cases b with | node bl bh => cases c with | node cl ch =>
  have hvb := val_lt _ hb
  have hvc := val_lt _ hc
  obtain ⟨hbl, hbh⟩ := hb
  obtain ⟨hcl, hch⟩ := hc
  have hvbl := val_lt _ hbl
  have hvbh := val_lt _ hbh
  have hvcl := val_lt _ hcl
  have hvch := val_lt _ hch
  simp only [lmul_kara]
  have hbb := add_ok bh bl hbh hbl
  generalize add bh bl = bb at hbb ⊢
  have hcc := add_ok ch cl hch hcl
  generalize add ch cl = cc at hcc ⊢
  obtain ⟨hbbw, hbbe⟩ := hbb
  obtain ⟨hccw, hcce⟩ := hcc
  have hah := IHL bh ch hbh hch
  generalize lmul t bh ch = ah at hah ⊢
  have hal := IHL bl cl hbl hcl
  generalize lmul t bl cl = al at hal ⊢
  have hbc0 := IHL bb.1 cc.1 hbbw hccw
  generalize lmul t bb.1 cc.1 = bc0 at hbc0 ⊢
  obtain ⟨hahw, hahe⟩ := hah
  obtain ⟨halw, hale⟩ := hal
  obtain ⟨hbc0w, hbc0e⟩ := hbc0
  have hbc0w' := (WF_lo_hi _).mp hbc0w
  have halw' := (WF_lo_hi _).mp halw
  have hs1 := ite_add_ok bb.2 (hi bc0) cc.1 hbc0w'.2 hccw
  generalize (if bb.2 = true then add (hi bc0) cc.1 else (hi bc0, false)) = s1 at hs1 ⊢
  obtain ⟨hs1w, hs1e⟩ := hs1
  have hs2 := ite_add_ok cc.2 s1.1 bb.1 hs1w hbbw
  generalize (if cc.2 = true then add s1.1 bb.1 else (s1.1, false)) = s2 at hs2 ⊢
  obtain ⟨hs2w, hs2e⟩ := hs2
  have hbc1w : WF (RU.node (lo bc0) s2.1) := ⟨hbc0w'.1, hs2w⟩
  have hd3 := sub_ok (RU.node (lo bc0) s2.1) ah hbc1w hahw
  generalize sub (RU.node (lo bc0) s2.1) ah = d3 at hd3 ⊢
  obtain ⟨hd3w, hd3e⟩ := hd3
  have hd4 := sub_ok d3.1 al hd3w halw
  generalize sub d3.1 al = d4 at hd4 ⊢
  obtain ⟨hd4w, hd4e⟩ := hd4
  have hd4w' := (WF_lo_hi _).mp hd4w
  have hvd4 := val_lt _ hd4w
  -- the bool r
  have KR : val d4.1 + c2n (decide (((if (bb.2 && cc.2) = true then 1 else 0) + (if s1.2 = true then 1 else 0) + (if s2.2 = true then 1 else 0)
          - (if d3.2 = true then 1 else 0) - (if d4.2 = true then 1 else 0) : Int) ≠ 0)) * Bn (n+1)
        = val bh * val cl + val bl * val ch := by
    apply kara_r _ _ _ _ _ _ _ _ hvd4
    · rw [Bn_succ]
      have h1 := Nat.mul_lt_mul'' hvbh hvcl
      have h2 := Nat.mul_lt_mul'' hvbl hvch
      omega
    · rw [c2n_and]
      simp only [val_node, Bn_succ] at *
      rw [val_lo_hi bc0] at hbc0e
      generalize Bn n = B at *
      linear_combination hd4e + hd3e + B * hs2e + B * hs1e + hbc0e + hahe.symm + hale.symm
        + (val cc.1 + c2n cc.2 * B) * hbbe + (val bh + val bl) * hcce
  generalize decide (((if (bb.2 && cc.2) = true then 1 else 0) + (if s1.2 = true then 1 else 0) + (if s2.2 = true then 1 else 0)
          - (if d3.2 = true then 1 else 0) - (if d4.2 = true then 1 else 0) : Int) ≠ 0) = r at KR ⊢
  have hs5 := add_ok (hi al) (lo d4.1) halw'.2 hd4w'.1
  generalize add (hi al) (lo d4.1) = s5 at hs5 ⊢
  obtain ⟨hs5w, hs5e⟩ := hs5
  obtain ⟨k1, ha1w, ha1e⟩ := ite_add_1NC_ok s5.2 ah hahw
  generalize (if s5.2 = true then (add_1 ah).1 else ah) = ah1 at ha1w ha1e ⊢
  have ha1w' := (WF_lo_hi _).mp ha1w
  have hs6 := add_ok (lo ah1) (hi d4.1) ha1w'.1 hd4w'.2
  generalize add (lo ah1) (hi d4.1) = s6 at hs6 ⊢
  obtain ⟨hs6w, hs6e⟩ := hs6
  have hw : ((if s6.2 = true then 1 else 0) + (if r = true then 1 else 0) : Nat) < B64 := by
    have h1 : (if s6.2 = true then 1 else 0 : Nat) ≤ 1 := by split <;> omega
    have h2 : (if r = true then 1 else 0 : Nat) ≤ 1 := by split <;> omega
    simp only [B64]; omega
  have h0 : (s6.2 || r) = false → ((if s6.2 = true then 1 else 0) + (if r = true then 1 else 0) : Nat) = 0 := by
    intro h; simp only [Bool.or_eq_false_iff] at h; simp [h.1, h.2]
  obtain ⟨k2, haHw, haHe⟩ := ite_add_l_ok (s6.2 || r) (hi ah1) _ ha1w'.2 hw h0
  generalize (if (s6.2 || r) = true then (add_l (hi ah1) ((if s6.2 = true then 1 else 0) + (if r = true then 1 else 0))).1 else hi ah1) = ahH at haHw haHe ⊢
  unfold MulOk
  simp only [WF_node, val_node] at *
  refine ⟨⟨⟨halw'.1, hs5w⟩, hs6w, haHw⟩, ?_⟩
  have e1 : (if s6.2 = true then 1 else 0 : Nat) = c2n s6.2 := rfl
  have e2 : (if r = true then 1 else 0 : Nat) = c2n r := rfl
  rw [e1, e2] at haHe
  rw [val_lo_hi al] at hale
  rw [val_lo_hi ah1] at ha1e
  rw [val_lo_hi d4.1] at KR
  simp only [Bn_succ] at *
  generalize Bn n = B at *
  have E : val (lo al) + B * val s5.1 + B * B * (val s6.1 + B * val ahH) + (k1 + k2) * (B * B * (B * B))
        = (val bl + B * val bh) * (val cl + B * val ch) := by
    linear_combination B * hs5e + B * B * hs6e + B * B * B * haHe + B * B * ha1e + B * KR + hale + B * B * hahe
  exact (no_carry E (Nat.mul_lt_mul'' hvb hvc)).1

/-- the whole multiplication family, one statement per level (any Karatsuba threshold `t`) -/
theorem mul_family (t : Nat) : ∀ n : Nat,
    (∀ b c : RU n, WF b → WF c → MulOk (lmul_naive t b c) (val b * val c)) ∧
    (∀ b c : RU n, WF b → WF c → MulOk (lmul_kara t b c) (val b * val c)) ∧
    (∀ b c : RU n, WF b → WF c → MulOk (lmul t b c) (val b * val c)) ∧
    (∀ b c d : RU n, WF b → WF c → WF d → AddOk (laddmul1 t b c d) (val b * val c + val d)) ∧
    (∀ b c d : RU n, WF b → WF c → WF d → MulOk (laddmul1NC t b c d) (val b * val c + val d)) ∧
    (∀ (b c : RU n) (d : RU (n+1)), WF b → WF c → WF d → AddOk (laddmul3 t b c d) (val b * val c + val d))
  | 0 => by
      refine ⟨lmul_naive_zero t, ?_, ?_, fun b c d hb hc hd => (laddmul1_zero t b c d hb hc hd).1,
        fun b c d hb hc hd => (laddmul1_zero t b c d hb hc hd).2, laddmul3_zero t⟩
      · intro b c hb hc; simp only [lmul_kara]; exact lmul_naive_zero t b c hb hc
      · intro b c hb hc; simp only [lmul]; exact lmul_naive_zero t b c hb hc
  | n+1 => by
      obtain ⟨hN, hK, hL, h1, h1nc, h3⟩ := mul_family t n
      have hN' := lmul_naive_step t n h3 hN h1nc
      have hK' := lmul_kara_step t n hL
      refine ⟨hN', hK', ?_, laddmul1_step t n h3 hL h1, laddmul1NC_step t n h3 hL h1nc, laddmul3_step t n h3 hL⟩
      intro b c hb hc
      simp only [lmul]
      split
      · exact hN' b c hb hc
      · exact hK' b c hb hc

theorem lmul_ok (t : Nat) {n : Nat} (b c : RU n) (hb : WF b) (hc : WF c) : MulOk (lmul t b c) (val b * val c) :=
  (mul_family t n).2.2.1 b c hb hc


end Givaro.Model.RecInt
