/- C06 helper lemmas: ruadd.h / rusub.h families are exact (value and carry/borrow), for every level. -/
import GivaroModel.Lemmas.RecIntBasic
namespace Givaro.Model.RecInt

/-! ### longlong.h contracts at the value level -/
theorem add_ss_val (ah al bh bl : Nat) :
    val (mk1 (add_ss ah al bh bl)) = (al + B64 * ah + bl + B64 * bh) % (B64 * B64) ∧ WF (mk1 (add_ss ah al bh bl)) := by
  rw [val_mk1, WF_mk1]; simp only [add_ss, B64]; omega
theorem sub_dd_val (ah al bh bl : Nat) :
    val (mk1 (sub_dd ah al bh bl)) = (al + B64 * ah + B64 * B64 - (bl + B64 * bh)) % (B64 * B64) ∧ WF (mk1 (sub_dd ah al bh bl)) := by
  rw [val_mk1, WF_mk1]; simp only [sub_dd, B64]; omega

theorem mk1_eta (bl bh : Nat) : (RU.node (.limb bl) (.limb bh) : RU 1) = mk1 (bh, bl) := rfl
theorem val_pair (bl bh : Nat) : val (mk1 (bh, bl)) = bl + B64 * bh := by rw [val_mk1]
theorem pair_lt (bl bh : Nat) (h1 : bl < B64) (h2 : bh < B64) : bl + B64 * bh < B64 * B64 := by simp only [B64] at *; omega

/-- the statement every carry-producing addition satisfies -/
def AddOk {n : Nat} (r : RU n × Bool) (s : Nat) : Prop := WF r.1 ∧ val r.1 + c2n r.2 * Bn n = s

theorem add_wc_ok : ∀ {n : Nat} (b c : RU n) (cy : Bool), WF b → WF c →
    AddOk (add_wc b c cy) (val b + val c + c2n cy)
  | 0, .limb b, .limb c, cy, hb, hc => by
      simp only [WF] at hb hc
      unfold AddOk; rw [Bn_zero]
      cases cy <;> simp only [add_wc, val, WF, c2n_decide, c2n_true, c2n_false, ↓reduceIte, Bool.false_eq_true] <;>
        (refine ⟨by simp only [B64] at *; omega, ?_⟩; split <;> simp only [B64] at * <;> omega)
  | 1, .node (.limb bl) (.limb bh), .node (.limb cl) (.limb ch), cy, hb, hc => by
      simp only [WF] at hb hc
      have hx := pair_lt bl bh hb.1 hb.2
      have hy := pair_lt cl ch hc.1 hc.2
      have hs := add_ss_val bh bl ch cl
      have hs' := add_ss_val (add_ss bh bl ch cl).1 (add_ss bh bl ch cl).2 0 1
      have hbp : WF (mk1 (bh, bl)) := by rw [WF_mk1]; exact hb
      have e1 : (add_ss bh bl ch cl).2 + B64 * (add_ss bh bl ch cl).1 = val (mk1 (add_ss bh bl ch cl)) := by rw [val_mk1]
      unfold AddOk; rw [Bn_one]
      simp only [val_node, val_limb, Bn_zero]
      cases cy <;> simp only [add_wc, c2n_decide, c2n_true, c2n_false, ↓reduceIte, Bool.false_eq_true]
      · simp only [cmp_lt _ _ hs.2 hbp, val_pair]
        refine ⟨hs.2, ?_⟩
        obtain ⟨hs1, -⟩ := hs
        generalize val (mk1 (add_ss bh bl ch cl)) = s at *
        by_cases h : s < bl + B64 * bh <;> simp only [h, ↓reduceIte] <;> simp only [B64] at * <;> omega
      · simp only [cmp_le _ _ hs'.2 hbp, val_pair]
        refine ⟨hs'.2, ?_⟩
        rw [e1] at hs'
        generalize val (mk1 (add_ss (add_ss bh bl ch cl).1 (add_ss bh bl ch cl).2 0 1)) = s' at *
        generalize val (mk1 (add_ss bh bl ch cl)) = s at *
        obtain ⟨hs1, -⟩ := hs
        obtain ⟨hs1', -⟩ := hs'
        by_cases h : s' ≤ bl + B64 * bh <;> simp only [h, ↓reduceIte] <;> simp only [B64] at * <;> omega
  | n+2, .node bl bh, .node cl ch, cy, hb, hc => by
      have h1 := add_wc_ok bl cl cy hb.1 hc.1
      have h2 := add_wc_ok bh ch (add_wc bl cl cy).2 hb.2 hc.2
      unfold AddOk at *
      simp only [add_wc, val_node, WF_node]
      refine ⟨⟨h1.1, h2.1⟩, ?_⟩
      rw [Bn_succ (n+1)]
      linear_combination h1.2 + Bn (n+1) * h2.2

theorem AddOk.exact {n : Nat} {r : RU n × Bool} {s : Nat} (h : AddOk r s) :
    val r.1 = s % Bn n ∧ c2n r.2 = s / Bn n := by
  obtain ⟨hw, he⟩ := h
  have h1 := val_lt _ hw
  have hB := Bn_pos n
  subst he
  constructor
  · rw [Nat.add_mul_mod_self_right, Nat.mod_eq_of_lt h1]
  · rw [Nat.add_mul_div_right _ _ hB, Nat.div_eq_of_lt h1, Nat.zero_add]

theorem isZero_iff : ∀ {n : Nat} (a : RU n), isZero a = true ↔ val a = 0
  | _, .limb a => by simp [isZero, val]
  | _, .node (n := n) l h => by
      have hB := Bn_pos n
      simp only [isZero, val, Bool.and_eq_true, isZero_iff l, isZero_iff h]
      constructor
      · rintro ⟨h1, h2⟩; rw [h1, h2]; simp
      · intro h0
        have : Bn n * val h = 0 := by omega
        rcases Nat.mul_eq_zero.mp this with h' | h'
        · omega
        · exact ⟨h', by omega⟩

theorem cmp_l_lt : ∀ {n : Nat} (a : RU n) (c : Nat), WF a → c < B64 → (cmp_l a c < 0 ↔ val a < c)
  | _, .limb a, c, _, _ => by
      simp only [cmp_l, val]; split
      · simp [*]
      · split <;> constructor <;> intro h <;> omega
  | _, .node (n := n) l h, c, hw, hc => by
      have hB : B64 ≤ Bn n := by
        clear hw l h
        induction n with
        | zero => rw [Bn_zero]
        | succ k ih => rw [Bn_succ]; have := Bn_pos k; nlinarith
      simp only [cmp_l, val]
      by_cases hz : isZero h = true
      · rw [if_pos hz, cmp_l_lt l c hw.1 hc, (isZero_iff h).mp hz]; simp
      · rw [if_neg hz]
        have : val h ≠ 0 := fun e => hz ((isZero_iff h).mpr e)
        have : 1 ≤ val h := by omega
        constructor
        · intro h'; omega
        · intro h'; exfalso; nlinarith

theorem add_ok : ∀ {n : Nat} (b c : RU n), WF b → WF c → AddOk (add b c) (val b + val c)
  | 0, .limb b, .limb c, hb, hc => by
      simp only [WF] at hb hc
      unfold AddOk; rw [Bn_zero]
      simp only [add, val, WF, c2n_decide]
      refine ⟨by simp only [B64] at *; omega, ?_⟩; split <;> simp only [B64] at * <;> omega
  | 1, .node (.limb bl) (.limb bh), .node (.limb cl) (.limb ch), hb, hc => by
      simp only [WF] at hb hc
      have hx := pair_lt bl bh hb.1 hb.2
      have hy := pair_lt cl ch hc.1 hc.2
      have hs := add_ss_val bh bl ch cl
      have hbp : WF (mk1 (bh, bl)) := by rw [WF_mk1]; exact hb
      unfold AddOk; rw [Bn_one]
      simp only [val_node, val_limb, Bn_zero, add, c2n_decide]
      simp only [cmp_lt _ _ hs.2 hbp, val_pair]
      refine ⟨hs.2, ?_⟩
      obtain ⟨hs1, -⟩ := hs
      generalize val (mk1 (add_ss bh bl ch cl)) = s at *
      by_cases h : s < bl + B64 * bh <;> simp only [h, ↓reduceIte] <;> simp only [B64] at * <;> omega
  | n+2, .node bl bh, .node cl ch, hb, hc => by
      have h1 := add_ok bl cl hb.1 hc.1
      have h2 := add_wc_ok bh ch (add bl cl).2 hb.2 hc.2
      unfold AddOk at *
      simp only [add, val_node, WF_node]
      refine ⟨⟨h1.1, h2.1⟩, ?_⟩
      rw [Bn_succ (n+1)]
      linear_combination h1.2 + Bn (n+1) * h2.2

theorem add_l_ok : ∀ {n : Nat} (b : RU n) (c : Nat), WF b → c < B64 → AddOk (add_l b c) (val b + c)
  | 0, .limb b, c, hb, hc => by
      simp only [WF] at hb
      unfold AddOk; rw [Bn_zero]
      simp only [add_l, val, WF, c2n_decide]
      refine ⟨by simp only [B64] at *; omega, ?_⟩; split <;> simp only [B64] at * <;> omega
  | 1, .node (.limb bl) (.limb bh), c, hb, hc => by
      simp only [WF] at hb
      have hx := pair_lt bl bh hb.1 hb.2
      have hs := add_ss_val bh bl 0 c
      unfold AddOk; rw [Bn_one]
      simp only [val_node, val_limb, Bn_zero, add_l, c2n_decide]
      simp only [cmp_l_lt _ _ hs.2 hc]
      refine ⟨hs.2, ?_⟩
      obtain ⟨hs1, -⟩ := hs
      generalize val (mk1 (add_ss bh bl 0 c)) = s at *
      by_cases h : s < c <;> simp only [h, ↓reduceIte] <;> simp only [B64] at * <;> omega
  | n+2, .node bl bh, c, hb, hc => by
      have h1 := add_l_ok bl c hb.1 hc
      have hc2 : c2n (add_l bl c).2 < B64 := by have := c2n_le (add_l bl c).2; simp only [B64]; omega
      have h2 := add_l_ok bh (c2n (add_l bl c).2) hb.2 hc2
      unfold AddOk at *
      simp only [add_l, val_node, WF_node]
      refine ⟨⟨h1.1, h2.1⟩, ?_⟩
      rw [Bn_succ (n+1)]
      have e : (if (add_l bl c).2 = true then 1 else 0) = c2n (add_l bl c).2 := rfl
      rw [e]
      linear_combination h1.2 + Bn (n+1) * h2.2

theorem add_1_ok : ∀ {n : Nat} (b : RU n), WF b → AddOk (add_1 b) (val b + 1)
  | 0, .limb b, hb => by
      simp only [WF] at hb
      unfold AddOk; rw [Bn_zero]
      simp only [add_1, val, WF, c2n_decide]
      refine ⟨by simp only [B64] at *; omega, ?_⟩; split <;> simp only [B64] at * <;> omega
  | 1, .node (.limb bl) (.limb bh), hb => by
      simp only [WF] at hb
      have hx := pair_lt bl bh hb.1 hb.2
      have hs := add_ss_val bh bl 0 1
      unfold AddOk; rw [Bn_one]
      simp only [val_node, val_limb, Bn_zero, add_1]
      refine ⟨hs.2, ?_⟩
      have hz := isZero_iff (mk1 (add_ss bh bl 0 1))
      obtain ⟨hs1, -⟩ := hs
      generalize val (mk1 (add_ss bh bl 0 1)) = s at *
      cases hzz : isZero (mk1 (add_ss bh bl 0 1))
      · have : s ≠ 0 := fun e => by rw [hzz] at hz; exact absurd (hz.mpr e) (by simp)
        simp only [c2n_false]; simp only [B64] at *; omega
      · have : s = 0 := hz.mp hzz
        simp only [c2n_true]; simp only [B64] at *; omega
  | n+2, .node bl bh, hb => by
      have h1 := add_1_ok bl hb.1
      have hc2 : c2n (add_1 bl).2 < B64 := by have := c2n_le (add_1 bl).2; simp only [B64]; omega
      have h2 := add_l_ok bh (c2n (add_1 bl).2) hb.2 hc2
      unfold AddOk at *
      simp only [add_1, val_node, WF_node]
      refine ⟨⟨h1.1, h2.1⟩, ?_⟩
      rw [Bn_succ (n+1)]
      have e : (if (add_1 bl).2 = true then 1 else 0) = c2n (add_1 bl).2 := rfl
      rw [e]
      linear_combination h1.2 + Bn (n+1) * h2.2

theorem add_wcNC_eq : ∀ {n : Nat} (b c : RU n) (cy : Bool), WF b → WF c → add_wcNC b c cy = (add_wc b c cy).1
  | 0, .limb b, .limb c, cy, hb, hc => by
      simp only [WF] at hb hc
      cases cy <;> simp only [add_wcNC, add_wc, ↓reduceIte, Bool.false_eq_true] <;> congr 1 <;> simp only [B64] at * <;> omega
  | 1, .node (.limb bl) (.limb bh), .node (.limb cl) (.limb ch), cy, _, _ => by
      cases cy <;> simp [add_wcNC, add_wc]
  | n+2, .node bl bh, .node cl ch, cy, hb, hc => by
      simp only [add_wcNC, add_wc, add_wcNC_eq bh ch _ hb.2 hc.2]

theorem addNC_eq : ∀ {n : Nat} (b c : RU n), WF b → WF c → addNC b c = (add b c).1
  | 0, .limb b, .limb c, _, _ => by simp [addNC, add]
  | 1, .node (.limb bl) (.limb bh), .node (.limb cl) (.limb ch), _, _ => by simp [addNC, add]
  | n+2, .node bl bh, .node cl ch, hb, hc => by
      simp only [addNC, add, add_wcNC_eq bh ch _ hb.2 hc.2]

end Givaro.Model.RecInt
