/-
C12 — `IntPrimeDom::isprimepower` (model: Model/PrimesPower.lean) decides "proper prime power" for every input, for every
primality test and every `mpz_root` meeting their contracts.  Loop invariants of the three scans (powers of two, the table of
small primes, the prime exponents `nth`), the fuel bound of the unbounded `for (nth = 2;; ++nth)` (Bertrand), the recursion
of fixes/C12_4.
-/
import GivaroModel.Model.PrimesPower
import GivaroModel.Spec.PrimesSpec
import GivaroModel.Lemmas.PrimesLemmas
import Mathlib.Data.Nat.Prime.Basic
import Mathlib.Algebra.IsPrimePow
import Mathlib.Data.Nat.Factorization.PrimePow
import Mathlib.NumberTheory.Bertrand
import Mathlib.Tactic.Linarith
import Mathlib.Tactic.Ring
namespace Givaro.Lemmas.Primes
open Givaro Givaro.Model.Primes

theorem isPrimeDec_iff_prime (n : Nat) : Givaro.Spec.Primes.isPrimeDec n = true ↔ Nat.Prime n := by
  unfold Givaro.Spec.Primes.isPrimeDec
  rw [Bool.and_eq_true, decide_eq_true_eq, Nat.prime_def_le_sqrt]
  constructor
  · rintro ⟨h2, h⟩
    refine ⟨h2, fun m hm hms => ?_⟩
    exact (noDivFrom_iff n n 2 (Nat.le_refl 2) (by omega)).1 h m hm (Nat.le_sqrt.1 hms)
  · rintro ⟨h2, h⟩
    refine ⟨h2, (noDivFrom_iff n n 2 (Nat.le_refl 2) (by omega)).2 fun k hk hkk => h k hk (Nat.le_sqrt.2 hkk)⟩


/-- `u = p^k` for a prime `p` and `k ≥ 2` -/
def ProperPP (u : Nat) : Prop := ∃ p k, Nat.Prime p ∧ 2 ≤ k ∧ p ^ k = u

/-- contract of `mpz_root`: floor of the k-th root -/
def RootOK (root : Nat → Nat → Nat) : Prop := ∀ u k, 1 ≤ k → root u k ^ k ≤ u ∧ u < (root u k + 1) ^ k

/-- what `isprimepower` must return on `u` -/
def PPSpec (u : Nat) (r : Nat × Nat) : Prop :=
  (0 < r.1 → Nat.Prime r.2 ∧ 2 ≤ r.1 ∧ r.2 ^ r.1 = u) ∧ (r.1 = 0 → ¬ ProperPP u)

theorem prime_eq_of_dvd_pow {p r k : Nat} (hp : Nat.Prime p) (hr : Nat.Prime r) (h : p ∣ r ^ k) : p = r :=
  (Nat.prime_dvd_prime_iff_eq hp hr).1 (hp.dvd_of_dvd_pow h)

theorem ppspec_zero {u : Nat} {q : Nat} (h : ¬ ProperPP u) : PPSpec u (0, q) :=
  ⟨fun h0 => absurd h0 (by simp), fun _ => h⟩

theorem ppspec_pos {u e q : Nat} (hq : Nat.Prime q) (he : 2 ≤ e) (h : q ^ e = u) : PPSpec u (e, q) :=
  ⟨fun _ => ⟨hq, he, h⟩, fun h0 => by simp at h0; omega⟩

theorem twoLoop_spec : ∀ (fuel t n2 : Nat), 0 < t → t < fuel →
    ∃ t' k, twoLoop fuel t n2 = (t', n2 + k) ∧ t' * 2 ^ k = t ∧ t' % 2 = 1 := by
  intro fuel
  induction fuel with
  | zero => intro t n2 h1 h2; omega
  | succ f ih =>
    intro t n2 h1 h2
    unfold twoLoop
    by_cases hodd : t % 2 = 1
    · exact ⟨t, 0, by simp [hodd], by simp, hodd⟩
    · simp only [hodd, ↓reduceIte]
      obtain ⟨t', k, e1, e2, e3⟩ := ih (t / 2) (n2 + 1) (by omega) (by omega)
      refine ⟨t', k + 1, ?_, ?_, e3⟩
      · rw [e1]; congr 1; omega
      · rw [pow_succ, ← Nat.mul_assoc, e2]; omega

theorem multLoop_spec (p : Nat) (hp : 2 ≤ p) : ∀ (fuel u2 n : Nat), 0 < u2 → u2 < fuel →
    ∃ u' k, multLoop p fuel u2 n = (u', n + k) ∧ u' * p ^ k = u2 ∧ ¬ p ∣ u' ∧ 0 < u' := by
  intro fuel
  induction fuel with
  | zero => intro u2 n h1 h2; omega
  | succ f ih =>
    intro u2 n h1 h2
    unfold multLoop
    by_cases hd : u2 % p = 0
    · simp only [hd, ne_eq, not_true_eq_false, ↓reduceIte]
      have hdvd : p ∣ u2 := Nat.dvd_of_mod_eq_zero hd
      have hq : p * (u2 / p) = u2 := Nat.mul_div_cancel' hdvd
      have hq1 : 0 < u2 / p := Nat.div_pos (Nat.le_of_dvd h1 hdvd) (by omega)
      have hlt : u2 / p < f := by
        have : u2 / p < u2 := Nat.div_lt_self h1 (by omega)
        omega
      obtain ⟨u', k, e1, e2, e3, e4⟩ := ih (u2 / p) (n + 1) hq1 hlt
      refine ⟨u', k + 1, ?_, ?_, e3, e4⟩
      · rw [e1]; congr 1; omega
      · rw [pow_succ, ← Nat.mul_assoc, e2, Nat.mul_comm]; exact hq
    · simp only [hd, ne_eq, not_false_eq_true, ↓reduceIte]
      exact ⟨u2, 0, by simp, by simp, fun h => hd (Nat.mod_eq_zero_of_dvd h), h1⟩

theorem not_pp_of_dvd_not_sq {u p : Nat} (hp : p.Prime) (h1 : p ∣ u) (h2 : ¬ p * p ∣ u) : ¬ ProperPP u := by
  rintro ⟨r, k, hr, hk, rfl⟩
  have : p = r := prime_eq_of_dvd_pow hp hr h1
  subst this
  apply h2
  have : p ^ 2 ∣ p ^ k := pow_dvd_pow p hk
  rwa [pow_two] at this

theorem not_pp_of_cofactor {u u2 p n : Nat} (hp : p.Prime) (hn : 1 ≤ n) (h : u2 * p ^ n = u) (hnd : ¬ p ∣ u2)
    (h1 : u2 ≠ 1) : ¬ ProperPP u := by
  rintro ⟨r, k, hr, hk, hrk⟩
  have hpu : p ∣ u := by
    rw [← h]
    exact Dvd.dvd.mul_left (dvd_pow_self p (by omega)) u2
  have : p = r := prime_eq_of_dvd_pow hp hr (hrk ▸ hpu)
  subst this
  have hd : u2 ∣ p ^ k := ⟨p ^ n, by rw [hrk, h]⟩
  obtain ⟨j, _, hu2⟩ := (Nat.dvd_prime_pow hp).1 hd
  rcases Nat.eq_zero_or_pos j with hj | hj
  · subst hj; simp at hu2; exact h1 hu2
  · exact hnd (hu2 ▸ dvd_pow_self p (by omega))

theorem smallScan_spec (u : Nat) (hu : 0 < u) : ∀ (ps : List Nat), (∀ p ∈ ps, Nat.Prime p) →
    (smallScan u ps = none → ∀ p ∈ ps, ¬ p ∣ u) ∧ (∀ r, smallScan u ps = some r → PPSpec u r) := by
  intro ps
  induction ps with
  | nil => intro _; exact ⟨fun _ p hp => by simp at hp, fun r h => by simp [smallScan] at h⟩
  | cons p ps ih =>
    intro hps
    have hp : Nat.Prime p := hps p (by simp)
    have hp2 := hp.two_le
    obtain ⟨ih1, ih2⟩ := ih (fun q hq => hps q (List.mem_cons_of_mem _ hq))
    unfold smallScan
    by_cases hd : u % p = 0
    · have hdvd : p ∣ u := Nat.dvd_of_mod_eq_zero hd
      simp only [hd, ↓reduceIte]
      by_cases hsq : u % (p * p) = 0
      · have hsqd : p * p ∣ u := Nat.dvd_of_mod_eq_zero hsq
        simp only [hsq, ne_eq, not_true_eq_false, ↓reduceIte]
        have hq : p * p * (u / (p * p)) = u := Nat.mul_div_cancel' hsqd
        have hpp : 0 < p * p := Nat.mul_pos (by omega) (by omega)
        have hq1 : 0 < u / (p * p) := Nat.div_pos (Nat.le_of_dvd hu hsqd) hpp
        have hlt : u / (p * p) < u + 1 := by
          have : u / (p * p) ≤ u := Nat.div_le_self _ _
          omega
        obtain ⟨u', k, e1, e2, e3, e4⟩ := multLoop_spec p hp2 (u + 1) (u / (p * p)) 2 hq1 hlt
        rw [e1]
        have hfull : u' * p ^ (2 + k) = u := by
          rw [pow_add, ← hq, ← e2]; ring
        refine ⟨fun h => by split at h <;> simp at h, fun r hr => ?_⟩
        by_cases h1 : u' = 1
        · simp only [h1, ↓reduceIte, Option.some.injEq] at hr
          subst hr
          exact ppspec_pos hp (by omega) (by rw [← hfull, h1]; simp)
        · simp only [h1, ↓reduceIte, Option.some.injEq] at hr
          subst hr
          exact ppspec_zero (not_pp_of_cofactor hp (by omega) hfull e3 h1)
      · simp only [hsq, ne_eq, not_false_eq_true, ↓reduceIte]
        refine ⟨fun h => by simp at h, fun r hr => ?_⟩
        simp only [Option.some.injEq] at hr
        subst hr
        exact ppspec_zero (not_pp_of_dvd_not_sq hp hdvd (fun h => hsq (Nat.mod_eq_zero_of_dvd h)))
    · simp only [hd, ↓reduceIte]
      refine ⟨fun h q hq => ?_, ih2⟩
      rcases List.mem_cons.1 hq with rfl | hq'
      · exact fun hdv => hd (Nat.mod_eq_zero_of_dvd hdv)
      · exact ih1 h q hq'

theorem not_pp_one : ¬ ProperPP 1 := by
  rintro ⟨p, k, hp, hk, h⟩
  have h2 := hp.two_le
  have : 2 ^ 2 ≤ p ^ k := by
    calc 2 ^ 2 ≤ p ^ 2 := Nat.pow_le_pow_left h2 2
      _ ≤ p ^ k := Nat.pow_le_pow_right (by omega) hk
  omega

theorem root_exact_of_pow {root : Nat → Nat → Nat} (hroot : RootOK root) {u k x : Nat} (hk : 1 ≤ k) (h : x ^ k = u) :
    root u k ^ k = u := by
  obtain ⟨h1, h2⟩ := hroot u k hk
  have hk0 : k ≠ 0 := by omega
  have a : root u k ≤ x := by
    by_contra hc
    have : x ^ k < root u k ^ k := Nat.pow_lt_pow_left (by omega) hk0
    omega
  have b : x < root u k + 1 := by
    by_contra hc
    have : (root u k + 1) ^ k ≤ x ^ k := Nat.pow_le_pow_left (by omega) k
    omega
  have : root u k = x := by omega
  rw [this]; exact h

theorem rootScan_spec (isp : Int → Bool) (hisp : ∀ n : Int, isp n = true ↔ Nat.Prime n.toNat)
    (root : Nat → Nat → Nat) (hroot : RootOK root) (again : Nat → Nat × Nat) (u : Nat) (hu : 1 ≤ u)
    (hbig : ∀ r, Nat.Prime r → r ∣ u → SMALLEST_OMITTED_PRIME ≤ r)
    (hagain : ∀ q, 2 ≤ q → q < u → PPSpec q (again q))
    (P : Nat) (hP : Nat.Prime P) (hPu : u < 2 ^ P) :
    ∀ (fuel nth : Nat), 2 ≤ nth → nth ≤ P → P < fuel + nth →
      (∀ m, Nat.Prime m → m < nth → ¬ ∃ x, x ^ m = u) →
      PPSpec u (rootScan isp root again u fuel nth) := by
  intro fuel
  induction fuel with
  | zero => intro nth h1 h2 h3; omega
  | succ f ih =>
    intro nth h2 hle hfuel hinv
    unfold rootScan
    have hispn : isp (nth : Int) = true ↔ Nat.Prime nth := by
      have := hisp (nth : Int); simpa using this
    by_cases hn : isp (nth : Int) = true
    · have hnp : Nat.Prime nth := hispn.1 hn
      simp only [hn, Bool.not_true, Bool.false_eq_true, ↓reduceIte]
      obtain ⟨hq1, hq2⟩ := hroot u nth (by omega)
      generalize hqdef : root u nth = q at hq1 hq2 ⊢
      have hispq : isp (q : Int) = true ↔ Nat.Prime q := by
        have := hisp (q : Int); simpa using this
      by_cases hex : q ^ nth = u
      · simp only [hex, ↓reduceIte]
        by_cases hq : isp (q : Int) = true
        · simp only [hq, ↓reduceIte]
          exact ppspec_pos (hispq.1 hq) h2 hex
        · simp only [hq, Bool.false_eq_true, ↓reduceIte]
          by_cases hqs : q < 2
          · simp only [hqs, ↓reduceIte]
            have : u = 1 := by
              have hq01 : q = 0 ∨ q = 1 := by omega
              rcases hq01 with h | h
              · subst h; rw [Nat.zero_pow (by omega)] at hex; omega
              · subst h; simpa using hex.symm
            subst this
            exact ppspec_zero not_pp_one
          · simp only [hqs, ↓reduceIte]
            have hq2' : 2 ≤ q := by omega
            have hqu : q < u := by
              rw [← hex]
              calc q = q ^ 1 := (pow_one q).symm
                _ < q ^ nth := Nat.pow_lt_pow_right (by omega) (by omega)
            have hspec := hagain q hq2' hqu
            rcases hag : again q with ⟨k, r⟩
            rw [hag] at hspec
            simp only
            by_cases hk : 0 < k
            · obtain ⟨hr, hk2, hrk⟩ := hspec.1 hk
              refine ppspec_pos hr ?_ ?_
              · have : 2 * 2 ≤ nth * k := Nat.mul_le_mul h2 hk2
                omega
              · rw [pow_mul', hrk, hex]
            · have hk0 : k = 0 := by omega
              subst hk0
              have hnq := hspec.2 rfl
              simp only [Nat.mul_zero]
              apply ppspec_zero
              rintro ⟨p, j, hp, hj, hpj⟩
              have hpp : IsPrimePow (q ^ nth) := by
                rw [hex, isPrimePow_nat_iff]; exact ⟨p, j, hp, by omega, hpj⟩
              rw [isPrimePow_pow_iff (by omega), isPrimePow_nat_iff] at hpp
              obtain ⟨p', j', hp', hj', hq'⟩ := hpp
              by_cases hj1 : j' = 1
              · subst hj1; simp at hq'; subst hq'; exact hq (hispq.2 hp')
              · exact hnq ⟨p', j', hp', by omega, hq'⟩
      · simp only [hex, ↓reduceIte]
        by_cases hqs : q < SMALLEST_OMITTED_PRIME
        · simp only [hqs, ↓reduceIte]
          apply ppspec_zero
          rintro ⟨r, m, hr, hm, hrm⟩
          have hr9 : SMALLEST_OMITTED_PRIME ≤ r := hbig r hr (by rw [← hrm]; exact dvd_pow_self r (by omega))
          have hlt : m < nth := by
            by_contra hc
            have h1 : r ^ nth ≤ r ^ m := Nat.pow_le_pow_right (by have := hr.two_le; omega) (by omega)
            have h2' : (q + 1) ^ nth ≤ r ^ nth := Nat.pow_le_pow_left (by omega) nth
            omega
          have hm' : Nat.Prime m.minFac := Nat.minFac_prime (by omega)
          have hmle : m.minFac ≤ m := Nat.minFac_le (by omega)
          obtain ⟨j, hj⟩ := Nat.minFac_dvd m
          exact hinv m.minFac hm' (by omega) ⟨r ^ j, by rw [← pow_mul', ← hj, hrm]⟩
        · simp only [hqs, ↓reduceIte]
          have hne : nth ≠ P := by
            rintro rfl
            have : 2 ^ nth ≤ q ^ nth := Nat.pow_le_pow_left (by unfold SMALLEST_OMITTED_PRIME at hqs; omega) nth
            omega
          apply ih (nth + 1) (by omega) (by omega) (by omega)
          intro m hm hmlt hx
          by_cases hmn : m = nth
          · subst hmn
            obtain ⟨x, hx⟩ := hx
            have := root_exact_of_pow hroot (by omega : 1 ≤ m) hx
            rw [hqdef] at this
            exact hex this
          · exact hinv m hm (by omega) hx
    · have hnp : ¬ Nat.Prime nth := fun h => hn (hispn.2 h)
      simp only [hn, Bool.not_false, ↓reduceIte]
      have hne : nth ≠ P := by rintro rfl; exact hnp hP
      apply ih (nth + 1) (by omega) (by omega) (by omega)
      intro m hm hmlt
      by_cases hmn : m = nth
      · subst hmn; exact absurd hm hnp
      · exact hinv m hm (by omega)

theorem smallOddPrimes_prime : ∀ p ∈ smallOddPrimes, Nat.Prime p := by
  have h : smallOddPrimes.all Givaro.Spec.Primes.isPrimeDec = true := by decide +kernel
  intro p hp
  exact (isPrimeDec_iff_prime p).1 (List.all_eq_true.1 h p hp)

theorem small_primes_listed : ∀ r, r < SMALLEST_OMITTED_PRIME → Nat.Prime r → r = 2 ∨ r ∈ smallOddPrimes := by
  have h : (List.range SMALLEST_OMITTED_PRIME).all
      (fun r => !Givaro.Spec.Primes.isPrimeDec r || r == 2 || smallOddPrimes.contains r) = true := by decide +kernel
  intro r hr hp
  have := List.all_eq_true.1 h r (List.mem_range.2 hr)
  have hd : Givaro.Spec.Primes.isPrimeDec r = true := (isPrimeDec_iff_prime r).2 hp
  simp only [hd, Bool.not_true, Bool.false_or, Bool.or_eq_true, beq_iff_eq, List.contains_eq_mem, decide_eq_true_eq] at this
  exact this

theorem not_pp_mod4 {u : Nat} (h : u % 4 = 2) : ¬ ProperPP u := by
  rintro ⟨p, k, hp, hk, rfl⟩
  have h2 : 2 ∣ p ^ k := Nat.dvd_of_mod_eq_zero (by omega)
  have : 2 = p := prime_eq_of_dvd_pow Nat.prime_two hp h2
  subst this
  have : 2 ^ 2 ∣ 2 ^ k := pow_dvd_pow 2 hk
  have := Nat.mod_eq_zero_of_dvd this
  omega

theorem isprimepowerAux_spec (isp : Int → Bool) (hisp : ∀ n : Int, isp n = true ↔ Nat.Prime n.toNat)
    (root : Nat → Nat → Nat) (hroot : RootOK root) :
    ∀ (depth : Nat) (ui : Int), ui.toNat < depth →
      (ui ≤ 0 → (isprimepowerAux isp root depth ui).1 = 0) ∧
      (0 < ui → PPSpec ui.toNat (isprimepowerAux isp root depth ui)) := by
  intro depth
  induction depth with
  | zero => intro ui h; omega
  | succ d ih =>
    intro ui hdepth
    unfold isprimepowerAux
    by_cases hle : ui ≤ 0
    · exact ⟨fun _ => by simp [hle], fun h => by omega⟩
    · refine ⟨fun h => absurd h hle, fun _ => ?_⟩
      simp only [hle, ↓reduceIte]
      generalize hudef : ui.toNat = u at hdepth ⊢
      have hu : 1 ≤ u := by omega
      by_cases h4 : (u % 18446744073709551616) % 4 = 2
      · simp only [h4, ↓reduceIte]
        exact ppspec_zero (not_pp_mod4 (by omega))
      · simp only [h4, ↓reduceIte]
        obtain ⟨t', k, e1, e2, e3⟩ := twoLoop_spec (u + 1) u 0 (by omega) (by omega)
        rw [e1]
        simp only [Nat.zero_add]
        by_cases hk : k > 0
        · simp only [hk, ↓reduceIte]
          by_cases ht : t' = 1
          · simp only [ht, ↓reduceIte]
            subst ht
            have hk2 : 2 ≤ k := by
              by_contra hc
              have : k = 1 := by omega
              subst this
              simp at e2
              omega
            exact ppspec_pos Nat.prime_two hk2 (by simpa using e2)
          · simp only [ht, ↓reduceIte]
            exact ppspec_zero (not_pp_of_cofactor Nat.prime_two (by omega) e2
              (fun hd => by have := Nat.mod_eq_zero_of_dvd hd; omega) ht)
        · simp only [hk, ↓reduceIte]
          have hk0 : k = 0 := by omega
          subst hk0
          simp at e2
          subst e2
          obtain ⟨s1, s2⟩ := smallScan_spec t' hu smallOddPrimes smallOddPrimes_prime
          rcases hs : smallScan t' smallOddPrimes with _ | r
          · simp only
            have hnd := s1 hs
            have hbig : ∀ r, Nat.Prime r → r ∣ t' → SMALLEST_OMITTED_PRIME ≤ r := by
              intro r hr hrd
              by_contra hc
              rcases small_primes_listed r (by omega) hr with h | h
              · subst h; have := Nat.mod_eq_zero_of_dvd hrd; omega
              · exact hnd r h hrd
            obtain ⟨P, hP, hP1, hP2⟩ := Nat.exists_prime_lt_and_le_two_mul (Nat.log2 t' + 1) (by omega)
            have hPu : t' < 2 ^ P :=
              calc t' < 2 ^ (Nat.log2 t' + 1) := Nat.lt_log2_self
                _ ≤ 2 ^ P := Nat.pow_le_pow_right (by omega) (by omega)
            apply rootScan_spec isp hisp root hroot _ t' hu hbig ?_ P hP hPu (2 * Nat.log2 t' + 4) 2 (by omega) (by omega) (by omega)
            · intro m hm hm2; have := hm.two_le; omega
            · intro q hq2 hqu
              have := (ih (q : Int) (by simp; omega)).2 (by omega)
              simpa using this
          · simp only
            exact s2 r hs

theorem prime_pow_unique {p q k e : Nat} (hp : Nat.Prime p) (hq : Nat.Prime q) (he : 0 < e) (h : q ^ e = p ^ k) :
    q = p ∧ e = k := by
  have hqp : q = p := prime_eq_of_dvd_pow hq hp (h ▸ dvd_pow_self q (by omega))
  subst hqp
  exact ⟨rfl, Nat.pow_right_injective hq.two_le h⟩

theorem isprimepower_spec (isp : Int → Bool) (hisp : ∀ n : Int, isp n = true ↔ Nat.Prime n.toNat)
    (root : Nat → Nat → Nat) (hroot : RootOK root) (u : Int) (hu : Nat.log2 u.toNat < 4294967296) :
    (u ≤ 0 → (isprimepower isp root u).1 = 0) ∧ (0 < u → PPSpec u.toNat (isprimepower isp root u)) := by
  unfold isprimepower
  obtain ⟨a, b⟩ := isprimepowerAux_spec isp hisp root hroot (u.toNat + 1) u (by omega)
  generalize isprimepowerAux isp root (u.toNat + 1) u = r at a b
  refine ⟨fun h => by simp [a h], fun h => ?_⟩
  have hs := b h
  by_cases hr : 0 < r.1
  · obtain ⟨hq, he, hqe⟩ := hs.1 hr
    have : 2 ^ r.1 ≤ u.toNat := by
      rw [← hqe]; exact Nat.pow_le_pow_left hq.two_le _
    have : r.1 ≤ Nat.log2 u.toNat := (Nat.le_log2 (by omega)).2 this
    have hmod : r.1 % 4294967296 = r.1 := Nat.mod_eq_of_lt (by omega)
    simp only [hmod]
    exact hs
  · have : r.1 = 0 := by omega
    simp only [this, Nat.zero_mod]
    exact ppspec_zero (hs.2 this)

theorem irootAux_spec (n k : Nat) : ∀ (fuel lo hi : Nat), lo < hi → hi - lo ≤ 2 ^ fuel → lo ^ k ≤ n → n < hi ^ k →
    irootAux n k fuel lo hi ^ k ≤ n ∧ n < (irootAux n k fuel lo hi + 1) ^ k := by
  intro fuel
  induction fuel with
  | zero =>
    intro lo hi h1 h2 h3 h4
    simp only [irootAux]
    have : hi = lo + 1 := by simp at h2; omega
    subst this; exact ⟨h3, h4⟩
  | succ f ih =>
    intro lo hi h1 h2 h3 h4
    unfold irootAux
    by_cases hc : hi ≤ lo + 1
    · simp only [hc, ↓reduceIte]
      have : hi = lo + 1 := by omega
      subst this; exact ⟨h3, h4⟩
    · simp only [hc, ↓reduceIte]
      have hp : 2 ^ (f + 1) = 2 * 2 ^ f := by rw [pow_succ]; omega
      by_cases hm : ((lo + hi) / 2) ^ k ≤ n
      · simp only [hm, ↓reduceIte]
        exact ih _ hi (by omega) (by omega) hm h4
      · simp only [hm, ↓reduceIte]
        exact ih lo _ (by omega) (by omega) h3 (by omega)

/-- the bisection used by the driver for `mpz_root` meets the contract -/
theorem iroot_ok : RootOK iroot := by
  intro u k hk
  unfold iroot
  have hk0 : k ≠ 0 := by omega
  simp only [hk0, ↓reduceIte]
  apply irootAux_spec
  · exact Nat.pow_pos (by omega)
  · simp only [Nat.sub_zero]
    apply Nat.pow_le_pow_right (by omega)
    have : Nat.log2 u / k ≤ Nat.log2 u := Nat.div_le_self _ _
    omega
  · rw [Nat.zero_pow (by omega)]; omega
  · rw [← pow_mul]
    calc u < 2 ^ (Nat.log2 u + 1) := Nat.lt_log2_self
      _ ≤ 2 ^ ((Nat.log2 u / k + 1) * k) := by
        apply Nat.pow_le_pow_right (by omega)
        have := Nat.lt_div_mul_add (a := Nat.log2 u) (b := k) (by omega)
        have e : (Nat.log2 u / k + 1) * k = Nat.log2 u / k * k + k := by ring
        omega

theorem upLoop_mono (isp : Int → Bool) : ∀ (f d : Nat) (n r : Int), upLoop isp f n = some r → upLoop isp (f + d) n = some r := by
  intro f
  induction f with
  | zero => intro d n r h; simp [upLoop] at h
  | succ g ih =>
    intro d n r h
    have : g + 1 + d = (g + d) + 1 := by omega
    rw [this]
    unfold upLoop at h ⊢
    by_cases hn : isp n = true
    · simpa [hn] using h
    · simp only [hn, Bool.false_eq_true, ↓reduceIte] at h ⊢
      exact ih d _ r h


end Givaro.Lemmas.Primes
