/-
C10 — operands that are *not* canonical (built while the mode was NoReduce, possibly used after SetReduce):
every operation is still exact and keeps the denominator positive, in both modes.  Integer-level statements
(cross-multiplication); the ℚ versions are in Props/C10.lean.
-/
import GivaroModel.Lemmas.RationalLemmas
set_option linter.unusedSimpArgs false
set_option linter.unusedVariables false
set_option linter.unusedTactic false
set_option linter.unreachableTactic false
set_option linter.unnecessarySeqFocus false
namespace Givaro.Lemmas.Rational
open Givaro Givaro.Model.Rational Givaro.Spec.Rational

/-- the general branch of `operator+` without any coprimality assumption: exact divisions, positive denominator, exact value -/
theorem add_core_val (n1 d1 n2 d2 : Int) (h1 : 0 < d1) (h2 : 0 < d2) :
    0 < idiv d1 (igcd d1 d2) * idiv d2 (igcd (n1 * idiv d2 (igcd d1 d2) + n2 * idiv d1 (igcd d1 d2)) (igcd d1 d2)) ∧
    idiv (n1 * idiv d2 (igcd d1 d2) + n2 * idiv d1 (igcd d1 d2)) (igcd (n1 * idiv d2 (igcd d1 d2) + n2 * idiv d1 (igcd d1 d2)) (igcd d1 d2)) * (d1 * d2)
      = (n1 * d2 + n2 * d1) * (idiv d1 (igcd d1 d2) * idiv d2 (igcd (n1 * idiv d2 (igcd d1 d2) + n2 * idiv d1 (igcd d1 d2)) (igcd d1 d2))) ∧
    (igcd (n1 * idiv d2 (igcd d1 d2) + n2 * idiv d1 (igcd d1 d2)) (igcd d1 d2)) ∣ d2 := by
  obtain ⟨g, u, v, hg, hgpos, hd1, hd2, huv⟩ := gcd_decomp d1 d2 (Or.inl (by omega))
  subst hd1 hd2
  have hg0 : g ≠ 0 := by omega
  have hu : 0 < u := pos_left_of_mul_pos h1 hgpos
  have hv : 0 < v := pos_left_of_mul_pos h2 hgpos
  rw [hg, idiv_mul_left _ hg0, idiv_mul_left _ hg0]
  obtain ⟨g2, t', w, hg2, hg2pos, ht, hw, htw⟩ := gcd_decomp (n1 * v + n2 * u) g (Or.inr hg0)
  rw [hg2]
  have hg20 : g2 ≠ 0 := by omega
  clear hg
  subst hw
  have hw : 0 < w := pos_left_of_mul_pos hgpos hg2pos
  have e1 : idiv (n1 * v + n2 * u) g2 = t' := by rw [ht]; exact idiv_mul_left _ hg20
  have e2 : idiv (v * (w * g2)) g2 = v * w := by
    rw [show v * (w * g2) = (v * w) * g2 by ring]; exact idiv_mul_left _ hg20
  rw [e1, e2]
  refine ⟨Int.mul_pos hu (Int.mul_pos hv hw), ?_, ⟨v * w, by ring⟩⟩
  linear_combination (-(w * g2 * u * v * w)) * ht

theorem add_pos_spec (red : Bool) (a b : QRep) (ha : 0 < a.den) (hb : 0 < b.den) :
    ∃ r, add red a b = some r ∧ 0 < r.den ∧ Den r (a.num * b.den + b.num * a.den) (a.den * b.den) := by
  obtain ⟨an, ad⟩ := a
  obtain ⟨bn, bd⟩ := b
  simp only at ha hb
  have hdd : 0 < ad * bd := Int.mul_pos ha hb
  unfold add
  simp only [isZero, isInteger, beq_iff_eq, Bool.and_eq_true, Bool.not_eq_true']
  split_ifs with k1 k2 k3 k4 k5
  · exact ⟨_, rfl, ha, by simp only [Den, k1]; ring⟩
  · exact ⟨_, rfl, hb, by simp only [Den, k2]; ring⟩
  · obtain ⟨e1, e2⟩ := k3
    subst e1 e2
    exact ⟨⟨an + bn, 1⟩, by rw [ofInteger_eq], Int.one_pos, by simp only [Den]; ring⟩
  · exact ⟨_, mk3_pos _ _ hdd, hdd, rfl⟩
  · exact ⟨_, mk3_pos _ _ hdd, hdd, rfl⟩
  · obtain ⟨p, r, _⟩ := add_core_val an ad bn bd ha hb
    exact ⟨_, mk3_pos _ _ p, p, r⟩

theorem sub_pos_spec (red : Bool) (a b : QRep) (ha : 0 < a.den) (hb : 0 < b.den) :
    ∃ r, sub red a b = some r ∧ 0 < r.den ∧ Den r (a.num * b.den - b.num * a.den) (a.den * b.den) := by
  rw [sub_eq_add_neg red a b hb]
  obtain ⟨r, h1, h2, h3⟩ := add_pos_spec red a ⟨-b.num, b.den⟩ ha hb
  refine ⟨r, h1, h2, ?_⟩
  simp only [Den] at h3 ⊢
  rw [h3]; ring

/-- `+=` / `-=` store the pair `+` / `-` return, for any operands with positive denominators, in both modes -/
theorem addin_eq_add_pos (red : Bool) (a b : QRep) (ha : 0 < a.den) (hb : 0 < b.den) :
    addin red a b = add red a b := by
  obtain ⟨an, ad⟩ := a
  obtain ⟨bn, bd⟩ := b
  simp only at ha hb
  have hdd : 0 < ad * bd := Int.mul_pos ha hb
  unfold addin add
  simp only [isZero, isInteger, beq_iff_eq, Bool.and_eq_true, Bool.not_eq_true']
  split_ifs with k1 k2 k3 k4 k5
  · rfl
  · rfl
  · obtain ⟨e1, e2⟩ := k3
    subst e1 e2
    rw [ofInteger_eq]
  · rw [mk3_pos _ _ hdd]
  · rw [mk3_pos _ _ hdd]
  · obtain ⟨p, _, dv⟩ := add_core_val an ad bn bd ha hb
    rw [mk3_pos _ _ p]
    congr 2
    exact Int.mul_tdiv_assoc _ dv

theorem subin_eq_sub_pos (red : Bool) (a b : QRep) (ha : 0 < a.den) (hb : 0 < b.den) :
    subin red a b = sub red a b := by
  rw [subin_eq_addin_neg, sub_eq_add_neg red a b hb, addin_eq_add_pos red a ⟨-b.num, b.den⟩ ha hb]

theorem mul_core_val (n1 d1 n2 d2 : Int) (h1 : 0 < d1) (h2 : 0 < d2) :
    0 < idiv d1 (igcd d1 n2) * idiv d2 (igcd n1 d2) ∧
    (idiv n1 (igcd n1 d2) * idiv n2 (igcd d1 n2)) * (d1 * d2) = (n1 * n2) * (idiv d1 (igcd d1 n2) * idiv d2 (igcd n1 d2)) := by
  obtain ⟨g1, a, b, hg1, hg1pos, hn1, hd2, hab⟩ := gcd_decomp n1 d2 (Or.inr (by omega))
  obtain ⟨g2, c, e, hg2, hg2pos, hd1, hn2, hce⟩ := gcd_decomp d1 n2 (Or.inl (by omega))
  rw [hg1, hg2]
  clear hg1 hg2
  subst hn1 hd2 hd1 hn2
  have hg10 : g1 ≠ 0 := by omega
  have hg20 : g2 ≠ 0 := by omega
  rw [idiv_mul_left _ hg10, idiv_mul_left _ hg10, idiv_mul_left _ hg20, idiv_mul_left _ hg20]
  have hc : 0 < c := pos_left_of_mul_pos h1 hg2pos
  have hb : 0 < b := pos_left_of_mul_pos h2 hg1pos
  exact ⟨Int.mul_pos hc hb, by ring⟩

theorem mul_pos_spec {c : Int → Int → Int} (hc : CmpAbsOK c) (red : Bool) (a b : QRep) (ha : 0 < a.den) (hb : 0 < b.den) :
    ∃ r, mul c red a b = some r ∧ 0 < r.den ∧ Den r (a.num * b.num) (a.den * b.den) := by
  obtain ⟨an, ad⟩ := a
  obtain ⟨bn, bd⟩ := b
  simp only at ha hb
  have hdd : 0 < ad * bd := Int.mul_pos ha hb
  unfold mul
  simp only [isZero, isOne, isInteger, beq_iff_eq, Bool.and_eq_true, Bool.not_eq_true', cabs_zero_pos hc ha hb]
  split_ifs with k1 k2 k3 k4 k5 k6 k7
  · exact ⟨_, rfl, Int.one_pos, by simp [Den, ofWord, k1]⟩
  · exact ⟨_, rfl, Int.one_pos, by simp [Den, ofWord, k2]⟩
  · obtain ⟨e1, e2⟩ := k3
    subst e1 e2
    exact ⟨_, rfl, ha, by simp [Den]⟩
  · obtain ⟨e1, e2⟩ := k4
    subst e1 e2
    exact ⟨_, rfl, hb, by simp [Den]⟩
  · obtain ⟨e1, e2⟩ := k5
    subst e1 e2
    exact ⟨⟨an * bn, 1⟩, by rw [ofInteger_eq], Int.one_pos, by simp [Den]⟩
  · exact ⟨_, mk3_pos _ _ hdd, hdd, rfl⟩
  · exact ⟨_, mk3_pos _ _ hdd, hdd, rfl⟩
  · obtain ⟨p, r⟩ := mul_core_val an ad bn bd ha hb
    exact ⟨_, mk3_pos _ _ p, p, r⟩

theorem mulin_pos_spec {c : Int → Int → Int} (hc : CmpAbsOK c) (red : Bool) (a b : QRep) (ha : 0 < a.den) (hb : 0 < b.den) :
    ∃ r, mulin c red a b = some r ∧ 0 < r.den ∧ Den r (a.num * b.num) (a.den * b.den) := by
  obtain ⟨an, ad⟩ := a
  obtain ⟨bn, bd⟩ := b
  simp only at ha hb
  have hdd : 0 < ad * bd := Int.mul_pos ha hb
  unfold mulin
  simp only [isZero, isOne, isInteger, beq_iff_eq, Bool.and_eq_true, Bool.not_eq_true', Bool.or_eq_true, decide_eq_true_eq,
    cabs_zero_pos hc ha hb]
  split_ifs with k1 k2 k3 k4 k5 k6
  · exact ⟨_, rfl, Int.one_pos, by simp [Den, ofWord, k1]⟩
  · exact ⟨_, rfl, ha, by simp [Den, k2]⟩
  · obtain ⟨e1, e2⟩ := k3
    subst e1 e2
    exact ⟨_, rfl, ha, by simp [Den]⟩
  · obtain ⟨e1, e2⟩ := k4
    subst e1 e2
    exact ⟨_, rfl, hb, by simp [Den]⟩
  · obtain ⟨e1, e2⟩ := k5
    subst e1 e2
    exact ⟨_, rfl, Int.one_pos, by simp [Den]⟩
  · exact ⟨_, rfl, hdd, rfl⟩
  · obtain ⟨p, r⟩ := mul_core_val an ad bn bd ha hb
    exact ⟨_, rfl, p, r⟩

theorem div_core_val (n1 d1 n2 d2 : Int) (h1 : 0 < d1) (h2 : 0 < d2) (hn2 : n2 ≠ 0) :
    (0 < idiv d1 (igcd d1 d2) * idiv n2 (igcd n1 n2) ↔ 0 < n2) ∧
    idiv d1 (igcd d1 d2) * idiv n2 (igcd n1 n2) ≠ 0 ∧
    (idiv n1 (igcd n1 n2) * idiv d2 (igcd d1 d2)) * (d1 * n2) = (n1 * d2) * (idiv d1 (igcd d1 d2) * idiv n2 (igcd n1 n2)) := by
  obtain ⟨g1, a, b, hg1, hg1pos, hn1, hn2', hab⟩ := gcd_decomp n1 n2 (Or.inr hn2)
  obtain ⟨g2, c, e, hg2, hg2pos, hd1, hd2, hce⟩ := gcd_decomp d1 d2 (Or.inl (by omega))
  rw [hg1, hg2]
  clear hg1 hg2
  subst hn1 hn2' hd1 hd2
  have hg10 : g1 ≠ 0 := by omega
  have hg20 : g2 ≠ 0 := by omega
  rw [idiv_mul_left _ hg10, idiv_mul_left _ hg10, idiv_mul_left _ hg20, idiv_mul_left _ hg20]
  have hc : 0 < c := pos_left_of_mul_pos h1 hg2pos
  have hb0 : b ≠ 0 := fun h => hn2 (by rw [h]; ring)
  refine ⟨?_, Int.mul_ne_zero (by omega) hb0, by ring⟩
  constructor
  · intro h
    have hb : 0 < b := by
      by_contra hh
      have : c * b ≤ 0 := Int.mul_nonpos_of_nonneg_of_nonpos (by omega) (by omega)
      omega
    exact Int.mul_pos hb hg1pos
  · intro h
    exact Int.mul_pos hc (pos_left_of_mul_pos h hg1pos)

/-- `reduce()` of any pair with a positive denominator: positive denominator, same value (no coprimality needed here) -/
theorem reduce_pos (r : QRep) (h : 0 < r.den) : 0 < (reduce r).den ∧ Den (reduce r) r.num r.den := by
  obtain ⟨c, d⟩ := reduce_spec r h
  exact ⟨c.1, d⟩

theorem div_pos_spec {c : Int → Int → Int} (hc : CmpAbsOK c) (red : Bool) (a b : QRep) (ha : 0 < a.den) (hb : 0 < b.den)
    (hnz : b.num ≠ 0) :
    ∃ r, div c red a b = some r ∧ 0 < r.den ∧ Den r (a.num * b.den) (a.den * b.num) := by
  obtain ⟨an, ad⟩ := a
  obtain ⟨bn, bd⟩ := b
  simp only at ha hb hnz
  unfold div
  simp only [isZero, isOne, isInteger, sign, beq_iff_eq, Bool.and_eq_true, Bool.not_eq_true', cabs_zero_pos hc ha hb,
    isign_neg_iff, hnz, ↓reduceIte]
  split_ifs with k2 k3 k4 k5 k6 k7 k8 k9 k9
  · exact ⟨_, rfl, Int.one_pos, by simp [Den, ofWord, k2]⟩
  · obtain ⟨e1, e2⟩ := k3
    subst e1 e2
    exact ⟨_, rfl, ha, by simp [Den]⟩
  · obtain ⟨e1, e2⟩ := k4
    subst e1 e2
    exact ⟨_, mk3_neg _ _ k5, by simp only; omega, by simp only [Den]; ring⟩
  · obtain ⟨e1, e2⟩ := k4
    subst e1 e2
    have hbpos : 0 < bn := by omega
    exact ⟨⟨bd, bn⟩, by rw [mk3_neg _ _ (by omega)]; simp, hbpos, by simp only [Den]; ring⟩
  · subst k6
    rw [mk3_red _ _ hnz]
    by_cases hp : 0 < bn
    · simp only [hp, ↓reduceIte]
      obtain ⟨cn, dn⟩ := reduce_pos ⟨an, bn⟩ hp
      refine ⟨_, rfl, cn, ?_⟩
      simp only [Den] at dn ⊢
      linear_combination ad * dn
    · simp only [hp, ↓reduceIte]
      obtain ⟨cn, dn⟩ := reduce_pos ⟨-an, -bn⟩ (by simp only; omega)
      refine ⟨_, rfl, cn, ?_⟩
      simp only [Den] at dn ⊢
      linear_combination (-ad) * dn
  · by_cases hp : 0 < bn
    · have : 0 < ad * bn := Int.mul_pos ha hp
      exact ⟨_, mk3_pos _ _ this, this, rfl⟩
    · have : ad * bn < 0 := Int.mul_neg_of_pos_of_neg ha (by omega)
      exact ⟨_, mk3_neg _ _ this, by simp only; omega, by simp only [Den]; ring⟩
  all_goals
    obtain ⟨p, q, v⟩ := div_core_val an ad bn bd ha hb hnz
  · refine ⟨_, mk3_pos _ _ (by simp only [iabs, k9, ↓reduceIte]; omega), by simp only [iabs, k9, ↓reduceIte]; omega, ?_⟩
    simp only [Den, iabs, k9, ↓reduceIte]
    linear_combination (-1 : Int) * v
  · exfalso
    have : ¬ 0 < idiv ad (igcd ad bd) * idiv bn (igcd an bn) := fun h => by have := p.mp h; omega
    omega
  · exfalso
    have := p.mpr (by omega)
    omega
  · have hy := p.mpr (by omega)
    exact ⟨_, mk3_pos _ _ hy, hy, v⟩

theorem divin_pos_spec (red : Bool) (a b : QRep) (ha : 0 < a.den) (hb : 0 < b.den) (hnz : b.num ≠ 0) :
    ∃ r, divin red a b = some r ∧ 0 < r.den ∧ Den r (a.num * b.den) (a.den * b.num) := by
  obtain ⟨an, ad⟩ := a
  obtain ⟨bn, bd⟩ := b
  simp only at ha hb hnz
  unfold divin
  simp only [isZero, isOne, isInteger, beq_iff_eq, Bool.and_eq_true, Bool.not_eq_true', isign_neg_iff, hnz, ↓reduceIte]
  split_ifs with k2 k3 k4 k5 k6 k7 k8 k9 k10
  · exact ⟨_, rfl, ha, by simp [Den, k2]⟩
  · obtain ⟨e1, e2⟩ := k3
    subst e1 e2
    exact ⟨_, rfl, ha, by simp [Den]⟩
  · obtain ⟨e1, e2⟩ := k4
    subst e1 e2
    exact ⟨_, rfl, by simp only; omega, by simp only [Den]; ring⟩
  · obtain ⟨e1, e2⟩ := k4
    subst e1 e2
    exact ⟨_, rfl, by simp only; omega, by simp only [Den]; ring⟩
  · subst k6
    obtain ⟨cn, dn⟩ := reduce_pos ⟨-an, -bn⟩ (by simp only; omega)
    refine ⟨_, rfl, cn, ?_⟩
    simp only [Den] at dn ⊢
    linear_combination (-ad) * dn
  · subst k6
    obtain ⟨cn, dn⟩ := reduce_pos ⟨an, bn⟩ (by simp only; omega)
    refine ⟨_, rfl, cn, ?_⟩
    simp only [Den] at dn ⊢
    linear_combination ad * dn
  · have : ad * bn < 0 := Int.mul_neg_of_pos_of_neg ha k9
    exact ⟨_, rfl, by simp only; omega, by simp only [Den]; ring⟩
  · have : 0 < ad * bn := Int.mul_pos ha (by omega)
    exact ⟨_, rfl, this, rfl⟩
  all_goals
    obtain ⟨p, q, v⟩ := div_core_val an ad bn bd ha hb hnz
  · refine ⟨_, rfl, by simp only; omega, ?_⟩
    simp only [Den]
    linear_combination (-1 : Int) * v
  · have hy : 0 < idiv ad (igcd ad bd) * idiv bn (igcd an bn) := by omega
    exact ⟨_, rfl, hy, v⟩

/-- `Rational(double)` in either mode: positive denominator and exact (`ofDouble_spec` also gives canonicity under Reduce) -/
theorem ofDouble_pos (red : Bool) (s e m : Int) (hs : s = 0 ∨ s = 1) (he0 : 0 ≤ e) (he : e < 2047)
    (hm0 : 0 ≤ m) (hm : m < 4503599627370496) :
    ∃ r, ofDouble red s e m = some r ∧ 0 < r.den ∧ Den r (doubleFrac s e m).1 (doubleFrac s e m).2 := by
  obtain ⟨r, h1, h2, h3⟩ := ofDouble_spec red s e m hs he0 he hm0 hm
  exact ⟨r, h1, h2.1, h3⟩

end Givaro.Lemmas.Rational
