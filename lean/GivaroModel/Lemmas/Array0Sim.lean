/-
C17 — the simulation: the Array0 model (shared blocks, reference counts, releases, over the abstract store) refines the
deterministic value-semantics machine of Spec/Array0Spec.lean; `abs` forgets counters, liveness and capacity.
-/
import GivaroModel.Lemmas.Array0Contents
import GivaroModel.Spec.Array0Spec
import GivaroModel.Model.Array0ToV
namespace Givaro.Model.Array0
open Givaro.Spec.Array0Spec
variable {α : Type}

def absH (H : Handle) : VHandle := ⟨H.d, H.size⟩

/-- the abstraction function: a handle is (block pointer, logical size), a group is a data block -/
def abs (s : State α) : VState α := { n := s.n, hs := fun h => absH (s.hs h), cells := s.ddata, next := s.dnext }

theorem toV_handles (op : Op α) : (toV op).handles = op.handles := by cases op <;> rfl

theorem vstate_ext {a b : VState α} (h1 : a.n = b.n) (h2 : a.hs = b.hs) (h3 : a.cells = b.cells) (h4 : a.next = b.next) : a = b := by
  cases a; cases b; simp only [VState.mk.injEq]; exact ⟨h1, h2, h3, h4⟩

theorem absH_upd (hs : Nat → Handle) (h : Nat) (H : Handle) :
    (fun k => absH (upd hs h H k)) = vupd (fun k => absH (hs k)) h (absH H) := by
  funext k; unfold upd vupd; split <;> rfl

theorem vupd_self {β : Type} (f : Nat → β) (i : Nat) (v : β) (e : f i = v) : vupd f i v = f := by
  funext j; unfold vupd; split
  · rename_i q; rw [q, e]
  · rfl

theorem vcount_eq (p : Nat → Bool) : ∀ n, vcount p n = countBelow p n
  | 0 => rfl
  | n + 1 => by simp only [vcount, countBelow, vcount_eq p n]

theorem abs_setH (s : State α) (h : Nat) (H : Handle) :
    abs (setH s h H) = { abs s with hs := vupd (abs s).hs h (absH H) } :=
  vstate_ext rfl (absH_upd _ _ _) rfl rfl

theorem abs_attachFresh (s : State α) (h : Nat) (l : List α) (sz : Nat) :
    abs (attachFresh s h l sz) = vfresh (abs s) h l sz :=
  vstate_ext rfl (absH_upd _ _ _) rfl rfl

theorem destroy_dnext (s : State α) (h : Nat) : (destroy s h).dnext = s.dnext := by
  unfold destroy
  dsimp only
  repeat' split
  all_goals rfl

theorem destroy_hs {s : State α} (I : Inv s) {h : Nat} (hn : h < s.n) : (destroy s h).hs = upd s.hs h Handle.empty := by
  by_cases hp : (s.hs h).psz = 0
  · unfold destroy; simp only [hp, ↓reduceIte]; rfl
  · obtain ⟨c, b, h1, h2, h3, h4, h5, h6, h7, h8⟩ := owner_facts I hn hp
    by_cases hv : s.cval c - 1 = 0
    · unfold destroy; simp [hp, h1, h2, h3, h4, hv]
    · unfold destroy; simp [hp, h1, h3, hv]

theorem abs_destroy {s : State α} (I : Inv s) {h : Nat} (hn : h < s.n) : abs (destroy s h) = vdrop (abs s) h := by
  apply vstate_ext
  · exact (frame_destroy s h).1
  · show (fun k => absH ((destroy s h).hs k)) = _
    rw [destroy_hs I hn]; exact absH_upd _ _ _
  · exact destroy_ddata s h
  · exact destroy_dnext s h

/-- dropping a handle that holds nothing changes nothing -/
theorem vdrop_empty {s : State α} {h : Nat} (he : s.hs h = Handle.empty) : vdrop (abs s) h = abs s := by
  refine vstate_ext rfl ?_ rfl rfl
  exact vupd_self _ _ _ (by show absH (s.hs h) = _; rw [he]; rfl)

theorem abs_attachShare {s : State α} (I : Inv s) {h g : Nat} (gn : g < s.n) (ne : h ≠ g) (he : s.hs h = Handle.empty) :
    abs (attachShare s h g) = { abs s with hs := vupd (abs s).hs h ((abs s).hs g) } := by
  by_cases gp : (s.hs g).psz = 0
  · have e := (I.wf g gn).1 gp
    have : attachShare s h g = s := by
      unfold attachShare; simp only [gp, ne_eq, not_true_eq_false, ↓reduceIte]
      apply setH_self; rw [he, e]; rfl
    rw [this]
    refine vstate_ext rfl ?_ rfl rfl
    exact (vupd_self _ _ _ (by show absH (s.hs h) = absH (s.hs g); rw [he, e])).symm
  · obtain ⟨c, b, h1, h2, h3, h4, h5, h6⟩ := (I.wf g gn).2 gp
    have eqn : attachShare s h g = ({ s with cval := upd s.cval c (s.cval c + 1),
                                             hs := upd s.hs h ⟨some c, (s.hs g).size, (s.hs g).psz, (s.hs g).d⟩ } : State α) := by
      unfold attachShare; simp [gp, h1, h3]
    rw [eqn]
    exact vstate_ext rfl (absH_upd _ _ _) rfl rfl

/-- the counter of a well-formed handle holds the number of members of its group -/
theorem cval_eq_members {s : State α} (I : Inv s) {h c b : Nat} (hn : h < s.n) (hc : (s.hs h).cnt = some c)
    (hd : (s.hs h).d = some b) (hl : s.clive c = true) : s.cval c = (vmembers (abs s) b : Int) := by
  rw [(I.rc c hl).1]
  congr 1
  unfold sharers vmembers
  rw [vcount_eq]
  apply countBelow_congr
  intro k kn
  show ((s.hs k).cnt == some c) = ((s.hs k).d == some b)
  by_cases e : (s.hs k).cnt = some c
  · have := same_cnt_same_d I hn kn hc e
    rw [e, this, hd]; simp
  · have : (s.hs k).d ≠ some b := by
      intro q
      have := same_d_same_cnt I hn kn hd q
      exact e (by rw [this, hc])
    rw [beq_eq_false_iff_ne.mpr e, beq_eq_false_iff_ne.mpr this]

theorem soleWithRoom_abs {s : State α} (I : Inv s) {h : Nat} (hn : h < s.n) (sz : Nat) :
    soleWithRoom s (s.hs h) sz = some (vsoleWithRoom (abs s) h sz) := by
  cases hc : (s.hs h).cnt with
  | none =>
    have he := empty_of_cnt_none I hn hc
    rw [soleWithRoom_none sz hc]
    unfold vsoleWithRoom
    have : ((abs s).hs h).grp = none := by show (s.hs h).d = none; rw [he]; rfl
    rw [this]
  | some c =>
    have hp := cnt_some_psz I hn hc
    obtain ⟨c', b, h1, h2, h3, h4, h5, h6⟩ := (I.wf h hn).2 hp
    have ec : c' = c := by rw [hc] at h1; exact (Option.some.inj h1).symm
    subst ec
    rw [soleWithRoom_some sz hc h3]
    unfold vsoleWithRoom
    have : ((abs s).hs h).grp = some b := h2
    rw [this]
    dsimp only
    have m := cval_eq_members I hn hc h2 h3
    have len : ((abs s).cells b).length = (s.hs h).psz := h6
    rw [len]
    congr 1
    apply decide_eq_decide.mpr
    constructor
    · intro ⟨a1, a2⟩; exact ⟨by omega, a2⟩
    · intro ⟨a1, a2⟩; exact ⟨by omega, a2⟩

theorem contents_eq_vvalue (s : State α) (h : Nat) : contents s h = vvalue (abs s) h := rfl

end Givaro.Model.Array0

namespace Givaro.Model.Array0
open Givaro.Spec.Array0Spec
variable {α : Type}

theorem sim_destroy {s : State α} (I : Inv s) {h : Nat} (hn : h < s.n) : abs (destroy s h) = vdrop (abs s) h :=
  abs_destroy I hn

theorem sim_build [Inhabited α] {s : State α} (I : Inv s) {h : Nat} (hn : h < s.n) (sz : Nat) (t : α) :
    abs (ctorBuild s h sz t) = vbuild (abs s) h sz t := by
  obtain ⟨G, he⟩ := good_destroy I hn
  unfold ctorBuild vbuild
  simp only [G.inv.nofault, Bool.false_eq_true, ↓reduceIte]
  rw [← abs_destroy I hn]
  split
  · exact abs_attachFresh _ _ _ _
  · have e0 : setH (destroy s h) h ⟨none, 0, 0, none⟩ = destroy s h := setH_self _ _ _ he
    rw [e0]

theorem sim_share {s : State α} (I : Inv s) {h g : Nat} (hn : h < s.n) (gn : g < s.n) (ne : h ≠ g) :
    abs (let s1 := destroy s h; if s1.fault then s1 else attachShare s1 h g) = vshare (abs s) h g := by
  obtain ⟨G, he⟩ := good_destroy I hn
  unfold vshare
  simp only [G.inv.nofault, Bool.false_eq_true, ↓reduceIte, ne]
  rw [← abs_destroy I hn]
  exact abs_attachShare G.inv (by rw [G.frame.1]; exact gn) ne he

theorem sim_noCopy {s : State α} (I : Inv s) {h g : Nat} (hn : h < s.n) (gn : g < s.n) :
    abs (ctorNoCopy s h g) = vshare (abs s) h g := by
  unfold ctorNoCopy
  by_cases e : h = g
  · simp only [e, ↓reduceIte, vshare]
  · rw [if_neg e]; exact sim_share I hn gn e

theorem sim_logcopy {s : State α} (I : Inv s) {h g : Nat} (hn : h < s.n) (gn : g < s.n) :
    abs (logcopy s h g) = vshare (abs s) h g := by
  unfold logcopy
  by_cases e : h = g
  · simp only [e, ↓reduceIte, vshare]
  · rw [if_neg e]; exact sim_share I hn gn e

theorem sim_withCopy {s : State α} (I : Inv s) {h g : Nat} (hn : h < s.n) (gn : g < s.n) :
    abs (ctorWithCopy s h g) = vvalueCopy (abs s) h g := by
  unfold ctorWithCopy vvalueCopy
  by_cases e : h = g
  · simp only [e, ↓reduceIte]
  · rw [if_neg e, if_neg e]
    obtain ⟨G, he⟩ := good_destroy I hn
    simp only [G.inv.nofault, Bool.false_eq_true, ↓reduceIte]
    rw [← abs_destroy I hn]
    have gn' : g < (destroy s h).n := by rw [G.frame.1]; exact gn
    show abs (if ((destroy s h).hs g).size ≠ 0 then _ else _) =
      if ((destroy s h).hs g).size ≠ 0 then _ else _
    split
    · rw [readCells_contents G.inv gn' (Nat.le_refl _)]
      dsimp only
      rw [abs_attachFresh, ← contents_eq_vvalue]
      have len := contents_length G.inv gn'
      have e5 : ((abs (destroy s h)).hs g).size = ((destroy s h).hs g).size := rfl
      rw [e5, ← len, List.take_length]
    · have e0 : setH (destroy s h) h ⟨none, 0, 0, none⟩ = destroy s h := setH_self _ _ _ he
      rw [e0]

theorem abs_setSize (s : State α) (h sz : Nat) :
    abs (setH s h { (s.hs h) with size := sz }) = vsetSize (abs s) h sz :=
  vstate_ext rfl (absH_upd _ _ _) rfl rfl

theorem sim_allocate [Inhabited α] {s : State α} (I : Inv s) {h : Nat} (hn : h < s.n) (sz : Nat) :
    abs (allocate s h sz) = vallocate (abs s) h sz := by
  unfold allocate vallocate
  dsimp only
  rw [soleWithRoom_abs I hn sz]
  cases vsoleWithRoom (abs s) h sz with
  | true => simp only [↓reduceIte]; exact abs_setSize s h sz
  | false =>
    simp only [Bool.false_eq_true, ↓reduceIte]
    cases hc : (s.hs h).cnt with
    | none =>
      have he := empty_of_cnt_none I hn hc
      simp only [Option.isSome_none, Bool.false_eq_true, ↓reduceIte, I.nofault]
      rw [vdrop_empty he]
      split
      · exact abs_attachFresh _ _ _ _
      · have e0 : setH s h { (s.hs h) with cnt := none, size := 0, psz := 0 } = s := setH_self _ _ _ (by rw [he]; rfl)
        rw [e0]
    | some c =>
      obtain ⟨G, he⟩ := good_destroy I hn
      simp only [Option.isSome_some, ↓reduceIte, G.inv.nofault, Bool.false_eq_true]
      rw [← abs_destroy I hn]
      split
      · exact abs_attachFresh _ _ _ _
      · have e0 : setH (destroy s h) h { ((destroy s h).hs h) with cnt := none, size := 0, psz := 0 } = destroy s h :=
          setH_self _ _ _ (by rw [he]; rfl)
        rw [e0]

theorem sim_reallocate [Inhabited α] {s : State α} (I : Inv s) {h : Nat} (hn : h < s.n) (sz : Nat) :
    abs (reallocate s h sz) = vresize (abs s) h sz := by
  unfold reallocate vresize
  dsimp only
  rw [soleWithRoom_abs I hn sz]
  cases vsoleWithRoom (abs s) h sz with
  | true => simp only [↓reduceIte]; exact abs_setSize s h sz
  | false =>
    simp only [Bool.false_eq_true, ↓reduceIte]
    show abs (if sz > 0 then _ else _) = if sz > 0 then _ else _
    split
    · rename_i pos
      show abs _ = vfresh (vdrop (abs s) h) h
        ((vvalue (abs s) h).take (if (s.hs h).size < sz then (s.hs h).size else sz) ++
          List.replicate (sz - (if (s.hs h).size < sz then (s.hs h).size else sz)) default) sz
      cases hc : (s.hs h).cnt with
      | none =>
        have he := empty_of_cnt_none I hn hc
        have sz0 : (s.hs h).size = 0 := by rw [he]; rfl
        have k0 : (if (s.hs h).size < sz then (s.hs h).size else sz) = 0 := by rw [sz0, if_pos pos]
        simp only [Option.isSome_none, Bool.false_eq_true, ↓reduceIte, k0, ne_eq, not_true_eq_false,
          List.take_zero, List.nil_append, Nat.sub_zero]
        rw [vdrop_empty he]
        exact abs_attachFresh _ _ _ _
      | some c =>
        simp only [Option.isSome_some, ↓reduceIte]
        have kle : (if (s.hs h).size < sz then (s.hs h).size else sz) ≤ (s.hs h).size := by split <;> omega
        rw [readCells_contents I hn kle]
        dsimp only
        obtain ⟨G, he⟩ := good_destroy I hn
        simp only [G.inv.nofault, Bool.false_eq_true, ↓reduceIte]
        rw [abs_attachFresh, abs_destroy I hn, contents_eq_vvalue]
    · exact abs_destroy I hn

theorem sim_writeCell {s : State α} (I : Inv s) {h : Nat} (hn : h < s.n) {i : Nat} (hi : i < (s.hs h).size) (v : α) :
    abs (writeCell s (s.hs h).d i v) = vwrite (abs s) h i v := by
  have hp : (s.hs h).psz ≠ 0 := size_pos_psz I hn (by omega)
  obtain ⟨c, b, h1, h2, h3, h4, h5, h6⟩ := (I.wf h hn).2 hp
  unfold vwrite
  have g : ((abs s).hs h).grp = some b := h2
  have sz : ((abs s).hs h).size = (s.hs h).size := rfl
  rw [if_pos (by rw [sz]; exact hi), g, h2]
  unfold writeCell
  simp only [h4, true_and]
  rw [if_pos (by omega)]
  rfl

theorem sim_write {s : State α} (I : Inv s) {h : Nat} (hn : h < s.n) (i : Nat) (v : α) :
    abs (write s h i v) = vwrite (abs s) h i v := by
  unfold write; dsimp only
  split
  · rename_i hi; exact sim_writeCell I hn hi v
  · rename_i hi
    unfold vwrite
    have sz : ((abs s).hs h).size = (s.hs h).size := rfl
    rw [sz, if_neg hi]

theorem sim_pushBack [Inhabited α] {s : State α} (I : Inv s) {h : Nat} (hn : h < s.n) (v : α) :
    abs (pushBack s h v) = vpushBack (abs s) h v := by
  unfold pushBack vpushBack; dsimp only
  obtain ⟨G, hs, so⟩ := reallocate_good I hn ((s.hs h).size + 1)
  simp only [G.inv.nofault, Bool.false_eq_true, ↓reduceIte]
  rw [if_neg (by rw [hs]; omega)]
  have e : ((abs s).hs h).size = (s.hs h).size := rfl
  rw [e, ← sim_reallocate I hn]
  exact sim_writeCell G.inv (by rw [G.frame.1]; exact hn) (by rw [hs]; omega) v

theorem sim_pushBackSelf [Inhabited α] {s : State α} (I : Inv s) {h : Nat} (hn : h < s.n) (i : Nat) :
    abs (pushBackSelf s h i) = vpushBackSelf (abs s) h i := by
  unfold vpushBackSelf
  have e : ((abs s).hs h).size = (s.hs h).size := rfl
  rw [e, ← contents_eq_vvalue]
  by_cases hi : i < (s.hs h).size
  · obtain ⟨v, hv, ev⟩ := pushBackSelf_eq I hn hi
    rw [if_pos hi, hv, ev]; exact sim_pushBack I hn v
  · have : pushBackSelf s h i = s := by unfold pushBackSelf; dsimp only; rw [if_neg hi]
    rw [this, if_neg hi]

theorem sim_reserve [Inhabited α] {s : State α} (I : Inv s) {h : Nat} (hn : h < s.n) (sz : Nat) :
    abs (reserve s h sz) = vresize (vresize (abs s) h sz) h 0 := by
  unfold reserve; dsimp only
  obtain ⟨G, _⟩ := reallocate_good I hn sz
  simp only [G.inv.nofault, Bool.false_eq_true, ↓reduceIte]
  rw [sim_reallocate G.inv (by rw [G.frame.1]; exact hn), sim_reallocate I hn]

theorem sim_copy [Inhabited α] {s : State α} (I : Inv s) {h g : Nat} (hn : h < s.n) (gn : g < s.n) :
    abs (copy s h g) = vcopy (abs s) h g := by
  unfold copy vcopy; dsimp only
  show abs (if (s.hs g).d = (s.hs h).d then _ else _) = if (s.hs g).d = (s.hs h).d then _ else _
  split
  · rfl
  · rename_i dne
    have ne : g ≠ h := fun q => dne (by rw [q])
    obtain ⟨G, hs, so⟩ := reallocate_good I hn (s.hs g).size
    simp only [G.inv.nofault, Bool.false_eq_true, ↓reduceIte]
    have e : ((abs s).hs g).size = (s.hs g).size := rfl
    rw [e, ← sim_reallocate I hn]
    have hn' : h < (reallocate s h (s.hs g).size).n := by rw [G.frame.1]; exact hn
    have gn' : g < (reallocate s h (s.hs g).size).n := by rw [G.frame.1]; exact gn
    have gsame := G.frame.2 g ne
    have Ginv := G.inv
    generalize hs1 : reallocate s h (s.hs g).size = s1 at *
    rw [readCells_contents Ginv gn' (by rw [hs, gsame]; omega)]
    dsimp only
    show abs (writeCells s1 (s1.hs h).d ((contents s1 g).take (s1.hs h).size)) = _
    rw [← contents_eq_vvalue]
    have e2 : ((abs s1).hs h).size = (s1.hs h).size := rfl
    have e3 : ((abs s1).hs h).grp = (s1.hs h).d := rfl
    rw [e2, e3]
    generalize hl : (contents s1 g).take (s1.hs h).size = l
    have llen : l.length ≤ (s1.hs h).size := by rw [← hl, List.length_take]; omega
    by_cases l0 : l = []
    · subst l0
      have : writeCells s1 (s1.hs h).d ([] : List α) = s1 := by
        unfold writeCells; split <;> simp
      rw [this]
      cases (s1.hs h).d <;> simp
    · have lpos : l.length ≠ 0 := by intro q; exact l0 (List.length_eq_zero_iff.mp q)
      have hp : (s1.hs h).psz ≠ 0 := size_pos_psz Ginv hn' (by omega)
      obtain ⟨c, b, h1, h2, h3, h4, h5, h6⟩ := (Ginv.wf h hn').2 hp
      rw [h2]; unfold writeCells
      have le : l.length ≤ (s1.ddata b).length := by omega
      simp only [List.isEmpty_iff, l0, ↓reduceIte, h4, true_and, le]
      rfl

/-- one step of the model is one step of the value-semantics machine -/
theorem sim_step [Inhabited α] {s : State α} (I : Inv s) (op : Op α) : abs (step s op) = vstep (abs s) (toV op) := by
  unfold step vstep
  simp only [I.nofault, Bool.false_eq_true, ↓reduceIte, toV_handles]
  show abs (if op.handles.any (fun h => decide (s.n ≤ h)) then s else stepCore s op) =
    if op.handles.any (fun h => decide (s.n ≤ h)) then abs s else vstepCore (abs s) (toV op)
  split
  · rfl
  · rename_i hb
    have hb' : ∀ k, k ∈ op.handles → k < s.n := by
      intro k hk
      apply Classical.byContradiction; intro q
      exact hb (List.any_eq_true.mpr ⟨k, hk, by simp; omega⟩)
    cases op with
    | build h sz t => exact sim_build I (hb' h (by simp [Op.handles])) sz t
    | noCopy h g => exact sim_noCopy I (hb' h (by simp [Op.handles])) (hb' g (by simp [Op.handles]))
    | withCopy h g => exact sim_withCopy I (hb' h (by simp [Op.handles])) (hb' g (by simp [Op.handles]))
    | destroy h => exact sim_destroy I (hb' h (by simp [Op.handles]))
    | allocate h sz => exact sim_allocate I (hb' h (by simp [Op.handles])) sz
    | resize h sz => exact sim_reallocate I (hb' h (by simp [Op.handles])) sz
    | reserve h sz => exact sim_reserve I (hb' h (by simp [Op.handles])) sz
    | pushBack h v => exact sim_pushBack I (hb' h (by simp [Op.handles])) v
    | pushBackSelf h i => exact sim_pushBackSelf I (hb' h (by simp [Op.handles])) i
    | write h i v => exact sim_write I (hb' h (by simp [Op.handles])) i v
    | copy h g => exact sim_copy I (hb' h (by simp [Op.handles])) (hb' g (by simp [Op.handles]))
    | logcopy h g => exact sim_logcopy I (hb' h (by simp [Op.handles])) (hb' g (by simp [Op.handles]))
    | assign h g => exact sim_copy I (hb' h (by simp [Op.handles])) (hb' g (by simp [Op.handles]))

theorem sim_run [Inhabited α] (ops : List (Op α)) : ∀ {s : State α}, Inv s → abs (run s ops) = vrun (abs s) (ops.map toV) := by
  induction ops with
  | nil => intro s _; rfl
  | cons op rest ih =>
    intro s I
    show abs (run (step s op) rest) = vrun (vstep (abs s) (toV op)) (rest.map toV)
    rw [ih (step_inv I op).1, sim_step I op]

theorem abs_init (n : Nat) : abs (init α n) = vinit α n := rfl

end Givaro.Model.Array0

namespace Givaro.Model.Array0
open Givaro.Spec.Array0Spec
variable {α : Type}

/-- after the deep-copy constructor the new handle shares its storage with nobody -/
theorem ctorWithCopy_sole {s : State α} (I : Inv s) {h g : Nat} (hn : h < s.n) (gn : g < s.n) (ne : h ≠ g) :
    Sole (ctorWithCopy s h g) h := by
  unfold ctorWithCopy
  rw [if_neg ne]
  obtain ⟨G, he⟩ := good_destroy I hn
  simp only [G.inv.nofault, Bool.false_eq_true, ↓reduceIte]
  have gn' : g < (destroy s h).n := by rw [G.frame.1]; exact gn
  have hn' : h < (destroy s h).n := by rw [G.frame.1]; exact hn
  split
  · rename_i hz
    obtain ⟨l, hl, hlen⟩ := readCells_ok G.inv gn' (Nat.le_refl _)
    rw [hl]
    exact (good_attachFresh (l := l) (sz := ((destroy s h).hs g).size) G.inv hn' he (by rw [hlen]; simpa using hz) (by omega)).2.2
  · left; show (upd _ h _ h) = _; rw [upd_same]; rfl

end Givaro.Model.Array0
