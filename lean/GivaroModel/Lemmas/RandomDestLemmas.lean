/-
C20 — lemmas about the destination-explicit layer (Model/RandomDest.lean): the generic call-list machine, list facts for
the polynomial destination, and "the destination-explicit draw equals the value-level draw" for every loop.
-/
import GivaroModel.Model.RandomDest
import GivaroModel.Lemmas.RandomLemmas
namespace Givaro.Lemmas.Random
open Givaro Givaro.Model.Random

/-! ### the call-list machine -/

section Run
variable {σ κ ω : Type} (step : σ → κ → Option (ω × σ))

/-- running `cs₁ ++ cs₂` is running `cs₁`, then `cs₂` from the state reached: an object copied after `cs₁` (its state is
    the state reached) and given `cs₂` returns exactly what the original would have returned -/
theorem runCalls_append (cs₁ cs₂ : List κ) : ∀ s : σ,
    runCalls step (cs₁ ++ cs₂) s =
      match runCalls step cs₁ s with
      | none => none
      | some r₁ =>
        match runCalls step cs₂ r₁.2 with
        | none => none
        | some r₂ => some (r₁.1 ++ r₂.1, r₂.2) := by
  induction cs₁ with
  | nil => intro s; simp only [List.nil_append, runCalls]; cases runCalls step cs₂ s <;> simp
  | cons c cs ih =>
    intro s
    simp only [List.cons_append, runCalls]
    cases h : step s c with
    | none => simp
    | some os =>
      simp only
      rw [ih os.2]
      cases h1 : runCalls step cs os.2 with
      | none => simp
      | some r₁ =>
        simp only
        cases h2 : runCalls step cs₂ r₁.2 with
        | none => simp
        | some r₂ => simp

/-- calls that are related by a relation under which `step` is invariant give the same run -/
theorem runCalls_congr (R : κ → κ → Prop) (hR : ∀ s c c', R c c' → step s c = step s c') :
    ∀ (cs cs' : List κ), List.Forall₂ R cs cs' → ∀ s : σ, runCalls step cs s = runCalls step cs' s := by
  intro cs cs' h
  induction h with
  | nil => intro s; rfl
  | cons hc _ ih =>
    intro s
    simp only [runCalls]
    rw [hR s _ _ hc]
    cases step s _ with
    | none => rfl
    | some os => simp only; rw [ih os.2]

/-- every output of a run satisfies what every single step guarantees; there is one output per call -/
theorem runCalls_all (P : ω → Prop) (hP : ∀ s c o s', step s c = some (o, s') → P o) :
    ∀ (cs : List κ) (s : σ) (r : List ω × σ), runCalls step cs s = some r → r.1.length = cs.length ∧ ∀ o ∈ r.1, P o := by
  intro cs
  induction cs with
  | nil => intro s r h; simp only [runCalls, Option.some.injEq] at h; subst h; simp
  | cons c cs ih =>
    intro s r h
    simp only [runCalls] at h
    cases hs : step s c with
    | none => rw [hs] at h; simp at h
    | some os =>
      rw [hs] at h
      simp only at h
      cases hr : runCalls step cs os.2 with
      | none => rw [hr] at h; simp at h
      | some r' =>
        rw [hr] at h
        simp only [Option.some.injEq] at h
        subst h
        have h1 := ih os.2 r' hr
        refine ⟨by simp [h1.1], ?_⟩
        intro o ho
        simp only [List.mem_cons] at ho
        rcases ho with rfl | ho
        · exact hP s c os.1 os.2 (by rw [hs])
        · exact h1.2 o ho

end Run

/-! ### lists (the polynomial destination) -/

theorem drop_set_self {α : Type} : ∀ (l : List α) (i : Nat) (a : α), i < l.length → (l.set i a).drop i = a :: l.drop (i + 1)
  | [], _, _, h => by simp at h
  | _ :: ys, 0, a, _ => by simp
  | _ :: ys, j+1, a, h => by
    simp only [List.set_cons_succ, List.drop_succ_cons]
    exact drop_set_self ys j a (by simpa using h)

theorem vresize_length (l : List Int) (n : Nat) : (vresize l n).length = n := by
  unfold vresize; simp

theorem drop_length_succ {α : Type} (l : List α) (n : Nat) (h : l.length = n + 1) : l.drop (n + 1) = [] := by
  apply List.drop_eq_nil_of_le; omega

/-! ### destination-explicit = value level -/

theorem modRandomD_eq (bits : Nat) (sgn : Bool) (p old g : Int) : modRandomD bits sgn p old g = modRandom bits sgn p g := by
  simp only [modRandomD, modRandom, overwrite]
theorem modRandomSzD_eq (bits : Nat) (sgn : Bool) (p size old g : Int) :
    modRandomSzD bits sgn p size old g = modRandomSz bits sgn p size g := by
  simp only [modRandomSzD, modRandomSz, overwrite]

theorem modNonzeroD_eq (bits : Nat) (sgn : Bool) (p : Int) (fuel : Nat) : ∀ old g : Int,
    modNonzeroD bits sgn p fuel old g = modNonzero bits sgn p fuel g := by
  induction fuel with
  | zero => intro old g; rfl
  | succ f ih =>
    intro old g
    unfold modNonzeroD modNonzero
    simp only [modRandomD_eq]
    by_cases h : (modRandom bits sgn p g).1 = 0
    · rw [if_pos h, if_pos h]; exact ih _ _
    · rw [if_neg h, if_neg h]

theorem modNonzeroSzD_eq (bits : Nat) (sgn : Bool) (p size : Int) (fuel : Nat) : ∀ old g : Int,
    modNonzeroSzD bits sgn p size fuel old g = modNonzeroSz bits sgn p size fuel g := by
  induction fuel with
  | zero => intro old g; rfl
  | succ f ih =>
    intro old g
    unfold modNonzeroSzD modNonzeroSz
    simp only [modRandomSzD_eq]
    by_cases h : (modRandomSz bits sgn p size g).1 = 0
    · rw [if_pos h, if_pos h]; exact ih _ _
    · rw [if_neg h, if_neg h]

theorem modStepD_eq (bits : Nat) (sgn : Bool) (p : Int) (fn : Nat) (size : Int) (fuel : Nat) (g old : Int) :
    modStepD bits sgn p fn size fuel g old = modStep bits sgn p fn size fuel g := by
  unfold modStepD modStep
  split <;> simp only [modRandomD_eq, modRandomSzD_eq, modNonzeroD_eq, modNonzeroSzD_eq]

theorem gfqRandomD_eq (bits : Nat) (q s old g : Int) : gfqRandomD bits q s old g = gfqRandom bits q s g := by
  simp only [gfqRandomD, gfqRandom, overwrite]
  congr
theorem gfqNonzeroD_eq (bits : Nat) (q s old g : Int) : gfqNonzeroD bits q s old g = gfqNonzero bits q s g := by
  simp only [gfqNonzeroD, gfqNonzero, overwrite]
  congr

theorem gfqNzLoopD_eq (bits : Nat) (q : Int) (fuel : Nat) : ∀ old g : Int,
    gfqNzLoopD bits q fuel old g = gfqStep.gfqNzLoop bits q fuel g := by
  induction fuel with
  | zero => intro old g; rfl
  | succ f ih =>
    intro old g
    unfold gfqNzLoopD gfqStep.gfqNzLoop
    simp only [gfqRandomD_eq]
    by_cases h : (gfqRandom bits q (sampleSize q 0) g).1 = 0
    · rw [if_pos h, if_pos h]; exact ih _ _
    · rw [if_neg h, if_neg h]

theorem gfqStepD_eq (bits : Nat) (q : Int) (fn : Nat) (size : Int) (fuel : Nat) (g old : Int) :
    gfqStepD bits q fn size fuel g old = gfqStep bits q fn size fuel g := by
  unfold gfqStepD gfqStep
  split <;> simp only [gfqRandomD_eq, gfqNonzeroD_eq, gfqNzLoopD_eq]

/-- the in-place loop over the lower coefficients overwrites exactly the positions below `i` -/
theorem polyFill_eq (bits : Nat) (sgn : Bool) (p : Int) (i : Nat) : ∀ (r : List Int) (g : Int), i ≤ r.length →
    polyFill bits sgn p i r g = ((polyLow bits sgn p i g).1 ++ r.drop i, (polyLow bits sgn p i g).2) := by
  induction i with
  | zero => intro r g _; simp [polyFill, polyLow]
  | succ i ih =>
    intro r g h
    simp only [polyFill, polyLow, modRandomD_eq]
    rw [ih _ _ (by simp only [List.length_set]; omega), drop_set_self r i _ (by omega)]
    simp [List.append_assoc]

/-- **the polynomial draw does not see what the vector held**: the destination-explicit draw equals the value-level one -/
theorem polyRandomD_eq (bits : Nat) (sgn : Bool) (p : Int) (d : Int) (fuel : Nat) (old : List Int) (g : Int) :
    polyRandomD bits sgn p d fuel old g = polyRandomDeg bits sgn p d fuel g := by
  unfold polyRandomD polyRandomDeg
  split
  · simp [vresize]
  · unfold polyRandom
    rw [modNonzeroD_eq]
    cases modNonzero bits sgn p fuel g with
    | none => rfl
    | some lead =>
      simp only
      have hl := vresize_length old (d.toNat + 1)
      rw [polyFill_eq bits sgn p d.toNat _ _ (by simp only [List.length_set]; omega),
          drop_set_self _ d.toNat _ (by omega), drop_length_succ _ d.toNat hl]

end Givaro.Lemmas.Random
