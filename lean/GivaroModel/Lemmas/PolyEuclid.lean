/-
C08 — the remainder-sequence loops (`gcd`, later `invmod`, `lcm`) and the square-and-multiply loop `pow` of
`Model/Poly.lean`, with the implementation's own division (`Lemmas/PolyDiv.lean`).
-/
import GivaroModel.Lemmas.PolyDiv

open Polynomial
set_option linter.unusedSectionVars false

namespace Givaro.Lemmas.Poly
open Givaro.Model.Poly

variable {K : Type} [Field K] [DecidableEq K]

/-! ### plain gcd -/

/-- `d` is a greatest common divisor of `a` and `b` -/
def IsGcdOf (d a b : K[X]) : Prop := d ∣ a ∧ d ∣ b ∧ ∀ e : K[X], e ∣ a → e ∣ b → e ∣ d

theorem isGcdOf_step (d u g : K[X]) (h : IsGcdOf d g (u % g)) : IsGcdOf d u g := by
  obtain ⟨h1, h2, h3⟩ := h
  have hu : u = g * (u / g) + u % g := (EuclideanDomain.div_add_mod u g).symm
  refine ⟨?_, h1, ?_⟩
  · rw [hu]; exact dvd_add (dvd_mul_of_dvd_left h1 _) h2
  · intro e he1 he2
    apply h3 e he2
    have : u % g = u - g * (u / g) := by rw [EuclideanDomain.mod_eq_sub_mul_div]
    rw [this]; exact dvd_sub he1 (dvd_mul_of_dvd_left he2 _)

theorem isGcdOf_swap (d a b : K[X]) (h : IsGcdOf d a b) : IsGcdOf d b a :=
  ⟨h.2.1, h.1, fun e h1 h2 => h.2.2 e h2 h1⟩

theorem gcdLoop_spec (thr : Nat) (hthr : 1 ≤ thr) :
    ∀ (fuel : Nat) (U G : List K), toPoly G ≠ 0 → (setdegree G).length + 1 ≤ fuel →
      ∃ D, gcdLoop thr fuel U G = some D ∧ toPoly D ≠ 0 ∧ IsGcdOf (toPoly D) (toPoly U) (toPoly G) := by
  intro fuel
  induction fuel with
  | zero => intro U G _ h; omega
  | succ fuel ih =>
    intro U G hg hf
    unfold gcdLoop
    extract_lets R
    have tR : toPoly R = toPoly U % toPoly G := by
      simp only [R]; rw [toPoly_setdegree]; exact (toPoly_divmod thr hthr U G hg).2
    split
    · next hz =>
      have hR0 : toPoly U % toPoly G = 0 := by rw [← tR]; exact (degree_neg_iff R).mp hz
      refine ⟨G, rfl, hg, ?_⟩
      apply isGcdOf_step
      rw [hR0]
      exact ⟨dvd_refl _, dvd_zero _, fun e h1 _ => h1⟩
    · next hz =>
      have hRne : toPoly R ≠ 0 := fun h0 => hz ((degree_neg_iff R).mpr h0)
      have hlen : (setdegree (assign R)).length < (setdegree G).length := by
        have hd : (toPoly (assign R)).degree < (toPoly G).degree := by
          simp only [assign]; rw [toPoly_setdegree, tR]; exact degree_mod_lt _ hg
        exact plen_lt_of_degree_lt (assign R) G hg hd
      obtain ⟨D, hD, hDne, hgcd⟩ := ih (assign G) (assign R)
        (by simp only [assign]; rw [toPoly_setdegree]; exact hRne) (by omega)
      refine ⟨D, hD, hDne, ?_⟩
      simp only [assign] at hgcd
      rw [toPoly_setdegree, toPoly_setdegree, tR] at hgcd
      exact isGcdOf_step _ _ _ hgcd

theorem isGcdOf_unit (c : K) (hc : c ≠ 0) (a b : K[X]) (hb : b = C c) : IsGcdOf b a b := by
  refine ⟨?_, dvd_refl _, fun e _ h2 => h2⟩
  rw [hb]
  exact ⟨C c⁻¹ * a, by rw [← mul_assoc, ← C_mul, mul_inv_cancel₀ hc]; simp⟩

/-- Tier B `gcd_exact`: plain `gcd(G,P,Q)` returns (within `size(P)+size(Q)+1` rounds) a greatest common divisor -/
theorem gcd_spec (thr : Nat) (hthr : 1 ≤ thr) (fuel : Nat) (P Q : List K) (hf : P.length + Q.length + 1 ≤ fuel) :
    ∃ D, Model.Poly.gcd thr fuel P Q = some D ∧ IsGcdOf (toPoly D) (toPoly P) (toPoly Q) := by
  unfold Model.Poly.gcd
  split
  · next hc =>
    refine ⟨assign Q, rfl, ?_⟩
    simp only [assign]; rw [toPoly_setdegree]
    rcases hc with h | h
    · have hp : toPoly P = 0 := (degree_neg_iff P).mp h
      rw [hp]; exact ⟨dvd_zero _, dvd_refl _, fun e _ h2 => h2⟩
    · obtain ⟨c, hc0, hQc, _⟩ := degree_zero_elim Q h
      exact isGcdOf_unit c hc0 _ _ hQc
  · next hc1 =>
    split
    · next hc =>
      refine ⟨assign P, rfl, ?_⟩
      simp only [assign]; rw [toPoly_setdegree]
      apply isGcdOf_swap
      rcases hc with h | h
      · have hq : toPoly Q = 0 := (degree_neg_iff Q).mp h
        rw [hq]; exact ⟨dvd_zero _, dvd_refl _, fun e _ h2 => h2⟩
      · obtain ⟨c, hc0, hPc, _⟩ := degree_zero_elim P h
        exact isGcdOf_unit c hc0 _ _ hPc
    · next hc2 =>
      have hP : toPoly P ≠ 0 := fun h0 => hc1 (Or.inl ((degree_neg_iff P).mpr h0))
      have hQ : toPoly Q ≠ 0 := fun h0 => hc2 (Or.inl ((degree_neg_iff Q).mpr h0))
      have lP := length_setdegree_le P
      have lQ := length_setdegree_le Q
      have key : ∃ D, (if Model.Poly.degree P ≥ Model.Poly.degree Q then gcdLoop thr fuel (assign P) (assign Q)
            else gcdLoop thr fuel (assign Q) (assign P)) = some D ∧ toPoly D ≠ 0 ∧
            IsGcdOf (toPoly D) (toPoly P) (toPoly Q) := by
        split
        · obtain ⟨D, h1, h2, h3⟩ := gcdLoop_spec thr hthr fuel (assign P) (assign Q)
            (by simp only [assign]; rw [toPoly_setdegree]; exact hQ)
            (by have := length_setdegree_le (assign Q); simp only [assign] at this ⊢; omega)
          simp only [assign] at h3; rw [toPoly_setdegree, toPoly_setdegree] at h3
          exact ⟨D, h1, h2, h3⟩
        · obtain ⟨D, h1, h2, h3⟩ := gcdLoop_spec thr hthr fuel (assign Q) (assign P)
            (by simp only [assign]; rw [toPoly_setdegree]; exact hP)
            (by have := length_setdegree_le (assign P); simp only [assign] at this ⊢; omega)
          simp only [assign] at h3; rw [toPoly_setdegree, toPoly_setdegree] at h3
          exact ⟨D, h1, h2, isGcdOf_swap _ _ _ h3⟩
      obtain ⟨D, hD, hDne, hgcd⟩ := key
      rw [hD]
      simp only
      split
      · next hle =>
        refine ⟨[1], rfl, ?_⟩
        -- D is a non-zero constant: 1 is a gcd as well
        have hd0 : Model.Poly.degree D = 0 := by
          have : ¬ Model.Poly.degree D < 0 := fun h => hDne ((degree_neg_iff D).mp h)
          omega
        obtain ⟨c, hc0, hDc, _⟩ := degree_zero_elim D hd0
        have h1 : toPoly ([1] : List K) = 1 := by simp
        rw [h1]
        refine ⟨one_dvd _, one_dvd _, ?_⟩
        intro e he1 he2
        have := hgcd.2.2 e he1 he2
        rw [hDc] at this
        have hu : (C c : K[X]) ∣ 1 := ⟨C c⁻¹, by rw [← C_mul, mul_inv_cancel₀ hc0]; simp⟩
        exact dvd_trans this hu
      · exact ⟨D, rfl, hgcd⟩

/-! ### pow -/

theorem powLoop_spec (thr : Nat) : ∀ (fuel p : Nat) (W Pw : List K), p + 1 ≤ fuel →
    toPoly (powLoop thr fuel p W Pw) = toPoly W * toPoly Pw ^ p := by
  intro fuel
  induction fuel with
  | zero => intro p W Pw h; omega
  | succ fuel ih =>
    intro p W Pw hf
    unfold powLoop
    split
    · next h0 => subst h0; simp
    · next h0 =>
      extract_lets W' Pw'
      rw [ih (p / 2) W' Pw' (by omega)]
      have hp : p = 2 * (p / 2) + p % 2 := (Nat.div_add_mod p 2).symm
      have tW : toPoly W' = toPoly W * toPoly Pw ^ (p % 2) := by
        simp only [W']
        split
        · next h1 => simp only [assign]; rw [toPoly_setdegree, toPoly_mul, h1, pow_one]
        · next h1 => have : p % 2 = 0 := by omega
                     rw [this, pow_zero, mul_one]
      have tP : toPoly Pw' ^ (p / 2) = (toPoly Pw * toPoly Pw) ^ (p / 2) := by
        simp only [Pw']
        split
        · next h1 => simp only [assign]; rw [toPoly_setdegree, toPoly_mul]
        · next h1 => have : p / 2 = 0 := by omega
                     rw [this, pow_zero, pow_zero]
      rw [tW, tP]
      conv_rhs => rw [hp]
      rw [pow_add, pow_mul, pow_two]
      ring

/-- `pow(W,P,n)` is `P^n` for every `n` and every threshold -/
theorem toPoly_pow (thr : Nat) (P : List K) (n : Nat) : toPoly (Model.Poly.pow thr P n) = toPoly P ^ n := by
  unfold Model.Poly.pow
  rw [powLoop_spec thr (n + 1) n _ _ (le_refl _)]
  simp only [assign]; rw [toPoly_setdegree, toPoly_setdegree]; simp

/-! ### invmod -/

theorem leadcoef_eq_leadingCoeff (P : List K) : leadcoef P = (toPoly P).leadingCoeff := by
  by_cases h0 : toPoly P = 0
  · have : setdegree P = [] := by
      by_contra hne; exact (setdegree_ne_nil_iff P).mp hne h0
    unfold leadcoef; rw [this, h0]; simp
  · have hne := (setdegree_ne_nil_iff P).mpr h0
    have hl := length_setdegree_pos P h0
    unfold leadcoef leadingCoeff
    rw [natDegree_toPoly P h0, ← toPoly_setdegree P, coeff_toPoly, List.getLast?_eq_getElem?,
      List.getD_eq_getElem?_getD]

theorem invmodLoop_eq (thr : Nat) (divf : List K → List K → List K) :
    ∀ (fuel : Nat) (F G S0 S1 T0 T1 : List K),
      invmodLoop thr divf fuel F G S0 S1 = (gcdextLoop thr divf fuel F G S0 S1 T0 T1).map (fun r => r.2.1) := by
  intro fuel
  induction fuel with
  | zero => intro F G S0 S1 T0 T1; rfl
  | succ fuel ih =>
    intro F G S0 S1 T0 T1
    unfold invmodLoop gcdextLoop
    split
    · rfl
    · exact ih _ _ _ _ _ _

theorem gcdextLoop_monic (thr : Nat) (divf : List K → List K → List K) :
    ∀ (fuel : Nat) (F G S0 S1 T0 T1 F' S' T' : List K), Monic (toPoly F) → (toPoly G = 0 ∨ Monic (toPoly G)) →
      gcdextLoop thr divf fuel F G S0 S1 T0 T1 = some (F', S', T') → Monic (toPoly F') := by
  intro fuel
  induction fuel with
  | zero => intro F G S0 S1 T0 T1 F' S' T' _ _ h; simp [gcdextLoop] at h
  | succ fuel ih =>
    intro F G S0 S1 T0 T1 F' S' T' hF hG h
    unfold gcdextLoop at h
    split at h
    · simp only [Option.some.injEq, Prod.mk.injEq] at h
      obtain ⟨rfl, _, _⟩ := h
      exact hF
    · next hz =>
      extract_lets Q R1 r1 at h
      have hg : toPoly G ≠ 0 := fun h0 => hz ((isZero_iff G).mpr h0)
      have hGm : Monic (toPoly G) := hG.resolve_left hg
      apply ih _ _ _ _ _ _ F' S' T' ?_ ?_ h
      · simp only [assign]; rw [toPoly_setdegree]; exact hGm
      · rw [toPoly_divVal]
        by_cases hR : toPoly R1 = 0
        · left; rw [hR, zero_mul]
        · right
          have hl : leadcoef R1 ≠ 0 := leadcoef_ne_zero R1 hR
          have : r1 = (toPoly R1).leadingCoeff := by
            simp only [r1]; rw [if_neg hl, leadcoef_eq_leadingCoeff]
          rw [this]
          exact monic_mul_leadingCoeff_inv hR

/-- Tier B `invmod_exact`: `invmod(S0,A,B)` for coprime operands and a non-zero modulus returns `U` with `U·A ≡ 1 (mod B)` -/
theorem invmod_spec (thr : Nat) (hthr : 1 ≤ thr) (fuel : Nat) (A B : List K) (hf : B.length + 1 ≤ fuel)
    (hb : toPoly B ≠ 0) (hcop : ∀ E : K[X], E ∣ toPoly A → E ∣ toPoly B → E ∣ 1) :
    ∃ U, Model.Poly.invmod thr fuel A B = some U ∧ toPoly B ∣ toPoly U * toPoly A - 1 := by
  unfold Model.Poly.invmod
  split
  · next hc =>
    refine ⟨_, rfl, ?_⟩
    rw [toPoly_assignC]
    by_cases hA : Model.Poly.degree A ≤ 0
    · by_cases hA0 : toPoly A = 0
      · -- then B is a unit
        have hu : toPoly B ∣ 1 := hcop _ (by rw [hA0]; exact dvd_zero _) (dvd_refl _)
        exact dvd_trans hu (one_dvd _)
      · have hd : Model.Poly.degree A = 0 := by
          have : ¬ Model.Poly.degree A < 0 := fun h => hA0 ((degree_neg_iff A).mp h)
          omega
        obtain ⟨c, hc0, hAc, hlc⟩ := degree_zero_elim A hd
        rw [hlc, hAc, ← C_mul, inv_mul_cancel₀ hc0]; simp
    · have hB : Model.Poly.degree B ≤ 0 := hc.resolve_left hA
      have hd : Model.Poly.degree B = 0 := by
        have : ¬ Model.Poly.degree B < 0 := fun h => hb ((degree_neg_iff B).mp h)
        omega
      obtain ⟨c, hc0, hBc, _⟩ := degree_zero_elim B hd
      rw [hBc]
      exact ⟨C c⁻¹ * (C (leadcoef A)⁻¹ * toPoly A - 1), by rw [← mul_assoc, ← C_mul, mul_inv_cancel₀ hc0]; simp⟩
  · next hc =>
    have hA1 : ¬ Model.Poly.degree A ≤ 0 := fun h => hc (Or.inl h)
    have hB1 : ¬ Model.Poly.degree B ≤ 0 := fun h => hc (Or.inr h)
    have ha : toPoly A ≠ 0 := fun h0 => hA1 (by have := (degree_neg_iff A).mpr h0; omega)
    -- the extended gcd takes the same branch with the same arguments
    have hg : gcdext thr (Model.Poly.div thr) fuel A B
        = gcdextLoop thr (Model.Poly.div thr) fuel (divVal (assign A) (leadcoef A)) (divVal (assign B) (leadcoef B))
            (assignC (leadcoef A)⁻¹) [] [] (assignC (leadcoef B)⁻¹) := by
      unfold gcdext
      rw [if_neg (by omega), if_neg (by omega)]
    obtain ⟨F', S', T', hr, hbez, hdA, hdB⟩ := gcdext_total thr hthr fuel A B hf
    rw [hg] at hr
    rw [invmodLoop_eq thr _ fuel _ _ _ _ [] (assignC (leadcoef B)⁻¹), hr]
    refine ⟨S', rfl, ?_⟩
    have hm0 : Monic (toPoly (divVal (assign A) (leadcoef A))) := by
      rw [toPoly_divVal]; simp only [assign]; rw [toPoly_setdegree, leadcoef_eq_leadingCoeff]
      exact monic_mul_leadingCoeff_inv ha
    have hm1 : toPoly (divVal (assign B) (leadcoef B)) = 0 ∨ Monic (toPoly (divVal (assign B) (leadcoef B))) := by
      right
      rw [toPoly_divVal]; simp only [assign]; rw [toPoly_setdegree, leadcoef_eq_leadingCoeff]
      exact monic_mul_leadingCoeff_inv hb
    have hmon := gcdextLoop_monic thr _ fuel _ _ _ _ _ _ F' S' T' hm0 hm1 hr
    have hF1 : toPoly F' = 1 := hmon.eq_one_of_isUnit (isUnit_of_dvd_one (hcop _ hdA hdB))
    rw [hF1] at hbez
    exact ⟨-toPoly T', by rw [← hbez]; ring⟩

/-! ### lcm -/

/-- invariants of the loop of `lcm`, and what they give on exit: a gcd `f'` with Bezout cofactors and `S1·f' = -c·y` -/
theorem lcmLoop_spec (thr : Nat) (hthr : 1 ≤ thr) (x y : K[X]) :
    ∀ (fuel : Nat) (F G S0 S1 T0 T1 : List K) (c : K), c ≠ 0 →
      toPoly S0 * x + toPoly T0 * y = toPoly F →
      toPoly S1 * x + toPoly T1 * y = toPoly G →
      toPoly S0 * toPoly T1 - toPoly S1 * toPoly T0 = C c →
      (∀ D : K[X], D ∣ toPoly F → D ∣ toPoly G → D ∣ x ∧ D ∣ y) →
      (setdegree G).length + 1 ≤ fuel →
      ∃ (S' : List K) (f' u v : K[X]) (c' : K), lcmLoop thr (Model.Poly.div thr) fuel F G S0 S1 T0 T1 = some S' ∧
        c' ≠ 0 ∧ f' ∣ x ∧ f' ∣ y ∧ u * x + v * y = f' ∧ toPoly S' * f' = -(C c') * y := by
  intro fuel
  induction fuel with
  | zero => intro F G S0 S1 T0 T1 c _ _ _ _ _ h; omega
  | succ fuel ih =>
    intro F G S0 S1 T0 T1 c hc h0 h1 hdet hd hf
    unfold lcmLoop
    split
    · next hz =>
      have hG : toPoly G = 0 := (isZero_iff G).mp hz
      have hdv := hd (toPoly F) (dvd_refl _) (by rw [hG]; exact dvd_zero _)
      refine ⟨S1, toPoly F, toPoly S0, toPoly T0, c, rfl, hc, hdv.1, hdv.2, h0, ?_⟩
      rw [hG] at h1
      have e : toPoly S1 * toPoly F = -(toPoly S0 * toPoly T1 - toPoly S1 * toPoly T0) * y
          + toPoly S0 * (toPoly S1 * x + toPoly T1 * y) := by rw [← h0]; ring
      rw [e, h1, hdet]; ring
    · next hz =>
      extract_lets Q R1 r1
      have hg : toPoly G ≠ 0 := fun h => hz ((isZero_iff G).mpr h)
      have hr1 : r1 ≠ 0 := by
        simp only [r1]
        split
        · exact one_ne_zero
        · next hne => exact hne
      have tQ : toPoly Q = toPoly F / toPoly G := toPoly_div thr hthr F G hg
      have hR1 : toPoly R1 = toPoly F - toPoly Q * toPoly G := by
        simp only [R1, maxpy]; rw [toPoly_sub, toPoly_mul]
      have tR1 : toPoly R1 = toPoly F % toPoly G := by
        rw [hR1, tQ, EuclideanDomain.mod_eq_sub_mul_div]; ring
      have hlen : (setdegree (divVal R1 r1)).length < (setdegree G).length := by
        apply plen_lt_of_degree_lt _ G hg
        rw [toPoly_divVal, tR1, degree_mul_C (inv_ne_zero hr1)]
        exact degree_mod_lt _ hg
      apply ih _ _ _ _ _ _ (-(c * r1⁻¹)) (by simp [hc, hr1]) ?_ ?_ ?_ ?_ (by omega)
      · simp only [assign]; rw [toPoly_setdegree, toPoly_setdegree, toPoly_setdegree]; exact h1
      · rw [toPoly_divVal, toPoly_divVal, toPoly_divVal, toPoly_sub, toPoly_sub, toPoly_mul, toPoly_mul, hR1,
          ← h0, ← h1]
        ring
      · simp only [assign]
        rw [toPoly_setdegree, toPoly_setdegree, toPoly_divVal, toPoly_divVal, toPoly_sub, toPoly_sub,
          toPoly_mul, toPoly_mul]
        have : toPoly S1 * ((toPoly T0 - toPoly Q * toPoly T1) * C r1⁻¹)
            - (toPoly S0 - toPoly Q * toPoly S1) * C r1⁻¹ * toPoly T1
            = -(toPoly S0 * toPoly T1 - toPoly S1 * toPoly T0) * C r1⁻¹ := by ring
        rw [this, hdet, ← C_neg, ← C_mul]; congr 1; ring
      · intro D hD1 hD2
        simp only [assign] at hD1
        rw [toPoly_setdegree] at hD1
        rw [toPoly_divVal] at hD2
        have hDR : D ∣ toPoly R1 := dvd_of_dvd_mul_C_inv D _ r1 hr1 hD2
        have hDF : D ∣ toPoly F := by
          have : toPoly F = toPoly R1 + toPoly Q * toPoly G := by rw [hR1]; ring
          rw [this]; exact dvd_add hDR (dvd_mul_of_dvd_right hD1 _)
        exact hd D hDF hD1

/-- `l` is a least common multiple of `a` and `b` -/
def IsLcmOf (l a b : K[X]) : Prop := a ∣ l ∧ b ∣ l ∧ ∀ m : K[X], a ∣ m → b ∣ m → l ∣ m

theorem isLcmOf_swap (l a b : K[X]) (h : IsLcmOf l a b) : IsLcmOf l b a :=
  ⟨h.2.1, h.1, fun m h1 h2 => h.2.2 m h2 h1⟩

/-- from the exit relations of the loop: `s·x` is a least common multiple of `x ≠ 0` and `y` -/
theorem isLcmOf_of_exit (x y s f u v : K[X]) (c : K) (hc : c ≠ 0) (hx : x ≠ 0) (hfx : f ∣ x) (_hfy : f ∣ y)
    (hbez : u * x + v * y = f) (hs : s * f = -(C c) * y) : IsLcmOf (s * x) x y := by
  have hf0 : f ≠ 0 := by
    intro h0; rw [h0] at hfx; exact hx (zero_dvd_iff.mp hfx)
  obtain ⟨x', hx'⟩ := hfx
  have hL : s * x = -(C c) * x' * y := by
    apply mul_right_cancel₀ hf0
    calc s * x * f = (s * f) * x := by ring
      _ = -(C c) * y * (f * x') := by rw [hs, ← hx']
      _ = -(C c) * x' * y * f := by ring
  refine ⟨dvd_mul_left _ _, ⟨-(C c) * x', by rw [hL]; ring⟩, ?_⟩
  intro m ⟨a, ha⟩ ⟨b, hb⟩
  -- m·f = x·y·(b·u + a·v), and (s·x)·f = -c·x·y
  have h1 : m * f = x * y * (b * u + a * v) := by
    calc m * f = m * (u * x) + m * (v * y) := by rw [← hbez]; ring
      _ = (y * b) * (u * x) + (x * a) * (v * y) := by rw [← hb, ← ha]
      _ = x * y * (b * u + a * v) := by ring
  have h2 : s * x * f = -(C c) * (x * y) := by rw [mul_right_comm, hs]; ring
  have hcu : (C c : K[X]) * C c⁻¹ = 1 := by rw [← C_mul, mul_inv_cancel₀ hc]; simp
  refine ⟨-(C c⁻¹) * (b * u + a * v), ?_⟩
  apply mul_right_cancel₀ hf0
  calc m * f = x * y * (b * u + a * v) := h1
    _ = (C c * C c⁻¹) * (x * y) * (b * u + a * v) := by rw [hcu, one_mul]
    _ = (-(C c) * (x * y)) * (-(C c⁻¹) * (b * u + a * v)) := by ring
    _ = s * x * (-(C c⁻¹) * (b * u + a * v)) * f := by rw [← h2]; ring

theorem isLcmOf_unit (c : K) (hc : c ≠ 0) (a b : K[X]) (hb : b = C c) : IsLcmOf a a b := by
  refine ⟨dvd_refl _, ?_, fun m h1 _ => h1⟩
  rw [hb]
  exact ⟨C c⁻¹ * a, by rw [← mul_assoc, ← C_mul, mul_inv_cancel₀ hc]; simp⟩

/-- Tier B `lcm_exact`: `lcm(F,A,B)` returns a least common multiple (zero when an operand is zero) -/
theorem lcm_spec (thr : Nat) (hthr : 1 ≤ thr) (fuel : Nat) (A B : List K) (hf : A.length + B.length + 1 ≤ fuel) :
    ∃ L, Model.Poly.lcm thr fuel A B = some L ∧ IsLcmOf (toPoly L) (toPoly A) (toPoly B) := by
  unfold Model.Poly.lcm
  split
  · next h =>
    have ha : toPoly A = 0 := (degree_neg_iff A).mp h
    refine ⟨[], rfl, ?_⟩
    rw [ha, toPoly_nil]
    exact ⟨dvd_refl _, dvd_zero _, fun m h1 _ => h1⟩
  · next hA =>
    split
    · next h =>
      have hb : toPoly B = 0 := (degree_neg_iff B).mp h
      refine ⟨[], rfl, ?_⟩
      rw [hb, toPoly_nil]
      exact ⟨dvd_zero _, dvd_refl _, fun m _ h2 => h2⟩
    · next hB =>
      split
      · next h =>
        obtain ⟨c, hc0, hBc, _⟩ := degree_zero_elim B h
        refine ⟨assign A, rfl, ?_⟩
        simp only [assign]; rw [toPoly_setdegree]
        exact isLcmOf_unit c hc0 _ _ hBc
      · next hB0 =>
        split
        · next h =>
          obtain ⟨c, hc0, hAc, _⟩ := degree_zero_elim A h
          refine ⟨assign B, rfl, ?_⟩
          simp only [assign]; rw [toPoly_setdegree]
          exact isLcmOf_swap _ _ _ (isLcmOf_unit c hc0 _ _ hAc)
        · next hA0 =>
          extract_lets Xs Ys
          have ha : toPoly A ≠ 0 := fun h0 => hA ((degree_neg_iff A).mpr h0)
          have hb : toPoly B ≠ 0 := fun h0 => hB ((degree_neg_iff B).mpr h0)
          have hXY : (Xs = A ∧ Ys = B) ∨ (Xs = B ∧ Ys = A) := by
            simp only [Xs, Ys]; split
            · exact Or.inl ⟨rfl, rfl⟩
            · exact Or.inr ⟨rfl, rfl⟩
          have hx : toPoly Xs ≠ 0 := by rcases hXY with ⟨h1, _⟩ | ⟨h1, _⟩ <;> rw [h1] <;> assumption
          have hy : toPoly Ys ≠ 0 := by rcases hXY with ⟨_, h1⟩ | ⟨_, h1⟩ <;> rw [h1] <;> assumption
          have hlx := leadcoef_ne_zero Xs hx
          have hly := leadcoef_ne_zero Ys hy
          have hfy : Ys.length ≤ A.length + B.length := by
            rcases hXY with ⟨_, h1⟩ | ⟨_, h1⟩ <;> rw [h1] <;> omega
          obtain ⟨S', f', u, v, c', hres, hc', hfx, hfy', hbez, hs⟩ :=
            lcmLoop_spec thr hthr (toPoly Xs) (toPoly Ys) fuel
              (divVal (assign Xs) (leadcoef Xs)) (divVal (assign Ys) (leadcoef Ys))
              (assignC (leadcoef Xs)⁻¹) [] [] (assignC (leadcoef Ys)⁻¹)
              ((leadcoef Xs)⁻¹ * (leadcoef Ys)⁻¹) (by simp [hlx, hly])
              (by rw [toPoly_assignC, toPoly_divVal]; simp only [assign]; rw [toPoly_setdegree]; simp; ring)
              (by rw [toPoly_assignC, toPoly_divVal]; simp only [assign]; rw [toPoly_setdegree]; simp; ring)
              (by rw [toPoly_assignC, toPoly_assignC]; simp [C_mul])
              (by
                intro D hD1 hD2
                rw [toPoly_divVal] at hD1 hD2
                simp only [assign] at hD1 hD2
                rw [toPoly_setdegree] at hD1 hD2
                exact ⟨dvd_of_dvd_mul_C_inv D _ _ hlx hD1, dvd_of_dvd_mul_C_inv D _ _ hly hD2⟩)
              (by
                have h1 := plen_divVal_le (assign Ys) (leadcoef Ys)
                have h2 := length_setdegree_le Ys
                have h3 : (assign Ys).length = (setdegree Ys).length := rfl
                omega)
          rw [hres]
          refine ⟨mul thr S' Xs, rfl, ?_⟩
          rw [toPoly_mul]
          have hl := isLcmOf_of_exit (toPoly Xs) (toPoly Ys) (toPoly S') f' u v c' hc' hx hfx hfy' hbez hs
          rcases hXY with ⟨h1, h2⟩ | ⟨h1, h2⟩
          · rw [h1, h2] at hl; rw [h1]; exact hl
          · rw [h1, h2] at hl; rw [h1]; exact isLcmOf_swap _ _ _ hl

/-! ### `modin`: the in-place long division -/

theorem toPoly_append_zero (L : List K) : toPoly (L ++ [0]) = toPoly L := by
  rw [toPoly_append]; simp

theorem toPoly_append_dropWhile_reverse (A cs : List K) :
    toPoly (A ++ (cs.dropWhile (fun c => decide (c = 0))).reverse) = toPoly (A ++ cs.reverse) := by
  induction cs with
  | nil => simp
  | cons c cs ih =>
    by_cases hc : c = 0
    · have : (c :: cs).dropWhile (fun c => decide (c = 0)) = cs.dropWhile (fun c => decide (c = 0)) := by
        simp [List.dropWhile, hc]
      rw [this, ih, List.reverse_cons, ← List.append_assoc, hc, toPoly_append_zero]
    · have : (c :: cs).dropWhile (fun c => decide (c = 0)) = c :: cs := by
        simp [List.dropWhile, hc]
      rw [this]

theorem toPoly_zipWith_reverse (l : K) : ∀ (U V : List K), U.length = V.length →
    toPoly (List.zipWith (fun a b => a - l * b) U V).reverse = toPoly U.reverse - C l * toPoly V.reverse
  | [], [], _ => by simp
  | [], _ :: _, h => by simp at h
  | _ :: _, [], h => by simp at h
  | u :: U, v :: V, h => by
    have hl : U.length = V.length := by simpa using h
    have hz : (List.zipWith (fun a b => a - l * b) U V).length = U.length := by
      simp [List.length_zipWith, hl]
    simp only [List.zipWith_cons_cons, List.reverse_cons, toPoly_append, List.length_reverse, toPoly_cons, toPoly_nil,
      mul_zero, add_zero]
    rw [toPoly_zipWith_reverse l U V hl, hz, hl, C_sub, C_mul]
    ring

/-- one round: the window's polynomial loses `l·X^(|w|-|B|)·B`, and the window gets shorter -/
theorem modinStep_spec (b0 : K) (bt : List K) (hb0 : b0 ≠ 0) (w : List K) (hw : bt.length + 1 ≤ w.length) :
    (modinStep b0 bt w).length < w.length ∧
    ∃ q : K[X], toPoly (modinStep b0 bt w).reverse = toPoly w.reverse - q * toPoly (b0 :: bt).reverse := by
  cases w with
  | nil => simp at hw
  | cons w0 wt =>
    simp only [modinStep]
    have hlen : bt.length ≤ wt.length := by simpa using hw
    constructor
    · have h1 := (List.dropWhile_sublist (fun c => decide (c = 0)) (l := List.zipWith (fun a b => a - w0 / b0 * b) wt bt)).length_le
      simp only [List.length_append, List.length_drop, List.length_cons, List.length_zipWith] at h1 ⊢
      omega
    · refine ⟨C (w0 / b0) * X ^ (wt.length - bt.length), ?_⟩
      rw [List.reverse_append, toPoly_append_dropWhile_reverse, ← List.reverse_append]
      -- cs ++ rest, with cs over the first |bt| entries of wt
      have hz : List.zipWith (fun a b => a - w0 / b0 * b) wt bt
          = List.zipWith (fun a b => a - w0 / b0 * b) (wt.take bt.length) bt := by
        rw [List.zipWith_eq_zipWith_take_min]; simp [Nat.min_eq_right hlen]
      rw [hz, List.reverse_append, toPoly_append, List.length_reverse, List.length_drop,
        toPoly_zipWith_reverse _ _ _ (by rw [List.length_take]; omega)]
      have hwt : toPoly wt.reverse = toPoly (wt.drop bt.length).reverse
          + X ^ (wt.length - bt.length) * toPoly (wt.take bt.length).reverse := by
        conv_lhs => rw [← List.take_append_drop bt.length wt]
        rw [List.reverse_append, toPoly_append, List.length_reverse, List.length_drop]
      simp only [List.reverse_cons, toPoly_append, List.length_reverse, toPoly_cons, toPoly_nil, mul_zero, add_zero]
      rw [hwt]
      have hc : (C w0 : K[X]) = C (w0 / b0) * C b0 := by rw [← C_mul, div_mul_cancel₀ w0 hb0]
      have hx : (X : K[X]) ^ wt.length = X ^ (wt.length - bt.length) * X ^ bt.length := by
        rw [← pow_add]; congr 1; omega
      rw [hc, hx]
      ring

theorem modinLoop_spec (b0 : K) (bt : List K) (hb0 : b0 ≠ 0) :
    ∀ (fuel : Nat) (w : List K), w.length + 1 ≤ fuel + (bt.length + 1) ∨ w.length ≤ fuel →
      (modinLoop b0 bt fuel w).length ≤ bt.length ∧
      ∃ q : K[X], toPoly (modinLoop b0 bt fuel w).reverse = toPoly w.reverse - q * toPoly (b0 :: bt).reverse := by
  intro fuel
  induction fuel with
  | zero =>
    intro w h
    refine ⟨by simp only [modinLoop]; omega, 0, by simp [modinLoop]⟩
  | succ fuel ih =>
    intro w h
    unfold modinLoop
    split
    · next hge =>
      obtain ⟨hl, q1, hq1⟩ := modinStep_spec b0 bt hb0 w hge
      obtain ⟨hl2, q2, hq2⟩ := ih (modinStep b0 bt w) (by omega)
      exact ⟨hl2, q1 + q2, by rw [hq2, hq1]; ring⟩
    · next hlt => exact ⟨by omega, 0, by simp⟩

theorem mod_unique (a b r : K[X]) (hb : b ≠ 0) (hd : b ∣ a - r) (hdeg : r.degree < b.degree) : r = a % b := by
  have h1 : b ∣ a % b - r := by
    have : a % b - r = (a - r) - b * (a / b) := by rw [EuclideanDomain.mod_eq_sub_mul_div]; ring
    rw [this]; exact dvd_sub hd (dvd_mul_right _ _)
  have h2 : (a % b - r).degree < b.degree :=
    lt_of_le_of_lt (degree_sub_le _ _) (max_lt (degree_mod_lt _ hb) hdeg)
  have := eq_zero_of_dvd_of_degree_lt h1 h2
  exact (sub_eq_zero.mp this).symm

/-- Tier B `modin_exact`: `modin(A,B)` leaves `A mod B` in `A`, for every `A` and every non-zero `B` (any storage) -/
theorem toPoly_modin (A B : List K) (hb : toPoly B ≠ 0) : toPoly (modin A B) = toPoly A % toPoly B := by
  unfold modin
  have hne := (setdegree_ne_nil_iff B).mpr hb
  have hrev : (setdegree B).reverse ≠ [] := by simpa using hne
  cases hB : (setdegree B).reverse with
  | nil => exact absurd hB hrev
  | cons b0 bt =>
    simp only
    have hBn : setdegree B = (b0 :: bt).reverse := by rw [← hB, List.reverse_reverse]
    have hb0 : b0 ≠ 0 := by
      have hn := setdegree_normal B
      rw [hBn] at hn
      simpa [Normal, eq_comm] using hn
    have tB : toPoly (b0 :: bt).reverse = toPoly B := by rw [← hBn, toPoly_setdegree]
    obtain ⟨hl, q, hq⟩ := modinLoop_spec b0 bt hb0 (A.length + 1) (setdegree A).reverse
      (Or.inr (by have := length_setdegree_le A; simp only [List.length_reverse]; omega))
    rw [toPoly_setdegree]
    rw [List.reverse_reverse, toPoly_setdegree, tB] at hq
    apply mod_unique _ _ _ hb
    · exact ⟨q, by rw [hq]; ring⟩
    · -- fewer than |B| coefficients
      have hm := natDegree_toPoly B hb
      rw [hBn] at hm
      simp only [List.length_reverse, List.length_cons, Nat.add_sub_cancel] at hm
      rw [degree_eq_natDegree hb, hm]
      rw [degree_lt_iff_coeff_zero]
      intro m hm'
      rw [coeff_toPoly]
      exact getD_of_le _ _ (by rw [List.length_reverse]; omega)

/-! ### `powmod` -/

theorem toPoly_mod (thr : Nat) (hthr : 1 ≤ thr) (A B : List K) (hb : toPoly B ≠ 0) :
    toPoly (Model.Poly.mod thr A B) = toPoly A % toPoly B := by
  unfold Model.Poly.mod; exact (toPoly_divmod thr hthr A B hb).2

theorem dvd_pow_sub_pow (u x y : K[X]) (h : u ∣ x - y) (k : Nat) : u ∣ x ^ k - y ^ k := by
  induction k with
  | zero => simp
  | succ k ih =>
    have : x ^ (k + 1) - y ^ (k + 1) = x ^ k * (x - y) + (x ^ k - y ^ k) * y := by ring
    rw [this]; exact dvd_add (dvd_mul_of_dvd_right h _) (dvd_mul_of_dvd_left ih _)

theorem dvd_mod_sub (a u : K[X]) : u ∣ a % u - a := by
  have : a % u - a = -(u * (a / u)) := by rw [EuclideanDomain.mod_eq_sub_mul_div]; ring
  rw [this]; exact (dvd_neg).mpr (dvd_mul_right _ _)

theorem powmodLoop_spec (thr : Nat) (hthr : 1 ≤ thr) (U : List K) (hu : toPoly U ≠ 0) :
    ∀ (fuel n : Nat) (W Pw : List K), n + 1 ≤ fuel → (toPoly W).degree < (toPoly U).degree →
      (toPoly (powmodLoop thr U fuel n W Pw)).degree < (toPoly U).degree ∧
      toPoly U ∣ toPoly (powmodLoop thr U fuel n W Pw) - toPoly W * toPoly Pw ^ n := by
  intro fuel
  induction fuel with
  | zero => intro n W Pw h; omega
  | succ fuel ih =>
    intro n W Pw hf hW
    unfold powmodLoop
    split
    · next h0 => subst h0; exact ⟨hW, by simp⟩
    · next h0 =>
      extract_lets W'
      have hW' : (toPoly W').degree < (toPoly U).degree ∧
          toPoly U ∣ toPoly W' - toPoly W * toPoly Pw ^ (n % 2) := by
        simp only [W']
        split
        · next h1 =>
          rw [toPoly_modin _ _ hu]
          refine ⟨degree_mod_lt _ hu, ?_⟩
          simp only [mulin, assign]; rw [toPoly_setdegree, toPoly_mul, h1, pow_one]
          exact dvd_mod_sub _ _
        · next h1 =>
          have : n % 2 = 0 := by omega
          rw [this, pow_zero, mul_one, sub_self]; exact ⟨hW, dvd_zero _⟩
      have tS : toPoly (Model.Poly.mod thr (sqr thr Pw) U) = (toPoly Pw * toPoly Pw) % toPoly U := by
        rw [toPoly_mod thr hthr _ U hu, toPoly_sqr thr hthr]
      obtain ⟨hd, hdvd⟩ := ih (n / 2) W' (Model.Poly.mod thr (sqr thr Pw) U) (by omega) hW'.1
      refine ⟨hd, ?_⟩
      rw [tS] at hdvd
      have hp : n = 2 * (n / 2) + n % 2 := (Nat.div_add_mod n 2).symm
      have h2 : toPoly U ∣ ((toPoly Pw * toPoly Pw) % toPoly U) ^ (n / 2) - (toPoly Pw * toPoly Pw) ^ (n / 2) :=
        dvd_pow_sub_pow _ _ _ (dvd_mod_sub _ _) _
      have e : toPoly (powmodLoop thr U fuel (n / 2) W' (Model.Poly.mod thr (sqr thr Pw) U)) - toPoly W * toPoly Pw ^ n
          = (toPoly (powmodLoop thr U fuel (n / 2) W' (Model.Poly.mod thr (sqr thr Pw) U))
              - toPoly W' * ((toPoly Pw * toPoly Pw) % toPoly U) ^ (n / 2))
            + toPoly W' * (((toPoly Pw * toPoly Pw) % toPoly U) ^ (n / 2) - (toPoly Pw * toPoly Pw) ^ (n / 2))
            + (toPoly W' - toPoly W * toPoly Pw ^ (n % 2)) * (toPoly Pw * toPoly Pw) ^ (n / 2) := by
        have hpow : toPoly Pw ^ n = (toPoly Pw * toPoly Pw) ^ (n / 2) * toPoly Pw ^ (n % 2) := by
          conv_lhs => rw [hp]
          rw [pow_add, pow_mul, pow_two]
        rw [hpow]; ring
      rw [e]
      exact dvd_add (dvd_add hdvd (dvd_mul_of_dvd_right h2 _)) (dvd_mul_of_dvd_left hW'.2 _)

/-- Tier B `powmod_exact`: `powmod(W,P,n,U)` is `P^n mod U` for every exponent `n ≥ 0` of any size, every `P`, every
    non-zero `U`, every threshold ≥ 1 -/
theorem toPoly_powmod (thr : Nat) (hthr : 1 ≤ thr) (P : List K) (n : Nat) (U : List K) (hu : toPoly U ≠ 0) :
    toPoly (Model.Poly.powmod thr P n U) = (toPoly P ^ n) % toPoly U := by
  unfold Model.Poly.powmod
  rw [toPoly_setdegree]
  have t1 : toPoly (Model.Poly.mod thr [1] U) = 1 % toPoly U := by
    rw [toPoly_mod thr hthr _ U hu]; simp
  have tP : toPoly (Model.Poly.mod thr P U) = toPoly P % toPoly U := toPoly_mod thr hthr _ U hu
  obtain ⟨hd, hdvd⟩ := powmodLoop_spec thr hthr U hu (n + 1) n (Model.Poly.mod thr [1] U) (Model.Poly.mod thr P U)
    (le_refl _) (by rw [t1]; exact degree_mod_lt _ hu)
  apply mod_unique _ _ _ hu ?_ hd
  rw [t1, tP] at hdvd
  have h1 : toPoly U ∣ (toPoly P % toPoly U) ^ n - toPoly P ^ n := dvd_pow_sub_pow _ _ _ (dvd_mod_sub _ _) _
  have h0 : toPoly U ∣ (1 : K[X]) % toPoly U - 1 := dvd_mod_sub _ _
  set r := toPoly (powmodLoop thr U (n + 1) n (Model.Poly.mod thr [1] U) (Model.Poly.mod thr P U)) with hr
  have e : toPoly P ^ n - r = -(r - 1 % toPoly U * (toPoly P % toPoly U) ^ n)
      - (1 % toPoly U) * ((toPoly P % toPoly U) ^ n - toPoly P ^ n)
      - (1 % toPoly U - 1) * toPoly P ^ n := by ring
  rw [e]
  exact dvd_sub (dvd_sub ((dvd_neg).mpr hdvd) (dvd_mul_of_dvd_right h1 _)) (dvd_mul_of_dvd_left h0 _)

/-! ### `invmodunit` -/

theorem invmodunitLoop_spec (thr : Nat) (hthr : 1 ≤ thr) (a b : K[X]) :
    ∀ (fuel : Nat) (F G S0 S1 : List K),
      b ∣ toPoly S0 * a - toPoly F → b ∣ toPoly S1 * a - toPoly G →
      (∀ D : K[X], D ∣ toPoly F → D ∣ toPoly G → D ∣ a ∧ D ∣ b) →
      (setdegree G).length + 1 ≤ fuel →
      ∃ (Us : List K) (f : K[X]), invmodunitLoop thr fuel F G S0 S1 = some Us ∧
        b ∣ toPoly Us * a - f ∧ f ∣ a ∧ f ∣ b := by
  intro fuel
  induction fuel with
  | zero => intro F G S0 S1 _ _ _ h; omega
  | succ fuel ih =>
    intro F G S0 S1 h0 h1 hd hf
    unfold invmodunitLoop
    split
    · next hz =>
      have hG : toPoly G = 0 := (isZero_iff G).mp hz
      have := hd (toPoly F) (dvd_refl _) (by rw [hG]; exact dvd_zero _)
      exact ⟨S0, toPoly F, rfl, h0, this.1, this.2⟩
    · next hz =>
      extract_lets QR
      have hg : toPoly G ≠ 0 := fun h => hz ((isZero_iff G).mpr h)
      obtain ⟨tQ, tR⟩ := toPoly_divmod thr hthr F G hg
      have hlen : (setdegree (assign QR.2)).length < (setdegree G).length := by
        apply plen_lt_of_degree_lt _ G hg
        simp only [assign]; rw [toPoly_setdegree, tR]; exact degree_mod_lt _ hg
      have hmod : toPoly F % toPoly G = toPoly F - toPoly G * (toPoly F / toPoly G) :=
        EuclideanDomain.mod_eq_sub_mul_div _ _
      apply ih _ _ _ _ ?_ ?_ ?_ (by omega)
      · simp only [assign]; rw [toPoly_setdegree, toPoly_setdegree]; exact h1
      · simp only [assign]
        rw [toPoly_setdegree, toPoly_setdegree, toPoly_sub, toPoly_mul, tQ, tR, hmod]
        have : (toPoly S0 - toPoly F / toPoly G * toPoly S1) * a - (toPoly F - toPoly G * (toPoly F / toPoly G))
            = (toPoly S0 * a - toPoly F) - (toPoly F / toPoly G) * (toPoly S1 * a - toPoly G) := by ring
        rw [this]; exact dvd_sub h0 (dvd_mul_of_dvd_right h1 _)
      · intro D hD1 hD2
        simp only [assign] at hD1 hD2
        rw [toPoly_setdegree] at hD1 hD2
        rw [tR] at hD2
        have hDF : D ∣ toPoly F := by
          have : toPoly F = toPoly F % toPoly G + toPoly G * (toPoly F / toPoly G) := by rw [hmod]; ring
          rw [this]; exact dvd_add hD2 (dvd_mul_of_dvd_left hD1 _)
        exact hd D hDF hD1

/-- Tier B `invmodunit_exact`: for a non-zero modulus and coprime operands the result `U` satisfies
    `U·A ≡ e (mod B)` with `e` a non-zero constant -/
theorem invmodunit_spec (thr : Nat) (hthr : 1 ≤ thr) (fuel : Nat) (A B : List K) (hf : B.length + 1 ≤ fuel)
    (hb : toPoly B ≠ 0) (hcop : ∀ E : K[X], E ∣ toPoly A → E ∣ toPoly B → E ∣ 1) :
    ∃ (Us : List K) (e : K), Model.Poly.invmodunit thr fuel A B = some Us ∧ e ≠ 0 ∧
      toPoly B ∣ toPoly Us * toPoly A - C e := by
  have unit_const : ∀ f : K[X], f ∣ 1 → ∃ e : K, e ≠ 0 ∧ f = C e := by
    intro f hf1
    obtain ⟨r, hr, hC⟩ := Polynomial.isUnit_iff.mp (isUnit_of_dvd_one hf1)
    exact ⟨r, hr.ne_zero, hC.symm⟩
  unfold Model.Poly.invmodunit
  split
  · next hc =>
    have t1 : toPoly (assignC (1 : K)) = 1 := by rw [toPoly_assignC]; simp
    by_cases hA : Model.Poly.degree A ≤ 0
    · by_cases hA0 : toPoly A = 0
      · have hu : toPoly B ∣ 1 := hcop _ (by rw [hA0]; exact dvd_zero _) (dvd_refl _)
        exact ⟨_, 1, rfl, one_ne_zero, dvd_trans hu (one_dvd _)⟩
      · have hd : Model.Poly.degree A = 0 := by
          have : ¬ Model.Poly.degree A < 0 := fun h => hA0 ((degree_neg_iff A).mp h)
          omega
        obtain ⟨c, hc0, hAc, _⟩ := degree_zero_elim A hd
        exact ⟨_, c, rfl, hc0, by rw [t1, hAc]; simp⟩
    · have hB : Model.Poly.degree B ≤ 0 := hc.resolve_left hA
      have hd : Model.Poly.degree B = 0 := by
        have : ¬ Model.Poly.degree B < 0 := fun h => hb ((degree_neg_iff B).mp h)
        omega
      obtain ⟨c, hc0, hBc, _⟩ := degree_zero_elim B hd
      refine ⟨_, 1, rfl, one_ne_zero, ?_⟩
      rw [hBc]
      exact ⟨C c⁻¹ * (toPoly (assignC (1 : K)) * toPoly A - C 1), by rw [← mul_assoc, ← C_mul, mul_inv_cancel₀ hc0]; simp⟩
  · next hc =>
    obtain ⟨Us, f, hres, hdvd, hfa, hfb⟩ := invmodunitLoop_spec thr hthr (toPoly A) (toPoly B) fuel
      (assign A) (assign B) (assign [1]) (assign [])
      (by simp only [assign]; rw [toPoly_setdegree, toPoly_setdegree]; simp)
      (by simp only [assign]; rw [toPoly_setdegree, toPoly_setdegree]; simp)
      (by intro D h1 h2; simp only [assign] at h1 h2; rw [toPoly_setdegree] at h1 h2; exact ⟨h1, h2⟩)
      (by have h1 := length_setdegree_le (assign B); have h2 := length_setdegree_le B
          have h3 : (assign B).length = (setdegree B).length := rfl
          omega)
    obtain ⟨e, he, hfe⟩ := unit_const f (hcop f hfa hfb)
    exact ⟨Us, e, hres, he, by rw [← hfe]; exact hdvd⟩

end Givaro.Lemmas.Poly
