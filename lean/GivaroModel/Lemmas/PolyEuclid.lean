/-
C08 — the remainder-sequence loops (`gcd`, later `invmod`, `lcm`) and the square-and-multiply loop `pow` of
`Model/Poly.lean`, with the implementation's own division (`Lemmas/PolyDiv.lean`).
-/
import GivaroModel.Lemmas.PolyDiv

open Polynomial
set_option linter.unusedSectionVars false

namespace Givaro.Lemmas.Poly
open Givaro.Model.Poly

variable {K : Type} [Field K] [DecidableEq K]

/-! ### plain gcd -/

/-- `d` is a greatest common divisor of `a` and `b` -/
def IsGcdOf (d a b : K[X]) : Prop := d ∣ a ∧ d ∣ b ∧ ∀ e : K[X], e ∣ a → e ∣ b → e ∣ d

theorem isGcdOf_step (d u g : K[X]) (h : IsGcdOf d g (u % g)) : IsGcdOf d u g := by
  obtain ⟨h1, h2, h3⟩ := h
  have hu : u = g * (u / g) + u % g := (EuclideanDomain.div_add_mod u g).symm
  refine ⟨?_, h1, ?_⟩
  · rw [hu]; exact dvd_add (dvd_mul_of_dvd_left h1 _) h2
  · intro e he1 he2
    apply h3 e he2
    have : u % g = u - g * (u / g) := by rw [EuclideanDomain.mod_eq_sub_mul_div]
    rw [this]; exact dvd_sub he1 (dvd_mul_of_dvd_left he2 _)

theorem isGcdOf_swap (d a b : K[X]) (h : IsGcdOf d a b) : IsGcdOf d b a :=
  ⟨h.2.1, h.1, fun e h1 h2 => h.2.2 e h2 h1⟩

theorem gcdLoop_spec (thr : Nat) (hthr : 1 ≤ thr) :
    ∀ (fuel : Nat) (U G : List K), toPoly G ≠ 0 → (setdegree G).length + 1 ≤ fuel →
      ∃ D, gcdLoop thr fuel U G = some D ∧ toPoly D ≠ 0 ∧ IsGcdOf (toPoly D) (toPoly U) (toPoly G) := by
  intro fuel
  induction fuel with
  | zero => intro U G _ h; omega
  | succ fuel ih =>
    intro U G hg hf
    unfold gcdLoop
    extract_lets R
    have tR : toPoly R = toPoly U % toPoly G := by
      simp only [R]; rw [toPoly_setdegree]; exact (toPoly_divmod thr hthr U G hg).2
    split
    · next hz =>
      have hR0 : toPoly U % toPoly G = 0 := by rw [← tR]; exact (degree_neg_iff R).mp hz
      refine ⟨G, rfl, hg, ?_⟩
      apply isGcdOf_step
      rw [hR0]
      exact ⟨dvd_refl _, dvd_zero _, fun e h1 _ => h1⟩
    · next hz =>
      have hRne : toPoly R ≠ 0 := fun h0 => hz ((degree_neg_iff R).mpr h0)
      have hlen : (setdegree (assign R)).length < (setdegree G).length := by
        have hd : (toPoly (assign R)).degree < (toPoly G).degree := by
          simp only [assign]; rw [toPoly_setdegree, tR]; exact degree_mod_lt _ hg
        exact plen_lt_of_degree_lt (assign R) G hg hd
      obtain ⟨D, hD, hDne, hgcd⟩ := ih (assign G) (assign R)
        (by simp only [assign]; rw [toPoly_setdegree]; exact hRne) (by omega)
      refine ⟨D, hD, hDne, ?_⟩
      simp only [assign] at hgcd
      rw [toPoly_setdegree, toPoly_setdegree, tR] at hgcd
      exact isGcdOf_step _ _ _ hgcd

theorem isGcdOf_unit (c : K) (hc : c ≠ 0) (a b : K[X]) (hb : b = C c) : IsGcdOf b a b := by
  refine ⟨?_, dvd_refl _, fun e _ h2 => h2⟩
  rw [hb]
  exact ⟨C c⁻¹ * a, by rw [← mul_assoc, ← C_mul, mul_inv_cancel₀ hc]; simp⟩

/-- Tier B `gcd_exact`: plain `gcd(G,P,Q)` returns (within `size(P)+size(Q)+1` rounds) a greatest common divisor -/
theorem gcd_spec (thr : Nat) (hthr : 1 ≤ thr) (fuel : Nat) (P Q : List K) (hf : P.length + Q.length + 1 ≤ fuel) :
    ∃ D, Model.Poly.gcd thr fuel P Q = some D ∧ IsGcdOf (toPoly D) (toPoly P) (toPoly Q) := by
  unfold Model.Poly.gcd
  split
  · next hc =>
    refine ⟨assign Q, rfl, ?_⟩
    simp only [assign]; rw [toPoly_setdegree]
    rcases hc with h | h
    · have hp : toPoly P = 0 := (degree_neg_iff P).mp h
      rw [hp]; exact ⟨dvd_zero _, dvd_refl _, fun e _ h2 => h2⟩
    · obtain ⟨c, hc0, hQc, _⟩ := degree_zero_elim Q h
      exact isGcdOf_unit c hc0 _ _ hQc
  · next hc1 =>
    split
    · next hc =>
      refine ⟨assign P, rfl, ?_⟩
      simp only [assign]; rw [toPoly_setdegree]
      apply isGcdOf_swap
      rcases hc with h | h
      · have hq : toPoly Q = 0 := (degree_neg_iff Q).mp h
        rw [hq]; exact ⟨dvd_zero _, dvd_refl _, fun e _ h2 => h2⟩
      · obtain ⟨c, hc0, hPc, _⟩ := degree_zero_elim P h
        exact isGcdOf_unit c hc0 _ _ hPc
    · next hc2 =>
      have hP : toPoly P ≠ 0 := fun h0 => hc1 (Or.inl ((degree_neg_iff P).mpr h0))
      have hQ : toPoly Q ≠ 0 := fun h0 => hc2 (Or.inl ((degree_neg_iff Q).mpr h0))
      have lP := length_setdegree_le P
      have lQ := length_setdegree_le Q
      have key : ∃ D, (if Model.Poly.degree P ≥ Model.Poly.degree Q then gcdLoop thr fuel (assign P) (assign Q)
            else gcdLoop thr fuel (assign Q) (assign P)) = some D ∧ toPoly D ≠ 0 ∧
            IsGcdOf (toPoly D) (toPoly P) (toPoly Q) := by
        split
        · obtain ⟨D, h1, h2, h3⟩ := gcdLoop_spec thr hthr fuel (assign P) (assign Q)
            (by simp only [assign]; rw [toPoly_setdegree]; exact hQ)
            (by have := length_setdegree_le (assign Q); simp only [assign] at this ⊢; omega)
          simp only [assign] at h3; rw [toPoly_setdegree, toPoly_setdegree] at h3
          exact ⟨D, h1, h2, h3⟩
        · obtain ⟨D, h1, h2, h3⟩ := gcdLoop_spec thr hthr fuel (assign Q) (assign P)
            (by simp only [assign]; rw [toPoly_setdegree]; exact hP)
            (by have := length_setdegree_le (assign P); simp only [assign] at this ⊢; omega)
          simp only [assign] at h3; rw [toPoly_setdegree, toPoly_setdegree] at h3
          exact ⟨D, h1, h2, isGcdOf_swap _ _ _ h3⟩
      obtain ⟨D, hD, hDne, hgcd⟩ := key
      rw [hD]
      simp only
      split
      · next hle =>
        refine ⟨[1], rfl, ?_⟩
        -- D is a non-zero constant: 1 is a gcd as well
        have hd0 : Model.Poly.degree D = 0 := by
          have : ¬ Model.Poly.degree D < 0 := fun h => hDne ((degree_neg_iff D).mp h)
          omega
        obtain ⟨c, hc0, hDc, _⟩ := degree_zero_elim D hd0
        have h1 : toPoly ([1] : List K) = 1 := by simp
        rw [h1]
        refine ⟨one_dvd _, one_dvd _, ?_⟩
        intro e he1 he2
        have := hgcd.2.2 e he1 he2
        rw [hDc] at this
        have hu : (C c : K[X]) ∣ 1 := ⟨C c⁻¹, by rw [← C_mul, mul_inv_cancel₀ hc0]; simp⟩
        exact dvd_trans this hu
      · exact ⟨D, rfl, hgcd⟩

/-! ### pow -/

theorem powLoop_spec (thr : Nat) : ∀ (fuel p : Nat) (W Pw : List K), p + 1 ≤ fuel →
    toPoly (powLoop thr fuel p W Pw) = toPoly W * toPoly Pw ^ p := by
  intro fuel
  induction fuel with
  | zero => intro p W Pw h; omega
  | succ fuel ih =>
    intro p W Pw hf
    unfold powLoop
    split
    · next h0 => subst h0; simp
    · next h0 =>
      extract_lets W' Pw'
      rw [ih (p / 2) W' Pw' (by omega)]
      have hp : p = 2 * (p / 2) + p % 2 := (Nat.div_add_mod p 2).symm
      have tW : toPoly W' = toPoly W * toPoly Pw ^ (p % 2) := by
        simp only [W']
        split
        · next h1 => simp only [assign]; rw [toPoly_setdegree, toPoly_mul, h1, pow_one]
        · next h1 => have : p % 2 = 0 := by omega
                     rw [this, pow_zero, mul_one]
      have tP : toPoly Pw' ^ (p / 2) = (toPoly Pw * toPoly Pw) ^ (p / 2) := by
        simp only [Pw']
        split
        · next h1 => simp only [assign]; rw [toPoly_setdegree, toPoly_mul]
        · next h1 => have : p / 2 = 0 := by omega
                     rw [this, pow_zero, pow_zero]
      rw [tW, tP]
      conv_rhs => rw [hp]
      rw [pow_add, pow_mul, pow_two]
      ring

/-- `pow(W,P,n)` is `P^n` for every `n` and every threshold -/
theorem toPoly_pow (thr : Nat) (P : List K) (n : Nat) : toPoly (Model.Poly.pow thr P n) = toPoly P ^ n := by
  unfold Model.Poly.pow
  rw [powLoop_spec thr (n + 1) n _ _ (le_refl _)]
  simp only [assign]; rw [toPoly_setdegree, toPoly_setdegree]; simp

/-! ### invmod -/

theorem leadcoef_eq_leadingCoeff (P : List K) : leadcoef P = (toPoly P).leadingCoeff := by
  by_cases h0 : toPoly P = 0
  · have : setdegree P = [] := by
      by_contra hne; exact (setdegree_ne_nil_iff P).mp hne h0
    unfold leadcoef; rw [this, h0]; simp
  · have hne := (setdegree_ne_nil_iff P).mpr h0
    have hl := length_setdegree_pos P h0
    unfold leadcoef leadingCoeff
    rw [natDegree_toPoly P h0, ← toPoly_setdegree P, coeff_toPoly, List.getLast?_eq_getElem?,
      List.getD_eq_getElem?_getD]

theorem invmodLoop_eq (thr : Nat) (divf : List K → List K → List K) :
    ∀ (fuel : Nat) (F G S0 S1 T0 T1 : List K),
      invmodLoop thr divf fuel F G S0 S1 = (gcdextLoop thr divf fuel F G S0 S1 T0 T1).map (fun r => r.2.1) := by
  intro fuel
  induction fuel with
  | zero => intro F G S0 S1 T0 T1; rfl
  | succ fuel ih =>
    intro F G S0 S1 T0 T1
    unfold invmodLoop gcdextLoop
    split
    · rfl
    · exact ih _ _ _ _ _ _

theorem gcdextLoop_monic (thr : Nat) (divf : List K → List K → List K) :
    ∀ (fuel : Nat) (F G S0 S1 T0 T1 F' S' T' : List K), Monic (toPoly F) → (toPoly G = 0 ∨ Monic (toPoly G)) →
      gcdextLoop thr divf fuel F G S0 S1 T0 T1 = some (F', S', T') → Monic (toPoly F') := by
  intro fuel
  induction fuel with
  | zero => intro F G S0 S1 T0 T1 F' S' T' _ _ h; simp [gcdextLoop] at h
  | succ fuel ih =>
    intro F G S0 S1 T0 T1 F' S' T' hF hG h
    unfold gcdextLoop at h
    split at h
    · simp only [Option.some.injEq, Prod.mk.injEq] at h
      obtain ⟨rfl, _, _⟩ := h
      exact hF
    · next hz =>
      extract_lets Q R1 r1 at h
      have hg : toPoly G ≠ 0 := fun h0 => hz ((isZero_iff G).mpr h0)
      have hGm : Monic (toPoly G) := hG.resolve_left hg
      apply ih _ _ _ _ _ _ F' S' T' ?_ ?_ h
      · simp only [assign]; rw [toPoly_setdegree]; exact hGm
      · rw [toPoly_divVal]
        by_cases hR : toPoly R1 = 0
        · left; rw [hR, zero_mul]
        · right
          have hl : leadcoef R1 ≠ 0 := leadcoef_ne_zero R1 hR
          have : r1 = (toPoly R1).leadingCoeff := by
            simp only [r1]; rw [if_neg hl, leadcoef_eq_leadingCoeff]
          rw [this]
          exact monic_mul_leadingCoeff_inv hR

/-- Tier B `invmod_exact`: `invmod(S0,A,B)` for coprime operands and a non-zero modulus returns `U` with `U·A ≡ 1 (mod B)` -/
theorem invmod_spec (thr : Nat) (hthr : 1 ≤ thr) (fuel : Nat) (A B : List K) (hf : B.length + 1 ≤ fuel)
    (hb : toPoly B ≠ 0) (hcop : ∀ E : K[X], E ∣ toPoly A → E ∣ toPoly B → E ∣ 1) :
    ∃ U, Model.Poly.invmod thr fuel A B = some U ∧ toPoly B ∣ toPoly U * toPoly A - 1 := by
  unfold Model.Poly.invmod
  split
  · next hc =>
    refine ⟨_, rfl, ?_⟩
    rw [toPoly_assignC]
    by_cases hA : Model.Poly.degree A ≤ 0
    · by_cases hA0 : toPoly A = 0
      · -- then B is a unit
        have hu : toPoly B ∣ 1 := hcop _ (by rw [hA0]; exact dvd_zero _) (dvd_refl _)
        exact dvd_trans hu (one_dvd _)
      · have hd : Model.Poly.degree A = 0 := by
          have : ¬ Model.Poly.degree A < 0 := fun h => hA0 ((degree_neg_iff A).mp h)
          omega
        obtain ⟨c, hc0, hAc, hlc⟩ := degree_zero_elim A hd
        rw [hlc, hAc, ← C_mul, inv_mul_cancel₀ hc0]; simp
    · have hB : Model.Poly.degree B ≤ 0 := hc.resolve_left hA
      have hd : Model.Poly.degree B = 0 := by
        have : ¬ Model.Poly.degree B < 0 := fun h => hb ((degree_neg_iff B).mp h)
        omega
      obtain ⟨c, hc0, hBc, _⟩ := degree_zero_elim B hd
      rw [hBc]
      exact ⟨C c⁻¹ * (C (leadcoef A)⁻¹ * toPoly A - 1), by rw [← mul_assoc, ← C_mul, mul_inv_cancel₀ hc0]; simp⟩
  · next hc =>
    have hA1 : ¬ Model.Poly.degree A ≤ 0 := fun h => hc (Or.inl h)
    have hB1 : ¬ Model.Poly.degree B ≤ 0 := fun h => hc (Or.inr h)
    have ha : toPoly A ≠ 0 := fun h0 => hA1 (by have := (degree_neg_iff A).mpr h0; omega)
    -- the extended gcd takes the same branch with the same arguments
    have hg : gcdext thr (Model.Poly.div thr) fuel A B
        = gcdextLoop thr (Model.Poly.div thr) fuel (divVal (assign A) (leadcoef A)) (divVal (assign B) (leadcoef B))
            (assignC (leadcoef A)⁻¹) [] [] (assignC (leadcoef B)⁻¹) := by
      unfold gcdext
      rw [if_neg (by omega), if_neg (by omega)]
    obtain ⟨F', S', T', hr, hbez, hdA, hdB⟩ := gcdext_total thr hthr fuel A B hf
    rw [hg] at hr
    rw [invmodLoop_eq thr _ fuel _ _ _ _ [] (assignC (leadcoef B)⁻¹), hr]
    refine ⟨S', rfl, ?_⟩
    have hm0 : Monic (toPoly (divVal (assign A) (leadcoef A))) := by
      rw [toPoly_divVal]; simp only [assign]; rw [toPoly_setdegree, leadcoef_eq_leadingCoeff]
      exact monic_mul_leadingCoeff_inv ha
    have hm1 : toPoly (divVal (assign B) (leadcoef B)) = 0 ∨ Monic (toPoly (divVal (assign B) (leadcoef B))) := by
      right
      rw [toPoly_divVal]; simp only [assign]; rw [toPoly_setdegree, leadcoef_eq_leadingCoeff]
      exact monic_mul_leadingCoeff_inv hb
    have hmon := gcdextLoop_monic thr _ fuel _ _ _ _ _ _ F' S' T' hm0 hm1 hr
    have hF1 : toPoly F' = 1 := hmon.eq_one_of_isUnit (isUnit_of_dvd_one (hcop _ hdA hdB))
    rw [hF1] at hbez
    exact ⟨-toPoly T', by rw [← hbez]; ring⟩

/-! ### lcm -/

/-- invariants of the loop of `lcm`, and what they give on exit: a gcd `f'` with Bezout cofactors and `S1·f' = -c·y` -/
theorem lcmLoop_spec (thr : Nat) (hthr : 1 ≤ thr) (x y : K[X]) :
    ∀ (fuel : Nat) (F G S0 S1 T0 T1 : List K) (c : K), c ≠ 0 →
      toPoly S0 * x + toPoly T0 * y = toPoly F →
      toPoly S1 * x + toPoly T1 * y = toPoly G →
      toPoly S0 * toPoly T1 - toPoly S1 * toPoly T0 = C c →
      (∀ D : K[X], D ∣ toPoly F → D ∣ toPoly G → D ∣ x ∧ D ∣ y) →
      (setdegree G).length + 1 ≤ fuel →
      ∃ (S' : List K) (f' u v : K[X]) (c' : K), lcmLoop thr (Model.Poly.div thr) fuel F G S0 S1 T0 T1 = some S' ∧
        c' ≠ 0 ∧ f' ∣ x ∧ f' ∣ y ∧ u * x + v * y = f' ∧ toPoly S' * f' = -(C c') * y := by
  intro fuel
  induction fuel with
  | zero => intro F G S0 S1 T0 T1 c _ _ _ _ _ h; omega
  | succ fuel ih =>
    intro F G S0 S1 T0 T1 c hc h0 h1 hdet hd hf
    unfold lcmLoop
    split
    · next hz =>
      have hG : toPoly G = 0 := (isZero_iff G).mp hz
      have hdv := hd (toPoly F) (dvd_refl _) (by rw [hG]; exact dvd_zero _)
      refine ⟨S1, toPoly F, toPoly S0, toPoly T0, c, rfl, hc, hdv.1, hdv.2, h0, ?_⟩
      rw [hG] at h1
      have e : toPoly S1 * toPoly F = -(toPoly S0 * toPoly T1 - toPoly S1 * toPoly T0) * y
          + toPoly S0 * (toPoly S1 * x + toPoly T1 * y) := by rw [← h0]; ring
      rw [e, h1, hdet]; ring
    · next hz =>
      extract_lets Q R1 r1
      have hg : toPoly G ≠ 0 := fun h => hz ((isZero_iff G).mpr h)
      have hr1 : r1 ≠ 0 := by
        simp only [r1]
        split
        · exact one_ne_zero
        · next hne => exact hne
      have tQ : toPoly Q = toPoly F / toPoly G := toPoly_div thr hthr F G hg
      have hR1 : toPoly R1 = toPoly F - toPoly Q * toPoly G := by
        simp only [R1, maxpy]; rw [toPoly_sub, toPoly_mul]
      have tR1 : toPoly R1 = toPoly F % toPoly G := by
        rw [hR1, tQ, EuclideanDomain.mod_eq_sub_mul_div]; ring
      have hlen : (setdegree (divVal R1 r1)).length < (setdegree G).length := by
        apply plen_lt_of_degree_lt _ G hg
        rw [toPoly_divVal, tR1, degree_mul_C (inv_ne_zero hr1)]
        exact degree_mod_lt _ hg
      apply ih _ _ _ _ _ _ (-(c * r1⁻¹)) (by simp [hc, hr1]) ?_ ?_ ?_ ?_ (by omega)
      · simp only [assign]; rw [toPoly_setdegree, toPoly_setdegree, toPoly_setdegree]; exact h1
      · rw [toPoly_divVal, toPoly_divVal, toPoly_divVal, toPoly_sub, toPoly_sub, toPoly_mul, toPoly_mul, hR1,
          ← h0, ← h1]
        ring
      · simp only [assign]
        rw [toPoly_setdegree, toPoly_setdegree, toPoly_divVal, toPoly_divVal, toPoly_sub, toPoly_sub,
          toPoly_mul, toPoly_mul]
        have : toPoly S1 * ((toPoly T0 - toPoly Q * toPoly T1) * C r1⁻¹)
            - (toPoly S0 - toPoly Q * toPoly S1) * C r1⁻¹ * toPoly T1
            = -(toPoly S0 * toPoly T1 - toPoly S1 * toPoly T0) * C r1⁻¹ := by ring
        rw [this, hdet, ← C_neg, ← C_mul]; congr 1; ring
      · intro D hD1 hD2
        simp only [assign] at hD1
        rw [toPoly_setdegree] at hD1
        rw [toPoly_divVal] at hD2
        have hDR : D ∣ toPoly R1 := dvd_of_dvd_mul_C_inv D _ r1 hr1 hD2
        have hDF : D ∣ toPoly F := by
          have : toPoly F = toPoly R1 + toPoly Q * toPoly G := by rw [hR1]; ring
          rw [this]; exact dvd_add hDR (dvd_mul_of_dvd_right hD1 _)
        exact hd D hDF hD1

/-- `l` is a least common multiple of `a` and `b` -/
def IsLcmOf (l a b : K[X]) : Prop := a ∣ l ∧ b ∣ l ∧ ∀ m : K[X], a ∣ m → b ∣ m → l ∣ m

theorem isLcmOf_swap (l a b : K[X]) (h : IsLcmOf l a b) : IsLcmOf l b a :=
  ⟨h.2.1, h.1, fun m h1 h2 => h.2.2 m h2 h1⟩

/-- from the exit relations of the loop: `s·x` is a least common multiple of `x ≠ 0` and `y` -/
theorem isLcmOf_of_exit (x y s f u v : K[X]) (c : K) (hc : c ≠ 0) (hx : x ≠ 0) (hfx : f ∣ x) (_hfy : f ∣ y)
    (hbez : u * x + v * y = f) (hs : s * f = -(C c) * y) : IsLcmOf (s * x) x y := by
  have hf0 : f ≠ 0 := by
    intro h0; rw [h0] at hfx; exact hx (zero_dvd_iff.mp hfx)
  obtain ⟨x', hx'⟩ := hfx
  have hL : s * x = -(C c) * x' * y := by
    apply mul_right_cancel₀ hf0
    calc s * x * f = (s * f) * x := by ring
      _ = -(C c) * y * (f * x') := by rw [hs, ← hx']
      _ = -(C c) * x' * y * f := by ring
  refine ⟨dvd_mul_left _ _, ⟨-(C c) * x', by rw [hL]; ring⟩, ?_⟩
  intro m ⟨a, ha⟩ ⟨b, hb⟩
  -- m·f = x·y·(b·u + a·v), and (s·x)·f = -c·x·y
  have h1 : m * f = x * y * (b * u + a * v) := by
    calc m * f = m * (u * x) + m * (v * y) := by rw [← hbez]; ring
      _ = (y * b) * (u * x) + (x * a) * (v * y) := by rw [← hb, ← ha]
      _ = x * y * (b * u + a * v) := by ring
  have h2 : s * x * f = -(C c) * (x * y) := by rw [mul_right_comm, hs]; ring
  have hcu : (C c : K[X]) * C c⁻¹ = 1 := by rw [← C_mul, mul_inv_cancel₀ hc]; simp
  refine ⟨-(C c⁻¹) * (b * u + a * v), ?_⟩
  apply mul_right_cancel₀ hf0
  calc m * f = x * y * (b * u + a * v) := h1
    _ = (C c * C c⁻¹) * (x * y) * (b * u + a * v) := by rw [hcu, one_mul]
    _ = (-(C c) * (x * y)) * (-(C c⁻¹) * (b * u + a * v)) := by ring
    _ = s * x * (-(C c⁻¹) * (b * u + a * v)) * f := by rw [← h2]; ring

theorem isLcmOf_unit (c : K) (hc : c ≠ 0) (a b : K[X]) (hb : b = C c) : IsLcmOf a a b := by
  refine ⟨dvd_refl _, ?_, fun m h1 _ => h1⟩
  rw [hb]
  exact ⟨C c⁻¹ * a, by rw [← mul_assoc, ← C_mul, mul_inv_cancel₀ hc]; simp⟩

/-- Tier B `lcm_exact`: `lcm(F,A,B)` returns a least common multiple (zero when an operand is zero) -/
theorem lcm_spec (thr : Nat) (hthr : 1 ≤ thr) (fuel : Nat) (A B : List K) (hf : A.length + B.length + 1 ≤ fuel) :
    ∃ L, Model.Poly.lcm thr fuel A B = some L ∧ IsLcmOf (toPoly L) (toPoly A) (toPoly B) := by
  unfold Model.Poly.lcm
  split
  · next h =>
    have ha : toPoly A = 0 := (degree_neg_iff A).mp h
    refine ⟨[], rfl, ?_⟩
    rw [ha, toPoly_nil]
    exact ⟨dvd_refl _, dvd_zero _, fun m h1 _ => h1⟩
  · next hA =>
    split
    · next h =>
      have hb : toPoly B = 0 := (degree_neg_iff B).mp h
      refine ⟨[], rfl, ?_⟩
      rw [hb, toPoly_nil]
      exact ⟨dvd_zero _, dvd_refl _, fun m _ h2 => h2⟩
    · next hB =>
      split
      · next h =>
        obtain ⟨c, hc0, hBc, _⟩ := degree_zero_elim B h
        refine ⟨assign A, rfl, ?_⟩
        simp only [assign]; rw [toPoly_setdegree]
        exact isLcmOf_unit c hc0 _ _ hBc
      · next hB0 =>
        split
        · next h =>
          obtain ⟨c, hc0, hAc, _⟩ := degree_zero_elim A h
          refine ⟨assign B, rfl, ?_⟩
          simp only [assign]; rw [toPoly_setdegree]
          exact isLcmOf_swap _ _ _ (isLcmOf_unit c hc0 _ _ hAc)
        · next hA0 =>
          extract_lets Xs Ys
          have ha : toPoly A ≠ 0 := fun h0 => hA ((degree_neg_iff A).mpr h0)
          have hb : toPoly B ≠ 0 := fun h0 => hB ((degree_neg_iff B).mpr h0)
          have hXY : (Xs = A ∧ Ys = B) ∨ (Xs = B ∧ Ys = A) := by
            simp only [Xs, Ys]; split
            · exact Or.inl ⟨rfl, rfl⟩
            · exact Or.inr ⟨rfl, rfl⟩
          have hx : toPoly Xs ≠ 0 := by rcases hXY with ⟨h1, _⟩ | ⟨h1, _⟩ <;> rw [h1] <;> assumption
          have hy : toPoly Ys ≠ 0 := by rcases hXY with ⟨_, h1⟩ | ⟨_, h1⟩ <;> rw [h1] <;> assumption
          have hlx := leadcoef_ne_zero Xs hx
          have hly := leadcoef_ne_zero Ys hy
          have hfy : Ys.length ≤ A.length + B.length := by
            rcases hXY with ⟨_, h1⟩ | ⟨_, h1⟩ <;> rw [h1] <;> omega
          obtain ⟨S', f', u, v, c', hres, hc', hfx, hfy', hbez, hs⟩ :=
            lcmLoop_spec thr hthr (toPoly Xs) (toPoly Ys) fuel
              (divVal (assign Xs) (leadcoef Xs)) (divVal (assign Ys) (leadcoef Ys))
              (assignC (leadcoef Xs)⁻¹) [] [] (assignC (leadcoef Ys)⁻¹)
              ((leadcoef Xs)⁻¹ * (leadcoef Ys)⁻¹) (by simp [hlx, hly])
              (by rw [toPoly_assignC, toPoly_divVal]; simp only [assign]; rw [toPoly_setdegree]; simp; ring)
              (by rw [toPoly_assignC, toPoly_divVal]; simp only [assign]; rw [toPoly_setdegree]; simp; ring)
              (by rw [toPoly_assignC, toPoly_assignC]; simp [C_mul])
              (by
                intro D hD1 hD2
                rw [toPoly_divVal] at hD1 hD2
                simp only [assign] at hD1 hD2
                rw [toPoly_setdegree] at hD1 hD2
                exact ⟨dvd_of_dvd_mul_C_inv D _ _ hlx hD1, dvd_of_dvd_mul_C_inv D _ _ hly hD2⟩)
              (by
                have h1 := plen_divVal_le (assign Ys) (leadcoef Ys)
                have h2 := length_setdegree_le Ys
                have h3 : (assign Ys).length = (setdegree Ys).length := rfl
                omega)
          rw [hres]
          refine ⟨mul thr S' Xs, rfl, ?_⟩
          rw [toPoly_mul]
          have hl := isLcmOf_of_exit (toPoly Xs) (toPoly Ys) (toPoly S') f' u v c' hc' hx hfx hfy' hbez hs
          rcases hXY with ⟨h1, h2⟩ | ⟨h1, h2⟩
          · rw [h1, h2] at hl; rw [h1]; exact hl
          · rw [h1, h2] at hl; rw [h1]; exact isLcmOf_swap _ _ _ hl

end Givaro.Lemmas.Poly
