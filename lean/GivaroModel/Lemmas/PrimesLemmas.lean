/-
C12 — helper lemmas for Props/C12.lean: trial division, the two prime-walk loops, the division loop and the outer
loop of `IntFactorDom::set`, membership in the divisor list.
-/
import GivaroModel.Model.Primes
import GivaroModel.Spec.PrimesSpec
import Mathlib.Data.Nat.Prime.Basic
import Mathlib.Data.Nat.Prime.Infinite
import Mathlib.Data.Nat.GCD.Basic
import Mathlib.Data.List.Nodup
import Mathlib.Algebra.BigOperators.Group.List.Basic
import Mathlib.Tactic.Linarith
import Mathlib.Tactic.Ring
namespace Givaro.Lemmas.Primes
open Givaro Givaro.Model.Primes Givaro.Spec.Primes

theorem noDivFrom_iff (n : Nat) : ∀ (fuel d : Nat), 2 ≤ d → n < fuel + d →
    (noDivFrom n fuel d = true ↔ ∀ k, d ≤ k → k * k ≤ n → ¬ k ∣ n) := by
  intro fuel
  induction fuel with
  | zero =>
    intro d hd hf
    simp only [noDivFrom, true_iff]
    intro k hk hkk
    have : k ≤ k * k := Nat.le_mul_self k
    omega
  | succ f ih =>
    intro d hd hf
    unfold noDivFrom
    by_cases h1 : n < d * d
    · simp only [h1, ↓reduceIte, true_iff]
      intro k hk hkk
      have : d * d ≤ k * k := Nat.mul_le_mul hk hk
      omega
    · simp only [h1, ↓reduceIte]
      by_cases h2 : n % d = 0
      · simp only [h2, ↓reduceIte, Bool.false_eq_true, false_iff]
        intro h
        exact h d (Nat.le_refl d) (by omega) (Nat.dvd_of_mod_eq_zero h2)
      · simp only [h2, ↓reduceIte]
        rw [ih (d + 1) (by omega) (by omega)]
        constructor
        · intro h k hk hkk
          by_cases hkd : k = d
          · subst hkd; intro hdvd; exact h2 (Nat.mod_eq_zero_of_dvd hdvd)
          · exact h k (by omega) hkk
        · intro h k hk hkk
          exact h k (by omega) hkk


theorem not_prime_even (m : Int) (h4 : 4 ≤ m) (he : m % 2 = 0) : ¬ Nat.Prime m.toNat := by
  intro hp
  have h2 : (2 : Nat) ∣ m.toNat := by
    apply Nat.dvd_of_mod_eq_zero
    omega
  have := (Nat.prime_dvd_prime_iff_eq Nat.prime_two hp).1 h2
  omega

theorem not_prime_le_one (m : Int) (h : m ≤ 1) : ¬ Nat.Prime m.toNat := by
  intro hp
  have := hp.two_le
  omega

theorem upLoop_spec (isp : Int → Bool) : ∀ (fuel : Nat) (n r : Int), upLoop isp fuel n = some r →
    isp r = true ∧ n ≤ r ∧ (r - n) % 2 = 0 ∧ ∀ m, n ≤ m → m < r → (m - n) % 2 = 0 → isp m = false := by
  intro fuel
  induction fuel with
  | zero => intro n r h; simp [upLoop] at h
  | succ f ih =>
    intro n r h
    unfold upLoop at h
    by_cases hn : isp n = true
    · simp only [hn, ↓reduceIte, Option.some.injEq] at h
      subst h
      exact ⟨hn, Int.le_refl _, by omega, fun m h1 h2 _ => by omega⟩
    · simp only [hn, Bool.false_eq_true, ↓reduceIte] at h
      obtain ⟨a, b, c, d⟩ := ih (n + 2) r h
      refine ⟨a, by omega, by omega, fun m h1 h2 h3 => ?_⟩
      by_cases hm : m = n
      · subst hm; simpa using hn
      · exact d m (by omega) h2 (by omega)

theorem downLoop_spec (isp : Int → Bool) : ∀ (fuel : Nat) (n r : Int), downLoop isp fuel n = some r →
    isp r = true ∧ r ≤ n ∧ (n - r) % 2 = 0 ∧ ∀ m, r < m → m ≤ n → (n - m) % 2 = 0 → isp m = false := by
  intro fuel
  induction fuel with
  | zero => intro n r h; simp [downLoop] at h
  | succ f ih =>
    intro n r h
    unfold downLoop at h
    by_cases hn : isp n = true
    · simp only [hn, ↓reduceIte, Option.some.injEq] at h
      subst h
      exact ⟨hn, Int.le_refl _, by omega, fun m h1 h2 _ => by omega⟩
    · simp only [hn, Bool.false_eq_true, ↓reduceIte] at h
      obtain ⟨a, b, c, d⟩ := ih (n - 2) r h
      refine ⟨a, by omega, by omega, fun m h1 h2 h3 => ?_⟩
      by_cases hm : m = n
      · subst hm; simpa using hn
      · exact d m h1 (by omega) (by omega)

theorem upLoop_some (isp : Int → Bool) : ∀ (k : Nat) (n : Int), isp (n + 2 * (k : Int)) = true → ∃ r, upLoop isp (k + 1) n = some r := by
  intro k
  induction k with
  | zero => intro n h; simp only [Nat.cast_zero, Int.mul_zero, Int.add_zero] at h; exact ⟨n, by simp [upLoop, h]⟩
  | succ j ih =>
    intro n h
    unfold upLoop
    by_cases hn : isp n = true
    · exact ⟨n, by simp [hn]⟩
    · simp only [hn, Bool.false_eq_true, ↓reduceIte]
      apply ih (n + 2)
      have : n + 2 + 2 * (j : Int) = n + 2 * ((j + 1 : Nat) : Int) := by omega
      rw [this]; exact h

theorem downLoop_some (isp : Int → Bool) : ∀ (k : Nat) (n : Int), isp (n - 2 * (k : Int)) = true → ∃ r, downLoop isp (k + 1) n = some r := by
  intro k
  induction k with
  | zero => intro n h; simp only [Nat.cast_zero, Int.mul_zero, Int.sub_zero] at h; exact ⟨n, by simp [downLoop, h]⟩
  | succ j ih =>
    intro n h
    unfold downLoop
    by_cases hn : isp n = true
    · exact ⟨n, by simp [hn]⟩
    · simp only [hn, Bool.false_eq_true, ↓reduceIte]
      apply ih (n - 2)
      have : n - 2 - 2 * (j : Int) = n - 2 * ((j + 1 : Nat) : Int) := by omega
      rw [this]; exact h


theorem prodPow_eq (fs : List (Nat × Nat)) : prodPow fs = (fs.map (fun pe => pe.1 ^ pe.2)).prod := by
  induction fs with
  | nil => rfl
  | cons a l ih => obtain ⟨p, e⟩ := a; simp [prodPow, ih]

theorem prodPow_reverse (fs : List (Nat × Nat)) : prodPow fs.reverse = prodPow fs := by
  rw [prodPow_eq, prodPow_eq, List.map_reverse, List.prod_reverse]

theorem divLoop_spec (g : Nat) (hg : 2 ≤ g) : ∀ (fuel u c : Nat), 1 ≤ u → u < fuel →
    ∃ u' k, divLoop g fuel u c = some (u', c + 1 + k) ∧ u' * g ^ k = u ∧ ¬ g ∣ u' ∧ 1 ≤ u' := by
  intro fuel
  induction fuel with
  | zero => intro u c h1 h2; omega
  | succ f ih =>
    intro u c h1 h2
    unfold divLoop
    by_cases hd : u % g = 0
    · simp only [hd, ↓reduceIte]
      have hdvd : g ∣ u := Nat.dvd_of_mod_eq_zero hd
      obtain ⟨q, hq⟩ := hdvd
      have hq1 : 1 ≤ q := by
        rcases Nat.eq_zero_or_pos q with h | h
        · subst h; omega
        · exact h
      have hdiv : u / g = q := by rw [hq]; exact Nat.mul_div_cancel_left q (by omega)
      have hlt : q < f := by
        have : q * 2 ≤ q * g := Nat.mul_le_mul_left q hg
        have : g * q = q * g := Nat.mul_comm g q
        omega
      obtain ⟨u', k, e1, e2, e3, e4⟩ := ih q (c + 1) hq1 hlt
      refine ⟨u', k + 1, ?_, ?_, e3, e4⟩
      · rw [hdiv, e1]; congr 2; omega
      · rw [hq, ← e2, pow_succ]; ring
    · simp only [hd, ↓reduceIte]
      refine ⟨u, 0, by simp, by simp, ?_, h1⟩
      intro hdv; exact hd (Nat.mod_eq_zero_of_dvd hdv)

theorem setLoop_spec (pf : Nat → Nat) (hpf : ∀ m, 1 < m → Nat.Prime (pf m) ∧ pf m ∣ m) (N : Nat) :
    ∀ (fuel nn : Nat) (acc : List (Nat × Nat)), 1 ≤ nn → nn < fuel →
      (∀ pe ∈ acc, Nat.Prime pe.1 ∧ 1 ≤ pe.2 ∧ ¬ pe.1 ∣ nn) → (acc.map Prod.fst).Nodup → prodPow acc * nn = N →
      ∃ fs, setLoop pf fuel nn acc true = some (fs, true) ∧ (∀ pe ∈ fs, Nat.Prime pe.1 ∧ 1 ≤ pe.2) ∧
        (fs.map Prod.fst).Nodup ∧ prodPow fs = N := by
  intro fuel
  induction fuel with
  | zero => intro nn acc h1 h2; omega
  | succ f ih =>
    intro nn acc h1 h2 hacc hnd hprod
    unfold setLoop
    by_cases hle : nn ≤ 1
    · simp only [hle, ↓reduceIte]
      have hnn : nn = 1 := by omega
      refine ⟨acc.reverse, rfl, ?_, ?_, ?_⟩
      · intro pe hpe
        have := hacc pe (List.mem_reverse.1 hpe)
        exact ⟨this.1, this.2.1⟩
      · rw [List.map_reverse]; exact List.nodup_reverse.2 hnd
      · rw [prodPow_reverse, ← hprod, hnn, Nat.mul_one]
    · simp only [hle, ↓reduceIte]
      obtain ⟨hgp, hgd⟩ := hpf nn (by omega)
      have hg2 := hgp.two_le
      have hg1 : pf nn ≠ 1 := by omega
      simp only [hg1, ↓reduceIte]
      have hq : pf nn * (nn / pf nn) = nn := Nat.mul_div_cancel' hgd
      generalize hqdef : nn / pf nn = q at hq
      have hq1 : 1 ≤ q := by
        rcases Nat.eq_zero_or_pos q with h | h
        · subst h; omega
        · exact h
      have hqlt : q < nn + 1 := by
        have : q * 2 ≤ q * pf nn := Nat.mul_le_mul_left q hg2
        have : pf nn * q = q * pf nn := Nat.mul_comm _ _
        omega
      obtain ⟨u', k, e1, e2, e3, e4⟩ := divLoop_spec (pf nn) hg2 (nn + 1) q 0 hq1 hqlt
      rw [e1]
      simp only
      have hnn' : u' * pf nn ^ (k + 1) = nn := by
        calc u' * pf nn ^ (k + 1) = pf nn * (u' * pf nn ^ k) := by rw [pow_succ]; ring
          _ = nn := by rw [e2, hq]
      have hu'dvd : u' ∣ nn := ⟨pf nn ^ (k + 1), hnn'.symm⟩
      have hlt' : u' < f := by
        have h2k : 2 ≤ pf nn ^ (k + 1) := by
          calc 2 ≤ pf nn := hg2
            _ = pf nn ^ 1 := (pow_one _).symm
            _ ≤ pf nn ^ (k + 1) := Nat.pow_le_pow_right (by omega) (by omega)
        have : u' * 2 ≤ u' * pf nn ^ (k + 1) := Nat.mul_le_mul_left u' h2k
        omega
      apply ih u' ((pf nn, 0 + 1 + k) :: acc) e4 hlt'
      · intro pe hpe
        rcases List.mem_cons.1 hpe with h | h
        · subst h; exact ⟨hgp, by simp, e3⟩
        · obtain ⟨a, b, c⟩ := hacc pe h
          exact ⟨a, b, fun hd => c (Nat.dvd_trans hd hu'dvd)⟩
      · rw [List.map_cons, List.nodup_cons]
        refine ⟨?_, hnd⟩
        intro hmem
        obtain ⟨pe, hpe, hfst⟩ := List.mem_map.1 hmem
        have := (hacc pe hpe).2.2
        rw [hfst] at this
        exact this hgd
      · have h3 : 0 + 1 + k = k + 1 := by omega
        calc prodPow ((pf nn, 0 + 1 + k) :: acc) * u' = prodPow acc * (u' * pf nn ^ (k + 1)) := by
              simp only [prodPow, h3]; ring
          _ = N := by rw [hnn', hprod]


theorem mem_mulChain (p : Nat) : ∀ (e d x : Nat), x ∈ mulChain p e d ↔ ∃ i, 1 ≤ i ∧ i ≤ e ∧ x = d * p ^ i := by
  intro e
  induction e with
  | zero => intro d x; simp only [mulChain, List.not_mem_nil, false_iff]; rintro ⟨i, h1, h2, _⟩; omega
  | succ k ih =>
    intro d x
    simp only [mulChain, List.mem_cons, ih]
    constructor
    · rintro (h | ⟨i, h1, h2, h3⟩)
      · exact ⟨1, by omega, by omega, by simpa using h⟩
      · exact ⟨i + 1, by omega, by omega, by rw [h3, pow_succ]; ring⟩
    · rintro ⟨i, h1, h2, h3⟩
      by_cases hi : i = 1
      · left; subst hi; simpa using h3
      · right
        refine ⟨i - 1, by omega, by omega, ?_⟩
        have : i = (i - 1) + 1 := by omega
        rw [h3]; conv_lhs => rw [this, pow_succ]
        ring

theorem mem_divisorsStep (res : List Nat) (p e x : Nat) :
    x ∈ divisorsStep res (p, e) ↔ ∃ d ∈ res, ∃ i, i ≤ e ∧ x = d * p ^ i := by
  simp only [divisorsStep, List.mem_append, List.mem_flatMap, mem_mulChain]
  constructor
  · rintro (h | ⟨d, hd, i, h1, h2, h3⟩)
    · exact ⟨x, h, 0, by omega, by simp⟩
    · exact ⟨d, hd, i, h2, h3⟩
  · rintro ⟨d, hd, i, h2, h3⟩
    by_cases hi : i = 0
    · left; subst hi; simpa [h3] using hd
    · right; exact ⟨d, hd, i, by omega, h2, h3⟩

theorem dvd_mul_prime_pow (p : Nat) (hp : Nat.Prime p) (M e x : Nat) :
    x ∣ M * p ^ e ↔ ∃ d, d ∣ M ∧ ∃ i, i ≤ e ∧ x = d * p ^ i := by
  rw [Nat.dvd_mul]
  constructor
  · rintro ⟨y, z, hy, hz, hyz⟩
    obtain ⟨i, hi, hzi⟩ := (Nat.dvd_prime_pow hp).1 hz
    exact ⟨y, hy, i, hi, by rw [← hyz, hzi]⟩
  · rintro ⟨d, hd, i, hi, hx⟩
    exact ⟨d, p ^ i, hd, (Nat.dvd_prime_pow hp).2 ⟨i, hi, rfl⟩, hx.symm⟩

theorem mem_foldl_divisors : ∀ (fs : List (Nat × Nat)) (res : List Nat) (M : Nat),
    (∀ x, x ∈ res ↔ x ∣ M) → (∀ pe ∈ fs, Nat.Prime pe.1) →
    ∀ x, x ∈ fs.foldl divisorsStep res ↔ x ∣ M * prodPow fs := by
  intro fs
  induction fs with
  | nil => intro res M h _ x; simp [prodPow, h]
  | cons a l ih =>
    intro res M h hp x
    obtain ⟨p, e⟩ := a
    have hpp : Nat.Prime p := hp (p, e) (by simp)
    rw [List.foldl_cons, ih (divisorsStep res (p, e)) (M * p ^ e) ?_ (fun pe hpe => hp pe (List.mem_cons_of_mem _ hpe)) x]
    · simp only [prodPow]; rw [Nat.mul_assoc]
    · intro y
      rw [mem_divisorsStep, dvd_mul_prime_pow p hpp]
      constructor
      · rintro ⟨d, hd, r⟩; exact ⟨d, (h d).1 hd, r⟩
      · rintro ⟨d, hd, r⟩; exact ⟨d, (h d).2 hd, r⟩


end Givaro.Lemmas.Primes
